import PhyModel.Proofs.PG14
/-! # C01, stage 3, part 6: the executable conditional SMC sweep `SMC.csmc` followed by the final draw
has, for every test function, the expectation given by the abstract kernel `ASMC.kernel` of the
PhyClone specification with `κ = u = 1/N` — given the retained path (`PathOK`) and the injectivity of
placements (`Inj`), both discharged in `PG16`/`PG17`. -/

namespace PhyModel.PG
open Finset BigOperators Proposal PGSpec Orders.Forest

variable {dt : Data} {c : Cfg} {σ : List ℕ} {L : List T}

theorem range_map_const_eq_ofFn {α : Type} (m : ℕ) (a : α) :
    (List.range m).map (fun _ => a) = List.ofFn (fun _ : Fin m => a) := by
  rw [List.ofFn_const, List.map_const', List.length_range]

/-- **the first step** (`_init_swarm`): every slot starts from the empty tree -/
theorem init_E (h : Hyp dt c σ) (hinj : Inj c σ) (hL : ∀ x ∈ states c σ, x ∈ L) (θ : ℚ) (m : ℕ)
    {x : T} {path : ℕ → St L} (hp : PathOK c σ x path) (hne : σ ≠ []) (H : SMC.Swarm → ℚ) :
    Dist.E (SMC.initSwarm (runOf dt c m θ) x σ) H
      = ASMC.propC (spec dt c σ (uN m) L hL θ m) 0 (path 1) (ASMC.S0 (spec dt c σ (uN m) L hL θ m))
          (fun S' => H (swOf S')) := by
  obtain ⟨i, rest, rfl⟩ := List.exists_cons_of_ne_nil hne
  have hi : (i :: rest)[0]? = some i := rfl
  have hlen : 0 < (i :: rest).length := by simp
  have hlast : rest.isEmpty = (0 + 1 == (i :: rest).length) := by
    cases rest <;> simp
  have hemp : (T.empty : T) ∈ level c (i :: rest) 0 := by simp [level]
  let e0 : St L := (spec dt c (i :: rest) (uN m) L hL θ m).x0
  have he0 : e0.1 = T.empty := rfl
  have hp0 : (path 0).1 = T.empty := by
    have := hp.lvl 0 (Nat.zero_le _)
    simpa [level] using this
  have hpath0 : path 0 = e0 := Subtype.ext (hp0.trans he0.symm)
  have hch : (path 1).1 ∈ children c e0.1 i := by
    have := hp.child 0 hlen
    rw [hp0] at this
    exact this
  have hκ : (if (0 : ℕ) = 0 then uN m else (1 : ℚ)) = uN m := if_pos rfl
  have hu0 : uN m ≠ 0 := ne_of_gt (uN_pos m)
  unfold SMC.initSwarm
  simp only [runOf, Nat.add_sub_cancel]
  rw [E_fmap, range_map_const_eq_ofFn, proposeAll_eq]
  rw [E_seqD m _ (fun _ (y : St L) => (spec dt c (i :: rest) (uN m) L hL θ m).q 0 e0 y)
    (fun _ (y : St L) => (y.1, 1 * ASMC.incr (spec dt c (i :: rest) (uN m) L hL θ m) 0 e0 y))]
  · unfold ASMC.propC
    apply Finset.sum_congr rfl
    intro y _
    congr 2
    rw [swOf_cons]
    congr 1
    simp only [ASMC.ext, Fin.cons_zero, ASMC.S0]
    have hr := hp.restr 1 (by simp)
    simp only [List.take_succ_cons, List.take_zero] at hr
    rw [hr]
    congr 1
    unfold SMC.retainedW
    have hnd : ((table dt c true T.empty i).map (·.1)).Nodup :=
      (table_keys_perm dt c _ _ _).nodup_iff.mpr (hinj 0 _ _ hemp hi)
    rw [lookupQ_eq_tprob _ hnd]
    have := incr_eq_incrWeight h (uN_pos m) hL θ m (x := e0) (x' := path 1) hemp hi hch
    rw [hκ] at this
    rw [show (spec dt c (i :: rest) (uN m) L hL θ m).x0 = e0 from rfl, this, hlast]
    simp only [he0]
    have hb : ((0 : ℕ) == 0) = true := rfl
    rw [hb]
    ring
  · intro j G
    have := propose_E h (uN_pos m) hinj hL θ m e0 hemp hi (uN m) G
    rw [hκ, div_self hu0] at this
    rw [← hlast] at this
    exact this

/-! ### the sweep -/

/-- what remains of the executable sweep from step `t`, as a functional of the current swarm -/
def contE (r : SMC.Run) (x : T) (σ : List ℕ) : ℕ → ℕ → SMC.Swarm → (SMC.Swarm → ℚ) → ℚ
  | 0, _, sw, G => G sw
  | fuel+1, t, sw, G =>
    if t ≥ σ.length then G sw
    else Dist.E (Dist.bind (SMC.resample r sw) fun sw' => SMC.update r x σ t sw')
      (fun sw' => contE r x σ fuel (t+1) sw' G)

theorem sweep_E (r : SMC.Run) (x : T) (σ : List ℕ) : ∀ (fuel t : ℕ) (d : Dist SMC.Swarm) (G : SMC.Swarm → ℚ),
    Dist.E (SMC.sweep r x σ fuel t d) G = Dist.E d (fun sw => contE r x σ fuel t sw G) := by
  intro fuel
  induction fuel with
  | zero => intro t d G; rfl
  | succ fuel ih =>
    intro t d G
    simp only [SMC.sweep, contE]
    by_cases ht : t ≥ σ.length
    · simp only [ht, if_true]
    · simp only [ht, if_false]
      rw [ih, Dist.E_norm, E_bind]

end PhyModel.PG
