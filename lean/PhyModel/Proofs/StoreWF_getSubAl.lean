import PhyModel.Proofs.StoreWF_getSub
/-! C07, `Tree.get_subtree` and the `Aligned` invariant: the extracted tree copies each payload list and
the `_data` list of the same name from the source, so they stay equal as lists. -/
namespace PhyModel.Store
open PhyModel PhyModel.Store PhyModel.Store.Store SF AL

theorem getSubtree_aligned {dt : Data} {s r : Store} {root : Option Int} (h : s.getSubtree dt root = some r)
    (hw : WF s) (ha : Aligned s) : Aligned r := by
  cases root with
  | none => rw [getSubtree_none h]; exact ha
  | some name =>
    obtain ⟨_, _, _, _, _, _, _, _, hdata, _⟩ := getSubtree_shape h hw
    obtain ⟨i, x, _, hx, rfl⟩ := getSubtree_unf h
    have hsl := (findSub_some hx).2
    intro n (hn : n ∈ (subForest dt x).recs)
    have hmem : n.name ∈ (subStore dt s x).nodes := mem_names.2 ⟨n, hn, rfl⟩
    rw [hdata, if_pos hmem]
    obtain ⟨m, hm, h1, h2⟩ := subForest_mem hn
    rw [← h1, ← h2]; exact ha m (hsl.subset hm)

end PhyModel.Store
