import PhyModel.Proofs.TraceProofs
/-! Helper lemmas for C11, part 2: the topology dictionary (`count_topology` folded over the scan). -/
namespace PhyModel.Trace

variable {κ σ : Type} [DecidableEq κ] [LinearOrder σ]

/-- what `count_topology` does to the row of an already known tree -/
def bump (r : Rec κ σ) (w : Row κ σ) : Row κ σ :=
  if w.score < r.score then ⟨w.key, w.count + 1, r.score, r.chain, r.iter⟩
  else { w with count := w.count + 1 }

/-- the row of a tree seen for the first time -/
def fresh (r : Rec κ σ) : Row κ σ := ⟨r.key, 1, r.score, r.chain, r.iter⟩

theorem countTopo_cons (r : Rec κ σ) (w : Row κ σ) (ws : List (Row κ σ)) :
    countTopo r (w :: ws) = if w.key = r.key then bump r w :: ws else w :: countTopo r ws := rfl

omit [DecidableEq κ] in
theorem bump_key (r : Rec κ σ) (w : Row κ σ) : (bump r w).key = w.key := by
  unfold bump; split <;> rfl

omit [DecidableEq κ] in
theorem bump_count (r : Rec κ σ) (w : Row κ σ) : (bump r w).count = w.count + 1 := by
  unfold bump; split <;> rfl

/-- keys in insertion order: unchanged for a known tree, appended for a new one -/
theorem keys_countTopo (r : Rec κ σ) (d : List (Row κ σ)) :
    (countTopo r d).map (·.key) =
      if r.key ∈ d.map (·.key) then d.map (·.key) else d.map (·.key) ++ [r.key] := by
  induction d with
  | nil => simp [countTopo]
  | cons w ws ih =>
    rw [countTopo_cons]
    by_cases h : w.key = r.key
    · simp [h, bump_key]
    · have h' : ¬ r.key = w.key := fun e => h e.symm
      simp only [h, if_false, List.map_cons, ih, List.mem_cons, h', false_or]
      split <;> simp

theorem count_sum_countTopo (r : Rec κ σ) (d : List (Row κ σ)) :
    ((countTopo r d).map (·.count)).sum = (d.map (·.count)).sum + 1 := by
  induction d with
  | nil => simp [countTopo]
  | cons w ws ih =>
    rw [countTopo_cons]
    by_cases h : w.key = r.key
    · simp [h, bump_count]; omega
    · simp [h, ih]; omega

/-- every row after the step is an untouched row of another tree, the bumped row of this tree, or the
fresh row (only when the tree was unknown) -/
theorem mem_countTopo {r : Rec κ σ} {d : List (Row κ σ)} (hnd : (d.map (·.key)).Nodup)
    {w' : Row κ σ} (h : w' ∈ countTopo r d) :
    (w' ∈ d ∧ w'.key ≠ r.key) ∨ (∃ w ∈ d, w.key = r.key ∧ w' = bump r w) ∨
      (w' = fresh r ∧ ∀ w ∈ d, w.key ≠ r.key) := by
  induction d with
  | nil =>
    simp only [countTopo, List.mem_singleton] at h
    right; right; exact ⟨h, by simp⟩
  | cons w ws ih =>
    simp only [List.map_cons, List.nodup_cons] at hnd
    rw [countTopo_cons] at h
    by_cases hk : w.key = r.key
    · simp only [hk, if_true, List.mem_cons] at h
      rcases h with h | h
      · right; left; exact ⟨w, by simp, hk, h⟩
      · left
        refine ⟨by simp [h], fun e => hnd.1 ?_⟩
        rw [hk, ← e]; exact List.mem_map.mpr ⟨w', h, rfl⟩
    · simp only [hk, if_false, List.mem_cons] at h
      rcases h with h | h
      · left; subst h; exact ⟨by simp, hk⟩
      · rcases ih hnd.2 h with ⟨h1, h2⟩ | ⟨v, hv, h1, h2⟩ | ⟨h1, h2⟩
        · left; exact ⟨by simp [h1], h2⟩
        · right; left; exact ⟨v, by simp [hv], h1, h2⟩
        · right; right
          refine ⟨h1, ?_⟩
          intro v hv
          rcases List.mem_cons.mp hv with rfl | hv
          · exact hk
          · exact h2 v hv

/-- what a row must say about the scanned records `l` -/
structure Good (l : List (Rec κ σ)) (w : Row κ σ) : Prop where
  count_eq : w.count = l.countP (fun r => decide (r.key = w.key))
  ge : ∀ r ∈ l, r.key = w.key → r.score ≤ w.score
  att : ∃ r ∈ l, r.key = w.key ∧ r.score = w.score ∧ r.chain = w.chain ∧ r.iter = w.iter

/-- invariant of the fold -/
structure Inv (l : List (Rec κ σ)) (d : List (Row κ σ)) : Prop where
  nodup : (d.map (·.key)).Nodup
  good : ∀ w ∈ d, Good l w
  cover : ∀ r ∈ l, r.key ∈ d.map (·.key)
  sum : (d.map (·.count)).sum = l.length

theorem good_other {l : List (Rec κ σ)} {w : Row κ σ} {r : Rec κ σ} (h : Good l w) (hk : w.key ≠ r.key) :
    Good (l ++ [r]) w := by
  refine ⟨?_, ?_, ?_⟩
  · have : ¬ r.key = w.key := fun e => hk e.symm
    simp [List.countP_append, this, h.count_eq]
  · intro x hx hxk
    rcases List.mem_append.mp hx with hx | hx
    · exact h.ge x hx hxk
    · simp only [List.mem_singleton] at hx; subst hx; exact absurd hxk.symm hk
  · obtain ⟨x, hx, h1⟩ := h.att
    exact ⟨x, List.mem_append_left _ hx, h1⟩

theorem good_bump {l : List (Rec κ σ)} {w : Row κ σ} {r : Rec κ σ} (h : Good l w) (hk : w.key = r.key) :
    Good (l ++ [r]) (bump r w) := by
  have hbk := bump_key r w
  refine ⟨?_, ?_, ?_⟩
  · rw [bump_count, hbk, h.count_eq]
    simp [List.countP_append, hk]
  · intro x hx hxk
    rw [hbk] at hxk
    unfold bump
    rcases List.mem_append.mp hx with hx | hx
    · have := h.ge x hx hxk
      split
      · next hlt => exact le_trans this (le_of_lt hlt)
      · exact this
    · simp only [List.mem_singleton] at hx; subst hx
      split
      · exact le_refl _
      · next hlt => exact not_lt.mp hlt
  · unfold bump
    split
    · exact ⟨r, by simp, hk.symm, rfl, rfl, rfl⟩
    · obtain ⟨x, hx, h1⟩ := h.att
      exact ⟨x, List.mem_append_left _ hx, h1⟩

theorem good_fresh {l : List (Rec κ σ)} {r : Rec κ σ} (hno : ∀ x ∈ l, x.key ≠ r.key) :
    Good (l ++ [r]) (fresh r) := by
  refine ⟨?_, ?_, ⟨r, by simp, rfl, rfl, rfl, rfl⟩⟩
  · have : l.countP (fun x => decide (x.key = r.key)) = 0 := by
      apply List.countP_eq_zero.mpr
      intro x hx; simpa using hno x hx
    show 1 = (l ++ [r]).countP (fun x => decide (x.key = r.key))
    simp [List.countP_append, this]
  · intro x hx hxk
    rcases List.mem_append.mp hx with hx | hx
    · exact absurd hxk (hno x hx)
    · simp only [List.mem_singleton] at hx; subst hx; exact le_refl _

theorem inv_step {l : List (Rec κ σ)} {d : List (Row κ σ)} (h : Inv l d) (r : Rec κ σ) :
    Inv (l ++ [r]) (countTopo r d) := by
  refine ⟨?_, ?_, ?_, ?_⟩
  · rw [keys_countTopo]
    split
    · exact h.nodup
    · next hn =>
      apply List.nodup_append.mpr
      refine ⟨h.nodup, by simp, ?_⟩
      intro a ha b hb
      simp only [List.mem_singleton] at hb
      subst hb; rintro rfl; exact hn ha
  · intro w' hw'
    rcases mem_countTopo h.nodup hw' with ⟨h1, h2⟩ | ⟨w, hw, h1, rfl⟩ | ⟨rfl, h2⟩
    · exact good_other (h.good w' h1) h2
    · exact good_bump (h.good w hw) h1
    · apply good_fresh
      intro x hx hxk
      obtain ⟨w, hw, hwk⟩ := List.mem_map.mp (h.cover x hx)
      exact h2 w hw (hwk.trans hxk)
  · intro x hx
    rw [keys_countTopo]
    rcases List.mem_append.mp hx with hx | hx
    · split
      · exact h.cover x hx
      · exact List.mem_append_left _ (h.cover x hx)
    · simp only [List.mem_singleton] at hx; subst hx
      split
      · next hm => exact hm
      · simp
  · rw [count_sum_countTopo, h.sum]; simp

theorem inv_foldl (suf : List (Rec κ σ)) {pre : List (Rec κ σ)} {d : List (Row κ σ)} (h : Inv pre d) :
    Inv (pre ++ suf) (suf.foldl (fun d r => countTopo r d) d) := by
  induction suf generalizing pre d with
  | nil => simpa using h
  | cons r suf ih =>
    have := ih (inv_step h r)
    simpa [List.append_assoc] using this

/-- the dictionary built from the scan order satisfies the invariant -/
theorem inv_topoDict (l : List (Rec κ σ)) : Inv l (topoDict l) := by
  have h0 : Inv ([] : List (Rec κ σ)) ([] : List (Row κ σ)) :=
    ⟨by simp, by simp, by simp, by simp⟩
  simpa [topoDict] using inv_foldl l h0

end PhyModel.Trace
