import PhyModel.Proofs.GraphOf
import PhyModel.Proofs.GraphDict
import PhyModel.Proofs.StoreWF_dictRT
/-! Link for `from_dict` (C07, graph shape): the graph that `gFromDict` rebuilds from the dictionary
form of a well-formed store (`extend_from_edge_list` of `to_dict()["graph"]`, then removal of the
indices `node_idx_rev` does not list) has the live set and the edge list of the structural forest
that `Store.fromDict` / `buildSF` rebuild. -/
namespace PhyModel.Graph
open PhyModel PhyModel.Store PhyModel.Store.SF

/-- `gFromDict` reads `live` only through membership -/
theorem gFromDict_congr (edges : List (Nat × Nat)) {live live' : List Nat} (h : ∀ v, v ∈ live ↔ v ∈ live') :
    gFromDict edges live = gFromDict edges live' := by
  have hc : ∀ v, live.contains v = live'.contains v := fun v => by
    by_cases hv : v ∈ live
    · simp [hv, (h v).1 hv]
    · have hv' : v ∉ live' := fun h' => hv ((h v).2 h')
      simp [hv, hv']
  simp only [gFromDict, hc]

/-- the dictionary form of the graph of a structural forest rebuilds that graph -/
theorem graph_fromDict_sf {f : SF} (hn : f.idxs.Nodup) (h0 : 0 ∉ f.idxs) :
    (gFromDict (Store.edgesOf 0 f) (0 :: f.idxs)).nodes.Perm (graphOf f).nodes ∧
      (gFromDict (Store.edgesOf 0 f) (0 :: f.idxs)).edges = (graphOf f).edges :=
  gFromDict_spec (isForest_graphOf hn h0)

/-- forests related by `SF.Sim` (same shape, same indices and names) have the same graph -/
theorem graphOf_sim {f' f : SF} (h : SF.Sim f' f) : ∀ par, Store.edgesOf par f' = Store.edgesOf par f := by
  induction h with
  | nil => intro _; rfl
  | cons h1 _ _ _ _ ihk ihs => intro par; simp [h1, ihk, ihs]

theorem idxs_sim {f' f : SF} (h : SF.Sim f' f) : f'.idxs = f.idxs := by
  induction h with
  | nil => rfl
  | cons h1 _ _ _ _ ihk ihs => simp [h1, ihk, ihs]

/-- **`from_dict(to_dict())`: the structural rebuild (`buildSF`) is a correct abstraction of
`extend_from_edge_list` + hole removal.**  `live` = the keys of `node_idx_rev` plus the root's
(implicit in the store model). -/
theorem graph_fromDict {dt : Data} {s s' : Store} (hs : WF s ∧ Full s)
    (h : Store.fromDict dt s.toDict = some s') :
    (gFromDict s.toDict.edges (0 :: s.toDict.nodeIdxRev.map (·.1))).nodes.Perm (graphOf s'.forest).nodes ∧
      (gFromDict s.toDict.edges (0 :: s.toDict.nodeIdxRev.map (·.1))).edges.Perm (graphOf s'.forest).edges := by
  obtain ⟨hsim, _⟩ := fromDict_toDict_spec h hs
  have hw := hs.1
  have h0 : 0 ∉ s.forest.idxs := fun hm => by
    obtain ⟨n, hn, hi⟩ := mem_idxs.1 hm
    exact hw.idx_pos n hn hi
  have hlive : ∀ v, v ∈ 0 :: s.toDict.nodeIdxRev.map (·.1) ↔ v ∈ 0 :: s.forest.idxs := by
    intro v
    simp only [Store.toDict, List.mem_cons, List.mem_map, mem_idxs]
    refine or_congr Iff.rfl ⟨?_, ?_⟩
    · rintro ⟨⟨i, nm⟩, he, rfl⟩
      obtain ⟨n, hn, _, hi⟩ := (hw.nodeIdxRev_iff i nm).1 he
      exact ⟨n, hn, hi⟩
    · rintro ⟨n, hn, rfl⟩
      exact ⟨(n.idx, n.name), (hw.nodeIdxRev_iff _ _).2 ⟨n, hn, rfl, rfl⟩, rfl⟩
  rw [gFromDict_congr _ hlive]
  have hg : graphOf s'.forest = graphOf s.forest := by
    simp [graphOf, idxs_sim hsim, graphOf_sim hsim 0]
  rw [hg]
  have := graph_fromDict_sf hw.idxs_nodup h0
  exact ⟨this.1, by rw [show s.toDict.edges = Store.edgesOf 0 s.forest from rfl, this.2]⟩

end PhyModel.Graph
