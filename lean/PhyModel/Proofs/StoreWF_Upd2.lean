import PhyModel.Proofs.StoreWF_Upd
/-! Helpers for carrying `Aligned` (payload list = `_data` list, same order) through the data-point
edits. -/
namespace PhyModel.Store
open PhyModel PhyModel.Store PhyModel.Store.Store SF AL

theorem mem_of_map_core_eq {rs' rs : List NodeRec} {g : NodeRec → NodeRec}
    (h : rs'.map core = (rs.map g).map core) {n' : NodeRec} (hn : n' ∈ rs') :
    ∃ m ∈ rs, core n' = core (g m) := by
  have : core n' ∈ (rs.map g).map core := h ▸ List.mem_map.2 ⟨n', hn, rfl⟩
  obtain ⟨a, ha, hc⟩ := List.mem_map.1 this
  obtain ⟨m, hm, rfl⟩ := List.mem_map.1 ha
  exact ⟨m, hm, hc.symm⟩

/-- one `_data` entry and the payload of that name are rewritten by the same list function -/
theorem aligned_of_update {s s' : Store} {node : Int} {f : List Nat → List Nat} (ha : Aligned s)
    (hd : s'.data = alSet s.data node (f (s.dataOf node)))
    (hr : ∀ n' ∈ s'.forest.recs, ∃ m ∈ s.forest.recs, n'.name = m.name ∧
      n'.dps = if m.name = node then f m.dps else m.dps) : Aligned s' := by
  intro n' hn'
  obtain ⟨m, hm, h1, h2⟩ := hr n' hn'
  rw [h2, dataOf_eq, hd, h1]
  by_cases hc : m.name = node
  · rw [if_pos hc, hc, dOf_alSet_self, ← hc, ha m hm]
  · rw [if_neg hc, dOf_alSet_ne hc]; exact ha m hm

theorem aligned_of_forest_data {s s' : Store} (ha : Aligned s) (hf : s'.forest.recs.map core = s.forest.recs.map core)
    (hd : s'.data = s.data) : Aligned s' := by
  intro n' hn'
  obtain ⟨m, hm, hc⟩ := mem_of_map_core_eq (g := id) (by simpa using hf) hn'
  simp only [core, id, Prod.mk.injEq] at hc
  rw [dataOf_eq, hd, hc.2.1, hc.2.2]; exact ha m hm

end PhyModel.Store
