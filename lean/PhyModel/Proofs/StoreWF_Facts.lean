import PhyModel.Proofs.StoreWF_Base
/-! Consequences of `WF` used by several operations (C07): looking a name up gives the payload,
payloads are determined by their index / name, where a data point of `_data` lives, and
`Store.touch` (the `defaultdict` key creation) — identity on `Full` stores, invariant-preserving
in general. -/
namespace PhyModel.Store
open PhyModel PhyModel.Store PhyModel.Store.Store SF AL

theorem WFG.eq_of_idx {rs : List NodeRec} (h : WFG rs) {a b : NodeRec} (ha : a ∈ rs) (hb : b ∈ rs)
    (e : a.idx = b.idx) : a = b := List.inj_on_of_nodup_map h.idxs_nodup ha hb e

theorem WFG.eq_of_name {rs : List NodeRec} (h : WFG rs) {a b : NodeRec} (ha : a ∈ rs) (hb : b ∈ rs)
    (e : a.name = b.name) : a = b := List.inj_on_of_nodup_map h.names_nodup ha hb e

theorem WF.rec_of_lookup {s : Store} (h : WF s) {nm : Int} {i : Nat} (hl : s.nodeIdx.lookup nm = some i) :
    ∃ n ∈ s.forest.recs, n.name = nm ∧ n.idx = i := (h.nodeIdx_iff nm i).1 (mem_of_lookup hl)

theorem WF.lookup_of_rec {s : Store} (h : WF s) {n : NodeRec} (hn : n ∈ s.forest.recs) :
    s.nodeIdx.lookup n.name = some n.idx :=
  lookup_of_mem h.nodeIdx_keys ((h.nodeIdx_iff _ _).2 ⟨n, hn, rfl, rfl⟩)

theorem WF.lookupRev_of_rec {s : Store} (h : WF s) {n : NodeRec} (hn : n ∈ s.forest.recs) :
    s.nodeIdxRev.lookup n.idx = some n.name :=
  lookup_of_mem h.nodeIdxRev_keys ((h.nodeIdxRev_iff _ _).2 ⟨n, hn, rfl, rfl⟩)

/-- the payload found at the index registered for a name carries that name -/
theorem WF.findSub_of_lookup {s : Store} (h : WF s) {nm : Int} {i : Nat} {x : NodeRec × SF}
    (hl : s.nodeIdx.lookup nm = some i) (hf : s.forest.findSub i = some x) :
    x.1 ∈ s.forest.recs ∧ x.1.name = nm ∧ x.1.idx = i := by
  obtain ⟨n, hn, h1, h2⟩ := h.rec_of_lookup hl
  have hx := findSub_mem hf
  have hxi := (findSub_some hf).1
  have : x.1 = n := h.g.eq_of_idx hx hn (hxi.trans h2.symm)
  exact ⟨hx, this ▸ h1, hxi⟩

theorem WF.key_cases {s : Store} (h : WF s) {e : Int × List Nat} (he : e ∈ s.data) :
    (e.1 = outKey ∧ s.outliers = e.2) ∨ ∃ n ∈ s.forest.recs, n.name = e.1 ∧ n.dps.Perm e.2 := by
  have hl : s.data.lookup e.1 = some e.2 := lookup_of_mem h.data_keys he
  rcases h.data_sub e he with h1 | h1
  · left; refine ⟨h1, ?_⟩
    simp [Store.outliers, Store.dataOf, ← h1, hl]
  · right
    obtain ⟨n, hn, hnm⟩ := mem_names.1 h1
    refine ⟨n, hn, hnm, ?_⟩
    have := h.payload_data n hn
    simpa [Store.dataOf, hnm, hl] using this

/-- a data point listed in `_data` is an outlier or in the payload of a clone, and conversely -/
theorem WF.mem_vals_iff {s : Store} (h : WF s) {d : Nat} :
    d ∈ vals s.data ↔ d ∈ s.outliers ∨ ∃ n ∈ s.forest.recs, d ∈ n.dps := by
  constructor
  · intro hd
    obtain ⟨e, he, hde⟩ := List.mem_flatMap.1 hd
    rcases h.key_cases he with ⟨_, h2⟩ | ⟨n, hn, _, hp⟩
    · left; rw [h2]; exact hde
    · right; exact ⟨n, hn, hp.symm.subset hde⟩
  · rintro (hd | ⟨n, hn, hd⟩)
    · exact mem_vals_of_mem_dOf (k := outKey) hd
    · exact mem_vals_of_mem_dOf (k := n.name) ((h.payload_data n hn).subset hd)

theorem WF.not_in_tree {s : Store} (h : WF s) {dp : Nat} (hd : s.isDataPointInTree dp = false) :
    dp ∉ vals s.data := by
  rw [h.mem_vals_iff]
  simp only [isDataPointInTree, Bool.or_eq_false_iff, List.any_eq_false, List.contains_iff_mem,
    decide_eq_true_eq] at hd
  rintro (h1 | ⟨n, hn, h1⟩)
  · exact absurd h1 (by simpa using hd.2)
  · exact hd.1 n hn (by simpa using h1)

/-! ### `touch` -/

theorem touch_fold_id {d : List (Int × List Nat)} {nms : List Int} (h : ∀ nm ∈ nms, nm ∈ keys d) :
    nms.foldl (fun d nm => if alHas d nm then d else d ++ [(nm, [])]) d = d := by
  induction nms with
  | nil => rfl
  | cons a l ih =>
    have ha : alHas d a = true := alHas_iff.2 (h a (by simp))
    simp only [List.foldl_cons, ha, if_true]
    exact ih fun nm hnm => h nm (by simp [hnm])

/-- on a store where the touched names have their `_data` keys, `touch` does nothing -/
theorem touch_of_full {s : Store} {nms : List Int} (h : ∀ nm ∈ nms, nm ∈ keys s.data) : s.touch nms = s := by
  simp [touch, touch_fold_id h]

theorem touch_nodes_of_full {s : Store} (h : Full s) : s.touch s.nodes = s :=
  touch_of_full fun _ hnm => by obtain ⟨n, hn, rfl⟩ := mem_names.1 hnm; exact h n hn

theorem WFD.touch_step {rs : List NodeRec} {d : List (Int × List Nat)} (h : WFD rs d) {nm : Int}
    (hnm : nm ∈ rs.map (·.name)) : WFD rs (if alHas d nm then d else d ++ [(nm, [])]) := by
  split
  · exact h
  · rename_i hh
    have hk : nm ∉ keys d := alHas_false_iff.1 (by simpa using hh)
    rw [← alSet_of_not_mem [] hk]
    refine ⟨nodup_keys_alSet _ h.data_keys, fun k hk' => ?_, fun n hn => ?_, ?_⟩
    · rcases (mem_keys_alSet _).1 hk' with rfl | h1
      · exact Or.inr hnm
      · exact h.data_sub k h1
    · by_cases hn' : n.name = nm
      · rw [hn', dOf_alSet_self, ← dOf_of_not_mem hk, ← hn']; exact h.payload_data n hn
      · rw [dOf_alSet_ne hn']; exact h.payload_data n hn
    · have := vals_alSet_perm h.data_keys nm []
      rw [this.nodup_iff]
      simp only [List.nil_append]
      have h2 := (vals_perm_split h.data_keys nm).nodup_iff.1 h.data_nodup
      exact (List.nodup_append.1 h2).2.1

theorem WFD.touch_fold {rs : List NodeRec} {d : List (Int × List Nat)} (h : WFD rs d) {nms : List Int}
    (hsub : ∀ nm ∈ nms, nm ∈ rs.map (·.name)) :
    WFD rs (nms.foldl (fun d nm => if alHas d nm then d else d ++ [(nm, [])]) d) ∧
      ∀ k, (k ∈ keys d ∨ k ∈ nms) →
        k ∈ keys (nms.foldl (fun d nm => if alHas d nm then d else d ++ [(nm, [])]) d) := by
  induction nms generalizing d with
  | nil => exact ⟨h, fun k hk => hk.elim id (by simp)⟩
  | cons a l ih =>
    simp only [List.foldl_cons]
    have h1 := h.touch_step (hsub a (by simp))
    obtain ⟨h2, h3⟩ := ih h1 fun nm hnm => hsub nm (by simp [hnm])
    refine ⟨h2, fun k hk => h3 k ?_⟩
    have hkeys : ∀ k, (k ∈ keys d ∨ k = a) → k ∈ keys (if alHas d a then d else d ++ [(a, [])]) := by
      intro k hk
      split
      · rename_i hh; rcases hk with hk | rfl
        · exact hk
        · exact alHas_iff.1 hh
      · simp only [keys, List.map_append, List.mem_append]; rcases hk with hk | rfl
        · exact Or.inl hk
        · right; simp
    rcases hk with hk | hk
    · exact Or.inl (hkeys k (Or.inl hk))
    · rcases List.mem_cons.1 hk with rfl | hk
      · exact Or.inl (hkeys _ (Or.inr rfl))
      · exact Or.inr hk

/-- `touch` on names of the store's own clones preserves well-formedness (no `Full` needed) and
gives the touched clones their keys -/
theorem touch_wf {s : Store} (h : WF s) {nms : List Int} (hsub : ∀ nm ∈ nms, nm ∈ s.nodes) :
    WF (s.touch nms) ∧ (∀ nm ∈ nms, nm ∈ keys (s.touch nms).data) ∧
      (∀ k ∈ keys s.data, k ∈ keys (s.touch nms).data) := by
  obtain ⟨h2, h3⟩ := h.d.touch_fold (nms := nms) hsub
  refine ⟨?_, fun nm hnm => h3 nm (Or.inr hnm), fun k hk => h3 k (Or.inl hk)⟩
  rw [wf_iff]; exact ⟨h.g, h.m, h2⟩

theorem touch_inv {s : Store} (h : Inv0 s) {nms : List Int} (hsub : ∀ nm ∈ nms, nm ∈ s.nodes) :
    Inv0 (s.touch nms) := by
  rw [touch_of_full fun nm hnm => by
    obtain ⟨n, hn, rfl⟩ := mem_names.1 (hsub nm hnm); exact h.2 n hn]
  exact h

end PhyModel.Store
