import PhyModel.Proofs.EmissionProofs
/-! Helper lemmas for C05: genotype list, expected VAF bounds, mixture, grid, clusters. -/

open Finset BigOperators

namespace PhyModel.Emission

/-- the "mutation before the copy-number change" genotypes, x = i+1 variant copies -/
def beforeG (major minor normal : ℕ) (eps : ℚ) (i : ℕ) : Genotype :=
  { cnN := normal, cnR := normal, cnV := major + minor, muN := eps, muR := eps,
    muV := qmin (1 - eps) (((i + 1 : ℕ) : ℚ) / ((major + minor : ℕ) : ℚ)) }

/-- the "mutation after the copy-number change" genotype: one variant copy, reference population
at the tumour copy number -/
def afterG (major minor normal : ℕ) (eps : ℚ) : Genotype :=
  { cnN := normal, cnR := major + minor, cnV := major + minor, muN := eps, muR := eps,
    muV := qmin (1 - eps) (1 / ((major + minor : ℕ) : ℚ)) }

theorem genotypes_unfold (major minor normal : ℕ) (eps : ℚ) :
    genotypes major minor normal eps =
      if ((List.range major).map (beforeG major minor normal eps)).any
          (fun g => g.cnN == normal && g.cnR == (major + minor) && g.cnV == (major + minor))
      then (List.range major).map (beforeG major minor normal eps)
      else (List.range major).map (beforeG major minor normal eps) ++ [afterG major minor normal eps] :=
  rfl

theorem genotypes_eq (major minor normal : ℕ) (eps : ℚ) (h : 1 ≤ major) :
    genotypes major minor normal eps =
      (List.range major).map (beforeG major minor normal eps) ++
        (if normal = major + minor then [] else [afterG major minor normal eps]) := by
  rw [genotypes_unfold]
  have hseen : ((List.range major).map (beforeG major minor normal eps)).any
        (fun g => g.cnN == normal && g.cnR == (major + minor) && g.cnV == (major + minor))
      = decide (normal = major + minor) := by
    rw [List.any_map]
    by_cases hn : normal = major + minor
    · simp only [hn, decide_true, List.any_eq_true]
      exact ⟨0, List.mem_range.mpr (by omega), by simp [beforeG]⟩
    · simp [hn, beforeG]
  rw [hseen]
  by_cases hn : normal = major + minor
  · simp [hn]
  · simp [hn]

theorem qmin_le_left (a b : ℚ) : qmin a b ≤ a := by
  unfold qmin; split_ifs with h
  · exact le_refl a
  · exact le_of_lt (not_le.mp h)

theorem qmin_pos {a b : ℚ} (ha : 0 < a) (hb : 0 < b) : 0 < qmin a b := by
  unfold qmin; split_ifs <;> assumption

/-- what every enumerated genotype looks like -/
theorem genotype_props {major minor normal : ℕ} {eps : ℚ} (h : 1 ≤ major) (hn : 1 ≤ normal)
    (he1 : eps < 1) {g : Genotype} (hg : g ∈ genotypes major minor normal eps) :
    g.muN = eps ∧ g.muR = eps ∧ 0 < g.muV ∧ g.muV ≤ 1 - eps ∧ 1 ≤ g.cnN ∧ 1 ≤ g.cnR ∧ 1 ≤ g.cnV := by
  rw [genotypes_eq _ _ _ _ h, List.mem_append] at hg
  have htot : (0 : ℚ) < ((major + minor : ℕ) : ℚ) := by
    have : 0 < major + minor := by omega
    exact_mod_cast this
  rcases hg with hg | hg
  · obtain ⟨i, _, rfl⟩ := List.mem_map.mp hg
    refine ⟨rfl, rfl, ?_, qmin_le_left _ _, hn, hn, ?_⟩
    · apply qmin_pos (by linarith)
      apply div_pos _ htot
      exact_mod_cast Nat.succ_pos i
    · show 1 ≤ major + minor; omega
  · split_ifs at hg with hnt
    · simp at hg
    · rw [List.mem_singleton] at hg
      subst hg
      refine ⟨rfl, rfl, ?_, qmin_le_left _ _, hn, ?_, ?_⟩
      · exact qmin_pos (by linarith) (div_pos one_pos htot)
      · show 1 ≤ major + minor; omega
      · show 1 ≤ major + minor; omega

theorem vafDen_pos {g : Genotype} {t f : ℚ} (hN : 1 ≤ g.cnN) (hR : 1 ≤ g.cnR) (hV : 1 ≤ g.cnV)
    (ht0 : 0 < t) (ht1 : t ≤ 1) (hf0 : 0 ≤ f) (hf1 : f ≤ 1) : 0 < vafDen g t f := by
  unfold vafDen wN wR wV
  have hN' : (1 : ℚ) ≤ (g.cnN : ℚ) := by exact_mod_cast hN
  have hR' : (1 : ℚ) ≤ (g.cnR : ℚ) := by exact_mod_cast hR
  have hV' : (1 : ℚ) ≤ (g.cnV : ℚ) := by exact_mod_cast hV
  have h1 : 0 ≤ (1 - t) * (g.cnN : ℚ) := mul_nonneg (by linarith) (by linarith)
  have h2 : (1 - f) ≤ (1 - f) * (g.cnR : ℚ) := by nlinarith
  have h3 : f ≤ f * (g.cnV : ℚ) := by nlinarith
  have h4 : t * (1 - f) * (g.cnR : ℚ) + t * f * (g.cnV : ℚ)
      = t * ((1 - f) * (g.cnR : ℚ) + f * (g.cnV : ℚ)) := by ring
  have h5 : 0 < t * ((1 - f) * (g.cnR : ℚ) + f * (g.cnV : ℚ)) := mul_pos ht0 (by linarith)
  linarith

theorem wN_nonneg (g : Genotype) {t : ℚ} (ht1 : t ≤ 1) : 0 ≤ wN g t :=
  mul_nonneg (by linarith) (Nat.cast_nonneg _)
theorem wR_nonneg (g : Genotype) {t f : ℚ} (ht0 : 0 < t) (hf1 : f ≤ 1) : 0 ≤ wR g t f :=
  mul_nonneg (mul_nonneg (le_of_lt ht0) (by linarith)) (Nat.cast_nonneg _)
theorem wV_nonneg (g : Genotype) {t f : ℚ} (ht0 : 0 < t) (hf0 : 0 ≤ f) : 0 ≤ wV g t f :=
  mul_nonneg (mul_nonneg (le_of_lt ht0) hf0) (Nat.cast_nonneg _)

/-- the expected VAF is a weighted mean of the per-population variant probabilities -/
theorem expVaf_bounds {g : Genotype} {t f eps : ℚ} (hmN : g.muN = eps) (hmR : g.muR = eps)
    (hmV1 : g.muV ≤ 1 - eps) (he1 : eps < 1 / 2)
    (hN : 1 ≤ g.cnN) (hR : 1 ≤ g.cnR) (hV : 1 ≤ g.cnV)
    (ht0 : 0 < t) (ht1 : t ≤ 1) (hf0 : 0 ≤ f) (hf1 : f ≤ 1) :
    qmin eps g.muV ≤ expVaf g t f ∧ expVaf g t f ≤ 1 - eps := by
  have hden := vafDen_pos hN hR hV ht0 ht1 hf0 hf1
  have a := wN_nonneg g ht1
  have b := wR_nonneg g ht0 hf1
  have c := wV_nonneg g ht0 hf0
  have hm1 : qmin eps g.muV ≤ eps := qmin_le_left _ _
  have hm2 : qmin eps g.muV ≤ g.muV := by
    unfold qmin; split_ifs with h
    · exact h
    · exact le_refl _
  unfold expVaf
  rw [hmN, hmR]
  constructor
  · rw [le_div_iff₀ hden]
    unfold vafDen
    nlinarith [mul_nonneg a (sub_nonneg.mpr hm1), mul_nonneg b (sub_nonneg.mpr hm1),
      mul_nonneg c (sub_nonneg.mpr hm2)]
  · rw [div_le_iff₀ hden]
    unfold vafDen
    have e1 : (0 : ℚ) ≤ 1 - eps - eps := by linarith
    nlinarith [mul_nonneg a e1, mul_nonneg b e1, mul_nonneg c (sub_nonneg.mpr hmV1)]

/-- at cellular prevalence 0 no cell carries the mutation: the expected VAF is the error rate -/
theorem expVaf_zero {g : Genotype} {t eps : ℚ} (hmN : g.muN = eps) (hmR : g.muR = eps)
    (hN : 1 ≤ g.cnN) (hR : 1 ≤ g.cnR) (hV : 1 ≤ g.cnV) (ht0 : 0 < t) (ht1 : t ≤ 1) :
    expVaf g t 0 = eps := by
  have hden := vafDen_pos hN hR hV ht0 ht1 (le_refl 0) zero_le_one
  unfold expVaf
  rw [div_eq_iff (ne_of_gt hden), hmN, hmR]
  unfold vafDen wV
  ring

theorem genoLik_sum (d : Density) (hd : ∀ s, d = .betaBinomial s → 0 < s) (n : ℕ) (v : ℚ) :
    ∑ x ∈ range (n + 1), genoLik d n x v = 1 := by
  cases d with
  | binomial => exact binomPmf_sum n v
  | betaBinomial s =>
    have hs := hd s rfl
    exact betaBinomPmf_sum n (by simpa using hs)

theorem sampleLik_eq_lsum (d : Density) (o : Obs) (f : ℚ) :
    sampleLik d o f = lsum (genotypes o.major o.minor o.normal o.eps) fun g =>
      (1 / ((genotypes o.major o.minor o.normal o.eps).length : ℚ))
        * genoLik d (o.ref + o.alt) o.alt (expVaf g o.t f) := rfl

theorem lsum_const {α} (L : List α) (c : ℚ) : lsum L (fun _ => c) = L.length * c := by
  induction L with
  | nil => simp [lsum]
  | cons a L ih => rw [lsum_cons, ih]; push_cast [List.length_cons]; ring

theorem genotypes_ne_nil (major minor normal : ℕ) (eps : ℚ) (h : 1 ≤ major) :
    genotypes major minor normal eps ≠ [] := by
  rw [genotypes_eq _ _ _ _ h]
  intro hnil
  have := congrArg List.length hnil
  simp at this
  omega

/-- entries of grids -/
theorem entry_def (g : List Vec) (s k : ℕ) : entry g s k = (g.getD s []).getD k 0 := rfl

def Shaped (S G : ℕ) (g : List Vec) : Prop := g.length = S ∧ ∀ r ∈ g, r.length = G

theorem shaped_ones (S G : ℕ) : Shaped S G (gridOnes S G) := by
  unfold gridOnes Shaped
  refine ⟨List.length_replicate, ?_⟩
  intro r hr
  rw [List.eq_of_mem_replicate hr, List.length_replicate]

theorem entry_ones (S G s k : ℕ) (hs : s < S) (hk : k < G) : entry (gridOnes S G) s k = 1 := by
  unfold entry gridOnes getQ
  simp [List.getD_eq_getElem?_getD, hs, hk]

theorem shaped_gridMul {S G : ℕ} {a b : List Vec} (ha : Shaped S G a) (hb : Shaped S G b) :
    Shaped S G (gridMul a b) := by
  unfold gridMul
  refine ⟨by simp [List.length_zipWith, ha.1, hb.1], ?_⟩
  intro r hr
  obtain ⟨i, hi, rfl⟩ := List.getElem_of_mem hr
  rw [List.getElem_zipWith, List.length_zipWith]
  rw [ha.2 _ (List.getElem_mem _), hb.2 _ (List.getElem_mem _)]
  simp

theorem entry_gridMul {S G : ℕ} {a b : List Vec} (ha : Shaped S G a) (hb : Shaped S G b)
    (s k : ℕ) (hs : s < S) (hk : k < G) :
    entry (gridMul a b) s k = entry a s k * entry b s k := by
  have hsa : s < a.length := by rw [ha.1]; exact hs
  have hsb : s < b.length := by rw [hb.1]; exact hs
  have hka : k < (a[s]).length := by rw [ha.2 _ (List.getElem_mem _)]; exact hk
  have hkb : k < (b[s]).length := by rw [hb.2 _ (List.getElem_mem _)]; exact hk
  unfold entry gridMul getQ
  simp [List.getD_eq_getElem?_getD, hsa, hsb, hka, hkb]

theorem entry_foldl {S G : ℕ} (members : List (List Vec)) (hm : ∀ m ∈ members, Shaped S G m)
    (s k : ℕ) (hs : s < S) (hk : k < G) :
    ∀ acc, Shaped S G acc →
      Shaped S G (members.foldl gridMul acc) ∧
      entry (members.foldl gridMul acc) s k = entry acc s k * (members.map fun m => entry m s k).prod := by
  induction members with
  | nil => intro acc hacc; simp [hacc]
  | cons m ms ih =>
    intro acc hacc
    have hm' : Shaped S G m := hm m (List.mem_cons_self)
    have hacc' := shaped_gridMul hacc hm'
    obtain ⟨h1, h2⟩ := ih (fun x hx => hm x (List.mem_cons_of_mem _ hx)) _ hacc'
    refine ⟨h1, ?_⟩
    rw [List.foldl_cons, h2, entry_gridMul hacc hm' s k hs hk, List.map_cons, List.prod_cons]
    ring

end PhyModel.Emission

namespace PhyModel.Emission

theorem chooseQ_pos {n x : ℕ} (h : x ≤ n) : 0 < chooseQ n x := by
  rw [chooseQ_eq h]
  exact_mod_cast Nat.choose_pos h

theorem binomPmf_pos {n x : ℕ} (h : x ≤ n) {p : ℚ} (h0 : 0 < p) (h1 : p < 1) : 0 < binomPmf n x p := by
  unfold binomPmf
  rw [binomLik_eq h]
  exact mul_pos (chooseQ_pos h) (mul_pos (pow_pos h0 _) (pow_pos (by linarith) _))

theorem betaBinomPmf_pos {n x : ℕ} (h : x ≤ n) {a b : ℚ} (ha : 0 < a) (hb : 0 < b) :
    0 < betaBinomPmf n x a b := by
  unfold betaBinomPmf betaBinomLik
  exact mul_pos (chooseQ_pos h)
    (div_pos (mul_pos (rising_pos ha _) (rising_pos hb _)) (rising_pos (by linarith) _))

theorem genoLik_pos (d : Density) (hd : ∀ s, d = .betaBinomial s → 0 < s) {n x : ℕ} (h : x ≤ n)
    {v : ℚ} (h0 : 0 < v) (h1 : v < 1) : 0 < genoLik d n x v := by
  cases d with
  | binomial => exact binomPmf_pos h h0 h1
  | betaBinomial s =>
    have hs := hd s rfl
    apply betaBinomPmf_pos h (mul_pos h0 hs)
    have : s - v * s = (1 - v) * s := by ring
    rw [this]
    exact mul_pos (by linarith) hs

theorem lsum_pos {α} (L : List α) (hL : L ≠ []) (F : α → ℚ) (hF : ∀ a ∈ L, 0 < F a) : 0 < lsum L F := by
  induction L with
  | nil => exact absurd rfl hL
  | cons a L ih =>
    rw [lsum_cons]
    by_cases hnil : L = []
    · subst hnil
      rw [lsum_nil, add_zero]
      exact hF a List.mem_cons_self
    · have := ih hnil (fun b hb => hF b (List.mem_cons_of_mem _ hb))
      have := hF a List.mem_cons_self
      linarith

end PhyModel.Emission
