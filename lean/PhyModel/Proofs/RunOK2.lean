import PhyModel.Proofs.RunOK1
import PhyModel.Proofs.PG8
import PhyModel.Proofs.PropSampler
/-! # C19, run-level composition, part 2: one proposal step keeps a partial tree well formed.

`Holds c K x`: `x` is a well-formed tree (`PG.WFT`: canonical, no empty clone, distinct data indices
below the sentinel, no outliers when outlier modelling is off) holding exactly the data points `K`.
Every outcome listed by `Proposal.sampler` — the mirror of `sample()` of the three proposal
distributions — for a fresh data point `i` on a parent holding `K` holds `K ++ [i]`. -/

namespace PhyModel.RunOK
open PhyModel Orders Orders.Forest Proposal PGSpec PG

/-- a well-formed tree holding exactly the data points `K` -/
structure Holds (c : Cfg) (K : List ℕ) (x : T) : Prop where
  wft : WFT c x
  perm : (x.f.all ++ x.out).Perm K

theorem Holds.of_perm {c : Cfg} {K K' : List ℕ} {x : T} (h : Holds c K x) (hp : K.Perm K') : Holds c K' x :=
  ⟨h.wft, h.perm.trans hp⟩

theorem holds_empty (c : Cfg) : Holds c [] T.empty :=
  ⟨⟨rfl, trivial, by simp [T.empty, Forest.all], by simp [T.empty, Forest.all], fun _ => rfl⟩,
    by simp [T.empty, Forest.all]⟩

/-- `chooseK` splits the list it is given -/
theorem chooseK_perm {α : Type} [BEq α] : ∀ (k : ℕ) (l : List α),
    AllD (fun cr => (cr.1 ++ cr.2).Perm l) (chooseK k l) := by
  intro k
  induction k with
  | zero => intro l; exact allD_pure (by simp)
  | succ k ih =>
    intro l
    unfold chooseK
    refine allD_bind (P := fun _ => True) (fun _ _ => trivial) ?_
    intro j _
    cases h : l[j]? with
    | none => exact allD_nil _
    | some a =>
      refine allD_fmap ?_
      refine (ih (l.eraseIdx j)).mono ?_
      rintro ⟨ch, r⟩ hp
      obtain ⟨hj, rfl⟩ := List.getElem?_eq_some_iff.1 h
      exact (List.Perm.cons _ hp).trans (List.getElem_cons_eraseIdx_perm hj)

/-- what one placement has to satisfy -/
structure Placed (c : Cfg) (p : T) (i : ℕ) (y : T) : Prop where
  perm : (y.f.all ++ y.out).Perm (p.f.all ++ p.out ++ [i])
  ne : AllNonempty y.f
  canon : T.mk' y.f y.out = y
  out : c.op = 0 → y.out = []

theorem placed_of_placement {c : Cfg} {p : T} {i : ℕ} (hne : AllNonempty p.f) (hout : c.op = 0 → p.out = [])
    {kt : Kind × T} (hkt : kt ∈ placements p i) (hk : kt.1 = .outlier → c.op ≠ 0) : Placed c p i kt.2 := by
  refine ⟨placement_perm p i kt hkt, placement_allNonempty p i hne kt hkt, placement_canon p i kt hkt, ?_⟩
  intro h0
  rw [placements_eq] at hkt
  simp only [List.mem_append, List.mem_map, List.mem_range, List.mem_singleton] at hkt
  rcases hkt with (⟨j, _, rfl⟩ | ⟨cr, _, rfl⟩) | rfl
  · simp only [exT, T.mk', hout h0]; rfl
  · simp only [newT, T.mk', hout h0]; rfl
  · exact absurd h0 (hk rfl)

theorem placed_exT {c : Cfg} {p : T} {i j : ℕ} (hne : AllNonempty p.f) (hout : c.op = 0 → p.out = [])
    (hj : j < p.f.roots.length) : Placed c p i (exT p i j) := by
  have : (Kind.existing j, exT p i j) ∈ placements p i := by
    rw [placements_eq]
    simp only [List.mem_append, List.mem_map, List.mem_range]
    exact Or.inl (Or.inl ⟨j, hj, rfl⟩)
  exact placed_of_placement hne hout this (by simp)

theorem placed_outT {c : Cfg} {p : T} {i : ℕ} (hne : AllNonempty p.f) (hout : c.op = 0 → p.out = [])
    (ho : c.op ≠ 0) : Placed c p i (outT p i) := by
  have : (Kind.outlier, outT p i) ∈ placements p i := by
    rw [placements_eq]
    simp
  exact placed_of_placement hne hout this (fun _ => ho)

/-- a new clone above any sub-multiset of the top-level clones, in any order (the order in which
`choice(..., replace=False)` returns them) -/
theorem placed_newT {c : Cfg} {p : T} {i : ℕ} (hne : AllNonempty p.f) (hout : c.op = 0 → p.out = [])
    {cr : List (List ℕ × DF) × List (List ℕ × DF)} (hcr : (cr.1 ++ cr.2).Perm p.f.roots) :
    Placed c p i (newT p i cr) := by
  have hroots := (allNonempty_iff_roots p.f).mp hne
  refine ⟨?_, ?_, mk'_idem _ _, ?_⟩
  · simp only [newT, T.mk']
    refine ((Canon.canon_all_perm _).append (Canon.sortNat_perm _)).trans ?_
    rw [all_ofRoots, List.flatMap_cons, all_ofRoots]
    have h1 := hcr.flatMap_right (fun x : List ℕ × DF => x.2.all ++ x.1)
    rw [List.flatMap_append, ← all_eq_flatMap_roots] at h1
    simp only [List.append_assoc]
    have h2 : (List.flatMap (fun x : List ℕ × DF => x.2.all ++ x.1) cr.1 ++ ([i] ++ (List.flatMap (fun x : List ℕ × DF => x.2.all ++ x.1) cr.2 ++ p.out))).Perm
        ((List.flatMap (fun x : List ℕ × DF => x.2.all ++ x.1) cr.1 ++ List.flatMap (fun x : List ℕ × DF => x.2.all ++ x.1) cr.2) ++ (p.out ++ [i])) := by
      rw [List.append_assoc]
      refine List.Perm.append_left _ ?_
      refine List.perm_append_comm.trans ?_
      simp only [List.append_assoc]
      exact List.Perm.refl _
    exact h2.trans (h1.append_right _)
  · simp only [newT, T.mk']
    apply allNonempty_canon
    rw [allNonempty_ofRoots]
    intro y hy
    rcases List.mem_cons.1 hy with rfl | hy
    · refine ⟨by simp, (allNonempty_ofRoots _).mpr (fun z hz => hroots z ?_)⟩
      exact hcr.subset (List.mem_append_left _ hz)
    · exact hroots y (hcr.subset (List.mem_append_right _ hy))
  · intro h0
    simp only [newT, T.mk', hout h0]; rfl

theorem holds_of_placed {c : Cfg} {K : List ℕ} {p y : T} {i : ℕ} (hp : Holds c K p) (hi : i ∉ K)
    (hb : i < Forest.big) (h : Placed c p i y) : Holds c (K ++ [i]) y := by
  have hperm : (y.f.all ++ y.out).Perm (K ++ [i]) := h.perm.trans (hp.perm.append_right _)
  refine ⟨⟨h.canon, h.ne, hperm.nodup_iff.mpr ?_, ?_, h.out⟩, hperm⟩
  · have hK : K.Nodup := hp.perm.nodup_iff.mp hp.wft.nodup
    exact List.nodup_append.mpr ⟨hK, by simp, by
      intro a ha b hb' hab
      simp only [List.mem_singleton] at hb'
      subst hb'; subst hab
      exact hi ha⟩
  · intro a ha
    rcases List.mem_append.1 (hperm.subset ha) with h1 | h1
    · exact hp.wft.big a (hp.perm.symm.subset h1)
    · simp only [List.mem_singleton] at h1
      subst h1; exact hb

section sampler
variable {c : Cfg} {p : T} {i : ℕ}

theorem allD_newNodeD (hne : AllNonempty p.f) (hout : c.op = 0 → p.out = []) :
    AllD (Placed c p i) (newNodeD p i) := by
  unfold newNodeD
  refine allD_bind (P := fun _ => True) (fun _ _ => trivial) ?_
  intro ch _
  refine allD_fmap ?_
  exact (chooseK_perm ch p.f.roots).mono fun cr hcr => placed_newT hne hout hcr

theorem allD_existingD (hne : AllNonempty p.f) (hout : c.op = 0 → p.out = []) :
    AllD (Placed c p i) (existingD p i) := by
  unfold existingD
  refine allD_fmap (allD_uniform ?_)
  intro j hj
  exact placed_exT hne hout (List.mem_range.1 hj)

theorem allD_outOpt (hne : AllNonempty p.f) (hout : c.op = 0 → p.out = []) :
    AllD (Placed c p i) (outOpt c p i) := by
  unfold outOpt
  split
  · rename_i ho
    intro aq haq
    simp only [List.mem_singleton] at haq
    subst haq
    exact placed_outT hne hout ho
  · exact allD_nil _

theorem all_exL (hne : AllNonempty p.f) (hout : c.op = 0 → p.out = []) : ∀ t ∈ exL p i, Placed c p i t := by
  intro t ht
  simp only [exL, List.mem_map, List.mem_range] at ht
  obtain ⟨j, hj, rfl⟩ := ht
  exact placed_exT hne hout hj

theorem all_newL (hne : AllNonempty p.f) (hout : c.op = 0 → p.out = []) : ∀ t ∈ newL p i, Placed c p i t := by
  intro t ht
  simp only [newL, List.mem_map] at ht
  obtain ⟨cr, hcr, rfl⟩ := ht
  exact placed_newT hne hout (splits_perm _ _ hcr)

theorem all_outL (hne : AllNonempty p.f) (hout : c.op = 0 → p.out = []) : ∀ t ∈ outL c p i, Placed c p i t := by
  intro t ht
  unfold outL at ht
  split at ht
  · rename_i ho
    simp only [List.mem_singleton] at ht
    subst ht
    exact placed_outT hne hout ho
  · simp at ht

theorem allD_wts (dt : Data) {L : List T} (h : ∀ t ∈ L, Placed c p i t) :
    AllD (Placed c p i) (Dist.categorical (wts dt c L)) := by
  refine allD_categorical ?_
  intro aw haw
  simp only [wts, List.mem_map] at haw
  obtain ⟨t, ht, rfl⟩ := haw
  exact h t ht

/-- every tree listed by the sampler of any of the three proposals is a placement of `i` on `p` -/
theorem allD_sampler (dt : Data) (first : Bool) (hne : AllNonempty p.f) (hout : c.op = 0 → p.out = []) :
    AllD (Placed c p i) (sampler dt c first p i) := by
  have hN := allD_newNodeD (i := i) hne hout
  have hE := allD_existingD (i := i) hne hout
  have hO := allD_outOpt (i := i) hne hout
  cases hk : c.kind with
  | bootstrap =>
    rw [sampler_bootstrap dt c first p i hk]
    split
    · exact allD_append (allD_scale hN) hO
    · exact allD_append (allD_append (allD_scale hE) (allD_scale hN)) hO
  | semi =>
    by_cases hr : p.f.roots.length = 0
    · rw [sampler_semi0 dt c first p i hk hr]
      refine allD_wts dt ?_
      intro t ht
      rcases List.mem_append.1 ht with h | h
      · exact all_outL hne hout t h
      · simp only [List.mem_singleton] at h
        subst h
        exact placed_newT hne hout (by simp [List.length_eq_zero_iff.mp hr])
    · rw [sampler_semi dt c first p i hk hr]
      refine allD_append (allD_scale (allD_wts dt ?_)) (allD_scale hN)
      intro t ht
      rcases List.mem_append.1 ht with h | h
      · exact all_exL hne hout t h
      · exact all_outL hne hout t h
  | full =>
    have : sampler dt c first p i = table dt c first p i := by
      unfold sampler
      simp only [hk]
    rw [this, table_full dt c first p i hk]
    refine allD_wts dt ?_
    intro t ht
    rcases List.mem_append.1 ht with h | h
    · rcases List.mem_append.1 h with h | h
      · exact all_exL hne hout t h
      · exact all_newL hne hout t h
    · exact all_outL hne hout t h

end sampler

/-- **one proposal step**: every tree the sampler lists for the fresh data point `i` on a parent
holding `K` is well formed and holds `K ++ [i]` -/
theorem sampler_holds (dt : Data) {c : Cfg} (first : Bool) {K : List ℕ} {p : T} {i : ℕ} (hp : Holds c K p)
    (hi : i ∉ K) (hb : i < Forest.big) : AllD (Holds c (K ++ [i])) (sampler dt c first p i) :=
  (allD_sampler dt first hp.wft.ne hp.wft.out).mono fun _ h => holds_of_placed hp hi hb h

end PhyModel.RunOK
