import PhyModel.Model.Proposal
import PhyModel.Proofs.LikProofs
import Mathlib.Algebra.Order.BigOperators.Group.Finset
import Mathlib.Algebra.Order.Field.Rat
import Mathlib.Tactic.Linarith
import Mathlib.Tactic.Positivity
/-! Positivity of the likelihood recursion and of the FS-CRP joint density in both forms (used by
C19 `weights_positive`): with positive likelihood values, `α > 0` and outlier priors in `[0,1)` no
factor of `pMarg` / `pOne` / `pdfOf` vanishes, so no log-weight is `-inf`. -/
namespace PhyModel.C19P
open Finset Orders PhyModel PhyModel.Density

/-! ### lists -/

theorem foldl_add_pos (v : List ℚ) : ∀ a : ℚ, 0 ≤ a → (∀ x ∈ v, 0 < x) → v ≠ [] → 0 < v.foldl (· + ·) a := by
  induction v with
  | nil => intro a _ _ h; exact absurd rfl h
  | cons b l ih =>
    intro a ha hp _
    have hb : 0 < b := hp b (by simp)
    cases l with
    | nil => simp; linarith
    | cons c l' =>
      exact ih (a + b) (by linarith) (fun x hx => hp x (by simp [hx])) (by simp)

theorem foldl_add_nonneg (v : List ℚ) : ∀ a : ℚ, 0 ≤ a → (∀ x ∈ v, 0 < x) → 0 ≤ v.foldl (· + ·) a := by
  induction v with
  | nil => intro a ha _; simpa using ha
  | cons b l ih =>
    intro a ha hp
    have hb : 0 < b := hp b (by simp)
    exact ih (a + b) (by linarith) (fun x hx => hp x (by simp [hx]))

theorem foldl_mul_pos (v : List ℚ) : ∀ a : ℚ, 0 < a → (∀ x ∈ v, 0 < x) → 0 < v.foldl (· * ·) a := by
  induction v with
  | nil => intro a ha _; simpa using ha
  | cons b l ih =>
    intro a ha hp
    exact ih (a * b) (mul_pos ha (hp b (by simp))) (fun x hx => hp x (by simp [hx]))

theorem prodL_pos (l : List ℚ) (h : ∀ x ∈ l, 0 < x) : 0 < prodL l := foldl_mul_pos l 1 one_pos h

theorem vsum_pos (v : Vec) (h : ∀ x ∈ v, 0 < x) (hne : v ≠ []) : 0 < vsum v :=
  foldl_add_pos v 0 (le_refl 0) h hne

theorem getQ_pos_of_mem (v : Vec) (i : ℕ) (h : ∀ x ∈ v, 0 < x) (hi : i < v.length) : 0 < getQ v i := by
  unfold getQ
  have : v.getD i 0 = v[i] := by simp [List.getD, hi]
  rw [this]
  exact h _ (List.getElem_mem hi)

theorem rpow_pos (q : ℚ) (hq : 0 < q) : ∀ n, 0 < rpow q n
  | 0 => by simp [rpow]
  | n + 1 => by simp only [rpow]; exact mul_pos hq (rpow_pos q hq n)

theorem one_le_rpow (q : ℚ) (hq : 1 ≤ q) : ∀ n, 1 ≤ rpow q n
  | 0 => by simp [rpow]
  | n + 1 => by
    simp only [rpow]
    have := one_le_rpow q hq n
    nlinarith

theorem fact_pos : ∀ n, 0 < fact n
  | 0 => by simp [fact]
  | n + 1 => by simp only [fact]; exact Nat.mul_pos (by omega) (fact_pos n)

theorem factQ_pos (n : ℕ) : 0 < factQ n := by
  unfold factQ; exact_mod_cast fact_pos n

/-! ### the recursion -/

/-- every own vector of the forest is positive on the grid -/
def AllPos (G : ℕ) : Forest → Prop
  | .nil => True
  | .cons p k s => (∀ j, j < G → 0 < getQ p j) ∧ AllPos G k ∧ AllPos G s

theorem D_nonneg_pos (G : ℕ) (hG : 0 < G) :
    ∀ F, AllPos G F → (∀ k, k < G → 0 ≤ getQ (D G F) k) ∧ 0 < getQ (D G F) 0
  | .nil, _ => by
    constructor
    · intro k hk
      simp only [D]
      rw [getQ_delta0 G k hk]
      split <;> norm_num
    · simp only [D]
      rw [getQ_delta0 G 0 hG]
      simp
  | .cons p k s, h => by
    obtain ⟨hp, hk, hs⟩ := h
    obtain ⟨k1, k2⟩ := D_nonneg_pos G hG k hk
    obtain ⟨s1, s2⟩ := D_nonneg_pos G hG s hs
    have ha : ∀ j, j < G → 0 ≤ getQ (pmul G p (prefixSum G (D G k))) j := by
      intro j hj
      rw [getQ_pmul G _ _ j hj, getQ_prefixSum G _ j hj]
      refine mul_nonneg (le_of_lt (hp j hj)) (Finset.sum_nonneg fun i hi => k1 i ?_)
      have := Finset.mem_range.1 hi; omega
    have ha0 : 0 < getQ (pmul G p (prefixSum G (D G k))) 0 := by
      rw [getQ_pmul G _ _ 0 hG, getQ_prefixSum G _ 0 hG]
      simp only [zero_add, Finset.range_one, Finset.sum_singleton]
      exact mul_pos (hp 0 hG) k2
    constructor
    · intro j hj
      simp only [D]
      rw [getQ_conv G _ _ j hj]
      refine Finset.sum_nonneg fun i hi => ?_
      have := Finset.mem_range.1 hi
      exact mul_nonneg (ha i (by omega)) (s1 (j - i) (by omega))
    · simp only [D]
      rw [getQ_conv G _ _ 0 hG]
      simp only [zero_add, Finset.range_one, Finset.sum_singleton, Nat.sub_self]
      exact mul_pos ha0 s2

theorem mem_prefixSum_pos (G : ℕ) (a : Vec) (h1 : ∀ k, k < G → 0 ≤ getQ a k) (h0 : 0 < getQ a 0) :
    ∀ y ∈ prefixSum G a, 0 < y := by
  intro y hy
  unfold prefixSum at hy
  obtain ⟨k, hk, rfl⟩ := List.mem_map.1 hy
  have hkG : k < G := List.mem_range.1 hk
  rw [sumTo_eq]
  refine Finset.sum_pos' (fun i hi => h1 i ?_) ⟨0, by simp, h0⟩
  have := Finset.mem_range.1 hi; omega

theorem nodeP_pos (dt : Data) (hG : 0 < dt.G) (s : ℕ) (d : List ℕ)
    (hd : ∀ i ∈ d, ∀ k, k < dt.G → 0 < getQ (dt.L i s) k) :
    ∀ j, j < dt.G → 0 < getQ (nodeP dt s d) j := by
  intro j hj
  unfold nodeP
  rw [getQ_map_range dt.G _ j hj]
  have hprior : 0 < dt.prior := by
    unfold Data.prior
    have : (0 : ℚ) < dt.G := by exact_mod_cast hG
    positivity
  refine mul_pos hprior (prodL_pos _ ?_)
  intro x hx
  obtain ⟨i, hi, rfl⟩ := List.mem_map.1 hx
  exact hd i hi j hj

theorem toLik_allPos (dt : Data) (hG : 0 < dt.G) (s : ℕ) :
    ∀ f : DF, (∀ i ∈ f.all, ∀ k, k < dt.G → 0 < getQ (dt.L i s) k) → AllPos dt.G (toLik dt s f)
  | .nil, _ => trivial
  | .cons d k sb, h => by
    have hk : ∀ i ∈ k.all, ∀ j, j < dt.G → 0 < getQ (dt.L i s) j := fun i hi => h i (by simp [Forest.all, hi])
    have hd : ∀ i ∈ d, ∀ j, j < dt.G → 0 < getQ (dt.L i s) j := fun i hi => h i (by simp [Forest.all, hi])
    have hs : ∀ i ∈ sb.all, ∀ j, j < dt.G → 0 < getQ (dt.L i s) j := fun i hi => h i (by simp [Forest.all, hi])
    exact ⟨nodeP_pos dt hG s d hd, toLik_allPos dt hG s k hk, toLik_allPos dt hG s sb hs⟩

theorem rootR_mem_pos (dt : Data) (hG : 0 < dt.G) (s : ℕ) (f : DF)
    (h : ∀ i ∈ f.all, ∀ k, k < dt.G → 0 < getQ (dt.L i s) k) : ∀ x ∈ rootR dt s f, 0 < x := by
  intro x hx
  unfold rootR at hx
  obtain ⟨y, hy, rfl⟩ := List.mem_map.1 hx
  obtain ⟨d1, d0⟩ := D_nonneg_pos dt.G hG _ (toLik_allPos dt hG s f h)
  have hprior : 0 < dt.prior := by
    unfold Data.prior
    have : (0 : ℚ) < dt.G := by exact_mod_cast hG
    positivity
  exact mul_pos hprior (mem_prefixSum_pos dt.G _ d1 d0 y hy)

theorem rootR_length (dt : Data) (s : ℕ) (f : DF) : (rootR dt s f).length = dt.G := by
  simp [rootR, prefixSum]

/-! ### densities -/

/-- the data point `j` has positive likelihood on the whole grid in every sample and an outlier
prior in `[0,1)` -/
def GoodIdx (dt : Data) (j : ℕ) : Prop :=
  (∀ s, s < dt.S → ∀ k, k < dt.G → 0 < getQ (dt.L j s) k) ∧ 0 ≤ dt.opOf j ∧ dt.opOf j < 1

/-- all data points mentioned by the tree are good -/
def Good (dt : Data) (f : DF) (out : List ℕ) : Prop := ∀ j, j ∈ f.all ++ out → GoodIdx dt j

namespace Density

theorem sizeTerm_pos : ∀ f : DF, 0 < sizeTerm f
  | .nil => by simp [sizeTerm]
  | .cons d k s => by
    simp only [sizeTerm]
    exact mul_pos (mul_pos (factQ_pos _) (sizeTerm_pos k)) (sizeTerm_pos s)

theorem crp_pos (α : ℚ) (hα : 0 < α) (f : DF) : 0 < crp α f :=
  mul_pos (rpow_pos α hα _) (sizeTerm_pos f)

theorem topoMarg_pos (f : DF) : 0 < topoMarg f := by
  unfold topoMarg
  split
  · exact one_pos
  · have : (0 : ℚ) < (f.nodes : ℚ) + 1 := by positivity
    exact div_pos one_pos (rpow_pos _ this _)

theorem subtreeTerm_pos : ∀ f : DF, 0 < subtreeTerm f
  | .nil => by simp [subtreeTerm]
  | .cons _ k s => by
    simp only [subtreeTerm]
    have : (0 : ℚ) < ((1 + k.nodes : ℕ) : ℚ) := by exact_mod_cast (by omega : 0 < 1 + k.nodes)
    exact mul_pos (div_pos one_pos (rpow_pos _ this _)) (subtreeTerm_pos s)

theorem rTerm_pos (r : ℕ) : 0 < rTerm r := by
  unfold rTerm
  split
  · exact one_pos
  · rename_i hr
    have hc : (0 : ℚ) < cConst := by unfold cConst; norm_num
    have h1 : (1 : ℚ) ≤ cConst := by unfold cConst; norm_num
    have hp := rpow_pos cConst hc r
    have hbig : cConst ≤ rpow cConst r := by
      obtain ⟨n, rfl⟩ : ∃ n, r = n + 1 := ⟨r - 1, by omega⟩
      simp only [rpow]
      have := one_le_rpow cConst h1 n
      nlinarith
    have hlt : 1 / rpow cConst r < 1 := by
      rw [div_lt_one hp]
      unfold cConst at hbig ⊢
      linarith
    refine mul_pos (div_pos one_pos (rpow_pos _ hc _)) (div_pos ?_ (by linarith))
    unfold cConst; norm_num

theorem topoOne_pos (f : DF) : 0 < topoOne f := mul_pos (subtreeTerm_pos f) (rTerm_pos _)

theorem multNodes_pos : ∀ f : DF, 0 < multNodes f
  | .nil => by simp [multNodes]
  | .cons _ k s => by
    simp only [multNodes]
    exact mul_pos (mul_pos (div_pos one_pos (factQ_pos _)) (multNodes_pos k)) (multNodes_pos s)

theorem mult_pos (f : DF) : 0 < mult f := mul_pos (div_pos one_pos (factQ_pos _)) (multNodes_pos f)

theorem outlierPriorIn_pos (dt : Data) (l : List ℕ) (h : ∀ j ∈ l, GoodIdx dt j) : 0 < outlierPriorIn dt l := by
  unfold outlierPriorIn
  refine prodL_pos _ fun x hx => ?_
  obtain ⟨i, hi, rfl⟩ := List.mem_map.1 hx
  split
  · exact one_pos
  · exact rpow_pos _ (by have := (h i hi).2.2; linarith) _

theorem outlierPriorOut_pos (dt : Data) (l : List ℕ) (h : ∀ j ∈ l, GoodIdx dt j) : 0 < outlierPriorOut dt l := by
  unfold outlierPriorOut
  refine prodL_pos _ fun x hx => ?_
  obtain ⟨i, hi, rfl⟩ := List.mem_map.1 hx
  split
  · exact one_pos
  · rename_i hne
    exact rpow_pos _ (lt_of_le_of_ne (h i hi).2.1 (Ne.symm hne)) _

theorem outlierMarg1_pos (dt : Data) (hG : 0 < dt.G) (i : ℕ) (h : GoodIdx dt i) : 0 < outlierMarg1 dt i := by
  unfold outlierMarg1
  refine prodL_pos _ fun x hx => ?_
  obtain ⟨s, hs, rfl⟩ := List.mem_map.1 hx
  have hsS : s < dt.S := List.mem_range.1 hs
  refine vsum_pos _ (rootR_mem_pos dt hG s _ ?_) ?_
  · intro j hj k hk
    have : j = i := by simpa [Forest.all] using hj
    subst this
    exact h.1 s hsS k hk
  · apply List.ne_nil_of_length_pos; rw [rootR_length]; exact hG

theorem outlierMarg_pos (dt : Data) (hG : 0 < dt.G) (out : List ℕ) (h : ∀ j ∈ out, GoodIdx dt j) :
    0 < outlierMarg dt out := by
  unfold outlierMarg
  refine prodL_pos _ fun x hx => ?_
  obtain ⟨i, hi, rfl⟩ := List.mem_map.1 hx
  exact outlierMarg1_pos dt hG i (h i hi)

theorem dataMarg_pos (dt : Data) (hG : 0 < dt.G) (f : DF) (h : ∀ j ∈ f.all, GoodIdx dt j) : 0 < dataMarg dt f := by
  unfold dataMarg
  split
  · exact one_pos
  · refine prodL_pos _ fun x hx => ?_
    obtain ⟨s, hs, rfl⟩ := List.mem_map.1 hx
    have hsS : s < dt.S := List.mem_range.1 hs
    refine vsum_pos _ (rootR_mem_pos dt hG s f fun j hj k hk => (h j hj).1 s hsS k hk) ?_
    apply List.ne_nil_of_length_pos; rw [rootR_length]; exact hG

theorem dataOne_pos (dt : Data) (hG : 0 < dt.G) (f : DF) (h : ∀ j ∈ f.all, GoodIdx dt j) : 0 < dataOne dt f := by
  unfold dataOne
  split
  · exact one_pos
  · refine prodL_pos _ fun x hx => ?_
    obtain ⟨s, hs, rfl⟩ := List.mem_map.1 hx
    have hsS : s < dt.S := List.mem_range.1 hs
    refine getQ_pos_of_mem _ _ (rootR_mem_pos dt hG s f fun j hj k hk => (h j hj).1 s hsS k hk) ?_
    rw [rootR_length]; omega

theorem common_pos (dt : Data) (hG : 0 < dt.G) (α : ℚ) (hα : 0 < α) (f : DF) (out : List ℕ)
    (h : Good dt f out) : 0 < common dt α f out := by
  have hf : ∀ j ∈ f.all, GoodIdx dt j := fun j hj => h j (by simp [hj])
  have ho : ∀ j ∈ out, GoodIdx dt j := fun j hj => h j (by simp [hj])
  unfold common
  exact mul_pos (mul_pos (mul_pos (mul_pos (crp_pos α hα f) (mult_pos f)) (outlierPriorIn_pos dt _ hf))
    (outlierPriorOut_pos dt _ ho)) (outlierMarg_pos dt hG out ho)

/-- `log_p` is finite -/
theorem pMarg_pos (dt : Data) (hG : 0 < dt.G) (α : ℚ) (hα : 0 < α) (f : DF) (out : List ℕ)
    (h : Good dt f out) : 0 < pMarg dt α f out :=
  mul_pos (mul_pos (common_pos dt hG α hα f out h) (topoMarg_pos f))
    (dataMarg_pos dt hG f fun j hj => h j (by simp [hj]))

/-- `log_p_one` is finite -/
theorem pOne_pos (dt : Data) (hG : 0 < dt.G) (α : ℚ) (hα : 0 < α) (f : DF) (out : List ℕ)
    (h : Good dt f out) : 0 < pOne dt α f out :=
  mul_pos (mul_pos (common_pos dt hG α hα f out h) (topoOne_pos f))
    (dataOne_pos dt hG f fun j hj => h j (by simp [hj]))

end Density

/-! ### number of compatible orders -/

theorem foldl_mul_pos' (l : List ℚ) (h : ∀ x ∈ l, 0 < x) : 0 < l.foldl (· * ·) 1 := foldl_mul_pos l 1 one_pos h

theorem multinomial_pos (l : List ℕ) : 0 < Orders.multinomial l := by
  unfold Orders.multinomial
  refine div_pos (by exact_mod_cast fact_pos _) (foldl_mul_pos' _ fun x hx => ?_)
  obtain ⟨n, _, rfl⟩ := List.mem_map.1 hx
  exact_mod_cast fact_pos n

theorem prodCounts_pos : ∀ f : Orders.Forest, 0 < prodCounts f
  | .nil => by simp [prodCounts]
  | .cons d k s => by
    simp only [prodCounts]
    have : (0 : ℚ) < (fact d.length : ℚ) := by exact_mod_cast fact_pos _
    exact mul_pos (mul_pos (mul_pos (prodCounts_pos k) (multinomial_pos _)) this) (prodCounts_pos s)

theorem countCode_pos (f : Orders.Forest) (m : ℕ) : 0 < countCode f m := by
  unfold countCode
  have h1 : (0 : ℚ) < (fact (f.size + m) : ℚ) := by exact_mod_cast fact_pos _
  have h2 : (0 : ℚ) < (fact m : ℚ) := by exact_mod_cast fact_pos _
  have h3 : (0 : ℚ) < (fact f.size : ℚ) := by exact_mod_cast fact_pos _
  exact mul_pos (mul_pos (mul_pos (prodCounts_pos f) (multinomial_pos _)) (div_pos h1 (mul_pos h2 h3))) h2

end PhyModel.C19P
