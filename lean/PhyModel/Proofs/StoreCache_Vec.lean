import PhyModel.Proofs.StoreCache_Rebuild
import PhyModel.Proofs.DFIso
import Mathlib.Tactic.FieldSimp
/-! C06, vector arithmetic of the payload edits: `TreeNode.add_data_point(_list)` keeps a clone's own
`p`- and `r`-equation (both sides are multiplied by the data point's grid), `remove_data_point` keeps
the `p`-equation when the divided values are non-zero, a fresh `TreeNode` satisfies the `p`-equation. -/
namespace PhyModel.Store.C06
open PhyModel

theorem getQ_pdiv (G : ℕ) (a b : Vec) (k : ℕ) (hk : k < G) :
    getQ (pdiv G a b) k = getQ a k / getQ b k := by
  unfold pdiv; rw [getQ_map_range G _ k hk]

theorem getQ_nodeP (dt : Data) (s : ℕ) (d : List ℕ) (k : ℕ) (hk : k < dt.G) :
    getQ (nodeP dt s d) k = dt.prior * prodL (d.map fun i => getQ (dt.L i s) k) := by
  unfold nodeP; rw [getQ_map_range _ _ k hk]

theorem prodL_append_singleton (l : List ℚ) (x : ℚ) : prodL (l ++ [x]) = prodL l * x := by
  rw [prodL_eq_prod, prodL_eq_prod, List.prod_append, List.prod_singleton]

theorem nodeP_nil (dt : Data) (s : ℕ) : nodeP dt s [] = priorVec dt := by
  unfold nodeP priorVec
  apply List.map_congr_left
  intro k _
  simp [prodL]

theorem pmul_nodeP (dt : Data) (s : ℕ) (d : List ℕ) (dp : ℕ) :
    pmul dt.G (nodeP dt s d) (dt.L dp s) = nodeP dt s (d ++ [dp]) := by
  unfold pmul
  conv_rhs => unfold nodeP
  apply List.map_congr_left
  intro k hk
  rw [getQ_nodeP dt s d k (List.mem_range.1 hk), List.map_append, List.map_singleton,
    prodL_append_singleton, mul_assoc]

theorem pdiv_nodeP (dt : Data) (hNZ : DataNZ dt) (s : ℕ) (hs : s < dt.S) (d : List ℕ) (dp : ℕ)
    (hdp : dp < dt.n) (hmem : dp ∈ d) :
    pdiv dt.G (nodeP dt s d) (dt.L dp s) = nodeP dt s (d.erase dp) := by
  unfold pdiv
  conv_rhs => unfold nodeP
  apply List.map_congr_left
  intro k hk
  have hk' := List.mem_range.1 hk
  have hne := hNZ dp s k hdp hs hk'
  rw [getQ_nodeP dt s d k hk',
    prodL_map_perm (fun i => getQ (dt.L i s) k) (List.perm_cons_erase hmem), List.map_cons,
    prodL_cons]
  field_simp

theorem pmul_right_comm (G : ℕ) (a b c : Vec) :
    pmul G (pmul G a b) c = pmul G (pmul G a c) b := by
  unfold pmul
  apply List.map_congr_left
  intro k hk
  have hk' := List.mem_range.1 hk
  rw [getQ_map_range G _ k hk', getQ_map_range G _ k hk', mul_right_comm]

theorem mulData_getD (dt : Data) (v : List Vec) (dp s : ℕ) (hs : s < dt.S) :
    (mulData dt v dp).getD s [] = pmul dt.G (v.getD s []) (dt.L dp s) := by
  unfold mulData; rw [getD_map_range _ _ _ _ hs]

/-- multiplying a correct `p` by a data point's grid gives the correct `p` of the enlarged clone -/
theorem mulData_p (dt : Data) (d : List ℕ) (dp : ℕ) :
    mulData dt ((List.range dt.S).map fun sm => nodeP dt sm d) dp
      = (List.range dt.S).map fun sm => nodeP dt sm (d ++ [dp]) := by
  unfold mulData
  apply List.map_congr_left
  intro s hs
  rw [getD_map_range _ _ _ _ (List.mem_range.1 hs), pmul_nodeP]

/-- dividing a correct `p` by a data point's grid gives the correct `p` of the reduced clone -/
theorem divData_p (dt : Data) (hNZ : DataNZ dt) (d : List ℕ) (dp : ℕ) (hdp : dp < dt.n)
    (hmem : dp ∈ d) :
    divData dt ((List.range dt.S).map fun sm => nodeP dt sm d) dp
      = (List.range dt.S).map fun sm => nodeP dt sm (d.erase dp) := by
  unfold divData
  apply List.map_congr_left
  intro s hs
  have hs' := List.mem_range.1 hs
  rw [getD_map_range _ _ _ _ hs', pdiv_nodeP dt hNZ s hs' d dp hdp hmem]

/-- `r = p ⊙ S(kids)` survives multiplying both `p` and `r` by the same grid -/
theorem mulData_r (dt : Data) (n : NodeRec) (k : SF) (dp : ℕ) (d' : List ℕ)
    (h : n.r = recompR dt n k) :
    mulData dt n.r dp = recompR dt { n with dps := d', p := mulData dt n.p dp, r := mulData dt n.r dp } k := by
  rw [h]
  unfold mulData recompR
  apply List.map_congr_left
  intro s hs
  have hs' := List.mem_range.1 hs
  rw [getD_map_range _ _ _ _ hs', getD_map_range _ _ _ _ hs', pmul_right_comm]

/-! ### `recAdd`, `recRemove`, `freshRec` -/

/-- one step of `add_data_point_list` -/
def addOne (dt : Data) (n : NodeRec) (dp : ℕ) : Option NodeRec :=
  if n.dps.contains dp then none
  else some { n with dps := n.dps ++ [dp], p := mulData dt n.p dp, r := mulData dt n.r dp }

theorem recAdd_nil (dt : Data) (n : NodeRec) : recAdd dt n [] = some n := rfl

theorem recAdd_cons (dt : Data) (n : NodeRec) (dp : ℕ) (dps : List ℕ) :
    recAdd dt n (dp :: dps) = (addOne dt n dp).bind fun n1 => recAdd dt n1 dps := by
  simp only [recAdd, List.foldlM_cons, addOne]
  rfl

/-- what `add_data_point_list` keeps and establishes -/
theorem recAdd_spec (dt : Data) : ∀ (dps : List ℕ) (n n' : NodeRec), recAdd dt n dps = some n' →
    n'.idx = n.idx ∧ n'.name = n.name ∧ n'.dps = n.dps ++ dps ∧
    (n.p = (List.range dt.S).map (fun sm => nodeP dt sm n.dps) →
      n'.p = (List.range dt.S).map (fun sm => nodeP dt sm n'.dps)) ∧
    (∀ k, n.r = recompR dt n k → n'.r = recompR dt n' k)
  | [], n, n', h => by
    rw [recAdd_nil] at h
    cases h
    simp
  | dp :: dps, n, n', h => by
    rw [recAdd_cons] at h
    unfold addOne at h
    split at h
    · simp at h
    · rw [Option.bind_some] at h
      obtain ⟨h1, h2, h3, h4, h5⟩ := recAdd_spec dt dps _ n' h
      refine ⟨h1, h2, by rw [h3]; simp, fun hp => h4 ?_, fun k hk => h5 k ?_⟩
      · show mulData dt n.p dp = _
        rw [hp, mulData_p]
      · exact mulData_r dt n k dp _ hk

theorem freshRec_p (dt : Data) (i : ℕ) (nm : Int) :
    (freshRec dt i nm).p = (List.range dt.S).map (fun sm => nodeP dt sm (freshRec dt i nm).dps) := by
  show (List.range dt.S).map (fun _ => priorVec dt) = (List.range dt.S).map fun sm => nodeP dt sm []
  apply List.map_congr_left
  intro s _
  rw [nodeP_nil]

/-- what `remove_data_point` keeps and establishes -/
theorem recRemove_spec (dt : Data) (n n' : NodeRec) (dp : ℕ) (h : recRemove dt n dp = some n') :
    n'.idx = n.idx ∧ n'.name = n.name ∧ n'.dps = n.dps.erase dp ∧ n'.r = n.r ∧ dp ∈ n.dps ∧
    (DataNZ dt → dp < dt.n → n.p = (List.range dt.S).map (fun sm => nodeP dt sm n.dps) →
      n'.p = (List.range dt.S).map (fun sm => nodeP dt sm n'.dps)) := by
  unfold recRemove at h
  split at h
  · rename_i hc
    cases h
    have hmem : dp ∈ n.dps := by simpa using hc
    refine ⟨rfl, rfl, rfl, rfl, hmem, fun hNZ hdp hp => ?_⟩
    show divData dt n.p dp = _
    rw [hp, divData_p dt hNZ n.dps dp hdp hmem]
  · simp at h

end PhyModel.Store.C06
