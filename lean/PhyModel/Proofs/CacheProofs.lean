import PhyModel.Model.Cache

namespace PhyModel.Cache

variable {E A K V : Type} [DecidableEq K]

/-- every stored value is what `f` returns for *any* argument with that key, in any environment -/
def Sound (key : E → A → K) (f : E → A → V) (l : List (K × V)) : Prop :=
  ∀ kv ∈ l, ∀ e a, key e a = kv.1 → kv.2 = f e a

theorem lookup_mem (k : K) : ∀ (l : List (K × V)) (v : V), lookup k l = some v → (k, v) ∈ l := by
  intro l
  induction l with
  | nil => intro v h; simp [lookup] at h
  | cons kv l ih =>
    intro v h
    obtain ⟨k', v'⟩ := kv
    simp only [lookup] at h
    split at h
    · rename_i hk
      simp only [Option.some.injEq] at h
      subst h; subst hk; simp
    · exact List.mem_cons_of_mem _ (ih v h)

theorem remove_subset (k : K) : ∀ (l : List (K × V)) kv, kv ∈ remove k l → kv ∈ l := by
  intro l
  induction l with
  | nil => intro kv h; simp [remove] at h
  | cons x l ih =>
    intro kv h
    obtain ⟨k', v'⟩ := x
    simp only [remove] at h
    split at h
    · exact List.mem_cons_of_mem _ h
    · rcases List.mem_cons.mp h with h | h
      · rw [h]; simp
      · exact List.mem_cons_of_mem _ (ih kv h)

/-- one step preserves soundness and returns exactly the unmemoised value -/
theorem step_sound (key : E → A → K) (f : E → A → V)
    (hresp : ∀ e a e' a', key e a = key e' a' → f e a = f e' a')
    (c : Cache K V) (hc : Sound key f c.entries) (op : Op E A) :
    Sound key f (step key f c op).1.entries ∧
    (step key f c op).2 = (match op with | .call e a => some (f e a) | .clear => none) := by
  cases op with
  | clear => exact ⟨by intro kv h; simp [step] at h, rfl⟩
  | call e a =>
    simp only [step]
    cases hl : lookup (key e a) c.entries with
    | some v =>
      have hmem := lookup_mem (key e a) c.entries v hl
      have hv : v = f e a := hc (key e a, v) hmem e a rfl
      refine ⟨?_, by simp [hv]⟩
      intro kv hkv e' a' hk
      rcases List.mem_cons.mp hkv with h | h
      · subst h; simp only at hk ⊢
        rw [hv]; exact hresp e a e' a' hk.symm
      · exact hc kv (remove_subset _ _ kv h) e' a' hk
    | none =>
      refine ⟨?_, rfl⟩
      intro kv hkv e' a' hk
      have hkv' := List.mem_of_mem_take hkv
      rcases List.mem_cons.mp hkv' with h | h
      · subst h; simp only at hk ⊢
        exact hresp e a e' a' hk.symm
      · exact hc kv h e' a' hk

/-- **C14 on the model**: for every history of calls and clears, every capacity (hence every
eviction pattern) and every sequence of environments, the memoised execution returns exactly what
the unmemoised one does — provided the function respects the key. -/
theorem cache_sound (key : E → A → K) (f : E → A → V)
    (hresp : ∀ e a e' a', key e a = key e' a' → f e a = f e' a') :
    ∀ (ops : List (Op E A)) (c : Cache K V), Sound key f c.entries →
      (run key f c ops).2 = direct f ops := by
  intro ops
  induction ops with
  | nil => intro c _; rfl
  | cons op ops ih =>
    intro c hc
    obtain ⟨h1, h2⟩ := step_sound key f hresp c hc op
    simp only [run]
    rw [ih _ h1, h2]
    cases op <;> rfl

theorem cache_sound_from_empty (key : E → A → K) (f : E → A → V)
    (hresp : ∀ e a e' a', key e a = key e' a' → f e a = f e' a') (cap : Nat) (ops : List (Op E A)) :
    (run key f ⟨[], cap⟩ ops).2 = direct f ops :=
  cache_sound key f hresp ops ⟨[], cap⟩ (by intro kv h; simp at h)

#print axioms cache_sound_from_empty
end PhyModel.Cache
