import PhyModel.Proofs.PropKeys
/-! # C08 helpers 9: the two insertion sorts of the canonical form (`sortNat` on data lists,
`sortRoots` on sibling lists): output sorted, sorted input unchanged, commutation with `filter`;
`canon` is idempotent. -/

namespace PhyModel
open Orders Orders.Forest Proposal

/-! ### `sortNat` -/

theorem insertNat_sorted (a : ℕ) (l : List ℕ) (h : l.Pairwise (· ≤ ·)) :
    (insertNat a l).Pairwise (· ≤ ·) := by
  induction l with
  | nil => simp [insertNat]
  | cons b l ih =>
    rw [List.pairwise_cons] at h
    simp only [insertNat]
    split
    · rw [List.pairwise_cons]
      refine ⟨?_, List.pairwise_cons.mpr h⟩
      intro x hx
      simp only [List.mem_cons] at hx
      rcases hx with rfl | hx
      · assumption
      · have := h.1 x hx; omega
    · rw [List.pairwise_cons]
      refine ⟨?_, ih h.2⟩
      intro x hx
      rw [mem_insertNat] at hx
      rcases hx with rfl | hx
      · omega
      · exact h.1 x hx

theorem sortNat_cons (a : ℕ) (l : List ℕ) : sortNat (a :: l) = insertNat a (sortNat l) := rfl

theorem sortNat_sorted (l : List ℕ) : (sortNat l).Pairwise (· ≤ ·) := by
  induction l with
  | nil => simp [sortNat]
  | cons a l ih => rw [sortNat_cons]; exact insertNat_sorted a _ ih

theorem insertNat_of_le (a : ℕ) (l : List ℕ) (h : ∀ x ∈ l, a ≤ x) : insertNat a l = a :: l := by
  cases l with
  | nil => rfl
  | cons b l => simp [insertNat, h b List.mem_cons_self]

theorem sortNat_of_sorted (l : List ℕ) (h : l.Pairwise (· ≤ ·)) : sortNat l = l := by
  induction l with
  | nil => rfl
  | cons a l ih =>
    rw [List.pairwise_cons] at h
    rw [sortNat_cons, ih h.2, insertNat_of_le a l h.1]

theorem sortNat_idem (l : List ℕ) : sortNat (sortNat l) = sortNat l :=
  sortNat_of_sorted _ (sortNat_sorted l)

theorem filter_insertNat (keep : ℕ → Bool) (a : ℕ) (l : List ℕ) (h : l.Pairwise (· ≤ ·)) :
    (insertNat a l).filter keep
      = if keep a then insertNat a (l.filter keep) else l.filter keep := by
  induction l with
  | nil => simp only [insertNat, List.filter]; cases keep a <;> simp
  | cons b l ih =>
    rw [List.pairwise_cons] at h
    by_cases hab : a ≤ b
    · have h1 : insertNat a (b :: l) = a :: b :: l := by simp [insertNat, hab]
      have h2 : insertNat a ((b :: l).filter keep) = a :: (b :: l).filter keep := by
        apply insertNat_of_le
        intro x hx
        have hx' := (List.mem_filter.mp hx).1
        simp only [List.mem_cons] at hx'
        rcases hx' with rfl | hx'
        · exact hab
        · have := h.1 x hx'; omega
      rw [h1, h2, List.filter_cons]
    · have h1 : insertNat a (b :: l) = b :: insertNat a l := by simp [insertNat, hab]
      rw [h1, List.filter_cons, ih h.2, List.filter_cons]
      cases hka : keep a <;> cases hkb : keep b <;> simp [insertNat, hab]

theorem filter_sortNat (keep : ℕ → Bool) (l : List ℕ) :
    (sortNat l).filter keep = sortNat (l.filter keep) := by
  induction l with
  | nil => rfl
  | cons a l ih =>
    rw [sortNat_cons, filter_insertNat keep a _ (sortNat_sorted l), ih, List.filter_cons]
    cases keep a <;> simp [sortNat_cons]

/-! ### `sortRoots` -/

theorem perm_insertSorted (r : List ℕ × DF) (l : List (List ℕ × DF)) :
    (insertSorted r l).Perm (r :: l) := by
  induction l with
  | nil => simp [insertSorted]
  | cons x l ih =>
    simp only [insertSorted]
    split
    · exact List.Perm.refl _
    · exact (List.Perm.cons x ih).trans (List.Perm.swap r x l)

theorem sortRoots_cons (x : List ℕ × DF) (l : List (List ℕ × DF)) :
    sortRoots (x :: l) = insertSorted x (sortRoots l) := rfl

theorem perm_sortRoots (l : List (List ℕ × DF)) : (sortRoots l).Perm l := by
  induction l with
  | nil => exact List.Perm.refl _
  | cons x l ih => rw [sortRoots_cons]; exact (perm_insertSorted x _).trans (List.Perm.cons x ih)

/-- sorted by key -/
def SortedK (l : List (List ℕ × DF)) : Prop := l.Pairwise fun a b => rootKey a ≤ rootKey b

theorem insertSorted_sorted (r : List ℕ × DF) (l : List (List ℕ × DF)) (h : SortedK l) :
    SortedK (insertSorted r l) := by
  unfold SortedK at *
  induction l with
  | nil => simp [insertSorted]
  | cons b l ih =>
    rw [List.pairwise_cons] at h
    simp only [insertSorted]
    split
    · rw [List.pairwise_cons]
      refine ⟨?_, List.pairwise_cons.mpr h⟩
      intro x hx
      simp only [List.mem_cons] at hx
      rcases hx with rfl | hx
      · assumption
      · have := h.1 x hx; omega
    · rw [List.pairwise_cons]
      refine ⟨?_, ih h.2⟩
      intro x hx
      rw [mem_insertSorted] at hx
      rcases hx with rfl | hx
      · omega
      · exact h.1 x hx

theorem sortRoots_sorted (l : List (List ℕ × DF)) : SortedK (sortRoots l) := by
  induction l with
  | nil => simp [sortRoots, SortedK]
  | cons a l ih => rw [sortRoots_cons]; exact insertSorted_sorted a _ ih

theorem sortRoots_of_sorted (l : List (List ℕ × DF)) (h : SortedK l) : sortRoots l = l := by
  unfold SortedK at h
  induction l with
  | nil => rfl
  | cons a l ih =>
    rw [List.pairwise_cons] at h
    rw [sortRoots_cons, ih h.2]
    cases l with
    | nil => rfl
    | cons b l => simp [insertSorted, h.1 b List.mem_cons_self]

/-! ### `canon` is idempotent -/

theorem roots_canon_sorted (f : DF) : SortedK (roots (canon f)) := by
  induction f with
  | nil => simp [canon, roots, SortedK]
  | cons d k s _ ihs =>
    simp only [canon, roots_ofRoots]
    exact insertSorted_sorted _ _ ihs

theorem canon_idem_of_fix (f : DF) (h : ∀ y ∈ roots (canon f), cn y = y) :
    canon (canon f) = canon f := by
  conv_lhs => rw [← ofRoots_roots (canon f), canon_ofRoots]
  rw [List.map_congr_left h, List.map_id', sortRoots_of_sorted _ (roots_canon_sorted f), ofRoots_roots]

theorem canon_fix (f : DF) : ∀ y ∈ roots (canon f), cn y = y := by
  induction f with
  | nil => intro y hy; simp [canon, roots] at hy
  | cons d k s ihk ihs =>
    intro y hy
    simp only [canon, roots_ofRoots, mem_insertSorted] at hy
    rcases hy with rfl | hy
    · simp only [cn, sortNat_idem, canon_idem_of_fix k ihk]
    · exact ihs y hy

theorem canon_idem (f : DF) : canon (canon f) = canon f := canon_idem_of_fix f (canon_fix f)

end PhyModel
