import PhyModel.Proofs.RunOK3
import PhyModel.Proofs.MovesDpBlock3
import PhyModel.Proofs.MovesPrBlock4
/-! # C19, run-level composition, part 4: the data-point move and the prune-regraft move keep the tree
complete and well formed.

Every candidate of `Moves.dpStep` (the tree with `i` removed, then `i` added to any clone or to the
outliers) and of `Moves.pruneRegraft` (a clone with its subtree cut off, then grafted under any clone of
the rest or at the top level) is a well-formed tree on the same data points; hence so is every tree
listed by `Moves.dataPointMove` and `Moves.pruneRegraft`. -/

namespace PhyModel.RunOK
open PhyModel Orders Orders.Forest Proposal PG Moves

/-- the two notions of well-formed tree (`PG.WFT` of C01, `Canon.WFT` of C04) agree up to the clause
about outliers -/
theorem toCanon {c : Proposal.Cfg} {x : T} (w : WFT c x) : Canon.WFT x :=
  ⟨w.canon_f, w.sort_out, w.nodup, (ne_iff _).mp w.ne, w.big⟩

theorem ofCanon {c : Proposal.Cfg} {x : T} (w : Canon.WFT x) (ho : c.op = 0 → x.out = []) : WFT c x := by
  refine ⟨?_, (ne_iff _).mpr w.ne, w.nodup, w.small, ho⟩
  obtain ⟨f, o⟩ := x
  simp only [T.mk']
  rw [w.canonF, w.sortedOut]

/-- a canonicalised well-formed forest with an outlier list, holding `D` -/
theorem holds_mk' {c : Proposal.Cfg} {D : List ℕ} {F : DF} {o : List ℕ} (w : Canon.WF F) (hp : (F.all ++ o).Perm D)
    (hD : D.Nodup) (hbig : ∀ a ∈ D, a < Forest.big) (ho : c.op = 0 → o = []) : Holds c D (T.mk' F o) := by
  have hperm : ((T.mk' F o).f.all ++ (T.mk' F o).out).Perm D :=
    ((Canon.canon_all_perm F).append (Canon.sortNat_perm o)).trans hp
  refine ⟨⟨mk'_idem _ _, allNonempty_canon _ ((ne_iff _).mpr w.ne), hperm.nodup_iff.mpr hD,
    fun a ha => hbig a (hperm.subset ha), ?_⟩, hperm⟩
  intro h0
  simp only [T.mk', ho h0]
  rfl

theorem Holds.nodupD {c : Proposal.Cfg} {D : List ℕ} {x : T} (h : Holds c D x) : D.Nodup :=
  h.perm.nodup_iff.mp h.wft.nodup

theorem Holds.bigD {c : Proposal.Cfg} {D : List ℕ} {x : T} (h : Holds c D x) : ∀ a ∈ D, a < Forest.big :=
  fun a ha => h.wft.big a (h.perm.symm.subset ha)

/-! ### data-point move -/

theorem mem_addDpAt_self {key i : ℕ} {f : DF} (h : key ∈ f.all) : i ∈ (addDpAt key i f).all := by
  induction f with
  | nil => simp [Forest.all] at h
  | cons d k s ihk ihs =>
    simp only [Forest.all, List.mem_append] at h
    simp only [addDpAt, Forest.all, List.mem_append]
    rcases h with (h | h) | h
    · exact Or.inl (Or.inl (ihk h))
    · refine Or.inl (Or.inr ?_)
      rw [if_pos (List.contains_iff_mem.mpr h)]
      simp
    · exact Or.inr (ihs h)

theorem addDpAt_all_perm {key i : ℕ} {f : DF} (hn : f.all.Nodup) (hi : i ∉ f.all) (hk : key ∈ f.all) :
    (addDpAt key i f).all.Perm (f.all ++ [i]) := by
  have h1 := Canon.filter_ne_append_perm (Canon.addDpAt_nodup key hn hi) (mem_addDpAt_self (i := i) hk)
  rw [← Canon.removeDp_all, Canon.removeDp_addDpAt key hi] at h1
  exact h1.symm

/-- every candidate of the data-point step for a movable data point holds the same data -/
theorem dpCands_hold {c : Proposal.Cfg} {D : List ℕ} {x : T} (outl : Bool) (hx : Holds c D x)
    (ho : outl = true → c.op ≠ 0) {i : ℕ} (hm : dpMovable x i = true) :
    ∀ y ∈ dpCands outl x i, Holds c D y := by
  have w := toCanon hx.wft
  have b := Canon.base_of_movable w hm
  set f0 := removeDp i x.f
  set out0 := x.out.filter (· != i)
  -- `i` is one of the data points of `x`
  have himem : i ∈ x.f.all ++ x.out := by
    by_cases hio : i ∈ x.out
    · exact List.mem_append_right _ hio
    · obtain ⟨nd, hnd, hi, _⟩ := Canon.holder_of_movable w hm hio
      exact List.mem_append_left _ (Canon.mem_all_iff.mpr ⟨nd, hnd, hi⟩)
  have hrest : (f0.all ++ out0 ++ [i]).Perm D := by
    have : f0.all ++ out0 = (x.f.all ++ x.out).filter (· != i) := by
      simp only [f0, out0, Canon.removeDp_all, List.filter_append]
    rw [this]
    exact (Canon.filter_ne_append_perm w.nodup himem).trans hx.perm
  have hout0 : c.op = 0 → out0 = [] := by
    intro h0
    simp only [out0, hx.wft.out h0, List.filter_nil]
  intro y hy
  rw [Canon.dpCands_eq] at hy
  rcases (Canon.mem_dpCore b).mp hy with ⟨a, ha, rfl⟩ | ⟨ho', rfl⟩
  · refine holds_mk' (Canon.addDpAt_wf a b.wf b.inf b.ibig) ?_ hx.nodupD hx.bigD hout0
    refine ((addDpAt_all_perm b.wf.nodup b.inf ha).append_right _).trans ?_
    refine List.Perm.trans ?_ hrest
    rw [List.append_assoc, List.append_assoc]
    exact List.Perm.append_left _ List.perm_append_comm
  · refine holds_mk' b.wf ?_ hx.nodupD hx.bigD (fun h0 => absurd h0 (ho ho'))
    rw [← List.append_assoc]
    exact hrest

theorem dpStep_holds (mc : Moves.Cfg) {c : Proposal.Cfg} {D : List ℕ} {x : T} (hx : Holds c D x)
    (ho : mc.outliers = true → c.op ≠ 0) (i : ℕ) : AllD (Holds c D) (dpStep mc x i) := by
  rw [dpStep_eq]
  split
  · rename_i hm
    unfold Gibbs.gibbsK
    refine allD_categorical ?_
    intro aw haw
    simp only [List.mem_map] at haw
    obtain ⟨t, ht, rfl⟩ := haw
    exact dpCands_hold mc.outliers hx ho hm t ht
  · exact allD_pure hx

theorem dpFold_holds (mc : Moves.Cfg) {c : Proposal.Cfg} {D : List ℕ} (ho : mc.outliers = true → c.op ≠ 0) :
    ∀ (σ : List ℕ) (d : Dist T), AllD (Holds c D) d → AllD (Holds c D) (dpFold mc σ d) := by
  intro σ
  induction σ with
  | nil => intro d hd; exact hd
  | cons i rest ih =>
    intro d hd
    unfold dpFold
    exact ih _ (allD_norm (allD_bind hd fun x hx => dpStep_holds mc hx ho i))

/-- **data-point move**: every tree listed by `Moves.dataPointMove` for a well-formed tree holding `D`
is a well-formed tree holding `D` (the outlier set is used only when outlier modelling is on) -/
theorem dataPointMove_holds (mc : Moves.Cfg) {c : Proposal.Cfg} {D : List ℕ} {x : T} (hx : Holds c D x)
    (ho : mc.outliers = true → c.op ≠ 0) : AllD (Holds c D) (dataPointMove mc x) := by
  unfold dataPointMove
  refine allD_norm (allD_bind (P := fun _ => True) (fun _ _ => trivial) ?_)
  intro σ _
  exact dpFold_holds mc ho σ _ (allD_pure hx)

/-! ### prune and regraft -/

/-- every re-attachment of a clone of `x` (with its subtree) holds the same data -/
theorem prCands_hold {c : Proposal.Cfg} {D : List ℕ} {x : T} (hx : Holds c D x) {sub : List ℕ × DF}
    (hsub : sub ∈ nodesOf x.f) : ∀ y ∈ prCands x sub, Holds c D y := by
  obtain ⟨sd, sk⟩ := sub
  have w := toCanon hx.wft
  have b := Canon.pbase_of_node w hsub
  set P := prPruned x (sd, sk)
  -- the data of `x`: the clade of the subtree and the pruned forest
  have hall : ((sk.all ++ sd) ++ P.all).Perm x.f.all := by
    rcases Canon.prune_eqv w.wf hsub b.key_mem with hq | ⟨a, ha, hq⟩
    · have := hq.all_perm
      simp only [Forest.all] at this
      exact this.symm
    · exact ((Canon.attachUnder_all_perm sd sk b.wfP.nodup ha).symm.trans hq.all_perm.symm)
  intro y hy
  rw [Canon.prCands_eq] at hy
  rcases (Canon.mem_prCore b).mp hy with ⟨a, ha, rfl⟩ | rfl
  · refine holds_mk' (b.attach_wf ha) ?_ hx.nodupD hx.bigD hx.wft.out
    exact (((Canon.attachUnder_all_perm sd sk b.wfP.nodup ha).trans hall).append_right _).trans hx.perm
  · refine holds_mk' b.root_wf ?_ hx.nodupD hx.bigD hx.wft.out
    simp only [Forest.all]
    exact (hall.append_right _).trans hx.perm

/-- **prune-regraft move**: every tree listed by `Moves.pruneRegraft` for a well-formed tree holding
`D` is a well-formed tree holding `D` -/
theorem pruneRegraft_holds (mc : Moves.Cfg) {c : Proposal.Cfg} {D : List ℕ} {x : T} (hx : Holds c D x) :
    AllD (Holds c D) (pruneRegraft mc x) := by
  rw [pruneRegraft_eq]
  split
  · exact allD_pure hx
  · refine allD_norm (allD_bind (allD_uniform (P := fun sub => sub ∈ nodesOf x.f) fun _ h => h) ?_)
    intro sub hsub
    unfold prStep
    split
    · exact allD_pure hx
    · unfold Gibbs.gibbsK
      refine allD_categorical ?_
      intro aw haw
      simp only [List.mem_map] at haw
      obtain ⟨t, ht, rfl⟩ := haw
      exact prCands_hold hx hsub t ht

end PhyModel.RunOK
