import PhyModel.Model.Proposal
import PhyModel.Proofs.OrdersProofs3
/-! # C08 helpers 7: the incremental weights telescope along a path. -/

namespace PhyModel
open Proposal Orders

theorem countCode_pos (f : Orders.Forest) (m : ℕ) : 0 < countCode f m := by
  have h := countCode_eq_length f (List.replicate m 0)
  rw [List.length_replicate] at h
  rw [h, length_allOrders, List.length_replicate]
  have h1 := countF_pos f
  have h2 := Nat.factorial_pos m
  have h3 : 0 < Nat.choose (f.size + m) f.size := Nat.choose_pos (by omega)
  exact_mod_cast Nat.mul_pos h1 (Nat.mul_pos h2 h3)

/-- the permutation density (or the constant 1 without a permutation distribution) is positive -/
theorem pdfOf_pos (c : Cfg) (t : T) : 0 < pdfOf c t := by
  unfold pdfOf
  split
  · exact div_pos one_pos (countCode_pos _ _)
  · exact one_pos

namespace Proposal

/-- product along a path of (incremental weight × proposal probability); `first` = the current step
has no parent particle, the last step carries the fixed-root correction -/
def pathProd (dt : Data) (c : Cfg) : Bool → T → List (T × ℚ) → ℚ
  | _, _, [] => 1
  | first, p, (t, q) :: rest =>
    incrWeight dt c first rest.isEmpty p t q * q * pathProd dt c false t rest

/-- the state at the end of a path -/
def lastTree : T → List (T × ℚ) → T
  | p, [] => p
  | _, (t, _) :: rest => lastTree t rest

end Proposal

theorem pathProd_general (dt : Data) (c : Cfg) :
    ∀ (steps : List (T × ℚ)) (first : Bool) (p : T), steps ≠ [] →
      (∀ tq ∈ steps, tq.2 ≠ 0) → (∀ tq ∈ steps, pMargT dt c tq.1 ≠ 0) →
      (first = false → pMargT dt c p ≠ 0) →
      pathProd dt c first p steps * (if first then 1 else pMargT dt c p * pdfOf c p)
        = pOneT dt c (lastTree p steps) * pdfOf c (lastTree p steps) := by
  intro steps
  induction steps with
  | nil => intro _ _ h; exact absurd rfl h
  | cons tq rest ih =>
    intro first p _ hq hM hp
    obtain ⟨t, q⟩ := tq
    have hq0 : q ≠ 0 := hq (t, q) List.mem_cons_self
    have hM0 : pMargT dt c t ≠ 0 := hM (t, q) List.mem_cons_self
    have hD : (if first then (1 : ℚ) else pMargT dt c p * pdfOf c p) ≠ 0 := by
      cases first with
      | true => simp
      | false => simpa using ⟨hp rfl, (pdfOf_pos c p).ne'⟩
    have hden : (if first = true then q else pMargT dt c p * pdfOf c p * q)
        = (if first then (1 : ℚ) else pMargT dt c p * pdfOf c p) * q := by
      cases first <;> simp
    cases rest with
    | nil =>
      simp only [pathProd, lastTree, incrWeight, List.isEmpty_nil, if_true, hden]
      field_simp
    | cons x rest' =>
      have hrest := ih false t (by simp) (fun tq h => hq tq (List.mem_cons_of_mem _ h))
        (fun tq h => hM tq (List.mem_cons_of_mem _ h)) (fun _ => hM0)
      simp only [Bool.false_eq_true, if_false] at hrest
      simp only [lastTree] at hrest ⊢
      rw [← hrest]
      simp only [pathProd, incrWeight, List.isEmpty_cons, Bool.false_eq_true, if_false, hden]
      field_simp

/-- **telescoping**: starting from the empty state, the incremental weights times the proposal
probabilities multiply to the fixed-root joint density times the permutation density of the final
tree -/
theorem weights_telescope_proof (dt : Data) (c : Cfg) (steps : List (T × ℚ)) (hne : steps ≠ [])
    (hq : ∀ tq ∈ steps, tq.2 ≠ 0) (hM : ∀ tq ∈ steps, pMargT dt c tq.1 ≠ 0) :
    pathProd dt c true T.empty steps
      = pOneT dt c (lastTree T.empty steps) * pdfOf c (lastTree T.empty steps) := by
  have := pathProd_general dt c steps true T.empty hne hq hM (fun h => by cases h)
  simpa using this

end PhyModel
