import PhyModel.Model.MapDP
import Mathlib.Algebra.Order.Field.Rat
import Mathlib.Tactic.Ring
import Mathlib.Tactic.Linarith

namespace PhyModel.MapDP

theorem getQ_map_range (G : ℕ) (f : ℕ → ℚ) (k : ℕ) (hk : k < G) :
    getQ ((List.range G).map f) k = f k := by
  unfold getQ; simp [List.getD, hk]

theorem getN_map_range (G : ℕ) (f : ℕ → ℕ) (k : ℕ) (hk : k < G) :
    getN ((List.range G).map f) k = f k := by
  unfold getN; simp [List.getD, hk]

theorem getQ_zeros (G k : ℕ) : getQ (zeros G) k = 0 := by
  unfold zeros getQ
  by_cases hk : k < G
  · simp [List.getD, hk]
  · simp [List.getD, hk]

theorem scanJ_spec (child prev : Vec) (i : ℕ) : ∀ n,
    (scanJ child prev i n).1 ≤ n ∧
    (scanJ child prev i n).2
      = getQ child (scanJ child prev i n).1 + getQ prev (i - (scanJ child prev i n).1) ∧
    ∀ j ≤ n, getQ child j + getQ prev (i - j) ≤ (scanJ child prev i n).2 := by
  intro n
  induction n with
  | zero =>
    refine ⟨le_refl _, by simp [scanJ], ?_⟩
    intro j hj
    have : j = 0 := by omega
    subst this; simp [scanJ]
  | succ n ih =>
    obtain ⟨h1, h2, h3⟩ := ih
    simp only [scanJ]
    split
    · rename_i hge
      refine ⟨le_refl _, rfl, ?_⟩
      intro j hj
      by_cases hjn : j ≤ n
      · exact le_trans (h3 j hjn) hge
      · have : j = n + 1 := by omega
        subst this; exact le_refl _
    · rename_i hlt
      refine ⟨by omega, h2, ?_⟩
      intro j hj
      by_cases hjn : j ≤ n
      · exact h3 j hjn
      · have : j = n + 1 := by omega
        subst this
        exact le_of_lt (not_le.mp hlt)

theorem scanS_spec (D : Vec) : ∀ n,
    (scanS D n).1 ≤ n ∧ (scanS D n).2 = getQ D (scanS D n).1 ∧
    ∀ j ≤ n, getQ D j ≤ (scanS D n).2 := by
  intro n
  induction n with
  | zero =>
    refine ⟨le_refl _, by simp [scanS], ?_⟩
    intro j hj
    have : j = 0 := by omega
    subst this; simp [scanS]
  | succ n ih =>
    obtain ⟨h1, h2, h3⟩ := ih
    simp only [scanS]
    split
    · rename_i hgt
      refine ⟨le_refl _, rfl, ?_⟩
      intro j hj
      by_cases hjn : j ≤ n
      · exact le_of_lt (lt_of_le_of_lt (h3 j hjn) hgt)
      · have : j = n + 1 := by omega
        subst this; exact le_refl _
    · rename_i hle
      refine ⟨by omega, h2, ?_⟩
      intro j hj
      by_cases hjn : j ≤ n
      · exact h3 j hjn
      · have : j = n + 1 := by omega
        subst this
        exact not_lt.mp hle

theorem dStep_choice (G : ℕ) (c p : Vec) (i : ℕ) (hi : i < G) :
    getN (dStep G c p).1 i = (scanJ c p i i).1 := by
  unfold dStep; exact getN_map_range G _ i hi

theorem dStep_val (G : ℕ) (c p : Vec) (i : ℕ) (hi : i < G) :
    getQ (dStep G c p).2 i = (scanJ c p i i).2 := by
  unfold dStep; exact getQ_map_range G _ i hi

theorem sStep_choice (G : ℕ) (D : Vec) (i : ℕ) (hi : i < G) :
    getN (sStep G D).1 i = (scanS D i).1 := by
  unfold sStep; exact getN_map_range G _ i hi

theorem sStep_val (G : ℕ) (D : Vec) (i : ℕ) (hi : i < G) :
    getQ (sStep G D).2 i = (scanS D i).2 := by
  unfold sStep; exact getQ_map_range G _ i hi

theorem getQ_vadd (G : ℕ) (a b : Vec) (i : ℕ) (hi : i < G) :
    getQ (vadd G a b) i = getQ a i + getQ b i := by
  unfold vadd; exact getQ_map_range G _ i hi

/-- the invariant proved by induction over the sibling list -/
def Inv (G : ℕ) (F : Forest) : Prop :=
  ∀ (acc : Vec) (k : ℕ), k < G →
    ((tbForest G acc F k).1.length = F.size ∧ (∀ x ∈ (tbForest G acc F k).1, x < G) ∧
      ∃ tF vF, evalM F (tbForest G acc F k).1 = some (tF, vF) ∧ tF + (tbForest G acc F k).2 = k ∧
        getQ (dAll G acc F) k = vF + getQ acc (tbForest G acc F k).2) ∧
    (∀ (a : List ℕ) (t : ℕ) (v : ℚ), a.length = F.size → evalM F a = some (t, v) →
      ∀ r, t + r = k → v + getQ acc r ≤ getQ (dAll G acc F) k)

theorem inv_all (G : ℕ) : ∀ F : Forest, Inv G F := by
  intro F
  induction F with
  | nil =>
    intro acc k hk
    refine ⟨⟨by simp [tbForest, Forest.size], by simp [tbForest], 0, 0, by simp [evalM, tbForest],
      by simp [tbForest], by simp [dAll, tbForest]⟩, ?_⟩
    intro a t v _ he r hr
    simp only [evalM, Option.some.injEq, Prod.mk.injEq] at he
    obtain ⟨rfl, rfl⟩ := he
    have : r = k := by omega
    subst this
    simp [dAll]
  | cons p kd s ihk ihs =>
    intro acc k hk
    -- abbreviations
    set Dk := dAll G (zeros G) kd with hDk
    set Sk := (sStep G Dk).2 with hSk
    set Rv := vadd G p Sk with hRv
    set acc' := (dStep G Rv acc).2 with hacc'
    have hG : 0 < G := by omega
    -- node-level facts about the child subtree, from the induction hypothesis on kd
    have nodeUB : ∀ (a : List ℕ) (tk : ℕ) (vk : ℚ) (i : ℕ), i < G → a.length = kd.size →
        evalM kd a = some (tk, vk) → tk ≤ i → vk ≤ getQ Sk i := by
      intro a tk vk i hi hlen he hle
      have hb := (ihk (zeros G) tk (by omega)).2 a tk vk hlen he 0 (by omega)
      rw [getQ_zeros, add_zero] at hb
      rw [hSk, sStep_val G Dk i hi]
      exact le_trans hb ((scanS_spec Dk i).2.2 tk hle)
    constructor
    · -- attained
      obtain ⟨⟨hlenS, hbdS, ts, vs, heS, htotS, hvalS⟩, _⟩ := ihs acc' k hk
      set later := tbForest G acc' s k with hlater
      have hrem : later.2 < G := by omega
      set c := getN (dStep G Rv acc).1 later.2 with hc
      have hc' : c = (scanJ Rv acc later.2 later.2).1 := by
        rw [hc, dStep_choice G Rv acc later.2 hrem]
      obtain ⟨hJ1, hJ2, _⟩ := scanJ_spec Rv acc later.2 later.2
      have hcle : c ≤ later.2 := by rw [hc']; exact hJ1
      have hcG : c < G := by omega
      set c2 := getN (sStep G Dk).1 c with hc2
      have hc2' : c2 = (scanS Dk c).1 := by rw [hc2, sStep_choice G Dk c hcG]
      obtain ⟨hS1, hS2, _⟩ := scanS_spec Dk c
      have hc2le : c2 ≤ c := by rw [hc2']; exact hS1
      obtain ⟨⟨hlenK, hbdK, tk, vk, heK, htotK, hvalK⟩, _⟩ := ihk (zeros G) c2 (by omega)
      set inner := tbForest G (zeros G) kd c2 with hinner
      have hres : tbForest G acc (.cons p kd s) k = (c :: inner.1 ++ later.1, later.2 - c) := rfl
      rw [hres]
      have htake : (inner.1 ++ later.1).take kd.size = inner.1 := by
        rw [← hlenK]; simp
      have hdrop : (inner.1 ++ later.1).drop kd.size = later.1 := by
        rw [← hlenK]; simp
      have htkc : tk ≤ c := by omega
      refine ⟨?_, ?_, c + ts, getQ p c + vk + vs, ?_, ?_, ?_⟩
      · simp only [List.length_append, List.length_cons, hlenK, hlenS, Forest.size]; omega
      · intro x hx
        simp only [List.mem_cons, List.mem_append] at hx
        rcases hx with (hx | hx) | hx
        · rw [hx]; exact hcG
        · exact hbdK x hx
        · exact hbdS x hx
      · simp only [evalM, List.cons_append, htake, hdrop, heK, heS, if_pos htkc]
      · show c + ts + (later.2 - c) = k
        omega
      · show getQ (dAll G acc (.cons p kd s)) k = getQ p c + vk + vs + getQ acc (later.2 - c)
        have h1 : dAll G acc (.cons p kd s) = dAll G acc' s := rfl
        rw [h1, hvalS, hacc', dStep_val G Rv acc later.2 hrem, hJ2, ← hc']
        rw [hRv, getQ_vadd G p Sk c hcG, hSk, sStep_val G Dk c hcG, hS2, ← hc2', hvalK, getQ_zeros]
        ring
    · -- upper bound
      intro a t v hlen he r hr
      cases a with
      | nil => simp [evalM] at he
      | cons i rest =>
        simp only [evalM] at he
        have hrest : rest.length = kd.size + s.size := by
          simp [Forest.size] at hlen; omega
        cases hk1 : evalM kd (rest.take kd.size) with
        | none => simp [hk1] at he
        | some tv1 =>
          obtain ⟨tk, vk⟩ := tv1
          cases hs1 : evalM s (rest.drop kd.size) with
          | none => simp [hk1, hs1] at he
          | some tv2 =>
            obtain ⟨ts, vs⟩ := tv2
            simp only [hk1, hs1] at he
            by_cases hle : tk ≤ i
            · simp only [if_pos hle, Option.some.injEq, Prod.mk.injEq] at he
              obtain ⟨rfl, rfl⟩ := he
              have hiG : i < G := by omega
              have hb := (ihs acc' k hk).2 (rest.drop kd.size) ts vs
                (by simp [hrest]) hs1 (i + r) (by omega)
              have h1 : dAll G acc (.cons p kd s) = dAll G acc' s := rfl
              rw [h1]
              refine le_trans ?_ hb
              have hir : i + r < G := by omega
              rw [hacc', dStep_val G Rv acc (i + r) hir]
              have hJ := (scanJ_spec Rv acc (i + r) (i + r)).2.2 i (by omega)
              have hsub : i + r - i = r := by omega
              rw [hsub, hRv, getQ_vadd G p Sk i hiG] at hJ
              have hk2 := nodeUB (rest.take kd.size) tk vk i hiG (by simp [hrest]) hk1 hle
              linarith
            · simp [if_neg hle] at he

/-- **C10 on the model**: the traceback is a feasible assignment on the grid whose summed
log-likelihood is at least that of every feasible assignment (top-level clones summing to at
most G-1, i.e. CCF ≤ 1). -/
theorem map_optimal (G : ℕ) (hG : 0 < G) (f : Forest) :
    (mapAssign G f).length = f.size ∧ (∀ x ∈ mapAssign G f, x < G) ∧
    ∃ t v, evalM f (mapAssign G f) = some (t, v) ∧ t ≤ G - 1 ∧
      ∀ (a : List ℕ) (t' : ℕ) (v' : ℚ), a.length = f.size → evalM f a = some (t', v') →
        t' ≤ G - 1 → v' ≤ v := by
  set Dk := dAll G (zeros G) f with hDk
  have hG1 : G - 1 < G := by omega
  set c2 := getN (sStep G Dk).1 (G - 1) with hc2
  have hc2' : c2 = (scanS Dk (G - 1)).1 := by rw [hc2, sStep_choice G Dk (G - 1) hG1]
  obtain ⟨hS1, hS2, hS3⟩ := scanS_spec Dk (G - 1)
  have hc2le : c2 ≤ G - 1 := by rw [hc2']; exact hS1
  obtain ⟨⟨hlen, hbd, tF, vF, he, htot, hval⟩, _⟩ := inv_all G f (zeros G) c2 (by omega)
  have hm : mapAssign G f = (tbForest G (zeros G) f c2).1 := rfl
  rw [hm]
  refine ⟨hlen, hbd, tF, vF, he, by omega, ?_⟩
  intro a t' v' hlen' he' hle'
  have hb := (inv_all G f (zeros G) t' (by omega)).2 a t' v' hlen' he' 0 (by omega)
  rw [getQ_zeros, add_zero] at hb
  rw [getQ_zeros, add_zero] at hval
  calc v' ≤ getQ Dk t' := hb
    _ ≤ (scanS Dk (G - 1)).2 := hS3 t' hle'
    _ = getQ Dk c2 := by rw [hS2, ← hc2']
    _ = vF := hval

#print axioms map_optimal
end PhyModel.MapDP
