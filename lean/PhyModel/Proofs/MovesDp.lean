import PhyModel.Proofs.MovesKernel
/-! The data-point move (C04): `Moves.dpStep` as a Gibbs kernel over its candidate list,
invariance of one step from the block structure, lifting through the scan (`dpFold`) and the
uniformly random scan order (`dataPointMove`). -/
namespace PhyModel
open Dist Orders Gibbs

namespace Moves

/-- data point `i` may be moved: it is an outlier or its clone keeps another point -/
def dpMovable (x : T) (i : Nat) : Bool := x.out.contains i || decide (holderSize i x.f > 1)

/-- the candidate list of `dpStep` -/
def dpCands (outliers : Bool) (x : T) (i : Nat) : List T :=
  let f0 := removeDp i x.f
  let out0 := x.out.filter (· != i)
  ((nodesOf f0).map fun nd => T.mk' (addDpAt (nd.1.headD 0) i f0) out0) ++
    (if outliers then [T.mk' f0 (out0 ++ [i])] else [])

theorem dpStep_eq (c : Cfg) (x : T) (i : Nat) :
    dpStep c x i = if dpMovable x i then gibbsK (pOneOf c) (dpCands c.outliers x i) else Dist.pure x := by
  unfold dpStep dpMovable gibbsK dpCands
  by_cases hm : (x.out.contains i || decide (holderSize i x.f > 1)) = true
  · simp only [hm, Bool.not_true, Bool.false_eq_true, if_false, if_true]
  · simp only [Bool.not_eq_true] at hm
    simp only [hm, Bool.not_false, if_true, Bool.false_eq_true, if_false]

/-- the block structure the data-point step needs on the movable states of `S` -/
def DpBlock (outliers : Bool) (S : List T) (i : Nat) : Prop :=
  Block (S.filter fun x => dpMovable x i) (fun x => dpCands outliers x i)

/-- One Gibbs step for data point `i` leaves `π` invariant, given the block structure. -/
theorem dpStep_invariant_of_block (c : Cfg) (i : Nat) (S : List T) (hS : S.Nodup)
    (hπ : ∀ x ∈ S, 0 ≤ pOneOf c x) (hB : DpBlock c.outliers S i) :
    Inv S (pOneOf c) (fun x => dpStep c x i) := by
  apply Inv.split (fun x => dpMovable x i)
  · -- movable states: Gibbs kernel
    have hinv := gibbs_list_invariant (S.filter fun x => dpMovable x i) (hS.filter _)
      (fun x => dpCands c.outliers x i) (pOneOf c) (fun _ => 1)
      (fun x hx => hπ x (List.mem_filter.mp hx).1) hB (fun _ _ _ _ => rfl)
    intro h
    have := hinv h
    simp only [one_mul] at this
    rw [← this]
    apply lsum_congr; intro x hx
    simp only [dpStep_eq, if_pos (List.mem_filter.mp hx).2]
  · apply Inv.of_id
    intro x hx h
    have : dpMovable x i = false := by simpa using (List.mem_filter.mp hx).2
    simp only [dpStep_eq, this]; simp [E_pure]

/-- `dpFold` from a distribution = average of `dpFold` from its points -/
theorem E_dpFold (c : Cfg) (σ : List Nat) (d : Dist T) (h : T → ℚ) :
    E (dpFold c σ d) h = E d (fun x => E (dpFold c σ (Dist.pure x)) h) := by
  induction σ generalizing d with
  | nil => simp [dpFold, E_pure]
  | cons i rest ih =>
    simp only [dpFold]
    rw [ih, E_norm, E_bind]
    apply E_congr; intro ap _
    rw [ih (Dist.norm _), E_norm, E_bind, E_pure]

/-- a scan in a fixed order is a composition of single steps -/
theorem dpFold_invariant (c : Cfg) (σ : List Nat) (S : List T)
    (hstep : ∀ i ∈ σ, Inv S (pOneOf c) (fun x => dpStep c x i)) :
    Inv S (pOneOf c) (fun x => dpFold c σ (Dist.pure x)) := by
  induction σ with
  | nil => exact Inv.pure S _
  | cons i rest ih =>
    have h1 := hstep i (List.mem_cons_self)
    have h2 := ih (fun j hj => hstep j (List.mem_cons_of_mem _ hj))
    refine (Inv.comp h1 h2).congr ?_
    intro x _ h
    simp only [dpFold]
    rw [E_dpFold, E_norm, E_bind, E_pure, E_bind]

theorem perms_perm {l l' : List Nat} (hl : l.Nodup) (hp : l.Perm l') : (perms l).Perm (perms l') := by
  have hl' : l'.Nodup := hp.nodup_iff.mp hl
  rw [List.perm_ext_iff_of_nodup (perms_nodup l hl) (perms_nodup l' hl')]
  intro σ
  exact ⟨fun hh => mem_perms_of_perm l' σ ((perm_of_mem_perms l σ hh).trans hp),
    fun hh => mem_perms_of_perm l σ ((perm_of_mem_perms l' σ hh).trans hp.symm)⟩

/-- The data-point move (uniformly random scan order) leaves `π` invariant on a state list whose
trees all carry the data set `base`, provided every single step does. -/
theorem dataPointMove_invariant_of_steps (c : Cfg) (S : List T) (base : List Nat) (hbase : base.Nodup)
    (hdata : ∀ x ∈ S, (x.f.all ++ x.out).Perm base)
    (hstep : ∀ i ∈ base, Inv S (pOneOf c) (fun x => dpStep c x i)) :
    Inv S (pOneOf c) (dataPointMove c) := by
  have hmix := Inv.uniform_mix (S := S) (μ := pOneOf c) (perms base)
    (by
      intro hnil
      have := length_perms base
      rw [hnil] at this
      exact absurd this.symm (Nat.factorial_ne_zero _))
    (fun σ x => dpFold c σ (Dist.pure x))
    (fun σ hσ => dpFold_invariant c σ S (fun i hi =>
      hstep i ((perm_of_mem_perms base σ hσ).mem_iff.mp hi)))
  refine hmix.congr ?_
  intro x hx h
  unfold dataPointMove
  rw [E_norm, E_bind, E_bind, E_uniform, E_uniform]
  have hp := perms_perm ((hdata x hx).nodup_iff.mpr hbase) (hdata x hx)
  rw [lsum_perm hp, hp.length_eq]

end Moves
end PhyModel
