import PhyModel.Proofs.GraphClosure
/-! `add_subtree` on the graph model (`Model/Graph.lean`, `gAddSubtree`): `compose` with an edge from the
parent to the copy of the subtree's dummy root, then `remove_node_retain_edges` of that copy.  When both
graphs are forests the result has a closed form (`gAddSubtree_spec`): the nodes of `g` followed by the
copies of `sub`'s clones, the edges of `g`, the copies of `sub`'s edges below a clone, and one edge from
the parent to the copy of every top-level node of `sub`.  The call succeeds exactly under the guards
(`gAddSubtree_isSome`) and the result is a forest again (`forest_addSubtree`). -/
namespace PhyModel.Graph
open DG

theorem gAddSubtree_eq (g sub : DG) (p : Nat) (ρ : Nat → Nat) :
    gAddSubtree g sub p ρ =
      if g.live p then (g.compose sub [(p, 0)] ρ).map (·.removeNodeRetainEdges (ρ 0)) else none := by
  unfold gAddSubtree
  cases hl : g.live p
  · rfl
  · cases hc : g.compose sub [(p, 0)] ρ <;> simp

/-- `compose` with a single `node_map` entry: the guards and the result -/
theorem compose_single_eq_some {g sub g1 : DG} {p r : Nat} {ρ : Nat → Nat} :
    g.compose sub [(p, r)] ρ = some g1 ↔
      (∀ v ∈ sub.nodes, ρ v ∉ g.nodes) ∧ (sub.nodes.map ρ).Nodup ∧ p ∈ g.nodes ∧ r ∈ sub.nodes ∧
      g1 = { nodes := g.nodes ++ sub.nodes.map ρ,
             edges := g.edges ++ sub.edges.map (fun e => (ρ e.1, ρ e.2)) ++ [(p, ρ r)] } := by
  unfold compose
  simp only [List.any_map, List.any_cons, List.any_nil, Bool.or_false, List.map_cons, List.map_nil]
  by_cases h1 : (∀ v ∈ sub.nodes, ρ v ∉ g.nodes) ∧ (sub.nodes.map ρ).Nodup
  · have : (sub.nodes.any (g.live ∘ ρ) || !distinctB (sub.nodes.map ρ)) = false := by
      simp only [Bool.or_eq_false_iff, List.any_eq_false, Function.comp, live_iff, Bool.not_eq_false',
        distinctB_iff]
      exact ⟨fun v hv => by simpa using h1.1 v hv, h1.2⟩
    rw [this]
    by_cases h2 : p ∈ g.nodes ∧ r ∈ sub.nodes
    · have : (!g.live p || !sub.live r) = false := by simp [live_iff.2 h2.1, live_iff.2 h2.2]
      rw [this]
      simp only [Bool.false_eq_true, if_false, Option.some.injEq]
      exact ⟨fun h => ⟨h1.1, h1.2, h2.1, h2.2, h.symm⟩, fun h => h.2.2.2.2.symm⟩
    · have : (!g.live p || !sub.live r) = true := by
        simp only [Bool.or_eq_true, Bool.not_eq_true', ← Bool.not_eq_true, live_iff]
        exact Classical.not_and_iff_not_or_not.1 h2
      rw [this]
      simp only [Bool.false_eq_true, if_false, if_true]
      exact ⟨fun h => (by cases h), fun h => absurd ⟨h.2.2.1, h.2.2.2.1⟩ h2⟩
  · have : (sub.nodes.any (g.live ∘ ρ) || !distinctB (sub.nodes.map ρ)) = true := by
      simp only [Bool.or_eq_true, List.any_eq_true, Function.comp, live_iff, Bool.not_eq_true',
        ← Bool.not_eq_true, distinctB_iff]
      rcases Classical.not_and_iff_not_or_not.1 h1 with h | h
      · left
        simpa using h
      · exact .inr h
    rw [this]
    simp only [if_true]
    exact ⟨fun h => (by cases h), fun h => absurd ⟨h.1, h.2.1⟩ h1⟩

/-! ### `remove_node_retain_edges` of the copy of the dummy root -/

section rnre
variable {g sub : DG} {p : Nat} {ρ : Nat → Nat}

private theorem beq_ren (hinj : ∀ a ∈ sub.nodes, ∀ b ∈ sub.nodes, ρ a = ρ b → a = b) (h0 : 0 ∈ sub.nodes)
    {x : Nat} (hx : x ∈ sub.nodes) : ρ x = ρ 0 ↔ x = 0 :=
  ⟨hinj x hx 0 h0, fun h => h ▸ rfl⟩

/-- the graph after `compose` with the edge `p → ρ 0`, then `remove_node_retain_edges (ρ 0)`: the copy
of the dummy root has the single predecessor `p` and the copies of `sub`'s top-level nodes as successors -/
theorem rnre_compose (hinj : ∀ a ∈ sub.nodes, ∀ b ∈ sub.nodes, ρ a = ρ b → a = b) (h0 : 0 ∈ sub.nodes)
    (hp : p ∈ g.nodes) (hfresh : ∀ v ∈ sub.nodes, ρ v ∉ g.nodes)
    (hg : ∀ e ∈ g.edges, e.1 ∈ g.nodes ∧ e.2 ∈ g.nodes)
    (hs : ∀ e ∈ sub.edges, e.1 ∈ sub.nodes ∧ e.2 ∈ sub.nodes ∧ e.2 ≠ 0) :
    removeNodeRetainEdges
        { nodes := g.nodes ++ sub.nodes.map ρ,
          edges := g.edges ++ sub.edges.map (fun e => (ρ e.1, ρ e.2)) ++ [(p, ρ 0)] } (ρ 0) =
      { nodes := g.nodes ++ (sub.nodes.filter (· != 0)).map ρ,
        edges := g.edges ++ (sub.edges.filter (·.1 != 0)).map (fun e => (ρ e.1, ρ e.2))
                   ++ (sub.edges.filter (·.1 == 0)).map (fun e => (p, ρ e.2)) } := by
  have hpne : p ≠ ρ 0 := fun h => hfresh 0 h0 (h ▸ hp)
  have hg1 : ∀ e ∈ g.edges, e.1 ≠ ρ 0 := fun e he h => hfresh 0 h0 (h ▸ (hg e he).1)
  have hg2 : ∀ e ∈ g.edges, e.2 ≠ ρ 0 := fun e he h => hfresh 0 h0 (h ▸ (hg e he).2)
  have hs2 : ∀ e ∈ sub.edges, ρ e.2 ≠ ρ 0 := fun e he h =>
    (hs e he).2.2 (hinj _ (hs e he).2.1 _ h0 h)
  -- predecessors and successors of `ρ 0`
  have hpred : DG.predecessors (⟨g.nodes ++ sub.nodes.map ρ,
      g.edges ++ sub.edges.map (fun e => (ρ e.1, ρ e.2)) ++ [(p, ρ 0)]⟩ : DG) (ρ 0) = [p] := by
    have e1 : g.edges.filter (·.2 == ρ 0) = [] :=
      List.filter_eq_nil_iff.2 fun e he => by simpa using hg2 e he
    have e2 : (sub.edges.map (fun e => (ρ e.1, ρ e.2))).filter (·.2 == ρ 0) = [] := by
      rw [List.filter_eq_nil_iff]
      intro e he
      obtain ⟨e', he', rfl⟩ := List.mem_map.1 he
      simpa using hs2 e' he'
    simp [DG.predecessors, List.filter_append, e1, e2]
  have hsucc : DG.successors (⟨g.nodes ++ sub.nodes.map ρ,
      g.edges ++ sub.edges.map (fun e => (ρ e.1, ρ e.2)) ++ [(p, ρ 0)]⟩ : DG) (ρ 0) =
      (sub.edges.filter (·.1 == 0)).map (fun e => ρ e.2) := by
    have e1 : g.edges.filter (·.1 == ρ 0) = [] :=
      List.filter_eq_nil_iff.2 fun e he => by simpa using hg1 e he
    have e2 : (sub.edges.map (fun e => (ρ e.1, ρ e.2))).filter (·.1 == ρ 0) =
        (sub.edges.filter (·.1 == 0)).map (fun e => (ρ e.1, ρ e.2)) := by
      rw [List.filter_map]
      congr 1
      exact List.filter_congr fun e he => by simpa using beq_ren hinj h0 (hs e he).1
    have e3 : [(p, ρ 0)].filter (·.1 == ρ 0) = [] := by simp [hpne]
    simp only [DG.successors, List.filter_append, e1, e2, e3, List.nil_append, List.append_nil,
      List.map_map]
    rfl
  unfold removeNodeRetainEdges
  simp only [hpred, hsucc, List.flatMap_cons, List.flatMap_nil, List.append_nil, List.map_map,
    removeNodesFrom]
  congr 1
  · -- nodes
    rw [List.filter_append, List.filter_map]
    congr 1
    · exact List.filter_eq_self.2 fun v hv => by
        have : v ≠ ρ 0 := fun h => hfresh 0 h0 (h ▸ hv)
        simpa using this
    · congr 1
      exact List.filter_congr fun v hv => by
        have := beq_ren hinj h0 hv
        show (![ρ 0].contains (ρ v)) = !(v == 0)
        rw [Bool.eq_iff_iff]; simpa using not_congr this
  · -- edges
    simp only [List.filter_append]
    have q1 : g.edges.filter (fun e => ![ρ 0].contains e.1 && ![ρ 0].contains e.2) = g.edges :=
      List.filter_eq_self.2 fun e he => by simp [hg1 e he, hg2 e he]
    have q2 : (sub.edges.map (fun e => (ρ e.1, ρ e.2))).filter
        (fun e => ![ρ 0].contains e.1 && ![ρ 0].contains e.2) =
        (sub.edges.filter (·.1 != 0)).map (fun e => (ρ e.1, ρ e.2)) := by
      rw [List.filter_map]
      congr 1
      exact List.filter_congr fun e he => by
        have := beq_ren hinj h0 (hs e he).1
        show (![ρ 0].contains (ρ e.1) && ![ρ 0].contains (ρ e.2)) = !(e.1 == 0)
        rw [Bool.eq_iff_iff]; simpa [hs2 e he] using not_congr this
    have q3 : [(p, ρ 0)].filter (fun e => ![ρ 0].contains e.1 && ![ρ 0].contains e.2) = [] := by simp
    have q4 : ((sub.edges.filter (·.1 == 0)).map ((fun c => (p, c)) ∘ fun e => ρ e.2)).filter
        (fun e => ![ρ 0].contains e.1 && ![ρ 0].contains e.2) =
        (sub.edges.filter (·.1 == 0)).map (fun e => (p, ρ e.2)) := by
      rw [List.filter_eq_self.2]
      · rfl
      · intro e he
        obtain ⟨e', he', rfl⟩ := List.mem_map.1 he
        simp [hpne, hs2 e' (List.mem_of_mem_filter he')]
    rw [q1, q2, q3, q4, List.append_nil]

end rnre

/-! ### the closed form of `add_subtree` -/

theorem gAddSubtree_spec {g sub g' : DG} {p : Nat} {ρ : Nat → Nat} (hf : IsForest g) (hs : IsForest sub)
    (h : gAddSubtree g sub p ρ = some g') :
    p ∈ g.nodes ∧ (sub.nodes.map ρ).Nodup ∧ (∀ v ∈ sub.nodes, ρ v ∉ g.nodes) ∧
    g'.nodes = g.nodes ++ (sub.nodes.filter (· != 0)).map ρ ∧
    g'.edges = g.edges ++ (sub.edges.filter (·.1 != 0)).map (fun e => (ρ e.1, ρ e.2))
                 ++ (sub.edges.filter (·.1 == 0)).map (fun e => (p, ρ e.2)) := by
  rw [gAddSubtree_eq] at h
  split at h
  · obtain ⟨g1, hc, rfl⟩ := Option.map_eq_some_iff.1 h
    obtain ⟨hfresh, hn, hp, h0, rfl⟩ := compose_single_eq_some.1 hc
    have hinj := List.inj_on_of_nodup_map hn
    rw [rnre_compose (fun a ha b hb => hinj ha hb) h0 hp hfresh hf.edges_live
      fun e he => ⟨(hs.edges_live e he).1, (hs.edges_live e he).2, hs.target_ne_root (p := e.1) he⟩]
    exact ⟨hp, hn, hfresh, rfl, rfl⟩
  · cases h

theorem gAddSubtree_isSome {g sub : DG} {p : Nat} {ρ : Nat → Nat} (hp : p ∈ g.nodes) (h0 : 0 ∈ sub.nodes)
    (hn : (sub.nodes.map ρ).Nodup) (hfresh : ∀ v ∈ sub.nodes, ρ v ∉ g.nodes) :
    (gAddSubtree g sub p ρ).isSome = true := by
  rw [gAddSubtree_eq, if_pos (live_iff.2 hp), compose_single_eq_some.2 ⟨hfresh, hn, hp, h0, rfl⟩]
  rfl

/-! ### the result is a forest -/

theorem forest_addSubtree {g sub g' : DG} {p : Nat} {ρ : Nat → Nat} (hf : IsForest g) (hs : IsForest sub)
    (h : gAddSubtree g sub p ρ = some g') : IsForest g' := by
  obtain ⟨hp, hn, hfresh, hnodes, hedges⟩ := gAddSubtree_spec hf hs h
  have hgsub : ∀ e ∈ g.edges, e ∈ g'.edges := fun e he => by
    rw [hedges]; exact List.mem_append_left _ (List.mem_append_left _ he)
  have hclone : ∀ {x}, x ∈ sub.nodes → x ≠ 0 → ρ x ∈ g'.nodes := fun {x} hx hx0 => by
    rw [hnodes]
    exact List.mem_append_right _ (List.mem_map_of_mem (List.mem_filter.2 ⟨hx, by simpa using hx0⟩))
  have he0 : ∀ {b}, (0, b) ∈ sub.edges → (p, ρ b) ∈ g'.edges := fun {b} hb => by
    rw [hedges]
    exact List.mem_append_right _ (List.mem_map.2 ⟨(0, b), List.mem_filter.2 ⟨hb, by simp⟩, rfl⟩)
  have he1 : ∀ {a b}, (a, b) ∈ sub.edges → a ≠ 0 → (ρ a, ρ b) ∈ g'.edges := fun {a b} hab ha => by
    rw [hedges]
    exact List.mem_append_left _ (List.mem_append_right _
      (List.mem_map.2 ⟨(a, b), List.mem_filter.2 ⟨hab, by simpa using ha⟩, rfl⟩))
  refine IsForest.of_targets_perm ?_ ?_ ?_ ?_ ?_
  · -- the live nodes are distinct
    rw [hnodes, List.nodup_append]
    refine ⟨hf.nodes_nodup, hn.sublist (List.filter_sublist.map ρ), ?_⟩
    rintro a ha b hb rfl
    obtain ⟨x, hx, rfl⟩ := List.mem_map.1 hb
    exact hfresh x (List.mem_of_mem_filter hx) ha
  · rw [hnodes]; exact List.mem_append_left _ hf.root_live
  · -- sources are live
    intro e he
    rw [hedges] at he
    rcases List.mem_append.1 he with he | he
    · rcases List.mem_append.1 he with he | he
      · rw [hnodes]; exact List.mem_append_left _ (hf.edges_live e he).1
      · obtain ⟨e', he', rfl⟩ := List.mem_map.1 he
        have := List.mem_filter.1 he'
        exact hclone (hs.edges_live e' this.1).1 (by simpa using this.2)
    · obtain ⟨e', _, rfl⟩ := List.mem_map.1 he
      rw [hnodes]; exact List.mem_append_left _ hp
  · -- in-degrees: the targets are those of `g` and the copies of those of `sub`
    have hsplit : (sub.edges.filter (·.1 != 0) ++ sub.edges.filter (·.1 == 0)).Perm sub.edges := by
      have : sub.edges.filter (·.1 == 0) = sub.edges.filter (fun e => !(e.1 != 0)) :=
        List.filter_congr fun e _ => by
          show (e.1 == 0) = !(!(e.1 == 0))
          rw [Bool.not_not]
      rw [this]
      exact List.filter_append_perm _ _
    have ht : g'.targets = g.targets ++
        (sub.edges.filter (·.1 != 0) ++ sub.edges.filter (·.1 == 0)).map (fun e => ρ e.2) := by
      simp only [DG.targets, hedges, List.map_append, List.map_map, List.append_assoc]
      rfl
    have hn' : g'.nodes.erase 0 = g.nodes.erase 0 ++ (sub.nodes.erase 0).map ρ := by
      rw [hnodes, List.erase_append_left _ hf.root_live, hs.nodes_nodup.erase_eq_filter]
    rw [ht, hn']
    refine hf.targets_perm.append ?_
    have := (hsplit.map (fun e => ρ e.2)).trans
      (show (sub.edges.map (fun e => ρ e.2)).Perm ((sub.nodes.erase 0).map ρ) by
        have := hs.targets_perm.map ρ
        rw [DG.targets, List.map_map] at this
        exact this)
    exact this
  · -- reachability
    have hroot : Reach g' 0 p := (hf.reach p hp).mono hgsub
    have key : ∀ a x, Reach sub a x → a = 0 → x ≠ 0 → Reach g' p (ρ x) := by
      intro a x hr
      induction hr with
      | refl => intro h1 h2; exact absurd h1 h2
      | @step b c _ hbc ih =>
        intro ha _
        by_cases hb : b = 0
        · subst hb; exact Reach.single (he0 hbc)
        · exact .step (ih ha hb) (he1 hbc hb)
    intro v hv
    rw [hnodes] at hv
    rcases List.mem_append.1 hv with hv | hv
    · exact (hf.reach v hv).mono hgsub
    · obtain ⟨x, hx, rfl⟩ := List.mem_map.1 hv
      have hx' := List.mem_filter.1 hx
      have hx0 : x ≠ 0 := by simpa using hx'.2
      exact hroot.trans (key 0 x (hs.reach x hx'.1) rfl hx0)

/-! ### non-vacuity -/

private def g4 : DG := { nodes := [0, 1, 2, 3, 4], edges := [(2, 1), (0, 4), (4, 3), (4, 2)] }
private def g2 : DG := { nodes := [0, 1, 2], edges := [(0, 2), (2, 1)] }

example : IsForest g4 ∧ IsForest g2 ∧
    gAddSubtree g4 g2 3 (fun i => i + 10) =
      some { nodes := [0, 1, 2, 3, 4, 11, 12], edges := [(2, 1), (0, 4), (4, 3), (4, 2), (12, 11), (3, 12)] } := by
  decide +kernel

end PhyModel.Graph
