import PhyModel.Proofs.StoreWF_addDp
/-! C07: `createRootNode` (and the compound `createAdd`) preserve well-formedness and density; the
new clone is named `num_nodes`, which is fresh because the names are dense. -/
namespace PhyModel.Store
open PhyModel PhyModel.Store PhyModel.Store.Store SF AL

theorem recAdd_nodup {dt : Data} {n n' : NodeRec} {dps : List Nat} (h : recAdd dt n dps = some n')
    (hn : n.dps.Nodup) : n'.dps.Nodup := by
  unfold recAdd at h
  induction dps generalizing n with
  | nil => simp at h; subst h; exact hn
  | cons d l ih =>
    simp only [List.foldlM_cons, Option.bind_eq_bind, Option.bind_eq_some_iff] at h
    obtain ⟨m, hm, h⟩ := h
    split at hm
    · cases hm
    · rename_i hc
      simp only [Option.some.injEq] at hm; subst hm
      refine ih h ?_
      have : d ∉ n.dps := by simpa using hc
      exact List.nodup_append.2 ⟨hn, by simp, by
        intro a ha b hb; simp at hb; subst hb; intro hab; subst hab; exact this ha⟩

theorem WFG.cons {rs : List NodeRec} (h : WFG rs) {n : NodeRec} (h1 : n.name ∉ rs.map (·.name))
    (h2 : n.idx ∉ rs.map (·.idx)) (h3 : n.idx ≠ 0) (h4 : 0 ≤ n.name) : WFG (n :: rs) :=
  ⟨List.nodup_cons.2 ⟨h1, h.names_nodup⟩, List.nodup_cons.2 ⟨h2, h.idxs_nodup⟩,
    fun m hm => by rcases List.mem_cons.1 hm with rfl | hm; exacts [h3, h.idx_pos m hm],
    fun m hm => by rcases List.mem_cons.1 hm with rfl | hm; exacts [h4, h.name_nonneg m hm]⟩

theorem WFM.cons {rs : List NodeRec} {ni nir} (h : WFM rs ni nir) (n : NodeRec) :
    WFM (n :: rs) (ni ++ [(n.name, n.idx)]) (nir ++ [(n.idx, n.name)]) :=
  ⟨(List.perm_append_singleton _ _).trans (List.Perm.cons _ h.1),
    (List.perm_append_singleton _ _).trans (List.Perm.cons _ h.2)⟩

/-- everything the callers need about a successful `create_root_node` in a dense tree -/
theorem create_spec {dt : Data} {s : Store} {ch : List Int} {data : List Nat} {r : Store × Int}
    (h : s.createRootNode dt ch data = some r) (hw : WF s) (hd : Dense s)
    (hfresh : ∀ x ∈ data, x ∉ vals s.data) :
    r.2 = (s.numNodes : Int) ∧ WF r.1 ∧ Dense r.1 ∧ r.1.forest.names.Perm (r.2 :: s.forest.names) ∧
      r.2 ∉ keys s.data ∧ r.1.data = (if data.isEmpty then s.data else s.data ++ [(r.2, data)]) := by
  unfold createRootNode at h
  simp only [Option.bind_eq_bind, Option.pure_def, Option.bind_eq_some_iff] at h
  obtain ⟨n1, hn1, cis, _, h⟩ := h
  by_cases hlen : ((s.forest.takeRoots cis).1.rootRecs.length != cis.length) = true
  · rw [if_pos hlen] at h; cases h
  rw [if_neg hlen] at h
  simp only [Option.bind_eq_some_iff] at h
  obtain ⟨s2, hs2, h⟩ := h
  simp only [Option.some.injEq] at h; subst h
  obtain ⟨hi1, hnm1, hd1⟩ := recAdd_fields hn1
  simp only [freshRec, List.nil_append] at hi1 hnm1 hd1
  have hnd1 : n1.dps.Nodup := recAdd_nodup hn1 (by simp [freshRec])
  obtain ⟨hc, h1, h2, h3, _⟩ := updatePathToRoot_spec hs2
  simp only at hc h1 h2 h3
  -- freshness of the new name and index
  have hname : n1.name ∉ s.forest.recs.map (·.name) := by
    intro hc'; obtain ⟨m, hm, hmn⟩ := List.mem_map.1 hc'
    have := hd m hm; rw [hmn, hnm1] at this; omega
  have hidx : n1.idx ∉ s.forest.recs.map (·.idx) := by
    intro hc'; obtain ⟨m, hm, hmi⟩ := List.mem_map.1 hc'
    have := le_maxIdx hm; rw [hmi, hi1, Store.fresh] at this; omega
  have hkey : n1.name ∉ keys s.data := by
    intro hc'
    rcases hw.d.data_sub _ hc' with h' | h'
    · rw [hnm1] at h'; simp [outKey] at h'
    · exact hname h'
  have hni : (s.numNodes : Int) ∉ keys s.nodeIdx := by
    intro hc'
    have : (s.numNodes : Int) ∈ s.forest.recs.map (·.name) := by
      have := (hw.m.1.map Prod.fst).subset hc'
      simpa [List.map_map, Function.comp_def] using this
    exact hname (hnm1 ▸ this)
  have hnir : s.fresh ∉ keys s.nodeIdxRev := by
    intro hc'
    have : s.fresh ∈ s.forest.recs.map (·.idx) := by
      have := (hw.m.2.map Prod.fst).subset hc'
      simpa [List.map_map, Function.comp_def] using this
    exact hidx (hi1 ▸ this)
  rw [alSet_of_not_mem _ hni] at h1
  rw [alSet_of_not_mem _ hnir] at h2
  -- the payload list
  have hs : SameCore s2.forest.recs (n1 :: ((s.forest.takeRoots cis).1.recs ++ (s.forest.takeRoots cis).2.recs)) :=
    sameCore_of_cores hc
  have hp : (n1 :: ((s.forest.takeRoots cis).1.recs ++ (s.forest.takeRoots cis).2.recs)).Perm
      (n1 :: s.forest.recs) := (takeRoots_perm cis s.forest).cons n1
  -- well-formedness of `n1 :: recs` with the new maps
  have hG : WFG (n1 :: s.forest.recs) := hw.g.cons hname hidx (by rw [hi1, Store.fresh]; omega) (by rw [hnm1]; omega)
  have hM : WFM (n1 :: s.forest.recs) s2.nodeIdx s2.nodeIdxRev := by
    rw [h1, h2, ← hnm1, ← hi1]; exact hw.m.cons n1
  have hD : WFD (n1 :: s.forest.recs) s2.data ∧
      s2.data = (if data.isEmpty then s.data else s.data ++ [((s.numNodes : Int), data)]) := by
    rw [h3]
    by_cases he : data.isEmpty
    · have hd0 : data = [] := by simpa using he
      simp only [he, if_true, and_true]
      refine ⟨hw.d.data_keys, fun k hk => (hw.d.data_sub k hk).imp id fun h' => by simp [h'],
        fun n hn => ?_, hw.d.data_nodup⟩
      rcases List.mem_cons.1 hn with rfl | hn
      · rw [hd1, hd0, dOf_of_not_mem hkey]
      · exact hw.d.payload_data n hn
    · simp only [he, if_false, Bool.false_eq_true]
      have hdn : s.dataOf (s.numNodes : Int) = [] := by rw [dataOf_eq, ← hnm1, dOf_of_not_mem hkey]
      have hv : appendData s (s.numNodes : Int) data = alSet s.data (s.numNodes : Int) data := by
        simp [appendData, hdn]
      rw [hv]
      refine ⟨⟨nodup_keys_alSet _ hw.d.data_keys, fun k hk => ?_, fun n hn => ?_, ?_⟩,
        alSet_of_not_mem _ (hnm1 ▸ hkey)⟩
      · rcases (mem_keys_alSet _).1 hk with rfl | h'
        · right; simp [hnm1]
        · exact (hw.d.data_sub k h').imp id fun h' => by simp [h']
      · rcases List.mem_cons.1 hn with rfl | hn
        · rw [hnm1, dOf_alSet_self, hd1]
        · have : n.name ≠ (s.numNodes : Int) := fun hc' => hname (hnm1 ▸ hc' ▸ List.mem_map.2 ⟨n, hn, rfl⟩)
          rw [dOf_alSet_ne this]; exact hw.d.payload_data n hn
      · rw [(vals_alSet_perm hw.d.data_keys _ _).nodup_iff, alDel_of_not_mem (hnm1 ▸ hkey)]
        exact List.nodup_append.2 ⟨hd1 ▸ hnd1, hw.d.data_nodup, fun a ha b hb hab => hfresh a ha (hab ▸ hb)⟩
  have hnames : s2.forest.names.Perm ((s.numNodes : Int) :: s.forest.names) := by
    have := hs.map_eq (·.name) fun _ _ _ h => h
    simp only [SF.names]; rw [this, ← hnm1]; exact hp.map _
  have hlen : s2.forest.numNodes = s.forest.numNodes + 1 := by
    rw [numNodes_eq, numNodes_eq]
    have := hnames.length_eq; simpa [SF.names] using this
  refine ⟨rfl, ?_, ?_, hnames, hnm1 ▸ hkey, hD.2⟩
  · rw [wf_iff]; exact ⟨(hG.perm hp).same hs, (hM.perm hp).same hs, (hD.1.perm hp).same hs⟩
  · intro n hn
    have : n.name ∈ (s.numNodes : Int) :: s.forest.names := hnames.subset (mem_names.2 ⟨n, hn, rfl⟩)
    show n.name < ((s2.forest.numNodes : Nat) : Int)
    rw [hlen]
    rcases List.mem_cons.1 this with h' | h'
    · rw [h']; simp only [Store.numNodes]; push_cast; omega
    · obtain ⟨m, hm, hmn⟩ := mem_names.1 h'
      have := hd m hm; rw [hmn] at this; simp only [Store.numNodes] at this; push_cast; omega

/-- all clones except possibly the new one have their `_data` key -/
theorem create_full_except {dt : Data} {s : Store} {ch : List Int} {data : List Nat} {r : Store × Int}
    (h : s.createRootNode dt ch data = some r) (hs : Inv0 s) (hd : Dense s)
    (hfresh : ∀ x ∈ data, x ∉ vals s.data) :
    ∀ n ∈ r.1.forest.recs, n.name ≠ r.2 → n.name ∈ keys r.1.data := by
  obtain ⟨_, _, _, hn, _, hdat⟩ := create_spec h hs.1 hd hfresh
  intro n hn' hne
  have : n.name ∈ r.2 :: s.forest.names := hn.subset (mem_names.2 ⟨n, hn', rfl⟩)
  rcases List.mem_cons.1 this with h' | h'
  · exact absurd h' hne
  · obtain ⟨m, hm, hmn⟩ := mem_names.1 h'
    have hk : n.name ∈ keys s.data := hmn ▸ hs.2 m hm
    rw [hdat]; split
    · exact hk
    · simp only [keys, List.map_append, List.mem_append]; exact Or.inl hk

theorem create_inv {dt : Data} {s : Store} {ch : List Int} {data : List Nat} {r : Store × Int}
    (h : s.createRootNode dt ch data = some r) (hs : Inv0 s) (hd : Dense s) (hne : data ≠ [])
    (hfresh : ∀ x ∈ data, x ∉ vals s.data) : Inv0 r.1 ∧ Dense r.1 := by
  obtain ⟨_, hw, hd', _, _, hdat⟩ := create_spec h hs.1 hd hfresh
  refine ⟨⟨hw, fun n hn => ?_⟩, hd'⟩
  by_cases hc : n.name = r.2
  · show n.name ∈ keys r.1.data
    have he : data.isEmpty = false := by cases data <;> simp_all
    rw [hdat, he, hc]; simp [keys]
  · exact create_full_except h hs hd hfresh n hn hc

/-- data conservation: exactly `data` is added -/
theorem create_data {dt : Data} {s : Store} {ch : List Int} {data : List Nat} {r : Store × Int}
    (h : s.createRootNode dt ch data = some r) (hw : WF s) (hd : Dense s)
    (hfresh : ∀ x ∈ data, x ∉ vals s.data) : (vals r.1.data).Perm (data ++ vals s.data) := by
  obtain ⟨_, _, _, _, _, hdat⟩ := create_spec h hw hd hfresh
  rw [hdat]; split
  · rename_i he
    have : data = [] := by simpa using he
    simp [this]
  · simp only [vals, List.flatMap_append, List.flatMap_cons, List.flatMap_nil, List.append_nil]
    exact List.perm_append_comm

/-- `create_root_node(children)` followed by `add_data_point_to_node(dp, new node)` -/
theorem createAdd_inv {dt : Data} {s s' : Store} {ch : List Int} {dp : Nat} {r : Store × Int}
    (h1 : s.createRootNode dt ch [] = some r) (h2 : r.1.addDataPointToNode dt dp r.2 = some s')
    (hs : Inv0 s) (hd : Dense s) : Inv0 s' ∧ Dense s' ∧ (vals s'.data).Perm (dp :: vals s.data) := by
  have hfresh : ∀ x ∈ ([] : List Nat), x ∉ vals s.data := by simp
  obtain ⟨_, hw, hd', _, _, _⟩ := create_spec h1 hs.1 hd hfresh
  refine ⟨⟨addDp_wf h2 hw, addDp_full h2 hw (create_full_except h1 hs hd hfresh)⟩,
    addDp_dense h2 hw hd', ?_⟩
  have := create_data h1 hs.1 hd hfresh
  simp only [List.nil_append] at this
  exact (addDp_data h2 hw).trans (List.Perm.cons dp this)

end PhyModel.Store
