import PhyModel.Proofs.GraphOfCreate
import PhyModel.Proofs.StoreCache_create
import PhyModel.Proofs.StoreWFB
import PhyModel.Proofs.C07Example
/-! Store-level form of `graph_createRootNode`: a successful `Store.createRootNode` on a well-formed
store leaves a forest whose graph is what the primitive sequence `gCreateRootNode` makes of the graph of
the old forest, for the index the model allocates (`Store.fresh`) and the graph indices of the children
looked up in `_node_indices`.  The cache pass that follows (`_update_path_to_root`) changes neither the
indices nor the edges. -/
namespace PhyModel.Graph
open PhyModel PhyModel.Store PhyModel.Store.SF

/-- `_update_path_to_root` rewrites cached vectors only: same graph indices -/
theorem idxs_updPath (dt : Data) (i : Nat) : ∀ f : SF, (updPath dt i f).1.idxs = f.idxs
  | .nil => rfl
  | .cons n k s => by
    rw [C06.updPath_cons]
    split
    · simp
    · split
      · simp [idxs_updPath dt i k]
      · simp [idxs_updPath dt i s]

/-- `_update_path_to_root` rewrites cached vectors only: same edges -/
theorem edgesOf_updPath (dt : Data) (i : Nat) : ∀ (f : SF) (par : Nat),
    Store.edgesOf par (updPath dt i f).1 = Store.edgesOf par f
  | .nil, _ => rfl
  | .cons n k s, par => by
    rw [C06.updPath_cons]
    split
    · rfl
    · split
      · simp [edgesOf_updPath dt i k]
      · simp [edgesOf_updPath dt i s]

theorem graphOf_updPath (dt : Data) (i : Nat) (f : SF) : graphOf (updPath dt i f).1 = graphOf f := by
  simp [graphOf, idxs_updPath, edgesOf_updPath]

/-- **`Tree.create_root_node` of the store model is the graph primitive sequence**: when the store model's
call succeeds on a well-formed store, `cis` are the graph indices `_node_indices` gives for the children,
the primitive sequence on the graph of the old forest succeeds for the index the model allocates, and it
leaves the graph of the new forest (node list and edge list up to order). -/
theorem graph_store_createRootNode {dt : Data} {s : Store} {ch : List Int} {data : List Nat} {r : Store × Int}
    (hwf : WF s) (h : s.createRootNode dt ch data = some r) :
    ∃ cis g', ch.mapM (fun c => (alSet s.nodeIdx (s.numNodes : Int) s.fresh).lookup c) = some cis ∧
      gCreateRootNode (graphOf s.forest) s.fresh cis = some g' ∧
      g'.nodes.Perm (graphOf r.1.forest).nodes ∧ g'.edges.Perm (graphOf r.1.forest).edges := by
  unfold Store.createRootNode at h
  simp only [Option.bind_eq_bind, Option.bind_eq_some_iff, Option.pure_def] at h
  obtain ⟨n1, hn1, cis, hcis, h⟩ := h
  split at h
  · cases h
  · rename_i hl
    simp only [Option.bind_eq_some_iff] at h
    obtain ⟨s2, hup, h⟩ := h
    cases h
    obtain ⟨i, _, _, rfl⟩ := C06.updatePath_some dt _ _ _ hup
    have hidx : n1.idx = s.fresh := (C06.recAdd_spec dt data _ n1 hn1).1
    have hlen : (s.forest.takeRoots cis).1.rootRecs.length = cis.length := by simpa using hl
    have h0 : 0 ∉ s.forest.idxs := fun hm => by
      obtain ⟨n, hn, hn0⟩ := mem_idxs.1 hm
      exact hwf.idx_pos n hn hn0
    have hnew : n1.idx ∉ s.forest.idxs := hidx ▸ C06.fresh_notMem s
    have hnew0 : n1.idx ≠ 0 := by rw [hidx]; unfold Store.fresh; omega
    obtain ⟨g', hg, hnodes, hedges⟩ := graph_createRootNode hwf.idxs_nodup h0 hnew hnew0 hlen
    refine ⟨cis, g', hcis, hidx ▸ hg, ?_, ?_⟩
    · simpa only [graphOf_updPath] using hnodes
    · simpa only [graphOf_updPath] using hedges

/-! ### non-vacuity: a well-formed store with four clones (three at top level), a fifth put on two of them -/

/-- clones named 0, 1, 2 (graph indices 1, 2, 3) and clone 3 (index 4) on top of clone 1 -/
private def exS : Store :=
  C07Ex.after [.create 0 [] [0], .create 0 [] [1], .create 0 [] [2], .create 0 [1] [3]] 0

example : WF exS ∧ exS.fresh = 5 ∧
    graphOf exS.forest = ⟨[0, 4, 2, 3, 1], [(0, 4), (4, 2), (0, 3), (0, 1)]⟩ ∧
    [(0 : Int), 3].mapM (fun c => (alSet exS.nodeIdx (exS.numNodes : Int) exS.fresh).lookup c) = some [1, 4] ∧
    (exS.createRootNode C07Ex.dt [0, 3] []).map (fun r => graphOf r.1.forest) =
      some ⟨[0, 5, 4, 2, 1, 3], [(0, 5), (5, 4), (4, 2), (5, 1), (0, 3)]⟩ ∧
    gCreateRootNode (graphOf exS.forest) exS.fresh [1, 4] =
      some ⟨[0, 4, 2, 3, 1, 5], [(4, 2), (0, 3), (0, 5), (5, 1), (5, 4)]⟩ :=
  ⟨(Store.wfB_iff _).1 (by decide +kernel), by decide +kernel⟩

end PhyModel.Graph
