import PhyModel.Proofs.GraphStep
/-! Concrete graphs and a history for the non-vacuity examples of `Props/C07.lean` (graph shape). -/
namespace PhyModel.Graph.Ex
open PhyModel.Graph

/-- clones 4 → {3, 2 → 1} under the root (indices as `create_root_node` hands them out) -/
def g4 : DG := { nodes := [0, 1, 2, 3, 4], edges := [(2, 1), (0, 4), (4, 3), (4, 2)] }
/-- clone 2 → 1 under its own root -/
def g2 : DG := { nodes := [0, 1, 2], edges := [(0, 2), (2, 1)] }
/-- a graph with a hole in the index range, as left by `remove_subtree` -/
def g5 : DG := { nodes := [0, 4, 7, 2], edges := [(0, 4), (4, 7), (4, 2)] }

/-- a history through every kind of graph-level edit: builds `g4` on handle 0, extracts the subtree of
clone 2 (handle 1, rustworkx numbering: `subgraph` compacts to 0, 1; `compose` shifts by one), copies
(handle 2), prunes clone 2 from handle 0, grafts handle 1 below clone 3 re-using the freed indices,
round-trips handle 2 through its dictionary form, re-initialises handle 1, and opens a fresh tree -/
def ops : List GOp :=
  [.create 0 1 [], .create 0 2 [1], .create 0 3 [], .create 0 4 [3, 2],
   .getSub 0 2 [(1, 0), (2, 1)] [(0, 1), (1, 2)], .copy 0, .rmSub 0 2,
   .addSub 0 1 3 [(0, 5), (1, 2), (2, 1)],
   .fromDict 2 [(2, 1), (0, 4), (4, 3), (4, 2)] [0, 1, 2, 3, 4], .reinit 1, .fresh]

end PhyModel.Graph.Ex
