import PhyModel.Proofs.ConsBridge5
import PhyModel.Proofs.ConsNest
import Mathlib.Data.List.Lattice
/-! Bridge, part 6: `set.remove` of the children's elements (`relabel`) as `List.diff`; shape of
the parent table; the children recorded for a node are exactly its children in the nesting
relation. -/
open Finset

namespace PhyModel.ConsBridge
open PhyModel.Consensus PhyModel.Orders

/-! ### `set.remove` -/

theorem removeOne_eq (x : ℕ) : ∀ r : List ℕ,
    removeOne x r = if x ∈ r then some (r.erase x) else none
  | [] => by simp [removeOne]
  | a :: l => by
    unfold removeOne
    by_cases h : a = x
    · subst h; simp
    · have h' : ¬ x = a := fun e => h e.symm
      simp only [h, if_false, removeOne_eq x l, List.mem_cons, h', false_or]
      by_cases hx : x ∈ l
      · have : (a :: l).erase x = a :: l.erase x := List.erase_cons_tail (by simpa using h)
        simp [hx, this]
      · simp [hx]

/-- removing the elements of a duplicate-free list that are all present never raises KeyError -/
theorem removeAll_ok : ∀ (xs r : List ℕ), xs.Nodup → (∀ x ∈ xs, x ∈ r) →
    removeAll xs r = .ok (r.diff xs)
  | [], r, _, _ => rfl
  | x :: xs, r, hnd, hsub => by
    obtain ⟨hx, hnd'⟩ := List.nodup_cons.mp hnd
    have hxr : x ∈ r := hsub x List.mem_cons_self
    unfold removeAll
    rw [removeOne_eq, if_pos hxr]
    simp only
    rw [removeAll_ok xs (r.erase x) hnd' ?_, List.diff_cons]
    intro y hy
    have hne : y ≠ x := fun e => hx (e ▸ hy)
    exact (List.mem_erase_of_ne hne).mpr (hsub y (List.mem_cons_of_mem _ hy))

/-- removals compose -/
theorem removeAll_append : ∀ (xs ys r : List ℕ),
    removeAll (xs ++ ys) r = (removeAll xs r).bind (removeAll ys)
  | [], ys, r => rfl
  | x :: xs, ys, r => by
    simp only [List.cons_append]
    unfold removeAll
    cases removeOne x r with
    | none => rfl
    | some r' => exact removeAll_append xs ys r'

theorem removeChildren_eq : ∀ (chs : List Clade) (r : List ℕ),
    removeChildren chs r = removeAll chs.flatten r
  | [], r => rfl
  | ch :: chs, r => by
    rw [List.flatten_cons, removeAll_append]
    unfold removeChildren
    cases h : removeAll ch r with
    | error e => rfl
    | ok r' => exact removeChildren_eq chs r'

/-- children that are duplicate-free, pairwise disjoint and inside the node: `relabel` succeeds and
leaves exactly the node's elements outside every child -/
theorem removeChildren_ok (chs : List Clade) (r : List ℕ) (hnd : chs.flatten.Nodup)
    (hsub : ∀ x ∈ chs.flatten, x ∈ r) : removeChildren chs r = .ok (r.diff chs.flatten) := by
  rw [removeChildren_eq, removeAll_ok _ _ hnd hsub]

/-! ### shape of the parent table -/

theorem entry_spec {m : List Clade} {c : Clade} {e : Clade × Option Clade}
    (h : (do let p ← findSmallestSuperset m c; pure (c, p) : Except String _) = .ok e) :
    e.1 = c ∧ findSmallestSuperset m c = .ok e.2 := by
  cases hr : findSmallestSuperset m c with
  | error err => rw [hr] at h; cases h
  | ok r =>
    rw [hr] at h
    have h' : (Except.ok (c, r) : Except String (Clade × Option Clade)) = .ok e := h
    injection h' with h'
    subst h'
    exact ⟨rfl, rfl⟩

theorem tbl_spec {m : List Clade} {tbl : List (Clade × Option Clade)} (h : parentTable m = .ok tbl) :
    List.Forall₂ (fun c e => e.1 = c ∧ findSmallestSuperset m c = .ok e.2) m tbl :=
  (mapM_spec _ m tbl h).imp fun _ _ hab => entry_spec hab

theorem forall₂_mem_left {α β : Type} {R : α → β → Prop} {l : List α} {bs : List β}
    (h : List.Forall₂ R l bs) : ∀ a ∈ l, ∃ b ∈ bs, R a b := by
  induction h with
  | nil => intro a ha; cases ha
  | cons hab _ ih =>
    intro a ha
    rcases List.mem_cons.mp ha with rfl | ha
    · exact ⟨_, List.mem_cons_self, hab⟩
    · obtain ⟨b, hb, hfb⟩ := ih a ha
      exact ⟨b, List.mem_cons_of_mem _ hb, hfb⟩

theorem forall₂_map_fst {α β : Type} {R : α → α × β → Prop} {l : List α} {bs : List (α × β)}
    (h : List.Forall₂ R l bs) (hR : ∀ a b, R a b → b.1 = a) : bs.map (·.1) = l := by
  induction h with
  | nil => rfl
  | cons hab _ ih => simp only [List.map_cons, ih, hR _ _ hab]

theorem tbl_keys {m : List Clade} {tbl : List (Clade × Option Clade)} (h : parentTable m = .ok tbl) :
    tbl.map (·.1) = m :=
  forall₂_map_fst (tbl_spec h) fun _ _ hab => hab.1

/-- the parent returned by `find_smallest_superset` is a member of the family -/
theorem parent_mem {m : List Clade} {c p : Clade} (h : findSmallestSuperset m c = .ok (some p)) :
    p ∈ m := by
  obtain ⟨h1, _⟩ := go_spec c (discard c m) none (some p) h
  obtain ⟨a1, _, _⟩ := h1 p rfl
  rcases a1 with a1 | ⟨hpm, _⟩
  · cases a1
  · exact (mem_discard.mp hpm).1

/-! ### the children of a node -/

theorem mem_childrenOf {tbl : List (Clade × Option Clade)} {c d : Clade} :
    d ∈ childrenOf tbl c ↔ ∃ p, (d, some p) ∈ tbl ∧ p.toFinset = c.toFinset := by
  unfold childrenOf
  simp only [List.mem_map, List.mem_filter]
  constructor
  · rintro ⟨⟨d', q⟩, ⟨he, hp⟩, rfl⟩
    cases q with
    | none => simp [isParent] at hp
    | some p => exact ⟨p, he, setEq_iff.mp (by simpa [isParent] using hp)⟩
  · rintro ⟨p, he, hp⟩
    exact ⟨(d, some p), ⟨he, by simpa [isParent] using setEq_iff.mpr hp⟩, rfl⟩

theorem childrenOf_sublist {m : List Clade} {tbl : List (Clade × Option Clade)}
    (h : parentTable m = .ok tbl) (c : Clade) : (childrenOf tbl c).Sublist m := by
  unfold childrenOf
  rw [← tbl_keys h]
  exact List.filter_sublist.map _

/-- the edges into `c` recorded by `consensus` are exactly the children of `c` in the nesting
relation of the family -/
theorem childrenOf_iff {m : List Clade} (hg : GoodFamily m) {tbl : List (Clade × Option Clade)}
    (h : parentTable m = .ok tbl) {c : Clade} (hc : c ∈ m) (d : Clade) :
    d ∈ childrenOf tbl c ↔ d ∈ m ∧ _root_.Consensus.isChild (F m) c.toFinset d.toFinset := by
  rw [mem_childrenOf]
  constructor
  · rintro ⟨p, he, hp⟩
    obtain ⟨a, ham, ha1, ha2⟩ := forall₂_mem_right (tbl_spec h) _ he
    simp only at ha1 ha2
    subst ha1
    exact ⟨ham, hp ▸ parent_isChild hg.nd ha2 ham⟩
  · rintro ⟨hd, hch⟩
    obtain ⟨e, he, he1, he2⟩ := forall₂_mem_left (tbl_spec h) d hd
    obtain ⟨d', q⟩ := e
    simp only at he1 he2
    subst he1
    cases q with
    | none => exact absurd hch.2.1 (root_maximal he2 c hc)
    | some p =>
      refine ⟨p, he, ?_⟩
      exact _root_.Consensus.isChild_unique hg.lam (hg.ne _ hd) (mem_F.mpr ⟨c, hc, rfl⟩)
        (mem_F.mpr ⟨p, parent_mem he2, rfl⟩) hch (parent_isChild hg.nd he2 hd)

end PhyModel.ConsBridge
