import PhyModel.Proofs.Consensus
import PhyModel.Model.Consensus
/-! Bridge between the executable list model `PhyModel.Consensus` and the Finset-level lemmas of
`Proofs/Consensus.lean`: set operations on clades, clades of a forest, laminarity. -/
open Finset

namespace PhyModel.ConsBridge
open PhyModel.Consensus PhyModel.Orders

/-- the family of sets a list of clades stands for -/
def F (l : List Clade) : Finset (Finset ℕ) := (l.map List.toFinset).toFinset

theorem mem_F {l : List Clade} {s : Finset ℕ} : s ∈ F l ↔ ∃ d ∈ l, d.toFinset = s := by
  simp [F]

theorem subsetL_iff {a b : List ℕ} : subsetL a b = true ↔ a.toFinset ⊆ b.toFinset := by
  simp [subsetL, Finset.subset_iff]

theorem setEq_iff {a b : Clade} : setEq a b = true ↔ a.toFinset = b.toFinset := by
  simp only [setEq, Bool.and_eq_true, subsetL_iff]
  constructor
  · rintro ⟨h1, h2⟩; exact Finset.Subset.antisymm h1 h2
  · intro h; rw [h]; exact ⟨Finset.Subset.refl _, Finset.Subset.refl _⟩

theorem memC_iff {c : Clade} {l : List Clade} : memC c l = true ↔ c.toFinset ∈ F l := by
  simp only [memC, List.any_eq_true, setEq_iff, mem_F]
  constructor
  · rintro ⟨d, hd, h⟩; exact ⟨d, hd, h.symm⟩
  · rintro ⟨d, hd, h⟩; exact ⟨d, hd, h.symm⟩

theorem mem_dedupL {x : ℕ} : ∀ {l : List ℕ}, x ∈ dedupL l ↔ x ∈ l
  | [] => by simp [dedupL]
  | a :: l => by
    unfold dedupL
    split
    · rename_i h
      rw [mem_dedupL (l := l)]
      constructor
      · intro hx; exact List.mem_cons_of_mem _ hx
      · intro hx
        rcases List.mem_cons.mp hx with rfl | hx
        · exact h
        · exact hx
    · simp [mem_dedupL (l := l)]

theorem nodup_dedupL : ∀ (l : List ℕ), (dedupL l).Nodup
  | [] => by simp [dedupL]
  | a :: l => by
    unfold dedupL
    split
    · exact nodup_dedupL l
    · rename_i h
      exact List.nodup_cons.mpr ⟨fun hx => h (mem_dedupL.mp hx), nodup_dedupL l⟩

theorem toFinset_dedupL (l : List ℕ) : (dedupL l).toFinset = l.toFinset := by
  ext x; simp [mem_dedupL]

theorem F_dedupC : ∀ (l : List Clade), F (dedupC l) = F l
  | [] => by simp [dedupC]
  | c :: l => by
    unfold dedupC
    split
    · rename_i h
      rw [F_dedupC l]
      have hc := memC_iff.mp h
      ext s
      simp only [mem_F, List.mem_cons]
      constructor
      · rintro ⟨d, hd, h⟩; exact ⟨d, Or.inr hd, h⟩
      · rintro ⟨d, rfl | hd, h'⟩
        · subst h'; exact mem_F.mp hc
        · exact ⟨d, hd, h'⟩
    · have ih := F_dedupC l
      ext s
      simp only [mem_F, List.mem_cons] at ih ⊢
      constructor
      · rintro ⟨d, rfl | hd, h⟩
        · exact ⟨d, Or.inl rfl, h⟩
        · obtain ⟨e, he, h'⟩ := mem_F.mp (ih ▸ mem_F.mpr ⟨d, hd, h⟩)
          exact ⟨e, Or.inr he, h'⟩
      · rintro ⟨d, rfl | hd, h⟩
        · exact ⟨d, Or.inl rfl, h⟩
        · obtain ⟨e, he, h'⟩ := mem_F.mp (ih.symm ▸ mem_F.mpr ⟨d, hd, h⟩)
          exact ⟨e, Or.inr he, h'⟩

theorem dedupC_sub : ∀ (l : List Clade) (d : Clade), d ∈ dedupC l → d ∈ l
  | [], d => by simp [dedupC]
  | c :: l, d => by
    unfold dedupC
    split
    · intro h; exact List.mem_cons_of_mem _ (dedupC_sub l d h)
    · intro h
      rcases List.mem_cons.mp h with rfl | h
      · exact List.mem_cons_self
      · exact List.mem_cons_of_mem _ (dedupC_sub l d h)

/-- different list entries of a deduplicated family are different sets -/
theorem dedupC_pairwise : ∀ (l : List Clade), (dedupC l).Pairwise fun a b => a.toFinset ≠ b.toFinset
  | [] => by simp [dedupC]
  | c :: l => by
    unfold dedupC
    split
    · exact dedupC_pairwise l
    · rename_i h
      refine List.pairwise_cons.mpr ⟨?_, dedupC_pairwise l⟩
      intro d hd heq
      apply h
      rw [memC_iff, ← F_dedupC l]
      exact mem_F.mpr ⟨d, hd, heq.symm⟩

end PhyModel.ConsBridge
