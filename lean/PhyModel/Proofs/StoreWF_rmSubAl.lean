import PhyModel.Proofs.StoreWF_rmSub
/-! C07, `Tree.remove_subtree` keeps the payload lists aligned with `_data`: the surviving payloads are
payloads of the old tree, and their `_data` entries are not touched by the bookkeeping loop. -/
namespace PhyModel.Store
open PhyModel PhyModel.Store PhyModel.Store.Store SF AL

theorem removeSubtree_aligned {dt : Data} {s sub s' : Store} (h : s.removeSubtree dt sub = some s')
    (hs : Inv0 s) (hleg : RmLegal s sub) (ha : Aligned s) : Aligned s' := by
  cases he : Store.keyEq sub s with
  | true => rw [removeSubtree_eq_init h he]; intro n hn; simp [Store.init] at hn
  | false =>
    obtain ⟨i, x, par, hx, hp, h⟩ := removeSubtree_shape h hs hleg he
    obtain ⟨hc, _, _, hd, _⟩ := updatePathToRoot_spec h
    obtain ⟨_, _, _, hout, _⟩ := rm_lists (removeSub_perm hs.1.idxs_nodup hx) hp hs.1.g hs.1.m hs.1.d
    intro n hn
    have hcn : core n ∈ (rmResult s i sub.nodes).forest.cores := hc ▸ List.mem_map.2 ⟨n, hn, rfl⟩
    obtain ⟨b, hb, hbn⟩ := List.mem_map.1 hcn
    simp only [core, Prod.mk.injEq] at hbn
    have hb' : b ∈ (s.forest.removeSub i).recs := hb
    rw [← hbn.2.1, ← hbn.2.2, ha b ((removeSub_sublist i s.forest).subset hb'), dataOf_eq, dataOf_eq, hd]
    exact (dOf_filter s.data (fun k => !sub.nodes.contains k) (by simpa using hout b hb')).symm

end PhyModel.Store
