import PhyModel.Proofs.SchedProofs
import PhyModel.Proofs.DictRT
/-! C15 helper lemmas: every recorded entry restores and is self-consistent. -/
namespace PhyModel.TraceLoop
open PhyModel PhyModel.Store PhyModel.Store.Store

/-- an invariant of the tree that the samplers followed by `relabel_nodes` preserve holds in every
chain state -/
theorem stateAt_inv (o : Oracles) (cu : Bool) (st0 : St) (P : Store → Prop) (h0 : P st0.tree)
    (hstep : ∀ i s, P s → P (o.moves i s).relabelNodes) : ∀ k, P (stateAt o cu st0 k).tree := by
  intro k
  induction k with
  | zero => exact h0
  | succ k ih => exact hstep k _ ih

/-- the full trace, entry by entry -/
theorem runMain_spec (dt : Data) (o : Oracles) (cu : Bool) (thin numIters : ℕ) (st0 : St) :
    ∃ m, runMain dt o cu thin numIters st0
        = (mkEntry dt 0 (o.clock 0) st0 ::
             (sched thin 0 m).map (fun j => mkEntry dt j (o.clock j) (stateAt o cu st0 (j + 1))),
           stateAt o cu st0 m, m) ∧
      m ≤ numIters ∧ (∀ j, j + 1 < m → o.stop j = false) ∧ (m < numIters → 0 < m ∧ o.stop (m - 1) = true) := by
  obtain ⟨m, e, _, h2, h3, h4⟩ := mainLoop_spec dt o cu thin st0 numIters 0 (appendToTrace dt 0 (o.clock 0) st0 [])
  refine ⟨m, ?_, by omega, fun j hj => h3 j (Nat.zero_le _) hj, fun hlt => h4 (by omega)⟩
  unfold runMain
  have : stateAt o cu st0 0 = st0 := rfl
  rw [this] at e
  rw [e]
  simp [appendToTrace, entryAt]

/-- every entry of the trace is `mkEntry` of some chain state -/
theorem mem_trace (dt : Data) (o : Oracles) (cu : Bool) (thin numIters : ℕ) (st0 : St) (e : Entry)
    (he : e ∈ (runMain dt o cu thin numIters st0).1) :
    ∃ j t k, e = mkEntry dt j t (stateAt o cu st0 k) := by
  obtain ⟨m, hm, _⟩ := runMain_spec dt o cu thin numIters st0
  rw [hm] at he
  simp only [List.mem_cons, List.mem_map] at he
  rcases he with rfl | ⟨j, _, rfl⟩
  · exact ⟨0, o.clock 0, 0, rfl⟩
  · exact ⟨j, o.clock j, j + 1, rfl⟩

theorem labels_normRoot (dt : Data) (s : Store) : (normRoot dt s).labels = s.labels := by
  unfold normRoot; split <;> rfl

theorem mkEntry_restores (dt : Data) (j : ℕ) (t : Rat) (st : St) (h : WFd dt st.tree) :
    fromDict dt (mkEntry dt j t st).tree = some (normRoot dt st.tree) ∧
    pOneC dt (mkEntry dt j t st).alpha (normRoot dt st.tree) = (mkEntry dt j t st).logPOne := by
  refine ⟨fromDict_toDict_norm dt st.tree h, ?_⟩
  simp [mkEntry, pOneC_normRoot]

end PhyModel.TraceLoop
