import PhyModel.Proofs.DFIso
/-! The canonical form `canon` (the form in which the harness and the driver compare trees) is
`DFIsoP`-equivalent to the forest it was computed from. -/

namespace PhyModel
open Orders Orders.Forest

namespace Orders.Forest

theorem ofRoots_roots (f : DF) : ofRoots (roots f) = f := by
  induction f with
  | nil => rfl
  | cons d k s _ ihs => simp only [roots, ofRoots, ihs]

theorem roots_ofRoots (l : List (List ℕ × DF)) : roots (ofRoots l) = l := by
  induction l with
  | nil => rfl
  | cons r l ih => obtain ⟨d, k⟩ := r; simp only [ofRoots, roots, ih]

theorem insertNat_perm (a : ℕ) (l : List ℕ) : (insertNat a l).Perm (a :: l) := by
  induction l with
  | nil => exact List.Perm.refl _
  | cons b l ih =>
    simp only [insertNat]
    split
    · exact List.Perm.refl _
    · exact (List.Perm.cons b ih).trans (List.Perm.swap a b l)

theorem sortNat_perm (l : List ℕ) : (sortNat l).Perm l := by
  induction l with
  | nil => exact List.Perm.refl _
  | cons a l ih =>
    show (insertNat a (sortNat l)).Perm (a :: l)
    exact (insertNat_perm a _).trans (List.Perm.cons a ih)

theorem insertSorted_perm (r : List ℕ × DF) (l : List (List ℕ × DF)) :
    (insertSorted r l).Perm (r :: l) := by
  induction l with
  | nil => exact List.Perm.refl _
  | cons x l ih =>
    simp only [insertSorted]
    split
    · exact List.Perm.refl _
    · exact (List.Perm.cons x ih).trans (List.Perm.swap r x l)

/-- inserting a root somewhere among the top-level clones is the same tree as putting it first -/
theorem ofRoots_insertSorted_iso (r : List ℕ × DF) (l : List (List ℕ × DF)) :
    DFIso (ofRoots (insertSorted r l)) (.cons r.1 r.2 (ofRoots l)) := by
  induction l with
  | nil => obtain ⟨d, k⟩ := r; exact .refl _
  | cons x l ih =>
    obtain ⟨d, k⟩ := r
    obtain ⟨d', k'⟩ := x
    simp only [insertSorted]
    split
    · exact .refl _
    · simp only [ofRoots]
      exact (DFIso.cons d' (.refl k') ih).trans (.swap d' k' d k (ofRoots l))

end Orders.Forest

/-- the canonical form is the same tree -/
theorem canon_isoP (f : DF) : DFIsoP f f.canon := by
  induction f with
  | nil => exact .refl _
  | cons d k s ihk ihs =>
    simp only [canon]
    refine DFIsoP.trans ?_ (ofRoots_insertSorted_iso _ _).toP.symm
    simp only [ofRoots_roots]
    exact .cons (sortNat_perm d).symm ihk ihs

end PhyModel
