import PhyModel.Proofs.ASMC7
/-! # Corrected final weights: linearity of the schedule functional `CX`, and the identification of
`kernelH` with the plain conditional-SMC kernel of the specification whose last-level target is
`g T · h` (`kernelH_eq_kernel_withH`): correcting the weights after the sweep is the same as targeting
`g T · h` at the last step, because the adaptive resampling decisions of the steps `t < T` only see the
weights of the levels `< T`. -/

open Finset BigOperators

namespace ASMC

variable {X : Type} [Fintype X] [DecidableEq X] {m : ℕ}
variable {sp : Spec (m := m) X} {u : ℚ}

theorem finR_add (T : ℕ) (f g : Sys X m → ℚ) :
    finR sp u T (fun a => f a + g a) = fun S => finR sp u T f S + finR sp u T g S := by
  funext S
  unfold finR
  split
  · exact (resC_lin S).add f g
  · rfl

theorem finR_smul (T : ℕ) (c : ℚ) (f : Sys X m → ℚ) :
    finR sp u T (fun a => c * f a) = fun S => c * finR sp u T f S := by
  funext S
  unfold finR
  split
  · exact (resC_lin S).smul c f
  · rfl

theorem CX_lin (T : ℕ) (x : X) : Lin (CX sp u T x) := by
  unfold CX
  split
  · constructor
    · intro f g; rw [finR_add]; exact (C_lin T x).add _ _
    · intro c f; rw [finR_smul]; exact (C_lin T x).smul _ _
  · exact C_lin T x

/-- the kernel is the schedule functional of the corrected selection, test function by test function -/
theorem sum_kernelXH (h : X → ℚ) (T : ℕ) (x : X) (φ : X → ℚ) :
    ∑ y, kernelXH sp u h T x y * φ y = CX sp u T x (fun S => ∑ y, selH h S y * φ y) := by
  unfold kernelXH
  rw [(CX_lin T x).sum]
  apply Finset.sum_congr rfl
  intro y _
  exact ((CX_lin T x).smul_right (φ y) (fun S => selH h S y)).symm

/-! ### the specification with the corrected last-level target -/

variable (sp) in
/-- `sp` with the level-`T` target multiplied by `h` -/
def withH (h : X → ℚ) (T : ℕ) : Spec (m := m) X :=
  { sp with g := fun t x => if t = T then sp.g t x * h x else sp.g t x }

theorem propC_withH_lt (h : X → ℚ) {T t : ℕ} (ht : t + 1 < T) (x' : X) (S : Sys X m) (f : Sys X m → ℚ) :
    propC (withH sp h T) t x' S f = propC sp t x' S f := by
  unfold propC
  have h1 : t + 1 ≠ T := by omega
  have h2 : t ≠ T := by omega
  have he : ∀ (p : X × ℚ) (y : X), ext (withH sp h T) t p y = ext sp t p y := by
    intro p y
    simp only [ext, incr, withH, if_neg h1, if_neg h2]
  simp only [he]
  rfl

theorem stepC_withH_lt (h : X → ℚ) {T t : ℕ} (ht : t + 1 < T) (x' : X) (S : Sys X m) (f : Sys X m → ℚ) :
    stepC (withH sp h T) u t x' S f = stepC sp u t x' S f := by
  unfold stepC
  simp only [propC_withH_lt h ht]
  rfl

theorem C_withH_lt (h : X → ℚ) {T : ℕ} : ∀ (t : ℕ), t < T → ∀ (x : X) (f : Sys X m → ℚ),
    C (withH sp h T) u t x f = C sp u t x f := by
  intro t
  induction t with
  | zero => intro _ x f; rfl
  | succ t ih =>
    intro ht x f
    simp only [C]
    simp only [stepC_withH_lt h ht]
    exact ih (by omega) _ _

/-- the last propagation of the modified specification is the last propagation of `sp` followed by the
weight correction -/
theorem propC_withH_last (h : X → ℚ) (t : ℕ) (x' : X) (S : Sys X m) (f : Sys X m → ℚ) :
    propC (withH sp h (t+1)) t x' S f = propC sp t x' S (fun S' => f (corr h S')) := by
  unfold propC
  have h2 : t ≠ t + 1 := by omega
  have he : ∀ (p : X × ℚ) (y : X), ext (withH sp h (t+1)) t p y
      = ((ext sp t p y).1, (ext sp t p y).2 * h (ext sp t p y).1) := by
    intro p y
    simp only [ext, incr, withH, if_neg h2, if_true]
    congr 1
    ring
  simp only [he]
  rfl

/-- **correcting the final weights = targeting `g T · h` at the last step** (`T ≥ 1`) -/
theorem kernelH_eq_kernel_withH (h : X → ℚ) (T : ℕ) (x y : X) :
    kernelH sp u h (T+1) x y = kernel (withH sp h (T+1)) u (T+1) x y := by
  unfold kernelH kernel
  simp only [C]
  rw [C_withH_lt h T (Nat.lt_succ_self T)]
  congr 1
  funext S
  unfold stepC
  simp only [propC_withH_last]
  rfl

#print axioms kernelH_eq_kernel_withH
end ASMC
