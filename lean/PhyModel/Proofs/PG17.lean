import PhyModel.Proofs.PG13
import PhyModel.Proofs.PG8
import PhyModel.Proofs.MovesPrBlock2
/-! # C01, stage 3, part 8: no tree is a placement of the next data point in two ways (`Inj`), so
`SMC.lookupQ` finds *the* proposal probability of a proposed tree. -/

namespace PhyModel.PG
open Orders Orders.Forest Proposal PGSpec Canon

theorem rootsHave_iff {a : ℕ} {f : DF} : rootsHave a f = true ↔ ∃ r ∈ f.roots, a ∈ r.1 := by
  induction f with
  | nil => simp [rootsHave, roots]
  | cons d k s _ ihs =>
    simp only [rootsHave, Bool.or_eq_true, List.contains_iff_mem, ihs, roots, List.mem_cons,
      exists_eq_or_imp]

theorem roots_sub_nodes {f : DF} {r : List ℕ × DF} (h : r ∈ f.roots) : r ∈ Moves.nodesOf f := by
  induction f with
  | nil => simp [roots] at h
  | cons d k s _ ihs =>
    simp only [roots, List.mem_cons] at h
    rcases h with rfl | h
    · exact mem_nodesOf_cons.mpr (Or.inl rfl)
    · exact nodesOf_sibs_sub (ihs h)

theorem mem_addAt_self (i : ℕ) : ∀ (rs : List (List ℕ × DF)) (j : ℕ) (hj : j < rs.length),
    (rs[j].1 ++ [i], rs[j].2) ∈ addAt i j rs := by
  intro rs
  induction rs with
  | nil => intro j hj; simp at hj
  | cons x rs ih =>
    intro j hj
    obtain ⟨d, k⟩ := x
    cases j with
    | zero => simp [addAt]
    | succ j =>
      simp only [addAt, List.getElem_cons_succ]
      exact List.mem_cons_of_mem _ (ih j (by simpa using hj))

theorem splits_sublist {α : Type} : ∀ (l : List α) (cr : List α × List α), cr ∈ splits l →
    cr.1.Sublist l ∧ cr.2.Sublist l := by
  intro l
  induction l with
  | nil => intro cr h; simp [splits] at h; subst h; simp
  | cons a l ih =>
    intro cr h
    simp only [splits, List.mem_flatMap] at h
    obtain ⟨cr', hm, h⟩ := h
    obtain ⟨h1, h2⟩ := ih _ hm
    simp only [List.mem_cons, List.not_mem_nil, or_false] at h
    rcases h with rfl | rfl
    · exact ⟨h1.cons_cons a, h2.cons a⟩
    · exact ⟨h1.cons a, h2.cons_cons a⟩

theorem splits_nodup {α : Type} : ∀ (l : List α), l.Nodup → (splits l).Nodup := by
  intro l
  induction l with
  | nil => intro _; simp [splits]
  | cons a l ih =>
    intro hn
    obtain ⟨ha, hl⟩ := List.nodup_cons.mp hn
    simp only [splits]
    apply Orders.nodup_flatMap_of _ _ (ih hl)
    · intro cr hcr
      have hsub := splits_sublist l cr hcr
      rw [List.nodup_cons]
      refine ⟨?_, by simp⟩
      simp only [List.mem_singleton, Prod.mk.injEq, not_and]
      intro h1
      exact absurd (hsub.1.subset (h1 ▸ List.mem_cons_self)) ha
    · intro cr1 h1 cr2 h2 hne x hx1 hx2
      simp only [List.mem_cons, List.not_mem_nil, or_false] at hx1 hx2
      have s1 := splits_sublist l cr1 h1
      have s2 := splits_sublist l cr2 h2
      rcases hx1 with rfl | rfl <;> rcases hx2 with e | e
      · simp only [Prod.mk.injEq, List.cons.injEq, true_and] at e
        exact hne (Prod.ext e.1 e.2)
      · simp only [Prod.mk.injEq] at e
        exact ha (s2.1.subset (e.1 ▸ List.mem_cons_self))
      · simp only [Prod.mk.injEq] at e
        exact ha (s1.1.subset (e.1.symm ▸ List.mem_cons_self))
      · simp only [Prod.mk.injEq, List.cons.injEq, true_and] at e
        exact hne (Prod.ext e.1 e.2)

theorem roots_sublist_nodes : ∀ f : DF, f.roots.Sublist (Moves.nodesOf f)
  | .nil => List.Sublist.slnil
  | .cons d k s => by
    simp only [roots, Moves.nodesOf]
    exact ((roots_sublist_nodes s).trans (List.sublist_append_right _ _)).cons_cons _

theorem roots_nodup {f : DF} (w : WF f) : f.roots.Nodup := (nodesOf_nodup w).sublist (roots_sublist_nodes f)

/-- sublists of a duplicate-free list with the same members are equal -/
theorem sublist_eq_of_mem {α : Type} : ∀ {l s₁ s₂ : List α}, l.Nodup → s₁.Sublist l → s₂.Sublist l →
    (∀ x, x ∈ s₁ ↔ x ∈ s₂) → s₁ = s₂ := by
  intro l
  induction l with
  | nil =>
    intro s₁ s₂ _ h₁ h₂ _
    rw [List.sublist_nil.mp h₁, List.sublist_nil.mp h₂]
  | cons a l ih =>
    intro s₁ s₂ hl h₁ h₂ h
    obtain ⟨ha, hl'⟩ := List.nodup_cons.mp hl
    cases h₁ with
    | cons _ h₁' =>
      have ha1 : a ∉ s₁ := fun hm => ha (h₁'.subset hm)
      cases h₂ with
      | cons _ h₂' => exact ih hl' h₁' h₂' h
      | cons_cons _ h₂' => exact absurd ((h a).mpr List.mem_cons_self) ha1
    | cons_cons _ h₁' =>
      rename_i s₁'
      cases h₂ with
      | cons _ h₂' =>
        exact absurd (h₂'.subset ((h a).mp List.mem_cons_self)) ha
      | cons_cons _ h₂' =>
        rename_i s₂'
        congr 1
        apply ih hl' h₁' h₂'
        intro x
        constructor
        · intro hx
          rcases List.mem_cons.mp ((h x).mp (List.mem_cons_of_mem _ hx)) with rfl | h'
          · exact absurd (h₁'.subset hx) ha
          · exact h'
        · intro hx
          rcases List.mem_cons.mp ((h x).mpr (List.mem_cons_of_mem _ hx)) with rfl | h'
          · exact absurd (h₂'.subset hx) ha
          · exact h'

section
variable {p : T} {i : ℕ}

/-- forests of the two kinds of placement inside the clone tree -/
def Fex (p : T) (i j : ℕ) : DF := ofRoots (addAt i j p.f.roots)
def Fnew (_p : T) (i : ℕ) (cr : List (List ℕ × DF) × List (List ℕ × DF)) : DF :=
  ofRoots (([i], ofRoots cr.1) :: cr.2)

theorem wf_of_canon {F : DF} (w : WF (Forest.canon F)) : WF F := (canon_eqv F).wf w

theorem root_mem_nodes {l : List (List ℕ × DF)} {r : List ℕ × DF} (h : r ∈ l) : r ∈ Moves.nodesOf (ofRoots l) :=
  roots_sub_nodes (by rw [Canon.roots_ofRoots]; exact h)

/-- data of the parent's top-level clones: a data point of one of them is not the fresh one and
determines the clone -/
theorem root_of_mem (w : WF p.f) {x y : List ℕ × DF} (hx : x ∈ p.f.roots) (hy : y ∈ p.f.roots) {a : ℕ}
    (hax : a ∈ x.1) (hay : a ∈ y.1) : x = y :=
  node_unique w (roots_sub_nodes hx) (roots_sub_nodes hy) hax hay

theorem ne_fresh (hi : i ∉ p.f.all) {x : List ℕ × DF} (hx : x ∈ p.f.roots) {a : ℕ} (ha : a ∈ x.1) : a ≠ i := by
  rintro rfl
  exact hi ((mem_all_iff_roots _ _).mpr ⟨x, hx, Or.inl ha⟩)

theorem ex_inj (w : WF p.f) (hi : i ∉ p.f.all) {j₁ j₂ : ℕ} (h₁ : j₁ < p.f.roots.length)
    (h₂ : j₂ < p.f.roots.length) (w₂ : WF (Fex p i j₂)) (he : Eqv (Fex p i j₁) (Fex p i j₂)) : j₁ = j₂ := by
  have hne := node_ne w.ne _ (roots_sub_nodes (List.getElem_mem h₁))
  obtain ⟨a, ha⟩ := List.exists_mem_of_ne_nil _ hne
  have ht1 : together a i (Fex p i j₁) = true :=
    together_iff.mpr ⟨_, root_mem_nodes (mem_addAt_self i _ j₁ h₁), by simp [ha], by simp⟩
  rw [together_eqv a i he] at ht1
  obtain ⟨nd, hnd, han, hin⟩ := together_iff.mp ht1
  have hroot := root_mem_nodes (mem_addAt_self i _ j₂ h₂)
  have : nd = (p.f.roots[j₂].1 ++ [i], p.f.roots[j₂].2) := node_unique w₂ hnd hroot hin (by simp)
  rw [this] at han
  have hai := ne_fresh hi (List.getElem_mem h₁) ha
  have ha2 : a ∈ p.f.roots[j₂].1 := by
    rcases List.mem_append.mp han with h | h
    · exact h
    · exact absurd (by simpa using h) hai
  have := root_of_mem w (List.getElem_mem h₁) (List.getElem_mem h₂) ha ha2
  exact (List.Nodup.getElem_inj_iff (roots_nodup w)).mp this

theorem ex_ne_new (w : WF p.f) (hi : i ∉ p.f.all) {j : ℕ} (hj : j < p.f.roots.length)
    {cr : List (List ℕ × DF) × List (List ℕ × DF)} (w₂ : WF (Fnew p i cr)) (he : Eqv (Fex p i j) (Fnew p i cr)) :
    False := by
  have hne := node_ne w.ne _ (roots_sub_nodes (List.getElem_mem hj))
  obtain ⟨a, ha⟩ := List.exists_mem_of_ne_nil _ hne
  have ht1 : together a i (Fex p i j) = true :=
    together_iff.mpr ⟨_, root_mem_nodes (mem_addAt_self i _ j hj), by simp [ha], by simp⟩
  rw [together_eqv a i he] at ht1
  obtain ⟨nd, hnd, han, hin⟩ := together_iff.mp ht1
  have hroot : ([i], ofRoots cr.1) ∈ Moves.nodesOf (Fnew p i cr) := root_mem_nodes List.mem_cons_self
  have : nd = ([i], ofRoots cr.1) := node_unique w₂ hnd hroot hin (by simp)
  rw [this] at han
  exact ne_fresh hi (List.getElem_mem hj) ha (by simpa using han)

theorem mem_rest_iff (w : WF p.f) (hi : i ∉ p.f.all) {cr : List (List ℕ × DF) × List (List ℕ × DF)}
    (hcr : cr ∈ splits p.f.roots) {x : List ℕ × DF} (hx : x ∈ p.f.roots) {a : ℕ} (ha : a ∈ x.1) :
    x ∈ cr.2 ↔ rootsHave a (Fnew p i cr) = true := by
  rw [rootsHave_iff]
  unfold Fnew
  rw [Canon.roots_ofRoots]
  constructor
  · intro h; exact ⟨x, List.mem_cons_of_mem _ h, ha⟩
  · rintro ⟨y, hy, hay⟩
    rcases List.mem_cons.mp hy with rfl | hy
    · exact absurd (by simpa using hay) (ne_fresh hi hx ha)
    · have hyr := (splits_sublist _ _ hcr).2.subset hy
      rw [root_of_mem w hx hyr ha hay]; exact hy

theorem new_inj (w : WF p.f) (hi : i ∉ p.f.all) {cr₁ cr₂ : List (List ℕ × DF) × List (List ℕ × DF)}
    (h₁ : cr₁ ∈ splits p.f.roots) (h₂ : cr₂ ∈ splits p.f.roots) (he : Eqv (Fnew p i cr₁) (Fnew p i cr₂)) :
    cr₁ = cr₂ := by
  have hrn := roots_nodup w
  have s₁ := splits_sublist _ _ h₁
  have s₂ := splits_sublist _ _ h₂
  have hmem2 : ∀ x ∈ p.f.roots, (x ∈ cr₁.2 ↔ x ∈ cr₂.2) := by
    intro x hx
    obtain ⟨a, ha⟩ := List.exists_mem_of_ne_nil _ (node_ne w.ne _ (roots_sub_nodes hx))
    rw [mem_rest_iff w hi h₁ hx ha, mem_rest_iff w hi h₂ hx ha, rootsHave_eqv a he]
  have e2 : cr₁.2 = cr₂.2 := by
    apply sublist_eq_of_mem hrn s₁.2 s₂.2
    intro x
    constructor
    · intro h; exact (hmem2 x (s₁.2.subset h)).mp h
    · intro h; exact (hmem2 x (s₂.2.subset h)).mpr h
  have hchar : ∀ cr ∈ splits p.f.roots, ∀ x, x ∈ cr.1 ↔ x ∈ p.f.roots ∧ x ∉ cr.2 := by
    intro cr hcr x
    have hp := splits_perm _ _ hcr
    have hnd : (cr.1 ++ cr.2).Nodup := hp.nodup_iff.mpr hrn
    constructor
    · intro h
      exact ⟨hp.subset (List.mem_append_left _ h), fun h2 => (List.nodup_append.mp hnd).2.2 x h x h2 rfl⟩
    · rintro ⟨h, h2⟩
      rcases List.mem_append.mp (hp.symm.subset h) with h' | h'
      · exact h'
      · exact absurd h' h2
  have e1 : cr₁.1 = cr₂.1 := by
    apply sublist_eq_of_mem hrn s₁.1 s₂.1
    intro x
    rw [hchar cr₁ h₁, hchar cr₂ h₂, e2]
  exact Prod.ext e1 e2

end

/-- **no tree is a placement in two ways** -/
theorem inj_of_nodup (c : Cfg) (σ : List ℕ) (hnd : σ.Nodup) (hbig : ∀ i ∈ σ, i < Forest.big) : Inj c σ := by
  intro t p i hp hi
  obtain ⟨hlt, rfl⟩ := List.getElem?_eq_some_iff.mp hi
  have wp := level_wft c σ hnd hbig hp
  have w : WF p.f := wp.wf
  have inv := level_inv c σ t p hp
  have hfresh : σ[t] ∉ p.f.all ++ p.out := by
    intro hm
    have hm' := inv.perm.subset hm
    obtain ⟨k, hk, hk'⟩ := List.getElem_of_mem hm'
    rw [List.getElem_take] at hk'
    have hk2 : k < t := by simpa [List.length_take] using (lt_of_lt_of_le hk (by simp))
    have := (List.Nodup.getElem_inj_iff hnd).mp hk'
    omega
  have hif : σ[t] ∉ p.f.all := fun hm => hfresh (List.mem_append_left _ hm)
  have hio : σ[t] ∉ p.out := fun hm => hfresh (List.mem_append_right _ hm)
  -- every clone-tree placement is a well-formed tree of the next level
  have wex : ∀ j, j < p.f.roots.length → WF (Fex p σ[t] j) := fun j hj =>
    wf_of_canon (level_wft c σ hnd hbig (child_mem_level hp hi (mem_children_ex (c := c) hj))).wf
  have wnew : ∀ cr ∈ splits p.f.roots, WF (Fnew p σ[t] cr) := fun cr hcr =>
    wf_of_canon (level_wft c σ hnd hbig (child_mem_level hp hi (mem_children_new (c := c) hcr))).wf
  have hexf : ∀ j, (exT p σ[t] j).f = Forest.canon (Fex p σ[t] j) := fun _ => rfl
  have hnewf : ∀ cr, (newT p σ[t] cr).f = Forest.canon (Fnew p σ[t] cr) := fun _ => rfl
  have hexo : ∀ j, (exT p σ[t] j).out = sortNat p.out := fun _ => rfl
  have hnewo : ∀ cr, (newT p σ[t] cr).out = sortNat p.out := fun _ => rfl
  have houto : σ[t] ∈ (outT p σ[t]).out := by
    show σ[t] ∈ sortNat (p.out ++ [σ[t]])
    rw [Canon.mem_sortNat]; simp
  have hnoto : σ[t] ∉ sortNat p.out := by rw [Canon.mem_sortNat]; exact hio
  have hexL : (exL p σ[t]).Nodup := by
    unfold exL
    apply List.Nodup.map_on _ List.nodup_range
    intro j₁ h₁ j₂ h₂ he
    have h₁' := List.mem_range.mp h₁
    have h₂' := List.mem_range.mp h₂
    have hf := congrArg T.f he
    rw [hexf, hexf] at hf
    exact ex_inj w hif h₁' h₂' (wex j₂ h₂') ((canon_eq_iff (wex j₁ h₁')).mp hf)
  have hnewL : (newL p σ[t]).Nodup := by
    unfold newL
    apply List.Nodup.map_on _ (splits_nodup _ (roots_nodup w))
    intro cr₁ h₁ cr₂ h₂ he
    have hf := congrArg T.f he
    rw [hnewf, hnewf] at hf
    exact new_inj w hif h₁ h₂ ((canon_eq_iff (wnew cr₁ h₁)).mp hf)
  have houtL : (outL c p σ[t]).Nodup := by
    unfold outL; split <;> simp
  rw [List.nodup_append]
  refine ⟨?_, houtL, ?_⟩
  · rw [List.nodup_append]
    refine ⟨hexL, hnewL, ?_⟩
    intro y hy z hz hyz
    obtain ⟨j, hj, rfl⟩ := List.mem_map.mp hy
    obtain ⟨cr, hcr, rfl⟩ := List.mem_map.mp hz
    have hj' := List.mem_range.mp hj
    have hf := congrArg T.f hyz
    rw [hexf, hnewf] at hf
    exact ex_ne_new w hif hj' (wnew cr hcr) ((canon_eq_iff (wex j hj')).mp hf)
  · intro y hy z hz hyz
    have hz' : z = outT p σ[t] := by
      unfold outL at hz
      split at hz
      · simpa using hz
      · simp at hz
    subst hz'
    have ho := congrArg T.out hyz
    rcases List.mem_append.mp hy with hy | hy
    · obtain ⟨j, _, rfl⟩ := List.mem_map.mp hy
      rw [hexo] at ho
      exact hnoto (ho ▸ houto)
    · obtain ⟨cr, _, rfl⟩ := List.mem_map.mp hy
      rw [hnewo] at ho
      exact hnoto (ho ▸ houto)

theorem inj_of_hyp {dt : Data} {c : Cfg} {σ : List ℕ} (h : Hyp dt c σ) : Inj c σ :=
  inj_of_nodup c σ h.nodup h.big

end PhyModel.PG
