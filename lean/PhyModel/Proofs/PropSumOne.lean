import PhyModel.Proofs.PropTable
/-! # C08 helpers 5: every proposal table sums to one and gives every placement positive mass. -/

namespace PhyModel
open Finset BigOperators Dist Proposal Orders Orders.Forest

theorem lsum_const {α} (L : List α) (c : ℚ) : lsum L (fun _ => c) = (L.length : ℚ) * c := by
  induction L with
  | nil => simp [lsum]
  | cons a L ih => rw [lsum_cons, ih]; simp only [List.length_cons]; push_cast; ring

theorem lsum_outOpt (c : Cfg) (p : T) (i : ℕ) :
    lsum (if c.op ≠ 0 then [(outT p i, c.op)] else []) (fun tq => tq.2) = c.op := by
  by_cases h : c.op = 0 <;> simp [h, lsum]

/-- total weight of the candidates is positive -/
theorem cands_pos (dt : Data) (c : Cfg) (p : T) (i : ℕ)
    (hpos : ∀ kt ∈ placements p i, 0 < pMargT dt c kt.2) (L : List T) (hne : L ≠ [])
    (hsub : ∀ t ∈ L, t ∈ exL p i ++ newL p i ++ outL c p i) : 0 < lsum L (pMargT dt c) := by
  apply lsum_pos L _ hne
  intro t ht
  obtain ⟨kt, hkt, rfl⟩ := mem_cands c p i t (hsub t ht)
  exact hpos kt hkt

theorem exL_ne_nil (p : T) (i : ℕ) (hr : p.f.roots.length ≠ 0) : exL p i ≠ [] := by
  unfold exL
  simp only [ne_eq, List.map_eq_nil_iff, List.range_eq_nil]
  exact hr

theorem table_sum_one_proof (dt : Data) (c : Cfg) (first : Bool) (p : T) (i : ℕ)
    (hfirst : first = true → p.f.numRoots = 0)
    (hpos : c.kind ≠ .bootstrap → ∀ kt ∈ placements p i, 0 < pMargT dt c kt.2) :
    lsum (table dt c first p i) (fun tq => tq.2) = 1 := by
  rw [numRoots_eq] at hfirst
  cases hk : c.kind with
  | bootstrap =>
    rw [table_bootstrap dt c first p i hk, lsum_append, lsum_append, lsum_map, lsum_map, lsum_outOpt]
    simp only
    by_cases hr : p.f.roots.length = 0
    · have hrs : p.f.roots = [] := List.length_eq_zero_iff.mp hr
      simp [hrs, lsum, splits]
    · have hf : first = false := by
        cases first with
        | false => rfl
        | true => exact absurd (hfirst rfl) hr
      have hrq : (p.f.roots.length : ℚ) ≠ 0 := by exact_mod_cast hr
      have hrq1 : (p.f.roots.length : ℚ) + 1 ≠ 0 := by positivity
      simp only [hf, Bool.false_or, decide_eq_true_eq, hr, if_false]
      rw [lsum_const, List.length_range]
      have h2 : lsum (splits p.f.roots) (fun cr =>
            (1 - c.op) / 2 / ((p.f.roots.length : ℚ) + 1) / binom p.f.roots.length cr.1.length)
          = (1 - c.op) / 2 / ((p.f.roots.length : ℚ) + 1) * ((p.f.roots.length : ℚ) + 1) := by
        rw [← lsum_splits_inv_binom, ← lsum_mul_left]
        apply lsum_congr
        intro cr _
        ring
      rw [h2]
      field_simp
      ring
  | semi =>
    have hpos' := hpos (by rw [hk]; decide)
    by_cases hr : p.f.roots.length = 0
    · rw [table_semi0 dt c first p i hk hr]
      apply tsum_categorical_wts
      apply ne_of_gt
      apply cands_pos dt c p i hpos' _ (by simp [newL_ne_nil])
      intro t ht
      simp only [List.mem_append] at ht ⊢
      rcases ht with ht | ht
      · exact Or.inl (Or.inr ht)
      · exact Or.inr ht
    · rw [table_semi dt c first p i hk hr, lsum_append, lsum_map]
      have h1 : lsum (Dist.scale (1 / 2) (Dist.categorical (wts dt c (exL p i ++ outL c p i))))
          (fun tq => tq.2) = 1 / 2 := by
        unfold Dist.scale
        rw [lsum_map]
        simp only
        rw [lsum_mul_right, tsum_categorical_wts, one_mul]
        apply ne_of_gt
        apply cands_pos dt c p i hpos' _ (by simp [exL_ne_nil p i hr])
        intro t ht
        simp only [List.mem_append] at ht ⊢
        rcases ht with ht | ht
        · exact Or.inl (Or.inl ht)
        · exact Or.inr ht
      have hrq1 : (p.f.roots.length : ℚ) + 1 ≠ 0 := by positivity
      have h2 : lsum (splits p.f.roots) (fun cr =>
            (1 : ℚ) / 2 / ((p.f.roots.length : ℚ) + 1) / binom p.f.roots.length cr.1.length)
          = (1 : ℚ) / 2 / ((p.f.roots.length : ℚ) + 1) * ((p.f.roots.length : ℚ) + 1) := by
        rw [← lsum_splits_inv_binom, ← lsum_mul_left]
        apply lsum_congr
        intro cr _
        ring
      rw [h1, h2]
      field_simp
      ring
  | full =>
    have hpos' := hpos (by rw [hk]; decide)
    rw [table_full dt c first p i hk]
    apply tsum_categorical_wts
    apply ne_of_gt
    apply cands_pos dt c p i hpos' _ (by simp [newL_ne_nil])
    intro t ht
    exact ht

theorem support_complete_proof (dt : Data) (c : Cfg) (first : Bool) (p : T) (i : ℕ)
    (hop0 : 0 ≤ c.op) (hop1 : c.op < 1)
    (hpos : c.kind ≠ .bootstrap → ∀ kt ∈ placements p i, 0 < pMargT dt c kt.2)
    (kt : Kind × T) (hkt : kt ∈ placements p i) (hout : kt.1 = .outlier → c.op ≠ 0) :
    ∃ q, 0 < q ∧ (kt.2, q) ∈ table dt c first p i := by
  -- classify the placement
  have hcls : (∃ j, j < p.f.roots.length ∧ kt.2 = exT p i j) ∨
      (∃ cr ∈ splits p.f.roots, kt.2 = newT p i cr) ∨ (c.op ≠ 0 ∧ kt.2 = outT p i) := by
    rw [placements_eq] at hkt
    simp only [List.mem_append, List.mem_map, List.mem_range, List.mem_singleton] at hkt
    rcases hkt with (⟨j, hj, rfl⟩ | ⟨cr, hcr, rfl⟩) | rfl
    · exact Or.inl ⟨j, hj, rfl⟩
    · exact Or.inr (Or.inl ⟨cr, hcr, rfl⟩)
    · exact Or.inr (Or.inr ⟨hout rfl, rfl⟩)
  have h1op : 0 < 1 - c.op := by linarith
  have hrq1 : (0 : ℚ) < (p.f.roots.length : ℚ) + 1 := by positivity
  -- membership in the candidate lists
  have hex : ∀ j, j < p.f.roots.length → exT p i j ∈ exL p i := fun j hj =>
    List.mem_map.mpr ⟨j, List.mem_range.mpr hj, rfl⟩
  have hnew : ∀ cr ∈ splits p.f.roots, newT p i cr ∈ newL p i := fun cr hcr =>
    List.mem_map.mpr ⟨cr, hcr, rfl⟩
  have hoL : c.op ≠ 0 → outT p i ∈ outL c p i := fun h => by simp [outL, h]
  -- positive mass of a member of a normalised candidate list
  have hcat : ∀ (L : List T) (t : T), t ∈ L → (∀ t ∈ L, t ∈ exL p i ++ newL p i ++ outL c p i) →
      c.kind ≠ .bootstrap → 0 < pMargT dt c t / lsum L (pMargT dt c) := by
    intro L t ht hsub hkb
    have htot := cands_pos dt c p i (hpos hkb) L (List.ne_nil_of_mem ht) hsub
    obtain ⟨kt', hkt', rfl⟩ := mem_cands c p i t (hsub t ht)
    exact div_pos (hpos hkb kt' hkt') htot
  cases hk : c.kind with
  | bootstrap =>
    rw [table_bootstrap dt c first p i hk]
    simp only [List.mem_append, List.mem_map, List.mem_range]
    rcases hcls with ⟨j, hj, ht⟩ | ⟨cr, hcr, ht⟩ | ⟨ho, ht⟩
    · refine ⟨_, ?_, Or.inl (Or.inl ⟨j, hj, by rw [ht]⟩)⟩
      have : (0 : ℚ) < (p.f.roots.length : ℚ) := by exact_mod_cast (by omega : 0 < p.f.roots.length)
      exact div_pos (div_pos h1op (by norm_num)) this
    · refine ⟨_, ?_, Or.inl (Or.inr ⟨cr, hcr, by rw [ht]⟩)⟩
      have := binom_pos p.f.roots.length cr.1.length
      split_ifs
      · exact h1op
      · exact div_pos (div_pos (div_pos h1op (by norm_num)) hrq1) this
    · refine ⟨c.op, lt_of_le_of_ne hop0 (Ne.symm ho), Or.inr ?_⟩
      simp [ho, ht]
  | semi =>
    have hkb : c.kind ≠ .bootstrap := by rw [hk]; decide
    by_cases hr : p.f.roots.length = 0
    · rw [table_semi0 dt c first p i hk hr]
      have hsub : ∀ t ∈ newL p i ++ outL c p i, t ∈ exL p i ++ newL p i ++ outL c p i := by
        intro t ht
        simp only [List.mem_append] at ht ⊢
        rcases ht with ht | ht
        · exact Or.inl (Or.inr ht)
        · exact Or.inr ht
      have hmem : kt.2 ∈ newL p i ++ outL c p i := by
        simp only [List.mem_append]
        rcases hcls with ⟨j, hj, _⟩ | ⟨cr, hcr, ht⟩ | ⟨ho, ht⟩
        · omega
        · exact Or.inl (ht ▸ hnew cr hcr)
        · exact Or.inr (ht ▸ hoL ho)
      exact ⟨_, hcat _ _ hmem hsub hkb, mem_categorical_wts dt c _ _ hmem⟩
    · rw [table_semi dt c first p i hk hr]
      have hsub : ∀ t ∈ exL p i ++ outL c p i, t ∈ exL p i ++ newL p i ++ outL c p i := by
        intro t ht
        simp only [List.mem_append] at ht ⊢
        rcases ht with ht | ht
        · exact Or.inl (Or.inl ht)
        · exact Or.inr ht
      have hhalf : ∀ t, t ∈ exL p i ++ outL c p i →
          ∃ q, 0 < q ∧ (t, q) ∈ Dist.scale (1 / 2) (Dist.categorical (wts dt c (exL p i ++ outL c p i)))
            ++ (splits p.f.roots).map (fun cr => (newT p i cr,
              (1 : ℚ) / 2 / ((p.f.roots.length : ℚ) + 1) / binom p.f.roots.length cr.1.length)) := by
        intro t hmem
        refine ⟨pMargT dt c t / lsum (exL p i ++ outL c p i) (pMargT dt c) * (1 / 2),
          mul_pos (hcat _ _ hmem hsub hkb) (by norm_num), ?_⟩
        apply List.mem_append_left
        unfold Dist.scale
        exact List.mem_map.mpr ⟨_, mem_categorical_wts dt c _ _ hmem, rfl⟩
      rcases hcls with ⟨j, hj, ht⟩ | ⟨cr, hcr, ht⟩ | ⟨ho, ht⟩
      · exact hhalf _ (List.mem_append_left _ (ht ▸ hex j hj))
      · refine ⟨_, ?_, List.mem_append_right _ (List.mem_map.mpr ⟨cr, hcr, by rw [ht]⟩)⟩
        have := binom_pos p.f.roots.length cr.1.length
        exact div_pos (div_pos (by norm_num) hrq1) this
      · exact hhalf _ (List.mem_append_right _ (ht ▸ hoL ho))
  | full =>
    have hkb : c.kind ≠ .bootstrap := by rw [hk]; decide
    rw [table_full dt c first p i hk]
    have hmem : kt.2 ∈ exL p i ++ newL p i ++ outL c p i := by
      simp only [List.mem_append]
      rcases hcls with ⟨j, hj, ht⟩ | ⟨cr, hcr, ht⟩ | ⟨ho, ht⟩
      · exact Or.inl (Or.inl (ht ▸ hex j hj))
      · exact Or.inl (Or.inr (ht ▸ hnew cr hcr))
      · exact Or.inr (ht ▸ hoL ho)
    exact ⟨_, hcat _ _ hmem (fun t ht => ht) hkb, mem_categorical_wts dt c _ _ hmem⟩

end PhyModel
