import PhyModel.Proofs.GraphOfGetSub
import PhyModel.Proofs.GraphOfReindex
/-! `get_subtree` with the indices the structural operation chooses: `Store.getSubtree` re-indexes the
extracted subtree from 1 in preorder (`reindex … 1`); that is the renaming `reindexMap`, which is a
legitimate numbering for `subgraph` + `compose` (injective on the subtree, never 0). -/
namespace PhyModel.Graph
open PhyModel.Store PhyModel.Store.SF

theorem graph_getSubtree_struct {f : SF} {i : Nat} {x : NodeRec × SF} (hn : f.idxs.Nodup) (h0 : 0 ∉ f.idxs)
    (hx : f.findSub i = some x) :
    ∃ g', gGetSubtree (graphOf f) i id (reindexMap (.cons x.1 x.2 .nil) 1) = some g' ∧
      g'.nodes.Perm (graphOf (Store.reindex (.cons x.1 x.2 .nil) 1).1).nodes ∧
      g'.edges.Perm (graphOf (Store.reindex (.cons x.1 x.2 .nil) 1).1).edges := by
  obtain ⟨hxi, hsub⟩ := findSub_some hx
  have hidx : (SF.cons x.1 x.2 .nil).idxs = i :: x.2.idxs := by simp [hxi]
  have hnd : (SF.cons x.1 x.2 .nil).idxs.Nodup := by
    have : ((x.1 :: x.2.recs).map (·.idx)).Sublist (f.recs.map (·.idx)) := hsub.map _
    have h2 : (SF.cons x.1 x.2 .nil).idxs = (x.1 :: x.2.recs).map (·.idx) := by simp [SF.idxs]
    rw [h2]
    exact this.nodup hn
  have := graph_getSubtree (ρ₁ := id) (ρ₂ := reindexMap (.cons x.1 x.2 .nil) 1) hn h0 hx
    (fun a ha b _ h => reindexMap_inj (hidx ▸ ha) h)
    (fun a _ h => by have := le_reindexMap (.cons x.1 x.2 .nil) 1 a; simp only [id] at h; omega)
  rw [reindex_eq_mapIdx 1 hnd]
  exact this

end PhyModel.Graph
