import PhyModel.Proofs.GraphInv
import Mathlib.Data.List.Perm.Subperm
/-! The breadth-first closure of `Model/Graph.lean` computes reachability: `v ∈ g.reachFrom i ↔ Reach g i v`
(soundness by induction on the rounds; completeness because every round that does not stop adds a new
edge target, so after `edges.length` rounds the set is closed under the edges).  Consequences:
`rx.descendants` as modelled is "reachable and different from the start", and the Boolean `isForestB`
decides `IsForest`. -/
namespace PhyModel.Graph
open DG

theorem distinctB_iff {l : List Nat} : distinctB l = true ↔ l.Nodup := by
  induction l with
  | nil => simp [distinctB]
  | cons a l ih => simp [distinctB, ih]

theorem live_iff {g : DG} {i : Nat} : g.live i = true ↔ i ∈ g.nodes := by simp [DG.live]

theorem nodup_eraseDups : ∀ (n : Nat) (l : List Nat), l.length ≤ n → l.eraseDups.Nodup
  | 0, [], _ => by simp
  | 0, _ :: _, h => by simp at h
  | n + 1, [], _ => by simp
  | n + 1, a :: l, h => by
    rw [List.eraseDups_cons, List.nodup_cons]
    refine ⟨fun hm => ?_, nodup_eraseDups n _ ?_⟩
    · simp at hm
    · exact Nat.le_trans (List.length_filter_le _ _) (by simpa using h)

/-- `S` is closed under the edges -/
def Closed (g : DG) (S : List Nat) : Prop := ∀ u ∈ S, ∀ v, (u, v) ∈ g.edges → v ∈ S

theorem mem_succOf {g : DG} {S : List Nat} {v : Nat} : v ∈ g.succOf S ↔ ∃ u ∈ S, (u, v) ∈ g.edges := by
  simp only [succOf, List.mem_map, List.mem_filter, List.contains_iff_mem]
  constructor
  · rintro ⟨⟨u, w⟩, ⟨he, hu⟩, rfl⟩
    exact ⟨u, hu, he⟩
  · rintro ⟨u, hu, he⟩
    exact ⟨(u, v), ⟨he, hu⟩, rfl⟩

theorem mem_frontier {g : DG} {S : List Nat} {v : Nat} :
    v ∈ g.frontier S ↔ (∃ u ∈ S, (u, v) ∈ g.edges) ∧ v ∉ S := by
  simp [frontier, mem_succOf]

theorem frontier_nodup (g : DG) (S : List Nat) : (g.frontier S).Nodup :=
  (nodup_eraseDups _ _ (Nat.le_refl _)).filter _

theorem closed_of_frontier_nil {g : DG} {S : List Nat} (h : g.frontier S = []) : Closed g S := by
  intro u hu v he
  by_contra hv
  have : v ∈ g.frontier S := mem_frontier.2 ⟨⟨u, hu, he⟩, hv⟩
  simp [h] at this

theorem Closed.reach {g : DG} {S : List Nat} (hc : Closed g S) {u v : Nat} (hu : u ∈ S) (h : Reach g u v) :
    v ∈ S := by
  induction h with
  | refl => exact hu
  | step _ he ih => exact hc _ ih _ he

theorem subset_closure (g : DG) : ∀ (fuel : Nat) (S : List Nat), S ⊆ g.closure fuel S
  | 0, S => by simp [closure]
  | fuel + 1, S => by
    simp only [closure]
    split
    · exact List.Subset.refl _
    · exact fun v hv => subset_closure g fuel _ (List.mem_append_left _ hv)

theorem closure_sound (g : DG) : ∀ (fuel : Nat) (S : List Nat), ∀ v ∈ g.closure fuel S, ∃ u ∈ S, Reach g u v
  | 0, S => fun v hv => ⟨v, by simpa [closure] using hv, .refl v⟩
  | fuel + 1, S => by
    intro v hv
    simp only [closure] at hv
    split at hv
    · exact ⟨v, hv, .refl v⟩
    · obtain ⟨u, hu, hr⟩ := closure_sound g fuel _ v hv
      rcases List.mem_append.1 hu with hu | hu
      · exact ⟨u, hu, hr⟩
      · obtain ⟨⟨w, hw, he⟩, _⟩ := mem_frontier.1 hu
        exact ⟨w, hw, Reach.head he hr⟩

theorem closure_nodup (g : DG) : ∀ (fuel : Nat) (S : List Nat), S.Nodup → (g.closure fuel S).Nodup
  | 0, S => fun h => by simpa [closure] using h
  | fuel + 1, S => by
    intro h
    simp only [closure]
    split
    · exact h
    · refine closure_nodup g fuel _ (List.nodup_append.2 ⟨h, frontier_nodup g S, ?_⟩)
      rintro a ha b hb rfl
      exact (mem_frontier.1 hb).2 ha

/-- with enough fuel the result is closed: `U` bounds everything that can ever be added -/
theorem closure_closed (g : DG) (U : List Nat) (hU : ∀ e ∈ g.edges, e.2 ∈ U) :
    ∀ (fuel : Nat) (S : List Nat), S.Nodup → S ⊆ U → U.length ≤ fuel + S.length → Closed g (g.closure fuel S)
  | 0, S => by
    intro hn hs hl u hu v he
    simp only [closure] at hu ⊢
    by_contra hv
    have h1 : (v :: S).Nodup := List.nodup_cons.2 ⟨hv, hn⟩
    have h2 : (v :: S) ⊆ U := List.cons_subset.2 ⟨hU _ he, hs⟩
    have := (List.subperm_of_subset h1 h2).length_le
    simp at this
    omega
  | fuel + 1, S => by
    intro hn hs hl
    simp only [closure]
    split
    · next h => exact closed_of_frontier_nil (List.isEmpty_iff.1 h)
    · next h =>
      have hne : g.frontier S ≠ [] := fun h' => h (List.isEmpty_iff.2 h')
      have hpos : 0 < (g.frontier S).length := List.length_pos_iff.2 hne
      refine closure_closed g U hU fuel _ (List.nodup_append.2 ⟨hn, frontier_nodup g S, ?_⟩) ?_ ?_
      · rintro a ha b hb rfl
        exact (mem_frontier.1 hb).2 ha
      · intro v hv
        rcases List.mem_append.1 hv with hv | hv
        · exact hs hv
        · obtain ⟨⟨w, _, he⟩, _⟩ := mem_frontier.1 hv
          exact hU _ he
      · rw [List.length_append]; omega

theorem reachFrom_closed (g : DG) (i : Nat) : Closed g (g.reachFrom i) :=
  closure_closed g (i :: g.targets) (fun e he => List.mem_cons_of_mem _ (List.mem_map.2 ⟨e, he, rfl⟩))
    _ [i] (by simp) (by simp) (by simp [DG.targets])

/-- **the closure is reachability** -/
theorem mem_reachFrom {g : DG} {i v : Nat} : v ∈ g.reachFrom i ↔ Reach g i v := by
  constructor
  · intro h
    obtain ⟨u, hu, hr⟩ := closure_sound g _ _ v h
    have : u = i := by simpa using hu
    exact this ▸ hr
  · exact fun h => (reachFrom_closed g i).reach (subset_closure g _ _ (by simp)) h

theorem reachFrom_nodup (g : DG) (i : Nat) : (g.reachFrom i).Nodup := closure_nodup g _ _ (by simp)

/-- `rx.descendants` as modelled: the nodes reachable from `i`, `i` excluded, each once -/
theorem descendants_spec {g : DG} {i : Nat} {d : List Nat} (h : g.descendants i = some d) :
    i ∈ g.nodes ∧ d.Nodup ∧ ∀ v, v ∈ d ↔ Reach g i v ∧ v ≠ i := by
  unfold descendants at h
  split at h
  · next hl =>
    cases h
    refine ⟨live_iff.1 hl, (reachFrom_nodup g i).filter _, fun v => ?_⟩
    simp [mem_reachFrom]
  · cases h

theorem descendants_isSome {g : DG} {i : Nat} (h : i ∈ g.nodes) : (g.descendants i).isSome = true := by
  simp [descendants, live_iff.2 h]

/-- **the Boolean check is the invariant** -/
theorem isForestB_iff {g : DG} : isForestB g = true ↔ IsForest g := by
  simp only [isForestB, Bool.and_eq_true, distinctB_iff, live_iff, List.all_eq_true, Bool.or_eq_true,
    beq_iff_eq, bne_iff_ne, ne_eq, List.contains_iff_mem, mem_reachFrom]
  constructor
  · rintro ⟨⟨⟨⟨hn, h0⟩, he⟩, hd⟩, hr⟩
    refine ⟨hn, h0, fun e h => ⟨(he e h).1.1, (he e h).1.2⟩, ?_, fun v hv hv0 => ?_, hr⟩
    · rw [List.count_eq_zero]
      intro hm
      obtain ⟨p, hp⟩ := mem_targets.1 hm
      exact (he _ hp).2 rfl
    · exact (hd v hv).resolve_left hv0
  · intro hf
    exact ⟨⟨⟨⟨hf.nodes_nodup, hf.root_live⟩, fun e h => ⟨hf.edges_live e h, hf.target_ne_root (p := e.1) h⟩⟩,
      fun v hv => (Classical.em (v = 0)).imp id (hf.indeg v hv)⟩, hf.reach⟩

instance (g : DG) : Decidable (IsForest g) := decidable_of_iff _ isForestB_iff

end PhyModel.Graph
