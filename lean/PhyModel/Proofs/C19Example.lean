import PhyModel.Proofs.PlacementIdx
import Mathlib.Tactic.NormNum
/-! A concrete instance satisfying the hypotheses of C19 `weights_positive` (non-vacuity). -/
namespace PhyModel.Props.C19
open PhyModel PhyModel.C19P

/-- the hypotheses are satisfiable: two data points on a 2-point grid, outlier prior 1/2, parent
state "data point 0 in one clone", placing data point 1 -/
def exData : Data := { G := 2, S := 1, vals := [[[1/2, 1]], [[1, 1/4]]], op := [1/2, 1/2], sz := [1, 1] }
def exParent : T := ⟨.cons [0] .nil .nil, []⟩

theorem exGood0 : GoodIdx exData 0 := by
  refine ⟨fun s hs k hk => ?_, ?_, ?_⟩
  · have hs' : s = 0 := by (have : s < 1 := hs); omega
    have hk' : k = 0 ∨ k = 1 := by (have : k < 2 := hk); omega
    subst hs'
    rcases hk' with rfl | rfl <;> norm_num [exData, Data.L, getQ]
  · norm_num [exData, Data.opOf]
  · norm_num [exData, Data.opOf]

theorem exGood1 : GoodIdx exData 1 := by
  refine ⟨fun s hs k hk => ?_, ?_, ?_⟩
  · have hs' : s = 0 := by (have : s < 1 := hs); omega
    have hk' : k = 0 ∨ k = 1 := by (have : k < 2 := hk); omega
    subst hs'
    rcases hk' with rfl | rfl <;> norm_num [exData, Data.L, getQ]
  · norm_num [exData, Data.opOf]
  · norm_num [exData, Data.opOf]

theorem exGoodParent : Good exData exParent.f exParent.out := by
  intro j hj
  have : j = 0 := by simpa [exParent, Orders.Forest.all] using hj
  subst this
  exact exGood0

end PhyModel.Props.C19
