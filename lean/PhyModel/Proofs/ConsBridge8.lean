import PhyModel.Proofs.ConsBridge7
/-! Bridge, part 8 (bridge (b) of C16): the subtree that the fuel-driven `buildNode` builds for a
member `c` of a good family holds exactly the data `c` and has exactly the clades
`{d ∈ F m | d ⊆ c}` once the fuel is at least the number of members strictly inside `c`;
the forest over the roots of the consensus graph has exactly the clades `F m`. -/
open Finset

namespace PhyModel.ConsBridge
open PhyModel.Consensus PhyModel.Orders

/-- data below and at a root `(own data, kids)` -/
def nodeAll (r : List ℕ × DF) : List ℕ := r.2.all ++ r.1
/-- clades of the tree hanging at a root -/
def nodeClades (r : List ℕ × DF) : List Clade := dedupL (r.2.all ++ r.1) :: cladesOf r.2

theorem all_ofRoots : ∀ rs : List (List ℕ × DF), (Forest.ofRoots rs).all = rs.flatMap nodeAll
  | [] => rfl
  | (d, k) :: r => by
    simp only [Forest.ofRoots, Forest.all, all_ofRoots r, nodeAll, List.flatMap_cons]

theorem cladesOf_ofRoots : ∀ rs : List (List ℕ × DF),
    cladesOf (Forest.ofRoots rs) = rs.flatMap nodeClades
  | [] => rfl
  | (d, k) :: r => by
    simp only [Forest.ofRoots, cladesOf, cladesOf_ofRoots r, nodeClades, List.flatMap_cons]

theorem mem_F_cons {a : Clade} {l : List Clade} {s : Finset ℕ} :
    s ∈ F (a :: l) ↔ s = a.toFinset ∨ s ∈ F l := by
  simp only [mem_F, List.mem_cons, exists_eq_or_imp]
  constructor
  · rintro (h | h); exact Or.inl h.symm; exact Or.inr h
  · rintro (h | h); exact Or.inl h.symm; exact Or.inr h

theorem mem_F_flatMap {α : Type} {g : α → List Clade} {l : List α} {s : Finset ℕ} :
    s ∈ F (l.flatMap g) ↔ ∃ a ∈ l, s ∈ F (g a) := by
  simp only [mem_F, List.mem_flatMap]
  constructor
  · rintro ⟨d, ⟨a, ha, hd⟩, e⟩; exact ⟨a, ha, d, hd, e⟩
  · rintro ⟨a, ha, d, hd, e⟩; exact ⟨d, ⟨a, ha, hd⟩, e⟩

variable {m : List Clade} {tbl : List (Clade × Option Clade)} {owns : List (Clade × List ℕ)}
  {c : Clade}

/-- a node carrying its own data over kids that hold exactly the members strictly inside it -/
theorem node_of_kids (hg : GoodFamily m) (h : parentTable m = .ok tbl) (ho : ownsOf tbl m = .ok owns)
    (hc : c ∈ m) (K : DF) (hall : ∀ x, x ∈ K.all ↔ x ∈ strictU m c.toFinset)
    (hcl : ∀ s, s ∈ F (cladesOf K) ↔ s ∈ F m ∧ s ⊂ c.toFinset) :
    (nodeAll (lookupOwn owns c, K)).toFinset = c.toFinset ∧
    F (nodeClades (lookupOwn owns c, K)) = (F m).filter (fun e => e ⊆ c.toFinset) := by
  have hA : (nodeAll (lookupOwn owns c, K)).toFinset = c.toFinset := by
    ext x
    have hown : x ∈ lookupOwn owns c ↔ x ∈ c.toFinset \ strictU m c.toFinset := by
      rw [← lookupOwn_spec hg h ho hc, List.mem_toFinset]
    simp only [nodeAll, List.mem_toFinset, List.mem_append, hall, hown, mem_sdiff]
    constructor
    · rintro (hx | hx)
      · exact List.mem_toFinset.mp (strictU_subset m _ hx)
      · exact hx.1
    · intro hx
      by_cases hs : x ∈ strictU m c.toFinset
      · exact Or.inl hs
      · exact Or.inr ⟨hx, hs⟩
  refine ⟨hA, ?_⟩
  ext s
  have hd : (dedupL (K.all ++ lookupOwn owns c)).toFinset = c.toFinset := by
    rw [toFinset_dedupL]; exact hA
  simp only [nodeClades, mem_F_cons, hd, hcl, mem_filter]
  constructor
  · rintro (rfl | ⟨hs, hsc⟩)
    · exact ⟨mem_F.mpr ⟨c, hc, rfl⟩, Finset.Subset.refl _⟩
    · exact ⟨hs, hsc.subset⟩
  · rintro ⟨hs, hsc⟩
    by_cases he : s = c.toFinset
    · exact Or.inl he
    · exact Or.inr ⟨hs, Finset.ssubset_iff_subset_ne.mpr ⟨hsc, he⟩⟩

theorem buildNode_fst (fuel : ℕ) (c : Clade) :
    buildNode tbl owns fuel c = (lookupOwn owns c, (buildNode tbl owns fuel c).2) := by
  cases fuel <;> rfl

/-- **bridge (b)**, one node: with at least as much fuel as there are members strictly inside `c`
the built subtree holds exactly the data of `c` and its clades are the members inside `c` -/
theorem buildNode_spec (hg : GoodFamily m) (h : parentTable m = .ok tbl) (ho : ownsOf tbl m = .ok owns) :
    ∀ (fuel : ℕ) (c : Clade), c ∈ m → ((F m).filter (fun e => e ⊂ c.toFinset)).card ≤ fuel →
      (nodeAll (buildNode tbl owns fuel c)).toFinset = c.toFinset ∧
      F (nodeClades (buildNode tbl owns fuel c)) = (F m).filter (fun e => e ⊆ c.toFinset) := by
  intro fuel
  induction fuel with
  | zero =>
    intro c hc hcard
    have hempty : (F m).filter (fun e => e ⊂ c.toFinset) = ∅ :=
      Finset.card_eq_zero.mp (Nat.le_zero.mp hcard)
    rw [buildNode_fst]
    apply node_of_kids hg h ho hc
    · intro x
      simp [buildNode, Forest.all, strictU, hempty]
    · intro s
      simp only [buildNode, cladesOf, F, List.map_nil, List.toFinset_nil, notMem_empty, false_iff]
      rintro ⟨hs, hsc⟩
      have : s ∈ (F m).filter (fun e => e ⊂ c.toFinset) := mem_filter.mpr ⟨hs, hsc⟩
      rw [hempty] at this
      exact absurd this (notMem_empty _)
  | succ fuel ih =>
    intro c hc hcard
    have hkid : ∀ d ∈ childrenOf tbl c,
        (nodeAll (buildNode tbl owns fuel d)).toFinset = d.toFinset ∧
        F (nodeClades (buildNode tbl owns fuel d)) = (F m).filter (fun e => e ⊆ d.toFinset) := by
      intro d hd
      obtain ⟨hdm, hch⟩ := (childrenOf_iff hg h hc d).mp hd
      apply ih d hdm
      have := _root_.Consensus.card_strict_lt (F m) hch.1 hch.2.1
      omega
    rw [buildNode_fst]
    apply node_of_kids hg h ho hc
    · intro x
      rw [← mem_children_flatten hg h hc]
      simp only [buildNode, all_ofRoots, List.mem_flatMap, List.mem_map, List.mem_flatten]
      constructor
      · rintro ⟨_, ⟨d, hd, rfl⟩, hx⟩
        refine ⟨d, hd, ?_⟩
        rw [← List.mem_toFinset, ← (hkid d hd).1, List.mem_toFinset]
        exact hx
      · rintro ⟨d, hd, hx⟩
        refine ⟨_, ⟨d, hd, rfl⟩, ?_⟩
        rw [← List.mem_toFinset, (hkid d hd).1, List.mem_toFinset]
        exact hx
    · intro s
      simp only [buildNode, cladesOf_ofRoots, mem_F_flatMap, List.mem_map]
      constructor
      · rintro ⟨_, ⟨d, hd, rfl⟩, hs⟩
        rw [(hkid d hd).2, mem_filter] at hs
        have hch := ((childrenOf_iff hg h hc d).mp hd).2
        exact ⟨hs.1, lt_of_le_of_lt hs.2 hch.2.1⟩
      · rintro ⟨hs, hsc⟩
        obtain ⟨D, hD, hsD⟩ := _root_.Consensus.exists_child_above (F m) hs hsc
        obtain ⟨d, hd, rfl⟩ := mem_F.mp hD.1
        have hdc := (childrenOf_iff hg h hc d).mpr ⟨hd, hD⟩
        refine ⟨_, ⟨d, hdc, rfl⟩, ?_⟩
        rw [(hkid d hdc).2, mem_filter]
        exact ⟨hs, hsD⟩

/-! ### the roots of the consensus graph and the whole forest -/

/-- the root list handed to `from_dict_nx` -/
def rootsOf (tbl : List (Clade × Option Clade)) : List Clade :=
  (tbl.filter fun e => e.2.isNone).map (·.1)

theorem rootsOf_mem (h : parentTable m = .ok tbl) {d : Clade} (hd : d ∈ rootsOf tbl) : d ∈ m := by
  rw [← tbl_keys h]
  unfold rootsOf at hd
  exact (List.filter_sublist.map _).subset hd

theorem mem_rootsOf (hg : GoodFamily m) (h : parentTable m = .ok tbl) {d : Clade} (hd : d ∈ m)
    (hmax : ∀ e ∈ F m, ¬ d.toFinset ⊂ e) : d ∈ rootsOf tbl := by
  obtain ⟨e, he, he1, he2⟩ := forall₂_mem_left (tbl_spec h) d hd
  obtain ⟨d', q⟩ := e
  simp only at he1 he2
  subst he1
  cases q with
  | some p =>
    exact absurd (parent_isChild hg.nd he2 hd).2.1 (hmax _ (mem_F.mpr ⟨p, parent_mem he2, rfl⟩))
  | none =>
    unfold rootsOf
    exact List.mem_map.mpr ⟨(d', none), List.mem_filter.mpr ⟨he, rfl⟩, rfl⟩

theorem card_F_le (m : List Clade) : (F m).card ≤ m.length := by
  unfold F
  exact (List.toFinset_card_le _).trans (by simp)

/-- **bridge (b)**, whole forest: the clades of the built forest are exactly the family -/
theorem forest_clades (hg : GoodFamily m) (h : parentTable m = .ok tbl) (ho : ownsOf tbl m = .ok owns) :
    F (cladesOf (Forest.ofRoots ((rootsOf tbl).map (buildNode tbl owns m.length)))) = F m := by
  ext s
  simp only [cladesOf_ofRoots, mem_F_flatMap, List.mem_map]
  have hfuel : ∀ d : Clade, ((F m).filter (fun e => e ⊂ d.toFinset)).card ≤ m.length :=
    fun d => (Finset.card_filter_le _ _).trans (card_F_le m)
  constructor
  · rintro ⟨_, ⟨d, hd, rfl⟩, hs⟩
    rw [(buildNode_spec hg h ho m.length d (rootsOf_mem h hd) (hfuel d)).2, mem_filter] at hs
    exact hs.1
  · intro hs
    obtain ⟨D, hD, hsD, hmax⟩ := _root_.Consensus.exists_max_above (F m) hs
    obtain ⟨d, hd, rfl⟩ := mem_F.mp hD
    refine ⟨_, ⟨d, mem_rootsOf hg h hd hmax, rfl⟩, ?_⟩
    rw [(buildNode_spec hg h ho m.length d hd (hfuel d)).2, mem_filter]
    exact ⟨hs, hsD⟩

end PhyModel.ConsBridge
