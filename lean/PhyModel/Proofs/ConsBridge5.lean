import PhyModel.Proofs.ConsBridge4
/-! Bridge, part 5: what `find_smallest_superset` returns; projections of `nest`. -/
open Finset

namespace PhyModel.ConsBridge
open PhyModel.Consensus PhyModel.Orders

theorem nest_outs {n : ℕ} {m : List Clade} {f : DF} {outs : List ℕ} {owns : List (Clade × List ℕ)}
    {tbl : List (Clade × Option Clade)} (h : nest n m = .ok (f, outs, owns, tbl)) :
    outs = outliersOf n owns ∧ parentTable m = .ok tbl := by
  unfold nest at h
  simp only [bind, Except.bind] at h
  split at h
  · cases h
  · rename_i t ht
    split at h
    · cases h
    · rename_i o ho
      split at h
      · cases h
      · simp only [pure, Except.pure] at h
        injection h with h
        simp only [Prod.mk.injEq] at h
        obtain ⟨_, h2, h3, h4⟩ := h
        subst h3 h4
        exact ⟨h2.symm, ht⟩

theorem forall₂_mem_right {α β : Type} {R : α → β → Prop} {l : List α} {bs : List β}
    (h : List.Forall₂ R l bs) : ∀ b ∈ bs, ∃ a ∈ l, R a b := by
  induction h with
  | nil => intro b hb; cases hb
  | cons hab _ ih =>
    intro b hb
    rcases List.mem_cons.mp hb with rfl | hb
    · exact ⟨_, List.mem_cons_self, hab⟩
    · obtain ⟨a, ha, hfa⟩ := ih b hb
      exact ⟨a, List.mem_cons_of_mem _ ha, hfa⟩

/-- result of the scan: a candidate (or the incoming best) containing `q`, no longer than any other
candidate containing `q`; `none` only when nothing contains `q` -/
theorem go_spec (q : Clade) : ∀ (cs : List Clade) (best r : Option Clade),
    findSmallestGo q cs best = .ok r →
    (∀ p, r = some p → (best = some p ∨ (p ∈ cs ∧ q.toFinset ⊆ p.toFinset)) ∧
        (∀ b, best = some b → p.length ≤ b.length) ∧
        (∀ c ∈ cs, q.toFinset ⊆ c.toFinset → p.length ≤ c.length)) ∧
    (r = none → best = none ∧ ∀ c ∈ cs, ¬ q.toFinset ⊆ c.toFinset)
  | [], best, r, h => by
    have : best = r := by
      have h' : (Except.ok best : Except String (Option Clade)) = .ok r := h
      injection h'
    subst this
    refine ⟨fun p hp => ⟨Or.inl hp, fun b hb => ?_, fun c hc => by simp at hc⟩, fun h => ⟨h, fun c hc => by simp at hc⟩⟩
    rw [hp] at hb; injection hb with hb; rw [hb]
  | c :: cs, best, r, h => by
    simp only [findSmallestGo] at h
    by_cases hs : subsetL q c = true
    · have hsub := subsetL_iff.mp hs
      simp only [hs, if_true] at h
      cases best with
      | none =>
        obtain ⟨ih1, ih2⟩ := go_spec q cs (some c) r h
        refine ⟨fun p hp => ?_, fun hr => ?_⟩
        · obtain ⟨a1, a2, a3⟩ := ih1 p hp
          refine ⟨Or.inr ?_, fun b hb => (by cases hb), fun c' hc' hq' => ?_⟩
          · rcases a1 with a1 | a1
            · injection a1 with a1; subst a1; exact ⟨List.mem_cons_self, hsub⟩
            · exact ⟨List.mem_cons_of_mem _ a1.1, a1.2⟩
          · rcases List.mem_cons.mp hc' with rfl | hc'
            · exact a2 _ rfl
            · exact a3 c' hc' hq'
        · exact absurd (ih2 hr).1 (by simp)
      | some b =>
        simp only at h
        by_cases hlen : c.length = b.length
        · simp only [hlen, if_true] at h; cases h
        · simp only [hlen, if_false] at h
          by_cases hlt : c.length < b.length
          · simp only [hlt, if_true] at h
            obtain ⟨ih1, ih2⟩ := go_spec q cs (some c) r h
            refine ⟨fun p hp => ?_, fun hr => absurd (ih2 hr).1 (by simp)⟩
            obtain ⟨a1, a2, a3⟩ := ih1 p hp
            have hpc := a2 c rfl
            refine ⟨Or.inr ?_, fun b' hb' => ?_, fun c' hc' hq' => ?_⟩
            · rcases a1 with a1 | a1
              · injection a1 with a1; subst a1; exact ⟨List.mem_cons_self, hsub⟩
              · exact ⟨List.mem_cons_of_mem _ a1.1, a1.2⟩
            · injection hb' with hb'; subst hb'; omega
            · rcases List.mem_cons.mp hc' with rfl | hc'
              · exact hpc
              · exact a3 c' hc' hq'
          · simp only [hlt, if_false] at h
            obtain ⟨ih1, ih2⟩ := go_spec q cs (some b) r h
            refine ⟨fun p hp => ?_, fun hr => absurd (ih2 hr).1 (by simp)⟩
            obtain ⟨a1, a2, a3⟩ := ih1 p hp
            have hpb := a2 b rfl
            refine ⟨?_, a2, fun c' hc' hq' => ?_⟩
            · rcases a1 with a1 | a1
              · exact Or.inl a1
              · exact Or.inr ⟨List.mem_cons_of_mem _ a1.1, a1.2⟩
            · rcases List.mem_cons.mp hc' with rfl | hc'
              · omega
              · exact a3 c' hc' hq'
    · simp only [hs] at h
      have hns : ¬ q.toFinset ⊆ c.toFinset := fun h' => hs (subsetL_iff.mpr h')
      obtain ⟨ih1, ih2⟩ := go_spec q cs best r h
      refine ⟨fun p hp => ?_, fun hr => ⟨(ih2 hr).1, fun c' hc' => ?_⟩⟩
      · obtain ⟨a1, a2, a3⟩ := ih1 p hp
        refine ⟨?_, a2, fun c' hc' hq' => ?_⟩
        · rcases a1 with a1 | a1
          · exact Or.inl a1
          · exact Or.inr ⟨List.mem_cons_of_mem _ a1.1, a1.2⟩
        · rcases List.mem_cons.mp hc' with rfl | hc'
          · exact absurd hq' hns
          · exact a3 c' hc' hq'
      · rcases List.mem_cons.mp hc' with rfl | hc'
        · exact hns
        · exact (ih2 hr).2 c' hc'

/-- `find_smallest_superset m c = p`: `p` is a member of `m`, a strict superset of `c`, and no
member lies strictly between them — the child relation of `Proofs/Consensus.lean` -/
theorem parent_isChild {m : List Clade} (hnd : ∀ c ∈ m, c.Nodup) {c p : Clade}
    (h : findSmallestSuperset m c = .ok (some p)) (hc : c ∈ m) :
    _root_.Consensus.isChild (F m) p.toFinset c.toFinset := by
  obtain ⟨h1, _⟩ := go_spec c (discard c m) none (some p) h
  obtain ⟨a1, _, a3⟩ := h1 p rfl
  rcases a1 with a1 | ⟨hpm, hcp⟩
  · cases a1
  obtain ⟨hpm, hne⟩ := mem_discard.mp hpm
  have hss : c.toFinset ⊂ p.toFinset := Finset.ssubset_iff_subset_ne.mpr ⟨hcp, fun e => hne e.symm⟩
  refine ⟨mem_F.mpr ⟨c, hc, rfl⟩, hss, ?_⟩
  intro e he hce hep
  obtain ⟨d, hd, rfl⟩ := mem_F.mp he
  have hdd : d ∈ discard c m := mem_discard.mpr ⟨hd, fun e' => (ne_of_gt (Finset.card_lt_card hce)) (by rw [e'])⟩
  have hle := a3 d hdd hce.subset
  rw [length_eq_card (hnd p hpm), length_eq_card (hnd d hd)] at hle
  exact Finset.eq_of_subset_of_card_le hep hle

/-- a root of the consensus graph has no strict superset in the family -/
theorem root_maximal {m : List Clade} {c : Clade} (h : findSmallestSuperset m c = .ok none) :
    ∀ d ∈ m, ¬ c.toFinset ⊂ d.toFinset := by
  obtain ⟨_, h2⟩ := go_spec c (discard c m) none none h
  intro d hd hss
  exact (h2 rfl).2 d (mem_discard.mpr ⟨hd, fun e => (ne_of_gt (Finset.card_lt_card hss)) (by rw [e])⟩) hss.subset

end PhyModel.ConsBridge
