import PhyModel.Proofs.MovesCanon3
import PhyModel.Proofs.MovesDp
/-! Facts about `removeDp` / `addDpAt` on well-formed forests, towards the block structure of the
data-point move. -/
namespace PhyModel
open Orders Orders.Forest PhyModel.Moves

namespace Canon

theorem filter_ne_of_not_mem {i : Nat} {l : List Nat} (h : i ∉ l) : l.filter (· != i) = l := by
  rw [List.filter_eq_self]
  intro a ha
  have : a ≠ i := fun e => h (e ▸ ha)
  simpa using this

theorem mem_filter_ne {i a : Nat} {l : List Nat} : a ∈ l.filter (· != i) ↔ a ∈ l ∧ a ≠ i := by
  simp [List.mem_filter]

theorem filter_ne_append_perm {i : Nat} {l : List Nat} (hn : l.Nodup) (hi : i ∈ l) :
    (l.filter (· != i) ++ [i]).Perm l := by
  rw [← hn.erase_eq_filter]
  exact (List.perm_append_comm.trans (List.perm_cons_erase hi).symm)

theorem removeDp_all (i : Nat) (f : DF) : (removeDp i f).all = f.all.filter (· != i) := by
  induction f with
  | nil => rfl
  | cons d k s ihk ihs => simp only [removeDp, Forest.all, ihk, ihs, List.filter_append]

theorem removeDp_of_not_mem {i : Nat} {f : DF} (h : i ∉ f.all) : removeDp i f = f := by
  induction f with
  | nil => rfl
  | cons d k s ihk ihs =>
    simp only [Forest.all, List.mem_append, not_or] at h
    simp only [removeDp, ihk h.1.1, ihs h.2, filter_ne_of_not_mem h.1.2]

theorem nodesOf_removeDp (i : Nat) (f : DF) :
    nodesOf (removeDp i f) = (nodesOf f).map fun nd => (nd.1.filter (· != i), removeDp i nd.2) := by
  induction f with
  | nil => rfl
  | cons d k s ihk ihs => simp only [removeDp, nodesOf, ihk, ihs, List.map_cons, List.map_append]

theorem removeDp_addDpAt {i : Nat} (key : Nat) {f : DF} (h : i ∉ f.all) :
    removeDp i (addDpAt key i f) = f := by
  induction f with
  | nil => rfl
  | cons d k s ihk ihs =>
    simp only [Forest.all, List.mem_append, not_or] at h
    simp only [addDpAt, removeDp, ihk h.1.1, ihs h.2]
    congr 1
    split
    · rw [List.filter_append, filter_ne_of_not_mem h.1.2]; simp
    · exact filter_ne_of_not_mem h.1.2

theorem mem_addDpAt_all {key i a : Nat} {f : DF} (h : a ∈ (addDpAt key i f).all) :
    a ∈ f.all ∨ (a = i ∧ key ∈ f.all) := by
  induction f with
  | nil => simp [addDpAt, Forest.all] at h
  | cons d k s ihk ihs =>
    simp only [addDpAt, Forest.all, List.mem_append] at h ⊢
    rcases h with (h | h) | h
    · rcases ihk h with h' | ⟨h1, h2⟩
      · exact Or.inl (Or.inl (Or.inl h'))
      · exact Or.inr ⟨h1, Or.inl (Or.inl h2)⟩
    · split at h
      · rename_i hc
        rcases List.mem_append.mp h with h' | h'
        · exact Or.inl (Or.inl (Or.inr h'))
        · exact Or.inr ⟨by simpa using h', Or.inl (Or.inr (List.contains_iff_mem.mp hc))⟩
      · exact Or.inl (Or.inl (Or.inr h))
    · rcases ihs h with h' | ⟨h1, h2⟩
      · exact Or.inl (Or.inr h')
      · exact Or.inr ⟨h1, Or.inr h2⟩

theorem addDpAt_ne (key i : Nat) {f : DF} (h : NE f) : NE (addDpAt key i f) := by
  induction f with
  | nil => trivial
  | cons d k s ihk ihs =>
    simp only [addDpAt]
    refine ⟨?_, ihk h.2.1, ihs h.2.2⟩
    split
    · simp
    · exact h.1

theorem addDpAt_nodup (key : Nat) {i : Nat} {f : DF} (hn : f.all.Nodup) (hi : i ∉ f.all) :
    (addDpAt key i f).all.Nodup := by
  induction f with
  | nil => exact List.nodup_nil
  | cons d k s ihk ihs =>
    simp only [Forest.all, List.mem_append, not_or] at hi
    simp only [Forest.all] at hn
    obtain ⟨hkd, hs, hdisj2⟩ := List.nodup_append.mp hn
    obtain ⟨hk, hd, hdisj1⟩ := List.nodup_append.mp hkd
    simp only [addDpAt, Forest.all]
    have hd' : (if d.contains key then d ++ [i] else d).Nodup := by
      split
      · exact List.nodup_append.mpr ⟨hd, List.nodup_singleton _, by
          intro a ha b hb e; simp at hb; exact hi.1.2 (hb ▸ e ▸ ha)⟩
      · exact hd
    have memd' : ∀ a, a ∈ (if d.contains key then d ++ [i] else d) → a ∈ d ∨ (a = i ∧ key ∈ d) := by
      intro a ha
      split at ha
      · rename_i hc
        rcases List.mem_append.mp ha with h' | h'
        · exact Or.inl h'
        · exact Or.inr ⟨by simpa using h', List.contains_iff_mem.mp hc⟩
      · exact Or.inl ha
    refine List.nodup_append.mpr ⟨List.nodup_append.mpr ⟨ihk hk hi.1.1, hd', ?_⟩, ihs hs hi.2, ?_⟩
    · intro a ha b hb e
      subst e
      rcases mem_addDpAt_all ha with h1 | ⟨h1, h1'⟩ <;> rcases memd' a hb with h2 | ⟨h2, h2'⟩
      · exact hdisj1 a h1 a h2 rfl
      · exact hi.1.1 (h2 ▸ h1)
      · exact hi.1.2 (h1 ▸ h2)
      · exact hdisj1 key h1' key h2' rfl
    · intro a ha b hb e
      subst e
      have ha' : a ∈ k.all ++ d ∨ (a = i ∧ key ∈ k.all ++ d) := by
        rcases List.mem_append.mp ha with h | h
        · rcases mem_addDpAt_all h with h1 | ⟨h1, h1'⟩
          · exact Or.inl (List.mem_append_left _ h1)
          · exact Or.inr ⟨h1, List.mem_append_left _ h1'⟩
        · rcases memd' a h with h1 | ⟨h1, h1'⟩
          · exact Or.inl (List.mem_append_right _ h1)
          · exact Or.inr ⟨h1, List.mem_append_right _ h1'⟩
      rcases ha' with h1 | ⟨h1, h1'⟩ <;> rcases mem_addDpAt_all hb with h2 | ⟨h2, h2'⟩
      · exact hdisj2 a h1 a h2 rfl
      · have := List.mem_append.mp h1
        rcases this with h | h
        · exact hi.1.1 (h2 ▸ h)
        · exact hi.1.2 (h2 ▸ h)
      · exact hi.2 (h1 ▸ h2)
      · exact hdisj2 key h1' key h2' rfl

theorem addDpAt_wf (key : Nat) {i : Nat} {f : DF} (w : WF f) (hi : i ∉ f.all) (hb : i < big) :
    WF (addDpAt key i f) := by
  refine ⟨addDpAt_nodup key w.nodup hi, addDpAt_ne key i w.ne, ?_⟩
  intro a ha
  rcases mem_addDpAt_all ha with h | ⟨h, _⟩
  · exact w.small a h
  · exact h ▸ hb

/-- `i` shares a clone with `b` after insertion at `key` iff `key` shared one with `b` before -/
theorem together_addDpAt {key i b : Nat} {f : DF} (hi : i ∉ f.all) (hb : b ≠ i) :
    together i b (addDpAt key i f) = together key b f := by
  induction f with
  | nil => rfl
  | cons d k s ihk ihs =>
    simp only [Forest.all, List.mem_append, not_or] at hi
    simp only [addDpAt, together, ihk hi.1.1, ihs hi.2]
    congr 2
    by_cases hc : d.contains key = true
    · simp only [hc, if_true, Bool.true_and]
      have : (d ++ [i]).contains i = true := by simp
      rw [this, Bool.true_and]
      simp only [List.contains_eq_mem, List.mem_append, List.mem_singleton, hb, or_false]
    · simp only [Bool.not_eq_true] at hc
      simp only [hc, Bool.false_eq_true, if_false, Bool.false_and]
      have : d.contains i = false := by simpa using hi.1.2
      rw [this, Bool.false_and]

/-- putting `i` back next to `key` undoes its removal, up to equivalence -/
theorem addDpAt_removeDp_eqv {key i : Nat} {f : DF} (hn : f.all.Nodup) (hk : key ≠ i)
    (h : ∀ nd ∈ nodesOf f, key ∈ nd.1 ↔ i ∈ nd.1) : Eqv f (addDpAt key i (removeDp i f)) := by
  induction f with
  | nil => exact .nil
  | cons d k s ihk ihs =>
    simp only [Forest.all] at hn
    obtain ⟨hkd, hs, _⟩ := List.nodup_append.mp hn
    obtain ⟨hkn, hd, _⟩ := List.nodup_append.mp hkd
    simp only [removeDp, addDpAt]
    refine .cons ?_ (ihk hkn (fun nd hnd => h nd (nodesOf_kids_sub hnd)))
      (ihs hs (fun nd hnd => h nd (nodesOf_sibs_sub hnd)))
    have hiff := h (d, k) (mem_nodesOf_cons.mpr (Or.inl rfl))
    by_cases hid : i ∈ d
    · have : (d.filter (· != i)).contains key = true := by
        rw [List.contains_iff_mem, mem_filter_ne]; exact ⟨hiff.mpr hid, hk⟩
      rw [if_pos this]
      exact (filter_ne_append_perm hd hid).symm
    · have : ¬ (d.filter (· != i)).contains key = true := by
        rw [List.contains_iff_mem, mem_filter_ne]; exact fun hh => hid (hiff.mp hh.1)
      rw [if_neg this, filter_ne_of_not_mem hid]

/-- removing a data point whose clone keeps another point preserves well-formedness -/
theorem removeDp_wf {i : Nat} {f : DF} (w : WF f)
    (h : ∀ nd ∈ nodesOf f, i ∈ nd.1 → 1 < nd.1.length) : WF (removeDp i f) := by
  refine ⟨?_, ?_, ?_⟩
  · rw [removeDp_all]; exact w.nodup.filter _
  · have hnd : ∀ nd ∈ nodesOf f, nd.1.Nodup := by
      have := (all_perm_nodes f).nodup_iff.mp w.nodup
      exact (List.nodup_flatMap.mp this).1
    have hne := node_ne w.ne
    clear w
    induction f with
    | nil => trivial
    | cons d k s ihk ihs =>
      refine ⟨?_, ihk (fun nd hn => h nd (nodesOf_kids_sub hn)) (fun nd hn => hnd nd (nodesOf_kids_sub hn))
        (fun nd hn => hne nd (nodesOf_kids_sub hn)),
        ihs (fun nd hn => h nd (nodesOf_sibs_sub hn)) (fun nd hn => hnd nd (nodesOf_sibs_sub hn))
        (fun nd hn => hne nd (nodesOf_sibs_sub hn))⟩
      have hm : (d, k) ∈ nodesOf (Orders.Forest.cons d k s) := mem_nodesOf_cons.mpr (Or.inl rfl)
      by_cases hid : i ∈ d
      · have hlen := h (d, k) hm hid
        have hdn := hnd (d, k) hm
        intro he
        have hall : ∀ a ∈ d, a = i := by
          intro a ha
          by_contra hne'
          have : a ∈ d.filter (· != i) := mem_filter_ne.mpr ⟨ha, hne'⟩
          rw [he] at this; simp at this
        match d, hlen, hdn, hall with
        | a :: b :: _, _, hdn, hall =>
          have h1 := hall a (by simp)
          have h2 := hall b (by simp)
          simp only [List.nodup_cons, List.mem_cons] at hdn
          exact hdn.1 (Or.inl (h1.trans h2.symm))
      · rw [filter_ne_of_not_mem hid]; exact hne (d, k) hm
  · intro a ha
    rw [removeDp_all] at ha
    exact w.small a (mem_filter_ne.mp ha).1

end Canon
end PhyModel
