import PhyModel.Proofs.DictEdges
/-! C15 helper lemmas, part 2: `from_dict` rebuilds every payload (`TreeNode(...)` +
`add_data_point_list`), `buildSF` rebuilds the forest shape from the edge list, and the final
`update()` restores the cached vectors of a store whose cache was valid. -/
namespace PhyModel.Store
open SF Store

/-! ### payloads -/

/-- the matrix `(s, k) ↦ c s k` as a list of vectors -/
def matOf (dt : Data) (c : Nat → Nat → Rat) : List Vec :=
  (List.range dt.S).map fun s => (List.range dt.G).map fun k => c s k

theorem getD_map_range {α} (f : Nat → α) (n i : Nat) (d : α) (h : i < n) :
    ((List.range n).map f).getD i d = f i := by
  simp [List.getD_eq_getElem?_getD, h]

theorem mulData_matOf (dt : Data) (c : Nat → Nat → Rat) (dp : Nat) :
    mulData dt (matOf dt c) dp = matOf dt (fun s k => c s k * getQ (dt.L dp s) k) := by
  unfold mulData matOf
  apply List.map_congr_left
  intro s hs
  have hs' : s < dt.S := List.mem_range.1 hs
  rw [getD_map_range _ _ _ _ hs']
  unfold pmul
  apply List.map_congr_left
  intro k hk
  have hk' : k < dt.G := List.mem_range.1 hk
  simp only [getQ]
  rw [getD_map_range _ _ _ _ hk']

theorem foldl_mulData_matOf (dt : Data) : ∀ (dl : List Nat) (c : Nat → Nat → Rat),
    dl.foldl (fun v dp => mulData dt v dp) (matOf dt c)
      = matOf dt (fun s k => dl.foldl (fun a i => a * getQ (dt.L i s) k) (c s k)) := by
  intro dl
  induction dl with
  | nil => intro c; rfl
  | cons a l ih =>
    intro c
    simp only [List.foldl_cons]
    rw [mulData_matOf, ih]

theorem foldl_mul_init (l : List Rat) : ∀ a : Rat, l.foldl (· * ·) a = a * l.foldl (· * ·) 1 := by
  induction l with
  | nil => intro a; simp [Rat.mul_one]
  | cons x l ih =>
    intro a
    simp only [List.foldl_cons]
    rw [ih (a * x), ih (1 * x), Rat.one_mul, Rat.mul_assoc]

theorem foldl_mul_map {ι} (g : ι → Rat) (l : List ι) (c : Rat) :
    l.foldl (fun a i => a * g i) c = c * prodL (l.map g) := by
  unfold prodL
  rw [List.foldl_map]
  exact foldl_mul_init_aux g l c
where
  foldl_mul_init_aux {ι} (g : ι → Rat) : ∀ (l : List ι) (c : Rat),
      l.foldl (fun a i => a * g i) c = c * l.foldl (fun a i => a * g i) 1 := by
    intro l
    induction l with
    | nil => intro c; simp [Rat.mul_one]
    | cons x l ih =>
      intro c
      simp only [List.foldl_cons]
      rw [ih (c * g x), ih (1 * g x), Rat.one_mul, Rat.mul_assoc]

/-- `log_p` of a rebuilt payload is the clone's own vector `nodeP` -/
theorem specRec_p (dt : Data) (idx : Nat) (name : Int) (dl : List Nat) :
    (specRec dt idx name dl).p = (List.range dt.S).map fun sm => nodeP dt sm dl := by
  have h0 : (freshRec dt idx name).p = matOf dt (fun _ _ => dt.prior) := by
    simp [freshRec, matOf, priorVec]
  simp only [specRec]
  rw [h0, foldl_mulData_matOf]
  unfold matOf nodeP
  apply List.map_congr_left
  intro s _
  apply List.map_congr_left
  intro k _
  exact foldl_mul_map (fun i => getQ (dt.L i s) k) dl dt.prior

theorem recAdd_ok (dt : Data) : ∀ (dl : List Nat) (n : NodeRec), (n.dps ++ dl).Nodup →
    recAdd dt n dl = some { n with dps := n.dps ++ dl,
                                   p := dl.foldl (fun v dp => mulData dt v dp) n.p,
                                   r := dl.foldl (fun v dp => mulData dt v dp) n.r } := by
  intro dl
  induction dl with
  | nil => intro n _; simp [recAdd]
  | cons a l ih =>
    intro n hnd
    have ha : a ∉ n.dps := by
      intro h
      have := List.nodup_append.1 hnd
      exact this.2.2 a h a (by simp) rfl
    have hnd' : ((n.dps ++ [a]) ++ l).Nodup := by simpa using hnd
    have := ih { n with dps := n.dps ++ [a], p := mulData dt n.p a, r := mulData dt n.r a } hnd'
    unfold recAdd at this ⊢
    simp only [List.foldlM_cons]
    have hc : n.dps.contains a = false := by simpa using ha
    simp only [hc]
    simp only [Bool.false_eq_true, ↓reduceIte, Option.bind_eq_bind, Option.bind_some]
    rw [this]
    simp

/-- `TreeNode(grid, log_prior, name)` followed by `add_data_point_list(dl)` -/
theorem recAdd_fresh_c15 (dt : Data) (idx : Nat) (name : Int) (dl : List Nat) (h : dl.Nodup) :
    recAdd dt (freshRec dt idx name) dl = some (specRec dt idx name dl) := by
  have := recAdd_ok dt dl (freshRec dt idx name) (by simpa [freshRec] using h)
  rw [this]
  simp [specRec, freshRec]

/-! ### forest shape -/

/-- the forest as `from_dict` has it before the final `update()` -/
def raw (dt : Data) (g : SF) : SF := g.mapRecs fun n => specRec dt n.idx n.name n.dps

theorem numNodes_pos_cons (n : NodeRec) (k s : SF) : 1 ≤ (SF.cons n k s).numNodes := by
  simp [SF.numNodes]; omega

theorem buildSF_ok (dt : Data) (d : TDict) : ∀ (g : SF) (fuel : Nat), g.numNodes ≤ fuel →
    g.idxs.Nodup → (∀ c ∈ g.idxs, ch d.edges c = kidsOf c g) →
    (∀ n ∈ g.recs, d.nodeIdxRev.lookup n.idx = some n.name ∧ d.nodeIdx.lookup n.name = some n.idx ∧
        d.data.lookup n.name = some n.dps ∧ n.dps.Nodup) →
    buildSF dt d fuel (rootIdxs g) = some (raw dt g) := by
  intro g
  induction g with
  | nil =>
    intro fuel _ _ _ _
    cases fuel <;> simp [buildSF, rootIdxs, SF.rootRecs, raw, SF.mapRecs]
  | cons n k s ihk ihs =>
    intro fuel hfuel hnd hch hpay
    obtain ⟨fuel, rfl⟩ : ∃ f', fuel = f' + 1 := by
      have := numNodes_pos_cons n k s
      exact ⟨fuel - 1, by omega⟩
    have hsz : k.numNodes ≤ fuel ∧ s.numNodes ≤ fuel := by
      simp [SF.numNodes] at hfuel; omega
    rw [idxs_cons] at hnd hch
    obtain ⟨hn_notin, hnd2⟩ := List.nodup_cons.1 hnd
    have hndk : k.idxs.Nodup := (List.nodup_append.1 hnd2).1
    have hnds : s.idxs.Nodup := (List.nodup_append.1 hnd2).2.1
    have hdisj := (List.nodup_append.1 hnd2).2.2
    have hnk : n.idx ∉ k.idxs := fun h => hn_notin (List.mem_append_left _ h)
    have hns : n.idx ∉ s.idxs := fun h => hn_notin (List.mem_append_right _ h)
    obtain ⟨p1, p2, p3, p4⟩ := hpay n (by simp [recs_cons])
    -- children of n in the edge list
    have hkids : ch d.edges n.idx = rootIdxs k := by
      rw [hch n.idx (by simp)]
      simp [kidsOf, kidsOf_nil_of_not_mem _ k hnk, kidsOf_nil_of_not_mem _ s hns]
    have hchk : ∀ c ∈ k.idxs, ch d.edges c = kidsOf c k := by
      intro c hc
      rw [hch c (by simp [hc])]
      have hcn : ¬ n.idx = c := fun e => hnk (e ▸ hc)
      have hcs : c ∉ s.idxs := fun h => hdisj c hc c h rfl
      simp [kidsOf, hcn, kidsOf_nil_of_not_mem _ s hcs]
    have hchs : ∀ c ∈ s.idxs, ch d.edges c = kidsOf c s := by
      intro c hc
      rw [hch c (by simp [hc])]
      have hcn : ¬ n.idx = c := fun e => hns (e ▸ hc)
      have hck : c ∉ k.idxs := fun h => hdisj c h c hc rfl
      simp [kidsOf, hcn, kidsOf_nil_of_not_mem _ k hck]
    have ek := ihk fuel hsz.1 hndk hchk (fun m hm => hpay m (by simp [recs_cons, hm]))
    have es := ihs fuel hsz.2 hnds hchs (fun m hm => hpay m (by simp [recs_cons, hm]))
    rw [rootIdxs_cons]
    unfold buildSF
    have hkids' : (List.map (fun x => x.2) (List.filter (fun x => decide (x.1 = n.idx)) d.edges)) = rootIdxs k := hkids
    simp only [p1, p2, p3, recAdd_fresh_c15 dt n.idx n.name n.dps p4, hkids', ek, es,
      Option.bind_eq_bind, Option.bind_some, bne_self_eq_false, Bool.false_eq_true, ↓reduceIte,
      Option.pure_def]
    simp [raw, SF.mapRecs]

/-! ### the final `update()` -/

theorem recompR_congr_p (dt : Data) (a b : NodeRec) (k : SF) (h : a.p = b.p) :
    recompR dt a k = recompR dt b k := by
  simp [recompR, h]

theorem updAll_raw (dt : Data) : ∀ g : SF, cacheOKsf dt g = true → updAll dt (raw dt g) = g := by
  intro g
  induction g with
  | nil => intro _; rfl
  | cons n k s ihk ihs =>
    intro h
    simp only [cacheOKsf, vecsEq, Bool.and_eq_true, beq_iff_eq] at h
    obtain ⟨⟨⟨hp, hr⟩, hk⟩, hs⟩ := h
    have ek := ihk hk
    have es := ihs hs
    have e1 : raw dt (SF.cons n k s) = SF.cons (specRec dt n.idx n.name n.dps) (raw dt k) (raw dt s) := rfl
    rw [e1]
    simp only [updAll]
    rw [ek, es]
    have hp' : (specRec dt n.idx n.name n.dps).p = n.p := by rw [specRec_p, hp]
    have hr' : recompR dt (specRec dt n.idx n.name n.dps) k = n.r := by
      rw [recompR_congr_p dt _ n k hp', ← hr]
    rw [hr']
    congr 1
    cases n
    simp only [specRec, freshRec] at hp' ⊢
    simp [hp']

end PhyModel.Store
