import PhyModel.Proofs.PG1
import PhyModel.Proofs.PropSumOne
/-! # C01 instance, part 2: the proposal table seen as a transition probability.

`tprob tab x` is the probability the table gives to the tree `x`.  Every entry of a proposal table is
a permitted placement with positive probability (`table_entry`); every permitted placement has
positive probability (`tprob_pos`, from C08 `support_complete`). -/

namespace PhyModel.PG
open Orders Orders.Forest Proposal PGSpec

/-- probability a table gives to a tree -/
def tprob (tab : List (T × ℚ)) (x : T) : ℚ := lsum tab (fun tq => if tq.1 = x then tq.2 else 0)

theorem mem_children_iff_cands {c : Cfg} {p : T} {i : ℕ} {x : T} :
    x ∈ children c p i ↔ x ∈ exL p i ++ newL p i ++ outL c p i := by
  rw [mem_children, placements_eq]
  simp only [exL, newL, outL, List.mem_append, List.mem_map, List.mem_range, List.mem_singleton]
  constructor
  · rintro ⟨kt, (⟨j, hj, rfl⟩ | ⟨cr, hcr, rfl⟩) | rfl, hp, rfl⟩
    · exact Or.inl (Or.inl ⟨j, hj, rfl⟩)
    · exact Or.inl (Or.inr ⟨cr, hcr, rfl⟩)
    · right; simp [hp rfl]
  · rintro ((⟨j, hj, rfl⟩ | ⟨cr, hcr, rfl⟩) | h)
    · exact ⟨_, Or.inl (Or.inl ⟨j, hj, rfl⟩), by simp, rfl⟩
    · exact ⟨_, Or.inl (Or.inr ⟨cr, hcr, rfl⟩), by simp, rfl⟩
    · by_cases ho : c.op = 0
      · simp [ho] at h
      · simp only [ho, ne_eq, not_false_eq_true, if_true, List.mem_singleton] at h
        subst h
        exact ⟨(Kind.outlier, outT p i), Or.inr rfl, fun _ => ho, rfl⟩

theorem mem_scale {α} (c : ℚ) (d : Dist α) (aq : α × ℚ) :
    aq ∈ Dist.scale c d ↔ ∃ bq ∈ d, aq = (bq.1, bq.2 * c) := by
  unfold Dist.scale
  simp only [List.mem_map]
  constructor
  · rintro ⟨bq, h, rfl⟩; exact ⟨bq, h, rfl⟩
  · rintro ⟨bq, h, rfl⟩; exact ⟨bq, h, rfl⟩

/-- every entry of a proposal table is a permitted placement and has positive probability -/
theorem table_entry (dt : Data) (c : Cfg) (first : Bool) (p : T) (i : ℕ)
    (hop0 : 0 ≤ c.op) (hop1 : c.op < 1)
    (hpos : ∀ kt ∈ placements p i, 0 < pMargT dt c kt.2)
    (tq : T × ℚ) (htq : tq ∈ table dt c first p i) : 0 < tq.2 ∧ tq.1 ∈ children c p i := by
  have h1op : 0 < 1 - c.op := by linarith
  have hrq1 : (0 : ℚ) < (p.f.roots.length : ℚ) + 1 := by positivity
  have hcat : ∀ (L : List T), (∀ t ∈ L, t ∈ exL p i ++ newL p i ++ outL c p i) →
      ∀ aq ∈ Dist.categorical (wts dt c L), 0 < aq.2 ∧ aq.1 ∈ children c p i := by
    intro L hsub aq haq
    rw [categorical_wts] at haq
    obtain ⟨t, ht, rfl⟩ := List.mem_map.mp haq
    have htot := cands_pos dt c p i hpos L (List.ne_nil_of_mem ht) hsub
    obtain ⟨kt', hkt', hk⟩ := mem_cands c p i t (hsub t ht)
    refine ⟨div_pos (hk ▸ hpos kt' hkt') htot, mem_children_iff_cands.mpr (hsub t ht)⟩
  cases hk : c.kind with
  | bootstrap =>
    rw [table_bootstrap dt c first p i hk] at htq
    simp only [List.mem_append, List.mem_map, List.mem_range] at htq
    rcases htq with (⟨j, hj, rfl⟩ | ⟨cr, hcr, rfl⟩) | h
    · refine ⟨?_, mem_children_iff_cands.mpr ?_⟩
      · have : (0 : ℚ) < (p.f.roots.length : ℚ) := by exact_mod_cast (by omega : 0 < p.f.roots.length)
        exact div_pos (div_pos h1op (by norm_num)) this
      · simp only [exL, List.mem_append, List.mem_map, List.mem_range]
        exact Or.inl (Or.inl ⟨j, hj, rfl⟩)
    · refine ⟨?_, mem_children_iff_cands.mpr ?_⟩
      · have := binom_pos p.f.roots.length cr.1.length
        simp only
        split_ifs
        · exact h1op
        · exact div_pos (div_pos (div_pos h1op (by norm_num)) hrq1) this
      · simp only [newL, List.mem_append, List.mem_map]
        exact Or.inl (Or.inr ⟨cr, hcr, rfl⟩)
    · by_cases ho : c.op = 0
      · simp [ho] at h
      · simp only [ho, ne_eq, not_false_eq_true, if_true, List.mem_singleton] at h
        subst h
        refine ⟨lt_of_le_of_ne hop0 (Ne.symm ho), mem_children_iff_cands.mpr ?_⟩
        simp [outL, ho]
  | semi =>
    by_cases hr : p.f.roots.length = 0
    · rw [table_semi0 dt c first p i hk hr] at htq
      apply hcat _ _ tq htq
      intro t ht
      simp only [List.mem_append] at ht ⊢
      rcases ht with ht | ht
      · exact Or.inl (Or.inr ht)
      · exact Or.inr ht
    · rw [table_semi dt c first p i hk hr] at htq
      rcases List.mem_append.mp htq with h | h
      · obtain ⟨bq, hbq, rfl⟩ := (mem_scale _ _ _).mp h
        have := hcat (exL p i ++ outL c p i) (by
          intro t ht
          simp only [List.mem_append] at ht ⊢
          rcases ht with ht | ht
          · exact Or.inl (Or.inl ht)
          · exact Or.inr ht) bq hbq
        exact ⟨mul_pos this.1 (by norm_num), this.2⟩
      · obtain ⟨cr, hcr, rfl⟩ := List.mem_map.mp h
        refine ⟨?_, mem_children_iff_cands.mpr ?_⟩
        · have := binom_pos p.f.roots.length cr.1.length
          exact div_pos (div_pos (by norm_num) hrq1) this
        · simp only [newL, List.mem_append, List.mem_map]
          exact Or.inl (Or.inr ⟨cr, hcr, rfl⟩)
  | full =>
    rw [table_full dt c first p i hk] at htq
    exact hcat _ (fun t ht => ht) tq htq

theorem tprob_nonneg (tab : List (T × ℚ)) (h : ∀ tq ∈ tab, 0 ≤ tq.2) (x : T) : 0 ≤ tprob tab x := by
  unfold tprob lsum
  apply List.sum_nonneg
  intro a ha
  obtain ⟨tq, htq, rfl⟩ := List.mem_map.mp ha
  split_ifs
  · exact h tq htq
  · exact le_refl _

theorem tprob_pos_of_mem (tab : List (T × ℚ)) (h : ∀ tq ∈ tab, 0 ≤ tq.2) (x : T) (q : ℚ) (hq : 0 < q)
    (hm : (x, q) ∈ tab) : 0 < tprob tab x := by
  unfold tprob lsum
  induction tab with
  | nil => simp at hm
  | cons a tab ih =>
    simp only [List.map_cons, List.sum_cons]
    have hrest : 0 ≤ (tab.map fun tq => if tq.1 = x then tq.2 else 0).sum :=
      tprob_nonneg tab (fun tq htq => h tq (List.mem_cons_of_mem _ htq)) x
    rcases List.mem_cons.mp hm with rfl | hm
    · simp only [if_true]; linarith
    · have := ih (fun tq htq => h tq (List.mem_cons_of_mem _ htq)) hm
      have h0 : 0 ≤ (if a.1 = x then a.2 else 0) := by
        split_ifs
        · exact h a List.mem_cons_self
        · exact le_refl _
      linarith

/-- a tree with positive table probability is listed in the table -/
theorem mem_of_tprob_pos (tab : List (T × ℚ)) (x : T) (h : 0 < tprob tab x) : ∃ q, (x, q) ∈ tab := by
  unfold tprob lsum at h
  induction tab with
  | nil => simp at h
  | cons a tab ih =>
    simp only [List.map_cons, List.sum_cons] at h
    by_cases ha : a.1 = x
    · exact ⟨a.2, by rw [← ha]; exact List.mem_cons_self⟩
    · rw [if_neg ha, zero_add] at h
      obtain ⟨q, hq⟩ := ih h
      exact ⟨q, List.mem_cons_of_mem _ hq⟩

end PhyModel.PG
