import Mathlib.Algebra.BigOperators.Group.Finset.Basic
import Mathlib.Algebra.BigOperators.Ring.Finset
import Mathlib.Algebra.BigOperators.Fin
import Mathlib.Algebra.Order.Field.Rat
import Mathlib.Data.Fintype.BigOperators
import Mathlib.Data.Fintype.Perm
import Mathlib.Logic.Equiv.Fin.Basic
import Mathlib.Tactic.Ring
import Mathlib.Tactic.Linarith
import Mathlib.Tactic.FieldSimp
import Mathlib.Algebra.Order.BigOperators.Group.Finset
import Mathlib.Algebra.BigOperators.Field
import Mathlib.Algebra.Order.BigOperators.Ring.Finset

open Finset BigOperators

namespace ASMC

variable {X : Type} [Fintype X] [DecidableEq X] {m : ℕ}

/-- particle system: slot ↦ (state, unnormalised weight) -/
abbrev Sys (X : Type) (m : ℕ) := Fin (m+1) → X × ℚ

structure Spec (X : Type) where
  q : ℕ → X → X → ℚ          -- proposal probability at step t
  g : ℕ → X → ℚ              -- unnormalised target at level t
  parent : X → X
  x0 : X
  rs : ℕ → (Fin (m+1) → ℚ) → Bool   -- resample decision before step t

def tot (S : Sys X m) : ℚ := ∑ i, (S i).2
def wbar (S : Sys X m) (i : Fin (m+1)) : ℚ := (S i).2 / tot S
def wts (S : Sys X m) : Fin (m+1) → ℚ := fun i => (S i).2

def incr (sp : Spec (m := m) X) (t : ℕ) (x x' : X) : ℚ := sp.g (t+1) x' / (sp.g t x * sp.q t x x')

/-- new particle in a slot -/
def ext (sp : Spec (m := m) X) (t : ℕ) (p : X × ℚ) (y : X) : X × ℚ := (y, p.2 * incr sp t p.1 y)

/-- symmetric propagation: every slot proposes -/
def propS (sp : Spec (m := m) X) (t : ℕ) (S : Sys X m) (f : Sys X m → ℚ) : ℚ :=
  ∑ y : Fin (m+1) → X, (∏ i, sp.q t (S i).1 (y i)) * f (fun i => ext sp t (S i) (y i))

/-- conditional propagation: slot 0 moves deterministically to x' -/
def propC (sp : Spec (m := m) X) (t : ℕ) (x' : X) (S : Sys X m) (f : Sys X m → ℚ) : ℚ :=
  ∑ y : Fin m → X, (∏ i : Fin m, sp.q t (S i.succ).1 (y i)) *
    f (fun i => ext sp t (S i) ((Fin.cons x' y : Fin (m+1) → X) i))

theorem tot_perm (S : Sys X m) (σ : Equiv.Perm (Fin (m+1))) : tot (S ∘ σ) = tot S := by
  unfold tot
  exact Equiv.sum_comp σ (fun i => (S i).2)

theorem wbar_perm (S : Sys X m) (σ : Equiv.Perm (Fin (m+1))) (i) : wbar (S ∘ σ) i = wbar S (σ i) := by
  unfold wbar; rw [tot_perm]; rfl

theorem propS_perm (sp : Spec (m := m) X) (t : ℕ) (S : Sys X m) (σ : Equiv.Perm (Fin (m+1)))
    (f : Sys X m → ℚ) :
    propS sp t (S ∘ σ) f = propS sp t S (fun T => f (T ∘ σ)) := by
  unfold propS
  -- reindex y ↦ y ∘ σ⁻¹ ... use bijection y ↦ y ∘ σ from RHS to LHS
  symm
  apply Finset.sum_bij (fun y _ => y ∘ σ)
  · intro y _; exact mem_univ _
  · intro y1 _ y2 _ h
    funext i
    have := congrFun h (σ.symm i)
    simpa [Function.comp] using this
  · intro y _
    refine ⟨y ∘ σ.symm, mem_univ _, ?_⟩
    funext i; simp [Function.comp]
  · intro y _
    congr 1
    exact (Equiv.prod_comp σ (fun i => sp.q t (S i).1 (y i))).symm

/-- summing conditional propagation over the retained child = symmetric propagation reweighted -/
theorem propC_sum (sp : Spec (m := m) X) (t : ℕ) (S : Sys X m) (f : Sys X m → ℚ) :
    ∑ x' : X, (sp.q t (S 0).1 x' * incr sp t (S 0).1 x') * propC sp t x' S f
      = propS sp t S (fun T => incr sp t (S 0).1 (T 0).1 * f T) := by
  unfold propS propC
  -- split y : Fin (m+1) → X as cons x' y'
  rw [← (Fin.consEquiv (fun _ : Fin (m+1) => X)).sum_comp]
  rw [Fintype.sum_prod_type]
  apply Finset.sum_congr rfl
  intro x' _
  rw [Finset.mul_sum]
  apply Finset.sum_congr rfl
  intro y _
  simp only [Fin.consEquiv_apply, Fin.prod_univ_succ, Fin.cons_zero, Fin.cons_succ, ext]
  ring

end ASMC
