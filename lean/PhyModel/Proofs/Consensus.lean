import Mathlib.Data.Finset.Basic
import Mathlib.Data.Finset.Card
import Mathlib.Data.Finset.Lattice.Fold
import Mathlib.Data.Finset.Union
import Mathlib.Data.Finset.Max
import Mathlib.Data.List.Nodup
import Mathlib.Algebra.BigOperators.Group.Finset.Basic
import Mathlib.Algebra.Order.BigOperators.Group.Finset
import Mathlib.Algebra.Order.Field.Rat
import Mathlib.Tactic.Linarith

open Finset

namespace Consensus

/-- nested or disjoint -/
def Compatible (a b : Finset ℕ) : Prop := a ⊆ b ∨ b ⊆ a ∨ Disjoint a b

def Laminar (M : Finset (Finset ℕ)) : Prop := ∀ a ∈ M, ∀ b ∈ M, Compatible a b

/-! ### clades of one forest are laminar -/

inductive Forest where
  | nil
  | cons (dps : List ℕ) (kids : Forest) (sibs : Forest)

namespace Forest
def all : Forest → List ℕ
  | nil => []
  | cons d k s => (all k ++ d) ++ all s
/-- the clade of every clone: its own data and all data below it -/
def clades : Forest → List (Finset ℕ)
  | nil => []
  | cons d k s => ((all k ++ d).toFinset :: clades k) ++ clades s
end Forest

theorem clade_subset_all : ∀ (f : Forest) (c : Finset ℕ), c ∈ f.clades → c ⊆ f.all.toFinset := by
  intro f
  induction f with
  | nil => intro c h; simp [Forest.clades] at h
  | cons d k s ihk ihs =>
    intro c h
    simp only [Forest.clades, List.mem_append, List.mem_cons] at h
    intro x hx
    simp only [Forest.all, List.toFinset_append, mem_union, List.mem_toFinset]
    rcases h with (rfl | h) | h
    · simp only [List.toFinset_append, mem_union, List.mem_toFinset] at hx
      left; exact hx
    · have := ihk c h hx
      simp only [List.mem_toFinset] at this
      left; left; exact this
    · have := ihs c h hx
      simp only [List.mem_toFinset] at this
      right; exact this

theorem clades_laminar : ∀ (f : Forest), f.all.Nodup →
    ∀ a ∈ f.clades, ∀ b ∈ f.clades, Compatible a b := by
  intro f
  induction f with
  | nil => intro _ a ha; simp [Forest.clades] at ha
  | cons d k s ihk ihs =>
    intro hnd a ha b hb
    simp only [Forest.all] at hnd
    have hAnd : (k.all ++ d).Nodup := (List.nodup_append.mp hnd).1
    have hsnd : s.all.Nodup := (List.nodup_append.mp hnd).2.1
    have hknd : k.all.Nodup := (List.nodup_append.mp hAnd).1
    have hdisj : Disjoint (k.all ++ d).toFinset s.all.toFinset := by
      rw [Finset.disjoint_left]
      intro x hx hy
      simp only [List.mem_toFinset] at hx hy
      exact (List.nodup_append.mp hnd).2.2 x hx x hy rfl
    -- classify a clade: inside the first tree (⊆ its data) or inside the siblings
    have inTree : ∀ c, (c = (k.all ++ d).toFinset ∨ c ∈ k.clades) → c ⊆ (k.all ++ d).toFinset := by
      intro c hc
      rcases hc with rfl | hc
      · exact Subset.refl _
      · intro x hx
        have := clade_subset_all k c hc hx
        simp only [List.toFinset_append, mem_union, List.mem_toFinset] at this ⊢
        left; exact this
    have inSibs : ∀ c, c ∈ s.clades → c ⊆ s.all.toFinset := fun c hc => clade_subset_all s c hc
    simp only [Forest.clades, List.mem_append, List.mem_cons] at ha hb
    rcases ha with ha | ha <;> rcases hb with hb | hb
    · -- both in the first tree
      rcases ha with rfl | ha <;> rcases hb with rfl | hb
      · left; exact Subset.refl _
      · right; left; exact inTree b (Or.inr hb)
      · left; exact inTree a (Or.inr ha)
      · exact ihk hknd a ha b hb
    · right; right
      exact Finset.disjoint_of_subset_left (inTree a ha)
        (Finset.disjoint_of_subset_right (inSibs b hb) hdisj)
    · right; right
      exact (Finset.disjoint_of_subset_left (inTree b hb)
        (Finset.disjoint_of_subset_right (inSibs a ha) hdisj)).symm
    · exact ihs hsnd a ha b hb

/-! ### majority clades are laminar -/

/-- two index sets each of weight > θ ≥ 1/2 (weights ≥ 0, total ≤ 1) intersect -/
theorem majority_intersect {ι : Type} [DecidableEq ι] (s A B : Finset ι) (p : ι → ℚ) (θ : ℚ)
    (hθ : 1/2 ≤ θ) (hp : ∀ i ∈ s, 0 ≤ p i) (hs : ∑ i ∈ s, p i ≤ 1) (hA : A ⊆ s) (hB : B ⊆ s)
    (ha : θ < ∑ i ∈ A, p i) (hb : θ < ∑ i ∈ B, p i) : (A ∩ B).Nonempty := by
  by_contra h
  rw [Finset.not_nonempty_iff_eq_empty] at h
  have hd : Disjoint A B := Finset.disjoint_iff_inter_eq_empty.mpr h
  have hu : ∑ i ∈ A ∪ B, p i = ∑ i ∈ A, p i + ∑ i ∈ B, p i := Finset.sum_union hd
  have hle : ∑ i ∈ A ∪ B, p i ≤ ∑ i ∈ s, p i :=
    Finset.sum_le_sum_of_subset_of_nonneg (Finset.union_subset hA hB) (fun i hi _ => hp i hi)
  linarith

/-- support of a clade: total weight of the trees that contain it (weights = 1/n for counts,
normalised scores in weighted mode) -/
def support {ι : Type} [DecidableEq ι] (s : Finset ι) (p : ι → ℚ) (cl : ι → Finset (Finset ℕ))
    (c : Finset ℕ) : ℚ := ∑ i ∈ s.filter (fun i => c ∈ cl i), p i

theorem majority_laminar {ι : Type} [DecidableEq ι] (s : Finset ι) (p : ι → ℚ)
    (cl : ι → Finset (Finset ℕ)) (θ : ℚ) (hθ : 1/2 ≤ θ)
    (hp : ∀ i ∈ s, 0 ≤ p i) (hs : ∑ i ∈ s, p i ≤ 1)
    (hlam : ∀ i ∈ s, Laminar (cl i)) (M : Finset (Finset ℕ))
    (hM : ∀ c ∈ M, θ < support s p cl c) : Laminar M := by
  intro a ha b hb
  obtain ⟨i, hi⟩ := majority_intersect s (s.filter fun i => a ∈ cl i) (s.filter fun i => b ∈ cl i)
    p θ hθ hp hs (Finset.filter_subset _ _) (Finset.filter_subset _ _) (hM a ha) (hM b hb)
  simp only [mem_inter, mem_filter] at hi
  exact hlam i hi.1.1 a hi.1.2 b hi.2.2

/-! ### nesting a laminar family -/

/-- in a laminar family of non-empty sets, two strict supersets of the same set that have the
same size are equal: `find_smallest_superset` can never meet its "inconsistent" branch -/
theorem smallest_superset_unique (M : Finset (Finset ℕ)) (hlam : Laminar M)
    (c : Finset ℕ) (hc : c.Nonempty) (d1 d2 : Finset ℕ) (h1 : d1 ∈ M) (h2 : d2 ∈ M)
    (hs1 : c ⊆ d1) (hs2 : c ⊆ d2) (hcard : d1.card = d2.card) : d1 = d2 := by
  rcases hlam d1 h1 d2 h2 with h | h | h
  · exact Finset.eq_of_subset_of_card_le h (le_of_eq hcard.symm)
  · exact (Finset.eq_of_subset_of_card_le h (le_of_eq hcard)).symm
  · exfalso
    obtain ⟨x, hx⟩ := hc
    exact Finset.disjoint_left.mp h (hs1 hx) (hs2 hx)

/-- children of `c`: members of `M` strictly inside `c` with no member strictly in between -/
def isChild (M : Finset (Finset ℕ)) (c d : Finset ℕ) : Prop :=
  d ∈ M ∧ d ⊂ c ∧ ∀ e ∈ M, d ⊂ e → e ⊆ c → e = c

/-- own mutations of `c` after `relabel`: those not in any child clade -/
def own (M : Finset (Finset ℕ)) [DecidablePred fun d : Finset ℕ => ∃ e ∈ M, e ⊂ d ∧ True]
    (c : Finset ℕ) : Finset ℕ :=
  c \ (M.filter (fun d => d ⊂ c)).biUnion id

/-- every element of a member `c` lies in the own-set of exactly the smallest member that contains
it; hence the own-sets of the members inside `c` union to `c`: the tree built by nesting has
exactly the clades `M` -/
theorem own_cover (M : Finset (Finset ℕ)) (c : Finset ℕ) (hc : c ∈ M) :
    (M.filter (fun d => d ⊆ c)).biUnion (fun d => d \ (M.filter (fun e => e ⊂ d)).biUnion id) = c := by
  apply Finset.Subset.antisymm
  · intro x hx
    simp only [mem_biUnion, mem_filter, mem_sdiff] at hx
    obtain ⟨d, ⟨_, hdc⟩, hxd, _⟩ := hx
    exact hdc hxd
  · intro x hx
    -- the members inside c containing x; pick one of minimal size
    set S := M.filter (fun d => d ⊆ c ∧ x ∈ d) with hS
    have hne : S.Nonempty := ⟨c, by simp [hS, hc, hx]⟩
    obtain ⟨d, hdS, hmin⟩ := Finset.exists_min_image S Finset.card hne
    simp only [hS, mem_filter] at hdS
    simp only [mem_biUnion, mem_filter, mem_sdiff, id]
    refine ⟨d, ⟨hdS.1, hdS.2.1⟩, hdS.2.2, ?_⟩
    rintro ⟨e, ⟨heM, hed⟩, hxe⟩
    have heS : e ∈ S := by
      simp only [hS, mem_filter]
      exact ⟨heM, hed.subset.trans hdS.2.1, hxe⟩
    have := hmin e heS
    have := Finset.card_lt_card hed
    omega

#print axioms clades_laminar
#print axioms majority_laminar
#print axioms smallest_superset_unique
#print axioms own_cover
end Consensus
