import PhyModel.Proofs.DictBuild
/-! C15: the dictionary round trip on the store model. -/
namespace PhyModel.Store
open SF Store

theorem normRoot_of_not_nil (dt : Data) (s : Store) (h : s.forest.isNil = false) : normRoot dt s = s := by
  simp [normRoot, h]

theorem isNil_iff (f : SF) : f.isNil = true ↔ f = .nil := by
  cases f <;> simp [SF.isNil]

/-- `Tree.from_dict(t.to_dict())` rebuilds the store exactly (up to the never-read root vector of a
clone-less tree, see `normRoot`) -/
theorem fromDict_toDict_norm (dt : Data) (s : Store) (h : WFd dt s) :
    fromDict dt (toDict s) = some (normRoot dt s) := by
  obtain ⟨f, rootR, ni, nir, data, last⟩ := s
  cases f with
  | nil =>
    simp [fromDict, toDict, edgesOf, normRoot, SF.isNil, updAll]
  | cons n k sb =>
    have hnil0 : (SF.cons n k sb).isNil = false := rfl
    generalize SF.cons n k sb = f at h hnil0 ⊢
    have hnil : f.isNil = false := hnil0
    have h0 : (0 : Nat) ∉ f.idxs := by
      intro hm
      obtain ⟨m, hm1, hm2⟩ := List.mem_map.1 hm
      exact h.idxPos m hm1 hm2
    have hroots : ch (edgesOf 0 f) 0 = rootIdxs f := by
      rw [ch_edgesOf 0 f 0 h0 h.idxNodup]; simp
    have hch : ∀ c ∈ f.idxs, ch (edgesOf 0 f) c = kidsOf c f := by
      intro c hc
      have hc0 : ¬ c = 0 := fun e => h0 (e ▸ hc)
      rw [ch_edgesOf c f 0 h0 h.idxNodup]; simp [hc0]
    let d : TDict := toDict ⟨f, rootR, ni, nir, data, last⟩
    have hb := buildSF_ok dt d f ((edgesOf 0 f).length + 1) (by rw [edgesOf_length_c15]; omega)
      h.idxNodup hch (fun m hm => ⟨h.mapRev m hm, h.mapFwd m hm, h.dataOf m hm, h.dpsNodup m hm⟩)
    have hempty : (edgesOf 0 f).isEmpty = false := by rw [edgesOf_isEmpty]; exact hnil
    have hroots' : List.map (fun x => x.2) (List.filter (fun x => decide (x.1 = 0)) (edgesOf 0 f)) = rootIdxs f := hroots
    have hb' : buildSF dt { edges := edgesOf 0 f, nodeIdx := ni, nodeIdxRev := nir, data := data, last := last }
        ((edgesOf 0 f).length + 1) (rootIdxs f) = some (raw dt f) := hb
    have hupd := updAll_raw dt f h.cache
    have hroot : rootR = recompRoot dt f := h.rootOK hnil
    rw [normRoot_of_not_nil dt _ hnil]
    simp only [fromDict, toDict, hempty, hroots', hb', hupd, Bool.false_eq_true, ↓reduceIte,
      Option.bind_eq_bind, Option.bind_some, Option.pure_def, ← hroot]
    rw [if_neg]
    simp only [Bool.not_eq_true', Bool.not_eq_false]
    rw [List.all_eq_true]
    intro e he
    rcases h.dataKeys e he with ho | ⟨m, hm, hname⟩
    · simp [ho]
    · have := h.mapFwd m hm
      simp only at this
      rw [← hname, this]
      simp only [Bool.or_eq_true]
      right
      exact edgesOf_any_of_mem f 0 m hm

/-- the restored store answers every query the densities make exactly like the original -/
theorem pOneC_normRoot (dt : Data) (α : Rat) (s : Store) : pOneC dt α (normRoot dt s) = pOneC dt α s := by
  unfold normRoot
  by_cases h : s.forest.isNil = true
  · simp [h, pOneC, dataOneC, Store.outliers, Store.dataOf]
  · simp [h]

theorem pMargC_normRoot (dt : Data) (α : Rat) (s : Store) : pMargC dt α (normRoot dt s) = pMargC dt α s := by
  unfold normRoot
  by_cases h : s.forest.isNil = true
  · simp [h, pMargC, dataMargC, Store.outliers, Store.dataOf]
  · simp [h]

/-- `wfdB` decides `WFd` -/
theorem nodupB_iff {α} [BEq α] [LawfulBEq α] : ∀ l : List α, nodupB l = true ↔ l.Nodup := by
  intro l
  induction l with
  | nil => simp [nodupB]
  | cons a l ih => simp [nodupB, ih]

theorem wfdB_iff (dt : Data) (s : Store) : wfdB dt s = true ↔ WFd dt s := by
  constructor
  · intro h
    simp only [wfdB, Bool.and_eq_true, List.all_eq_true, nodupB_iff, bne_iff_ne, beq_iff_eq,
      Bool.or_eq_true, List.any_eq_true, vecsEq] at h
    obtain ⟨⟨⟨⟨⟨⟨⟨⟨h1, h2⟩, h3⟩, h4⟩, h5⟩, h6⟩, h7⟩, h8⟩, h9⟩ := h
    refine ⟨h1, h2, h3, h4, h5, h6, ?_, h8, ?_⟩
    · intro e he
      rcases h7 e he with ho | ⟨m, hm, hn⟩
      · exact Or.inl ho
      · exact Or.inr ⟨m, hm, hn⟩
    · intro hn
      rcases h9 with h9 | h9
      · rw [hn] at h9; cases h9
      · exact h9
  · intro h
    simp only [wfdB, Bool.and_eq_true, List.all_eq_true, nodupB_iff, bne_iff_ne, beq_iff_eq,
      Bool.or_eq_true, List.any_eq_true, vecsEq]
    refine ⟨⟨⟨⟨⟨⟨⟨⟨h.idxNodup, h.idxPos⟩, h.mapFwd⟩, h.mapRev⟩, h.dataOf⟩, h.dpsNodup⟩, ?_⟩, h.cache⟩, ?_⟩
    · intro e he
      rcases h.dataKeys e he with ho | ⟨m, hm, hn⟩
      · exact Or.inl ho
      · exact Or.inr ⟨m, hm, hn⟩
    · by_cases hn : s.forest.isNil = true
      · exact Or.inl hn
      · exact Or.inr (h.rootOK (by simpa using hn))

end PhyModel.Store
