import PhyModel.Proofs.GraphClosure
/-! `create_root_node` at graph level (`gCreateRootNode`: `add_node`, `add_edge(root, new)`, then
`remove_edge(root, child)`; `add_edge(new, child)` per child): a closed form of the result up to the
order of the edge list, when the call succeeds, and that it keeps the graph a rooted forest. -/
namespace PhyModel.Graph
open DG

/-- one round of the loop over the children -/
def reparent (new : Nat) (g : DG) (c : Nat) : Option DG := do
  let g' ← g.removeEdge 0 c
  g'.addEdge new c

theorem gCreateRootNode_eq (g : DG) (new : Nat) (kids : List Nat) :
    gCreateRootNode g new kids =
      (g.addNode new).bind fun g1 => (g1.addEdge 0 new).bind fun g2 => kids.foldlM (reparent new) g2 := rfl

theorem reparent_some {new c : Nat} {g g' : DG} (h : reparent new g c = some g') :
    (0, c) ∈ g.edges ∧ new ∈ g.nodes ∧ c ∈ g.nodes ∧ g'.nodes = g.nodes ∧
      g'.edges = g.edges.erase (0, c) ++ [(new, c)] := by
  unfold reparent removeEdge at h
  simp only [List.contains_iff_mem, Option.bind_eq_bind] at h
  by_cases he : (0, c) ∈ g.edges
  · rw [if_pos he, Option.bind_some] at h
    unfold addEdge at h
    split at h
    · next hl =>
      cases h
      simp only [Bool.and_eq_true, live_iff] at hl
      exact ⟨he, hl.1, hl.2, rfl, rfl⟩
    · cases h
  · rw [if_neg he] at h
    simp at h

theorem reparent_fold_spec (new : Nat) : ∀ (kids : List Nat) (g g' : DG), kids.foldlM (reparent new) g = some g' →
    g'.nodes = g.nodes ∧ (g'.edges ++ kids.map (fun c => (0, c))).Perm (g.edges ++ kids.map (fun c => (new, c))) ∧
      (kids ≠ [] → new ∈ g.nodes) ∧ ∀ c ∈ kids, c ∈ g.nodes
  | [], g, g', h => by
    simp only [List.foldlM_nil, Option.pure_def, Option.some.injEq] at h
    subst h
    simp
  | c :: cs, g, g', h => by
    simp only [List.foldlM_cons, Option.bind_eq_bind] at h
    cases hr : reparent new g c with
    | none => simp [hr] at h
    | some g1 =>
      rw [hr, Option.bind_some] at h
      obtain ⟨he, hnew, hc, hn1, he1⟩ := reparent_some hr
      obtain ⟨hn, hp, _, hk⟩ := reparent_fold_spec new cs g1 g' h
      refine ⟨hn.trans hn1, ?_, fun _ => hnew, ?_⟩
      · rw [he1] at hp
        simp only [List.map_cons]
        -- g'.edges ++ (0,c) :: K0 ~ (0,c) :: (g'.edges ++ K0) ~ (0,c) :: (erase ++ [(new,c)] ++ Knew) ~ g.edges ++ (new,c) :: Knew
        refine List.perm_middle.trans (((hp.cons (0, c))).trans ?_)
        have h1 : ((0, c) :: g.edges.erase (0, c)).Perm g.edges := (List.perm_cons_erase he).symm
        calc (0, c) :: (g.edges.erase (0, c) ++ [(new, c)] ++ cs.map fun c => (new, c))
            = ((0, c) :: g.edges.erase (0, c)) ++ ((new, c) :: cs.map fun c => (new, c)) := by simp
          _ |>.Perm (g.edges ++ ((new, c) :: cs.map fun c => (new, c))) := h1.append_right _
      · intro x hx
        rcases List.mem_cons.1 hx with rfl | hx
        · exact hc
        · exact hn1 ▸ hk x hx

/-- **closed form of `create_root_node`** (edge list up to order): the new index was free, the node list
grows by it, and the edge multiset loses root → child and gains root → new, new → child -/
theorem gCreateRootNode_spec {g g' : DG} {new : Nat} {kids : List Nat} (h : gCreateRootNode g new kids = some g') :
    new ∉ g.nodes ∧ g'.nodes = g.nodes ++ [new] ∧
      (g'.edges ++ kids.map (fun c => (0, c))).Perm (g.edges ++ (0, new) :: kids.map (fun c => (new, c))) ∧
      ∀ c ∈ kids, c ∈ g.nodes ∨ c = new := by
  rw [gCreateRootNode_eq] at h
  unfold addNode at h
  by_cases hl : g.live new = true
  · simp [hl] at h
  · simp only [hl, Bool.false_eq_true, if_false, Option.bind_some] at h
    unfold addEdge at h
    split at h
    · next hl2 =>
      simp only [Option.bind_some] at h
      obtain ⟨hn, hp, _, hk⟩ := reparent_fold_spec new kids _ g' h
      simp only [Bool.and_eq_true, live_iff, List.mem_append, List.mem_singleton] at hl2
      refine ⟨fun hm => hl (live_iff.2 hm), hn, ?_, fun c hc => ?_⟩
      · simpa using hp
      · simpa using hk c hc
    · simp at h

theorem reparent_fold_isSome (new : Nat) : ∀ (kids : List Nat) (g : DG), kids.Nodup → new ∈ g.nodes →
    (∀ c ∈ kids, c ∈ g.nodes ∧ (0, c) ∈ g.edges) → (kids.foldlM (reparent new) g).isSome = true
  | [], g, _, _, _ => by simp
  | c :: cs, g, hnd, hnew, hk => by
    obtain ⟨hc, he⟩ := hk c (List.mem_cons_self ..)
    have hr : reparent new g c = some { nodes := g.nodes, edges := g.edges.erase (0, c) ++ [(new, c)] } := by
      simp [reparent, removeEdge, addEdge, he, DG.live, hnew, hc]
    simp only [List.foldlM_cons, Option.bind_eq_bind, hr, Option.bind_some]
    refine reparent_fold_isSome new cs _ (List.nodup_cons.1 hnd).2 hnew fun x hx => ?_
    obtain ⟨hx1, hx2⟩ := hk x (List.mem_cons_of_mem _ hx)
    refine ⟨hx1, List.mem_append_left _ ((List.mem_erase_of_ne ?_).2 hx2)⟩
    rintro ⟨⟩
    exact (List.nodup_cons.1 hnd).1 hx

/-- `create_root_node` does not raise when the index handed out is free and the children are distinct
current top-level clones -/
theorem gCreateRootNode_isSome {g : DG} {new : Nat} {kids : List Nat} (hnew : new ∉ g.nodes) (h0 : 0 ∈ g.nodes)
    (hnd : kids.Nodup) (hk : ∀ c ∈ kids, c ∈ g.nodes ∧ (0, c) ∈ g.edges) :
    (gCreateRootNode g new kids).isSome = true := by
  rw [gCreateRootNode_eq]
  have h1 : g.addNode new = some { g with nodes := g.nodes ++ [new] } := by
    simp [addNode, DG.live, hnew]
  have h2 : ({ g with nodes := g.nodes ++ [new] } : DG).addEdge 0 new =
      some { nodes := g.nodes ++ [new], edges := g.edges ++ [(0, new)] } := by
    simp [addEdge, DG.live, h0]
  rw [h1, Option.bind_some, h2, Option.bind_some]
  exact reparent_fold_isSome new kids _ hnd (by simp) fun c hc =>
    ⟨List.mem_append_left _ (hk c hc).1, List.mem_append_left _ (hk c hc).2⟩

/-- **`create_root_node` keeps the graph a rooted forest** (the children are clones of the tree as it
was before the call: none of them is the new node) -/
theorem forest_createRootNode {g g' : DG} {new : Nat} {kids : List Nat} (hf : IsForest g)
    (hk : ∀ c ∈ kids, c ≠ new) (h : gCreateRootNode g new kids = some g') : IsForest g' := by
  obtain ⟨hnew, hn, hp, _⟩ := gCreateRootNode_spec h
  have h0 := hf.root_live
  have hnew0 : new ≠ 0 := fun e => hnew (e ▸ h0)
  -- membership in the new edge list
  have hmem : ∀ e, e ∈ g.edges ++ (0, new) :: kids.map (fun c => (new, c)) →
      e ∉ kids.map (fun c => (0, c)) → e ∈ g'.edges := by
    intro e he hne
    rcases List.mem_append.1 (hp.symm.subset he) with h' | h'
    · exact h'
    · exact absurd h' hne
  have h0new : (0, new) ∈ g'.edges := hmem _ (by simp) (by
    simp only [List.mem_map, Prod.mk.injEq, true_and, not_exists, not_and]
    rintro c hc rfl
    exact hk c hc rfl)
  have hnewc : ∀ c ∈ kids, (new, c) ∈ g'.edges := fun c hc => hmem _ (by simp [hc]) (by
    simp only [List.mem_map, Prod.mk.injEq, not_exists, not_and]
    intro x _ hx
    exact absurd hx.symm hnew0)
  refine IsForest.of_targets_perm ?_ ?_ ?_ ?_ ?_
  · rw [hn]
    exact List.nodup_append.2 ⟨hf.nodes_nodup, by simp, by
      rintro a ha b hb rfl
      exact hnew ((List.mem_singleton.1 hb) ▸ ha)⟩
  · rw [hn]; exact List.mem_append_left _ h0
  · intro e he
    rw [hn]
    have := hp.subset (List.mem_append_left _ he)
    simp only [List.mem_append, List.mem_cons, List.mem_map] at this ⊢
    rcases this with h' | rfl | ⟨c, _, rfl⟩
    · exact .inl (hf.edges_live e h').1
    · exact .inl h0
    · exact .inr (by simp)
  · -- targets: cancel the children on both sides
    have ht := hp.map (·.2)
    simp only [List.map_append, List.map_cons, List.map_map, Function.comp_def, List.map_id'] at ht
    have ht2 : (g'.targets ++ kids).Perm ((g.targets ++ [new]) ++ kids) := by
      refine ht.trans ?_
      simp only [List.append_assoc, List.singleton_append]
      exact List.Perm.refl _
    have ht3 := (List.perm_append_right_iff kids).1 ht2
    rw [hn, List.erase_append_left _ h0]
    exact ht3.trans (hf.targets_perm.append_right _)
  · -- reachability
    have key : ∀ v, Reach g 0 v → Reach g' 0 v := by
      intro v hv
      induction hv with
      | refl => exact .refl 0
      | @step b c _ he ih =>
        by_cases hkc : (b, c) ∈ kids.map (fun c => (0, c))
        · obtain ⟨x, hx, hxe⟩ := List.mem_map.1 hkc
          cases hxe
          exact ((Reach.single h0new).trans (Reach.single (hnewc c hx)))
        · exact .step ih (hmem _ (List.mem_append_left _ he) hkc)
    intro v hv
    rw [hn] at hv
    rcases List.mem_append.1 hv with hv | hv
    · exact key v (hf.reach v hv)
    · rw [List.mem_singleton.1 hv]; exact Reach.single h0new

end PhyModel.Graph
