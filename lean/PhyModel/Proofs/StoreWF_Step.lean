import PhyModel.Proofs.StoreWF_create
import PhyModel.Proofs.StoreWF_rmDp
import PhyModel.Proofs.StoreWF_getSub
import PhyModel.Proofs.StoreWF_addSub
import PhyModel.Proofs.StoreWF_relabel
import PhyModel.Proofs.StoreWF_dictRT
/-! C07: the invariant is preserved by every step of a history over several live handles, hence by
every legal run; density is preserved by the steps that never rename or remove clones. -/
namespace PhyModel.Store
open PhyModel PhyModel.Store PhyModel.Store.Store SF AL

theorem mem_of_get {sys : Sys} {h : Nat} {s : Store} (hs : sys[h]? = some s) : s ∈ sys :=
  List.mem_of_getElem? hs

theorem all_setH {P : Store → Prop} {sys : Sys} (hall : ∀ s ∈ sys, P s) (h : Nat) {r : Store} (hr : P r) :
    ∀ s ∈ setH sys h r, P s := by
  intro s hs
  rcases List.mem_or_eq_of_mem_set hs with h' | h'
  · exact hall s h'
  · exact h' ▸ hr

theorem all_append {P : Store → Prop} {sys : Sys} (hall : ∀ s ∈ sys, P s) {r : Store} (hr : P r) :
    ∀ s ∈ sys ++ [r], P s := by
  intro s hs
  rcases List.mem_append.1 hs with h' | h'
  · exact hall s h'
  · simp at h'; exact h' ▸ hr

/-- **one step preserves the invariant on every live tree** -/
theorem inv_step {dt : Data} {sys sys' : Sys} {op : Op} (hall : ∀ s ∈ sys, Inv0 s) (hleg : Legal sys op)
    (hstep : step dt sys op = some sys') : ∀ s ∈ sys', Inv0 s := by
  cases op with
  | create h ch d =>
    simp only [step, Option.bind_eq_bind, Option.pure_def, Option.bind_eq_some_iff, Option.some.injEq] at hstep
    obtain ⟨s, hs, r, hr, rfl⟩ := hstep
    have hI := hall s (mem_of_get hs)
    exact all_setH hall h (create_inv hr hI (hleg.2 s hs).1 hleg.1 (hleg.2 s hs).2).1
  | createAdd h ch dp =>
    simp only [step, Option.bind_eq_bind, Option.pure_def, Option.bind_eq_some_iff, Option.some.injEq] at hstep
    obtain ⟨s, hs, r, hr, r2, hr2, rfl⟩ := hstep
    have hI := hall s (mem_of_get hs)
    exact all_setH hall h (createAdd_inv hr hr2 hI (hleg s hs)).1
  | addDp h dp nd =>
    simp only [step, Option.bind_eq_bind, Option.pure_def, Option.bind_eq_some_iff, Option.some.injEq] at hstep
    obtain ⟨s, hs, r, hr, rfl⟩ := hstep
    exact all_setH hall h (addDp_inv hr (hall s (mem_of_get hs)))
  | rmDp h dp nd =>
    simp only [step, Option.bind_eq_bind, Option.pure_def, Option.bind_eq_some_iff, Option.some.injEq] at hstep
    obtain ⟨s, hs, r, hr, rfl⟩ := hstep
    exact all_setH hall h (rmDp_inv hr (hall s (mem_of_get hs)))
  | rmOut h dp =>
    simp only [step, Option.bind_eq_bind, Option.pure_def, Option.bind_eq_some_iff, Option.some.injEq] at hstep
    obtain ⟨s, hs, r, hr, rfl⟩ := hstep
    exact all_setH hall h (rmOut_inv hr (hall s (mem_of_get hs)))
  | getSub h rt =>
    simp only [step, Option.bind_eq_bind, Option.pure_def, Option.bind_eq_some_iff, Option.some.injEq] at hstep
    obtain ⟨s, hs, r, hr, rfl⟩ := hstep
    have hI := hall s (mem_of_get hs)
    refine all_append (all_setH hall h ?_) (getSubtree_inv hr hI)
    cases rt with
    | none => exact hI
    | some name =>
      obtain ⟨_, _, _, _, _, _, _, hsub, _⟩ := getSubtree_shape hr hI.1
      exact touch_inv hI hsub
  | rmSub h hsb =>
    simp only [step, Option.bind_eq_bind, Option.pure_def, Option.bind_eq_some_iff, Option.some.injEq] at hstep
    obtain ⟨s, hs, sb, hsb', r, hr, rfl⟩ := hstep
    have hI := hall s (mem_of_get hs)
    have hIb := hall sb (mem_of_get hsb')
    rw [touch_nodes_of_full hI.2, touch_nodes_of_full hIb.2] at hr
    rw [touch_nodes_of_full hIb.2]
    exact all_setH (all_setH hall hsb hIb) h (removeSubtree_inv hr hI (hleg s sb hs hsb'))
  | addSub h hsb par =>
    simp only [step, Option.bind_eq_bind, Option.pure_def, Option.bind_eq_some_iff, Option.some.injEq] at hstep
    obtain ⟨s, hs, sb, hsb', r, hr, rfl⟩ := hstep
    exact all_setH hall h (addSubtree_inv hr (hall s (mem_of_get hs)) (hall sb (mem_of_get hsb')).1
      (hleg s sb hs hsb'))
  | relabel h =>
    simp only [step, Option.bind_eq_bind, Option.pure_def, Option.bind_eq_some_iff, Option.some.injEq] at hstep
    obtain ⟨s, hs, rfl⟩ := hstep
    exact all_setH hall h (relabelNodes_inv (hall s (mem_of_get hs)).1).1
  | copy h =>
    simp only [step, Option.bind_eq_bind, Option.pure_def, Option.bind_eq_some_iff, Option.some.injEq] at hstep
    obtain ⟨s, hs, rfl⟩ := hstep
    exact all_append hall (hall s (mem_of_get hs))
  | dictRT h =>
    simp only [step, Option.bind_eq_bind, Option.pure_def, Option.bind_eq_some_iff, Option.some.injEq] at hstep
    obtain ⟨s, hs, r, hr, rfl⟩ := hstep
    exact all_setH hall h (fromDict_toDict_inv hr (hall s (mem_of_get hs))).1
  | update h =>
    simp only [step, Option.bind_eq_bind, Option.pure_def, Option.bind_eq_some_iff, Option.some.injEq] at hstep
    obtain ⟨s, hs, rfl⟩ := hstep
    have hI := hall s (mem_of_get hs)
    exact all_setH hall h ⟨(update_inv dt s).1 hI.1, (update_inv dt s).2.1 hI.2⟩
  | fresh =>
    simp only [step, Option.some.injEq] at hstep
    subst hstep
    exact all_append hall (inv_init dt)

/-- every edit of a history is legal in the state where it is applied -/
def LegalRun (dt : Data) : Sys → List Op → Prop
  | _, [] => True
  | sys, op :: ops => Legal sys op ∧ ∀ sys', step dt sys op = some sys' → LegalRun dt sys' ops

theorem inv_run {dt : Data} {ops : List Op} {sys sys' : Sys} (hall : ∀ s ∈ sys, Inv0 s)
    (hleg : LegalRun dt sys ops) (hrun : run dt sys ops = some sys') : ∀ s ∈ sys', Inv0 s := by
  induction ops generalizing sys with
  | nil => simp only [run, List.foldlM_nil, Option.pure_def, Option.some.injEq] at hrun; exact hrun ▸ hall
  | cons op ops ih =>
    simp only [run, List.foldlM_cons, Option.bind_eq_bind, Option.bind_eq_some_iff] at hrun
    obtain ⟨sys1, h1, h2⟩ := hrun
    exact ih (inv_step hall hleg.1 h1) (hleg.2 sys1 h1) h2

end PhyModel.Store
