import PhyModel.Proofs.Consensus
/-! Finset-level facts about the nesting (child) relation of a laminar family, used by the
list-level bridges `ConsBridge6-8`: uniqueness of the parent, disjointness of siblings, every
strict sub-member lies inside a child, every member lies inside a maximal member. -/
open Finset

namespace Consensus

/-- a non-empty member has at most one parent in a laminar family -/
theorem isChild_unique {M : Finset (Finset ℕ)} (hlam : Laminar M) {c p d : Finset ℕ}
    (hd : d.Nonempty) (hc : c ∈ M) (hp : p ∈ M) (h1 : isChild M c d) (h2 : isChild M p d) :
    p = c := by
  rcases hlam p hp c hc with h | h | h
  · exact h1.2.2 p hp h2.2.1 h
  · exact (h2.2.2 c hc h1.2.1 h).symm
  · exfalso
    obtain ⟨x, hx⟩ := hd
    exact Finset.disjoint_left.mp h (h2.2.1.subset hx) (h1.2.1.subset hx)

/-- two different children of the same node are disjoint: `set.remove` in `relabel` never meets
an element twice -/
theorem children_disjoint {M : Finset (Finset ℕ)} (hlam : Laminar M) {c d1 d2 : Finset ℕ}
    (h1 : isChild M c d1) (h2 : isChild M c d2) (hne : d1 ≠ d2) : Disjoint d1 d2 := by
  rcases hlam d1 h1.1 d2 h2.1 with h | h | h
  · exfalso
    have hss : d1 ⊂ d2 := Finset.ssubset_iff_subset_ne.mpr ⟨h, hne⟩
    have := h1.2.2 d2 h2.1 hss h2.2.1.subset
    exact h2.2.1.ne this
  · exfalso
    have hss : d2 ⊂ d1 := Finset.ssubset_iff_subset_ne.mpr ⟨h, hne.symm⟩
    have := h2.2.2 d1 h1.1 hss h1.2.1.subset
    exact h1.2.1.ne this
  · exact h

/-- every member strictly inside `c` lies inside a child of `c` -/
theorem exists_child_above (M : Finset (Finset ℕ)) {c e : Finset ℕ} (he : e ∈ M) (hec : e ⊂ c) :
    ∃ d, isChild M c d ∧ e ⊆ d := by
  set S := M.filter (fun d => e ⊆ d ∧ d ⊂ c) with hS
  have hne : S.Nonempty := ⟨e, by simp [hS, he, hec]⟩
  obtain ⟨d, hdS, hmax⟩ := Finset.exists_max_image S Finset.card hne
  simp only [hS, mem_filter] at hdS
  refine ⟨d, ⟨hdS.1, hdS.2.2, ?_⟩, hdS.2.1⟩
  intro e' he' hde' he'c
  by_contra hne'
  have hmem : e' ∈ S := by
    simp only [hS, mem_filter]
    exact ⟨he', hdS.2.1.trans hde'.subset, Finset.ssubset_iff_subset_ne.mpr ⟨he'c, hne'⟩⟩
  have := hmax e' hmem
  have := Finset.card_lt_card hde'
  omega

/-- every member lies inside a maximal member (a root of the consensus graph) -/
theorem exists_max_above (M : Finset (Finset ℕ)) {e : Finset ℕ} (he : e ∈ M) :
    ∃ d ∈ M, e ⊆ d ∧ ∀ e' ∈ M, ¬ d ⊂ e' := by
  set S := M.filter (fun d => e ⊆ d) with hS
  have hne : S.Nonempty := ⟨e, by simp [hS, he]⟩
  obtain ⟨d, hdS, hmax⟩ := Finset.exists_max_image S Finset.card hne
  simp only [hS, mem_filter] at hdS
  refine ⟨d, hdS.1, hdS.2, ?_⟩
  intro e' he' hde'
  have hmem : e' ∈ S := by
    simp only [hS, mem_filter]
    exact ⟨he', hdS.2.trans hde'.subset⟩
  have := hmax e' hmem
  have := Finset.card_lt_card hde'
  omega

/-- the number of members strictly inside a node drops when going to a member strictly inside
it: the depth of the consensus graph below `c` is at most that number (fuel of `buildNode`) -/
theorem card_strict_lt (M : Finset (Finset ℕ)) {c d : Finset ℕ} (hd : d ∈ M) (hdc : d ⊂ c) :
    (M.filter (fun e => e ⊂ d)).card < (M.filter (fun e => e ⊂ c)).card := by
  apply Finset.card_lt_card
  refine Finset.ssubset_iff_subset_ne.mpr ⟨?_, ?_⟩
  · intro e he
    simp only [mem_filter] at he ⊢
    exact ⟨he.1, he.2.trans hdc⟩
  · intro heq
    have : d ∈ M.filter (fun e => e ⊂ c) := by simp [hd, hdc]
    rw [← heq] at this
    simp only [mem_filter] at this
    exact this.2.ne rfl

/-- the union of the children of `c` is the union of all members strictly inside `c` -/
theorem mem_child_iff_mem_strict (M : Finset (Finset ℕ)) (c : Finset ℕ) (x : ℕ) :
    (∃ d, isChild M c d ∧ x ∈ d) ↔ x ∈ (M.filter (fun e => e ⊂ c)).biUnion id := by
  simp only [mem_biUnion, mem_filter, id]
  constructor
  · rintro ⟨d, hd, hx⟩; exact ⟨d, ⟨hd.1, hd.2.1⟩, hx⟩
  · rintro ⟨e, ⟨he, hec⟩, hx⟩
    obtain ⟨d, hd, hed⟩ := exists_child_above M he hec
    exact ⟨d, hd, hed hx⟩

end Consensus
