import PhyModel.Proofs.PropTable
/-! # C08 helpers 6: the sampler (mirror of `sample()`) draws each tree with the probability the
table (mirror of `log_p()`) reports — as equality of expectations of every test function. -/

namespace PhyModel
open Finset BigOperators Dist Proposal Orders Orders.Forest

namespace Proposal
/-- uniform number of children, uniform subset of that size, new clone above it -/
def newNodeD (p : T) (i : ℕ) : Dist T :=
  Dist.bind (Dist.uniform (List.range (p.f.roots.length + 1))) fun ch =>
    Dist.fmap (newT p i) (chooseK ch p.f.roots)
def existingD (p : T) (i : ℕ) : Dist T :=
  Dist.fmap (exT p i) (Dist.uniform (List.range p.f.roots.length))
def outOpt (c : Cfg) (p : T) (i : ℕ) : Dist T := if c.op ≠ 0 then [(outT p i, c.op)] else []
end Proposal

theorem sampler_bootstrap (dt : Data) (c : Cfg) (first : Bool) (p : T) (i : ℕ) (hk : c.kind = .bootstrap) :
    sampler dt c first p i
      = if first || p.f.roots.length = 0 then Dist.scale (1 - c.op) (newNodeD p i) ++ outOpt c p i
        else Dist.scale ((1 - c.op) / 2) (existingD p i) ++ Dist.scale ((1 - c.op) / 2) (newNodeD p i)
          ++ outOpt c p i := by
  unfold sampler
  simp only [hk]
  have : (if (c.op != 0) = true then [(T.mk' p.f (p.out ++ [i]), c.op)] else []) = outOpt c p i := by
    unfold outOpt outT
    by_cases h : c.op = 0 <;> simp [h]
  rw [this]
  rfl

theorem sampler_semi0 (dt : Data) (c : Cfg) (first : Bool) (p : T) (i : ℕ) (hk : c.kind = .semi)
    (hr : p.f.roots.length = 0) :
    sampler dt c first p i = Dist.categorical (wts dt c (outL c p i ++ [newT p i ([], [])])) := by
  unfold sampler
  simp only [hk, hr, if_true]
  congr 1
  unfold wts outL
  by_cases h : c.op = 0
  · simp [h]; exact ⟨rfl, rfl⟩
  · simp [h]; exact ⟨⟨rfl, rfl⟩, rfl, rfl⟩

theorem sampler_semi (dt : Data) (c : Cfg) (first : Bool) (p : T) (i : ℕ) (hk : c.kind = .semi)
    (hr : p.f.roots.length ≠ 0) :
    sampler dt c first p i
      = Dist.scale (1 / 2) (Dist.categorical (wts dt c (exL p i ++ outL c p i)))
        ++ Dist.scale (1 / 2) (newNodeD p i) := by
  unfold sampler
  simp only [hk, hr, if_false]
  congr 3
  by_cases h : c.op = 0 <;>
    simp [h, wts, exL, outL, outT, exT, Function.comp_def]

theorem E_newNodeD (p : T) (i : ℕ) (hkeys : DistinctKeys p.f.roots) (h : T → ℚ) :
    E (newNodeD p i) h
      = lsum (splits p.f.roots) (fun cr =>
          1 / ((p.f.roots.length : ℚ) + 1) / binom p.f.roots.length cr.1.length * h (newT p i cr)) := by
  have hb : E (newNodeD p i) h
      = E (Dist.bind (Dist.uniform (List.range (p.f.roots.length + 1))) fun ch => chooseK ch p.f.roots)
          (fun cr => h (newT p i cr)) := by
    unfold newNodeD
    rw [E_bind, E_bind]
    apply E_congr
    intro ap _
    rw [E_fmap]
  rw [hb]
  apply E_newNode (fun x => x ∈ p.f.roots) p.f.roots (fun x hx => hx)
  intro c c' r hp hc
  simp only [newT]
  rw [newNode_perm p.f.roots hkeys i p.out c c' r hp hc]

theorem E_existingD (p : T) (i : ℕ) (h : T → ℚ) :
    E (existingD p i) h
      = (1 / (p.f.roots.length : ℚ)) * lsum (List.range p.f.roots.length) (fun j => h (exT p i j)) := by
  unfold existingD
  rw [E_fmap, E_uniform, List.length_range]

theorem E_outOpt (c : Cfg) (p : T) (i : ℕ) (h : T → ℚ) :
    E (outOpt c p i) h = lsum (if c.op ≠ 0 then [(outT p i, c.op)] else []) (fun tq => tq.2 * h tq.1) := rfl

theorem sampler_eq_table_proof (dt : Data) (c : Cfg) (first : Bool) (p : T) (i : ℕ)
    (hfirst : first = true → p.f.numRoots = 0) (hkeys : DistinctKeys p.f.roots) (h : T → ℚ) :
    E (sampler dt c first p i) h = lsum (table dt c first p i) (fun tq => tq.2 * h tq.1) := by
  rw [numRoots_eq] at hfirst
  cases hk : c.kind with
  | bootstrap =>
    rw [sampler_bootstrap dt c first p i hk, table_bootstrap dt c first p i hk,
      lsum_append, lsum_append, lsum_map, lsum_map]
    by_cases hr : p.f.roots.length = 0
    · have hrs : p.f.roots = [] := List.length_eq_zero_iff.mp hr
      simp only [hr, decide_true, Bool.or_true, if_true, E_append, E_scale, E_outOpt,
        E_newNodeD p i hkeys]
      simp [hrs, lsum, splits, binom, fact]
    · have hf : first = false := by
        cases first with
        | false => rfl
        | true => exact absurd (hfirst rfl) hr
      simp only [hf, Bool.false_or, decide_eq_true_eq, hr, if_false, E_append, E_scale, E_outOpt,
        E_newNodeD p i hkeys, E_existingD]
      rw [← lsum_mul_left, ← lsum_mul_left, ← lsum_mul_left]
      congr 2
      · apply lsum_congr; intro j _; ring
      · apply lsum_congr; intro cr _; ring
  | semi =>
    by_cases hr : p.f.roots.length = 0
    · have hrs : p.f.roots = [] := List.length_eq_zero_iff.mp hr
      rw [sampler_semi0 dt c first p i hk hr, table_semi0 dt c first p i hk hr, ← E_eq_lsum,
        E_categorical_wts, E_categorical_wts]
      have hnew : newL p i = [newT p i ([], [])] := by simp [newL, hrs, splits]
      rw [hnew]
      simp only [lsum_append, lsum_cons, lsum_nil]
      rw [add_comm (lsum (outL c p i) _), add_comm (lsum (outL c p i) _)]
    · rw [sampler_semi dt c first p i hk hr, table_semi dt c first p i hk hr, lsum_append, E_append,
        ← E_eq_lsum, lsum_map, E_scale, E_scale, E_newNodeD p i hkeys, ← lsum_mul_left]
      congr 1
      apply lsum_congr; intro cr _; ring
  | full =>
    unfold sampler
    simp only [hk]
    rfl

end PhyModel
