import PhyModel.Proofs.StoreWF_Facts
/-! `Tree._relabel_grafted_subtree_nodes` (C07): under the loop invariant "every key of `_data` is at
most `firstLabel`" each chosen name is new, so the four maps are extended by appends. -/
namespace PhyModel.Store
open PhyModel PhyModel.Store PhyModel.Store.Store SF AL

theorem listMaxInt_ge (l : List Int) (m : Int) :
    m ≤ listMaxInt l m ∧ ∀ a ∈ l, a ≤ listMaxInt l m := by
  induction l generalizing m with
  | nil => simp [listMaxInt]
  | cons a l ih =>
    simp only [listMaxInt]
    have hx : m ≤ (if a > m then a else m) ∧ a ≤ (if a > m then a else m) := by split <;> omega
    generalize (if a > m then a else m) = x at hx ⊢
    obtain ⟨h1, h2⟩ := ih x
    refine ⟨by omega, fun b hb => ?_⟩
    rcases List.mem_cons.1 hb with rfl | hb
    · omega
    · exact h2 b hb

/-- the four maps after relabelling the grafted payloads `L.map (·.1)` with the names `L.map (·.2)` -/
def relabelOut (sub : Store) (L : List (NodeRec × Int)) (data : List (Int × List Nat))
    (ni : List (Int × Nat)) (nir ren : List (Nat × Int)) :
    List (Int × List Nat) × List (Int × Nat) × List (Nat × Int) × List (Nat × Int) :=
  (data ++ L.map (fun p => (p.2, sub.dataOf p.1.name)), ni ++ L.map (fun p => (p.2, p.1.idx)),
    nir ++ L.map (fun p => (p.1.idx, p.2)), ren ++ L.map (fun p => (p.1.idx, p.2)))

theorem relabelGrafted_spec (sub : Store) (rs : List NodeRec) (fl : Int) (data : List (Int × List Nat))
    (ni : List (Int × Nat)) (nir ren : List (Nat × Int))
    (hfl : -1 ≤ fl) (ha : ∀ k ∈ keys data, k ≤ fl) (hb : ∀ n ∈ rs, 0 ≤ n.name ∧ n.name ≤ fl)
    (hc : ∀ k ∈ keys ni, k ∈ keys data) (hd : ∀ n ∈ rs, n.idx ∉ keys nir)
    (hnd : (rs.map (·.idx)).Nodup) :
    ∃ L : List (NodeRec × Int), L.map (·.1) = rs ∧
      relabelGrafted sub rs fl data ni nir ren = relabelOut sub L data ni nir ren ∧
      (L.map (·.2)).Nodup ∧ ∀ nm ∈ L.map (·.2), nm ∉ keys data ∧ 0 ≤ nm := by
  induction rs generalizing fl data ni nir ren with
  | nil => exact ⟨[], rfl, by simp [relabelGrafted, relabelOut], by simp, by simp⟩
  | cons n rest ih =>
    simp only [List.map_cons, List.nodup_cons] at hnd
    obtain ⟨hb0, hb1⟩ := hb n (by simp)
    -- the chosen name and the next label
    obtain ⟨fl', nm, hstep, hfl', hnmk, hnm0, hnmfl⟩ :
        ∃ fl' nm, relabelGrafted sub (n :: rest) fl data ni nir ren =
            relabelGrafted sub rest fl' (alSet data nm (sub.dataOf n.name)) (alSet ni nm n.idx)
              (alSet nir n.idx nm) (ren ++ [(n.idx, nm)]) ∧
          fl ≤ fl' ∧ nm ∉ keys data ∧ 0 ≤ nm ∧ nm ≤ fl' := by
      cases hcl : alHas data n.name with
      | true =>
        refine ⟨fl + 1, fl + 1, by simp [relabelGrafted, hcl], by omega, fun hk => ?_, by omega, Int.le_refl _⟩
        have := ha _ hk; omega
      | false =>
        exact ⟨fl, n.name, by simp [relabelGrafted, hcl], Int.le_refl _, alHas_false_iff.1 hcl, hb0, hb1⟩
    have hnmni : nm ∉ keys ni := fun hk => hnmk (hc nm hk)
    have hnir : n.idx ∉ keys nir := hd n (by simp)
    rw [alSet_of_not_mem _ hnmk, alSet_of_not_mem _ hnmni, alSet_of_not_mem _ hnir] at hstep
    obtain ⟨L, hL1, hL2, hL3, hL4⟩ := ih fl' (data ++ [(nm, sub.dataOf n.name)]) (ni ++ [(nm, n.idx)])
      (nir ++ [(n.idx, nm)]) (ren ++ [(n.idx, nm)]) (by omega)
      (fun k hk => by
        simp only [keys, List.map_append, List.mem_append, List.map_cons, List.map_nil,
          List.mem_singleton] at hk
        rcases hk with hk | rfl
        · have := ha k hk; omega
        · exact hnmfl)
      (fun m hm => by have := hb m (by simp [hm]); omega)
      (fun k hk => by
        simp only [keys, List.map_append, List.mem_append, List.map_cons, List.map_nil,
          List.mem_singleton] at hk ⊢
        exact hk.imp (hc k) id)
      (fun m hm hk => by
        simp only [keys, List.map_append, List.mem_append, List.map_cons, List.map_nil,
          List.mem_singleton] at hk
        rcases hk with hk | hk
        · exact hd m (by simp [hm]) hk
        · exact hnd.1 (hk ▸ List.mem_map.2 ⟨m, hm, rfl⟩))
      hnd.2
    refine ⟨(n, nm) :: L, by simp [hL1], ?_, ?_, ?_⟩
    · rw [hstep, hL2]; simp [relabelOut]
    · simp only [List.map_cons, List.nodup_cons]
      refine ⟨fun hm => (hL4 nm hm).1 ?_, hL3⟩
      simp [keys]
    · intro k hk
      simp only [List.map_cons, List.mem_cons] at hk
      rcases hk with rfl | hk
      · exact ⟨hnmk, hnm0⟩
      · refine ⟨fun hkd => (hL4 k hk).1 ?_, (hL4 k hk).2⟩
        simp only [keys, List.map_append, List.mem_append]; exact Or.inl hkd

end PhyModel.Store
