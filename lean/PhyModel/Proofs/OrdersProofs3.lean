import PhyModel.Proofs.OrdersProofs2
import PhyModel.Model.OrdersSampler
import PhyModel.Proofs.LikProofs

namespace PhyModel
open Dist

theorem E_eq_lsum {α} (d : Dist α) (h : α → ℚ) : E d h = lsum d (fun ap => ap.2 * h ap.1) := rfl

theorem E_pure {α} (a : α) (h : α → ℚ) : E (Dist.pure a) h = h a := by
  simp [E, Dist.pure]

theorem E_bind {α β} (d : Dist α) (k : α → Dist β) (h : β → ℚ) :
    E (Dist.bind d k) h = E d (fun a => E (k a) h) := by
  rw [E_eq_lsum, E_eq_lsum]
  unfold Dist.bind
  rw [lsum_flatMap]
  apply lsum_congr
  intro ap _
  rw [lsum_map, E_eq_lsum, ← lsum_mul_left]
  apply lsum_congr
  intro bq _
  ring

theorem E_uniform {α} (l : List α) (h : α → ℚ) :
    E (uniform l) h = (1 / (l.length : ℚ)) * lsum l h := by
  rw [E_eq_lsum]
  unfold uniform
  rw [lsum_map, lsum_mul_left]

theorem E_congr {α} (d : Dist α) {h h' : α → ℚ} (hh : ∀ ap ∈ d, h ap.1 = h' ap.1) : E d h = E d h' := by
  rw [E_eq_lsum, E_eq_lsum]
  apply lsum_congr
  intro ap hap
  rw [hh ap hap]

namespace Orders

theorem countF_pos : ∀ f : Forest, 0 < countF f := by
  intro f
  induction f with
  | nil => simp [countF]
  | cons d k s ihk ihs =>
    simp only [countF]
    apply Nat.mul_pos ihk
    apply Nat.mul_pos (Nat.factorial_pos _)
    apply Nat.mul_pos ihs
    apply Nat.choose_pos
    omega

/-- every outcome of the sampler is one of the enumerated orders -/
theorem sampleF_support : ∀ (f : Forest) (ap : List ℕ × ℚ), ap ∈ sampleF f → ap.1 ∈ orders f := by
  intro f
  induction f with
  | nil => intro ap h; simp [sampleF, Dist.pure] at h; simp [orders, h]
  | cons d k s ihk ihs =>
    intro ap h
    simp only [sampleF, Dist.bind, uniform, List.mem_flatMap, List.mem_map] at h
    obtain ⟨a1, ha1, b1, ⟨a2, ⟨pd, hpd, rfl⟩, b2, ⟨a3, ha3, b3, ⟨o, ho, rfl⟩, rfl⟩, rfl⟩, rfl⟩ := h
    simp only [orders, List.mem_flatMap]
    exact ⟨a1.1, ihk a1 ha1, pd, hpd, a3.1, ihs a3 ha3, ho⟩

/-- **uniformity**: the recursive bridge-shuffle sampler is the uniform distribution on the
enumerated compatible orders -/
theorem sampleF_uniform : ∀ (f : Forest) (h : List ℕ → ℚ),
    E (sampleF f) h = (1 / (countF f : ℚ)) * lsum (orders f) h := by
  intro f
  induction f with
  | nil => intro h; simp [sampleF, E_pure, orders, countF, lsum]
  | cons d k s ihk ihs =>
    intro h
    simp only [sampleF, E_bind]
    rw [ihk]
    simp only [orders, lsum_flatMap]
    rw [← lsum_mul_left]
    -- compare termwise over ok ∈ orders k
    have hck : (countF k : ℚ) ≠ 0 := by exact_mod_cast (countF_pos k).ne'
    have hcs : (countF s : ℚ) ≠ 0 := by exact_mod_cast (countF_pos s).ne'
    have hfd : (d.length.factorial : ℚ) ≠ 0 := by exact_mod_cast Nat.factorial_ne_zero _
    have hch : ((Nat.choose (k.size + d.length + s.size) (k.size + d.length) : ℕ) : ℚ) ≠ 0 := by
      exact_mod_cast (Nat.choose_pos (by omega)).ne'
    rw [← lsum_mul_left]
    apply lsum_congr
    intro ok hok
    rw [E_uniform, length_perms, ← lsum_mul_left, ← lsum_mul_left, ← lsum_mul_left]
    apply lsum_congr
    intro pd hpd
    rw [ihs, ← lsum_mul_left, ← lsum_mul_left, ← lsum_mul_left, ← lsum_mul_left]
    apply lsum_congr
    intro os hos
    rw [E_uniform, length_inter, List.length_append, length_of_mem_orders k ok hok,
      length_of_mem_orders s os hos, length_of_mem_perms d pd hpd]
    simp only [countF]
    push_cast
    field_simp

theorem sampleOrder_uniform (f : Forest) (out : List ℕ) (h : List ℕ → ℚ) :
    E (sampleOrder f out) h = (1 / ((allOrders f out).length : ℚ)) * lsum (allOrders f out) h := by
  unfold sampleOrder allOrders
  rw [E_bind, sampleF_uniform]
  have hlen := length_allOrders f out
  unfold allOrders at hlen
  rw [hlen]
  simp only [lsum_flatMap]
  have hcf : (countF f : ℚ) ≠ 0 := by exact_mod_cast (countF_pos f).ne'
  have hfo : (out.length.factorial : ℚ) ≠ 0 := by exact_mod_cast Nat.factorial_ne_zero _
  have hch : ((Nat.choose (f.size + out.length) f.size : ℕ) : ℚ) ≠ 0 := by
    exact_mod_cast (Nat.choose_pos (by omega)).ne'
  rw [← lsum_mul_left, ← lsum_mul_left]
  apply lsum_congr
  intro o ho
  rw [E_bind, E_uniform, length_perms, ← lsum_mul_left, ← lsum_mul_left, ← lsum_mul_left]
  apply lsum_congr
  intro po hpo
  rw [E_uniform, length_inter, length_of_mem_orders f o ho, length_of_mem_perms out po hpo]
  push_cast
  field_simp

#print axioms sampleOrder_uniform
end Orders
end PhyModel
