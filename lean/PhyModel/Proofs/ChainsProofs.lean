import PhyModel.Model.Chains
/-! Helper lemmas for C18: the keyed collection is "last write wins", and every write for key `i`
carries the same value, so the completion order is immaterial. -/
namespace PhyModel.Chains

theorem lookup_insert {V : Type} (m : List (Nat × V)) (k : Nat) (v : V) (i : Nat) :
    (insert m k v).lookup i = if i = k then some v else m.lookup i := by
  induction m with
  | nil =>
    by_cases h : i = k
    · simp [insert, h]
    · have hb : (i == k) = false := by simpa using h
      simp [insert, List.lookup_cons, h, hb]
  | cons p t ih =>
    obtain ⟨k', v'⟩ := p
    unfold insert
    by_cases hk : k' = k
    · subst hk
      by_cases h : i = k'
      · simp [h]
      · have hb : (i == k') = false := by simpa using h
        simp [List.lookup_cons, h, hb]
    · rw [if_neg hk, List.lookup_cons, List.lookup_cons, ih]
      by_cases h2 : i = k'
      · subst h2
        simp [hk]
      · have hb : (i == k') = false := by simpa using h2
        simp [hb]

theorem lookup_foldl_insert {R : Type} (l : List (ChainResult R)) (m : List (Nat × ChainResult R)) (i : Nat)
    (val : Option (ChainResult R)) (hval : ∀ r ∈ l, r.chainNum = i → val = some r) :
    (l.foldl (fun m r => insert m r.chainNum r) m).lookup i =
      if ∃ r ∈ l, r.chainNum = i then val else m.lookup i := by
  induction l generalizing m with
  | nil => simp
  | cons r t ih =>
    simp only [List.foldl_cons]
    rw [ih _ (fun r' hr' => hval r' (List.mem_cons_of_mem _ hr'))]
    by_cases ht : ∃ r' ∈ t, r'.chainNum = i
    · have : ∃ r' ∈ r :: t, r'.chainNum = i := by
        obtain ⟨r', h1, h2⟩ := ht
        exact ⟨r', List.mem_cons_of_mem _ h1, h2⟩
      simp [ht]
    · rw [if_neg ht, lookup_insert]
      by_cases hr : i = r.chainNum
      · have : ∃ r' ∈ r :: t, r'.chainNum = i := ⟨r, List.mem_cons_self, hr.symm⟩
        rw [if_pos hr, if_pos this]
        exact (hval r List.mem_cons_self hr.symm).symm
      · have : ¬ ∃ r' ∈ r :: t, r'.chainNum = i := by
          rintro ⟨r', h1, h2⟩
          rcases List.mem_cons.mp h1 with e | e
          · subst e; exact hr h2.symm
          · exact ht ⟨r', e, h2⟩
        rw [if_neg hr, if_neg this]

theorem getElem?_submitFrom {G R : Type} (body : G → Nat → R) (n : Nat) (gs : List G) (j : Nat) :
    (submitFrom body n gs)[j]? = gs[j]?.map fun g => runChain body g (n + j) := by
  induction gs generalizing n j with
  | nil => simp [submitFrom]
  | cons g t ih =>
    cases j with
    | zero => simp [submitFrom]
    | succ j =>
      simp only [submitFrom, List.getElem?_cons_succ]
      rw [ih]
      congr 1
      funext g'
      congr 1
      omega

/-- every completed future with chain number `i` is *the* result of chain `i` -/
theorem completed_val {G R : Type} (body : G → Nat → R) (gs : List G) (ord : List Nat) (i : Nat) :
    ∀ r ∈ completed (submitFrom body 0 gs) ord, r.chainNum = i →
      (gs[i]?.map fun g => runChain body g i) = some r := by
  intro r hr hi
  unfold completed at hr
  obtain ⟨j, _, hj⟩ := List.mem_filterMap.mp hr
  rw [getElem?_submitFrom] at hj
  cases hg : gs[j]? with
  | none => simp [hg] at hj
  | some g =>
    simp only [hg, Option.map_some, Option.some.injEq, Nat.zero_add] at hj
    subst hj
    simp only [runChain] at hi
    subst hi
    simp [hg]

theorem exists_completed_iff {G R : Type} (body : G → Nat → R) (gs : List G) (ord : List Nat) (i : Nat) :
    (∃ r ∈ completed (submitFrom body 0 gs) ord, r.chainNum = i) ↔ (i ∈ ord ∧ i < gs.length) := by
  constructor
  · rintro ⟨r, hr, hi⟩
    unfold completed at hr
    obtain ⟨j, hjo, hj⟩ := List.mem_filterMap.mp hr
    rw [getElem?_submitFrom] at hj
    cases hg : gs[j]? with
    | none => simp [hg] at hj
    | some g =>
      simp only [hg, Option.map_some, Option.some.injEq, Nat.zero_add] at hj
      subst hj
      simp only [runChain] at hi
      subst hi
      have : j < gs.length := by
        rcases Nat.lt_or_ge j gs.length with h | h
        · exact h
        · rw [List.getElem?_eq_none h] at hg; cases hg
      exact ⟨hjo, this⟩
  · rintro ⟨ho, hl⟩
    refine ⟨runChain body gs[i] i, ?_, rfl⟩
    unfold completed
    refine List.mem_filterMap.mpr ⟨i, ho, ?_⟩
    rw [getElem?_submitFrom]
    simp [List.getElem?_eq_getElem hl]

/-- the collected dict, read at key `i`, for *any* list of completed future indices -/
theorem lookup_collect {G R : Type} (body : G → Nat → R) (gs : List G) (ord : List Nat) (i : Nat) :
    (collect (completed (submitFrom body 0 gs) ord)).lookup i =
      if i ∈ ord then gs[i]?.map fun g => runChain body g i else none := by
  unfold collect
  rw [lookup_foldl_insert _ _ i _ (completed_val body gs ord i)]
  by_cases h : i ∈ ord
  · by_cases hl : i < gs.length
    · rw [if_pos ((exists_completed_iff body gs ord i).mpr ⟨h, hl⟩), if_pos h]
    · rw [if_neg (fun hh => hl ((exists_completed_iff body gs ord i).mp hh).2), if_pos h]
      have : gs[i]? = none := List.getElem?_eq_none (Nat.le_of_not_lt hl)
      simp [this]
  · rw [if_neg (fun hh => h ((exists_completed_iff body gs ord i).mp hh).1), if_neg h]
    simp

end PhyModel.Chains
