import PhyModel.Model.DictRT
/-! C15 helper lemmas, part 1: what `buildSF` reads off the edge list written by `toDict`.
For a payload forest whose graph indices are distinct and different from the parent index, the
children of index `c` in `edgesOf par g` are, in order, exactly the top-level indices of the child
forest of the node with index `c`. -/
namespace PhyModel.Store
open SF Store

/-- graph indices of the top-level clones -/
def rootIdxs (f : SF) : List Nat := f.rootRecs.map (·.idx)

/-- successor list of `c` read off an edge list (the expression used by `buildSF` / `fromDict`) -/
def ch (E : List (Nat × Nat)) (c : Nat) : List Nat := (E.filter (·.1 = c)).map (·.2)

/-- the child indices of the node with index `c`, found structurally -/
def kidsOf (c : Nat) : SF → List Nat
  | .nil => []
  | .cons n k s => (if n.idx = c then rootIdxs k else []) ++ kidsOf c k ++ kidsOf c s

theorem ch_append (A B : List (Nat × Nat)) (c : Nat) : ch (A ++ B) c = ch A c ++ ch B c := by
  simp [ch]

theorem ch_cons (a : Nat × Nat) (A : List (Nat × Nat)) (c : Nat) :
    ch (a :: A) c = (if a.1 = c then [a.2] else []) ++ ch A c := by
  by_cases h : a.1 = c <;> simp [ch, h]

theorem idxs_cons (n : NodeRec) (k s : SF) : (SF.cons n k s).idxs = n.idx :: (k.idxs ++ s.idxs) := by
  simp [SF.idxs, SF.recs]

theorem recs_cons (n : NodeRec) (k s : SF) : (SF.cons n k s).recs = n :: (k.recs ++ s.recs) := rfl

theorem rootIdxs_cons (n : NodeRec) (k s : SF) : rootIdxs (SF.cons n k s) = n.idx :: rootIdxs s := by
  simp [rootIdxs, SF.rootRecs]

theorem mem_idxs_of_mem_recs {f : SF} {n : NodeRec} (h : n ∈ f.recs) : n.idx ∈ f.idxs := by
  simp only [SF.idxs, List.mem_map]; exact ⟨n, h, rfl⟩

theorem kidsOf_nil_of_not_mem (c : Nat) : ∀ g : SF, c ∉ g.idxs → kidsOf c g = [] := by
  intro g
  induction g with
  | nil => intro _; rfl
  | cons n k s ihk ihs =>
    intro h
    rw [idxs_cons] at h
    simp only [List.mem_cons, List.mem_append, not_or] at h
    obtain ⟨h1, h2, h3⟩ := h
    have hne : ¬ n.idx = c := fun e => h1 e.symm
    simp [kidsOf, hne, ihk h2, ihs h3]

/-- the successor lists of the edge list written by `toDict` -/
theorem ch_edgesOf (c : Nat) : ∀ (g : SF) (par : Nat), par ∉ g.idxs → g.idxs.Nodup →
    ch (edgesOf par g) c = if c = par then rootIdxs g else kidsOf c g := by
  intro g
  induction g with
  | nil => intro par _ _; simp [edgesOf, ch, rootIdxs, SF.rootRecs, kidsOf]
  | cons n k s ihk ihs =>
    intro par hpar hnd
    rw [idxs_cons] at hpar hnd
    simp only [List.mem_cons, List.mem_append, not_or] at hpar
    obtain ⟨hp1, hp2, hp3⟩ := hpar
    have hnd' := List.nodup_cons.1 hnd
    obtain ⟨hn_notin, hnd2⟩ := hnd'
    have hndk : k.idxs.Nodup := (List.nodup_append.1 hnd2).1
    have hnds : s.idxs.Nodup := (List.nodup_append.1 hnd2).2.1
    have hnk : n.idx ∉ k.idxs := fun h => hn_notin (List.mem_append_left _ h)
    have hns : n.idx ∉ s.idxs := fun h => hn_notin (List.mem_append_right _ h)
    have e1 := ihk n.idx hnk hndk
    have e2 := ihs par hp3 hnds
    simp only [edgesOf]
    rw [ch_cons, ch_append, e1, e2]
    by_cases hc : c = par
    · subst hc
      have hcn : ¬ c = n.idx := hp1
      have : kidsOf c k = [] := kidsOf_nil_of_not_mem c k hp2
      simp [hcn, this, rootIdxs_cons]
    · have hpc : ¬ par = c := fun e => hc e.symm
      by_cases hcn : c = n.idx
      · subst hcn
        have : kidsOf n.idx k = [] := kidsOf_nil_of_not_mem _ k hnk
        simp [hpc, hc, kidsOf, this]
      · have hnc : ¬ n.idx = c := fun e => hcn e.symm
        simp [hpc, hc, hcn, hnc, kidsOf]

theorem edgesOf_length_c15 : ∀ (g : SF) (par : Nat), (edgesOf par g).length = g.numNodes := by
  intro g
  induction g with
  | nil => intro _; rfl
  | cons n k s ihk ihs =>
    intro par
    simp [edgesOf, SF.numNodes, ihk, ihs]
    omega

theorem edgesOf_any_of_mem : ∀ (g : SF) (par : Nat) (n : NodeRec), n ∈ g.recs →
    (edgesOf par g).any (fun e => decide (e.2 = n.idx)) = true := by
  intro g
  induction g with
  | nil => intro _ n h; simp [SF.recs] at h
  | cons m k s ihk ihs =>
    intro par n h
    rw [recs_cons] at h
    simp only [List.mem_cons, List.mem_append] at h
    simp only [edgesOf, List.any_cons, List.any_append, Bool.or_eq_true, decide_eq_true_eq]
    rcases h with h | h | h
    · left; rw [h]
    · right; left; exact ihk _ n h
    · right; right; exact ihs _ n h

theorem edgesOf_isEmpty (g : SF) (par : Nat) : (edgesOf par g).isEmpty = g.isNil := by
  cases g <;> simp [edgesOf, SF.isNil]

end PhyModel.Store
