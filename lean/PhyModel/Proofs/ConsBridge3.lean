import PhyModel.Proofs.ConsBridge2
/-! Bridge, part 3: the majority family of the executable model is laminar, its members are
non-empty, duplicate-free lists and pairwise different sets. -/
open Finset

namespace PhyModel.ConsBridge
open PhyModel.Consensus PhyModel.Orders

theorem sum_getD : ∀ ws : List ℚ, ∑ i ∈ range ws.length, ws.getD i 0 = ws.sum
  | [] => by simp
  | w :: ws => by
    rw [List.length_cons, Finset.sum_range_succ', List.sum_cons, add_comm]
    congr 1
    rw [← sum_getD ws]
    apply Finset.sum_congr rfl
    intro i _
    simp

theorem mem_majority {weights : Option (List ℚ)} {cls : List (List Clade)} {θ : ℚ} {c : Clade} :
    c ∈ majority weights cls θ ↔ c ∈ candidates cls ∧ θ < support weights cls c := by
  simp [majority]

theorem candidates_sub {cls : List (List Clade)} {c : Clade} (h : c ∈ candidates cls) :
    ∃ cl ∈ cls, c ∈ cl := by
  have := dedupC_sub _ _ h
  simpa using this

theorem cladeSet_sub {f : DF} {c : Clade} (h : c ∈ cladeSet f) : c ∈ cladesOf f := dedupC_sub _ _ h

/-- hypotheses on the weights: as many as trees, non-negative, total at most one -/
structure WeightsOK (weights : Option (List ℚ)) (T : ℕ) : Prop where
  len : ∀ ws, weights = some ws → ws.length = T
  nonneg : ∀ ws, weights = some ws → ∀ w ∈ ws, 0 ≤ w
  total : ∀ ws, weights = some ws → ws.sum ≤ 1

theorem wOf_nonneg {weights : Option (List ℚ)} {T : ℕ} (h : WeightsOK weights T) (i : ℕ) :
    0 ≤ wOf weights T i := by
  cases weights with
  | none => simp only [wOf]; exact div_nonneg zero_le_one (Nat.cast_nonneg _)
  | some ws =>
    simp only [wOf]
    by_cases hi : i < ws.length
    · rw [List.getD_eq_getElem?_getD, List.getElem?_eq_getElem hi]
      exact h.nonneg ws rfl _ (List.getElem_mem hi)
    · simp [List.getD_eq_getElem?_getD, List.getElem?_eq_none (Nat.le_of_not_lt hi)]

theorem wOf_total {weights : Option (List ℚ)} {T : ℕ} (h : WeightsOK weights T) :
    ∑ i ∈ range T, wOf weights T i ≤ 1 := by
  cases weights with
  | none =>
    simp only [wOf, Finset.sum_const, Finset.card_range, nsmul_eq_mul]
    by_cases hT : T = 0
    · simp [hT]
    · have : (T : ℚ) ≠ 0 := by exact_mod_cast hT
      rw [mul_one_div_cancel this]
  | some ws =>
    simp only [wOf]
    have hl := h.len ws rfl
    rw [← hl, sum_getD]
    exact h.total ws rfl

theorem majority_laminar_model (trees : List DF) (weights : Option (List ℚ)) (θ : ℚ)
    (hθ : 1 / 2 ≤ θ) (hnd : ∀ t ∈ trees, t.all.Nodup) (hw : WeightsOK weights trees.length) :
    _root_.Consensus.Laminar (F (majority weights (trees.map cladeSet) θ)) := by
  set cls := trees.map cladeSet with hcls
  have hT : cls.length = trees.length := by simp [hcls]
  have hw' : WeightsOK weights cls.length := hT ▸ hw
  apply _root_.Consensus.majority_laminar (range cls.length) (wOf weights cls.length) (clOf cls) θ hθ
    (fun i _ => wOf_nonneg hw' i) (wOf_total hw')
  · intro i hi
    have hi' : i < trees.length := hT ▸ Finset.mem_range.mp hi
    have : cls.getD i [] = cladeSet (trees[i]) := by
      simp [hcls, List.getD_eq_getElem?_getD, hi']
    simp only [clOf, this]
    exact cladeSet_laminar _ (hnd _ (List.getElem_mem hi'))
  · intro s hs
    obtain ⟨c, hc, rfl⟩ := mem_F.mp hs
    have := (mem_majority.mp hc).2
    rwa [support_eq weights cls c (fun ws h => by rw [hw'.len ws h])] at this

theorem majority_members (trees : List DF) (weights : Option (List ℚ)) (θ : ℚ)
    (hne : ∀ t ∈ trees, NonemptyClones t) :
    ∀ c ∈ majority weights (trees.map cladeSet) θ, c.toFinset.Nonempty ∧ c.Nodup := by
  intro c hc
  obtain ⟨cl, hcl, hcc⟩ := candidates_sub (mem_majority.mp hc).1
  obtain ⟨t, ht, rfl⟩ := List.mem_map.mp hcl
  have := cladeSet_sub hcc
  exact ⟨cladesOf_nonempty t (hne t ht) c this, cladesOf_nodup t c this⟩

theorem majority_pairwise (weights : Option (List ℚ)) (cls : List (List Clade)) (θ : ℚ) :
    (majority weights cls θ).Pairwise fun a b => a.toFinset ≠ b.toFinset :=
  List.Pairwise.filter _ (dedupC_pairwise _)

end PhyModel.ConsBridge
