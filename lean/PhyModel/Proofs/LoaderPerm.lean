import PhyModel.Proofs.LoaderBasics
/-! Row-order independence of the loader model (C17 `load_perm`). -/

namespace PhyModel.Loader
open List

theorem positive_perm {r₁ r₂ : List Row} (h : r₁ ~ r₂) : positive r₁ ~ positive r₂ :=
  h.filter _

theorem samplesOf_perm {r₁ r₂ : List Row} (h : r₁ ~ r₂) : samplesOf r₁ = samplesOf r₂ :=
  sortedDistinct_perm strLe_order (h.map _)

theorem mutsOf_perm {r₁ r₂ : List Row} (h : r₁ ~ r₂) : mutsOf r₁ = mutsOf r₂ :=
  sortedDistinct_perm strLe_order (h.map _)

theorem countMut_perm {r₁ r₂ : List Row} (h : r₁ ~ r₂) (m : String) : countMut r₁ m = countMut r₂ m :=
  (h.filter _).length_eq

theorem complete_perm {r₁ r₂ : List Row} (h : r₁ ~ r₂) (n : Nat) : complete r₁ n ~ complete r₂ n := by
  unfold complete
  have : (fun r : Row => decide (countMut r₁ r.mid = n)) = fun r => decide (countMut r₂ r.mid = n) := by
    funext r; rw [countMut_perm h]
  rw [this]
  exact h.filter _

theorem keptRows_perm {r₁ r₂ : List Row} (h : r₁ ~ r₂) : keptRows r₁ ~ keptRows r₂ := by
  unfold keptRows
  rw [samplesOf_perm (positive_perm h)]
  exact complete_perm (positive_perm h) _

theorem cell_perm {r₁ r₂ : List Row} (h : r₁ ~ r₂) (m s : String) : cell r₁ m s ~ cell r₂ m s :=
  h.filter _

theorem pick_perm (m s : String) {l₁ l₂ : List Row} (h : l₁ ~ l₂) : pick m s l₁ = pick m s l₂ := by
  match l₁, l₂, h with
  | [], l₂, h => rw [h.symm.eq_nil]
  | [a], l₂, h => rw [perm_singleton.mp h.symm]
  | a :: b :: t, [], h => exact absurd h.length_eq (by simp)
  | a :: b :: t, [c], h => exact absurd h.length_eq (by simp)
  | a :: b :: t, c :: d :: u, _ => rfl

theorem cellEntry_perm (tc er : Bool) {k₁ k₂ : List Row} (h : k₁ ~ k₂) (m s : String) :
    cellEntry tc er k₁ m s = cellEntry tc er k₂ m s := by
  unfold cellEntry
  rw [pick_perm m s (cell_perm h m s)]

theorem mutEntries_perm (tc er : Bool) {k₁ k₂ : List Row} (h : k₁ ~ k₂) (samples : List String)
    (m : String) : mutEntries tc er k₁ samples m = mutEntries tc er k₂ samples m := by
  unfold mutEntries
  have : cellEntry tc er k₁ m = cellEntry tc er k₂ m := by
    funext s; exact cellEntry_perm tc er h m s
  rw [this]

/-- the loaded data do not depend on the order of the rows -/
theorem load_perm' (tc er : Bool) {r₁ r₂ : List Row} (h : r₁ ~ r₂) : load tc er r₁ = load tc er r₂ := by
  unfold load
  have hk := keptRows_perm h
  rw [samplesOf_perm (positive_perm h), mutsOf_perm hk]
  have : mutEntries tc er (keptRows r₁) (samplesOf (positive r₂))
       = mutEntries tc er (keptRows r₂) (samplesOf (positive r₂)) := by
    funext m; exact mutEntries_perm tc er hk _ m
  rw [this]

end PhyModel.Loader
