import PhyModel.Proofs.StoreWF_Step
import PhyModel.Proofs.StoreWF_rmSubAl
import PhyModel.Proofs.StoreWF_addSubAl
import PhyModel.Proofs.StoreWF_dictRTAl
import PhyModel.Proofs.StoreWF_getSubAl
import PhyModel.Proofs.StoreWF_relabelAl
/-! C07 (+ C15): the full store invariant `Inv s := WF s ∧ Full s ∧ Aligned s` is preserved by every
legal step and along every legal run. -/
namespace PhyModel.Store
open PhyModel PhyModel.Store PhyModel.Store.Store SF AL

/-- **the store invariant**: the four views agree (`WF`), every clone has its `_data` entry (`Full`)
and each payload lists its data points in the order of its `_data` entry (`Aligned`) -/
def Inv (s : Store) : Prop := WF s ∧ Full s ∧ Aligned s

theorem Inv.inv0 {s : Store} (h : Inv s) : Inv0 s := ⟨h.1, h.2.1⟩

theorem aligned_init (dt : Data) : Aligned (Store.init dt) := by simp [Aligned, Store.init]

theorem inv_init' (dt : Data) : Inv (Store.init dt) := ⟨(inv_init dt).1, (inv_init dt).2, aligned_init dt⟩

theorem update_aligned (dt : Data) {s : Store} (ha : Aligned s) : Aligned (s.update dt) :=
  aligned_of_forest_data ha (updAll_cores dt s.forest) rfl

theorem aligned_step {dt : Data} {sys sys' : Sys} {op : Op} (hall : ∀ s ∈ sys, Inv s) (hleg : Legal sys op)
    (hstep : step dt sys op = some sys') : ∀ s ∈ sys', Aligned s := by
  have hal : ∀ s ∈ sys, Aligned s := fun s hs => (hall s hs).2.2
  cases op with
  | create h ch d =>
    simp only [step, Option.bind_eq_bind, Option.pure_def, Option.bind_eq_some_iff, Option.some.injEq] at hstep
    obtain ⟨s, hs, r, hr, rfl⟩ := hstep
    have hI := hall s (mem_of_get hs)
    exact all_setH hal h (create_aligned hr hI.1 (hleg.2 s hs).1 (hleg.2 s hs).2 hI.2.2)
  | createAdd h ch dp =>
    simp only [step, Option.bind_eq_bind, Option.pure_def, Option.bind_eq_some_iff, Option.some.injEq] at hstep
    obtain ⟨s, hs, r, hr, r2, hr2, rfl⟩ := hstep
    have hI := hall s (mem_of_get hs)
    exact all_setH hal h (createAdd_aligned hr hr2 hI.inv0 (hleg s hs) hI.2.2)
  | addDp h dp nd =>
    simp only [step, Option.bind_eq_bind, Option.pure_def, Option.bind_eq_some_iff, Option.some.injEq] at hstep
    obtain ⟨s, hs, r, hr, rfl⟩ := hstep
    have hI := hall s (mem_of_get hs)
    exact all_setH hal h (addDp_aligned hr hI.1 hI.2.2)
  | rmDp h dp nd =>
    simp only [step, Option.bind_eq_bind, Option.pure_def, Option.bind_eq_some_iff, Option.some.injEq] at hstep
    obtain ⟨s, hs, r, hr, rfl⟩ := hstep
    have hI := hall s (mem_of_get hs)
    exact all_setH hal h (rmDp_aligned hr hI.1 hI.2.2)
  | rmOut h dp =>
    simp only [step, Option.bind_eq_bind, Option.pure_def, Option.bind_eq_some_iff, Option.some.injEq] at hstep
    obtain ⟨s, hs, r, hr, rfl⟩ := hstep
    have hI := hall s (mem_of_get hs)
    exact all_setH hal h (rmOut_aligned hr hI.1 hI.2.2)
  | getSub h rt =>
    simp only [step, Option.bind_eq_bind, Option.pure_def, Option.bind_eq_some_iff, Option.some.injEq] at hstep
    obtain ⟨s, hs, r, hr, rfl⟩ := hstep
    have hI := hall s (mem_of_get hs)
    refine all_append (all_setH hal h ?_) (getSubtree_aligned hr hI.1 hI.2.2)
    cases rt with
    | none => exact hI.2.2
    | some name =>
      obtain ⟨_, _, _, _, _, _, _, hsub, _⟩ := getSubtree_shape hr hI.1
      have : s.touch r.nodes = s := touch_of_full fun nm hnm => by
        obtain ⟨n, hn, rfl⟩ := mem_names.1 (hsub nm hnm); exact hI.2.1 n hn
      simp only [Option.isSome_some, if_true, this]; exact hI.2.2
  | rmSub h hsb =>
    simp only [step, Option.bind_eq_bind, Option.pure_def, Option.bind_eq_some_iff, Option.some.injEq] at hstep
    obtain ⟨s, hs, sb, hsb', r, hr, rfl⟩ := hstep
    have hI := hall s (mem_of_get hs)
    have hIb := hall sb (mem_of_get hsb')
    rw [touch_nodes_of_full hI.2.1, touch_nodes_of_full hIb.2.1] at hr
    rw [touch_nodes_of_full hIb.2.1]
    exact all_setH (all_setH hal hsb hIb.2.2) h
      (removeSubtree_aligned hr hI.inv0 (hleg s sb hs hsb') hI.2.2)
  | addSub h hsb par =>
    simp only [step, Option.bind_eq_bind, Option.pure_def, Option.bind_eq_some_iff, Option.some.injEq] at hstep
    obtain ⟨s, hs, sb, hsb', r, hr, rfl⟩ := hstep
    have hI := hall s (mem_of_get hs)
    have hIb := hall sb (mem_of_get hsb')
    exact all_setH hal h (addSubtree_aligned hr hI.inv0 hIb.1 hI.2.2 hIb.2.2)
  | relabel h =>
    simp only [step, Option.bind_eq_bind, Option.pure_def, Option.bind_eq_some_iff, Option.some.injEq] at hstep
    obtain ⟨s, hs, rfl⟩ := hstep
    have hI := hall s (mem_of_get hs)
    exact all_setH hal h (relabelNodes_aligned hI.1 hI.2.2)
  | copy h =>
    simp only [step, Option.bind_eq_bind, Option.pure_def, Option.bind_eq_some_iff, Option.some.injEq] at hstep
    obtain ⟨s, hs, rfl⟩ := hstep
    exact all_append hal (hal s (mem_of_get hs))
  | dictRT h =>
    simp only [step, Option.bind_eq_bind, Option.pure_def, Option.bind_eq_some_iff, Option.some.injEq] at hstep
    obtain ⟨s, hs, r, hr, rfl⟩ := hstep
    exact all_setH hal h (fromDict_toDict_aligned hr (hall s (mem_of_get hs)).inv0)
  | update h =>
    simp only [step, Option.bind_eq_bind, Option.pure_def, Option.bind_eq_some_iff, Option.some.injEq] at hstep
    obtain ⟨s, hs, rfl⟩ := hstep
    exact all_setH hal h (update_aligned dt (hal s (mem_of_get hs)))
  | fresh =>
    simp only [step, Option.some.injEq] at hstep
    subst hstep
    exact all_append hal (aligned_init dt)

/-- **one legal step preserves the invariant on every live tree** -/
theorem inv_step {dt : Data} {sys sys' : Sys} {op : Op} (hall : ∀ s ∈ sys, Inv s) (hleg : Legal sys op)
    (hstep : step dt sys op = some sys') : ∀ s ∈ sys', Inv s := fun s hs =>
  have h0 := inv0_step (fun s hs => (hall s hs).inv0) hleg hstep s hs
  ⟨h0.1, h0.2, aligned_step hall hleg hstep s hs⟩

theorem inv_run {dt : Data} {ops : List Op} {sys sys' : Sys} (hall : ∀ s ∈ sys, Inv s)
    (hleg : LegalRun dt sys ops) (hrun : run dt sys ops = some sys') : ∀ s ∈ sys', Inv s := by
  induction ops generalizing sys with
  | nil => simp only [run, List.foldlM_nil, Option.pure_def, Option.some.injEq] at hrun; exact hrun ▸ hall
  | cons op ops ih =>
    simp only [run, List.foldlM_cons, Option.bind_eq_bind, Option.bind_eq_some_iff] at hrun
    obtain ⟨sys1, h1, h2⟩ := hrun
    exact ih (inv_step hall hleg.1 h1) (hleg.2 sys1 h1) h2

end PhyModel.Store
