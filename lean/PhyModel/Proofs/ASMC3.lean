import PhyModel.Proofs.ASMC2

open Finset BigOperators

namespace ASMC

variable {X : Type} [Fintype X] [DecidableEq X] {m : ℕ}

/-- hypotheses on the abstract SMC specification -/
structure Valid (sp : Spec (m := m) X) : Prop where
  g0 : ∀ x, sp.g 0 x = if x = sp.x0 then 1 else 0
  gnn : ∀ t x, 0 ≤ sp.g t x
  qnn : ∀ t x x', 0 ≤ sp.q t x x'
  qsum : ∀ t x, 0 < sp.g t x → ∑ x', sp.q t x x' = 1
  qparent : ∀ t x x', 0 < sp.q t x x' → sp.parent x' = x
  qsupp : ∀ t x x', 0 < sp.g t x → 0 < sp.q t x x' → 0 < sp.g (t+1) x'
  gsupp : ∀ t x', 0 < sp.g (t+1) x' → 0 < sp.g t (sp.parent x') ∧ 0 < sp.q t (sp.parent x') x'
  rssymm : ∀ t (w : Fin (m+1) → ℚ) (σ : Equiv.Perm (Fin (m+1))), sp.rs t (w ∘ σ) = sp.rs t w

/-- the same hypotheses, required only of the steps `t < T` that a sweep of `T` steps performs (the
unbounded `Valid` cannot hold for a branching system on a finite state type: it asks for a proposal
out of every supported state of every level, for ever) -/
structure ValidTo (sp : Spec (m := m) X) (T : ℕ) : Prop where
  g0 : ∀ x, sp.g 0 x = if x = sp.x0 then 1 else 0
  gnn : ∀ t x, 0 ≤ sp.g t x
  qnn : ∀ t x x', 0 ≤ sp.q t x x'
  qsum : ∀ t x, t < T → 0 < sp.g t x → ∑ x', sp.q t x x' = 1
  qparent : ∀ t x x', t < T → 0 < sp.q t x x' → sp.parent x' = x
  qsupp : ∀ t x x', t < T → 0 < sp.g t x → 0 < sp.q t x x' → 0 < sp.g (t+1) x'
  gsupp : ∀ t x', t < T → 0 < sp.g (t+1) x' → 0 < sp.g t (sp.parent x') ∧ 0 < sp.q t (sp.parent x') x'
  rssymm : ∀ t (w : Fin (m+1) → ℚ) (σ : Equiv.Perm (Fin (m+1))), sp.rs t (w ∘ σ) = sp.rs t w

theorem Valid.to {sp : Spec (m := m) X} (hv : Valid sp) (T : ℕ) : ValidTo sp T :=
  ⟨hv.g0, hv.gnn, hv.qnn, fun t x _ => hv.qsum t x, fun t x x' _ => hv.qparent t x x',
    fun t x x' _ => hv.qsupp t x x', fun t x' _ => hv.gsupp t x', hv.rssymm⟩

variable (sp : Spec (m := m) X) (u : ℚ)

def S0 : Sys X m := fun _ => (sp.x0, 1)

def stepC (t : ℕ) (x' : X) (S : Sys X m) (f : Sys X m → ℚ) : ℚ :=
  if sp.rs t (wts S) then resC u S (fun S1 => propC sp t x' S1 f) else propC sp t x' S f

/-- law of the particle system at time t given that the retained particle is x (as a functional) -/
def C : ℕ → X → (Sys X m → ℚ) → ℚ
  | 0, _, f => f (S0 sp)
  | t+1, x, f => C t (sp.parent x) (fun S => stepC sp u t x S f)

/-- every particle has positive weight and sits in the support of the level-t target -/
def GoodW (t : ℕ) (S : Sys X m) : Prop := ∀ i, 0 < (S i).2 ∧ 0 < sp.g t (S i).1

def Good (t : ℕ) (x : X) (S : Sys X m) : Prop := (S 0).1 = x ∧ GoodW sp t S

variable {sp} {u}

theorem tot_pos {t : ℕ} {S : Sys X m} (h : GoodW sp t S) : 0 < tot S := by
  unfold tot
  apply Finset.sum_pos
  · intro i _; exact (h i).1
  · exact ⟨0, mem_univ _⟩

theorem wbar_sum {t : ℕ} {S : Sys X m} (h : GoodW sp t S) : ∑ i, wbar S i = 1 := by
  unfold wbar
  rw [← Finset.sum_div]
  exact div_self (ne_of_gt (tot_pos h))

theorem incr_pos {T : ℕ} (hv : ValidTo sp T) {t : ℕ} (ht : t < T) {x x' : X} (hg : 0 < sp.g t x)
    (hq : 0 < sp.q t x x') : 0 < incr sp t x x' := by
  unfold incr
  exact div_pos (hv.qsupp t x x' ht hg hq) (mul_pos hg hq)

/-- linearity of the building blocks -/
theorem propC_lin (t : ℕ) (x' : X) (S : Sys X m) : Lin (propC sp t x' S) := by
  constructor
  · intro f g
    unfold propC
    rw [← Finset.sum_add_distrib]
    apply Finset.sum_congr rfl; intro y _; ring
  · intro c f
    unfold propC
    rw [Finset.mul_sum]
    apply Finset.sum_congr rfl; intro y _; ring

theorem resC_lin (S : Sys X m) : Lin (resC u S) := by
  constructor
  · intro f g
    unfold resC
    rw [← Finset.sum_add_distrib]
    apply Finset.sum_congr rfl; intro y _; ring
  · intro c f
    unfold resC
    rw [Finset.mul_sum]
    apply Finset.sum_congr rfl; intro y _; ring

theorem stepC_lin (t : ℕ) (x' : X) (S : Sys X m) : Lin (stepC sp u t x' S) := by
  unfold stepC
  split
  · constructor
    · intro f g
      have : (fun S1 => propC sp t x' S1 (fun a => f a + g a))
          = fun S1 => propC sp t x' S1 f + propC sp t x' S1 g := by
        funext S1; exact (propC_lin t x' S1).add f g
      rw [this]; exact (resC_lin S).add _ _
    · intro c f
      have : (fun S1 => propC sp t x' S1 (fun a => c * f a))
          = fun S1 => c * propC sp t x' S1 f := by
        funext S1; exact (propC_lin t x' S1).smul c f
      rw [this]; exact (resC_lin S).smul _ _
  · exact propC_lin t x' S

theorem C_lin : ∀ (t : ℕ) (x : X), Lin (C sp u t x) := by
  intro t
  induction t with
  | zero => intro x; constructor <;> intros <;> rfl
  | succ t ih =>
    intro x
    constructor
    · intro f g
      simp only [C]
      have : (fun S => stepC sp u t x S (fun a => f a + g a))
          = fun S => stepC sp u t x S f + stepC sp u t x S g := by
        funext S; exact (stepC_lin t x S).add f g
      rw [this]; exact (ih _).add _ _
    · intro c f
      simp only [C]
      have : (fun S => stepC sp u t x S (fun a => c * f a))
          = fun S => c * stepC sp u t x S f := by
        funext S; exact (stepC_lin t x S).smul c f
      rw [this]; exact (ih _).smul _ _

/-- propagation lands in good systems (terms with a zero proposal probability vanish) -/
theorem propC_congr {T : ℕ} (hv : ValidTo sp T) {t : ℕ} (ht : t < T) {x' : X} {S : Sys X m}
    (hS : GoodW sp t S) (hx' : 0 < sp.g (t+1) x') (hpar : sp.parent x' = (S 0).1)
    {f f' : Sys X m → ℚ} (h : ∀ T, Good sp (t+1) x' T → f T = f' T) :
    propC sp t x' S f = propC sp t x' S f' := by
  unfold propC
  apply Finset.sum_congr rfl
  intro y _
  by_cases hz : ∀ i : Fin m, 0 < sp.q t (S i.succ).1 (y i)
  · congr 1
    apply h
    refine ⟨by simp [ext], ?_⟩
    intro i
    refine Fin.cases ?_ ?_ i
    · have hgs := hv.gsupp t x' ht hx'
      rw [hpar] at hgs
      simp only [ext, Fin.cons_zero]
      exact ⟨mul_pos (hS 0).1 (incr_pos hv ht hgs.1 hgs.2), hx'⟩
    · intro j
      simp only [ext, Fin.cons_succ]
      exact ⟨mul_pos (hS j.succ).1 (incr_pos hv ht (hS j.succ).2 (hz j)),
        hv.qsupp t _ _ ht (hS j.succ).2 (hz j)⟩
  · push Not at hz
    obtain ⟨i, hi⟩ := hz
    have h0 : sp.q t (S i.succ).1 (y i) = 0 := le_antisymm hi (hv.qnn _ _ _)
    have : ∏ i : Fin m, sp.q t (S i.succ).1 (y i) = 0 :=
      Finset.prod_eq_zero (mem_univ i) h0
    rw [this]; simp

theorem reset_good {t : ℕ} {S : Sys X m} (hu : 0 < u) (hS : GoodW sp t S)
    (b : Fin (m+1) → Fin (m+1)) : GoodW sp t (fun j => reset u (S (b j))) := by
  intro j
  exact ⟨hu, (hS (b j)).2⟩

theorem stepC_congr {T : ℕ} (hv : ValidTo sp T) (hu : 0 < u) {t : ℕ} (ht : t < T) {x' : X} {S : Sys X m}
    (hS : GoodW sp t S) (hx' : 0 < sp.g (t+1) x') (hpar : sp.parent x' = (S 0).1)
    {f f' : Sys X m → ℚ} (h : ∀ T, Good sp (t+1) x' T → f T = f' T) :
    stepC sp u t x' S f = stepC sp u t x' S f' := by
  unfold stepC
  split
  · unfold resC
    apply Finset.sum_congr rfl
    intro a _
    congr 1
    apply propC_congr hv ht (reset_good hu hS _) hx'
    · simp [reset, hpar]
    · exact h
  · exact propC_congr hv ht hS hx' hpar h

theorem C_congr {T : ℕ} (hv : ValidTo sp T) (hu : 0 < u) : ∀ (t : ℕ) (x : X), t ≤ T → 0 < sp.g t x →
    ∀ {f f' : Sys X m → ℚ}, (∀ S, Good sp t x S → f S = f' S) → C sp u t x f = C sp u t x f' := by
  intro t
  induction t with
  | zero =>
    intro x _ hx f f' h
    simp only [C]
    apply h
    have hx0 : x = sp.x0 := by
      by_contra hne
      have := hv.g0 x
      rw [if_neg hne] at this
      rw [this] at hx; exact lt_irrefl _ hx
    refine ⟨by simp [S0, hx0], ?_⟩
    intro i
    simp only [S0]
    refine ⟨one_pos, ?_⟩
    rw [hv.g0]; simp
  | succ t ih =>
    intro x ht hx f f' h
    simp only [C]
    have hgs := hv.gsupp t x ht hx
    apply ih _ (Nat.le_of_succ_le ht) hgs.1
    intro S hS
    exact stepC_congr hv hu ht hS.2 hx hS.1.symm h

#print axioms C_congr
end ASMC
