import PhyModel.Model.Moves
/-! # C04, random-subtree move: `Moves.subtreeMove` factors through the region choice. -/

namespace PhyModel.Moves

/-- the model the correspondence check compares with `ParticleGibbsSubtreeSampler.sample_tree` is
"choose the region, then `subtreeGiven`" -/
theorem subtreeMove_eq_via (r : SMC.Run) (x : T) : subtreeMove r x = subtreeVia r x := rfl

end PhyModel.Moves
