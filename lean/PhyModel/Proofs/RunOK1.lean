import PhyModel.Model.SMC
import Mathlib.Data.List.Basic
import Mathlib.Data.Rat.Defs
/-! # C19, run-level composition, part 1: support calculus for the finite `Dist` monad.

`AllD P d` says that every outcome *listed* by the finite distribution `d` satisfies `P` — also the
outcomes listed with probability 0, so the statement is about a superset of the support and no
positivity or normalisation hypothesis is ever needed.  One rule per combinator of `Model/Dist.lean`
and `Model/Proposal.lean`. -/

namespace PhyModel.RunOK
open PhyModel

/-- every listed outcome of `d` satisfies `P` -/
def AllD {α : Type} (P : α → Prop) (d : Dist α) : Prop := ∀ aq ∈ d, P aq.1

variable {α β : Type}

theorem AllD.mono {P Q : α → Prop} {d : Dist α} (h : AllD P d) (hpq : ∀ a, P a → Q a) : AllD Q d :=
  fun aq haq => hpq _ (h aq haq)

theorem allD_nil (P : α → Prop) : AllD P ([] : Dist α) := fun _ h => absurd h (by simp)

theorem allD_pure {P : α → Prop} {a : α} (h : P a) : AllD P (Dist.pure a) := by
  intro aq haq
  simp only [Dist.pure, List.mem_singleton] at haq
  subst haq
  exact h

theorem allD_bind {P : α → Prop} {Q : β → Prop} {d : Dist α} {k : α → Dist β} (hd : AllD P d)
    (hk : ∀ a, P a → AllD Q (k a)) : AllD Q (Dist.bind d k) := by
  intro bq hbq
  simp only [Dist.bind, List.mem_flatMap, List.mem_map] at hbq
  obtain ⟨ap, hap, bq', hbq', rfl⟩ := hbq
  exact hk ap.1 (hd ap hap) bq' hbq'

theorem allD_fmap {P : β → Prop} {g : α → β} {d : Dist α} (hd : AllD (fun a => P (g a)) d) :
    AllD P (Dist.fmap g d) := by
  intro bq hbq
  simp only [Dist.fmap, List.mem_map] at hbq
  obtain ⟨aq, haq, rfl⟩ := hbq
  exact hd aq haq

theorem allD_uniform {P : α → Prop} {l : List α} (h : ∀ a ∈ l, P a) : AllD P (Dist.uniform l) := by
  intro aq haq
  simp only [Dist.uniform, List.mem_map] at haq
  obtain ⟨a, ha, rfl⟩ := haq
  exact h a ha

theorem allD_categorical {P : α → Prop} {l : List (α × ℚ)} (h : ∀ aw ∈ l, P aw.1) :
    AllD P (Dist.categorical l) := by
  intro aq haq
  simp only [Dist.categorical, List.mem_map] at haq
  obtain ⟨aw, haw, rfl⟩ := haq
  exact h aw haw

theorem allD_scale {P : α → Prop} {c : ℚ} {d : Dist α} (h : AllD P d) : AllD P (Dist.scale c d) := by
  intro aq haq
  simp only [Dist.scale, List.mem_map] at haq
  obtain ⟨aw, haw, rfl⟩ := haq
  exact h aw haw

theorem allD_append {P : α → Prop} {d₁ d₂ : Dist α} (h₁ : AllD P d₁) (h₂ : AllD P d₂) :
    AllD P (d₁ ++ d₂) := by
  intro aq haq
  rcases List.mem_append.1 haq with h | h
  · exact h₁ aq h
  · exact h₂ aq h

theorem allD_addTo [BEq α] {P : α → Prop} {a : α} {q : ℚ} {l : List (α × ℚ)} (ha : P a) (hl : AllD P l) :
    AllD P (Dist.addTo a q l) := by
  induction l with
  | nil =>
    intro aq haq
    simp only [Dist.addTo, List.mem_singleton] at haq
    subst haq
    exact ha
  | cons bp l ih =>
    obtain ⟨b, p⟩ := bp
    have hb : P b := hl (b, p) (by simp)
    have hl' : AllD P l := fun x hx => hl x (List.mem_cons_of_mem _ hx)
    intro aq haq
    unfold Dist.addTo at haq
    split at haq
    · rcases List.mem_cons.1 haq with rfl | h
      · exact hb
      · exact hl' aq h
    · rcases List.mem_cons.1 haq with rfl | h
      · exact hb
      · exact ih hl' aq h

theorem allD_foldl_addTo [BEq α] {P : α → Prop} (d : Dist α) (hd : AllD P d) :
    ∀ acc : Dist α, AllD P acc → AllD P (List.foldl (fun (acc : Dist α) (aq : α × ℚ) => Dist.addTo aq.1 aq.2 acc) acc d) := by
  induction d with
  | nil => intro acc h; exact h
  | cons x d ih =>
    intro acc hacc
    simp only [List.foldl_cons]
    exact ih (fun y hy => hd y (List.mem_cons_of_mem _ hy)) _ (allD_addTo (hd x (by simp)) hacc)

/-- merging equal outcomes and dropping impossible ones lists no new outcome -/
theorem allD_norm [BEq α] {P : α → Prop} {d : Dist α} (hd : AllD P d) : AllD P (Dist.norm d) := by
  intro aq haq
  unfold Dist.norm at haq
  exact allD_foldl_addTo d hd [] (allD_nil P) aq (List.mem_of_mem_filter haq)

theorem allD_ite {P : α → Prop} {b : Prop} [Decidable b] {d₁ d₂ : Dist α} (h₁ : b → AllD P d₁)
    (h₂ : ¬ b → AllD P d₂) : AllD P (if b then d₁ else d₂) := by
  split
  · exact h₁ ‹_›
  · exact h₂ ‹_›

end PhyModel.RunOK
