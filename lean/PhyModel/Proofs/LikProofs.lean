import PhyModel.Model.Lik
import Mathlib.Algebra.BigOperators.Group.Finset.Basic
import Mathlib.Algebra.BigOperators.Ring.Finset
import Mathlib.Algebra.BigOperators.Intervals
import Mathlib.Algebra.BigOperators.Group.List.Basic
import Mathlib.Algebra.BigOperators.Ring.List
import Mathlib.Algebra.Order.Field.Rat
import Mathlib.Tactic.Ring
import Mathlib.Tactic.Linarith

open Finset BigOperators

namespace PhyModel

theorem sumTo_eq (n : ℕ) (f : ℕ → ℚ) : sumTo n f = ∑ i ∈ range n, f i := by
  unfold sumTo
  induction n with
  | zero => simp
  | succ n ih =>
    rw [List.range_succ, List.map_append, List.sum_append, ih, Finset.sum_range_succ]
    simp

theorem getQ_map_range (G : ℕ) (f : ℕ → ℚ) (k : ℕ) (hk : k < G) :
    getQ ((List.range G).map f) k = f k := by
  unfold getQ
  simp [List.getD, hk]

theorem getQ_conv (G : ℕ) (a b : Vec) (k : ℕ) (hk : k < G) :
    getQ (conv G a b) k = ∑ j ∈ range (k+1), getQ a j * getQ b (k - j) := by
  unfold conv; rw [getQ_map_range G _ k hk, sumTo_eq]

theorem getQ_prefixSum (G : ℕ) (a : Vec) (k : ℕ) (hk : k < G) :
    getQ (prefixSum G a) k = ∑ j ∈ range (k+1), getQ a j := by
  unfold prefixSum; rw [getQ_map_range G _ k hk, sumTo_eq]

theorem getQ_pmul (G : ℕ) (a b : Vec) (k : ℕ) (hk : k < G) :
    getQ (pmul G a b) k = getQ a k * getQ b k := by
  unfold pmul; rw [getQ_map_range G _ k hk]

theorem getQ_delta0 (G : ℕ) (k : ℕ) (hk : k < G) :
    getQ (delta0 G) k = if k = 0 then 1 else 0 := by
  unfold delta0; rw [getQ_map_range G _ k hk]

/-- list-sum helper -/
def lsum {α : Type} (L : List α) (F : α → ℚ) : ℚ := (L.map F).sum

theorem lsum_nil {α} (F : α → ℚ) : lsum [] F = 0 := by simp [lsum]
theorem lsum_cons {α} (a : α) (L : List α) (F : α → ℚ) : lsum (a :: L) F = F a + lsum L F := by
  simp [lsum]
theorem lsum_append {α} (L1 L2 : List α) (F : α → ℚ) :
    lsum (L1 ++ L2) F = lsum L1 F + lsum L2 F := by simp [lsum]
theorem lsum_map {α β} (g : α → β) (L : List α) (F : β → ℚ) :
    lsum (L.map g) F = lsum L (fun a => F (g a)) := by
  simp [lsum, List.map_map, Function.comp_def]
theorem lsum_congr {α} (L : List α) {F H : α → ℚ} (h : ∀ a ∈ L, F a = H a) :
    lsum L F = lsum L H := by
  unfold lsum
  congr 1
  exact List.map_congr_left h
theorem lsum_zero {α} (L : List α) : lsum L (fun _ => (0:ℚ)) = 0 := by
  induction L with
  | nil => simp [lsum]
  | cons a L ih => rw [lsum_cons, ih]; simp
theorem lsum_add {α} (L : List α) (F H : α → ℚ) :
    lsum L (fun a => F a + H a) = lsum L F + lsum L H := by
  induction L with
  | nil => simp [lsum]
  | cons a L ih => rw [lsum_cons, lsum_cons, lsum_cons, ih]; ring
theorem lsum_mul_left {α} (L : List α) (c : ℚ) (F : α → ℚ) :
    lsum L (fun a => c * F a) = c * lsum L F := by
  induction L with
  | nil => simp [lsum]
  | cons a L ih => rw [lsum_cons, lsum_cons, ih]; ring
theorem lsum_mul_right {α} (L : List α) (c : ℚ) (F : α → ℚ) :
    lsum L (fun a => F a * c) = lsum L F * c := by
  induction L with
  | nil => simp [lsum]
  | cons a L ih => rw [lsum_cons, lsum_cons, ih]; ring
theorem lsum_finset_comm {α} (L : List α) (s : Finset ℕ) (F : ℕ → α → ℚ) :
    lsum L (fun a => ∑ u ∈ s, F u a) = ∑ u ∈ s, lsum L (F u) := by
  induction L with
  | nil => simp [lsum]
  | cons a L ih =>
    rw [lsum_cons, ih, ← Finset.sum_add_distrib]
    apply Finset.sum_congr rfl
    intro u _; rw [lsum_cons]
theorem lsum_flatMap {α β} (L : List α) (g : α → List β) (F : β → ℚ) :
    lsum (L.flatMap g) F = lsum L (fun a => lsum (g a) F) := by
  induction L with
  | nil => simp [lsum]
  | cons a L ih => rw [List.flatMap_cons, lsum_append, ih, lsum_cons]
theorem lsum_range (n : ℕ) (F : ℕ → ℚ) : lsum (List.range n) F = ∑ i ∈ range n, F i := by
  have := sumTo_eq n F
  unfold sumTo at this
  exact this

theorem lsum_allAssign_succ (G n : ℕ) (F : List ℕ → ℚ) :
    lsum (allAssign G (n+1)) F = ∑ i ∈ range G, lsum (allAssign G n) (fun l => F (i :: l)) := by
  show lsum ((List.range G).flatMap fun i => (allAssign G n).map (i :: ·)) F = _
  rw [lsum_flatMap, lsum_range]
  apply Finset.sum_congr rfl
  intro i _
  rw [lsum_map]

theorem lsum_allAssign_add (G a b : ℕ) (F : List ℕ → ℚ) :
    lsum (allAssign G (a + b)) F
      = lsum (allAssign G a) (fun l1 => lsum (allAssign G b) (fun l2 => F (l1 ++ l2))) := by
  induction a generalizing F with
  | zero =>
    simp only [Nat.zero_add]
    show _ = lsum [[]] _
    rw [lsum_cons, lsum_nil]; simp
  | succ a ih =>
    have h : a + 1 + b = (a + b) + 1 := by omega
    rw [h, lsum_allAssign_succ, lsum_allAssign_succ]
    apply Finset.sum_congr rfl
    intro i _
    rw [ih]
    rfl

theorem length_of_mem_allAssign (G n : ℕ) (l : List ℕ) (h : l ∈ allAssign G n) : l.length = n := by
  induction n generalizing l with
  | zero => simp [allAssign] at h; simp [h]
  | succ n ih =>
    simp only [allAssign, List.mem_flatMap, List.mem_map, List.mem_range] at h
    obtain ⟨i, _, l', hl', rfl⟩ := h
    simp [ih l' hl']

/-- weight of an assignment of the kids whose top-level total is ≤ i -/
def below (k : Forest) (i : ℕ) (l : List ℕ) : ℚ :=
  match evalA k l with
  | some (tk, wk) => if tk ≤ i then wk else 0
  | none => 0

theorem below_eq_sum (k : Forest) (i : ℕ) (l : List ℕ) :
    below k i l = ∑ u ∈ range (i+1), contrib k u l := by
  unfold below contrib
  cases h : evalA k l with
  | none => simp
  | some tw =>
    obtain ⟨tk, wk⟩ := tw
    simp only
    by_cases hle : tk ≤ i
    · rw [if_pos hle]
      rw [Finset.sum_eq_single tk]
      · simp
      · intro u _ hu; rw [if_neg (Ne.symm hu)]
      · intro hn; exfalso; apply hn; simp; omega
    · rw [if_neg hle]
      symm
      apply Finset.sum_eq_zero
      intro u hu
      simp only [mem_range] at hu
      rw [if_neg]; omega

theorem contrib_cons (p : Vec) (k s : Forest) (t i : ℕ) (l1 l2 : List ℕ) (h1 : l1.length = k.size) :
    contrib (.cons p k s) t (i :: (l1 ++ l2))
      = if i ≤ t then getQ p i * below k i l1 * contrib s (t - i) l2 else 0 := by
  unfold contrib below
  simp only [evalA]
  have ht : (l1 ++ l2).take k.size = l1 := by rw [← h1]; simp
  have hd : (l1 ++ l2).drop k.size = l2 := by rw [← h1]; simp
  rw [ht, hd]
  cases hk : evalA k l1 with
  | none => simp
  | some tw1 =>
    obtain ⟨tk, wk⟩ := tw1
    cases hs : evalA s l2 with
    | none => simp
    | some tw2 =>
      obtain ⟨ts, ws⟩ := tw2
      simp only
      by_cases hle : tk ≤ i
      · simp only [if_pos hle]
        by_cases hit : i ≤ t
        · simp only [if_pos hit]
          by_cases hts : ts = t - i
          · subst hts
            have h' : i + (t - i) = t := by omega
            simp [h']
          · have : ¬ (i + ts = t) := by omega
            simp [this, hts]
        · simp only [if_neg hit]
          have : ¬ (i + ts = t) := by omega
          simp [this]
      · simp [if_neg hle]

theorem D_eq_spec (G : ℕ) (f : Forest) : ∀ t, t < G → getQ (D G f) t = specD G f t := by
  induction f with
  | nil =>
    intro t ht
    simp only [D]
    rw [getQ_delta0 G t ht]
    unfold specD
    simp only [Forest.size, allAssign, List.map_cons, List.map_nil, List.sum_cons, List.sum_nil,
      contrib, evalA]
    by_cases h : t = 0
    · simp [h]
    · have : ¬ (0 = t) := fun e => h e.symm
      simp [h, this]
  | cons p k s ihk ihs =>
    intro t ht
    simp only [D]
    rw [getQ_conv G _ _ t ht]
    -- right-hand side
    have hsize : (Forest.cons p k s).size = (k.size + s.size) + 1 := by
      simp [Forest.size]; omega
    have hspec : specD G (.cons p k s) t
        = ∑ i ∈ range G, lsum (allAssign G k.size) (fun l1 =>
            lsum (allAssign G s.size) (fun l2 => contrib (.cons p k s) t (i :: (l1 ++ l2)))) := by
      unfold specD
      rw [hsize]
      show lsum (allAssign G (k.size + s.size + 1)) (contrib (.cons p k s) t) = _
      rw [lsum_allAssign_succ]
      apply Finset.sum_congr rfl
      intro i _
      rw [lsum_allAssign_add]
    rw [hspec]
    -- evaluate inner sums
    have hinner : ∀ i ∈ range G,
        lsum (allAssign G k.size) (fun l1 =>
            lsum (allAssign G s.size) (fun l2 => contrib (.cons p k s) t (i :: (l1 ++ l2))))
        = if i ≤ t then getQ p i * (∑ u ∈ range (i+1), specD G k u) * specD G s (t - i) else 0 := by
      intro i _
      by_cases hit : i ≤ t
      · rw [if_pos hit]
        have e1 : lsum (allAssign G k.size) (fun l1 =>
            lsum (allAssign G s.size) (fun l2 => contrib (.cons p k s) t (i :: (l1 ++ l2))))
            = lsum (allAssign G k.size) (fun l1 => (getQ p i * below k i l1) * specD G s (t - i)) := by
          apply lsum_congr
          intro l1 hl1
          have hlen := length_of_mem_allAssign G k.size l1 hl1
          have : ∀ l2 ∈ allAssign G s.size, contrib (.cons p k s) t (i :: (l1 ++ l2))
              = (getQ p i * below k i l1) * contrib s (t - i) l2 := by
            intro l2 _
            rw [contrib_cons p k s t i l1 l2 hlen, if_pos hit]
          rw [lsum_congr _ this, lsum_mul_left]
          rfl
        rw [e1, lsum_mul_right]
        congr 1
        rw [lsum_mul_left]
        congr 1
        have : ∀ l1 ∈ allAssign G k.size, below k i l1 = ∑ u ∈ range (i+1), contrib k u l1 :=
          fun l1 _ => below_eq_sum k i l1
        rw [lsum_congr _ this, lsum_finset_comm]
        rfl
      · rw [if_neg hit]
        have : ∀ l1 ∈ allAssign G k.size,
            lsum (allAssign G s.size) (fun l2 => contrib (.cons p k s) t (i :: (l1 ++ l2))) = 0 := by
          intro l1 hl1
          have hlen := length_of_mem_allAssign G k.size l1 hl1
          have : ∀ l2 ∈ allAssign G s.size, contrib (.cons p k s) t (i :: (l1 ++ l2)) = 0 := by
            intro l2 _
            rw [contrib_cons p k s t i l1 l2 hlen, if_neg hit]
          rw [lsum_congr _ this, lsum_zero]
        rw [lsum_congr _ this, lsum_zero]
    rw [Finset.sum_congr rfl hinner]
    -- restrict range G to range (t+1)
    rw [← Finset.sum_filter]
    have hfilter : (range G).filter (fun i => i ≤ t) = range (t+1) := by
      ext i; simp only [mem_filter, mem_range]; omega
    rw [hfilter]
    apply Finset.sum_congr rfl
    intro j hj
    simp only [mem_range] at hj
    have hjG : j < G := by omega
    rw [getQ_pmul G _ _ j hjG, getQ_prefixSum G _ j hjG]
    rw [ihs (t - j) (by omega)]
    congr 2
    apply Finset.sum_congr rfl
    intro u hu
    simp only [mem_range] at hu
    exact ihk u (by omega)

#print axioms D_eq_spec
end PhyModel
