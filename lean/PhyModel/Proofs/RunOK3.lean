import PhyModel.Proofs.RunOK2
import PhyModel.Proofs.PG19
/-! # C19, run-level composition, part 3: the SMC sweeps keep every particle well formed.

For every outcome of every draw of `SMC.csmc` (conditional SMC: retained path in slot 0, adaptive
resampling, propagation by `Proposal.sampler`) and of `SMC.smc` (the unconditional sweep of the burn-in
sampler), every particle of the swarm after the data point at position `t` is a well-formed tree
holding exactly `σ.take (t+1)`; hence every tree listed by `SMC.pgStep` / `SMC.smcStep` for a complete
well-formed start tree is a complete well-formed tree on the same data. -/

namespace PhyModel.RunOK
open PhyModel Orders Orders.Forest Proposal PGSpec PG SMC

theorem take_succ_of_get {σ : List ℕ} {t i : ℕ} (h : σ[t]? = some i) : σ.take (t + 1) = σ.take t ++ [i] := by
  rw [List.take_add_one, h]; rfl

theorem not_mem_take {σ : List ℕ} (hnd : σ.Nodup) {t i : ℕ} (h : σ[t]? = some i) : i ∉ σ.take t := by
  have h1 := hnd.sublist (List.take_sublist (t + 1) σ)
  rw [take_succ_of_get h] at h1
  intro hi
  exact (List.disjoint_of_nodup_append h1) hi (by simp)

theorem sampleOrder_support (f : DF) (out : List ℕ) :
    AllD (fun σ => σ ∈ allOrders f out) (sampleOrder f out) := by
  unfold sampleOrder allOrders
  intro aq haq
  simp only [Dist.bind, Dist.uniform, List.mem_flatMap, List.mem_map] at haq
  obtain ⟨a1, ha1, b1, ⟨a2, ⟨po, hpo, rfl⟩, b2, ⟨o, ho, rfl⟩, rfl⟩, rfl⟩ := haq
  simp only [List.mem_flatMap]
  exact ⟨a1.1, sampleF_support f a1 ha1, po, hpo, ho⟩

/-- a state of level `t` along an order of distinct data points below the sentinel holds `σ.take t` -/
theorem level_holds {c : Cfg} {σ : List ℕ} (hnd : σ.Nodup) (hbig : ∀ i ∈ σ, i < Forest.big) {t : ℕ} {x : T}
    (hx : x ∈ level c σ t) : Holds c (σ.take t) x :=
  ⟨level_wft c σ hnd hbig hx, (level_inv c σ t x hx).perm⟩

section sweeps
variable (r : SMC.Run)

/-- all particles of a swarm hold `K` -/
def AllHold (K : List ℕ) (sw : Swarm) : Prop := ∀ pw ∈ sw, Holds r.c K pw.1

/-- a swarm of the conditional sampler: slot 0 exists -/
def SwOK (K : List ℕ) (sw : Swarm) : Prop := sw ≠ [] ∧ AllHold r K sw

theorem propose_holds (first last : Bool) {K : List ℕ} {p : T} (W : ℚ) {i : ℕ} (hp : Holds r.c K p)
    (hi : i ∉ K) (hb : i < Forest.big) :
    AllD (fun pw => Holds r.c (K ++ [i]) pw.1) (propose r first last p W i) := by
  unfold propose
  exact allD_fmap (sampler_holds r.dt first hp hi hb)

theorem proposeAll_holds (first last : Bool) {K : List ℕ} {i : ℕ} (hi : i ∉ K) (hb : i < Forest.big) :
    ∀ l : List (T × ℚ), AllHold r K l → AllD (AllHold r (K ++ [i])) (proposeAll r first last i l) := by
  intro l
  induction l with
  | nil => intro _; exact allD_pure (fun _ h => absurd h (by simp))
  | cons pw rest ih =>
    obtain ⟨p, W⟩ := pw
    intro hl
    unfold proposeAll
    refine allD_bind (propose_holds r first last W (hl (p, W) (by simp)) hi hb) ?_
    intro pw' hpw'
    refine allD_fmap ?_
    refine (ih fun x hx => hl x (List.mem_cons_of_mem _ hx)).mono ?_
    intro l' hl' x hx
    rcases List.mem_cons.1 hx with rfl | hx
    · exact hpw'
    · exact hl' x hx

theorem ancestorSeqs_lt (sw : Swarm) : ∀ m : ℕ, AllD (fun anc => ∀ a ∈ anc, a < sw.length) (ancestorSeqs sw m) := by
  intro m
  induction m with
  | zero => exact allD_pure (fun _ h => absurd h (by simp))
  | succ m ih =>
    unfold ancestorSeqs
    refine allD_bind (P := fun a => a < sw.length) ?_ ?_
    · refine allD_categorical ?_
      intro aw haw
      simp only [List.mem_map, List.mem_range] at haw
      obtain ⟨k, hk, rfl⟩ := haw
      exact hk
    · intro a ha
      refine allD_fmap (ih.mono ?_)
      intro l hl b hb
      rcases List.mem_cons.1 hb with rfl | hb
      · exact ha
      · exact hl b hb

theorem getD_mem {sw : Swarm} {a : ℕ} (ha : a < sw.length) (d : T × ℚ) : sw.getD a d ∈ sw := by
  simp only [List.getD, List.getElem?_eq_getElem ha, Option.getD_some]
  exact List.getElem_mem ha

/-- `_resample_swarm` of the conditional sampler only copies particles of the swarm -/
theorem resample_ok {K : List ℕ} {sw : Swarm} (h : SwOK r K sw) : AllD (SwOK r K) (resample r sw) := by
  unfold resample
  split
  · refine allD_norm (allD_fmap ((ancestorSeqs_lt sw (r.N - 1)).mono ?_))
    intro anc hanc
    refine ⟨by simp, ?_⟩
    intro pw hpw
    have hpos : 0 < sw.length := List.length_pos_iff.mpr h.1
    rcases List.mem_cons.1 hpw with rfl | hpw
    · exact h.2 (sw.getD 0 (T.empty, 0)) (getD_mem hpos _)
    · simp only [List.mem_map] at hpw
      obtain ⟨a, ha, rfl⟩ := hpw
      exact h.2 (sw.getD a (T.empty, 0)) (getD_mem (hanc a ((Canon.mem_sortNat).1 ha)) _)
  · exact allD_pure h

/-- `SMCSampler._resample_swarm` only copies particles of the swarm -/
theorem resampleFree_ok {K : List ℕ} {sw : Swarm} (h : AllHold r K sw) :
    AllD (AllHold r K) (resampleFree r sw) := by
  unfold resampleFree
  split
  · refine allD_norm (allD_fmap ((ancestorSeqs_lt sw r.N).mono ?_))
    intro anc hanc pw hpw
    simp only [List.mem_map] at hpw
    obtain ⟨a, ha, rfl⟩ := hpw
    exact h (sw.getD a (T.empty, 0)) (getD_mem (hanc a ((Canon.mem_sortNat).1 ha)) _)
  · exact allD_pure h

/-! ### the conditional sweep along `σ` from a tree `x` reached along `σ` -/

variable {σ : List ℕ} {x : T}

theorem retained_holds (hnd : σ.Nodup) (hbig : ∀ i ∈ σ, i < Forest.big) (hx : x ∈ level r.c σ σ.length)
    {t : ℕ} (ht : t ≤ σ.length) : Holds r.c (σ.take t) (restrict x (σ.take t)) := by
  obtain ⟨f, h1, _, h3, _⟩ := exists_path hnd hbig σ.length x hx
  rw [h3 t ht]
  exact level_holds hnd hbig (h1 t ht)

theorem initSwarm_ok (hnd : σ.Nodup) (hbig : ∀ i ∈ σ, i < Forest.big) (hx : x ∈ level r.c σ σ.length)
    (hne : σ ≠ []) : AllD (SwOK r (σ.take 1)) (initSwarm r x σ) := by
  cases σ with
  | nil => exact absurd rfl hne
  | cons i rest =>
    unfold initSwarm
    have hi : i < Forest.big := hbig i (by simp)
    have hall : AllHold r [] ((List.range (r.N - 1)).map fun _ => (T.empty, 1 / (r.N : ℚ))) := by
      intro pw hpw
      simp only [List.mem_map] at hpw
      obtain ⟨_, _, rfl⟩ := hpw
      exact holds_empty r.c
    refine allD_fmap ((proposeAll_holds r true rest.isEmpty (K := []) (by simp) hi _ hall).mono ?_)
    intro l hl
    refine ⟨by simp, ?_⟩
    intro pw hpw
    rcases List.mem_cons.1 hpw with rfl | hpw
    · have := retained_holds r hnd hbig hx (t := 1) (by simp)
      simpa using this
    · simpa using hl pw hpw

theorem update_ok (hnd : σ.Nodup) (hbig : ∀ i ∈ σ, i < Forest.big) (hx : x ∈ level r.c σ σ.length)
    {t : ℕ} (ht : t < σ.length) {sw : Swarm} (h : SwOK r (σ.take t) sw) :
    AllD (SwOK r (σ.take (t + 1))) (update r x σ t sw) := by
  have hget : σ[t]? = some σ[t] := List.getElem?_eq_getElem ht
  unfold update
  rw [hget]
  cases sw with
  | nil => exact absurd rfl h.1
  | cons pw rest =>
    obtain ⟨p0, W0⟩ := pw
    simp only
    have hrest : AllHold r (σ.take t) rest := fun y hy => h.2 y (List.mem_cons_of_mem _ hy)
    refine allD_fmap ((proposeAll_holds r false _ (not_mem_take hnd hget)
      (hbig _ (List.getElem_mem ht)) rest hrest).mono ?_)
    intro l hl
    refine ⟨by simp, ?_⟩
    intro y hy
    rcases List.mem_cons.1 hy with rfl | hy
    · exact retained_holds r hnd hbig hx (t := t + 1) ht
    · rw [take_succ_of_get hget]
      exact hl y hy

theorem sweep_ok (hnd : σ.Nodup) (hbig : ∀ i ∈ σ, i < Forest.big) (hx : x ∈ level r.c σ σ.length) :
    ∀ (fuel t : ℕ) (d : Dist Swarm), t ≤ σ.length → σ.length - t ≤ fuel → AllD (SwOK r (σ.take t)) d →
      AllD (SwOK r σ) (SMC.sweep r x σ fuel t d) := by
  intro fuel
  induction fuel with
  | zero =>
    intro t d ht hf hd
    have : t = σ.length := by omega
    subst this
    rw [List.take_length] at hd
    exact hd
  | succ fuel ih =>
    intro t d ht hf hd
    unfold SMC.sweep
    split
    · have : t = σ.length := by omega
      subst this
      rw [List.take_length] at hd
      exact hd
    · rename_i hlt
      have hlt' : t < σ.length := by omega
      refine ih (t + 1) _ hlt' (by omega) (allD_norm (allD_bind hd ?_))
      intro sw hsw
      exact allD_bind (resample_ok r hsw) fun sw' hsw' => update_ok r hnd hbig hx hlt' hsw'

/-- every swarm the conditional SMC sweep can end with consists of well-formed trees holding all of `σ` -/
theorem csmc_ok (hnd : σ.Nodup) (hbig : ∀ i ∈ σ, i < Forest.big) (hx : x ∈ level r.c σ σ.length)
    (hne : σ ≠ []) : AllD (SwOK r σ) (csmc r x σ) := by
  have h0 : AllD (SwOK r (σ.take 1)) (Dist.norm (initSwarm r x σ)) := allD_norm (initSwarm_ok r hnd hbig hx hne)
  have hlen : 1 ≤ σ.length := List.length_pos_iff.mpr hne
  unfold csmc
  simp only
  split
  · rename_i h1
    have : σ.take 1 = σ := by rw [← h1, List.take_length]
    rw [this] at h0
    exact allD_norm (allD_bind h0 fun sw hsw => resample_ok r hsw)
  · exact sweep_ok r hnd hbig hx σ.length 1 _ hlen (by omega) h0

theorem select_ok {K : List ℕ} {sw : Swarm} (h : AllHold r K sw) : AllD (Holds r.c K) (select sw) :=
  allD_categorical h

/-! ### the unconditional sweep -/

theorem sweepFree_ok (hnd : σ.Nodup) (hbig : ∀ i ∈ σ, i < Forest.big) :
    ∀ (fuel t : ℕ) (d : Dist Swarm), t ≤ σ.length → σ.length - t ≤ fuel → AllD (AllHold r (σ.take t)) d →
      AllD (AllHold r σ) (sweepFree r σ fuel t d) := by
  intro fuel
  induction fuel with
  | zero =>
    intro t d ht hf hd
    have : t = σ.length := by omega
    subst this
    rw [List.take_length] at hd
    exact hd
  | succ fuel ih =>
    intro t d ht hf hd
    unfold sweepFree
    cases hget : σ[t]? with
    | none =>
      have : t = σ.length := by
        have := List.getElem?_eq_none_iff.1 hget
        omega
      subst this
      rw [List.take_length] at hd
      exact hd
    | some i =>
      obtain ⟨hlt, rfl⟩ := List.getElem?_eq_some_iff.1 hget
      simp only
      have hupd : AllD (AllHold r (σ.take (t + 1)))
          (Dist.norm (Dist.bind d fun sw => proposeAll r (t == 0) (t + 1 == σ.length) σ[t] sw)) := by
        refine allD_norm (allD_bind hd ?_)
        intro sw hsw
        rw [take_succ_of_get hget]
        exact proposeAll_holds r _ _ (not_mem_take hnd hget) (hbig _ (List.getElem_mem hlt)) sw hsw
      refine ih (t + 1) _ hlt (by omega) ?_
      split
      · exact hupd
      · exact allD_norm (allD_bind hupd fun sw hsw => resampleFree_ok r hsw)

theorem smc_ok (hnd : σ.Nodup) (hbig : ∀ i ∈ σ, i < Forest.big) : AllD (AllHold r σ) (smc r σ) := by
  unfold smc
  refine sweepFree_ok r hnd hbig σ.length 0 _ (Nat.zero_le _) (by omega) (allD_pure ?_)
  intro pw hpw
  simp only [List.mem_map] at hpw
  obtain ⟨_, _, rfl⟩ := hpw
  simpa using holds_empty r.c

end sweeps

/-- **particle Gibbs, whole tree**: every tree listed by `SMC.pgStep` for a well-formed tree `x` holding
the data points `D` is a well-formed tree holding `D` -/
theorem pgStep_holds (r : SMC.Run) {D : List ℕ} {x : T} (hx : Holds r.c D x) :
    AllD (Holds r.c D) (pgStep r x) := by
  unfold pgStep
  refine allD_norm (allD_bind (allD_norm (sampleOrder_support x.f x.out)) ?_)
  intro σ hσ
  have hperm : σ.Perm (x.f.all ++ x.out) := (allOrders_sound _ _ _ hσ).1
  have hnd : σ.Nodup := hperm.nodup_iff.mpr hx.wft.nodup
  have hbig : ∀ i ∈ σ, i < Forest.big := fun i hi => hx.wft.big i (hperm.subset hi)
  have hlev : x ∈ level r.c σ σ.length := (reachable_iff_order r.c σ hnd x hx.wft).mpr hσ
  by_cases hne : σ = []
  · subst hne
    -- no data point: the swarm is empty and the final draw lists nothing
    intro aq haq
    simp [csmc, initSwarm, SMC.sweep, Dist.norm, Dist.pure, Dist.addTo, Dist.bind, select, Dist.categorical] at haq
  · refine allD_bind (csmc_ok r hnd hbig hlev hne) ?_
    intro sw hsw
    exact (select_ok r hsw.2).mono fun y hy => hy.of_perm (hperm.trans hx.perm)

/-- **burn-in sampler**: every tree listed by `SMC.smcStep` for a well-formed tree `x` holding `D` is a
well-formed tree holding `D` -/
theorem smcStep_holds (r : SMC.Run) {D : List ℕ} {x : T} (hx : Holds r.c D x) :
    AllD (Holds r.c D) (smcStep r x) := by
  unfold smcStep
  refine allD_norm (allD_bind (allD_norm (sampleOrder_support x.f x.out)) ?_)
  intro σ hσ
  have hperm : σ.Perm (x.f.all ++ x.out) := (allOrders_sound _ _ _ hσ).1
  have hnd : σ.Nodup := hperm.nodup_iff.mpr hx.wft.nodup
  have hbig : ∀ i ∈ σ, i < Forest.big := fun i hi => hx.wft.big i (hperm.subset hi)
  refine allD_bind (smc_ok r hnd hbig) ?_
  intro sw hsw
  exact (select_ok r hsw).mono fun y hy => hy.of_perm (hperm.trans hx.perm)

end PhyModel.RunOK
