import PhyModel.Proofs.RunOK5
import PhyModel.Proofs.DensityPos
/-! # C19, run-level composition, part 6: every state of a run is a complete well-formed tree with a
positive `log_p_one` density.

A sweep of `run.py` on trees: the tree sampler (burn-in: `SMC.smcStep`; main loop: `SMC.pgStep` or
`Moves.subtreeMove`, whichever the coin `rng.random() < subtree_update_prob` picks), then
`num_samples_data_point` data-point moves and `num_samples_prune_regraph` prune-regraft moves.
`SweepOut p ph α x y` says `y` is listed by that composition started at `x` — for *some* outcome of
every draw; `ChainOut` chains sweeps along any schedule of phases and concentration values. -/

namespace PhyModel.RunOK
open PhyModel Orders Orders.Forest Proposal PG Moves SMC

/-- `y` is one of the outcomes the finite distribution `d` lists -/
def Listed {α : Type} (d : Dist α) (y : α) : Prop := ∃ q, (y, q) ∈ d

theorem AllD.listed {α : Type} {P : α → Prop} {d : Dist α} (h : AllD P d) {y : α} (hy : Listed d y) : P y := by
  obtain ⟨q, hq⟩ := hy
  exact h (y, q) hq

/-- the options of a run the sampler models depend on (`run.py:setup_kernel`, `setup_samplers`): the
data, the proposal kind / outlier proposal probability / permutation distribution (`c`; its `α` field
is overwritten by the chain's current concentration value), particle count, resampling threshold, and
the numbers of auxiliary moves per iteration -/
structure Params where
  dt : Data
  c : Proposal.Cfg
  N : ℕ
  θ : ℚ
  ndp : ℕ
  nprg : ℕ

/-- the kernel configuration under the concentration value `α` -/
def Params.cfg (p : Params) (α : ℚ) : Proposal.Cfg := { p.c with α := α }
/-- `ParticleGibbsTreeSampler(kernel, num_particles, resample_threshold)` etc. -/
def Params.run (p : Params) (α : ℚ) : SMC.Run := ⟨p.dt, p.cfg α, p.N, p.θ⟩
/-- `DataPointSampler(tree_dist, rng, outliers=(outlier_prob > 0))`, `PruneRegraphSampler(tree_dist, rng)` -/
def Params.mv (p : Params) (α : ℚ) : Moves.Cfg := ⟨p.dt, α, p.c.op != 0⟩

theorem Holds.congr {c c' : Proposal.Cfg} (h : c'.op = 0 → c.op = 0) {D : List ℕ} {x : T} (hx : Holds c D x) :
    Holds c' D x :=
  ⟨⟨hx.wft.canon, hx.wft.ne, hx.wft.nodup, hx.wft.big, fun h0 => hx.wft.out (h h0)⟩, hx.perm⟩

inductive Phase where
  | burnin
  | main
deriving DecidableEq, Repr

/-- `y` can be reached from `x` by `n` successive draws from the kernel `K` -/
def IterOut (K : T → Dist T) : ℕ → T → T → Prop
  | 0, x, y => y = x
  | n + 1, x, y => ∃ z, IterOut K n x z ∧ Listed (K z) y

theorem iterOut_inv {P : T → Prop} {K : T → Dist T} (hK : ∀ x, P x → AllD P (K x)) :
    ∀ (n : ℕ) (x y : T), P x → IterOut K n x y → P y := by
  intro n
  induction n with
  | zero => intro x y hx h; exact h ▸ hx
  | succ n ih =>
    intro x y hx h
    obtain ⟨z, hz, hy⟩ := h
    exact (hK z (ih x z hx hz)).listed hy

/-- the tree sampler of one iteration: unconditional SMC during burn-in; in the main loop the
whole-tree particle-Gibbs update or the random-subtree update -/
def TreeStep (p : Params) (ph : Phase) (α : ℚ) (x y : T) : Prop :=
  match ph with
  | .burnin => Listed (smcStep (p.run α) x) y
  | .main => Listed (pgStep (p.run α) x) y ∨ Listed (subtreeMove (p.run α) x) y

/-- one sweep (iteration) of `_run_burnin` / `_run_main_sampler`, any outcome of every draw -/
def SweepOut (p : Params) (ph : Phase) (α : ℚ) (x y : T) : Prop :=
  ∃ x1 x2, TreeStep p ph α x x1 ∧ IterOut (dataPointMove (p.mv α)) p.ndp x1 x2 ∧
    IterOut (pruneRegraft (p.mv α)) p.nprg x2 y

/-- a run: sweeps along a schedule of phases and concentration values -/
def ChainOut (p : Params) : List (Phase × ℚ) → T → T → Prop
  | [], x, y => y = x
  | (ph, α) :: rest, x, y => ∃ z, SweepOut p ph α x z ∧ ChainOut p rest z y

/-- `Tree.get_single_node_tree(data)`: all data points in one clone -/
def single (D : List ℕ) : T := T.mk' (.cons D .nil .nil) []

theorem single_holds (c : Proposal.Cfg) {D : List ℕ} (hne : D ≠ []) (hnd : D.Nodup)
    (hbig : ∀ a ∈ D, a < Forest.big) : Holds c D (single D) := by
  refine holds_mk' ⟨?_, ⟨hne, trivial, trivial⟩, ?_⟩ ?_ hnd hbig (fun _ => rfl)
  · simpa [Forest.all] using hnd
  · simpa [Forest.all] using hbig
  · simp [Forest.all]

/-- **every sampler model used by a sweep** keeps a complete well-formed tree complete and well
formed -/
theorem support_complete_wf_proof (p : Params) (α : ℚ) {D : List ℕ} {x : T} (hx : Holds p.c D x) :
    AllD (Holds p.c D) (pgStep (p.run α) x) ∧ AllD (Holds p.c D) (smcStep (p.run α) x) ∧
    AllD (Holds p.c D) (dataPointMove (p.mv α) x) ∧ AllD (Holds p.c D) (pruneRegraft (p.mv α) x) ∧
    AllD (Holds p.c D) (subtreeMove (p.run α) x) := by
  have hx' : Holds (p.run α).c D x := Holds.congr (c := p.c) (c' := (p.run α).c) (fun h => h) hx
  have back : ∀ y, Holds (p.run α).c D y → Holds p.c D y := fun y hy => Holds.congr (c := (p.run α).c) (c' := p.c) (fun h => h) hy
  refine ⟨(pgStep_holds (p.run α) hx').mono back, (smcStep_holds (p.run α) hx').mono back, ?_,
    pruneRegraft_holds (p.mv α) hx, (subtreeMove_holds (p.run α) hx').mono back⟩
  refine dataPointMove_holds (p.mv α) hx ?_
  intro ho h0
  simp [Params.mv, h0] at ho

theorem sweep_holds (p : Params) (ph : Phase) (α : ℚ) {D : List ℕ} {x y : T} (hx : Holds p.c D x)
    (h : SweepOut p ph α x y) : Holds p.c D y := by
  obtain ⟨x1, x2, h1, h2, h3⟩ := h
  have hx1 : Holds p.c D x1 := by
    obtain ⟨hpg, hsmc, _, _, hsub⟩ := support_complete_wf_proof p α hx
    cases ph with
    | burnin => exact hsmc.listed h1
    | main =>
      rcases h1 with h1 | h1
      · exact hpg.listed h1
      · exact hsub.listed h1
  have hx2 : Holds p.c D x2 :=
    iterOut_inv (fun z hz => (support_complete_wf_proof p α hz).2.2.1) p.ndp x1 x2 hx1 h2
  exact iterOut_inv (fun z hz => (support_complete_wf_proof p α hz).2.2.2.1) p.nprg x2 y hx2 h3

theorem chain_holds (p : Params) {D : List ℕ} : ∀ (sched : List (Phase × ℚ)) (x y : T), Holds p.c D x →
    ChainOut p sched x y → Holds p.c D y := by
  intro sched
  induction sched with
  | nil => intro x y hx h; exact h ▸ hx
  | cons a rest ih =>
    obtain ⟨ph, α⟩ := a
    intro x y hx h
    obtain ⟨z, hz, hy⟩ := h
    exact ih z y (sweep_holds p ph α hx hz) hy

/-- `log_p_one` of a tree on data points of the data set is positive (finite in the log domain) for
positive likelihoods, outlier priors in `[0,1)` and a positive concentration value -/
theorem holds_pOne_pos (dt : Data) (hG : 0 < dt.G)
    (hL : ∀ i s k, i < dt.n → s < dt.S → k < dt.G → 0 < getQ (dt.L i s) k)
    (hop : ∀ i, i < dt.n → 0 ≤ dt.opOf i ∧ dt.opOf i < 1) {c : Proposal.Cfg} {D : List ℕ} {y : T}
    (hy : Holds c D y) (hD : ∀ i ∈ D, i < dt.n) {α : ℚ} (hα : 0 < α) : 0 < Density.pOne dt α y.f y.out := by
  have hf : ∀ i ∈ y.f.all, i < dt.n := fun i hi => hD i (hy.perm.subset (List.mem_append_left _ hi))
  have ho : ∀ i ∈ y.out, i < dt.n := fun i hi => hD i (hy.perm.subset (List.mem_append_right _ hi))
  exact Density.pOne_pos' dt hα hG y.f y.out
    (fun i hi s hs k hk => hL i s k (hf i hi) hs hk)
    (fun i hi s hs k hk => hL i s k (ho i hi) hs hk)
    (fun i hi => (hop i (hf i hi)).2) (fun i hi => (hop i (ho i hi)).1)

end PhyModel.RunOK
