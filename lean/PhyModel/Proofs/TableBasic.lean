import Mathlib.Data.List.Nodup
import Mathlib.Data.List.Perm.Basic
import PhyModel.Model.Table
/-! Helper lemmas for C12 (result tables): labels of a labelled forest, `uniq`, `group`, the
sample index, generic list-permutation facts. -/
namespace PhyModel.Table
open List

/-! ### labelled forests -/

theorem LF.labels_map_fst (f : LF) : f.labels.map Prod.fst = f.dps := by
  induction f with
  | nil => rfl
  | cons i d k s ihk ihs => simp [LF.labels, LF.dps, ihk, ihs, Function.comp_def]

theorem LF.labels_snd_mem (f : LF) : ∀ p ∈ f.labels, p.2 ∈ f.ids := by
  induction f with
  | nil => intro p hp; simp [LF.labels] at hp
  | cons i d k s ihk ihs =>
    intro p hp
    simp only [LF.labels, mem_append, mem_map] at hp
    simp only [LF.ids, mem_cons, mem_append]
    rcases hp with ⟨x, _, rfl⟩ | hp | hp
    · exact Or.inl rfl
    · exact Or.inr (Or.inl (ihk p hp))
    · exact Or.inr (Or.inr (ihs p hp))

theorem labelsOf_map_fst (f : LF) (o : List Nat) : (labelsOf f o).map Prod.fst = f.dps ++ o := by
  simp [labelsOf, LF.labels_map_fst, Function.comp_def]

theorem labelsOf_snd (f : LF) (o : List Nat) : ∀ p ∈ labelsOf f o, p.2 ∈ f.ids ∨ p.2 = -1 := by
  intro p hp
  simp only [labelsOf, mem_append, mem_map] at hp
  rcases hp with hp | ⟨x, _, rfl⟩
  · exact Or.inl (LF.labels_snd_mem f p hp)
  · exact Or.inr rfl

theorem labelsOf_fst_mem (f : LF) (o : List Nat) : ∀ p ∈ labelsOf f o, p.1 ∈ f.dps ++ o := by
  intro p hp
  rw [← labelsOf_map_fst]
  exact mem_map_of_mem hp

/-- in a well-formed tree a data point has one label -/
theorem labelsOf_inj (f : LF) (o : List Nat) (h : (f.dps ++ o).Nodup) :
    ∀ p ∈ labelsOf f o, ∀ q ∈ labelsOf f o, p.1 = q.1 → p = q := by
  rw [← labelsOf_map_fst] at h
  exact inj_on_of_nodup_map h

/-! ### `uniq` and `group` -/

theorem mem_uniq (a : String) (l : List String) : a ∈ uniq l ↔ a ∈ l := by
  induction l with
  | nil => simp [uniq]
  | cons b l ih =>
    simp only [uniq, mem_cons, mem_filter, ih, bne_iff_ne, ne_eq]
    constructor
    · rintro (h | ⟨h, _⟩)
      · exact Or.inl h
      · exact Or.inr h
    · intro h
      by_cases hab : a = b
      · exact Or.inl hab
      · rcases h with h | h
        · exact absurd h hab
        · exact Or.inr ⟨h, hab⟩

theorem uniq_of_nodup (l : List String) (h : l.Nodup) : uniq l = l := by
  induction l with
  | nil => rfl
  | cons b l ih =>
    rw [nodup_cons] at h
    simp only [uniq, ih h.2]
    congr 1
    rw [filter_eq_self]
    intro a ha
    simp only [bne_iff_ne, ne_eq]
    rintro rfl
    exact h.1 ha

theorem mem_group (cl : List (String × Int)) (c : Int) (m : String) :
    m ∈ group cl c ↔ (m, c) ∈ cl := by
  unfold group
  rw [mem_uniq]
  simp only [mem_map, mem_filter, beq_iff_eq]
  constructor
  · rintro ⟨⟨m', c'⟩, ⟨h, rfl⟩, rfl⟩
    exact h
  · intro h
    exact ⟨(m, c), ⟨h, rfl⟩, rfl⟩

theorem group_of_nodup (cl : List (String × Int)) (c : Int) (h : (cl.map Prod.fst).Nodup) :
    group cl c = (cl.filter (fun r => r.2 == c)).map Prod.fst := by
  unfold group
  apply uniq_of_nodup
  exact (h.sublist ((filter_sublist).map _))

/-! ### the sample index -/

theorem sampleIdxFrom_spec (l : List String) (pos : Nat) (s : String) :
    (∀ j, sampleIdxFrom l pos s = some j → pos ≤ j ∧ l[j - pos]? = some s) ∧
    (s ∈ l → ∃ j, sampleIdxFrom l pos s = some j) := by
  induction l generalizing pos with
  | nil => simp [sampleIdxFrom]
  | cons a l ih =>
    obtain ⟨ih1, ih2⟩ := ih (pos + 1)
    constructor
    · intro j hj
      simp only [sampleIdxFrom] at hj
      cases hrec : sampleIdxFrom l (pos + 1) s with
      | some j' =>
        rw [hrec] at hj
        cases hj
        obtain ⟨h1, h2⟩ := ih1 _ hrec
        refine ⟨by omega, ?_⟩
        have : j - pos = (j - (pos + 1)) + 1 := by omega
        rw [this, getElem?_cons_succ]
        exact h2
      | none =>
        rw [hrec] at hj
        simp only at hj
        split at hj
        · cases hj
          subst_vars
          simp
        · cases hj
    · intro hs
      simp only [sampleIdxFrom]
      cases hrec : sampleIdxFrom l (pos + 1) s with
      | some j' => exact ⟨j', rfl⟩
      | none =>
        simp only
        rcases mem_cons.mp hs with h | h
        · exact ⟨pos, by simp [h]⟩
        · obtain ⟨j, hj⟩ := ih2 h
          rw [hrec] at hj
          cases hj

/-- for a sample of the list, `sampleIdx` is a position holding that sample -/
theorem sampleIdx_spec (samples : List String) (s : String) (hs : s ∈ samples) :
    samples[sampleIdx samples s]? = some s := by
  obtain ⟨h1, h2⟩ := sampleIdxFrom_spec samples 0 s
  obtain ⟨j, hj⟩ := h2 hs
  have := (h1 j hj).2
  simp only [Nat.sub_zero] at this
  simp [sampleIdx, hj, this]

theorem sampleIdx_lt (samples : List String) (s : String) (hs : s ∈ samples) :
    sampleIdx samples s < samples.length := by
  have := sampleIdx_spec samples s hs
  by_contra hc
  rw [getElem?_eq_none (by omega)] at this
  cases this

/-! ### permutation facts -/

/-- a duplicate-free sub-collection followed by the rest is a permutation of the whole -/
theorem append_filter_not_mem_perm {α : Type} [DecidableEq α] (l names : List α)
    (hl : l.Nodup) (hn : names.Nodup) (hsub : ∀ a ∈ l, a ∈ names) :
    (l ++ names.filter (fun m => !(l.contains m))).Perm names := by
  have h1 : (names.filter (fun m => l.contains m)).Perm l := by
    rw [perm_ext_iff_of_nodup (hn.filter _) hl]
    intro a
    simp only [mem_filter, contains_iff_mem]
    exact ⟨fun h => h.2, fun h => ⟨hsub a h, h⟩⟩
  have h2 := filter_append_perm (fun m => l.contains m) names
  exact (Perm.append_right _ h1.symm).trans h2

/-- splitting a list by the value of a key: groups of a duplicate-free key list, concatenated, are
the elements whose key is in that list -/
theorem flatMap_filter_perm {α κ : Type} [DecidableEq κ] (key : α → κ) (cl : List α) (ks : List κ)
    (hk : ks.Nodup) :
    (ks.flatMap (fun c => cl.filter (fun r => key r == c))).Perm (cl.filter (fun r => ks.contains (key r))) := by
  induction ks with
  | nil => simp
  | cons c ks ih =>
    rw [nodup_cons] at hk
    rw [flatMap_cons]
    refine (Perm.append_left _ (ih hk.2)).trans ?_
    -- elements with key c, then elements with key in ks: a permutation of those with key in c :: ks
    clear ih
    induction cl with
    | nil => simp
    | cons r cl ihc =>
      by_cases h1 : key r = c
      · have h2 : ks.contains (key r) = false := by
          rw [h1]; simpa using hk.1
        simp only [filter_cons, h1, beq_self_eq_true, ↓reduceIte, contains_cons, Bool.true_or]
        rw [← h1, h2]
        simp only [Bool.false_eq_true, ↓reduceIte, cons_append]
        rw [h1]
        exact Perm.cons _ ihc
      · have h1' : (key r == c) = false := by simpa using h1
        simp only [filter_cons, h1', Bool.false_eq_true, ↓reduceIte, contains_cons, Bool.false_or]
        by_cases h2 : ks.contains (key r) = true
        · simp only [h2, ↓reduceIte]
          exact perm_middle.trans (Perm.cons _ ihc)
        · simp only [h2]
          exact ihc

end PhyModel.Table
