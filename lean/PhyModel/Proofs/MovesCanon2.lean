import PhyModel.Proofs.MovesCanon1
/-! `Forest.canon` is a canonical form for forest equivalence on well-formed forests:
`canon f ≈ f`, and `f ≈ g → canon f = canon g`. -/
namespace PhyModel
open Orders Orders.Forest

namespace Canon

/-- same forest up to the order of siblings and of the data inside a clone -/
inductive Eqv : DF → DF → Prop
  | nil : Eqv .nil .nil
  | cons {d d' : List Nat} {k k' s s' : DF} : d.Perm d' → Eqv k k' → Eqv s s' →
      Eqv (.cons d k s) (.cons d' k' s')
  | swap (d₁ : List Nat) (k₁ : DF) (d₂ : List Nat) (k₂ s : DF) :
      Eqv (.cons d₁ k₁ (.cons d₂ k₂ s)) (.cons d₂ k₂ (.cons d₁ k₁ s))
  | trans {f g h : DF} : Eqv f g → Eqv g h → Eqv f h

theorem Eqv.refl : ∀ f : DF, Eqv f f
  | .nil => .nil
  | .cons _ k s => .cons (List.Perm.refl _) (Eqv.refl k) (Eqv.refl s)

theorem Eqv.symm {f g : DF} (h : Eqv f g) : Eqv g f := by
  induction h with
  | nil => exact .nil
  | cons hd _ _ ihk ihs => exact .cons hd.symm ihk ihs
  | swap d₁ k₁ d₂ k₂ s => exact .swap d₂ k₂ d₁ k₁ s
  | trans _ _ ih₁ ih₂ => exact .trans ih₂ ih₁

theorem Eqv.of_eq {f g : DF} (h : f = g) : Eqv f g := h ▸ Eqv.refl f

theorem Eqv.all_perm {f g : DF} (h : Eqv f g) : f.all.Perm g.all := by
  induction h with
  | nil => exact List.Perm.refl _
  | cons hd _ _ ihk ihs =>
    simp only [Forest.all]
    exact (ihk.append hd).append ihs
  | swap d₁ k₁ d₂ k₂ s =>
    simp only [Forest.all]
    exact List.perm_append_comm_assoc _ _ _
  | trans _ _ ih₁ ih₂ => exact ih₁.trans ih₂

/-- no empty clone -/
def NE : DF → Prop
  | .nil => True
  | .cons d k s => d ≠ [] ∧ NE k ∧ NE s

theorem Eqv.ne {f g : DF} (h : Eqv f g) : NE f → NE g := by
  induction h with
  | nil => exact id
  | cons hd _ _ ihk ihs =>
    intro ⟨h1, h2, h3⟩
    exact ⟨fun e => h1 (List.Perm.eq_nil (e ▸ hd)), ihk h2, ihs h3⟩
  | swap d₁ k₁ d₂ k₂ s =>
    intro ⟨h1, h2, h3, h4, h5⟩
    exact ⟨h3, h4, h1, h2, h5⟩
  | trans _ _ ih₁ ih₂ => exact fun hh => ih₂ (ih₁ hh)

/-- well-formed forest: data points pairwise distinct, no empty clone, indices below the sentinel -/
structure WF (f : DF) : Prop where
  nodup : f.all.Nodup
  ne : NE f
  small : ∀ a ∈ f.all, a < big

theorem Eqv.wf {f g : DF} (h : Eqv f g) (w : WF f) : WF g :=
  ⟨h.all_perm.nodup_iff.mp w.nodup, h.ne w.ne, fun a ha => w.small a (h.all_perm.mem_iff.mpr ha)⟩

theorem WF.nil : WF .nil := ⟨List.nodup_nil, trivial, by simp [Forest.all]⟩

theorem WF.kids {d : List Nat} {k s : DF} (w : WF (.cons d k s)) : WF k := by
  obtain ⟨h1, h2, h3⟩ := w
  simp only [Forest.all] at h1 h3
  refine ⟨?_, h2.2.1, fun a ha => h3 a (by simp [ha])⟩
  exact (List.nodup_append.mp (List.nodup_append.mp h1).1).1

theorem WF.sibs {d : List Nat} {k s : DF} (w : WF (.cons d k s)) : WF s := by
  obtain ⟨h1, h2, h3⟩ := w
  simp only [Forest.all] at h1 h3
  exact ⟨(List.nodup_append.mp h1).2.1, h2.2.2, fun a ha => h3 a (by simp [ha])⟩

theorem ofRoots_insertSorted_eqv (r : List Nat × DF) (l : List (List Nat × DF)) :
    Eqv (ofRoots (insertSorted r l)) (ofRoots (r :: l)) := by
  induction l with
  | nil => exact Eqv.refl _
  | cons x l ih =>
    simp only [insertSorted]
    split
    · exact Eqv.refl _
    · obtain ⟨xd, xk⟩ := x
      obtain ⟨rd, rk⟩ := r
      simp only [ofRoots] at ih ⊢
      exact .trans (.cons (List.Perm.refl _) (Eqv.refl _) ih) (.swap _ _ _ _ _)

/-- the canonical form is equivalent to the forest -/
theorem canon_eqv : ∀ f : DF, Eqv (canon f) f
  | .nil => .nil
  | .cons d k s => by
    simp only [canon]
    refine .trans (ofRoots_insertSorted_eqv _ _) ?_
    simp only [ofRoots, ofRoots_roots]
    exact .cons (sortNat_perm d) (canon_eqv k) (canon_eqv s)

theorem canon_all_perm (f : DF) : (canon f).all.Perm f.all := (canon_eqv f).all_perm

theorem rootKey_canon (d : List Nat) (k : DF) : rootKey (sortNat d, canon k) = rootKey (d, k) := by
  apply rootKey_congr
  unfold clade
  exact (canon_all_perm k).append (sortNat_perm d)

/-- sibling clades of a well-formed forest have different keys -/
theorem rootKey_ne {d₁ d₂ : List Nat} {k₁ k₂ s : DF} (w : WF (.cons d₁ k₁ (.cons d₂ k₂ s))) :
    rootKey (d₁, k₁) ≠ rootKey (d₂, k₂) := by
  obtain ⟨h1, h2, h3⟩ := w
  simp only [Forest.all] at h1 h3
  have m1 : rootKey (d₁, k₁) ∈ clade (d₁, k₁) :=
    rootKey_mem h2.1 (fun a ha => h3 a (by unfold clade at ha; simp at ha ⊢; tauto))
  have m2 : rootKey (d₂, k₂) ∈ clade (d₂, k₂) :=
    rootKey_mem h2.2.2.1 (fun a ha => h3 a (by unfold clade at ha; simp at ha ⊢; tauto))
  unfold clade at m1 m2
  intro e
  rw [e] at m1
  have hdisj := (List.nodup_append.mp h1).2.2
  exact hdisj _ m1 _ (List.mem_append_left _ m2) rfl

/-- equivalent well-formed forests have the same canonical form -/
theorem canon_congr {f g : DF} (h : Eqv f g) : WF f → canon f = canon g := by
  induction h with
  | nil => intro _; rfl
  | cons hd _ _ ihk ihs =>
    intro w
    simp only [canon]
    rw [sortNat_congr hd, ihk w.kids, ihs w.sibs]
  | swap d₁ k₁ d₂ k₂ s =>
    intro w
    simp only [canon, roots_ofRoots]
    rw [insertSorted_comm]
    rw [rootKey_canon, rootKey_canon]
    exact rootKey_ne w
  | trans h₁ _ ih₁ ih₂ =>
    intro w
    rw [ih₁ w, ih₂ (h₁.wf w)]

theorem canon_idem {f : DF} (w : WF f) : canon (canon f) = canon f :=
  (canon_congr (canon_eqv f).symm w).symm

theorem canon_wf {f : DF} (w : WF f) : WF (canon f) := (canon_eqv f).symm.wf w

/-- canonical forms coincide iff the forests are equivalent -/
theorem canon_eq_iff {f g : DF} (w : WF f) : canon f = canon g ↔ Eqv f g :=
  ⟨fun e => (canon_eqv f).symm.trans ((Eqv.of_eq e).trans (canon_eqv g)), fun h => canon_congr h w⟩

end Canon
end PhyModel
