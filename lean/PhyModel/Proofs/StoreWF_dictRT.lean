import PhyModel.Proofs.StoreWF_dictRTA
/-! Dictionary round trip, part B (C07/C15): `Tree.from_dict(tree.to_dict())` rebuilds the forest with
the same shape, graph indices and names, and each clone's data points up to order (`SF.Sim`); the
invariant `Inv0` (and `Dense`) is preserved and the four maps are unchanged. -/
namespace PhyModel.Store
open PhyModel PhyModel.Store PhyModel.Store.Store SF AL

/-- same shape, same graph index and name at every node, data points up to order (caches ignored) -/
inductive SF.Sim : SF → SF → Prop
  | nil : SF.Sim .nil .nil
  | cons {n' n : NodeRec} {k' k s' s : SF} : n'.idx = n.idx → n'.name = n.name → n'.dps.Perm n.dps →
      SF.Sim k' k → SF.Sim s' s → SF.Sim (.cons n' k' s') (.cons n k s)

theorem SameCore.append {a' a b' b : List NodeRec} (h1 : SameCore a' a) (h2 : SameCore b' b) :
    SameCore (a' ++ b') (a ++ b) := by
  induction h1 with
  | nil => exact h2
  | cons hab _ ih => exact List.Forall₂.cons hab ih

theorem SF.Sim.sameCore {f' f : SF} (h : SF.Sim f' f) : SameCore f'.recs f.recs := by
  induction h with
  | nil => exact List.Forall₂.nil
  | cons h1 h2 h3 _ _ ihk ihs => exact List.Forall₂.cons ⟨h1, h2, h3⟩ (ihk.append ihs)

theorem SF.Sim.updAll (dt : Data) {f' f : SF} (h : SF.Sim f' f) : SF.Sim (updAll dt f') f := by
  induction h with
  | nil => exact .nil
  | cons h1 h2 h3 _ _ ihk ihs => exact .cons h1 h2 h3 ihk ihs

/-- transfer of the invariants along `SameCore` when the four maps are unchanged
(generalises `inv_of_cores_eq`) -/
theorem inv_of_sameCore {s s' : Store} (hs : SameCore s'.forest.recs s.forest.recs)
    (h1 : s'.nodeIdx = s.nodeIdx) (h2 : s'.nodeIdxRev = s.nodeIdxRev) (h3 : s'.data = s.data) :
    (WF s → WF s') ∧ (Full s → Full s') ∧ (Dense s → Dense s') := by
  have hn : s'.forest.recs.map (·.name) = s.forest.recs.map (·.name) := hs.map_eq _ (fun _ _ _ h => h)
  refine ⟨fun h => ?_, fun h n hn' => ?_, fun h n hn' => ?_⟩
  · rw [wf_iff, h1, h2, h3]; exact ⟨h.g.same hs, h.m.same hs, h.d.same hs⟩
  · obtain ⟨b, hb, _, h2', _⟩ := hs.mem hn'
    rw [h3, h2']; exact h b hb
  · obtain ⟨b, hb, _, h2', _⟩ := hs.mem hn'
    have hl : s'.numNodes = s.numNodes := by
      simp only [Store.numNodes, numNodes_eq]
      have := congrArg List.length hn; simpa using this
    rw [hl, h2']; exact h b hb

/-! ### rebuilding the forest -/

/-- what `buildSF` reads about a node `x.1` with children forest `x.2` -/
def NodeOK (d : TDict) (x : NodeRec × SF) : Prop :=
  d.nodeIdxRev.lookup x.1.idx = some x.1.name ∧ d.nodeIdx.lookup x.1.name = some x.1.idx ∧
  (∃ dl, d.data.lookup x.1.name = some dl ∧ dl.Nodup ∧ dl.Perm x.1.dps) ∧
  kidsIdx d.edges x.1.idx = x.2.rootRecs.map (·.idx)

theorem buildSF_nil (dt : Data) (d : TDict) (fuel : Nat) : buildSF dt d fuel [] = some .nil := by
  cases fuel <;> rfl

/-- with enough fuel and consistent dictionaries, `buildSF` on the root indices of `f` rebuilds `f` -/
theorem buildSF_of_ok (dt : Data) (d : TDict) {f : SF} (hok : ∀ x ∈ f.subs, NodeOK d x) {fuel : Nat}
    (hf : f.numNodes < fuel) :
    ∃ f', buildSF dt d fuel (f.rootRecs.map (·.idx)) = some f' ∧ SF.Sim f' f := by
  induction f generalizing fuel with
  | nil => exact ⟨.nil, buildSF_nil dt d fuel, .nil⟩
  | cons n k s ihk ihs =>
    cases fuel with
    | zero => omega
    | succ fuel =>
      simp only [SF.numNodes] at hf
      obtain ⟨h1, h2, ⟨dl, h3, hnd, hp⟩, h4⟩ := hok (n, k) (by simp [SF.subs])
      obtain ⟨n', hn', hi, hnm, hd⟩ := recAdd_fresh dt n.idx n.name hnd
      obtain ⟨k', hk', hsk⟩ := ihk (fun x hx => hok x (by simp [SF.subs, hx])) (fuel := fuel) (by omega)
      obtain ⟨s', hs', hss⟩ := ihs (fun x hx => hok x (by simp [SF.subs, hx])) (fuel := fuel) (by omega)
      refine ⟨.cons n' k' s', ?_, .cons hi hnm (hd ▸ hp) hsk hss⟩
      have h4' : (d.edges.filter (·.1 = n.idx)).map (·.2) = k.rootRecs.map (·.idx) := h4
      simp only [SF.rootRecs, List.map_cons, buildSF, h1, h2, h3, hn', h4', hk', hs', Option.bind_eq_bind,
        Option.bind_some, bne_self_eq_false, Bool.false_eq_true, if_false, Option.pure_def]

/-- the forest rebuilt by `from_dict (to_dict s)`, before the caches are recomputed -/
theorem buildSF_toDict (dt : Data) {s : Store} (hs : Inv0 s) :
    ∃ f', buildSF dt s.toDict ((edgesOf 0 s.forest).length + 1) (kidsIdx (edgesOf 0 s.forest) 0) = some f' ∧
      SF.Sim f' s.forest := by
  obtain ⟨hw, hfull⟩ := hs
  have h0 : 0 ∉ s.forest.idxs := fun h => by
    obtain ⟨n, hn, hn0⟩ := mem_idxs.1 h; exact hw.idx_pos n hn hn0
  rw [kidsIdx_edgesOf_self h0]
  refine buildSF_of_ok dt s.toDict (fun x hx => ?_) (by rw [edgesOf_length]; omega)
  have hx' := SF.mem_recs_of_subs hx
  obtain ⟨dl, hdl⟩ := Option.isSome_iff_exists.1 (lookup_isSome_iff.2 (hfull x.1 hx'))
  have hdo : dOf s.data x.1.name = dl := by simp [dOf, hdl]
  refine ⟨hw.lookupRev_of_rec hx', hw.lookup_of_rec hx', ⟨dl, hdl, ?_, ?_⟩, kidsIdx_edgesOf_sub hw.idxs_nodup h0 hx⟩
  · rw [← hdo]; exact dOf_nodup hw.data_keys hw.data_nodup _
  · have := hw.payload_data x.1 hx'
    rw [dataOf_eq, hdo] at this; exact this.symm

/-- `from_dict (to_dict s)`: same forest up to caches and the order inside each clone's data, same maps -/
theorem fromDict_toDict_spec {dt : Data} {s s' : Store} (h : Store.fromDict dt s.toDict = some s') (hs : Inv0 s) :
    SF.Sim s'.forest s.forest ∧ s'.data = s.data ∧ s'.nodeIdx = s.nodeIdx ∧
      s'.nodeIdxRev = s.nodeIdxRev ∧ s'.last = s.last := by
  obtain ⟨f', hb, hsim⟩ := buildSF_toDict dt hs
  have hb' : buildSF dt s.toDict (s.toDict.edges.length + 1)
      ((s.toDict.edges.filter (·.1 = 0)).map (·.2)) = some f' := hb
  simp only [fromDict, Option.bind_eq_bind, Option.pure_def] at h
  split at h
  · rename_i he
    have : s.forest = .nil := by
      apply (edgesOf_eq_nil (p := 0)).1; simpa [toDict] using he
    simp only [Option.bind_some, Option.some.injEq] at h
    subst h
    refine ⟨SF.Sim.updAll dt ?_, rfl, rfl, rfl, rfl⟩
    rw [this]; exact .nil
  · split at h
    · simp at h
    · rw [hb'] at h
      simp only [Option.bind_some, Option.some.injEq] at h
      subst h
      exact ⟨SF.Sim.updAll dt hsim, rfl, rfl, rfl, rfl⟩

/-- on a well-formed store the round trip does not fail -/
theorem fromDict_toDict_isSome (dt : Data) {s : Store} (hs : Inv0 s) : ∃ s', Store.fromDict dt s.toDict = some s' := by
  obtain ⟨f', hb, _⟩ := buildSF_toDict dt hs
  have hb' : buildSF dt s.toDict (s.toDict.edges.length + 1)
      ((s.toDict.edges.filter (·.1 = 0)).map (·.2)) = some f' := hb
  simp only [fromDict, Option.bind_eq_bind, Option.pure_def]
  split
  · exact ⟨_, rfl⟩
  · split
    · rename_i hg
      exfalso
      simp only [Bool.not_eq_eq_eq_not, Bool.not_true, List.all_eq_false] at hg
      obtain ⟨e, he, hg⟩ := hg
      apply hg
      rcases hs.1.data_sub e he with h | h
      · simp [h]
      · obtain ⟨n, hn, hnm⟩ := mem_names.1 h
        have hl : s.toDict.nodeIdx.lookup e.1 = some n.idx := hnm ▸ hs.1.lookup_of_rec hn
        have hi : n.idx ∈ (edgesOf 0 s.forest).map (·.2) := by
          rw [edgesOf_map_snd]; exact mem_idxs.2 ⟨n, hn, rfl⟩
        obtain ⟨x, hx, hxi⟩ := List.mem_map.1 hi
        rw [hl]
        simp only [Bool.or_eq_true, List.any_eq_true, decide_eq_true_eq]
        exact Or.inr ⟨x, hx, hxi⟩
    · rw [hb']; exact ⟨_, rfl⟩

theorem fromDict_toDict_inv {dt : Data} {s s' : Store} (h : Store.fromDict dt s.toDict = some s') (hs : Inv0 s) :
    Inv0 s' ∧ (Dense s → Dense s') ∧ s'.data = s.data ∧ s'.nodeIdx = s.nodeIdx ∧ s'.nodeIdxRev = s.nodeIdxRev ∧
      s'.last = s.last := by
  obtain ⟨hsim, h1, h2, h3, h4⟩ := fromDict_toDict_spec h hs
  obtain ⟨hw, hf, hd⟩ := inv_of_sameCore hsim.sameCore h2 h3 h1
  exact ⟨⟨hw hs.1, hf hs.2⟩, hd, h1, h2, h3, h4⟩

/-- the round trip restores the payload list up to the order of each clone's data points and the caches -/
theorem fromDict_toDict_sameCore {dt : Data} {s s' : Store} (h : Store.fromDict dt s.toDict = some s')
    (hs : Inv0 s) : SameCore s'.forest.recs s.forest.recs :=
  (fromDict_toDict_spec h hs).1.sameCore

/-- data forests of the same shape whose data lists agree up to order, node by node
(a special case of `DFIsoP`: `DFIsoP.cons` at every node) -/
inductive DFPerm : DF → DF → Prop
  | nil : DFPerm .nil .nil
  | cons {d' d : List Nat} {k' k s' s : DF} : d'.Perm d → DFPerm k' k → DFPerm s' s →
      DFPerm (.cons d' k' s') (.cons d k s)

theorem SF.Sim.toDF {f' f : SF} (h : SF.Sim f' f) : DFPerm f'.toDF f.toDF := by
  induction h with
  | nil => exact .nil
  | cons _ _ h3 _ _ ihk ihs => exact .cons h3 ihk ihs

/-- the round trip restores the shape; each clone's data list up to order -/
theorem fromDict_toDict_toDF {dt : Data} {s s' : Store} (h : Store.fromDict dt s.toDict = some s')
    (hs : Inv0 s) : DFPerm s'.forest.toDF s.forest.toDF :=
  (fromDict_toDict_spec h hs).1.toDF

end PhyModel.Store
