import PhyModel.Proofs.MovesKernel
/-! The prune-regraft move (C04): `Moves.pruneRegraft` as a uniform choice of the subtree root
followed by a Gibbs kernel over the re-attachments; invariance from the block structure. -/
namespace PhyModel
open Dist Orders Gibbs

namespace Moves

/-- the forest left after pruning the subtree rooted at the clone `sub` -/
def prPruned (x : T) (sub : List Nat × DF) : DF := removeSub (sub.1.headD 0) x.f

/-- the candidate list of the prune-regraft move once the subtree root `sub` is chosen -/
def prCands (x : T) (sub : List Nat × DF) : List T :=
  let pruned := prPruned x sub
  ((nodesOf pruned).map fun nd => T.mk' (attachUnder (nd.1.headD 0) sub.1 sub.2 pruned) x.out) ++
    [T.mk' (.cons sub.1 sub.2 pruned) x.out]

/-- the kernel applied once the subtree root `sub` is chosen -/
def prStep (c : Cfg) (x : T) (sub : List Nat × DF) : Dist T :=
  if (nodesOf (prPruned x sub)).isEmpty then Dist.pure x else gibbsK (pOneOf c) (prCands x sub)

theorem pruneRegraft_eq (c : Cfg) (x : T) :
    pruneRegraft c x = if (nodesOf x.f).length ≤ 1 then Dist.pure x
      else Dist.norm (Dist.bind (Dist.uniform (nodesOf x.f)) (prStep c x)) := rfl

/-- more than one clone: the move does something -/
def prActive (x : T) : Bool := decide (1 < (nodesOf x.f).length)

/-- the subtree `sub` is not the whole tree -/
def prProper (x : T) (sub : List Nat × DF) : Bool := !(nodesOf (prPruned x sub)).isEmpty

/-- the block structure the prune-regraft move needs on `S`: on the states with more than one clone
the clones are pairwise distinct, and for every clone `sub` of such a state that is not the whole
tree, the re-attachments of `sub` form a block on which `sub` stays a clone, stays a proper
subtree, and the number of clones is constant. -/
structure PrBlock (S : List T) : Prop where
  nodup : ∀ x ∈ S, prActive x → (nodesOf x.f).Nodup
  block : ∀ z ∈ S, ∀ sub ∈ nodesOf z.f, Block (S.filter fun x => prActive x && decide (sub ∈ nodesOf x.f) && prProper x sub)
    (fun x => prCands x sub)
  count : ∀ x ∈ S, prActive x → ∀ sub ∈ nodesOf x.f, prProper x sub →
    ∀ y ∈ prCands x sub, (nodesOf y.f).length = (nodesOf x.f).length

instance (S : List T) : Decidable (PrBlock S) :=
  decidable_of_iff ((∀ x ∈ S, prActive x → (nodesOf x.f).Nodup) ∧
    (∀ z ∈ S, ∀ sub ∈ nodesOf z.f,
      Block (S.filter fun x => prActive x && decide (sub ∈ nodesOf x.f) && prProper x sub)
        (fun x => prCands x sub)) ∧
    (∀ x ∈ S, prActive x → ∀ sub ∈ nodesOf x.f, prProper x sub →
      ∀ y ∈ prCands x sub, (nodesOf y.f).length = (nodesOf x.f).length))
    ⟨fun h => ⟨h.1, h.2.1, h.2.2⟩, fun h => ⟨h.1, h.2, h.3⟩⟩

/-- The prune-regraft move leaves `π` invariant, given the block structure. -/
theorem pruneRegraft_invariant_of_block (c : Cfg) (S : List T) (hS : S.Nodup)
    (hπ : ∀ x ∈ S, 0 ≤ pOneOf c x) (hB : PrBlock S) :
    Inv S (pOneOf c) (pruneRegraft c) := by
  apply Inv.split prActive
  · -- states with more than one clone
    set S₁ := S.filter prActive with hS₁
    have mem₁ : ∀ {x}, x ∈ S₁ → x ∈ S ∧ prActive x = true := fun hx => List.mem_filter.mp hx
    have hmix : Inv S₁ (pOneOf c) (fun x => Dist.bind (Dist.uniform (nodesOf x.f)) (prStep c x)) := by
      apply Inv.label_mix (fun x => nodesOf x.f) (prStep c)
      · intro x hx; exact hB.nodup x (mem₁ hx).1 (mem₁ hx).2
      · intro x hx hnil
        have := (mem₁ hx).2
        simp [prActive, hnil] at this
      · intro sub
        by_cases hex : ∃ z ∈ S, sub ∈ nodesOf z.f
        case neg =>
          refine Inv.of_list_eq (S' := []) ?_ (fun h => rfl)
          rw [List.filter_eq_nil_iff]
          intro x hx
          simp only [decide_eq_true_eq]
          exact fun hh => hex ⟨x, (mem₁ hx).1, hh⟩
        obtain ⟨z, hz, hzsub⟩ := hex
        apply Inv.split (fun x => prProper x sub)
        · -- proper subtree: Gibbs over the re-attachments, with r = 1 / number of clones
          have hfilt : ∀ p : T → Bool, (∀ x, p x = decide (sub ∈ nodesOf x.f)) →
              (S₁.filter p).filter (fun x => prProper x sub)
              = S.filter fun x => prActive x && decide (sub ∈ nodesOf x.f) && prProper x sub := by
            intro p hp
            rw [hS₁, List.filter_filter, List.filter_filter]
            apply List.filter_congr; intro x _
            rw [hp x]
            cases prActive x <;> cases decide (sub ∈ nodesOf x.f) <;> cases prProper x sub <;> rfl
          refine Inv.of_list_eq (hfilt _ (fun x => decide_eq_decide.mpr Iff.rfl)) ?_
          set S₂ := S.filter fun x => prActive x && decide (sub ∈ nodesOf x.f) && prProper x sub with hS₂
          have mem₂ : ∀ {x}, x ∈ S₂ → x ∈ S ∧ prActive x = true ∧ sub ∈ nodesOf x.f ∧ prProper x sub = true := by
            intro x hx
            have := List.mem_filter.mp hx
            simp only [Bool.and_eq_true, decide_eq_true_eq] at this
            exact ⟨this.1, this.2.1.1, this.2.1.2, this.2.2⟩
          have hinv := gibbs_list_invariant S₂ (hS.filter _) (fun x => prCands x sub) (pOneOf c)
            (fun x => 1 / ((nodesOf x.f).length : ℚ)) (fun x hx => hπ x (mem₂ hx).1) (hB.block z hz sub hzsub)
            (by
              intro x hx y hy
              have hm := mem₂ hx
              rw [hB.count x hm.1 hm.2.1 sub hm.2.2.1 hm.2.2.2 y hy])
          intro h
          have e := hinv h
          have e1 : lsum S₂ (fun x => pOneOf c x / ((nodesOf x.f).length : ℚ) * E (prStep c x sub) h)
              = lsum S₂ (fun x => 1 / ((nodesOf x.f).length : ℚ) * pOneOf c x *
                  E (gibbsK (pOneOf c) (prCands x sub)) h) := by
            apply lsum_congr; intro x hx
            have hp : (nodesOf (prPruned x sub)).isEmpty = false := by
              have := (mem₂ hx).2.2.2
              simpa [prProper] using this
            simp only [prStep, hp]
            simp only [Bool.false_eq_true, if_false]; ring
          rw [e1, e]
          apply lsum_congr; intro x _; ring
        · apply Inv.of_id
          intro x hx h
          have : (nodesOf (prPruned x sub)).isEmpty = true := by
            have := (List.mem_filter.mp hx).2
            simpa [prProper] using this
          simp only [prStep, this, if_true, E_pure]
    refine hmix.congr ?_
    intro x hx h
    have hact : ¬ (nodesOf x.f).length ≤ 1 := by
      have := (mem₁ hx).2
      simp only [prActive, decide_eq_true_eq] at this
      omega
    rw [pruneRegraft_eq, if_neg hact, E_norm]
  · apply Inv.of_id
    intro x hx h
    have hle : (nodesOf x.f).length ≤ 1 := by
      have := (List.mem_filter.mp hx).2
      simp only [prActive, Bool.not_eq_true', decide_eq_false_iff_not] at this
      omega
    rw [pruneRegraft_eq, if_pos hle, E_pure]

end Moves
end PhyModel
