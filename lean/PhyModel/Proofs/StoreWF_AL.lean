import PhyModel.Proofs.StoreInv
import Mathlib.Data.List.Perm.Basic
import Mathlib.Data.List.Nodup
/-! Association-list lemmas for the store model (C07): `List.lookup`, `alSet`, `alDel`, `alHas`
versus membership and key lists.  Generic in key and value types. -/
namespace PhyModel.Store.AL
open PhyModel PhyModel.Store

variable {κ ν : Type} [BEq κ] [LawfulBEq κ]

/-- key list -/
abbrev keys (m : List (κ × ν)) : List κ := m.map (·.1)

theorem lookup_none_iff {m : List (κ × ν)} {k : κ} : m.lookup k = none ↔ k ∉ keys m := by
  induction m with
  | nil => simp
  | cons e m ih =>
    obtain ⟨a, b⟩ := e
    by_cases h : k = a
    · subst h; simp [List.lookup_cons]
    · have : (k == a) = false := by simpa using h
      simp [List.lookup_cons, this, ih, h]

theorem lookup_isSome_iff {m : List (κ × ν)} {k : κ} : (m.lookup k).isSome ↔ k ∈ keys m := by
  rw [← not_iff_not, ← lookup_none_iff]; cases m.lookup k <;> simp

theorem mem_of_lookup {m : List (κ × ν)} {k : κ} {v : ν} (h : m.lookup k = some v) : (k, v) ∈ m := by
  induction m with
  | nil => simp at h
  | cons e m ih =>
    obtain ⟨a, b⟩ := e
    by_cases hk : k = a
    · subst hk; simp [List.lookup_cons] at h; simp [h]
    · have : (k == a) = false := by simpa using hk
      simp [List.lookup_cons, this] at h; simp [ih h]

omit [BEq κ] [LawfulBEq κ] in
theorem mem_keys_of_mem {m : List (κ × ν)} {k : κ} {v : ν} (h : (k, v) ∈ m) : k ∈ keys m :=
  List.mem_map.2 ⟨(k, v), h, rfl⟩

theorem mem_keys_of_lookup {m : List (κ × ν)} {k : κ} {v : ν} (h : m.lookup k = some v) : k ∈ keys m :=
  mem_keys_of_mem (mem_of_lookup h)

theorem lookup_of_mem {m : List (κ × ν)} (hnd : (keys m).Nodup) {k : κ} {v : ν} (h : (k, v) ∈ m) :
    m.lookup k = some v := by
  induction m with
  | nil => simp at h
  | cons e m ih =>
    obtain ⟨a, b⟩ := e
    simp only [keys, List.map_cons, List.nodup_cons] at hnd
    rcases List.mem_cons.1 h with h | h
    · cases h; simp [List.lookup_cons]
    · have hk : k ≠ a := fun hka => hnd.1 (hka ▸ mem_keys_of_mem h)
      have : (k == a) = false := by simpa using hk
      simp [List.lookup_cons, this, ih hnd.2 h]

theorem lookup_iff_mem {m : List (κ × ν)} (hnd : (keys m).Nodup) {k : κ} {v : ν} :
    m.lookup k = some v ↔ (k, v) ∈ m := ⟨mem_of_lookup, lookup_of_mem hnd⟩

theorem alHas_iff {m : List (κ × ν)} {k : κ} : alHas m k = true ↔ k ∈ keys m := by
  simp [alHas, keys]

theorem alHas_false_iff {m : List (κ × ν)} {k : κ} : alHas m k = false ↔ k ∉ keys m := by
  rw [← alHas_iff]; simp

/-! ### `alSet` -/

theorem alSet_of_not_mem {m : List (κ × ν)} {k : κ} (v : ν) (h : k ∉ keys m) :
    alSet m k v = m ++ [(k, v)] := by
  have : m.any (·.1 == k) = false := by
    rw [← Bool.not_eq_true]; intro hc; exact h (alHas_iff.1 hc)
  simp [alSet, this]

theorem alSet_of_mem {m : List (κ × ν)} {k : κ} (v : ν) (h : k ∈ keys m) :
    alSet m k v = m.map (fun e => if e.1 == k then (k, v) else e) := by
  have : m.any (·.1 == k) = true := alHas_iff.2 h
  simp [alSet, this]

theorem keys_alSet_of_mem {m : List (κ × ν)} {k : κ} (v : ν) (h : k ∈ keys m) :
    keys (alSet m k v) = keys m := by
  rw [alSet_of_mem v h]
  simp only [keys, List.map_map]
  apply List.map_congr_left
  intro e _
  by_cases he : e.1 = k <;> simp [he]

theorem keys_alSet {m : List (κ × ν)} {k : κ} (v : ν) :
    keys (alSet m k v) = if k ∈ keys m then keys m else keys m ++ [k] := by
  by_cases h : k ∈ keys m
  · rw [if_pos h, keys_alSet_of_mem v h]
  · rw [if_neg h, alSet_of_not_mem v h]; simp [keys]

theorem mem_keys_alSet {m : List (κ × ν)} {k k' : κ} (v : ν) :
    k' ∈ keys (alSet m k v) ↔ k' = k ∨ k' ∈ keys m := by
  rw [keys_alSet]; split
  · constructor
    · exact Or.inr
    · rintro (rfl | h) <;> assumption
  · simp [or_comm]

theorem nodup_keys_alSet {m : List (κ × ν)} {k : κ} (v : ν) (h : (keys m).Nodup) :
    (keys (alSet m k v)).Nodup := by
  rw [keys_alSet]; split
  · exact h
  · rename_i hk
    exact List.nodup_append.2 ⟨h, by simp, by
      intro a ha b hb; simp at hb; subst hb; intro hab; subst hab; exact hk ha⟩

theorem mem_alSet {m : List (κ × ν)} {k k' : κ} {v v' : ν} :
    (k', v') ∈ alSet m k v ↔ (k' = k ∧ v' = v) ∨ (k' ≠ k ∧ (k', v') ∈ m) := by
  by_cases h : k ∈ keys m
  · rw [alSet_of_mem v h, List.mem_map]
    constructor
    · rintro ⟨e, he, heq⟩
      by_cases hek : e.1 = k
      · simp [hek] at heq; left; exact ⟨heq.1.symm, heq.2.symm⟩
      · have : (e.1 == k) = false := by simpa using hek
        simp [this] at heq; subst heq; right; exact ⟨hek, he⟩
    · rintro (⟨rfl, rfl⟩ | ⟨hne, hm⟩)
      · obtain ⟨e, he, hek⟩ := List.mem_map.1 h
        exact ⟨e, he, by simp [hek]⟩
      · exact ⟨(k', v'), hm, by simp [hne]⟩
  · rw [alSet_of_not_mem v h, List.mem_append]
    constructor
    · rintro (hm | hm)
      · right; exact ⟨fun hk => h (hk ▸ mem_keys_of_mem hm), hm⟩
      · simp at hm; left; exact hm
    · rintro (⟨rfl, rfl⟩ | ⟨_, hm⟩)
      · right; simp
      · left; exact hm

theorem lookup_map_set {m : List (κ × ν)} {k k' : κ} {v : ν} :
    (m.map (fun e => if e.1 == k then (k, v) else e)).lookup k' =
      if k' == k then (m.lookup k').map (fun _ => v) else m.lookup k' := by
  induction m with
  | nil => simp
  | cons e m ih =>
    obtain ⟨a, b⟩ := e
    by_cases hak : a = k
    · subst hak
      by_cases hk' : k' = a
      · subst hk'; simp
      · have : (k' == a) = false := by simpa using hk'
        simp [List.lookup_cons, this] at ih ⊢; exact ih
    · have h1 : (a == k) = false := by simpa using hak
      by_cases hk' : k' = a
      · subst hk'; simp [h1]
      · have : (k' == a) = false := by simpa using hk'
        simp [h1, List.lookup_cons, this] at ih ⊢
        exact ih

theorem lookup_alSet {m : List (κ × ν)} {k k' : κ} {v : ν} :
    (alSet m k v).lookup k' = if k' == k then some v else m.lookup k' := by
  by_cases h : k ∈ keys m
  · rw [alSet_of_mem v h, lookup_map_set]
    by_cases hk' : k' = k
    · subst hk'
      obtain ⟨w, hw⟩ := Option.isSome_iff_exists.1 (lookup_isSome_iff.2 h)
      simp [hw]
    · have : (k' == k) = false := by simpa using hk'
      simp [this]
  · rw [alSet_of_not_mem v h, List.lookup_append]
    by_cases hk' : k' = k
    · subst hk'; simp [lookup_none_iff.2 h]
    · have : (k' == k) = false := by simpa using hk'
      simp [List.lookup_cons, this]

theorem lookup_alSet_self {m : List (κ × ν)} {k : κ} {v : ν} : (alSet m k v).lookup k = some v := by
  simp [lookup_alSet]

theorem lookup_alSet_ne {m : List (κ × ν)} {k k' : κ} {v : ν} (h : k' ≠ k) :
    (alSet m k v).lookup k' = m.lookup k' := by
  have : (k' == k) = false := by simpa using h
  simp [lookup_alSet, this]

/-! ### `alDel` -/

theorem mem_alDel {m : List (κ × ν)} {k k' : κ} {v' : ν} :
    (k', v') ∈ alDel m k ↔ k' ≠ k ∧ (k', v') ∈ m := by
  simp [alDel, and_comm]

omit [LawfulBEq κ] in
theorem keys_alDel {m : List (κ × ν)} {k : κ} : keys (alDel m k) = (keys m).filter (fun a => !(a == k)) := by
  simp [alDel, keys, List.filter_map, Function.comp_def]

theorem mem_keys_alDel {m : List (κ × ν)} {k k' : κ} : k' ∈ keys (alDel m k) ↔ k' ≠ k ∧ k' ∈ keys m := by
  rw [keys_alDel]; simp [and_comm]

theorem nodup_keys_alDel {m : List (κ × ν)} {k : κ} (h : (keys m).Nodup) : (keys (alDel m k)).Nodup := by
  rw [keys_alDel]; exact h.filter _

theorem lookup_filter_key {m : List (κ × ν)} (p : κ → Bool) {k' : κ} :
    (m.filter (fun e => p e.1)).lookup k' = if p k' then m.lookup k' else none := by
  induction m with
  | nil => simp
  | cons e m ih =>
    obtain ⟨a, b⟩ := e
    by_cases hk' : k' = a
    · subst hk'
      cases hp : p k' <;> simp [List.filter_cons, hp, List.lookup_cons, ih]
    · have : (k' == a) = false := by simpa using hk'
      cases hp : p a <;> simp [List.filter_cons, hp, List.lookup_cons, this, ih]

theorem lookup_alDel {m : List (κ × ν)} {k k' : κ} :
    (alDel m k).lookup k' = if k' == k then none else m.lookup k' := by
  unfold alDel
  rw [lookup_filter_key (fun a => !(a == k))]
  by_cases h : k' = k <;> simp [h]

theorem alDel_of_not_mem {m : List (κ × ν)} {k : κ} (h : k ∉ keys m) : alDel m k = m := by
  unfold alDel
  rw [List.filter_eq_self]
  intro e he
  have : e.1 ≠ k := fun hk => h (hk ▸ List.mem_map.2 ⟨e, he, rfl⟩)
  simpa using this

/-! ### maps whose values are lists (the `_data` map) -/

variable {α : Type}

/-- all values concatenated -/
abbrev vals (m : List (κ × List α)) : List α := m.flatMap (·.2)

/-- the value at a key, `[]` when absent (`Store.dataOf`) -/
def dOf (m : List (κ × List α)) (k : κ) : List α := (m.lookup k).getD []

theorem dOf_of_not_mem {m : List (κ × List α)} {k : κ} (h : k ∉ keys m) : dOf m k = [] := by
  simp [dOf, lookup_none_iff.2 h]

theorem dOf_alSet_self {m : List (κ × List α)} {k : κ} {v : List α} : dOf (alSet m k v) k = v := by
  simp [dOf, lookup_alSet_self]

theorem dOf_alSet_ne {m : List (κ × List α)} {k k' : κ} {v : List α} (h : k' ≠ k) :
    dOf (alSet m k v) k' = dOf m k' := by
  simp [dOf, lookup_alSet_ne h]

theorem dOf_alDel_ne {m : List (κ × List α)} {k k' : κ} (h : k' ≠ k) : dOf (alDel m k) k' = dOf m k' := by
  have : (k' == k) = false := by simpa using h
  simp [dOf, lookup_alDel, this]

theorem mem_vals_of_mem_dOf {m : List (κ × List α)} {k : κ} {d : α} (h : d ∈ dOf m k) : d ∈ vals m := by
  unfold dOf at h
  cases hl : m.lookup k with
  | none => simp [hl] at h
  | some l =>
    simp [hl] at h
    exact List.mem_flatMap.2 ⟨(k, l), mem_of_lookup hl, h⟩

theorem mem_vals_iff {m : List (κ × List α)} {d : α} : d ∈ vals m ↔ ∃ e ∈ m, d ∈ e.2 := List.mem_flatMap

theorem alDel_map_set {m : List (κ × List α)} {k : κ} {v : List α} :
    alDel (m.map (fun e => if e.1 == k then (k, v) else e)) k = alDel m k := by
  induction m with
  | nil => rfl
  | cons e m ih =>
    unfold alDel at ih ⊢
    by_cases h : e.1 = k
    · simp [List.filter_cons, h, ih]
    · have : (e.1 == k) = false := by simpa using h
      simp [List.filter_cons, this, ih]

theorem alDel_alSet {m : List (κ × List α)} {k : κ} {v : List α} : alDel (alSet m k v) k = alDel m k := by
  by_cases h : k ∈ keys m
  · rw [alSet_of_mem v h, alDel_map_set]
  · rw [alSet_of_not_mem v h]; simp [alDel, List.filter_append]

theorem vals_perm_split {m : List (κ × List α)} (hnd : (keys m).Nodup) (k : κ) :
    (vals m).Perm (dOf m k ++ vals (alDel m k)) := by
  induction m with
  | nil => simp [dOf, alDel]
  | cons e m ih =>
    obtain ⟨a, b⟩ := e
    simp only [keys, List.map_cons, List.nodup_cons] at hnd
    by_cases h : a = k
    · subst h
      have h1 : alDel ((a, b) :: m) a = m := by
        have := alDel_of_not_mem (m := m) hnd.1
        unfold alDel at this ⊢
        simp [List.filter_cons, this]
      rw [h1]; simp [dOf]
    · have h1 : (a == k) = false := by simpa using h
      have h2 : (k == a) = false := by simpa using (Ne.symm h)
      have h3 : alDel ((a, b) :: m) k = (a, b) :: alDel m k := by
        unfold alDel; simp [List.filter_cons, h1]
      have h4 : dOf ((a, b) :: m) k = dOf m k := by simp [dOf, List.lookup_cons, h2]
      rw [h3, h4]
      simp only [vals, List.flatMap_cons]
      exact (List.Perm.append_left b (ih hnd.2)).trans (List.perm_append_comm_assoc _ _ _)

theorem vals_alSet_perm {m : List (κ × List α)} (hnd : (keys m).Nodup) (k : κ) (v : List α) :
    (vals (alSet m k v)).Perm (v ++ vals (alDel m k)) := by
  have := vals_perm_split (nodup_keys_alSet (k := k) v hnd) k
  rwa [dOf_alSet_self, alDel_alSet] at this

theorem dOf_nodup {m : List (κ × List α)} (hnd : (keys m).Nodup) (hv : (vals m).Nodup) (k : κ) :
    (dOf m k).Nodup :=
  (List.nodup_append.1 ((vals_perm_split hnd k).nodup_iff.1 hv)).1

theorem dOf_disjoint {m : List (κ × List α)} (hnd : (keys m).Nodup) (hv : (vals m).Nodup) {k1 k2 : κ}
    (hne : k1 ≠ k2) : List.Disjoint (dOf m k1) (dOf m k2) := by
  have h := (List.nodup_append.1 ((vals_perm_split hnd k1).nodup_iff.1 hv)).2.2
  intro d h1 h2
  rw [← dOf_alDel_ne (k := k1) (Ne.symm hne)] at h2
  exact h d h1 d (mem_vals_of_mem_dOf h2) rfl

theorem flatMap_dOf_nodup {m : List (κ × List α)} (hnd : (keys m).Nodup) (hv : (vals m).Nodup)
    {l : List κ} (hl : l.Nodup) : (l.flatMap (dOf m)).Nodup := by
  rw [List.nodup_flatMap]
  refine ⟨fun k _ => dOf_nodup hnd hv k, ?_⟩
  exact List.Pairwise.imp (fun hne => dOf_disjoint hnd hv hne) hl

theorem vals_eq_flatMap_keys {m : List (κ × List α)} (hnd : (keys m).Nodup) :
    vals m = (keys m).flatMap (dOf m) := by
  induction m with
  | nil => rfl
  | cons e m ih =>
    obtain ⟨a, b⟩ := e
    simp only [keys, List.map_cons, List.nodup_cons] at hnd
    simp only [vals, keys, List.flatMap_cons, List.map_cons]
    have h1 : dOf ((a, b) :: m) a = b := by simp [dOf]
    rw [h1]; congr 1
    have := ih hnd.2
    simp only [vals, keys] at this
    rw [this]
    apply List.flatMap_congr
    intro k hk
    have hka : k ≠ a := fun h => hnd.1 (h ▸ hk)
    have : (k == a) = false := by simpa using hka
    simp [dOf, List.lookup_cons, this]

/-- a duplicate-free key list that covers the keys of `m` lists the same values -/
theorem flatMap_dOf_perm_vals {m : List (κ × List α)} (hnd : (keys m).Nodup) {l : List κ} (hl : l.Nodup)
    (hsub : ∀ k ∈ keys m, k ∈ l) : (l.flatMap (dOf m)).Perm (vals m) := by
  classical
  rw [vals_eq_flatMap_keys hnd]
  obtain ⟨l', hp, hs⟩ := List.subperm_of_subset hnd hsub
  obtain ⟨r, hr⟩ := hs.exists_perm_append
  have hr' : l.Perm (keys m ++ r) := hr.trans (List.Perm.append_right r hp)
  have hdis : ∀ k ∈ r, k ∉ keys m := by
    have := (List.nodup_append.1 (hr'.nodup_iff.1 hl)).2.2
    intro k hk hk'; exact this k hk' k hk rfl
  have h0 : r.flatMap (dOf m) = [] := by
    rw [List.flatMap_eq_nil_iff]; intro k hk; exact dOf_of_not_mem (hdis k hk)
  have := List.Perm.flatMap_right (dOf m) hr'
  rw [List.flatMap_append, h0, List.append_nil] at this
  exact this

end PhyModel.Store.AL
