import PhyModel.Proofs.PG1
import PhyModel.Proofs.OrdersProofs6
/-! # C01 instance, part 5: forests up to sibling order (`Canon.Eqv`) built from root lists, the
"must come before" pairs `Orders.prec` of such forests, and the first half of
`reachable_iff_order`: a tree reached along `σ` has `σ` among its compatible orders. -/

namespace PhyModel.PG
open Orders Orders.Forest Proposal PGSpec Canon

theorem ne_iff : ∀ f : DF, AllNonempty f ↔ NE f
  | .nil => Iff.rfl
  | .cons d k s => by
    simp only [AllNonempty, NE, ne_iff k, ne_iff s]

theorem eqv_ofRoots_cons (a : List ℕ × DF) {l l' : List (List ℕ × DF)}
    (h : Eqv (ofRoots l) (ofRoots l')) : Eqv (ofRoots (a :: l)) (ofRoots (a :: l')) :=
  .cons (List.Perm.refl _) (Eqv.refl _) h

theorem eqv_ofRoots_perm {l l' : List (List ℕ × DF)} (h : l.Perm l') : Eqv (ofRoots l) (ofRoots l') := by
  induction h with
  | nil => exact Eqv.refl _
  | cons a _ ih => exact eqv_ofRoots_cons a ih
  | swap a b l => exact .swap _ _ _ _ _
  | trans _ _ ih₁ ih₂ => exact ih₁.trans ih₂

theorem eqv_ofRoots_head {d d' : List ℕ} {k k' : DF} (hd : d.Perm d') (hk : Eqv k k')
    (l : List (List ℕ × DF)) : Eqv (ofRoots ((d, k) :: l)) (ofRoots ((d', k') :: l)) :=
  .cons hd hk (Eqv.refl _)

/-! ### `prec` -/

theorem mem_prec_cons {d : List ℕ} {k s : DF} {ab : ℕ × ℕ} :
    ab ∈ prec (.cons d k s) ↔ (ab.1 ∈ k.all ∧ ab.2 ∈ d) ∨ ab ∈ prec k ∨ ab ∈ prec s := by
  simp only [prec, List.mem_append, List.mem_flatMap, List.mem_map]
  constructor
  · rintro ((⟨a, ha, b, hb, rfl⟩ | h) | h)
    · exact Or.inl ⟨ha, hb⟩
    · exact Or.inr (Or.inl h)
    · exact Or.inr (Or.inr h)
  · rintro (⟨ha, hb⟩ | h | h)
    · exact Or.inl (Or.inl ⟨ab.1, ha, ab.2, hb, rfl⟩)
    · exact Or.inl (Or.inr h)
    · exact Or.inr h

theorem mem_prec_eqv {f g : DF} (h : Eqv f g) (ab : ℕ × ℕ) : ab ∈ prec f ↔ ab ∈ prec g := by
  induction h with
  | nil => exact Iff.rfl
  | cons hd hk _ ihk ihs =>
    rw [mem_prec_cons, mem_prec_cons, ihk, ihs, hd.mem_iff, hk.all_perm.mem_iff]
  | swap d₁ k₁ d₂ k₂ s =>
    simp only [mem_prec_cons]
    tauto
  | trans _ _ ih₁ ih₂ => exact ih₁.trans ih₂

theorem mem_prec_ofRoots {l : List (List ℕ × DF)} {ab : ℕ × ℕ} :
    ab ∈ prec (ofRoots l) ↔ ∃ r ∈ l, (ab.1 ∈ r.2.all ∧ ab.2 ∈ r.1) ∨ ab ∈ prec r.2 := by
  induction l with
  | nil => simp [ofRoots, prec]
  | cons r l ih =>
    obtain ⟨d, k⟩ := r
    simp only [ofRoots, mem_prec_cons, ih, List.mem_cons, exists_eq_or_imp]
    rw [or_assoc]

theorem mem_prec_roots {f : DF} {ab : ℕ × ℕ} :
    ab ∈ prec f ↔ ∃ r ∈ f.roots, (ab.1 ∈ r.2.all ∧ ab.2 ∈ r.1) ∨ ab ∈ prec r.2 := by
  rw [← mem_prec_ofRoots, Canon.ofRoots_roots]

/-- the pairs of a placement: those of the parent, and "everything below the new data point's clone
comes before the new data point" -/
theorem prec_placement (p : T) (i : ℕ) (kt : Kind × T) (hkt : kt ∈ placements p i) (ab : ℕ × ℕ)
    (hab : ab ∈ prec kt.2.f) : ab ∈ prec p.f ∨ (ab.2 = i ∧ ab.1 ∈ p.f.all) := by
  rw [placements_eq] at hkt
  simp only [List.mem_append, List.mem_map, List.mem_range, List.mem_singleton] at hkt
  rcases hkt with (⟨j, hj, rfl⟩ | ⟨cr, hcr, rfl⟩) | rfl
  · simp only [exT, T.mk'] at hab
    rw [mem_prec_eqv (canon_eqv _), mem_prec_ofRoots] at hab
    obtain ⟨r, hr, h⟩ := hab
    rcases addAt_mem i j _ r hr with hr | ⟨d, k, hm, rfl⟩
    · exact Or.inl (mem_prec_roots.mpr ⟨r, hr, h⟩)
    · rcases h with ⟨h1, h2⟩ | h
      · rcases List.mem_append.mp h2 with h2 | h2
        · exact Or.inl (mem_prec_roots.mpr ⟨(d, k), hm, Or.inl ⟨h1, h2⟩⟩)
        · refine Or.inr ⟨by simpa using h2, ?_⟩
          exact (mem_all_iff_roots _ _).mpr ⟨(d, k), hm, Or.inr h1⟩
      · exact Or.inl (mem_prec_roots.mpr ⟨(d, k), hm, Or.inr h⟩)
  · simp only [newT, T.mk'] at hab
    obtain ⟨hc, hr, _⟩ := mem_splits _ _ hcr
    rw [mem_prec_eqv (canon_eqv _), mem_prec_ofRoots] at hab
    obtain ⟨r, hr', h⟩ := hab
    rcases List.mem_cons.mp hr' with rfl | hr'
    · rcases h with ⟨h1, h2⟩ | h
      · refine Or.inr ⟨by simpa using h2, ?_⟩
        rw [all_ofRoots, List.mem_flatMap] at h1
        obtain ⟨z, hz, h1⟩ := h1
        exact (mem_all_iff_roots _ _).mpr ⟨z, hc z hz, (List.mem_append.mp h1).symm⟩
      · obtain ⟨z, hz, h⟩ := mem_prec_ofRoots.mp h
        exact Or.inl (mem_prec_roots.mpr ⟨z, hc z hz, h⟩)
    · exact Or.inl (mem_prec_roots.mpr ⟨r, hr r hr', h⟩)
  · simp only [outT, T.mk'] at hab
    exact Or.inl ((mem_prec_eqv (canon_eqv _) ab).mp hab)

/-- **a tree reached along `σ` is compatible with `σ`** (at every level, with the prefix placed so far) -/
theorem level_compat (c : Cfg) (σ : List ℕ) : ∀ (t : ℕ) (x : T), x ∈ level c σ t →
    CompatAll x.f x.out (σ.take t) := by
  intro t
  induction t with
  | zero =>
    intro x hx
    simp only [level, List.mem_singleton] at hx
    subst hx
    exact ⟨by simp [T.empty, Forest.all], by simp [T.empty, prec]⟩
  | succ t ih =>
    intro x hx
    refine ⟨(level_inv c σ _ x hx).perm.symm, ?_⟩
    obtain ⟨i, hi, p, hp, hx⟩ := mem_level_succ.mp hx
    obtain ⟨kt, hkt, _, rfl⟩ := mem_children.mp hx
    obtain ⟨hlt, rfl⟩ := List.getElem?_eq_some_iff.mp hi
    rw [List.take_succ_eq_append_getElem hlt]
    intro ab hab
    rcases prec_placement p _ kt hkt ab hab with h | ⟨h2, h1⟩
    · exact ((ih p hp).2 ab h).trans (List.sublist_append_left _ _)
    · have hmem : ab.1 ∈ σ.take t :=
        (level_inv c σ t p hp).perm.subset (List.mem_append_left _ h1)
      rw [h2]
      exact List.Sublist.append (List.singleton_sublist.mpr hmem) (List.Sublist.refl [σ[t]])

end PhyModel.PG
