import PhyModel.Proofs.PG4
import PhyModel.Proofs.MovesDist
/-! # C01, stage 3, part 2: the list-based `Dist` monad against finite sums.

`seqD` is a sequence of independent draws; its expectation is a sum over index functions weighted by
the product of the single-draw probabilities (`E_seqD`).  `SMC.ancestorSeqs` and `SMC.proposeAll` are
such sequences. -/

namespace PhyModel.PG
open Finset BigOperators Proposal PGSpec

/-- `k` independent draws, in order -/
def seqD {β : Type} : (k : ℕ) → (Fin k → Dist β) → Dist (List β)
  | 0, _ => Dist.pure []
  | k+1, d => Dist.bind (d 0) fun b => Dist.fmap (fun l => b :: l) (seqD k (fun i => d i.succ))

theorem E_seqD {β Y : Type} [Fintype Y] : ∀ (k : ℕ) (d : Fin k → Dist β) (P : Fin k → Y → ℚ)
    (emb : Fin k → Y → β), (∀ i h, Dist.E (d i) h = ∑ y, P i y * h (emb i y)) → ∀ G : List β → ℚ,
    Dist.E (seqD k d) G = ∑ y : Fin k → Y, (∏ i, P i (y i)) * G (List.ofFn fun i => emb i (y i)) := by
  intro k
  induction k with
  | zero =>
    intro d P emb _ G
    simp [seqD, E_pure]
  | succ k ih =>
    intro d P emb hd G
    simp only [seqD]
    rw [E_bind, hd 0]
    rw [← (Fin.consEquiv (fun _ : Fin (k+1) => Y)).sum_comp, Fintype.sum_prod_type]
    apply Finset.sum_congr rfl
    intro y0 _
    rw [E_fmap, ih (fun i => d i.succ) (fun i => P i.succ) (fun i => emb i.succ) (fun i h => hd i.succ h),
      Finset.mul_sum]
    apply Finset.sum_congr rfl
    intro y _
    simp only [Fin.consEquiv_apply, Fin.prod_univ_succ, Fin.cons_zero, Fin.cons_succ, List.ofFn_succ]
    ring

theorem ancestorSeqs_eq (sw : SMC.Swarm) : ∀ m : ℕ, SMC.ancestorSeqs sw m
    = seqD m (fun _ => Dist.categorical ((List.range sw.length).map fun k => (k, (sw.getD k (T.empty, 0)).2))) := by
  intro m
  induction m with
  | zero => rfl
  | succ m ih => simp only [SMC.ancestorSeqs, seqD, ih]

theorem proposeAll_eq (r : SMC.Run) (first last : Bool) (i : ℕ) : ∀ (m : ℕ) (pw : Fin m → T × ℚ),
    SMC.proposeAll r first last i (List.ofFn pw)
      = seqD m (fun j => SMC.propose r first last (pw j).1 (pw j).2 i) := by
  intro m
  induction m with
  | zero => intro pw; rfl
  | succ m ih =>
    intro pw
    rw [List.ofFn_succ]
    simp only [SMC.proposeAll, seqD]
    congr 1
    funext pw'
    rw [ih (fun j => pw j.succ)]

theorem lsum_range_fin (n : ℕ) (F : ℕ → ℚ) : lsum (List.range n) F = ∑ i : Fin n, F i.val := by
  rw [lsum_range, Fin.sum_univ_eq_sum_range]

/-- expectation under a table, as a sum over a finite type of trees containing every listed tree -/
theorem lsum_table_eq {L : List T} (tab : List (T × ℚ)) (hk : ∀ tq ∈ tab, tq.1 ∈ L) (H : T → ℚ) :
    lsum tab (fun tq => tq.2 * H tq.1) = ∑ x : St L, tprob tab x.1 * H x.1 := by
  induction tab with
  | nil => simp [tprob, lsum]
  | cons a tab ih =>
    have hstep : ∀ x : St L, tprob (a :: tab) x.1 * H x.1
        = (if (⟨a.1, hk a List.mem_cons_self⟩ : St L) = x then a.2 * H a.1 else 0) + tprob tab x.1 * H x.1 := by
      intro x
      unfold tprob
      rw [lsum_cons, add_mul]
      congr 1
      by_cases hx : a.1 = x.1
      · rw [if_pos hx, if_pos (Subtype.ext hx), hx]
      · rw [if_neg hx, if_neg (fun h => hx (congrArg Subtype.val h)), zero_mul]
    simp only [hstep]
    rw [Finset.sum_add_distrib, ← ih (fun tq htq => hk tq (List.mem_cons_of_mem _ htq)), lsum_cons]
    congr 1
    rw [Finset.sum_ite_eq]
    simp

end PhyModel.PG
