import PhyModel.Proofs.ASMC5
/-! # C01, stage 3, part 1 (abstract): the conditional-SMC functional run forwards along the retained
path, and its invariance under permutations of the slots `1 … m`.

`ASMC.C` peels the sweep from the last step; the code (and `SMC.sweep`) runs it from the first.  `Fwd`
is the forward form, `C_eq_Fwd` the identification.  `Sym0` is the class of test functions that do not
depend on the order of the non-retained slots; it is preserved by every step (`stepC_sym`), which is
what allows the code to lay the resampled ancestors out in sorted order. -/

open Finset BigOperators

namespace ASMC

variable {X : Type} [Fintype X] [DecidableEq X] {m : ℕ}
variable (sp : Spec (m := m) X) (u : ℚ)

/-- the sweep from step `t` on, `k` steps, along the retained path `path` -/
def Fwd (path : ℕ → X) : ℕ → ℕ → Sys X m → (Sys X m → ℚ) → ℚ
  | 0, _, S, f => f S
  | k+1, t, S, f => stepC sp u t (path (t+1)) S (fun S' => Fwd path k (t+1) S' f)

variable {sp} {u}

theorem Fwd_comp (path : ℕ → X) (f : Sys X m → ℚ) : ∀ (k j t : ℕ) (S : Sys X m),
    Fwd sp u path k t S (fun S' => Fwd sp u path j (t+k) S' f) = Fwd sp u path (k+j) t S f := by
  intro k
  induction k with
  | zero => intro j t S; simp [Fwd]
  | succ k ih =>
    intro j t S
    rw [Nat.succ_add]
    simp only [Fwd]
    congr 1
    funext S'
    have := ih j (t+1) S'
    rw [show t + 1 + k = t + (k + 1) by omega] at this
    exact this

/-- the backward functional `C` is the forward sweep from the initial system -/
theorem C_eq_Fwd (path : ℕ → X) : ∀ (T : ℕ), (∀ t, t < T → sp.parent (path (t+1)) = path t) →
    ∀ f : Sys X m → ℚ, C sp u T (path T) f = Fwd sp u path T 0 (S0 sp) f := by
  intro T
  induction T with
  | zero => intro _ f; rfl
  | succ T ih =>
    intro hp f
    simp only [C]
    rw [hp T (Nat.lt_succ_self T), ih (fun t ht => hp t (Nat.lt_succ_of_lt ht))]
    have := Fwd_comp (sp := sp) (u := u) path f T 1 0 (S0 sp)
    rw [← this]
    simp [Fwd]

/-! ### permutations of the non-retained slots -/

/-- the permutation of all slots that fixes slot 0 and acts as `ρ` on the others -/
def ext0 (ρ : Equiv.Perm (Fin m)) : Equiv.Perm (Fin (m+1)) where
  toFun := Fin.cons 0 (fun i => (ρ i).succ)
  invFun := Fin.cons 0 (fun i => (ρ.symm i).succ)
  left_inv := by
    intro j
    refine Fin.cases ?_ ?_ j
    · simp
    · intro i; simp
  right_inv := by
    intro j
    refine Fin.cases ?_ ?_ j
    · simp
    · intro i; simp

@[simp] theorem ext0_zero (ρ : Equiv.Perm (Fin m)) : ext0 ρ 0 = 0 := rfl
@[simp] theorem ext0_succ (ρ : Equiv.Perm (Fin m)) (i : Fin m) : ext0 ρ i.succ = (ρ i).succ := by
  simp [ext0]

/-- test functions that do not depend on the order of the slots `1 … m` -/
def Sym0 (g : Sys X m → ℚ) : Prop := ∀ (ρ : Equiv.Perm (Fin m)) (S : Sys X m), g (S ∘ ext0 ρ) = g S

theorem propC_sym (t : ℕ) (x' : X) (ρ : Equiv.Perm (Fin m)) (S : Sys X m) {g : Sys X m → ℚ}
    (hg : Sym0 g) : propC sp t x' (S ∘ ext0 ρ) g = propC sp t x' S g := by
  unfold propC
  symm
  apply Finset.sum_bij (fun (z : Fin m → X) _ => z ∘ ρ)
  · intro z _; exact mem_univ _
  · intro z1 _ z2 _ h
    funext i
    have := congrFun h (ρ.symm i)
    simpa [Function.comp] using this
  · intro y _
    refine ⟨y ∘ ρ.symm, mem_univ _, ?_⟩
    funext i; simp [Function.comp]
  · intro z _
    have hprod : ∏ i : Fin m, sp.q t ((S ∘ ext0 ρ) i.succ).1 ((z ∘ ρ) i)
        = ∏ i : Fin m, sp.q t (S i.succ).1 (z i) := by
      simp only [Function.comp, ext0_succ]
      exact Equiv.prod_comp ρ (fun j => sp.q t (S j.succ).1 (z j))
    rw [hprod]
    congr 1
    rw [← hg ρ (fun i => ext sp t (S i) ((Fin.cons x' z : Fin (m+1) → X) i))]
    congr 1
    funext i
    refine Fin.cases ?_ ?_ i
    · simp [Function.comp]
    · intro j; simp [Function.comp]

/-- resampling from a system with permuted slots gives the same law (whatever the continuation) -/
theorem resC_perm0 (ρ : Equiv.Perm (Fin m)) (S : Sys X m) (F : Sys X m → ℚ) :
    resC u (S ∘ ext0 ρ) F = resC u S F := by
  unfold resC
  apply Finset.sum_bij (fun (a : Fin m → Fin (m+1)) _ => ext0 ρ ∘ a)
  · intro a _; exact mem_univ _
  · intro a1 _ a2 _ h
    funext i
    have := congrFun h i
    simpa [Function.comp] using this
  · intro b _
    refine ⟨(ext0 ρ).symm ∘ b, mem_univ _, ?_⟩
    funext i; simp [Function.comp]
  · intro a _
    simp only [wbar_perm, Function.comp]
    congr 2
    funext j
    refine Fin.cases ?_ ?_ j
    · simp
    · intro i; simp

theorem stepC_sym {T : ℕ} (hv : ValidTo sp T) (t : ℕ) (x' : X) {g : Sys X m → ℚ} (hg : Sym0 g) :
    Sym0 (fun S => stepC sp u t x' S g) := by
  intro ρ S
  show stepC sp u t x' (S ∘ ext0 ρ) g = stepC sp u t x' S g
  unfold stepC
  have hw : wts (S ∘ ext0 ρ) = wts S ∘ ext0 ρ := rfl
  rw [hw, hv.rssymm]
  split
  · exact resC_perm0 ρ S _
  · exact propC_sym t x' ρ S hg

theorem Fwd_sym {T : ℕ} (hv : ValidTo sp T) (path : ℕ → X) {f : Sys X m → ℚ} (hf : Sym0 f) :
    ∀ (k t : ℕ), Sym0 (fun S => Fwd sp u path k t S f) := by
  intro k
  induction k with
  | zero => intro t; exact hf
  | succ k ih =>
    intro t
    exact stepC_sym hv t _ (ih (t+1))

/-- the final selection does not depend on the order of the slots -/
theorem sel_sym (h : X → ℚ) : Sym0 (fun S : Sys X m => ∑ y, sel S y * h y) := by
  intro ρ S
  apply Finset.sum_congr rfl
  intro y _
  congr 1
  unfold sel
  simp only [wbar_perm, Function.comp]
  exact Equiv.sum_comp (ext0 ρ) (fun k => wbar S k * (if (S k).1 = y then 1 else 0))

end ASMC
