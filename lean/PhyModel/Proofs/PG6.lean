import PhyModel.Proofs.PG5
import PhyModel.Proofs.MovesDpBlock1
/-! # C01 instance, part 6: peeling the last data point off a tree.

A well-formed tree `x` (`WFT`) in which the data point `i` sits in the outlier set or in a top-level
clone is a permitted placement of `i` on a smaller well-formed tree (`peel`).  This is the step of the
second half of `reachable_iff_order`. -/

namespace PhyModel.PG
open Orders Orders.Forest Proposal PGSpec Canon

/-- well-formed tree: canonical form, no empty clone, distinct data indices below the sentinel,
no outliers when outlier modelling is off -/
structure WFT (c : Cfg) (x : T) : Prop where
  canon : T.mk' x.f x.out = x
  ne : AllNonempty x.f
  nodup : (x.f.all ++ x.out).Nodup
  big : ∀ a ∈ x.f.all ++ x.out, a < Forest.big
  out : c.op = 0 → x.out = []

theorem WFT.canon_f {c : Cfg} {x : T} (w : WFT c x) : Forest.canon x.f = x.f := by
  have := w.canon
  unfold T.mk' at this
  exact congrArg T.f this

theorem WFT.sort_out {c : Cfg} {x : T} (w : WFT c x) : sortNat x.out = x.out := by
  have := w.canon
  unfold T.mk' at this
  exact congrArg T.out this

theorem WFT.wf {c : Cfg} {x : T} (w : WFT c x) : Canon.WF x.f :=
  ⟨(List.nodup_append.mp w.nodup).1, (ne_iff _).mp w.ne, fun a ha => w.big a (List.mem_append_left _ ha)⟩

theorem eqv_ofRoots_map_cn : ∀ l : List (List ℕ × DF), Eqv (ofRoots (l.map cn)) (ofRoots l)
  | [] => Eqv.refl _
  | (d, k) :: l => by
    simp only [List.map_cons, ofRoots, cn]
    exact .cons (Canon.sortNat_perm d) (canon_eqv k) (eqv_ofRoots_map_cn l)

theorem addAt_append (i : ℕ) (a : List ℕ × DF) : ∀ (s t : List (List ℕ × DF)),
    addAt i s.length (s ++ a :: t) = s ++ (a.1 ++ [i], a.2) :: t
  | [], t => by obtain ⟨d, k⟩ := a; rfl
  | x :: s, t => by
    simp only [List.cons_append, List.length_cons, addAt, addAt_append i a s t]

theorem addAt_of_perm (i : ℕ) {l rest : List (List ℕ × DF)} {a : List ℕ × DF} (h : l.Perm (a :: rest)) :
    ∃ j, j < l.length ∧ (addAt i j l).Perm ((a.1 ++ [i], a.2) :: rest) := by
  have ha : a ∈ l := h.mem_iff.mpr List.mem_cons_self
  obtain ⟨s, t, rfl⟩ := List.append_of_mem ha
  have hst : (s ++ t).Perm rest := List.Perm.cons_inv (List.perm_middle.symm.trans h)
  refine ⟨s.length, by simp, ?_⟩
  rw [addAt_append]
  exact List.perm_middle.trans (List.Perm.cons _ hst)

theorem exists_split_of_perm {α : Type} : ∀ (l X Y : List α), l.Perm (X ++ Y) →
    ∃ cr ∈ splits l, cr.1.Perm X ∧ cr.2.Perm Y := by
  intro l
  induction l with
  | nil =>
    intro X Y h
    have h0 := h.symm.eq_nil
    have hX : X = [] := (List.append_eq_nil_iff.mp h0).1
    have hY : Y = [] := (List.append_eq_nil_iff.mp h0).2
    subst hX; subst hY
    exact ⟨([], []), by simp [splits], List.Perm.refl _, List.Perm.refl _⟩
  | cons a l ih =>
    intro X Y h
    have ha : a ∈ X ++ Y := h.mem_iff.mp List.mem_cons_self
    rcases List.mem_append.mp ha with haX | haY
    · obtain ⟨s, t, rfl⟩ := List.append_of_mem haX
      have h' : l.Perm ((s ++ t) ++ Y) := by
        apply List.Perm.cons_inv (a := a)
        refine h.trans ?_
        rw [List.append_assoc, List.append_assoc]
        exact List.perm_middle
      obtain ⟨cr, hcr, h1, h2⟩ := ih _ _ h'
      refine ⟨(a :: cr.1, cr.2), ?_, ?_, h2⟩
      · simp only [splits, List.mem_flatMap]
        exact ⟨cr, hcr, by simp⟩
      · exact (List.Perm.cons a h1).trans List.perm_middle.symm
    · obtain ⟨s, t, rfl⟩ := List.append_of_mem haY
      have h' : l.Perm (X ++ (s ++ t)) := by
        apply List.Perm.cons_inv (a := a)
        refine h.trans ?_
        rw [← List.append_assoc, ← List.append_assoc]
        exact List.perm_middle
      obtain ⟨cr, hcr, h1, h2⟩ := ih _ _ h'
      refine ⟨(cr.1, a :: cr.2), ?_, h1, ?_⟩
      · simp only [splits, List.mem_flatMap]
        exact ⟨cr, hcr, by simp⟩
      · exact (List.Perm.cons a h2).trans List.perm_middle.symm

theorem eq_singleton_of_filter {i : ℕ} {d : List ℕ} (hn : d.Nodup) (hi : i ∈ d)
    (hf : d.filter (· != i) = []) : d = [i] := by
  have := Canon.filter_ne_append_perm hn hi
  rw [hf, List.nil_append] at this
  exact List.perm_singleton.mp this.symm

/-- membership of a tree among the permitted placements, by kind -/
theorem mem_children_ex {c : Cfg} {p : T} {i j : ℕ} (hj : j < p.f.roots.length) :
    exT p i j ∈ children c p i :=
  mem_children.mpr ⟨(Kind.existing j, exT p i j), by
    rw [placements_eq]; simp only [List.mem_append, List.mem_map, List.mem_range]
    exact Or.inl (Or.inl ⟨j, hj, rfl⟩), by simp, rfl⟩

theorem mem_children_new {c : Cfg} {p : T} {i : ℕ} {cr : List (List ℕ × DF) × List (List ℕ × DF)}
    (hcr : cr ∈ splits p.f.roots) : newT p i cr ∈ children c p i :=
  mem_children.mpr ⟨(Kind.newNode cr.1.length, newT p i cr), by
    rw [placements_eq]; simp only [List.mem_append, List.mem_map]
    exact Or.inl (Or.inr ⟨cr, hcr, rfl⟩), by simp, rfl⟩

theorem mem_children_out {c : Cfg} {p : T} {i : ℕ} (ho : c.op ≠ 0) : outT p i ∈ children c p i :=
  mem_children.mpr ⟨(Kind.outlier, outT p i), by
    rw [placements_eq]; simp, fun _ => ho, rfl⟩

end PhyModel.PG
