import PhyModel.Proofs.StoreCache_addDp
/-! C06, `Tree.create_root_node(children, data)` and the compound
`create_root_node(children)` + `add_data_point_to_node(dp, new)`: the new clone sits on top of whole
top-level trees (whose caches are untouched), gets its `p` from its data and its `r` recomputed. -/
namespace PhyModel.Store.C06
open PhyModel

/-! ### association lists -/

theorem lookup_map_repl {κ ν} [BEq κ] [LawfulBEq κ] (k : κ) (v : ν) :
    ∀ m : List (κ × ν), m.any (·.1 == k) = true →
      (m.map fun e => if e.1 == k then (k, v) else e).lookup k = some v
  | [], h => by simp at h
  | (k', v') :: m, h => by
    by_cases hk : k' = k
    · subst hk; simp
    · have h1 : (k' == k) = false := by simpa using hk
      have h2 : (k == k') = false := by simpa using fun e : k = k' => hk e.symm
      simp only [List.any_cons, h1, Bool.false_or] at h
      simp only [List.map_cons, h1, Bool.false_eq_true, if_false]
      rw [List.lookup_cons, h2]
      exact lookup_map_repl k v m h

theorem lookup_append_self {κ ν} [BEq κ] [LawfulBEq κ] (k : κ) (v : ν) :
    ∀ m : List (κ × ν), m.any (·.1 == k) = false → (m ++ [(k, v)]).lookup k = some v
  | [], _ => by simp
  | (k', v') :: m, h => by
    simp only [List.any_cons, Bool.or_eq_false_iff] at h
    have h2 : (k == k') = false := by
      have : ¬ k' = k := by simpa using h.1
      simpa using fun e : k = k' => this e.symm
    rw [List.cons_append, List.lookup_cons, h2]
    exact lookup_append_self k v m h.2

theorem lookup_alSet_self {κ ν} [BEq κ] [LawfulBEq κ] (m : List (κ × ν)) (k : κ) (v : ν) :
    (alSet m k v).lookup k = some v := by
  unfold alSet
  split
  · rename_i h; exact lookup_map_repl k v m h
  · rename_i h; exact lookup_append_self k v m (Bool.eq_false_iff.2 h)

/-! ### `takeRoots`, fresh indices -/

theorem takeRoots_cons (is : List Nat) (n : NodeRec) (k s : SF) :
    SF.takeRoots is (.cons n k s) =
      if is.contains n.idx then (.cons n k (SF.takeRoots is s).1, (SF.takeRoots is s).2)
      else ((SF.takeRoots is s).1, .cons n k (SF.takeRoots is s).2) := rfl

theorem cacheOKsf_takeRoots (dt : Data) (is : List Nat) :
    ∀ f, CacheOKsf dt f → CacheOKsf dt (SF.takeRoots is f).1 ∧ CacheOKsf dt (SF.takeRoots is f).2
  | .nil, _ => ⟨trivial, trivial⟩
  | .cons n k s, ⟨h1, h2, h3, h4⟩ => by
    have ih := cacheOKsf_takeRoots dt is s h4
    rw [takeRoots_cons]
    split
    · exact ⟨⟨h1, h2, h3, ih.1⟩, ih.2⟩
    · exact ⟨ih.1, ⟨h1, h2, h3, ih.2⟩⟩

theorem idxs_takeRoots (is : List Nat) : ∀ (f : SF) (j : Nat),
    (j ∈ (SF.takeRoots is f).1.idxs ∨ j ∈ (SF.takeRoots is f).2.idxs) → j ∈ f.idxs
  | .nil, j, h => by simp [SF.takeRoots] at h
  | .cons n k s, j, h => by
    have ih := idxs_takeRoots is s j
    rw [takeRoots_cons] at h
    rw [idxs_cons, List.mem_cons, List.mem_append]
    split at h
    · simp only [idxs_cons, List.mem_cons, List.mem_append] at h
      tauto
    · simp only [idxs_cons, List.mem_cons, List.mem_append] at h
      tauto

theorem le_maxIdx : ∀ (f : SF) (j : Nat), j ∈ f.idxs → j ≤ f.maxIdx
  | .nil, _, h => by simp at h
  | .cons n k s, j, h => by
    rw [idxs_cons, List.mem_cons, List.mem_append] at h
    have hk := le_maxIdx k j
    have hs := le_maxIdx s j
    simp only [SF.maxIdx]
    rcases h with rfl | h | h
    · omega
    · have := hk h; omega
    · have := hs h; omega

theorem fresh_notMem (s : Store) : s.fresh ∉ s.forest.idxs := fun h => by
  have := le_maxIdx _ _ h
  unfold Store.fresh at this
  omega

/-! ### the operation -/

theorem create_inv (dt : Data) (s s' : Store) (ch : List Int) (data : List Nat) (nm : Int)
    (h : s.createRootNode dt ch data = some (s', nm)) :
    ∃ n1 cis, recAdd dt (freshRec dt s.fresh s.numNodes) data = some n1 ∧ nm = s.numNodes ∧
      s'.forest = .cons { n1 with r := recompR dt n1 (SF.takeRoots cis s.forest).1 }
        (SF.takeRoots cis s.forest).1 (SF.takeRoots cis s.forest).2 ∧
      s'.rootR = recompRoot dt s'.forest ∧ s'.nodeIdx = alSet s.nodeIdx nm s.fresh := by
  unfold Store.createRootNode at h
  simp only [Option.bind_eq_bind, Option.bind_eq_some_iff, Option.pure_def] at h
  obtain ⟨n1, hn1, cis, _, h⟩ := h
  split at h
  · cases h
  · simp only [Option.bind_eq_some_iff] at h
    obtain ⟨s2, hup, h⟩ := h
    cases h
    obtain ⟨i, hi, _, rfl⟩ := updatePath_some dt _ _ _ hup
    have hi' : i = s.fresh := by
      have := lookup_alSet_self s.nodeIdx (s.numNodes : Int) s.fresh
      exact Option.some.inj (hi.symm.trans this)
    subst hi'
    have hidx : n1.idx = s.fresh := (recAdd_spec dt data _ n1 hn1).1
    refine ⟨n1, cis, hn1, rfl, ?_, rfl, rfl⟩
    show (updPath dt s.fresh (SF.cons n1 _ _)).1 = _
    rw [updPath_cons, if_pos hidx]

/-- **C06, `create_root_node`** -/
theorem cacheOK_create (dt : Data) (s s' : Store) (ch : List Int) (data : List Nat) (nm : Int)
    (hc : CacheOK dt s) (h : s.createRootNode dt ch data = some (s', nm)) : CacheOK dt s' := by
  obtain ⟨n1, cis, hn1, _, hf, hr, _⟩ := create_inv dt s s' ch data nm h
  obtain ⟨_, _, _, h4, _⟩ := recAdd_spec dt data _ n1 hn1
  have htr := cacheOKsf_takeRoots dt cis s.forest hc.1
  refine ⟨?_, fun _ => hr⟩
  rw [hf]
  exact ⟨h4 (freshRec_p dt _ _), rfl, htr.1, htr.2⟩

/-- **C06, `create_root_node(children)` followed by `add_data_point_to_node(dp, new clone)`** -/
theorem cacheOK_createAdd (dt : Data) (s s1 s' : Store) (ch : List Int) (dp : Nat) (nm : Int)
    (hc : CacheOK dt s) (h : s.createRootNode dt ch [] = some (s1, nm))
    (h2 : s1.addDataPointToNode dt dp nm = some s') : CacheOK dt s' := by
  have hc1 := cacheOK_create dt s s1 ch [] nm hc h
  obtain ⟨n1, cis, hn1, _, hf, _, hni⟩ := create_inv dt s s1 ch [] nm h
  have hidx : n1.idx = s.fresh := (recAdd_spec dt [] _ n1 hn1).1
  unfold Store.addDataPointToNode at h2
  split at h2
  · cases h2
  · simp only [Option.bind_eq_bind, Option.pure_def] at h2
    split at h2
    · cases h2; exact hc1
    · simp only [Option.bind_eq_some_iff] at h2
      obtain ⟨i, hi, n, hn, n', hn', par, hpar, hup⟩ := h2
      have hi' : i = s.fresh := by
        have := lookup_alSet_self s.nodeIdx nm s.fresh
        rw [← hni] at this
        exact Option.some.inj (hi.symm.trans this)
      subst hi'
      obtain ⟨k, hfs⟩ := recAt_some hn
      rw [hf, findSub_cons, if_pos hidx] at hfs
      cases hfs
      obtain ⟨h1', _, _, h4', h5'⟩ := recAdd_spec dt [dp] _ n' hn'
      have hidx' : n'.idx = s.fresh := h1'.trans hidx
      have hnot1 : s.fresh ∉ (SF.takeRoots cis s.forest).1.idxs :=
        fun e => fresh_notMem s (idxs_takeRoots cis _ _ (Or.inl e))
      have hnot2 : s.fresh ∉ (SF.takeRoots cis s.forest).2.idxs :=
        fun e => fresh_notMem s (idxs_takeRoots cis _ _ (Or.inr e))
      -- the forest after the in-place multiplication
      have hf2 : Store.setRec s.fresh (fun _ => n') s1.forest
          = .cons n' (SF.takeRoots cis s.forest).1 (SF.takeRoots cis s.forest).2 := by
        rw [hf, setRec_cons, if_pos hidx, setRec_of_notMem _ _ _ hnot1, setRec_of_notMem _ _ _ hnot2]
      obtain ⟨i2, q, hi2, hq, rfl⟩ := getParent_some hpar
      have hi2' : i2 = s.fresh := Option.some.inj (hi2.symm.trans hi)
      subst hi2'
      change SF.parentIn s.fresh none (Store.setRec s.fresh (fun _ => n') s1.forest) = some q at hq
      rw [hf2, parentIn_cons, if_pos hidx'] at hq
      cases hq
      refine cacheOK_updatePath_none dt _ s' ?_ hup
      show CacheOKsf dt (Store.setRec s.fresh (fun _ => n') s1.forest)
      rw [hf2]
      have hc1f := hc1.1
      rw [hf] at hc1f
      exact ⟨h4' hc1f.1, h5' _ hc1f.2.1, hc1f.2.2.1, hc1f.2.2.2⟩

end PhyModel.Store.C06
