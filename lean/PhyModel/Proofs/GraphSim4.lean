import PhyModel.Proofs.GraphSim3
import PhyModel.Proofs.GraphOfDict
import PhyModel.Proofs.GraphStep
/-! Simulation of the structural store model by the graph model, part 4: handles.  `Simulates sys sys'`:
some list of legal graph-level edits takes the graphs of `sys` to graphs equivalent (`GEquiv`, handle by
handle) to the graphs of `sys'`.  One lemma per kind of store edit, in the form `Store.step` produces
the new system (`setH sys h s'`, `sys ++ [r]`). -/
namespace PhyModel.Graph
open PhyModel PhyModel.Store PhyModel.Store.SF

/-- the conclusion of `graph_step` -/
def Simulates (sys sys' : Store.Sys) : Prop :=
  ∃ gops : List GOp, (∀ o ∈ gops, GLegal o) ∧ ∃ gs', gRun (graphsOf sys) gops = some gs' ∧
    List.Forall₂ GEquiv gs' (graphsOf sys')

/-! ### lists of graphs -/

theorem forall₂_gequiv_refl : ∀ gs : GSys, List.Forall₂ GEquiv gs gs
  | [] => .nil
  | g :: gs => .cons (GEquiv.refl g) (forall₂_gequiv_refl gs)

theorem forall₂_gequiv_set {g' g'' : DG} (he : GEquiv g' g'') : ∀ (gs : GSys) (h : Nat),
    List.Forall₂ GEquiv (gs.set h g') (gs.set h g'')
  | [], _ => .nil
  | _ :: gs, 0 => .cons he (forall₂_gequiv_refl gs)
  | g :: gs, h + 1 => .cons (GEquiv.refl g) (forall₂_gequiv_set he gs h)

theorem forall₂_gequiv_append {g' g'' : DG} (he : GEquiv g' g'') : ∀ gs : GSys,
    List.Forall₂ GEquiv (gs ++ [g']) (gs ++ [g''])
  | [] => .cons he .nil
  | g :: gs => .cons (GEquiv.refl g) (forall₂_gequiv_append he gs)

theorem set_of_getElem? {α} {l : List α} {h : Nat} {v : α} (hv : l[h]? = some v) : l.set h v = l := by
  obtain ⟨hlt, rfl⟩ := List.getElem?_eq_some_iff.1 hv
  exact List.set_getElem_self hlt

theorem graphsOf_setH (sys : Store.Sys) (h : Nat) (s' : Store) :
    graphsOf (Store.setH sys h s') = (graphsOf sys).set h (graphOf s'.forest) := by
  simp [graphsOf, Store.setH, List.map_set]

theorem graphsOf_append (sys : Store.Sys) (r : Store) :
    graphsOf (sys ++ [r]) = graphsOf sys ++ [graphOf r.forest] := by
  simp [graphsOf]

theorem graphsOf_get {sys : Store.Sys} {h : Nat} {s : Store} (hs : sys[h]? = some s) :
    (graphsOf sys)[h]? = some (graphOf s.forest) := by
  simp [graphsOf, hs]

/-- replacing a store by one with the same graph leaves the graphs alone -/
theorem graphsOf_setH_same {sys : Store.Sys} {h : Nat} {s s' : Store} (hs : sys[h]? = some s)
    (hg : graphOf s'.forest = graphOf s.forest) : graphsOf (Store.setH sys h s') = graphsOf sys := by
  rw [graphsOf_setH, hg, set_of_getElem? (graphsOf_get hs)]

/-! ### building a simulation -/

theorem Simulates.nil {sys sys' : Store.Sys} (h : graphsOf sys' = graphsOf sys) : Simulates sys sys' :=
  ⟨[], by simp, graphsOf sys, rfl, h ▸ forall₂_gequiv_refl _⟩

theorem Simulates.one {sys sys' : Store.Sys} {o : GOp} {gs' : GSys} (hl : GLegal o)
    (hs : gStep (graphsOf sys) o = some gs') (hf : List.Forall₂ GEquiv gs' (graphsOf sys')) :
    Simulates sys sys' :=
  ⟨[o], by simpa using hl, gs', by simp [gRun, hs], hf⟩

/-- edits of payloads only: no graph-level edit -/
theorem sim_same {sys : Store.Sys} {h : Nat} {s s' : Store} (hs : sys[h]? = some s)
    (hg : graphOf s'.forest = graphOf s.forest) : Simulates sys (Store.setH sys h s') :=
  .nil (graphsOf_setH_same hs hg)

/-- `create_root_node` (followed by any edit `s''` of the result that leaves the graph alone) -/
theorem sim_create {dt : Data} {sys : Store.Sys} {h : Nat} {s s'' : Store} {ch : List Int} {d : List Nat}
    {r : Store × Int} (hwf : WF s) (hs : sys[h]? = some s) (hr : s.createRootNode dt ch d = some r)
    (hg : graphOf s''.forest = graphOf r.1.forest) : Simulates sys (Store.setH sys h s'') := by
  obtain ⟨cis, g', hcis, hc, hn, he⟩ := graph_store_createRootNode hwf hr
  refine .one (o := .create h s.fresh cis) (createRootNode_kids hwf hr hcis)
    (gs' := (graphsOf sys).set h g') (by simp [gStep, graphsOf_get hs, hc]) ?_
  rw [graphsOf_setH, hg]
  exact forall₂_gequiv_set ⟨hn, he⟩ _ _

/-- `get_subtree(root)` and `copy()` -/
theorem sim_copy {sys : Store.Sys} {h : Nat} {s : Store} (hs : sys[h]? = some s) : Simulates sys (sys ++ [s]) := by
  refine .one (o := .copy h) trivial (gs' := graphsOf sys ++ [graphOf s.forest])
    (by simp [gStep, graphsOf_get hs, gCopy]) ?_
  rw [graphsOf_append]
  exact forall₂_gequiv_refl _

/-- `get_subtree(clone)`; reading `_data` of the clones touches the source store -/
theorem sim_getSub {dt : Data} {sys : Store.Sys} {h : Nat} {s r : Store} {name : Int} (hwf : WF s)
    (hs : sys[h]? = some s) (hr : s.getSubtree dt (some name) = some r) :
    Simulates sys (Store.setH sys h (s.touch r.nodes) ++ [r]) := by
  obtain ⟨i, m₂, g', hg, he⟩ := graph_store_getSubtree hwf hr
  refine .one (o := .getSub h i [] m₂) trivial (gs' := graphsOf sys ++ [g'])
    (by simp [gStep, graphsOf_get hs, hg]) ?_
  rw [graphsOf_append, graphsOf_setH_same hs (graphOf_touch s r.nodes)]
  exact forall₂_gequiv_append he _

/-- `remove_subtree` -/
theorem sim_rmSub {dt : Data} {sys : Store.Sys} {h hsub : Nat} {s sb r : Store} (hwf : WF s)
    (hs : sys[h]? = some s) (hsb : sys[hsub]? = some sb) (hr : s.removeSubtree dt sb = some r) :
    Simulates sys (Store.setH (Store.setH sys hsub sb) h r) := by
  have hsame : Store.setH sys hsub sb = sys := set_of_getElem? hsb
  rw [hsame]
  rcases graph_store_removeSubtree hwf hr with ⟨_, hi⟩ | ⟨i, g', hg, hi0, he⟩
  · refine .one (o := .reinit h) trivial (gs' := (graphsOf sys).set h gInit)
      (by simp [gStep, graphsOf_get hs]) ?_
    rw [graphsOf_setH, hi]
    exact forall₂_gequiv_refl _
  · refine .one (o := .rmSub h i) hi0 (gs' := (graphsOf sys).set h g')
      (by simp [gStep, graphsOf_get hs, hg]) ?_
    rw [graphsOf_setH]
    exact forall₂_gequiv_set he _ _

/-- `add_subtree` -/
theorem sim_addSub {dt : Data} {sys : Store.Sys} {h hsub : Nat} {s sb r : Store} {par : Option Int}
    (hwf : WF s) (hwsb : WF sb) (hs : sys[h]? = some s) (hsb : sys[hsub]? = some sb)
    (hr : s.addSubtree dt sb par = some r) : Simulates sys (Store.setH sys h r) := by
  obtain ⟨p, m, g', hg, he⟩ := graph_store_addSubtree hwf hwsb hr
  refine .one (o := .addSub h hsub p m) trivial (gs' := (graphsOf sys).set h g')
    (by simp [gStep, graphsOf_get hs, graphsOf_get hsb, gCopy, hg]) ?_
  rw [graphsOf_setH]
  exact forall₂_gequiv_set he _ _

/-- `Tree(grid_size)` -/
theorem sim_fresh (dt : Data) (sys : Store.Sys) : Simulates sys (sys ++ [Store.init dt]) := by
  refine .one (o := .fresh) trivial (gs' := graphsOf sys ++ [gInit]) rfl ?_
  rw [graphsOf_append]
  exact forall₂_gequiv_refl _

/-- `from_dict(to_dict())`: the dictionary handed to `from_dict` is the dictionary form of a forest -/
theorem sim_dictRT {dt : Data} {sys : Store.Sys} {h : Nat} {s r : Store} (hinv : WF s ∧ Full s)
    (hs : sys[h]? = some s) (hr : Store.fromDict dt s.toDict = some r) :
    Simulates sys (Store.setH sys h r) := by
  obtain ⟨hn, he⟩ := graph_fromDict hinv hr
  have hw := hinv.1
  have hlive : (0 :: s.forest.idxs).Perm (0 :: s.toDict.nodeIdxRev.map (·.1)) := by
    refine List.Perm.cons _ ?_
    have := (hw.m.2.map (·.1)).symm
    simpa [SF.idxs, Store.toDict, List.map_map, Function.comp_def] using this
  have hleg : GLegal (.fromDict h s.toDict.edges (0 :: s.toDict.nodeIdxRev.map (·.1))) :=
    show IsForest _ from (isForest_graphOf hw.idxs_nodup (WF.zero_notMem hw)).of_perm (by exact hlive) (.refl _)
  refine .one (o := .fromDict h s.toDict.edges (0 :: s.toDict.nodeIdxRev.map (·.1))) hleg
    (gs' := (graphsOf sys).set h (gFromDict s.toDict.edges (0 :: s.toDict.nodeIdxRev.map (·.1))))
    (by simp [gStep, graphsOf_get hs]) ?_
  rw [graphsOf_setH]
  exact forall₂_gequiv_set ⟨hn, he⟩ _ _

end PhyModel.Graph
