import PhyModel.Proofs.MovesDist
import Mathlib.Data.List.Sort
/-! Forest equivalence (same tree up to the order of siblings and of the data inside a clone) and
the elementary facts about `sortNat`, `listMin`, `minDp`, `roots`, `ofRoots`, `insertSorted`
needed to show that `Forest.canon` is a canonical form for it. -/
namespace PhyModel
open Orders Orders.Forest

namespace Canon

/-! ### `sortNat` is insertion sort -/

theorem insertNat_eq (a : Nat) (l : List Nat) : insertNat a l = l.orderedInsert (· ≤ ·) a := by
  induction l with
  | nil => rfl
  | cons b l ih => simp only [insertNat, List.orderedInsert_cons, ih]

theorem sortNat_eq (l : List Nat) : sortNat l = l.insertionSort (· ≤ ·) := by
  induction l with
  | nil => rfl
  | cons a l ih =>
    have : sortNat (a :: l) = insertNat a (sortNat l) := rfl
    rw [this, ih, insertNat_eq]; rfl

theorem sortNat_perm (l : List Nat) : (sortNat l).Perm l := by
  rw [sortNat_eq]; exact List.perm_insertionSort _ l

theorem sortNat_sorted (l : List Nat) : (sortNat l).Pairwise (· ≤ ·) := by
  rw [sortNat_eq]; exact List.pairwise_insertionSort _ l

theorem sortNat_congr {l l' : List Nat} (h : l.Perm l') : sortNat l = sortNat l' :=
  List.Perm.eq_of_pairwise' (r := (· ≤ ·)) (sortNat_sorted l) (sortNat_sorted l')
    ((sortNat_perm l).trans (h.trans (sortNat_perm l').symm))

theorem sortNat_of_sorted {l : List Nat} (h : l.Pairwise (· ≤ ·)) : sortNat l = l :=
  List.Perm.eq_of_pairwise' (r := (· ≤ ·)) (sortNat_sorted l) h (sortNat_perm l)

theorem sortNat_idem (l : List Nat) : sortNat (sortNat l) = sortNat l :=
  sortNat_of_sorted (sortNat_sorted l)

theorem mem_sortNat {a : Nat} {l : List Nat} : a ∈ sortNat l ↔ a ∈ l := (sortNat_perm l).mem_iff

/-! ### `listMin`, `minDp` -/

theorem listMin_le (l : List Nat) (m : Nat) : listMin l m ≤ m := by
  induction l generalizing m with
  | nil => exact Nat.le_refl _
  | cons a l ih =>
    simp only [listMin]
    split
    · exact Nat.le_trans (ih a) (by omega)
    · exact ih m

theorem listMin_le_mem (l : List Nat) (m : Nat) : ∀ a ∈ l, listMin l m ≤ a := by
  induction l generalizing m with
  | nil => simp
  | cons b l ih =>
    intro a ha
    simp only [listMin]
    rcases List.mem_cons.mp ha with rfl | ha
    · split
      · exact listMin_le l a
      · exact Nat.le_trans (listMin_le l m) (by omega)
    · exact ih _ a ha

theorem listMin_mem (l : List Nat) (m : Nat) : listMin l m = m ∨ listMin l m ∈ l := by
  induction l generalizing m with
  | nil => left; rfl
  | cons b l ih =>
    simp only [listMin]
    split
    · rcases ih b with h | h
      · right; rw [h]; exact List.mem_cons_self
      · right; exact List.mem_cons_of_mem _ h
    · rcases ih m with h | h
      · left; exact h
      · right; exact List.mem_cons_of_mem _ h

/-- `listMin` is characterised by its specification, hence invariant under permutation -/
theorem listMin_unique {l : List Nat} {m v : Nat} (h1 : v ≤ m) (h2 : ∀ a ∈ l, v ≤ a)
    (h3 : v = m ∨ v ∈ l) : v = listMin l m := by
  apply Nat.le_antisymm
  · rcases listMin_mem l m with h | h
    · rw [h]; exact h1
    · exact h2 _ h
  · rcases h3 with h | h
    · rw [h]; exact listMin_le l m
    · exact listMin_le_mem l m v h

theorem listMin_perm {l l' : List Nat} (h : l.Perm l') (m : Nat) : listMin l m = listMin l' m := by
  apply listMin_unique (listMin_le l m)
  · intro a ha; exact listMin_le_mem l m a (h.mem_iff.mpr ha)
  · rcases listMin_mem l m with h' | h'
    · left; exact h'
    · right; exact h.mem_iff.mp h'

theorem listMin_append (l₁ l₂ : List Nat) (m : Nat) :
    listMin (l₁ ++ l₂) m = listMin l₂ (listMin l₁ m) := by
  induction l₁ generalizing m with
  | nil => rfl
  | cons a l ih => simp only [List.cons_append, listMin, ih]

theorem minDp_eq (f : DF) (m : Nat) : minDp f m = listMin f.all m := by
  induction f generalizing m with
  | nil => rfl
  | cons d k s ihk ihs =>
    simp only [minDp, Forest.all, ihk, ihs, listMin_append]
    congr 1
    rw [← listMin_append, ← listMin_append]
    exact listMin_perm List.perm_append_comm m

/-- the data of a whole clade -/
def clade (r : List Nat × DF) : List Nat := r.2.all ++ r.1

theorem rootKey_eq (r : List Nat × DF) : rootKey r = listMin (clade r) big := by
  unfold rootKey clade
  rw [minDp_eq, listMin_append]
  rw [← listMin_append, ← listMin_append]
  exact listMin_perm List.perm_append_comm big

theorem rootKey_congr {r r' : List Nat × DF} (h : (clade r).Perm (clade r')) : rootKey r = rootKey r' := by
  rw [rootKey_eq, rootKey_eq]; exact listMin_perm h big

theorem rootKey_mem {r : List Nat × DF} (hne : r.1 ≠ []) (hbig : ∀ a ∈ clade r, a < big) :
    rootKey r ∈ clade r := by
  rw [rootKey_eq]
  rcases listMin_mem (clade r) big with h | h
  · exfalso
    obtain ⟨a, ha⟩ := List.exists_mem_of_ne_nil _ hne
    have ha' : a ∈ clade r := by unfold clade; exact List.mem_append_right _ ha
    have := listMin_le_mem (clade r) big a ha'
    have := hbig a ha'
    omega
  · exact h

/-! ### `roots` / `ofRoots` -/

@[simp] theorem roots_ofRoots (l : List (List Nat × DF)) : roots (ofRoots l) = l := by
  induction l with
  | nil => rfl
  | cons r l ih => obtain ⟨d, k⟩ := r; simp only [ofRoots, roots, ih]

@[simp] theorem ofRoots_roots (f : DF) : ofRoots (roots f) = f := by
  induction f with
  | nil => rfl
  | cons d k s _ ihs => simp only [roots, ofRoots, ihs]

theorem insertSorted_perm (r : List Nat × DF) (l : List (List Nat × DF)) :
    (insertSorted r l).Perm (r :: l) := by
  induction l with
  | nil => exact List.Perm.refl _
  | cons x l ih =>
    simp only [insertSorted]
    split
    · exact List.Perm.refl _
    · exact (List.Perm.cons x ih).trans (List.Perm.swap r x l)

/-- insertion of two roots with different keys commutes (no sortedness needed) -/
theorem insertSorted_comm (r₁ r₂ : List Nat × DF) (hk : rootKey r₁ ≠ rootKey r₂)
    (l : List (List Nat × DF)) :
    insertSorted r₁ (insertSorted r₂ l) = insertSorted r₂ (insertSorted r₁ l) := by
  induction l with
  | nil =>
    simp only [insertSorted]
    by_cases h : rootKey r₁ ≤ rootKey r₂
    · have h' : ¬ rootKey r₂ ≤ rootKey r₁ := by omega
      simp [h, h', insertSorted]
    · have h' : rootKey r₂ ≤ rootKey r₁ := by omega
      simp [h, h', insertSorted]
  | cons x l ih =>
    simp only [insertSorted]
    by_cases h1 : rootKey r₁ ≤ rootKey x <;> by_cases h2 : rootKey r₂ ≤ rootKey x
    · simp only [h1, h2, if_true, insertSorted]
      by_cases h : rootKey r₁ ≤ rootKey r₂
      · have h' : ¬ rootKey r₂ ≤ rootKey r₁ := by omega
        simp [h, h', h2]
      · have h' : rootKey r₂ ≤ rootKey r₁ := by omega
        simp [h, h', h1]
    · have h : rootKey r₁ ≤ rootKey r₂ := by omega
      have h' : ¬ rootKey r₂ ≤ rootKey r₁ := by omega
      simp [h1, h2, insertSorted, h']
    · have h : rootKey r₂ ≤ rootKey r₁ := by omega
      have h' : ¬ rootKey r₁ ≤ rootKey r₂ := by omega
      simp [h1, h2, insertSorted, h']
    · simp [h1, h2, insertSorted, ih]

end Canon
end PhyModel
