import PhyModel.Proofs.Sweep1
import PhyModel.Proofs.MovesDp
import PhyModel.Proofs.MovesDpBlock3
import PhyModel.Proofs.MovesPrBlock4
/-! # Whole sweep, part 2: every kernel of the sweep, and the sweep, leave `pOne` invariant on the
common state space `Sweep.space c D`.

`Gibbs.Inv S π K` is the expectation form `Σ_{x∈S} π x · E[h(K x)] = Σ_{x∈S} π x · h x` for every test
function `h`.  `pgStep_inv` transports C01 (`PG.pg_invariant_abstract` + `PG.pgStep_E`) to that form;
`dataPointMove_inv` and `pruneRegraft_inv` are C04's theorems with their hypotheses discharged on
`space c D` (part 1); `Inv.comp` composes them. -/

namespace PhyModel.Sweep
open Orders Orders.Forest Proposal PGSpec PG RunOK Moves Gibbs Dist Finset BigOperators

variable {dt : Data} {c : Proposal.Cfg} {D : List ℕ}

/-- **C01 on the common state space**: the whole-tree particle-Gibbs update leaves `pOne` invariant -/
theorem pgStep_inv (h : HypD dt c D) (θ : ℚ) (m : ℕ) :
    Inv (space c D) (pOneT dt c) (SMC.pgStep (runOf dt c m θ)) := by
  intro hh
  rw [← sum_piD_eq_lsum (fun x => E (SMC.pgStep (runOf dt c m θ) x) hh), ← sum_piD_eq_lsum hh]
  have e1 : ∀ s : St (allStates c D), piD dt c D s.1 * E (SMC.pgStep (runOf dt c m θ) s.1) hh
      = ∑ y : St (allStates c D), (piD dt c D s.1 * pgKernel dt c D (uN m) θ m (uN m) s y) * hh y.1 := by
    intro s
    by_cases hs : s.1 ∈ finals c D
    · rw [pgStep_E h θ m s hs hh, Finset.mul_sum]
      apply Finset.sum_congr rfl; intro y _; ring
    · have : piD dt c D s.1 = 0 := by unfold piD; rw [if_neg hs]
      simp [this]
  simp only [e1]
  rw [Finset.sum_comm]
  apply Finset.sum_congr rfl
  intro y _
  rw [← Finset.sum_mul, pg_invariant_abstract h (uN m) (uN_pos m) θ m (uN m) (uN_pos m) y]

/-- **C04 (data-point move) on the common state space** -/
theorem dataPointMove_inv (h : HypD dt c D) :
    Inv (space c D) (pOneT dt c) (dataPointMove (mvCfg dt c)) :=
  dataPointMove_invariant_of_steps (mvCfg dt c) (space c D) D h.nodup (space_data h)
    (fun i hi => Canon.dpStep_invariant (mvCfg dt c) i (space c D) (space_nodup c D) (space_wf h) (space_out h)
      (space_dp_closed h i hi) (space_pOne_nonneg h))

/-- **C04 (prune-regraft move) on the common state space** -/
theorem pruneRegraft_inv (h : HypD dt c D) :
    Inv (space c D) (pOneT dt c) (pruneRegraft (mvCfg dt c)) :=
  Canon.pruneRegraft_invariant (mvCfg dt c) (space c D) (space_nodup c D) (space_wf h) (space_pr_closed h)
    (space_pOne_nonneg h)

/-- `k` successive draws from an invariant kernel -/
theorem iter_inv {S : List T} {μ : T → ℚ} {K : T → Dist T} (hK : Inv S μ K) : ∀ k, Inv S μ (iter K k)
  | 0 => Inv.pure S μ
  | k+1 => (Inv.comp hK (iter_inv hK k)).congr (fun x _ hh => by simp only [iter]; rw [E_norm])

/-- the sweep as a composition of its kernels -/
theorem sweep_inv_of {S : List T} {μ : T → ℚ} {r : SMC.Run} {mv : Moves.Cfg}
    (h₁ : Inv S μ (SMC.pgStep r)) (h₂ : Inv S μ (dataPointMove mv)) (h₃ : Inv S μ (pruneRegraft mv))
    (k₁ k₂ : ℕ) : Inv S μ (sweepModel r mv k₁ k₂) :=
  (Inv.comp h₁ (Inv.comp (iter_inv h₂ k₁) (iter_inv h₃ k₂))).congr
    (fun x _ hh => by unfold sweepModel; rw [E_norm])

/-- **the sweep leaves `pOne` invariant** (expectation form) -/
theorem sweep_inv (h : HypD dt c D) (θ : ℚ) (m k₁ k₂ : ℕ) :
    Inv (space c D) (pOneT dt c) (sweepModel (runOf dt c m θ) (mvCfg dt c) k₁ k₂) :=
  sweep_inv_of (pgStep_inv h θ m) (dataPointMove_inv h) (pruneRegraft_inv h) k₁ k₂

/-- **any number of sweeps leaves `pOne` invariant** (expectation form) -/
theorem chain_inv (h : HypD dt c D) (θ : ℚ) (m k₁ k₂ n : ℕ) :
    Inv (space c D) (pOneT dt c) (chainModel (runOf dt c m θ) (mvCfg dt c) k₁ k₂ n) :=
  iter_inv (sweep_inv h θ m k₁ k₂) n

/-- target form of an invariant kernel, also for targets outside the state list (both sides vanish) -/
theorem Inv.target' {S : List T} {μ : T → ℚ} {K : T → Dist T} (hK : Inv S μ K) (hS : S.Nodup) (y : T) :
    lsum S (fun x => μ x * prob (K x) y) = if y ∈ S then μ y else 0 := by
  by_cases hy : y ∈ S
  · rw [if_pos hy]; exact hK.target hS hy
  · rw [if_neg hy]
    unfold prob
    rw [hK, lsum_congr S (H := fun _ => 0), lsum_zero]
    intro x hx
    have : x ≠ y := fun e => hy (e ▸ hx)
    simp [this]

/-- from the list form to the form of C01: sum over the subtype of `allStates c D`, target `piD` -/
theorem subtype_form {K : T → Dist T} (hK : Inv (space c D) (pOneT dt c) K) (y : T) :
    ∑ x : St (allStates c D), piD dt c D x.1 * E (K x.1) (fun z => if z = y then 1 else 0) = piD dt c D y := by
  rw [sum_piD_eq_lsum (fun x => E (K x) (fun z => if z = y then 1 else 0)), piD_eq]
  exact Inv.target' hK (space_nodup c D) y

/-- a list sum over a duplicate-free list is the sum over its subtype -/
theorem lsum_eq_sum_St (S : List T) (hS : S.Nodup) (F : T → ℚ) : lsum S F = ∑ x : St S, F x.1 := by
  rw [← sum_indicator_lsum S F S hS (fun a ha => ha)]
  apply Finset.sum_congr rfl
  intro s _
  rw [if_pos s.2]

/-- target form on the finite type of the complete trees on `D` -/
theorem target_form {K : T → Dist T} (hK : Inv (space c D) (pOneT dt c) K) (y : St (space c D)) :
    ∑ x : St (space c D), pOneT dt c x.1 * E (K x.1) (fun z => if z = y.1 then 1 else 0) = pOneT dt c y.1 := by
  rw [← lsum_eq_sum_St (space c D) (space_nodup c D)
    (fun x => pOneT dt c x * E (K x) (fun z => if z = y.1 then 1 else 0))]
  exact hK.target (space_nodup c D) y.2

end PhyModel.Sweep
