import PhyModel.Proofs.StoreWF_Facts
/-! Shared helpers for the data-point edits (C07): rewriting payloads by a map that keeps `name` and
`idx`, replacing one `_data` entry, and what `recAdd` / `recRemove` return. -/
namespace PhyModel.Store
open PhyModel PhyModel.Store PhyModel.Store.Store SF AL

theorem map_name_of_keep {rs : List NodeRec} {g : NodeRec → NodeRec}
    (hg : ∀ m ∈ rs, (g m).name = m.name ∧ (g m).idx = m.idx) :
    (rs.map g).map (·.name) = rs.map (·.name) := by
  rw [List.map_map]; exact List.map_congr_left fun m hm => (hg m hm).1

theorem map_idx_of_keep {rs : List NodeRec} {g : NodeRec → NodeRec}
    (hg : ∀ m ∈ rs, (g m).name = m.name ∧ (g m).idx = m.idx) :
    (rs.map g).map (·.idx) = rs.map (·.idx) := by
  rw [List.map_map]; exact List.map_congr_left fun m hm => (hg m hm).2

theorem WFG.mapg {rs : List NodeRec} {g : NodeRec → NodeRec}
    (hg : ∀ m ∈ rs, (g m).name = m.name ∧ (g m).idx = m.idx) (h : WFG rs) : WFG (rs.map g) := by
  refine ⟨(map_name_of_keep hg) ▸ h.names_nodup, (map_idx_of_keep hg) ▸ h.idxs_nodup, ?_, ?_⟩
  · intro n hn; obtain ⟨m, hm, rfl⟩ := List.mem_map.1 hn
    rw [(hg m hm).2]; exact h.idx_pos m hm
  · intro n hn; obtain ⟨m, hm, rfl⟩ := List.mem_map.1 hn
    rw [(hg m hm).1]; exact h.name_nonneg m hm

theorem WFM.mapg {rs : List NodeRec} {ni nir} {g : NodeRec → NodeRec}
    (hg : ∀ m ∈ rs, (g m).name = m.name ∧ (g m).idx = m.idx) (h : WFM rs ni nir) : WFM (rs.map g) ni nir := by
  have h1 : (rs.map g).map (fun n => (n.name, n.idx)) = rs.map (fun n => (n.name, n.idx)) := by
    rw [List.map_map]; exact List.map_congr_left fun m hm => by simp [(hg m hm).1, (hg m hm).2]
  have h2 : (rs.map g).map (fun n => (n.idx, n.name)) = rs.map (fun n => (n.idx, n.name)) := by
    rw [List.map_map]; exact List.map_congr_left fun m hm => by simp [(hg m hm).1, (hg m hm).2]
  exact ⟨h1 ▸ h.1, h2 ▸ h.2⟩

/-- replace the `_data` entry of `node` by `v` while the payloads are rewritten accordingly -/
theorem WFD.mapg_alSet {rs : List NodeRec} {data : List (Int × List Nat)} {g : NodeRec → NodeRec}
    {node : Int} {v : List Nat} (h : WFD rs data)
    (hg : ∀ m ∈ rs, (g m).name = m.name ∧ (g m).idx = m.idx)
    (hkey : node = outKey ∨ node ∈ rs.map (·.name))
    (hpay : ∀ m ∈ rs, (g m).dps.Perm (if m.name = node then v else dOf data m.name))
    (hnd : (v ++ vals (alDel data node)).Nodup) : WFD (rs.map g) (alSet data node v) := by
  refine ⟨nodup_keys_alSet _ h.data_keys, fun k hk => ?_, fun n hn => ?_, ?_⟩
  · rw [map_name_of_keep hg]
    rcases (mem_keys_alSet _).1 hk with rfl | h1
    · exact hkey
    · exact h.data_sub k h1
  · obtain ⟨m, hm, rfl⟩ := List.mem_map.1 hn
    rw [(hg m hm).1]
    have := hpay m hm
    by_cases hmn : m.name = node
    · rw [if_pos hmn] at this; rw [hmn, dOf_alSet_self]; exact this
    · rw [if_neg hmn] at this; rw [dOf_alSet_ne hmn]; exact this
  · exact (vals_alSet_perm h.data_keys node v).nodup_iff.2 hnd

theorem nodup_add_dp {data : List (Int × List Nat)} (hk : (keys data).Nodup) (hv : (vals data).Nodup)
    {dp : Nat} (hdp : dp ∉ vals data) (node : Int) :
    ((dOf data node ++ [dp]) ++ vals (alDel data node)).Nodup := by
  have hp : ((dOf data node ++ [dp]) ++ vals (alDel data node)).Perm (dp :: vals data) := by
    refine List.Perm.trans ?_ (List.Perm.cons dp (vals_perm_split hk node).symm)
    rw [List.append_assoc]
    exact (List.perm_append_comm_assoc _ _ _).trans (by simp)
  rw [hp.nodup_iff]; exact List.nodup_cons.2 ⟨hdp, hv⟩

theorem nodup_erase_dp {data : List (Int × List Nat)} (hk : (keys data).Nodup) (hv : (vals data).Nodup)
    (dp : Nat) (node : Int) : (((dOf data node).erase dp) ++ vals (alDel data node)).Nodup := by
  have h := (vals_perm_split hk node).nodup_iff.1 hv
  exact h.sublist ((List.erase_sublist).append_right _)

/-- `recAdd` keeps index and name and appends the data points -/
theorem recAdd_fields {dt : Data} {n n' : NodeRec} {dps : List Nat} (h : recAdd dt n dps = some n') :
    n'.idx = n.idx ∧ n'.name = n.name ∧ n'.dps = n.dps ++ dps := by
  unfold recAdd at h
  induction dps generalizing n with
  | nil => simp at h; subst h; simp
  | cons d l ih =>
    simp only [List.foldlM_cons, Option.bind_eq_bind, Option.bind_eq_some_iff] at h
    obtain ⟨m, hm, h⟩ := h
    split at hm
    · cases hm
    · simp only [Option.some.injEq] at hm; subst hm
      obtain ⟨h1, h2, h3⟩ := ih h
      exact ⟨h1, h2, by simp [h3]⟩

theorem recRemove_fields {dt : Data} {n n' : NodeRec} {dp : Nat} (h : recRemove dt n dp = some n') :
    n'.idx = n.idx ∧ n'.name = n.name ∧ n'.dps = n.dps.erase dp ∧ dp ∈ n.dps := by
  unfold recRemove at h
  split at h
  · rename_i hc
    simp only [Option.some.injEq] at h; subst h
    exact ⟨rfl, rfl, rfl, by simpa using hc⟩
  · cases h

theorem recAt_some {s : Store} {i : Nat} {n : NodeRec} (h : s.recAt i = some n) :
    ∃ x, s.forest.findSub i = some x ∧ x.1 = n := by
  simpa [recAt, Option.map_eq_some_iff] using h

end PhyModel.Store
