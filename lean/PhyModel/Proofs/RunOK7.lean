import PhyModel.Proofs.RunOK6
import PhyModel.Proofs.TraceEntries
import PhyModel.Proofs.DictInv
import PhyModel.Proofs.StoreCache_Legal
import PhyModel.Proofs.StoreCache_relabel
import PhyModel.Proofs.StoreWF_StepAl
import PhyModel.Proofs.StoreWF_Labels
import PhyModel.Proofs.StoreWF_relabelAl
/-! # C19, run-level composition, part 7: the recorded trace.

The stateful main loop `TraceLoop.runMain` (C15) carries a *store* (the model of `phyclone.tree.Tree`,
C06/C07), the sampler models are distributions on *trees up to labelling* (`T`).  `absT` forgets
names, graph indices and caches.  The sampler oracle of the loop is constrained on both sides:

* store side — what it returns is reached from the current store by a history of `Legal` edits
  (`LegalFrom`; `Legal` is C07's formal content of "the edits the samplers compose"), so C07 `inv_run`
  and C06 `cacheOK_run_legal` give the store invariants of the result;
* tree side — the tree it returns is *listed* by the sweep model (`SweepOut`) for the current tree,
  for some outcome of every draw and some concentration value.

Then every chain state — after any number of burn-in sweeps and any number of main sweeps — satisfies
the store invariants and represents a complete well-formed tree, and every recorded entry restores to
such a tree with the recorded, positive, `log_p_one`. -/

namespace PhyModel.RunOK
open PhyModel PhyModel.Store PhyModel.Store.Store PhyModel.TraceLoop Orders Orders.Forest

/-- the tree a store represents, up to names, graph indices and caches -/
def absT (s : Store) : T := T.mk' s.abs.1 s.abs.2

/-- the shared store invariants: C07 (`WF`, `Full`, `Aligned`) and C06 (`CacheOK`) -/
def SInv (dt : Data) (s : Store) : Prop := WF s ∧ Full s ∧ CacheOK dt s ∧ Aligned s

/-- `s'` is one of the live trees after a history of edits started from the single tree `s`, each
edit `Legal` in the state where it is applied and mentioning only data points of the data set -/
def LegalFrom (dt : Data) (s s' : Store) : Prop :=
  ∃ (ops : List Op) (sys : Sys) (h : ℕ), LegalRun dt [s] ops ∧ (∀ op ∈ ops, C06.InRange dt op) ∧
    run dt [s] ops = some sys ∧ sys[h]? = some s'

theorem sinv_of_legalFrom {dt : Data} (hNZ : DataNZ dt) {s s' : Store} (hs : SInv dt s)
    (h : LegalFrom dt s s') : SInv dt s' := by
  obtain ⟨ops, sys, hd, hleg, hin, hrun, hget⟩ := h
  have hmem : s' ∈ sys := List.mem_of_getElem? hget
  have h7 : ∀ t ∈ sys, Store.Inv t :=
    inv_run (fun t ht => by
      simp only [List.mem_singleton] at ht
      subst ht
      exact ⟨hs.1, hs.2.1, hs.2.2.2⟩) hleg hrun
  have h6 : ∀ t ∈ sys, CacheOK dt t :=
    C06.cacheOK_run_legal dt hNZ ops [s] sys (fun t ht => by
      simp only [List.mem_singleton] at ht
      subst ht
      exact ⟨hs.1, hs.2.1⟩) hleg hin (fun t ht => by
      simp only [List.mem_singleton] at ht
      subst ht
      exact hs.2.2.1) hrun
  exact ⟨(h7 s' hmem).1, (h7 s' hmem).2.1, h6 s' hmem, (h7 s' hmem).2.2⟩

/-- the empty tree `Tree(grid_size)` satisfies the store invariants -/
theorem sinv_init (dt : Data) : SInv dt (Store.init dt) :=
  ⟨(inv_init' dt).1, (inv_init' dt).2.1, C06.cacheOK_init dt, (inv_init' dt).2.2⟩

theorem sinv_relabel {dt : Data} {s : Store} (hs : SInv dt s) : SInv dt s.relabelNodes :=
  ⟨(relabelNodes_inv hs.1).1.1, (relabelNodes_inv hs.1).1.2, C06.cacheOK_relabel dt s hs.2.2.1,
    relabelNodes_aligned hs.1 hs.2.2.2⟩

theorem absT_relabel (s : Store) : absT s.relabelNodes = absT s := by
  unfold absT Store.abs
  rw [relabelNodes_toDF, relabelNodes_outliers]

theorem absT_normRoot (dt : Data) (s : Store) : absT (normRoot dt s) = absT s := by
  unfold normRoot
  split <;> rfl

/-- a chain state: the store invariants hold and the store represents a well-formed tree on `D` -/
def StOK (p : Params) (D : List ℕ) (s : Store) : Prop := SInv p.dt s ∧ Holds p.c D (absT s)

/-- **the sampler oracle realises the sweep model** of phase `ph` in iteration `i` at the store `s`:
what it returns is reached from `s` by a legal edit history, and the tree it represents is listed by
the sweep model for the tree `s` represents (for some concentration value) -/
def RealisesAt (p : Params) (ph : Phase) (mv : ℕ → Store → Store) (i : ℕ) (s : Store) : Prop :=
  LegalFrom p.dt s (mv i s) ∧ ∃ α, SweepOut p ph α (absT s) (absT (mv i s))

/-- the same on every chain state (a stronger hypothesis) -/
def Realises (p : Params) (D : List ℕ) (ph : Phase) (mv : ℕ → Store → Store) : Prop :=
  ∀ i s, StOK p D s → RealisesAt p ph mv i s

theorem stOK_step {p : Params} {D : List ℕ} (hNZ : DataNZ p.dt) {ph : Phase} {mv : ℕ → Store → Store}
    {i : ℕ} {s : Store} (hR : RealisesAt p ph mv i s) (hs : StOK p D s) : StOK p D (mv i s).relabelNodes := by
  obtain ⟨hleg, α, hsw⟩ := hR
  refine ⟨sinv_relabel (sinv_of_legalFrom hNZ hs.1 hleg), ?_⟩
  rw [absT_relabel]
  exact sweep_holds p ph α hs.2 hsw

/-- the tree after `b` burn-in iterations (sampler, auxiliary moves, `relabel_nodes`) -/
def burnState (mv : ℕ → Store → Store) : ℕ → Store → Store
  | 0, s => s
  | b + 1, s => (mv b (burnState mv b s)).relabelNodes

theorem burnState_ok {p : Params} {D : List ℕ} (hNZ : DataNZ p.dt) {mv : ℕ → Store → Store} {s0 : Store}
    (h0 : StOK p D s0) : ∀ b, (∀ i, i < b → RealisesAt p .burnin mv i (burnState mv i s0)) →
      StOK p D (burnState mv b s0) := by
  intro b
  induction b with
  | zero => intro _; exact h0
  | succ b ih =>
    intro hR
    exact stOK_step hNZ (hR b (Nat.lt_succ_self b)) (ih fun i hi => hR i (Nat.lt_succ_of_lt hi))

theorem stateAt_ok {p : Params} {D : List ℕ} (hNZ : DataNZ p.dt) {o : Oracles} (cu : Bool) {st0 : St}
    (h0 : StOK p D st0.tree) : ∀ k, (∀ i, i < k → RealisesAt p .main o.moves i (stateAt o cu st0 i).tree) →
      StOK p D (stateAt o cu st0 k).tree := by
  intro k
  induction k with
  | zero => intro _; exact h0
  | succ k ih =>
    intro hR
    exact stOK_step hNZ (hR k (Nat.lt_succ_self k)) (ih fun i hi => hR i (Nat.lt_succ_of_lt hi))

theorem stateAt_alpha_pos {o : Oracles} (hc : ∀ i α s, 0 < α → 0 < o.conc i α s) (cu : Bool) {st0 : St}
    (h0 : 0 < st0.alpha) : ∀ k, 0 < (stateAt o cu st0 k).alpha := by
  intro k
  induction k with
  | zero => exact h0
  | succ k ih =>
    show 0 < (body o cu k (stateAt o cu st0 k)).alpha
    unfold body
    simp only
    split
    · exact hc _ _ _ ih
    · exact ih

/-- every entry of the trace is built from a chain state reached within the `num_iters` iterations -/
theorem mem_trace_le (dt : Data) (o : Oracles) (cu : Bool) (thin numIters : ℕ) (st0 : St) (e : Entry)
    (he : e ∈ (runMain dt o cu thin numIters st0).1) :
    ∃ j t k, k ≤ numIters ∧ e = mkEntry dt j t (stateAt o cu st0 k) := by
  obtain ⟨m, hm, hle, _⟩ := runMain_spec dt o cu thin numIters st0
  rw [hm] at he
  simp only [List.mem_cons, List.mem_map] at he
  rcases he with rfl | ⟨j, hj, rfl⟩
  · exact ⟨0, o.clock 0, 0, Nat.zero_le _, rfl⟩
  · refine ⟨j, o.clock j, j + 1, ?_, rfl⟩
    have : j < m := by
      have := (List.mem_filter.1 hj).1
      simp only [List.mem_range'_1] at this
      omega
    omega

/-- a store representing a tree on `0 .. n-1` lists every data point exactly once -/
theorem dataComplete_of_holds {c : Proposal.Cfg} {n : ℕ} {s : Store} (hw : WF s)
    (h : Holds c (List.range n) (absT s)) : dataCompleteB n s = true := by
  have h1 : (s.labels.map (·.1)).Perm (List.range n) := by
    refine hw.abs_perm_labels.symm.trans ?_
    refine List.perm_append_comm.trans ?_
    refine List.Perm.trans ?_ h.perm
    exact ((Canon.canon_all_perm _).append (Canon.sortNat_perm _)).symm
  unfold dataCompleteB
  rw [Canon.sortNat_congr h1, Canon.sortNat_of_sorted]
  · simp
  · exact (List.pairwise_lt_range).imp (fun h => Nat.le_of_lt h)

/-- the density a store reports is positive -/
theorem stOK_pOneC_pos {p : Params} {D : List ℕ} (hG : 0 < p.dt.G)
    (hL : ∀ i s k, i < p.dt.n → s < p.dt.S → k < p.dt.G → 0 < getQ (p.dt.L i s) k)
    (hop : ∀ i, i < p.dt.n → 0 ≤ p.dt.opOf i ∧ p.dt.opOf i < 1) (hD : ∀ i ∈ D, i < p.dt.n)
    {s : Store} (hs : StOK p D s) {α : ℚ} (hα : 0 < α) : 0 < pOneC p.dt α s := by
  rw [C06.pOneC_eq p.dt α s hs.1.2.2.1]
  have hperm : (s.forest.toDF.all ++ s.outliers).Perm D :=
    ((Canon.canon_all_perm _).append (Canon.sortNat_perm _)).symm.trans hs.2.perm
  have hf : ∀ i ∈ s.forest.toDF.all, i < p.dt.n := fun i hi => hD i (hperm.subset (List.mem_append_left _ hi))
  have ho : ∀ i ∈ s.outliers, i < p.dt.n := fun i hi => hD i (hperm.subset (List.mem_append_right _ hi))
  exact Density.pOne_pos' p.dt hα hG _ _
    (fun i hi s hs k hk => hL i s k (hf i hi) hs hk)
    (fun i hi s hs k hk => hL i s k (ho i hi) hs hk)
    (fun i hi => (hop i (hf i hi)).2) (fun i hi => (hop i (ho i hi)).1)

/-- **every recorded entry is a complete well-formed tree with the recorded, positive density** -/
theorem run_entries_ok_proof (p : Params) (hG : 0 < p.dt.G)
    (hL : ∀ i s k, i < p.dt.n → s < p.dt.S → k < p.dt.G → 0 < getQ (p.dt.L i s) k)
    (hop : ∀ i, i < p.dt.n → 0 ≤ p.dt.opOf i ∧ p.dt.opOf i < 1)
    (s0 : Store) (h0 : StOK p (List.range p.dt.n) s0)
    (mvB : ℕ → Store → Store) (b : ℕ) (hB : ∀ i, i < b → RealisesAt p .burnin mvB i (burnState mvB i s0))
    (o : Oracles) (hconc : ∀ i α s, 0 < α → 0 < o.conc i α s) (α0 : ℚ) (hα0 : 0 < α0) (cu : Bool)
    (thin numIters : ℕ)
    (hM : ∀ k, k < numIters →
      RealisesAt p .main o.moves k (stateAt o cu ⟨burnState mvB b s0, α0⟩ k).tree) :
    ∀ e ∈ (runMain p.dt o cu thin numIters ⟨burnState mvB b s0, α0⟩).1,
      ∃ s', fromDict p.dt e.tree = some s' ∧ SInv p.dt s' ∧ dataCompleteB p.dt.n s' = true ∧
        Holds p.c (List.range p.dt.n) (absT s') ∧ pOneC p.dt e.alpha s' = e.logPOne ∧ 0 < e.logPOne := by
  have hNZ : DataNZ p.dt := fun i s k hi hs hk => ne_of_gt (hL i s k hi hs hk)
  intro e he
  obtain ⟨j, t, k, hkle, rfl⟩ := mem_trace_le p.dt o cu thin numIters _ e he
  set st0 : St := ⟨burnState mvB b s0, α0⟩
  have hk : StOK p (List.range p.dt.n) (stateAt o cu st0 k).tree :=
    stateAt_ok hNZ cu (st0 := st0) (burnState_ok hNZ h0 b hB) k (fun i hi => hM i (by omega))
  have hα : 0 < (stateAt o cu st0 k).alpha := stateAt_alpha_pos hconc cu (st0 := st0) hα0 k
  have hwfd := wfd_of_shared p.dt _ hk.1.1 hk.1.2.1 hk.1.2.2.1 hk.1.2.2.2
  obtain ⟨hr1, hr2⟩ := mkEntry_restores p.dt j t (stateAt o cu st0 k) hwfd
  set s := (stateAt o cu st0 k).tree
  have hinv' : SInv p.dt (normRoot p.dt s) := by
    unfold normRoot
    split
    · rename_i hn
      obtain ⟨hw, hf, hc, ha⟩ := hk.1
      refine ⟨⟨hw.names_nodup, hw.idxs_nodup, hw.idx_pos, hw.name_nonneg, hw.nodeIdx_keys, hw.nodeIdxRev_keys,
        hw.nodeIdx_iff, hw.nodeIdxRev_iff, hw.data_keys, hw.data_sub, hw.payload_data, hw.data_nodup⟩, hf,
        ⟨hc.1, ?_⟩, ha⟩
      intro hc2
      simp only at hc2
      rw [hn] at hc2
    · exact hk.1
  have hok' : StOK p (List.range p.dt.n) (normRoot p.dt s) := ⟨hinv', by rw [absT_normRoot]; exact hk.2⟩
  refine ⟨normRoot p.dt s, hr1, hinv', dataComplete_of_holds hinv'.1 hok'.2, hok'.2, hr2, ?_⟩
  rw [← hr2]
  exact stOK_pOneC_pos hG hL hop (fun i hi => List.mem_range.1 hi) hok' hα

end PhyModel.RunOK
