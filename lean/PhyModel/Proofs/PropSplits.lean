import PhyModel.Model.Proposal
import PhyModel.Proofs.OrdersProofs3
import Mathlib.Data.Nat.Choose.Basic
import Mathlib.Data.Nat.Choose.Cast
import Mathlib.Algebra.BigOperators.Intervals
import Mathlib.Tactic.FieldSimp
/-! # C08 helpers 1: combinatorics of `splits` (all chosen / not-chosen splits of a list)

* `lsum_splits_count` : a sum over the splits of a function of the number chosen is the binomial sum;
* `lsum_splits_inv_binom` : `Σ 1 / C(r, |chosen|) = r + 1`;
* `splits_double_count` : choosing one element first and then a split of the rest counts every split
  `|chosen|` times (for functions that do not depend on the order of the chosen part). -/

namespace PhyModel
open Finset BigOperators Dist Proposal Orders

theorem lsum_splits_cons {α} (a : α) (l : List α) (F : List α × List α → ℚ) :
    lsum (splits (a :: l)) F
      = lsum (splits l) (fun cr => F (a :: cr.1, cr.2) + F (cr.1, a :: cr.2)) := by
  simp only [splits]
  rw [lsum_flatMap]
  apply lsum_congr
  rintro ⟨c, r⟩ _
  simp [lsum]

theorem lsum_splits_nil {α} (F : List α × List α → ℚ) : lsum (splits ([] : List α)) F = F ([], []) := by
  simp [splits, lsum]

theorem mem_splits {α} : ∀ (l : List α) (cr : List α × List α), cr ∈ splits l →
    (∀ x ∈ cr.1, x ∈ l) ∧ (∀ x ∈ cr.2, x ∈ l) ∧ cr.1.length + cr.2.length = l.length := by
  intro l
  induction l with
  | nil => intro cr h; simp [splits] at h; subst h; simp
  | cons a l ih =>
    intro cr h
    simp only [splits, List.mem_flatMap] at h
    obtain ⟨⟨c, r⟩, hm, h⟩ := h
    obtain ⟨h1, h2, h3⟩ := ih _ hm
    simp only [List.mem_cons, List.not_mem_nil, or_false] at h
    rcases h with rfl | rfl
    · refine ⟨?_, ?_, ?_⟩
      · intro x hx; simp only [List.mem_cons] at hx ⊢; rcases hx with rfl | hx
        · exact Or.inl rfl
        · exact Or.inr (h1 x hx)
      · intro x hx; exact List.mem_cons_of_mem _ (h2 x hx)
      · simp only [List.length_cons] at h3 ⊢; omega
    · refine ⟨?_, ?_, ?_⟩
      · intro x hx; exact List.mem_cons_of_mem _ (h1 x hx)
      · intro x hx; simp only [List.mem_cons] at hx ⊢; rcases hx with rfl | hx
        · exact Or.inl rfl
        · exact Or.inr (h2 x hx)
      · simp only [List.length_cons] at h3 ⊢; omega

theorem splits_ne_nil {α} (l : List α) : splits l ≠ [] := by
  induction l with
  | nil => simp [splits]
  | cons a l ih =>
    cases h : splits l with
    | nil => exact absurd h ih
    | cons x xs => obtain ⟨c, r⟩ := x; simp [splits, h]

/-- generating-function form of "there are `C(n,k)` sublists of length `k`" -/
theorem lsum_splits_count {α} (l : List α) (f : ℕ → ℚ) :
    lsum (splits l) (fun cr => f cr.1.length)
      = ∑ k ∈ range (l.length + 1), (Nat.choose l.length k : ℚ) * f k := by
  induction l generalizing f with
  | nil => simp [lsum_splits_nil]
  | cons a l ih =>
    rw [lsum_splits_cons]
    simp only [List.length_cons]
    rw [lsum_add, ih (fun k => f (k + 1)), ih f]
    rw [Finset.sum_range_succ' _ (l.length + 1)]
    simp only [Nat.choose_succ_succ, Nat.cast_add, Nat.choose_zero_right, Nat.cast_one, one_mul]
    have h2 : ∑ k ∈ range (l.length + 1), ((l.length.choose (k + 1) : ℚ)) * f (k + 1) + f 0
        = ∑ k ∈ range (l.length + 1), (l.length.choose k : ℚ) * f k := by
      have := Finset.sum_range_succ' (fun k => (l.length.choose k : ℚ) * f k) (l.length + 1)
      simp only [Nat.choose_zero_right, Nat.cast_one, one_mul] at this
      rw [← this, Finset.sum_range_succ, Nat.choose_succ_self]
      simp
    rw [← h2]
    simp only [add_mul, Finset.sum_add_distrib]
    ring

theorem binom_eq_choose (n k : ℕ) (h : k ≤ n) : binom n k = (Nat.choose n k : ℚ) := by
  unfold binom
  rw [fact_eq, fact_eq, fact_eq, Nat.cast_choose ℚ h]

theorem binom_pos (n k : ℕ) : 0 < binom n k := by
  unfold binom
  rw [fact_eq, fact_eq, fact_eq]
  have h1 : (0 : ℚ) < (n.factorial : ℚ) := by exact_mod_cast Nat.factorial_pos n
  have h2 : (0 : ℚ) < (k.factorial : ℚ) := by exact_mod_cast Nat.factorial_pos k
  have h3 : (0 : ℚ) < ((n - k).factorial : ℚ) := by exact_mod_cast Nat.factorial_pos (n - k)
  exact div_pos h1 (mul_pos h2 h3)

/-- **key combinatorial identity**: `Σ_{chosen ⊆ rs} 1 / C(r, |chosen|) = r + 1` -/
theorem lsum_splits_inv_binom {α} (l : List α) :
    lsum (splits l) (fun cr => 1 / binom l.length cr.1.length) = (l.length : ℚ) + 1 := by
  rw [lsum_splits_count l (fun k => 1 / binom l.length k)]
  have : ∀ k ∈ range (l.length + 1), (Nat.choose l.length k : ℚ) * (1 / binom l.length k) = 1 := by
    intro k hk
    have hk' : k ≤ l.length := by simp at hk; omega
    rw [binom_eq_choose _ _ hk']
    have : (Nat.choose l.length k : ℚ) ≠ 0 := by exact_mod_cast (Nat.choose_pos hk').ne'
    field_simp
  rw [Finset.sum_congr rfl this]
  simp

/-- the element picked first together with the rest: `(l[j], l.eraseIdx j)` for every `j` -/
def picks {α} : List α → List (α × List α)
  | [] => []
  | a :: l => (a, l) :: (picks l).map fun bm => (bm.1, a :: bm.2)

theorem mem_picks {α} : ∀ (l : List α) (am : α × List α), am ∈ picks l →
    am.1 ∈ l ∧ (∀ x ∈ am.2, x ∈ l) ∧ am.2.length + 1 = l.length := by
  intro l
  induction l with
  | nil => intro am h; simp [picks] at h
  | cons a l ih =>
    intro am h
    simp only [picks, List.mem_cons, List.mem_map] at h
    rcases h with rfl | ⟨bm, hbm, rfl⟩
    · exact ⟨List.mem_cons_self, fun x hx => List.mem_cons_of_mem _ hx, rfl⟩
    · obtain ⟨h1, h2, h3⟩ := ih bm hbm
      refine ⟨List.mem_cons_of_mem _ h1, ?_, by simp only [List.length_cons]; omega⟩
      intro x hx
      simp only [List.mem_cons] at hx ⊢
      rcases hx with rfl | hx
      · exact Or.inl rfl
      · exact Or.inr (h2 x hx)

theorem lsum_range_picks {α} (l : List α) (G : α → List α → ℚ) :
    lsum (List.range l.length)
        (fun j => (l[j]?).elim 0 (fun a => G a (l.eraseIdx j)))
      = lsum (picks l) (fun am => G am.1 am.2) := by
  induction l generalizing G with
  | nil => simp [picks, lsum]
  | cons a l ih =>
    simp only [List.length_cons, List.range_succ_eq_map, picks]
    rw [lsum_cons, lsum_cons, lsum_map, lsum_map]
    simp only [List.getElem?_cons_zero, List.eraseIdx_cons_zero, Nat.succ_eq_add_one,
      List.getElem?_cons_succ, List.eraseIdx_cons_succ]
    rw [ih (fun b m => G b (a :: m))]
    simp only [Option.elim]

/-- double counting: for `F` symmetric in the chosen part (on elements satisfying `P`), picking one
element first and then a split of the rest counts each split once per chosen element -/
theorem splits_double_count {α} (P : α → Prop) (l : List α) (hl : ∀ x ∈ l, P x)
    (F : List α × List α → ℚ)
    (hF : ∀ c c' r, c.Perm c' → (∀ x ∈ c, P x) → F (c, r) = F (c', r)) :
    lsum (picks l) (fun am => lsum (splits am.2) (fun cr => F (am.1 :: cr.1, cr.2)))
      = lsum (splits l) (fun cr => (cr.1.length : ℚ) * F cr) := by
  induction l generalizing F with
  | nil => rw [lsum_splits_nil]; simp [picks, lsum]
  | cons a l ih =>
    have hl' : ∀ x ∈ l, P x := fun x hx => hl x (List.mem_cons_of_mem _ hx)
    have hPa : P a := hl a List.mem_cons_self
    simp only [picks]
    rw [lsum_cons, lsum_map, lsum_splits_cons]
    simp only [lsum_splits_cons]
    -- swap the picked element past `a`
    have hswap : lsum (picks l) (fun bm => lsum (splits bm.2)
          (fun cr => F (bm.1 :: a :: cr.1, cr.2) + F (bm.1 :: cr.1, a :: cr.2)))
        = lsum (picks l) (fun bm => lsum (splits bm.2) (fun cr => F (a :: bm.1 :: cr.1, cr.2)))
          + lsum (picks l) (fun bm => lsum (splits bm.2) (fun cr => F (bm.1 :: cr.1, a :: cr.2))) := by
      rw [← lsum_add]
      apply lsum_congr
      intro bm hbm
      rw [← lsum_add]
      apply lsum_congr
      intro cr hcr
      congr 1
      apply hF _ _ _ (List.Perm.swap _ _ _)
      intro x hx
      simp only [List.mem_cons] at hx
      obtain ⟨h1, h2, _⟩ := mem_picks l bm hbm
      rcases hx with rfl | rfl | hx
      · exact hl' _ h1
      · exact hPa
      · exact hl' _ (h2 _ ((mem_splits _ _ hcr).1 x hx))
    rw [hswap]
    rw [ih hl' (fun cr => F (a :: cr.1, cr.2)) (by
      intro c c' r hp hc
      apply hF _ _ _ (List.Perm.cons a hp)
      intro x hx
      simp only [List.mem_cons] at hx
      rcases hx with rfl | hx
      · exact hPa
      · exact hc x hx)]
    rw [ih hl' (fun cr => F (cr.1, a :: cr.2)) (by
      intro c c' r hp hc
      exact hF _ _ _ hp hc)]
    rw [← lsum_add, ← lsum_add]
    apply lsum_congr
    intro cr _
    simp only [List.length_cons]
    push_cast
    ring

end PhyModel
