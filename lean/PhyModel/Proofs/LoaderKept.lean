import Mathlib.Data.List.Forall2
import PhyModel.Proofs.LoaderBasics
/-! What a successful `load` looks like, and which mutations survive (C17 `kept_iff`,
`numbering_sorted`, `defaults`, `major_lt_minor_rejected`). -/

namespace PhyModel.Loader
open List

/-! ### `pick`, `entry`, `majorCnPrior` -/

theorem pick_ok_iff {m s : String} {l : List Row} {r : Row} : pick m s l = .ok r ↔ l = [r] := by
  match l with
  | [] => simp [pick]
  | [a] => simp [pick]
  | a :: b :: t => simp [pick]

theorem majorCnPrior_ok_iff {major minor normal : Nat} {err : Rat} :
    (∃ x, majorCnPrior major minor normal err = .ok x) ↔ ¬ major < minor := by
  unfold majorCnPrior
  by_cases h : major < minor
  · simp [h]
  · simp only [h, if_false, not_false_iff, iff_true]
    split <;> exact ⟨_, rfl⟩

theorem majorCnPrior_error {major minor normal : Nat} {err : Rat} (h : major < minor) :
    majorCnPrior major minor normal err = .error (.majorLtMinor major minor) := by
  simp [majorCnPrior, h]

theorem entry_ok_iff {tc er : Bool} {r : Row} : (∃ e, entry tc er r = .ok e) ↔ ¬ r.major < r.minor := by
  rw [← majorCnPrior_ok_iff (normal := r.normal) (err := if er then r.err else defaultErrorRate)]
  unfold entry
  cases majorCnPrior r.major r.minor r.normal (if er = true then r.err else defaultErrorRate) with
  | error e => simp
  | ok x => exact ⟨fun _ => ⟨x, rfl⟩, fun _ => ⟨_, rfl⟩⟩

theorem entry_error {tc er : Bool} {r : Row} (h : r.major < r.minor) :
    entry tc er r = .error (.majorLtMinor r.major r.minor) := by
  simp [entry, majorCnPrior_error h]

/-- every VAF row of `majorCnPrior` carries the error rate in its first two places -/
theorem majorCnPrior_mu {major minor normal : Nat} {err : Rat} {cn mu}
    (h : majorCnPrior major minor normal err = .ok (cn, mu)) :
    ∀ g ∈ mu, g.1 = err ∧ g.2.1 = err := by
  unfold majorCnPrior at h
  by_cases hlt : major < minor
  · simp [hlt] at h
  · simp only [hlt, if_false] at h
    split at h
    · simp only [Except.ok.injEq, Prod.mk.injEq] at h
      obtain ⟨_, rfl⟩ := h
      intro g hg
      obtain ⟨i, _, rfl⟩ := mem_map.mp hg
      exact ⟨rfl, rfl⟩
    · simp only [Except.ok.injEq, Prod.mk.injEq] at h
      obtain ⟨_, rfl⟩ := h
      intro g hg
      rcases mem_append.mp hg with hg | hg
      · obtain ⟨i, _, rfl⟩ := mem_map.mp hg
        exact ⟨rfl, rfl⟩
      · rw [mem_singleton] at hg; subst hg; exact ⟨rfl, rfl⟩

/-- what `entry` produces: counts of the row, tumour content and error rate from the row or the defaults -/
theorem entry_spec {tc er : Bool} {r : Row} {e : Entry} (h : entry tc er r = .ok e) :
    e.a = r.ref ∧ e.b = r.alt ∧ e.t = (if tc then r.tc else defaultTumourContent) ∧
    majorCnPrior r.major r.minor r.normal (if er then r.err else defaultErrorRate) = .ok (e.cn, e.mu) := by
  unfold entry at h
  cases hm : majorCnPrior r.major r.minor r.normal (if er = true then r.err else defaultErrorRate) with
  | error x => simp [hm] at h
  | ok x =>
    obtain ⟨cn, mu⟩ := x
    simp only [hm, Except.ok.injEq] at h
    subst h
    exact ⟨rfl, rfl, rfl, rfl⟩

/-! ### cells and counts -/

theorem cell_positive (rows : List Row) (m s : String) :
    cell (positive rows) m s = rows.filter fun r => decide (r.mid = m ∧ r.sample = s ∧ 0 < r.major) := by
  unfold cell positive
  rw [filter_filter]
  apply filter_congr
  intro r _
  by_cases h1 : r.mid = m <;> by_cases h2 : r.sample = s <;> by_cases h3 : 0 < r.major <;> simp [h1, h2, h3]

theorem cell_complete_of_count {pos : List Row} {n : Nat} {m : String} (h : countMut pos m = n) (s : String) :
    cell (complete pos n) m s = cell pos m s := by
  unfold cell complete
  rw [filter_filter]
  apply filter_congr
  intro r _
  by_cases h1 : r.mid = m
  · subst h1; simp [h]
  · simp [h1]

theorem mem_mutsOf {rows : List Row} {m : String} : m ∈ mutsOf rows ↔ ∃ r ∈ rows, r.mid = m := by
  unfold mutsOf
  rw [mem_sortedDistinct, mem_map]

theorem mem_samplesOf {rows : List Row} {s : String} : s ∈ samplesOf rows ↔ ∃ r ∈ rows, r.sample = s := by
  unfold samplesOf
  rw [mem_sortedDistinct, mem_map]

theorem mem_mutsOf_complete {pos : List Row} {n : Nat} {m : String} :
    m ∈ mutsOf (complete pos n) ↔ countMut pos m = n ∧ ∃ r ∈ pos, r.mid = m := by
  rw [mem_mutsOf]
  unfold complete
  constructor
  · rintro ⟨r, hr, rfl⟩
    rw [mem_filter, decide_eq_true_eq] at hr
    exact ⟨hr.2, r, hr.1, rfl⟩
  · rintro ⟨hc, r, hr, rfl⟩
    exact ⟨r, mem_filter.mpr ⟨hr, by simpa using hc⟩, rfl⟩

/-- a list of rows splits, by sample, over any duplicate-free list of keys covering its samples -/
theorem length_eq_sum_by_sample : ∀ (keys : List String) (l : List Row), keys.Nodup →
    (∀ r ∈ l, r.sample ∈ keys) →
    l.length = (keys.map fun s => (l.filter fun r => decide (r.sample = s)).length).sum
  | [], l, _, h => by
    have : l = [] := eq_nil_iff_forall_not_mem.mpr fun r hr => by simpa using h r hr
    simp [this]
  | k :: ks, l, hnd, h => by
    have hk : k ∉ ks := (nodup_cons.mp hnd).1
    have ih := length_eq_sum_by_sample ks (l.filter fun r => decide ¬ (decide (r.sample = k) = true))
      (nodup_cons.mp hnd).2 (by
        intro r hr
        rw [mem_filter] at hr
        have h1 := h r hr.1
        have h2 : r.sample ≠ k := by simpa using hr.2
        rcases mem_cons.mp h1 with h1 | h1
        · exact absurd h1 h2
        · exact h1)
    rw [map_cons, sum_cons, length_eq_countP_add_countP (fun r : Row => decide (r.sample = k)) (l := l),
      countP_eq_length_filter, countP_eq_length_filter, ih]
    congr 1
    congr 1
    apply map_congr_left
    intro s hs
    rw [filter_filter]
    congr 1
    apply filter_congr
    intro r _
    by_cases h1 : r.sample = s
    · have : r.sample ≠ k := fun h2 => hk (h2 ▸ h1 ▸ hs)
      subst h1
      simp [this]
    · simp [h1]

theorem countMut_eq_sum_cells (pos : List Row) (m : String) :
    countMut pos m = ((samplesOf pos).map fun s => (cell pos m s).length).sum := by
  unfold countMut
  rw [length_eq_sum_by_sample (samplesOf pos) _ (nodup_sortedDistinct _ _)]
  · congr 1
    apply map_congr_left
    intro s _
    unfold cell
    rw [filter_filter]
    congr 1
    apply filter_congr
    intro r _
    by_cases h1 : r.mid = m <;> by_cases h2 : r.sample = s <;> simp [h1, h2]
  · intro r hr
    exact mem_samplesOf.mpr ⟨r, (mem_filter.mp hr).1, rfl⟩

theorem sum_map_const_one {α} (l : List α) (f : α → Nat) (h : ∀ a ∈ l, f a = 1) : (l.map f).sum = l.length := by
  induction l with
  | nil => rfl
  | cons a t ih =>
    rw [map_cons, sum_cons, h a mem_cons_self, ih fun x hx => h x (mem_cons_of_mem _ hx), length_cons]
    omega

/-! ### the shape of a successful load -/

/-- relation between a sample and its entry in the vector of mutation `m` -/
def CellOk (tc er : Bool) (kept : List Row) (m : String) (s : String) (e : Entry) : Prop :=
  ∃ r, cell kept m s = [r] ∧ entry tc er r = .ok e

theorem cellEntry_ok_iff {tc er : Bool} {kept : List Row} {m s : String} {e : Entry} :
    cellEntry tc er kept m s = .ok e ↔ CellOk tc er kept m s e := by
  unfold cellEntry CellOk
  cases hp : pick m s (cell kept m s) with
  | error x =>
    simp only [reduceCtorEq, false_iff, not_exists, not_and]
    intro r hr
    rw [← pick_ok_iff (m := m) (s := s), hp] at hr
    cases hr
  | ok r =>
    have := pick_ok_iff.mp hp
    simp only [this, cons.injEq, and_true]
    constructor
    · intro h; exact ⟨r, rfl, h⟩
    · rintro ⟨r', rfl, h⟩; exact h

theorem mutEntries_ok_iff {tc er : Bool} {kept : List Row} {samples : List String} {m : String}
    {d : String × List Entry} :
    mutEntries tc er kept samples m = .ok d → d.1 = m ∧ Forall₂ (CellOk tc er kept m) samples d.2 := by
  unfold mutEntries
  cases hm : mapE (cellEntry tc er kept m) samples with
  | error x => simp
  | ok es =>
    simp only [Except.ok.injEq]
    rintro rfl
    exact ⟨rfl, (mapE_ok hm).imp fun s e h => cellEntry_ok_iff.mp h⟩

/-- **shape of a successful load**: the samples are the sorted distinct sample ids of the usable
rows, the data are indexed by the sorted distinct mutation ids of the rows that survive both
filters, and every mutation's vector has, sample by sample, the entry of the unique row of that cell -/
theorem load_ok_shape {tc er : Bool} {rows : List Row} {ss : List String} {data : List (String × List Entry)}
    (h : load tc er rows = .ok (ss, data)) :
    ss = samplesOf (positive rows) ∧
    Forall₂ (fun m d => d.1 = m ∧ Forall₂ (CellOk tc er (keptRows rows) m) ss d.2)
      (mutsOf (keptRows rows)) data := by
  unfold load at h
  cases hm : mapE (mutEntries tc er (keptRows rows) (samplesOf (positive rows))) (mutsOf (keptRows rows)) with
  | error x => simp [hm] at h
  | ok ds =>
    simp only [hm, Except.ok.injEq, Prod.mk.injEq] at h
    obtain ⟨rfl, rfl⟩ := h
    exact ⟨rfl, (mapE_ok hm).imp fun m d hd => mutEntries_ok_iff hd⟩

theorem forall₂_fst_eq {P : String → String × List Entry → Prop} :
    ∀ {l : List String} {data : List (String × List Entry)},
      Forall₂ (fun m d => d.1 = m ∧ P m d) l data → data.map (·.1) = l
  | _, _, .nil => rfl
  | _, _, .cons hd tl => by simp [hd.1, forall₂_fst_eq tl]

theorem load_ok_names {tc er : Bool} {rows : List Row} {ss : List String} {data : List (String × List Entry)}
    (h : load tc er rows = .ok (ss, data)) : data.map (·.1) = mutsOf (keptRows rows) :=
  forall₂_fst_eq (load_ok_shape h).2

/-- when the load succeeds every cell of a kept mutation holds exactly one row -/
theorem load_ok_cells {tc er : Bool} {rows : List Row} {ss : List String} {data : List (String × List Entry)}
    (h : load tc er rows = .ok (ss, data)) {m : String} (hm : m ∈ mutsOf (keptRows rows)) {s : String}
    (hs : s ∈ ss) : ∃ r e, cell (keptRows rows) m s = [r] ∧ entry tc er r = .ok e := by
  unfold load at h
  cases hmm : mapE (mutEntries tc er (keptRows rows) (samplesOf (positive rows))) (mutsOf (keptRows rows)) with
  | error x => simp [hmm] at h
  | ok ds =>
    simp only [hmm, Except.ok.injEq, Prod.mk.injEq] at h
    obtain ⟨rfl, rfl⟩ := h
    obtain ⟨d, _, hd⟩ := mapE_ok_mem hmm hm
    unfold mutEntries at hd
    cases hc : mapE (cellEntry tc er (keptRows rows) m) (samplesOf (positive rows)) with
    | error x => simp [hc] at hd
    | ok es =>
      obtain ⟨e, _, he⟩ := mapE_ok_mem hc hs
      obtain ⟨r, hr1, hr2⟩ := cellEntry_ok_iff.mp he
      exact ⟨r, e, hr1, hr2⟩

end PhyModel.Loader
