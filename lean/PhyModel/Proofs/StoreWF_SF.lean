import PhyModel.Proofs.StoreInv
import Mathlib.Data.List.Perm.Basic
import Mathlib.Data.List.Nodup
/-! Forest lemmas for the store model (C07): what `append`, `mapRecs`, `findSub`, `removeSub`,
`graftAt`, `takeRoots`, `maxIdx` do to the preorder payload list `recs` (membership, `Perm`,
`Sublist`).  Nothing here mentions a `Store`. -/
namespace PhyModel.Store.SF
open PhyModel PhyModel.Store

@[simp] theorem recs_nil : recs nil = [] := rfl
@[simp] theorem recs_cons (n : NodeRec) (k s : SF) : recs (cons n k s) = n :: (recs k ++ recs s) := rfl
@[simp] theorem names_nil : names nil = [] := rfl
@[simp] theorem names_cons (n : NodeRec) (k s : SF) :
    names (cons n k s) = n.name :: (names k ++ names s) := by simp [names]
@[simp] theorem idxs_nil : idxs nil = [] := rfl
@[simp] theorem idxs_cons (n : NodeRec) (k s : SF) :
    idxs (cons n k s) = n.idx :: (idxs k ++ idxs s) := by simp [idxs]

theorem mem_names {f : SF} {nm : Int} : nm ∈ f.names ↔ ∃ n ∈ f.recs, n.name = nm := by simp [names]
theorem mem_idxs {f : SF} {i : Nat} : i ∈ f.idxs ↔ ∃ n ∈ f.recs, n.idx = i := by simp [idxs]

theorem numNodes_eq (f : SF) : f.numNodes = f.recs.length := by
  induction f with
  | nil => rfl
  | cons n k s ihk ihs => simp [numNodes, ihk, ihs]; omega

theorem recs_append (f g : SF) : (append f g).recs = f.recs ++ g.recs := by
  induction f with
  | nil => rfl
  | cons n k s _ ihs => simp [append, ihs]

theorem recs_mapRecs (g : NodeRec → NodeRec) (f : SF) : (mapRecs g f).recs = f.recs.map g := by
  induction f with
  | nil => rfl
  | cons n k s ihk ihs => simp [mapRecs, ihk, ihs]

theorem le_maxIdx {f : SF} {n : NodeRec} (h : n ∈ f.recs) : n.idx ≤ f.maxIdx := by
  induction f with
  | nil => simp at h
  | cons m k s ihk ihs =>
    simp only [recs_cons, List.mem_cons, List.mem_append] at h
    simp only [maxIdx]
    rcases h with rfl | h | h
    · omega
    · have := ihk h; omega
    · have := ihs h; omega

theorem rootRecs_sublist (f : SF) : f.rootRecs.Sublist f.recs := by
  induction f with
  | nil => simp [rootRecs]
  | cons n k s _ ihs =>
    simp only [rootRecs, recs_cons]
    exact (ihs.trans (List.sublist_append_right _ _)).cons_cons n

/-! ### `findSub` -/

theorem findSub_none_iff {i : Nat} {f : SF} : findSub i f = none ↔ i ∉ f.idxs := by
  induction f with
  | nil => simp [findSub]
  | cons n k s ihk ihs =>
    simp only [findSub, idxs_cons, List.mem_cons, List.mem_append, not_or]
    by_cases h : n.idx = i
    · simp [h]
    · simp only [h, if_false]
      cases hk : findSub i k with
      | some x =>
        have : ¬ (i ∉ k.idxs) := fun hc => by rw [ihk.2 hc] at hk; cases hk
        simp [this]
      | none => simp [ihk.1 hk, ihs, Ne.symm h]

theorem findSub_some {i : Nat} {f : SF} {x : NodeRec × SF} (h : findSub i f = some x) :
    x.1.idx = i ∧ (x.1 :: x.2.recs).Sublist f.recs := by
  induction f with
  | nil => simp [findSub] at h
  | cons n k s ihk ihs =>
    simp only [findSub] at h
    by_cases hn : n.idx = i
    · simp only [hn, if_true, Option.some.injEq] at h
      subst h
      exact ⟨hn, by simp⟩
    · simp only [hn, if_false] at h
      cases hk : findSub i k with
      | some y =>
        rw [hk] at h; simp only [Option.some.injEq] at h; subst h
        obtain ⟨h1, h2⟩ := ihk hk
        exact ⟨h1, (h2.trans (List.sublist_append_left _ _)).cons n⟩
      | none =>
        rw [hk] at h
        obtain ⟨h1, h2⟩ := ihs h
        exact ⟨h1, (h2.trans (List.sublist_append_right _ _)).cons n⟩

theorem findSub_mem {i : Nat} {f : SF} {x : NodeRec × SF} (h : findSub i f = some x) : x.1 ∈ f.recs :=
  (findSub_some h).2.subset (by simp)

theorem findSub_isSome_of_mem {i : Nat} {f : SF} (h : i ∈ f.idxs) : ∃ x, findSub i f = some x := by
  cases hx : findSub i f with
  | none => exact absurd h (findSub_none_iff.1 hx)
  | some x => exact ⟨x, rfl⟩

/-! ### `removeSub` -/

theorem removeSub_of_not_mem {i : Nat} {f : SF} (h : i ∉ f.idxs) : removeSub i f = f := by
  induction f with
  | nil => rfl
  | cons n k s ihk ihs =>
    simp only [idxs_cons, List.mem_cons, List.mem_append, not_or] at h
    simp [removeSub, Ne.symm h.1, ihk h.2.1, ihs h.2.2]

theorem removeSub_sublist (i : Nat) (f : SF) : (removeSub i f).recs.Sublist f.recs := by
  induction f with
  | nil => simp [removeSub]
  | cons n k s ihk ihs =>
    simp only [removeSub]
    split
    · simp only [recs_cons]; exact ((List.sublist_append_right _ _)).cons n
    · simp only [recs_cons]; exact (ihk.append ihs).cons_cons n

theorem removeSub_perm {i : Nat} {f : SF} {x : NodeRec × SF} (hnd : f.idxs.Nodup)
    (h : findSub i f = some x) : f.recs.Perm ((x.1 :: x.2.recs) ++ (removeSub i f).recs) := by
  induction f with
  | nil => simp [findSub] at h
  | cons n k s ihk ihs =>
    simp only [idxs_cons, List.nodup_cons, List.mem_append, not_or, List.nodup_append] at hnd
    obtain ⟨⟨hnk, hns⟩, hk, hs, hdis⟩ := hnd
    simp only [findSub] at h
    by_cases hn : n.idx = i
    · simp only [hn, if_true, Option.some.injEq] at h
      subst h
      simp [removeSub, hn]
    · simp only [hn, if_false] at h
      cases hfk : findSub i k with
      | some y =>
        rw [hfk] at h; simp only [Option.some.injEq] at h; subst h
        have hik : i ∈ k.idxs := by
          by_contra hc; rw [findSub_none_iff.2 hc] at hfk; cases hfk
        have his : i ∉ s.idxs := fun hc => hdis i hik i hc rfl
        simp only [removeSub, hn, if_false, removeSub_of_not_mem his, recs_cons]
        have := ihk hk hfk
        refine (List.Perm.cons n (this.append_right s.recs)).trans ?_
        simp only [List.cons_append, List.append_assoc]
        exact (List.perm_middle (l₁ := y.1 :: y.2.recs)).symm
      | none =>
        rw [hfk] at h
        have hik : i ∉ k.idxs := findSub_none_iff.1 hfk
        simp only [removeSub, hn, if_false, removeSub_of_not_mem hik, recs_cons]
        have := ihs hs h
        refine (List.Perm.cons n (this.append_left k.recs)).trans ?_
        refine (List.Perm.cons n (List.perm_append_comm_assoc _ _ _)).trans ?_
        exact (List.perm_middle (l₁ := x.1 :: x.2.recs)).symm

/-! ### `graftAt` -/

theorem graftAt_of_not_mem {pi : Nat} (g : SF) {f : SF} (h : pi ∉ f.idxs) : graftAt pi g f = f := by
  induction f with
  | nil => rfl
  | cons n k s ihk ihs =>
    simp only [idxs_cons, List.mem_cons, List.mem_append, not_or] at h
    simp [graftAt, Ne.symm h.1, ihk h.2.1, ihs h.2.2]

theorem graftAt_perm {pi : Nat} (g : SF) {f : SF} (hnd : f.idxs.Nodup) (h : pi ∈ f.idxs) :
    (graftAt pi g f).recs.Perm (g.recs ++ f.recs) := by
  induction f with
  | nil => simp at h
  | cons n k s ihk ihs =>
    simp only [idxs_cons, List.nodup_cons, List.mem_append, not_or, List.nodup_append] at hnd
    obtain ⟨⟨hnk, hns⟩, hk, hs, hdis⟩ := hnd
    simp only [idxs_cons, List.mem_cons, List.mem_append] at h
    by_cases hn : n.idx = pi
    · simp only [graftAt, hn, if_true, recs_cons, recs_append, List.append_assoc]
      exact (List.perm_middle (l₁ := g.recs)).symm
    · simp only [graftAt, hn, if_false, recs_cons]
      rcases h with h | h | h
      · exact absurd h.symm hn
      · have his : pi ∉ s.idxs := fun hc => hdis pi h pi hc rfl
        rw [graftAt_of_not_mem g his]
        refine (List.Perm.cons n ((ihk hk h).append_right s.recs)).trans ?_
        simp only [List.append_assoc]
        exact (List.perm_middle (l₁ := g.recs)).symm
      · have hik : pi ∉ k.idxs := fun hc => hdis pi hc pi h rfl
        rw [graftAt_of_not_mem g hik]
        refine (List.Perm.cons n ((ihs hs h).append_left k.recs)).trans ?_
        refine (List.Perm.cons n (List.perm_append_comm_assoc _ _ _)).trans ?_
        exact (List.perm_middle (l₁ := g.recs)).symm

/-! ### `takeRoots` -/

theorem takeRoots_perm (is : List Nat) (f : SF) :
    ((takeRoots is f).1.recs ++ (takeRoots is f).2.recs).Perm f.recs := by
  induction f with
  | nil => simp [takeRoots]
  | cons n k s _ ihs =>
    simp only [takeRoots]
    split
    · simp only [recs_cons, List.cons_append, List.append_assoc]
      exact List.Perm.cons n (ihs.append_left k.recs)
    · simp only [recs_cons]
      refine List.perm_middle.trans (List.Perm.cons n ?_)
      exact (List.perm_append_comm_assoc _ _ _).trans (ihs.append_left k.recs)

end PhyModel.Store.SF
