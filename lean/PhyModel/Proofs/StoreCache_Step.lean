import PhyModel.Proofs.StoreCache_create
import PhyModel.Proofs.StoreCache_rmDp
import PhyModel.Proofs.StoreCache_getSub
import PhyModel.Proofs.StoreCache_rmSub
import PhyModel.Proofs.StoreCache_addSubIn
import PhyModel.Proofs.StoreCache_dictRT
/-! C06 over histories: one `step` on a system of live handles keeps every handle's cache in order;
`run` over any list of operations does. -/
namespace PhyModel.Store.C06
open PhyModel

/-- the data indices an operation mentions lie inside the data set (where `DataNZ` speaks; used
for the division in `remove_data_point`) -/
def InRange (dt : Data) : Op → Prop
  | .create _ _ d => ∀ x ∈ d, x < dt.n
  | .createAdd _ _ dp => dp < dt.n
  | .addDp _ dp _ => dp < dt.n
  | .rmDp _ dp _ => dp < dt.n
  | _ => True

instance (dt : Data) (op : Op) : Decidable (InRange dt op) := by
  cases op <;> unfold InRange <;> infer_instance

theorem getElem?_lt {α} {l : List α} {i : Nat} {a : α} (h : l[i]? = some a) : i < l.length := by
  by_contra hc
  rw [List.getElem?_eq_none (by omega)] at h
  cases h

theorem mem_of_getElem? {α} {l : List α} {i : Nat} {a : α} (h : l[i]? = some a) : a ∈ l :=
  List.mem_of_getElem? h

theorem forall_setH {P : Store → Prop} {sys : Sys} {h : Nat} {r : Store}
    (hs : ∀ s ∈ sys, P s) (hr : P r) : ∀ s ∈ setH sys h r, P s := by
  intro s hm
  rcases List.mem_or_eq_of_mem_set hm with hm | rfl
  · exact hs s hm
  · exact hr

theorem forall_append_one {P : Store → Prop} {sys : Sys} {r : Store}
    (hs : ∀ s ∈ sys, P s) (hr : P r) : ∀ s ∈ sys ++ [r], P s := by
  intro s hm
  rcases List.mem_append.1 hm with hm | hm
  · exact hs s hm
  · rw [List.mem_singleton] at hm; exact hm ▸ hr

/-- **C06, one edit on a system of handles.**  `WFc` (the part of C07's `WF` the cache proofs use:
unique graph indices, name → index exact on the clones) of the handles before the edit is used to
locate the recomputation path. -/
theorem cacheOK_step' (dt : Data) (hNZ : DataNZ dt) (sys sys' : Sys) (op : Op)
    (hwf : ∀ s ∈ sys, WFc s) (hin : InRange dt op)
    (hc : ∀ s ∈ sys, CacheOK dt s) (h : step dt sys op = some sys') :
    ∀ s ∈ sys', CacheOK dt s := by
  cases op with
  | create hd ch d =>
    simp only [step, Option.bind_eq_bind, Option.bind_eq_some_iff, Option.pure_def] at h
    obtain ⟨s, hs, r, hr, h⟩ := h
    cases h
    exact forall_setH hc (cacheOK_create dt s r.1 ch d r.2 (hc s (mem_of_getElem? hs)) hr)
  | createAdd hd ch dp =>
    simp only [step, Option.bind_eq_bind, Option.bind_eq_some_iff, Option.pure_def] at h
    obtain ⟨s, hs, r, hr, r2, hr2, h⟩ := h
    cases h
    exact forall_setH hc
      (cacheOK_createAdd dt s r.1 r2 ch dp r.2 (hc s (mem_of_getElem? hs)) hr hr2)
  | addDp hd dp nd =>
    simp only [step, Option.bind_eq_bind, Option.bind_eq_some_iff, Option.pure_def] at h
    obtain ⟨s, hs, r, hr, h⟩ := h
    cases h
    have hm := mem_of_getElem? hs
    exact forall_setH hc (cacheOK_addDp dt s r dp nd (hwf s hm) (hc s hm) hr)
  | rmDp hd dp nd =>
    simp only [step, Option.bind_eq_bind, Option.bind_eq_some_iff, Option.pure_def] at h
    obtain ⟨s, hs, r, hr, h⟩ := h
    cases h
    have hm := mem_of_getElem? hs
    exact forall_setH hc (cacheOK_rmDp dt hNZ s r dp nd hin (hwf s hm).idxs_nodup (hc s hm) hr)
  | rmOut hd dp =>
    simp only [step, Option.bind_eq_bind, Option.bind_eq_some_iff, Option.pure_def] at h
    obtain ⟨s, hs, r, hr, h⟩ := h
    cases h
    exact forall_setH hc (cacheOK_rmOut dt s r dp (hc s (mem_of_getElem? hs)) hr)
  | getSub hd rt =>
    simp only [step, Option.bind_eq_bind, Option.bind_eq_some_iff, Option.pure_def] at h
    obtain ⟨s, hs, r, hr, h⟩ := h
    cases h
    have hcs := hc s (mem_of_getElem? hs)
    refine forall_append_one (forall_setH hc ?_) (cacheOK_getSub dt s r rt hcs hr)
    split
    · exact cacheOK_touch dt s _ hcs
    · exact hcs
  | rmSub hd hsb =>
    simp only [step, Option.bind_eq_bind, Option.bind_eq_some_iff, Option.pure_def] at h
    obtain ⟨s, hs, sb, hsb', r, hr, h⟩ := h
    cases h
    have hm := mem_of_getElem? hs
    have hw : WFc (s.touch s.nodes) := ⟨(hwf s hm).1, (hwf s hm).2⟩
    exact forall_setH (forall_setH hc (cacheOK_touch dt sb _ (hc sb (mem_of_getElem? hsb'))))
      (cacheOK_rmSub dt _ _ r hw (cacheOK_touch dt s _ (hc s hm)) hr)
  | addSub hd hsb par =>
    simp only [step, Option.bind_eq_bind, Option.bind_eq_some_iff, Option.pure_def] at h
    obtain ⟨s, hs, sb, hsb', r, hr, h⟩ := h
    cases h
    have hm := mem_of_getElem? hs
    exact forall_setH hc (cacheOK_addSub_in dt s sb r par (hwf s hm) (hc s hm)
      (hc sb (mem_of_getElem? hsb')) hr)
  | relabel hd =>
    simp only [step, Option.bind_eq_bind, Option.bind_eq_some_iff, Option.pure_def] at h
    obtain ⟨s, hs, h⟩ := h
    cases h
    exact forall_setH hc (cacheOK_relabel dt s (hc s (mem_of_getElem? hs)))
  | copy hd =>
    simp only [step, Option.bind_eq_bind, Option.bind_eq_some_iff, Option.pure_def] at h
    obtain ⟨s, hs, h⟩ := h
    cases h
    exact forall_append_one hc (hc s (mem_of_getElem? hs))
  | dictRT hd =>
    simp only [step, Option.bind_eq_bind, Option.bind_eq_some_iff, Option.pure_def] at h
    obtain ⟨s, hs, r, hr, h⟩ := h
    cases h
    exact forall_setH hc (cacheOK_fromDict dt _ r hr)
  | update hd =>
    simp only [step, Option.bind_eq_bind, Option.bind_eq_some_iff, Option.pure_def] at h
    obtain ⟨s, hs, h⟩ := h
    cases h
    exact forall_setH hc (cacheOK_update dt s (hc s (mem_of_getElem? hs)))
  | fresh =>
    simp only [step] at h
    cases h
    exact forall_append_one hc (cacheOK_init dt)

/-- `P` holds of every system state an operation of `ops` is applied to, running from `sys` -/
def Along (dt : Data) (P : Sys → Prop) : Sys → List Op → Prop
  | _, [] => True
  | sys, op :: ops => P sys ∧ ∀ sys', step dt sys op = some sys' → Along dt P sys' ops

theorem Along.mono {dt : Data} {P Q : Sys → Prop} (hPQ : ∀ sy, P sy → Q sy) :
    ∀ {ops : List Op} {sys : Sys}, Along dt P sys ops → Along dt Q sys ops
  | [], _, _ => trivial
  | _ :: _, _, h => ⟨hPQ _ h.1, fun sys' hs => Along.mono hPQ (h.2 sys' hs)⟩

theorem run_cons (dt : Data) (sys : Sys) (op : Op) (ops : List Op) :
    run dt sys (op :: ops) = (step dt sys op).bind fun sys1 => run dt sys1 ops := by
  simp only [run, List.foldlM_cons]
  rfl

/-- the state-predicate form of "along the run" from its prefix form -/
theorem along_of_prefixes (dt : Data) (P : Sys → Prop) : ∀ (ops : List Op) (sys : Sys),
    (∀ pre post sys1, ops = pre ++ post → run dt sys pre = some sys1 → P sys1) → Along dt P sys ops
  | [], _, _ => trivial
  | op :: ops, sys, h => by
    refine ⟨h [] (op :: ops) sys rfl rfl, fun sys' hs => ?_⟩
    apply along_of_prefixes dt P ops sys'
    intro pre post sys1 he hr
    apply h (op :: pre) post sys1 (by rw [he]; rfl)
    rw [run_cons, hs]
    exact hr

/-- **C06, every history.** -/
theorem cacheOK_run (dt : Data) (hNZ : DataNZ dt) : ∀ (ops : List Op) (sys sys' : Sys),
    Along dt (fun sy => ∀ s ∈ sy, WFc s) sys ops → (∀ op ∈ ops, InRange dt op) →
    (∀ s ∈ sys, CacheOK dt s) → run dt sys ops = some sys' → ∀ s ∈ sys', CacheOK dt s
  | [], sys, sys', _, _, hc, h => by
    simp only [run, List.foldlM_nil] at h
    cases h; exact hc
  | op :: ops, sys, sys', hal, hin, hc, h => by
    rw [run_cons] at h
    simp only [Option.bind_eq_some_iff] at h
    obtain ⟨sys1, h1, h2⟩ := h
    exact cacheOK_run dt hNZ ops sys1 sys' (hal.2 sys1 h1)
      (fun o ho => hin o (List.mem_cons_of_mem _ ho))
      (cacheOK_step' dt hNZ sys sys1 op hal.1 (hin op List.mem_cons_self) hc h1) h2

end PhyModel.Store.C06
