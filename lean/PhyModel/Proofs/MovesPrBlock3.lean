import PhyModel.Proofs.MovesPrBlock2
import PhyModel.Proofs.MovesDpBlock2
/-! The re-attachment lists of the prune-regraft move: membership, distinctness, dependence on the
pruned forest only up to equivalence, and what every candidate looks like. -/
namespace PhyModel
open Orders Orders.Forest PhyModel.Moves Gibbs

namespace Canon

/-- the candidate list of prune-regraft as a function of the subtree and the pruned forest -/
def prCore (sub : List Nat × DF) (P : DF) (out : List Nat) : List T :=
  ((nodesOf P).map fun nd => T.mk' (attachUnder (nd.1.headD 0) sub.1 sub.2 P) out) ++
    [T.mk' (.cons sub.1 sub.2 P) out]

theorem prCands_eq (x : T) (sub : List Nat × DF) : prCands x sub = prCore sub (prPruned x sub) x.out := rfl

/-- the context of `prCore`: a canonical well-formed subtree and a well-formed forest disjoint from it -/
structure PBase (sd : List Nat) (sk : DF) (P : DF) : Prop where
  wfP : WF P
  wfSub : WF (.cons sd sk .nil)
  disj : ∀ a ∈ P.all, a ∉ sk.all ++ sd
  sortedSd : sortNat sd = sd
  canonSk : canon sk = sk

namespace PBase
variable {sd : List Nat} {sk P : DF}

theorem sd_ne (b : PBase sd sk P) : sd ≠ [] := b.wfSub.ne.1

theorem key_mem (b : PBase sd sk P) : sd.headD 0 ∈ sd := headD_mem b.sd_ne

theorem key_not_mem (b : PBase sd sk P) : sd.headD 0 ∉ P.all :=
  fun h => b.disj _ h (List.mem_append_right _ b.key_mem)

theorem clade_nodup (b : PBase sd sk P) : (sk.all ++ sd).Nodup := by
  have := b.wfSub.nodup
  simpa only [Forest.all, List.append_nil] using this

theorem union_nodup (b : PBase sd sk P) : ((sk.all ++ sd) ++ P.all).Nodup :=
  List.nodup_append.mpr ⟨b.clade_nodup, b.wfP.nodup, fun _ ha c hc e => b.disj c hc (e ▸ ha)⟩

theorem union_small (b : PBase sd sk P) : ∀ a ∈ (sk.all ++ sd) ++ P.all, a < big := by
  intro a ha
  rcases List.mem_append.mp ha with h | h
  · exact b.wfSub.small a (by simpa only [Forest.all, List.append_nil] using h)
  · exact b.wfP.small a h

theorem attach_wf (b : PBase sd sk P) {a : Nat} (ha : a ∈ P.all) : WF (attachUnder a sd sk P) := by
  have hp := attachUnder_all_perm sd sk b.wfP.nodup ha
  exact ⟨hp.nodup_iff.mpr b.union_nodup, attachUnder_ne a b.sd_ne b.wfSub.ne.2.1 b.wfP.ne,
    fun c hc => b.union_small c (hp.mem_iff.mp hc)⟩

theorem root_wf (b : PBase sd sk P) : WF (.cons sd sk P) :=
  ⟨by simpa only [Forest.all] using b.union_nodup, ⟨b.sd_ne, b.wfSub.ne.2.1, b.wfP.ne⟩,
    by simpa only [Forest.all] using b.union_small⟩

theorem of_eqv (b : PBase sd sk P) {P' : DF} (h : Eqv P P') : PBase sd sk P' :=
  ⟨h.wf b.wfP, b.wfSub, fun a ha => b.disj a (h.all_perm.mem_iff.mpr ha), b.sortedSd, b.canonSk⟩

end PBase

variable {sd : List Nat} {sk P : DF} {out : List Nat}

theorem mem_prCore (b : PBase sd sk P) {t : T} :
    t ∈ prCore (sd, sk) P out ↔
      (∃ a ∈ P.all, t = T.mk' (attachUnder a sd sk P) out) ∨ t = T.mk' (.cons sd sk P) out := by
  unfold prCore
  rw [List.mem_append, List.mem_map, List.mem_singleton]
  apply or_congr _ Iff.rfl
  constructor
  · rintro ⟨nd, hnd, rfl⟩
    exact ⟨nd.1.headD 0, mem_all_iff.mpr ⟨nd, hnd, headD_mem (node_ne b.wfP.ne nd hnd)⟩, rfl⟩
  · rintro ⟨a, ha, rfl⟩
    obtain ⟨nd, hnd, hand⟩ := mem_all_iff.mp ha
    refine ⟨nd, hnd, ?_⟩
    show T.mk' (attachUnder (nd.1.headD 0) sd sk P) out = _
    rw [attachUnder_congr_key sd sk (same_node_iff b.wfP hnd (headD_mem (node_ne b.wfP.ne nd hnd)) hand)]

theorem prCore_nodup (b : PBase sd sk P) : (prCore (sd, sk) P out).Nodup := by
  unfold prCore
  have hkey := b.key_mem
  have hkeyP := b.key_not_mem
  have hb : ∀ nd ∈ nodesOf P, nd.1.headD 0 ∈ nd.1 ∧ nd.1.headD 0 ∈ P.all ∧ nd.1.headD 0 ∉ sk.all ++ sd := by
    intro nd hnd
    have h1 := headD_mem (node_ne b.wfP.ne nd hnd)
    have h2 := mem_all_iff.mpr ⟨nd, hnd, h1⟩
    exact ⟨h1, h2, b.disj _ h2⟩
  refine List.nodup_append.mpr ⟨?_, List.nodup_singleton _, ?_⟩
  · refine List.Nodup.map_on ?_ (nodesOf_nodup b.wfP)
    intro nd₁ h₁ nd₂ h₂ e
    obtain ⟨k₁, m₁, n₁⟩ := hb nd₁ h₁
    obtain ⟨k₂, m₂, _⟩ := hb nd₂ h₂
    have ec : canon (attachUnder (nd₁.1.headD 0) sd sk P) = canon (attachUnder (nd₂.1.headD 0) sd sk P) :=
      congrArg T.f e
    have hq := (canon_eq_iff (b.attach_wf m₁)).mp ec
    have ht := childOf_eqv (sd.headD 0) (nd₁.1.headD 0) hq
    rw [childOf_attachUnder b.wfP.nodup hkey hkeyP n₁, childOf_attachUnder b.wfP.nodup hkey hkeyP n₁,
      together_iff.mpr ⟨nd₁, h₁, k₁, k₁⟩] at ht
    obtain ⟨nd, hnd, a₂, a₁⟩ := together_iff.mp ht.symm
    exact (node_unique b.wfP hnd h₁ a₁ k₁).symm.trans (node_unique b.wfP hnd h₂ a₂ k₂)
  · intro t ht t' ht' e
    subst e
    obtain ⟨nd, hnd, rfl⟩ := List.mem_map.mp ht
    obtain ⟨k₁, m₁, n₁⟩ := hb nd hnd
    have ec : canon (attachUnder (nd.1.headD 0) sd sk P) = canon (.cons sd sk P) :=
      congrArg T.f (List.mem_singleton.mp ht')
    have hq := (canon_eq_iff (b.attach_wf m₁)).mp ec
    have ht := childOf_eqv (sd.headD 0) (nd.1.headD 0) hq
    rw [childOf_attachUnder b.wfP.nodup hkey hkeyP n₁, childOf_cons_root hkeyP n₁,
      together_iff.mpr ⟨nd, hnd, k₁, k₁⟩] at ht
    exact Bool.noConfusion ht

/-- `prCore` depends on the pruned forest only up to equivalence -/
theorem prCore_perm (b : PBase sd sk P) {P' : DF} (h : Eqv P P') :
    (prCore (sd, sk) P out).Perm (prCore (sd, sk) P' out) := by
  have b' := b.of_eqv h
  rw [List.perm_ext_iff_of_nodup (prCore_nodup b) (prCore_nodup b')]
  intro t
  rw [mem_prCore b, mem_prCore b']
  have e1 : ∀ a ∈ P.all, T.mk' (attachUnder a sd sk P) out = T.mk' (attachUnder a sd sk P') out := by
    intro a ha
    unfold T.mk'
    rw [canon_congr (attachUnder_eqv a sd sk h) (b.attach_wf ha)]
  have e2 : T.mk' (.cons sd sk P) out = T.mk' (.cons sd sk P') out := by
    unfold T.mk'
    rw [canon_congr (.cons (List.Perm.refl _) (Eqv.refl _) h) b.root_wf]
  apply or_congr
  · constructor
    · rintro ⟨a, ha, rfl⟩; exact ⟨a, h.all_perm.mem_iff.mp ha, e1 a ha⟩
    · rintro ⟨a, ha, rfl⟩
      have ha' := h.all_perm.mem_iff.mpr ha
      exact ⟨a, ha', (e1 a ha').symm⟩
  · rw [e2]

/-- every candidate: pruning the subtree again gives the same forest, the subtree is still a clone,
the number of clones and the outliers are fixed -/
theorem prCore_base (b : PBase sd sk P) {y : T} (hy : y ∈ prCore (sd, sk) P out) :
    Eqv (removeSub (sd.headD 0) y.f) P ∧ (sd, sk) ∈ nodesOf y.f ∧
      y.f.nodes = P.nodes + 1 + sk.nodes ∧ y.out = sortNat out := by
  have hfix : (sortNat sd, canon sk) = (sd, sk) := by rw [b.sortedSd, b.canonSk]
  rcases (mem_prCore b).mp hy with ⟨a, ha, rfl⟩ | rfl
  · refine ⟨?_, ?_, ?_, rfl⟩
    · have := removeSub_eqv (sd.headD 0) (canon_eqv (attachUnder a sd sk P))
      rw [removeSub_attachUnder a sk b.key_mem b.key_not_mem] at this
      exact this
    · have := canon_nodes (mem_nodesOf_attachUnder sd sk ha)
      rw [hfix] at this
      exact this
    · show (canon (attachUnder a sd sk P)).nodes = _
      rw [(canon_eqv _).nodes, attachUnder_nodes sd sk b.wfP.nodup ha]
  · refine ⟨?_, ?_, ?_, rfl⟩
    · have := removeSub_eqv (sd.headD 0) (canon_eqv (.cons sd sk P))
      rw [removeSub_cons_self sk b.key_mem b.key_not_mem] at this
      exact this
    · have := canon_nodes (f := .cons sd sk P) (nd := (sd, sk)) (mem_nodesOf_cons.mpr (Or.inl rfl))
      rw [hfix] at this
      exact this
    · show (canon (.cons sd sk P)).nodes = _
      rw [(canon_eqv _).nodes]; simp only [Forest.nodes]; omega

end Canon
end PhyModel
