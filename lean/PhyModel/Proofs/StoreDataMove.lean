import PhyModel.Proofs.StoreWF_getSub
import PhyModel.Proofs.StoreWF_rmSub
import PhyModel.Proofs.StoreWF_addSub
import PhyModel.Proofs.StoreWF_addDp
import PhyModel.Proofs.StoreWF_rmDp
import PhyModel.Proofs.StoreWFB
/-! C07, conservation of data under the composed moves of the samplers: extracting a subtree,
removing it and grafting it back anywhere (`subtree_move_conserves`), and moving a data point from
one place to another (`dp_move_conserves`), give back the original multiset of data points
(`vals s.data = s.data.flatMap (·.2)`, up to `List.Perm`).  The branch of `remove_subtree` where the
subtree equals the whole tree (`keyEq`, the tree is re-initialised) is covered: equality of the clade
sets forces every data point of the tree to lie in the extracted subtree. -/
namespace PhyModel.Store
open PhyModel PhyModel.Store.AL

/-! ### clades -/

theorem mem_normSet {l : List Nat} {x : Nat} : x ∈ Store.normSet l ↔ x ∈ l := by
  unfold Store.normSet
  rw [(Orders.Forest.sortNat_perm _).mem_iff, List.mem_eraseDups]

theorem eq_nil_of_normSet_eq_nil {l : List Nat} (h : Store.normSet l = []) : l = [] := by
  cases l with
  | nil => rfl
  | cons a l =>
    have : a ∈ Store.normSet (a :: l) := mem_normSet.2 List.mem_cons_self
    rw [h] at this
    cases this

theorem mem_of_subsetB {a b : List (List Nat)} (h : Store.subsetB a b = true) :
    ∀ c ∈ a, c ∈ b := by
  intro c hc
  unfold Store.subsetB at h
  rw [List.all_eq_true] at h
  exact List.contains_iff_mem.1 (h c hc)

theorem mem_below (s : Store) : ∀ (f : SF) (d : Nat), d ∈ s.below f →
    ∃ nm ∈ f.names, d ∈ s.dataOf nm
  | .nil, _, h => by simp [Store.below] at h
  | .cons n k sb, d, h => by
    simp only [Store.below, List.mem_append] at h
    simp only [SF.names, SF.recs, List.map_cons, List.map_append, List.mem_cons, List.mem_append]
    rcases h with h | h | h
    · exact ⟨n.name, Or.inl rfl, h⟩
    · obtain ⟨nm, hm, hd⟩ := mem_below s k d h
      exact ⟨nm, Or.inr (Or.inl hm), hd⟩
    · obtain ⟨nm, hm, hd⟩ := mem_below s sb d h
      exact ⟨nm, Or.inr (Or.inr hm), hd⟩

/-- every element of a clade is listed in `_data` for a clone of the forest -/
theorem mem_clade (s : Store) : ∀ (f : SF) (c : List Nat), c ∈ s.cladeList f → ∀ d ∈ c,
    ∃ nm ∈ f.names, d ∈ s.dataOf nm
  | .nil, _, h => by simp [Store.cladeList] at h
  | .cons n k sb, c, h => by
    intro d hd
    simp only [Store.cladeList, List.mem_cons, List.mem_append] at h
    simp only [SF.names, SF.recs, List.map_cons, List.map_append, List.mem_cons, List.mem_append]
    rcases h with rfl | h | h
    · rw [mem_normSet, List.mem_append] at hd
      rcases hd with hd | hd
      · exact ⟨n.name, Or.inl rfl, hd⟩
      · obtain ⟨nm, hm, hd⟩ := mem_below s k d hd
        exact ⟨nm, Or.inr (Or.inl hm), hd⟩
    · obtain ⟨nm, hm, hd⟩ := mem_clade s k c h d hd
      exact ⟨nm, Or.inr (Or.inl hm), hd⟩
    · obtain ⟨nm, hm, hd⟩ := mem_clade s sb c h d hd
      exact ⟨nm, Or.inr (Or.inr hm), hd⟩

/-- every clone's `_data` list lies in some clade -/
theorem clade_of_name (s : Store) : ∀ (f : SF) (nm : Int), nm ∈ f.names →
    ∃ c ∈ s.cladeList f, ∀ d ∈ s.dataOf nm, d ∈ c
  | .nil, _, h => by simp [SF.names, SF.recs] at h
  | .cons n k sb, nm, h => by
    simp only [SF.names, SF.recs, List.map_cons, List.map_append, List.mem_cons, List.mem_append] at h
    simp only [Store.cladeList, List.mem_cons, List.mem_append, exists_eq_or_imp]
    rcases h with rfl | h | h
    · exact Or.inl fun d hd => mem_normSet.2 (List.mem_append_left _ hd)
    · obtain ⟨c, hc, hd⟩ := clade_of_name s k nm h
      exact Or.inr ⟨c, Or.inl hc, hd⟩
    · obtain ⟨c, hc, hd⟩ := clade_of_name s sb nm h
      exact Or.inr ⟨c, Or.inr hc, hd⟩

/-- if the key of `sub` equals the key of `s` and `sub` has no outliers, every data point of `s`
is a clone-side data point of `sub` -/
theorem vals_subset_of_keyEq {s sub : Store} (hw : WF s) (hout : sub.outliers = [])
    (he : Store.keyEq sub s = true) :
    ∀ d ∈ vals s.data, ∃ nm ∈ sub.forest.names, d ∈ sub.dataOf nm := by
  unfold Store.keyEq at he
  simp only [Bool.and_eq_true, beq_iff_eq] at he
  obtain ⟨⟨_, h2⟩, h3⟩ := he
  have hso : s.outliers = [] := by
    apply eq_nil_of_normSet_eq_nil
    have : Store.normSet sub.outliers = Store.normSet s.outliers := h3
    rw [← this, hout]; rfl
  intro d hd
  obtain ⟨e, he, hde⟩ := mem_vals_iff.1 hd
  rcases hw.key_cases he with ⟨_, ho⟩ | ⟨n, hn, hnm, _⟩
  · rw [hso] at ho; rw [← ho] at hde; cases hde
  · have hdo : d ∈ s.dataOf n.name := by
      have : s.data.lookup e.1 = some e.2 := lookup_of_mem hw.data_keys he
      unfold Store.dataOf; rw [hnm, this]; exact hde
    obtain ⟨c, hc, hcd⟩ := clade_of_name s s.forest n.name (List.mem_map_of_mem hn)
    exact mem_clade sub sub.forest c (mem_of_subsetB h2 c hc) d (hcd d hdo)

/-! ### the composed moves -/

/-- **C07, subtree move.**  Extract the subtree below any clone, remove it, graft it back below any
clone or at the top level: the tree holds the same data points as before (outliers included). -/
theorem subtree_move_conserves {dt : Data} {s sub s1 s2 : Store} {name : Int}
    {parent : Option Int} (hs : WF s ∧ Full s)
    (hg : s.getSubtree dt (some name) = some sub) (hr : s.removeSubtree dt sub = some s1)
    (ha : s1.addSubtree dt sub parent = some s2) : (vals s2.data).Perm (vals s.data) := by
  have hsub := getSubtree_wf hg hs.1
  have hleg := getSubtree_rmLegal hg hs.1
  obtain ⟨_, _, _, _, _, _, _, _, hdo, hout⟩ := getSubtree_shape hg hs.1
  -- the clone-side data of the extracted subtree are the `_data` lists of its clones in `s`
  have hcd : cloneData sub = sub.nodes.flatMap s.dataOf := by
    rw [cloneData_eq]
    apply List.flatMap_congr
    intro nm hnm
    exact (hdo nm).trans (if_pos hnm)
  have hs1 : Inv0 s1 := removeSubtree_inv hr hs hleg
  have h2 := addSubtree_data ha hs1 hsub.1
  cases hk : Store.keyEq sub s with
  | false =>
    have h1 := removeSubtree_data hr hs hleg hk
    rw [hcd] at h2
    exact h2.trans (List.perm_append_comm.trans h1.symm)
  | true =>
    have : s1 = Store.init dt := removeSubtree_eq_init hr hk
    subst this
    have h2' : (vals s2.data).Perm (vals sub.data) := by
      rw [getSubtree_data hg hs.1, ← hcd]
      simpa [Store.init] using h2
    refine h2'.trans ((List.perm_ext_iff_of_nodup hsub.1.data_nodup hs.1.data_nodup).2 fun d => ?_)
    constructor
    · intro hd
      have hd' : d ∈ sub.nodes.flatMap s.dataOf := getSubtree_data hg hs.1 ▸ hd
      obtain ⟨nm, _, hd⟩ := List.mem_flatMap.1 hd'
      exact mem_vals_of_mem_dOf hd
    · intro hd
      obtain ⟨nm, _, hd'⟩ := vals_subset_of_keyEq hs.1 hout hk d hd
      exact mem_vals_of_mem_dOf hd'

/-- **C07, data-point move.**  Remove a data point from a clone or the outliers and add it to any
clone or the outliers: the tree holds the same data points as before. -/
theorem dp_move_conserves {dt : Data} {s s1 s2 : Store} {dp : Nat} {a b : Int} (hs : WF s ∧ Full s)
    (hr : s.removeDataPointFromNode dt dp a = some s1)
    (ha : s1.addDataPointToNode dt dp b = some s2) : (vals s2.data).Perm (vals s.data) :=
  (addDp_data ha (rmDp_inv hr hs).1).trans (rmDp_data hr hs.1).symm

/-- the same through `remove_data_point_from_outliers` -/
theorem outlier_move_conserves {dt : Data} {s s1 s2 : Store} {dp : Nat} {b : Int} (hs : WF s ∧ Full s)
    (hr : s.removeDataPointFromOutliers dp = some s1)
    (ha : s1.addDataPointToNode dt dp b = some s2) : (vals s2.data).Perm (vals s.data) :=
  (addDp_data ha (rmOut_inv hr hs).1).trans (rmOut_data hr hs.1).symm

end PhyModel.Store
