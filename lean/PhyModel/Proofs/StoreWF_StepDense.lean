import PhyModel.Proofs.StoreWF_StepAl
/-! C07: density of the clone names (what makes `create_root_node`'s choice of name fresh) is preserved
by every step that neither grafts nor removes nor extracts clones, and re-established by `relabel`. -/
namespace PhyModel.Store
open PhyModel PhyModel.Store PhyModel.Store.Store SF AL

/-- the steps after which every tree is still dense, given that every tree was -/
def Op.keepsDense : Op → Bool
  | .getSub _ (some _) => false
  | .rmSub _ _ => false
  | .addSub _ _ _ => false
  | _ => true

theorem dense_step {dt : Data} {sys sys' : Sys} {op : Op} (hall : ∀ s ∈ sys, Inv s)
    (hden : ∀ s ∈ sys, Dense s) (hleg : Legal sys op) (hk : op.keepsDense = true)
    (hstep : step dt sys op = some sys') : ∀ s ∈ sys', Dense s := by
  cases op with
  | create h ch d =>
    simp only [step, Option.bind_eq_bind, Option.pure_def, Option.bind_eq_some_iff, Option.some.injEq] at hstep
    obtain ⟨s, hs, r, hr, rfl⟩ := hstep
    have hI := hall s (mem_of_get hs)
    exact all_setH hden h (create_inv hr hI.inv0 (hleg.2 s hs).1 hleg.1 (hleg.2 s hs).2).2
  | createAdd h ch dp =>
    simp only [step, Option.bind_eq_bind, Option.pure_def, Option.bind_eq_some_iff, Option.some.injEq] at hstep
    obtain ⟨s, hs, r, hr, r2, hr2, rfl⟩ := hstep
    exact all_setH hden h (createAdd_inv hr hr2 (hall s (mem_of_get hs)).inv0 (hleg s hs)).2.1
  | addDp h dp nd =>
    simp only [step, Option.bind_eq_bind, Option.pure_def, Option.bind_eq_some_iff, Option.some.injEq] at hstep
    obtain ⟨s, hs, r, hr, rfl⟩ := hstep
    exact all_setH hden h (addDp_dense hr (hall s (mem_of_get hs)).1 (hden s (mem_of_get hs)))
  | rmDp h dp nd =>
    simp only [step, Option.bind_eq_bind, Option.pure_def, Option.bind_eq_some_iff, Option.some.injEq] at hstep
    obtain ⟨s, hs, r, hr, rfl⟩ := hstep
    exact all_setH hden h (rmDp_dense hr (hall s (mem_of_get hs)).1 (hden s (mem_of_get hs)))
  | rmOut h dp =>
    simp only [step, Option.bind_eq_bind, Option.pure_def, Option.bind_eq_some_iff, Option.some.injEq] at hstep
    obtain ⟨s, hs, r, hr, rfl⟩ := hstep
    exact all_setH hden h (rmOut_dense hr (hden s (mem_of_get hs)))
  | getSub h rt =>
    cases rt with
    | some name => simp [Op.keepsDense] at hk
    | none =>
      simp only [step, Option.bind_eq_bind, Option.pure_def, Option.bind_eq_some_iff, Option.some.injEq] at hstep
      obtain ⟨s, hs, r, hr, rfl⟩ := hstep
      have : r = s := getSubtree_none hr
      subst this
      exact all_append (all_setH hden h (by simpa using hden r (mem_of_get hs))) (hden r (mem_of_get hs))
  | rmSub h hsb => simp [Op.keepsDense] at hk
  | addSub h hsb par => simp [Op.keepsDense] at hk
  | relabel h =>
    simp only [step, Option.bind_eq_bind, Option.pure_def, Option.bind_eq_some_iff, Option.some.injEq] at hstep
    obtain ⟨s, hs, rfl⟩ := hstep
    exact all_setH hden h (relabelNodes_inv (hall s (mem_of_get hs)).1).2
  | copy h =>
    simp only [step, Option.bind_eq_bind, Option.pure_def, Option.bind_eq_some_iff, Option.some.injEq] at hstep
    obtain ⟨s, hs, rfl⟩ := hstep
    exact all_append hden (hden s (mem_of_get hs))
  | dictRT h =>
    simp only [step, Option.bind_eq_bind, Option.pure_def, Option.bind_eq_some_iff, Option.some.injEq] at hstep
    obtain ⟨s, hs, r, hr, rfl⟩ := hstep
    exact all_setH hden h ((fromDict_toDict_inv hr (hall s (mem_of_get hs)).inv0).2.1 (hden s (mem_of_get hs)))
  | update h =>
    simp only [step, Option.bind_eq_bind, Option.pure_def, Option.bind_eq_some_iff, Option.some.injEq] at hstep
    obtain ⟨s, hs, rfl⟩ := hstep
    exact all_setH hden h ((update_inv dt s).2.2 (hden s (mem_of_get hs)))
  | fresh =>
    simp only [step, Option.some.injEq] at hstep
    subst hstep
    exact all_append hden (dense_init dt)

end PhyModel.Store
