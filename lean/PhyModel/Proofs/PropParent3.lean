import PhyModel.Proofs.PropParent2
import PhyModel.Proofs.PropTable
/-! # C08 helpers 11: the parent state is recovered from any placement of a fresh data point by
removing that data point (`SMC.restrictF` with `keep := (· ≠ i)`), so two different parents never
produce the same child. -/

namespace PhyModel
open Orders Orders.Forest Proposal SMC

namespace Proposal
/-- the state recovered from a child by removing data point `i` (this is `SMC.restrict` with every
data point but `i` kept) -/
def recover (i : ℕ) (t : T) : T :=
  T.mk' (restrictF (fun a => a != i) t.f) (t.out.filter fun a => a != i)

/-- well-formed parent for placing the fresh data point `i` -/
structure WFParent (p : T) (i : ℕ) : Prop where
  fresh_f : i ∉ p.f.all
  fresh_o : i ∉ p.out
  nonempty : AllNonempty p.f
  keys : DistinctKeys p.f.roots

/-- a top-level clone not containing `i`, all of whose clones hold data -/
def Good (i : ℕ) (x : List ℕ × DF) : Prop := i ∉ x.1 ∧ i ∉ x.2.all ∧ x.1 ≠ [] ∧ AllNonempty x.2
end Proposal

theorem filter_ne_of_not_mem (i : ℕ) (l : List ℕ) (h : i ∉ l) : l.filter (fun a => a != i) = l := by
  apply List.filter_eq_self.mpr
  intro a ha
  simp only [bne_iff_ne, ne_eq]
  rintro rfl
  exact h ha

theorem good_of_wf (p : T) (i : ℕ) (wf : WFParent p i) : ∀ x ∈ p.f.roots, Good i x := by
  intro x hx
  have h1 := (allNonempty_iff_roots p.f).mp wf.nonempty x hx
  refine ⟨fun h => wf.fresh_f ((mem_all_iff_roots _ _).mpr ⟨x, hx, Or.inl h⟩),
    fun h => wf.fresh_f ((mem_all_iff_roots _ _).mpr ⟨x, hx, Or.inr h⟩), h1.1, h1.2⟩

theorem keep_of_not_mem (i : ℕ) (f : DF) (h : i ∉ f.all) : ∀ a ∈ f.all, (a != i) = true := by
  intro a ha
  simp only [bne_iff_ne, ne_eq]
  rintro rfl
  exact h ha

theorem good_rr (i : ℕ) (x : List ℕ × DF) (h : Good i x) :
    rr (fun a => a != i) (cn x) = [cn x] := by
  obtain ⟨h1, h2, h3, h4⟩ := h
  have hf := filter_ne_of_not_mem i x.1 h1
  rw [rr_cn _ x (by rw [hf]; exact h3) h4 (keep_of_not_mem i _ h2), hf]

theorem flatMap_rr_id (i : ℕ) (l : List (List ℕ × DF)) (h : ∀ x ∈ l, Good i x) :
    l.flatMap (fun x => rr (fun a => a != i) (cn x)) = l.map cn := by
  induction l with
  | nil => rfl
  | cons x l ih =>
    rw [List.flatMap_cons, good_rr i x (h x List.mem_cons_self),
      ih (fun y hy => h y (List.mem_cons_of_mem _ hy))]
    rfl

theorem flatMap_rr_addAt (i : ℕ) : ∀ (l : List (List ℕ × DF)) (j : ℕ), (∀ x ∈ l, Good i x) →
    (addAt i j l).flatMap (fun x => rr (fun a => a != i) (cn x)) = l.map cn := by
  intro l
  induction l with
  | nil => intro j _; cases j <;> rfl
  | cons x l ih =>
    intro j h
    obtain ⟨d, k⟩ := x
    obtain ⟨h1, h2, h3, h4⟩ := h (d, k) List.mem_cons_self
    have hl := fun y hy => h y (List.mem_cons_of_mem _ hy)
    cases j with
    | zero =>
      simp only [addAt, List.flatMap_cons, List.map_cons]
      have hf : (d ++ [i]).filter (fun a => a != i) = d := by
        rw [List.filter_append, filter_ne_of_not_mem i d h1]
        simp
      rw [rr_cn _ (d ++ [i], k) (by rw [hf]; exact h3) h4 (keep_of_not_mem i _ h2), hf,
        flatMap_rr_id i l hl]
      rfl
    | succ j =>
      simp only [addAt, List.flatMap_cons, List.map_cons]
      rw [good_rr i (d, k) ⟨h1, h2, h3, h4⟩, ih j hl]
      rfl

/-- any reordering of the canonical top-level clones has the parent's canonical form -/
theorem final_canon (rs N : List (List ℕ × DF)) (hkeys : DistinctKeys rs) (hN : N.Perm (rs.map cn)) :
    canon (ofRoots N) = canon (ofRoots rs) := by
  have hk' : DistinctKeys (rs.map cn) := by
    unfold DistinctKeys at hkeys ⊢
    rw [List.map_map]
    have : ((fun x => rootKey (cn x)) ∘ cn) = fun x => rootKey (cn x) := by
      funext x; simp only [Function.comp, rootKey_cn]
    rw [this]; exact hkeys
  rw [← canon_ofRoots_perm (rs.map cn) (rs.map cn) N hk' hN.symm (fun x hx => hx),
    canon_ofRoots_perm (rs.map cn) (rs.map cn) (sortRoots (rs.map cn)) hk'
      (perm_sortRoots _).symm (fun x hx => hx),
    ← canon_ofRoots, canon_idem]

theorem recover_placement_proof (p : T) (i : ℕ) (wf : WFParent p i) (kt : Kind × T)
    (hkt : kt ∈ placements p i) : recover i kt.2 = T.mk' p.f p.out := by
  have hgood := good_of_wf p i wf
  have hout1 : sortNat ((sortNat p.out).filter fun a => a != i) = sortNat p.out := by
    rw [filter_sortNat, filter_ne_of_not_mem i _ wf.fresh_o, sortNat_idem]
  have hout2 : sortNat ((sortNat (p.out ++ [i])).filter fun a => a != i) = sortNat p.out := by
    rw [filter_sortNat, List.filter_append, filter_ne_of_not_mem i _ wf.fresh_o, sortNat_idem]
    simp
  rw [placements_eq] at hkt
  simp only [List.mem_append, List.mem_map, List.mem_range, List.mem_singleton] at hkt
  rcases hkt with (⟨j, _, rfl⟩ | ⟨cr, hcr, rfl⟩) | rfl
  · -- into an existing top-level clone
    obtain ⟨M, hM, hperm⟩ := restrict_canon_perm (fun a => a != i) (addAt i j p.f.roots)
      (p.f.roots.map cn) (by rw [flatMap_rr_addAt i _ j hgood])
    simp only [recover, exT, T.mk', hM, hout1, final_canon _ M wf.keys hperm, ofRoots_roots]
  · -- a new clone above a subset of the top-level clones
    obtain ⟨c, r⟩ := cr
    obtain ⟨hc, hr, _⟩ := mem_splits _ _ hcr
    have hgc : ∀ x ∈ c, Good i x := fun x hx => hgood x (hc x hx)
    have hgr : ∀ x ∈ r, Good i x := fun x hx => hgood x (hr x hx)
    have hNE : AllNonempty (canon (ofRoots c)) :=
      allNonempty_canon _ ((allNonempty_ofRoots c).mpr (fun x hx => ⟨(hgc x hx).2.2.1, (hgc x hx).2.2.2⟩))
    have hfree : i ∉ (canon (ofRoots c)).all := by
      intro h
      rw [mem_canon_all, mem_all_iff_roots, roots_ofRoots] at h
      obtain ⟨x, hx, h | h⟩ := h
      · exact (hgc x hx).1 h
      · exact (hgc x hx).2.1 h
    have hfirst : rr (fun a => a != i) (cn ([i], ofRoots c)) = sortRoots (c.map cn) := by
      have hthis : ((cn ([i], ofRoots c)).1.filter (fun a => a != i)).isEmpty = true := by
        simp [cn, sortNat, insertNat]
      unfold rr
      rw [if_pos hthis]
      show roots (restrictF _ (canon (ofRoots c))) = _
      rw [restrictF_id _ _ hNE (keep_of_not_mem i _ hfree), canon_ofRoots, roots_ofRoots]
    obtain ⟨M, hM, hperm⟩ := restrict_canon_perm (fun a => a != i) (([i], ofRoots c) :: r)
      (p.f.roots.map cn) (by
        rw [List.flatMap_cons, hfirst, flatMap_rr_id i r hgr]
        refine ((perm_sortRoots _).append_right _).trans ?_
        rw [← List.map_append]
        exact (splits_perm _ _ hcr).map cn)
    simp only [recover, newT, T.mk', hM, hout1, final_canon _ M wf.keys hperm, ofRoots_roots]
  · -- the outlier set
    have hid : restrictF (fun a => a != i) (canon p.f) = canon p.f :=
      restrictF_id _ _ (allNonempty_canon _ wf.nonempty)
        (keep_of_not_mem i _ (fun h => wf.fresh_f ((mem_canon_all _ _).mp h)))
    simp only [recover, outT, T.mk', hid, hout2, canon_idem]

/-- two parents with a common child (same fresh data point) have the same canonical form -/
theorem unique_parent_proof (p p' : T) (i : ℕ) (wf : WFParent p i) (wf' : WFParent p' i)
    (kt kt' : Kind × T) (hkt : kt ∈ placements p i) (hkt' : kt' ∈ placements p' i)
    (h : kt.2 = kt'.2) : T.mk' p.f p.out = T.mk' p'.f p'.out := by
  rw [← recover_placement_proof p i wf kt hkt, ← recover_placement_proof p' i wf' kt' hkt', h]

def AllNonempty.dec : (f : DF) → Decidable (AllNonempty f)
  | .nil => isTrue trivial
  | .cons d k s =>
    have := AllNonempty.dec k
    have := AllNonempty.dec s
    inferInstanceAs (Decidable (d ≠ [] ∧ AllNonempty k ∧ AllNonempty s))

instance (f : DF) : Decidable (AllNonempty f) := AllNonempty.dec f

/-- the well-formedness of a parent follows from the usual tree invariants: distinct data points
(below the sentinel of the canonical order), every clone non-empty, `i` not yet placed -/
theorem wfParent_of_nodup (p : T) (i : ℕ) (hnd : p.f.all.Nodup) (hne : AllNonempty p.f)
    (hbig : ∀ a ∈ p.f.all, a < big) (hf : i ∉ p.f.all) (ho : i ∉ p.out) : WFParent p i :=
  ⟨hf, ho, hne, Proposal.distinctKeys_of_nodup p.f hnd
    (fun x hx => ((allNonempty_iff_roots p.f).mp hne x hx).1) hbig⟩

end PhyModel
