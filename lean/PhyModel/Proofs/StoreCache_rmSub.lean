import PhyModel.Proofs.StoreCache_addDp
import PhyModel.Proofs.StoreCache_relabel
/-! C06, `Tree.remove_subtree`: the subtree below (and including) one clone is cut out; only the
equations on the path from its former parent to the top can break, and that path is recomputed. -/
namespace PhyModel.Store.C06
open PhyModel

/-! ### `removeSub` -/

theorem removeSub_cons (j : Nat) (n : NodeRec) (k s : SF) :
    SF.removeSub j (.cons n k s) =
      if n.idx = j then s else .cons n (SF.removeSub j k) (SF.removeSub j s) := rfl

theorem removeSub_of_notMem (j : Nat) : ∀ f : SF, j ∉ f.idxs → SF.removeSub j f = f
  | .nil, _ => rfl
  | .cons n k s, h => by
    rw [idxs_cons, List.mem_cons, List.mem_append] at h
    push Not at h
    rw [removeSub_cons, if_neg (fun e => h.1 e.symm), removeSub_of_notMem j k h.2.1,
      removeSub_of_notMem j s h.2.2]

theorem idxs_removeSub_sublist (j : Nat) : ∀ f : SF, (SF.removeSub j f).idxs.Sublist f.idxs
  | .nil => List.Sublist.refl _
  | .cons n k s => by
    rw [removeSub_cons]
    split
    · rw [idxs_cons]
      exact (List.sublist_append_right _ _).trans (List.sublist_cons_self _ _)
    · rw [idxs_cons, idxs_cons]
      exact List.Sublist.cons_cons _
        (List.Sublist.append (idxs_removeSub_sublist j k) (idxs_removeSub_sublist j s))

theorem POK_removeSub (dt : Data) (j : Nat) : ∀ f : SF, POK dt f → POK dt (SF.removeSub j f)
  | .nil, _ => trivial
  | .cons n k s, ⟨h1, h2, h3⟩ => by
    rw [removeSub_cons]
    split
    · exact h3
    · exact ⟨h1, POK_removeSub dt j k h2, POK_removeSub dt j s h3⟩

/-- cutting out the subtree at `j` leaves everything in order when `j` was a top-level clone, and
otherwise everything except the path to the former parent of `j` (which is still present) -/
theorem ROK_removeSub_parent (dt : Data) (j : Nat) :
    ∀ (f : SF) (par : Option NodeRec) (q : Option NodeRec),
    f.idxs.Nodup → ROK dt f → SF.parentIn j par f = some q →
    (q = par ∧ ROK dt (SF.removeSub j f)) ∨
    (∃ p, q = some p ∧ p ∈ f.recs ∧ p.idx ∈ (SF.removeSub j f).idxs ∧
      ROKx dt p.idx (SF.removeSub j f))
  | .nil, _, _, _, _, h => by simp [SF.parentIn] at h
  | .cons n k s, par, q, hnd, h, hq => by
    obtain ⟨hnk, hns, hk, hs, hks⟩ := nodup_cons_idxs hnd
    rw [ROK_cons] at h
    rw [parentIn_cons] at hq
    rw [removeSub_cons]
    by_cases h1 : n.idx = j
    · rw [if_pos h1] at hq
      cases hq
      rw [if_pos h1]
      exact Or.inl ⟨rfl, h.2.2⟩
    · rw [if_neg h1] at hq
      rw [if_neg h1]
      cases hpk : SF.parentIn j (some n) k with
      | some x =>
        rw [hpk] at hq
        cases hq
        have hjk : j ∈ k.idxs := by
          by_contra hc
          rw [(parentIn_none_iff j k (some n)).2 hc] at hpk
          cases hpk
        rw [removeSub_of_notMem j s (hks j hjk)]
        refine Or.inr ?_
        rcases ROK_removeSub_parent dt j k (some n) q hk h.2.1 hpk with
          ⟨rfl, hkOK⟩ | ⟨p, rfl, hp, hpi, hpx⟩
        · exact ⟨n, rfl, List.mem_cons_self, by simp, ROKx_cons.2
            ⟨Or.inl (Or.inl rfl), hkOK.toROKx _, h.2.2.toROKx _⟩⟩
        · exact ⟨p, rfl, List.mem_cons_of_mem _ (List.mem_append_left _ hp),
            by rw [idxs_cons]; exact List.mem_cons_of_mem _ (List.mem_append_left _ hpi),
            ROKx_cons.2 ⟨Or.inl (Or.inr hpi), hpx, h.2.2.toROKx _⟩⟩
      | none =>
        rw [hpk] at hq
        have hjk : j ∉ k.idxs := (parentIn_none_iff j k (some n)).1 hpk
        rw [removeSub_of_notMem j k hjk]
        rcases ROK_removeSub_parent dt j s par q hs h.2.2 hq with
          ⟨rfl, hsOK⟩ | ⟨p, rfl, hp, hpi, hpx⟩
        · exact Or.inl ⟨rfl, ROK_cons.2 ⟨h.1, h.2.1, hsOK⟩⟩
        · exact Or.inr ⟨p, rfl, List.mem_cons_of_mem _ (List.mem_append_right _ hp),
            by rw [idxs_cons]; exact List.mem_cons_of_mem _ (List.mem_append_right _ hpi),
            ROKx_cons.2 ⟨Or.inr h.1, h.2.1.toROKx _, hpx⟩⟩

/-! ### deleting bookkeeping entries -/

theorem lookup_alDel_self {κ ν} [BEq κ] [LawfulBEq κ] (k : κ) :
    ∀ m : List (κ × ν), (alDel m k).lookup k = none
  | [] => rfl
  | (k0, v0) :: m => by
    unfold alDel
    rw [List.filter_cons]
    by_cases h : k0 = k
    · subst h
      simp only [beq_self_eq_true, Bool.not_true, Bool.false_eq_true, if_false]
      exact lookup_alDel_self k0 m
    · have h1 : (k0 == k) = false := by simpa using h
      have h2 : (k == k0) = false := by simpa using fun e : k = k0 => h e.symm
      simp only [h1, Bool.not_false, if_true]
      rw [List.lookup_cons, h2]
      exact lookup_alDel_self k m

theorem lookup_alDel_ne {κ ν} [BEq κ] [LawfulBEq κ] (k k' : κ) (hne : k ≠ k') :
    ∀ m : List (κ × ν), (alDel m k').lookup k = m.lookup k
  | [] => rfl
  | (k0, v0) :: m => by
    unfold alDel
    rw [List.filter_cons]
    by_cases h : k0 = k'
    · subst h
      have h2 : (k == k0) = false := by simpa using hne
      simp only [beq_self_eq_true, Bool.not_true, Bool.false_eq_true, if_false]
      rw [List.lookup_cons, h2]
      exact lookup_alDel_ne k k0 hne m
    · have h1 : (k0 == k') = false := by simpa using h
      simp only [h1, Bool.not_false, if_true]
      rw [List.lookup_cons, List.lookup_cons]
      have := lookup_alDel_ne k k' hne m
      unfold alDel at this
      rw [this]

theorem lookup_alDel_some {κ ν} [BEq κ] [LawfulBEq κ] (m : List (κ × ν)) (k k' : κ) (v : ν)
    (h : (alDel m k').lookup k = some v) : m.lookup k = some v := by
  by_cases hk : k = k'
  · subst hk; rw [lookup_alDel_self] at h; cases h
  · rwa [lookup_alDel_ne k k' hk] at h

theorem foldlM_inv {σ α} (P : σ → σ → Prop) (hrefl : ∀ a, P a a)
    (htrans : ∀ a b c, P a b → P b c → P a c) (stp : σ → α → Option σ)
    (hstp : ∀ a x b, stp a x = some b → P a b) :
    ∀ (l : List α) (a b : σ), List.foldlM stp a l = some b → P a b
  | [], a, b, h => by
    rw [List.foldlM_nil] at h
    cases h; exact hrefl a
  | x :: l, a, b, h => by
    rw [List.foldlM_cons] at h
    simp only [Option.bind_eq_bind, Option.bind_eq_some_iff] at h
    obtain ⟨c, hc, h⟩ := h
    exact htrans a c b (hstp a x c hc) (foldlM_inv P hrefl htrans stp hstp l c b h)

/-- what the bookkeeping loop of `remove_subtree` preserves -/
def RmInv (a b : Store) : Prop :=
  b.forest = a.forest ∧ b.rootR = a.rootR ∧
    ∀ nm i, b.nodeIdx.lookup nm = some i → a.nodeIdx.lookup nm = some i

/-- **C06, `remove_subtree`** -/
theorem cacheOK_rmSub (dt : Data) (s sub s' : Store) (hw : WFc s) (hc : CacheOK dt s)
    (h : s.removeSubtree dt sub = some s') : CacheOK dt s' := by
  unfold Store.removeSubtree at h
  split at h
  · cases h; exact cacheOK_init dt
  · simp only [Option.bind_eq_bind, Option.pure_def] at h
    by_cases hlen : (sub.forest.rootRecs.length != 1) = true
    · rw [if_pos hlen] at h; cases h
    · rw [if_neg hlen] at h
      simp only [Option.bind_eq_some_iff] at h
      obtain ⟨subRoot, _, par, hpar, j, hj, s1, hfold, hup⟩ := h
      have hinv : RmInv s s1 := by
        refine foldlM_inv RmInv (fun a => ⟨rfl, rfl, fun _ _ h => h⟩)
          (fun a b c h1 h2 => ⟨h2.1.trans h1.1, h2.2.1.trans h1.2.1,
            fun nm i h => h1.2.2 nm i (h2.2.2 nm i h)⟩) _ ?_ _ _ _ hfold
        intro a nm b hab
        split at hab
        · cases hab
        · simp only [Option.bind_eq_some_iff] at hab
          obtain ⟨ci, _, hab⟩ := hab
          split at hab
          · cases hab
          · cases hab
            exact ⟨rfl, rfl, fun nm' i h => lookup_alDel_some _ _ _ _ h⟩
      obtain ⟨hf1, _, hlk⟩ := hinv
      obtain ⟨i2, q, hi2, hq, rfl⟩ := getParent_some hpar
      have : i2 = j := Option.some.inj (hi2.symm.trans hj)
      subst this
      obtain ⟨hp, hr⟩ := (cacheOKsf_iff dt _).1 hc.1
      rw [hf1] at hup
      have hp2 := POK_removeSub dt i2 s.forest hp
      have hnd2 : (SF.removeSub i2 s.forest).idxs.Nodup :=
        (idxs_removeSub_sublist i2 s.forest).nodup hw.idxs_nodup
      rcases ROK_removeSub_parent dt i2 s.forest none q hw.idxs_nodup hr hq with
        ⟨rfl, hrok⟩ | ⟨p, rfl, hpm, _, hpx⟩
      · exact cacheOK_updatePath_none dt _ s' ((cacheOKsf_iff dt _).2 ⟨hp2, hrok⟩) hup
      · refine cacheOK_updatePath_some dt _ s' p.name hnd2 hp2 ?_ hup
        intro i hi
        have : i = p.idx := hw.lookup_idx p hpm i (hlk _ _ hi)
        rw [this]
        exact hpx

end PhyModel.Store.C06
