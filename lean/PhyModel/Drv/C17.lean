import PhyModel.Drv.Common
import PhyModel.Model.Loader
/-! Handler for C17: `load` (input loader, with or without a cluster file).

Request: `{"op":"load","hasTC":b,"hasErr":b,"rows":[[mut,sample,ref,alt,major,minor,normal,"tc","err"],..],
"clusters":[[mut,cid,"p"|null],..]?, "op_prob":"p"?}`.  Answer: samples, the per-mutation
entries of `load_pyclone_data`, the data points of `load_data`.  What the real code rejects is
rejected (`throw "reject <kind> ..."`). -/
open Lean PhyModel PhyModel.Loader

namespace PhyModel.Drv

def asRow (j : Json) : Except String Row := do
  let a ← j.getArr?
  if a.size ≠ 9 then throw "row must have 9 fields"
  pure { mid := ← a[0]!.getStr?, sample := ← a[1]!.getStr?, ref := ← a[2]!.getNat?, alt := ← a[3]!.getNat?,
         major := ← a[4]!.getNat?, minor := ← a[5]!.getNat?, normal := ← a[6]!.getNat?,
         tc := ← parseRat (← a[7]!.getStr?), err := ← parseRat (← a[8]!.getStr?) }

def asCRow (j : Json) : Except String CRow := do
  let a ← j.getArr?
  if a.size ≠ 3 then throw "cluster row must have 3 fields"
  let p ← match a[2]! with
    | .null => pure none
    | x => do pure (some (← parseRat (← x.getStr?)))
  pure { mid := ← a[0]!.getStr?, cid := ← a[1]!.getNat?, prob := p }

def errStr : LoadErr → String
  | .missingCell m s => s!"reject missingCell {m} {s}"
  | .dupCell m s => s!"reject dupCell {m} {s}"
  | .majorLtMinor a b => s!"reject majorLtMinor {a} {b}"
  | .noCluster m => s!"reject noCluster {m}"

def jEntryC17 (e : Entry) : Json :=
  Json.mkObj [("a", jNat e.a), ("b", jNat e.b),
    ("cn", Json.arr (e.cn.map fun (x, y, z) => jNats [x, y, z]).toArray),
    ("mu", Json.arr (e.mu.map fun (x, y, z) => jVec [x, y, z]).toArray),
    ("t", jRat e.t)]

def jStrs (l : List String) : Json := Json.arr (l.map Json.str).toArray

def handleC17 : Handler := fun op j =>
  match op with
  | "load" => some do
    let hasTC ← j.getObjValAs? Bool "hasTC"
    let hasErr ← j.getObjValAs? Bool "hasErr"
    let rows ← (← (← j.getObjVal? "rows").getArr?).toList.mapM asRow
    match j.getObjVal? "clusters" with
    | .error _ =>
      match loadData hasTC hasErr rows with
      | .error e => throw (errStr e)
      | .ok (samples, dps) =>
        pure (Json.mkObj [("samples", jStrs samples),
          ("data", Json.arr (dps.map fun (i, m, es) =>
            Json.mkObj [("idx", jNat i), ("name", Json.str m),
              ("entries", Json.arr (es.map jEntryC17).toArray)]).toArray)])
    | .ok cj =>
      let cl ← (← cj.getArr?).toList.mapM asCRow
      let opp ← getRat j "op_prob"
      match loadClustered hasTC hasErr rows cl opp with
      | .error e => throw (errStr e)
      | .ok (samples, cs) =>
        pure (Json.mkObj [("samples", jStrs samples),
          ("clusters", Json.arr (cs.map fun c =>
            Json.mkObj [("idx", jNat c.idx), ("name", Json.str (toString c.cid)),
              ("members", jStrs c.members), ("size", jNat c.size), ("prob", jRat c.prob)]).toArray)])
  | _ => none

end PhyModel.Drv
