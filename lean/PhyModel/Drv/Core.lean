import PhyModel.Drv.Common
import PhyModel.Model.OrdersSampler
/-! Handlers for the core ops: `lik` (C02), `dens` (C03), `perm` (C09). -/
open Lean PhyModel PhyModel.Orders

namespace PhyModel.Drv

/-- per node in preorder (own order of the request): p and r vectors per sample -/
partial def nodeVecs (dt : Data) : DF → List Json
  | .nil => []
  | .cons d k s =>
    Json.mkObj [("dps", jNats d),
      ("p", Json.arr ((List.range dt.S).map fun sm => jVec (nodeP dt sm d)).toArray),
      ("r", Json.arr ((List.range dt.S).map fun sm => jVec (nodeR dt sm d k)).toArray)]
      :: (nodeVecs dt k ++ nodeVecs dt s)

def handleCore : Handler := fun op j =>
  match op with
  | "ping" => some (pure (Json.mkObj [("pong", Json.num 1)]))
  | "lik" => some do
    let dt ← asData (← j.getObjVal? "data")
    let (f, _) ← getTree j
    pure (Json.mkObj [
      ("nodes", Json.arr (nodeVecs dt f).toArray),
      ("root", Json.arr ((List.range dt.S).map fun sm => jVec (rootR dt sm f)).toArray)])
  | "dens" => some do
    let dt ← asData (← j.getObjVal? "data")
    let α ← getRat j "alpha"
    let (f, o) ← getTree j
    pure (Json.mkObj [
      ("pMarg", jRat (Density.pMarg dt α f o)),
      ("pOne", jRat (Density.pOne dt α f o)),
      ("outMarg", jVec (o.map (Density.outlierMarg1 dt))),
      ("canon", jForest f.canon)])
  | "perm" => some do
    let (f, o) ← getTree j
    pure (Json.mkObj [
      ("count", jRat (countCode f o.length)),
      ("orders", Json.arr ((allOrders f o).map jNats).toArray),
      ("dist", distJson jNats (sampleOrder f o))])
  | _ => none

end PhyModel.Drv
