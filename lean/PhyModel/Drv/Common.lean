import Lean.Data.Json
import PhyModel.Model.Density
import PhyModel.Model.Dist
/-! JSON helpers shared by the driver's handler modules (`PhyModel/Drv/*.lean`).  Rationals travel
as "num/den" strings. -/
open Lean PhyModel PhyModel.Orders

namespace PhyModel.Drv

def parseRat (s : String) : Except String Rat :=
  match s.splitOn "/" with
  | [a, b] => match a.toInt?, b.toNat? with
    | some n, some d => if d = 0 then .error s!"zero denominator {s}" else .ok (mkRat n d)
    | _, _ => .error s!"bad rational {s}"
  | [a] => match a.toInt? with
    | some n => .ok (n : Rat)
    | none => .error s!"bad rational {s}"
  | _ => .error s!"bad rational {s}"

def ratStr (q : Rat) : String := s!"{q.num}/{q.den}"
def jRat (q : Rat) : Json := Json.str (ratStr q)
def jVec (v : List Rat) : Json := Json.arr (v.map jRat).toArray
def jNat (n : Nat) : Json := Json.num (JsonNumber.fromNat n)
def jNats (v : List Nat) : Json := Json.arr (v.map jNat).toArray

def getRat (j : Json) (k : String) : Except String Rat := do
  let s ← j.getObjValAs? String k
  parseRat s

def getNat (j : Json) (k : String) : Except String Nat := j.getObjValAs? Nat k

def asNats (j : Json) : Except String (List Nat) := do
  let a ← j.getArr?
  a.toList.mapM fun x => x.getNat?

def asVec (j : Json) : Except String (List Rat) := do
  let a ← j.getArr?
  a.toList.mapM fun x => do let s ← x.getStr?; parseRat s

partial def asForest (j : Json) : Except String DF := do
  let a ← j.getArr?
  let nodes ← a.toList.mapM fun nd => do
    let pr ← nd.getArr?
    if pr.size ≠ 2 then throw "forest node must be [dps, kids]"
    let d ← asNats pr[0]!
    let k ← asForest pr[1]!
    pure (d, k)
  pure (Forest.ofRoots nodes)

partial def jForest (f : DF) : Json :=
  Json.arr ((f.roots.map fun (d, k) => Json.arr #[jNats d, jForest k]).toArray)

def asData (j : Json) : Except String Data := do
  let G ← getNat j "G"
  let S ← getNat j "S"
  let op ← getRat j "op"
  let vj ← (← j.getObjVal? "vals").getArr?
  let vals ← vj.toList.mapM fun dp => do
    let rows ← dp.getArr?
    rows.toList.mapM asVec
  let sz ← match j.getObjVal? "sizes" with
    | .ok s => asNats s
    | .error _ => pure (vals.map fun _ => 1)
  let ops ← match j.getObjVal? "ops" with
    | .ok s => asVec s
    | .error _ => pure (vals.map fun _ => op)
  if G = 0 then throw "grid size 0"
  for dp in vals do
    if dp.length ≠ S then throw "sample count mismatch"
    for r in dp do
      if r.length ≠ G then throw "grid size mismatch"
  pure { G := G, S := S, vals := vals, op := ops, sz := sz }

def getTree (j : Json) : Except String (DF × List Nat) := do
  let f ← asForest (← j.getObjVal? "forest")
  let o ← match j.getObjVal? "outs" with
    | .ok s => asNats s
    | .error _ => pure []
  pure (f, o)

def distJson {α} (enc : α → Json) (d : Dist α) : Json :=
  Json.arr (d.map fun (a, q) => Json.arr #[enc a, jRat q]).toArray

/-- a handler looks at the op name and either declines (`none`) or answers -/
abbrev Handler := String → Json → Option (Except String Json)

end PhyModel.Drv
