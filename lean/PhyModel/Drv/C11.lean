import PhyModel.Drv.Common
import PhyModel.Model.Trace
/-! Handler for op `trace` (C11): the summary commands on a synthetic or sampled trace.
Request: `{"op":"trace","cmd":"map"|"freq"|"topo","chains":[{"num":n,"entries":[{"forest":..,"outs":..,
"score":"num/den"}]}],"archive":bool,"top":int,"maxsize":nat}`; chains in dict order. -/
open Lean PhyModel PhyModel.Trace

namespace PhyModel.Drv

def jKey (k : TreeKey) : Json :=
  Json.mkObj [("clades", Json.arr (k.1.map jNats).toArray), ("outs", jNats k.2)]

def jEntry (e : TreeKey × Rat) : Json := Json.mkObj [("key", jKey e.1), ("score", jRat e.2)]

def jRow (w : Row TreeKey Rat) : Json :=
  Json.mkObj [("key", jKey w.key), ("count", jNat w.count), ("score", jRat w.score),
    ("chain", jNat w.chain), ("iter", jNat w.iter)]

def asTrace (j : Json) : Except String (Trace TreeKey Rat) := do
  let cs ← (← j.getObjVal? "chains").getArr?
  cs.toList.mapM fun c => do
    let num ← getNat c "num"
    let es ← (← c.getObjVal? "entries").getArr?
    let ents ← es.toList.mapM fun e => do
      let (f, o) ← getTree e
      let s ← getRat e "score"
      pure (treeKey f o, s)
    pure (num, ents)

def handleC11 : Handler := fun op j =>
  match op with
  | "trace" => some do
    let tr ← asTrace j
    let cmd ← j.getObjValAs? String "cmd"
    if !wfb tr then throw "duplicate chain number (not a dict)"
    -- every command that builds a clone table reads results[0]["data"]
    let needs0 := cmd != "topo" || (j.getObjValAs? Bool "archive").toOption.getD false
    if needs0 && (tr.find? fun ch => ch.1 == 0).isNone then throw "KeyError: results[0]"
    match cmd with
    | "map" =>
      match mapPick tr with
      | some e => pure (Json.mkObj [("pick", jEntry e),
          ("candidates", Json.arr ((mapCandidates tr).map jEntry).toArray)])
      | none => throw "IndexError: empty trace"
    | "freq" =>
      match freqPick tr with
      | some e => pure (Json.mkObj [("pick", jEntry e),
          ("candidates", Json.arr ((freqCandidates tr).map jRow).toArray)])
      | none => throw "KeyError: empty topology table"
    | "topo" =>
      let tbl := topoTable tr
      if tbl.isEmpty then throw "KeyError: empty topology table"
      let arch ← match j.getObjValAs? Bool "archive" with
        | .ok true => do
          let top ← j.getObjValAs? Int "top"
          let mx ← getNat j "maxsize"
          pure (Json.arr ((archive (clampTop mx top) tbl).map fun p =>
            Json.mkObj [("rank", jNat p.1), ("row", jRow p.2)]).toArray)
        | _ => pure Json.null
      pure (Json.mkObj [("table", Json.arr (tbl.map jRow).toArray), ("archive", arch),
        ("dict", Json.arr ((topoDict (flat tr)).map jRow).toArray)])
    | _ => throw s!"bad cmd {cmd}"
  | _ => none

end PhyModel.Drv
