import PhyModel.Drv.Common
import PhyModel.Model.Moves
import PhyModel.Model.Sweep
/-! Handlers for the sampling ops: `prop` (C08), `pg` (C01), `move` (C04), `sweep` (C04 capstone). -/
open Lean PhyModel PhyModel.Orders PhyModel.Proposal

namespace PhyModel.Drv

def jT (t : T) : Json := Json.arr #[jForest t.f, jNats t.out]

def getT (j : Json) (k : String) : Except String T := do
  let tj ← j.getObjVal? k
  let (f, o) ← getTree tj
  pure (T.mk' f o)

def getCfg (j : Json) : Except String Cfg := do
  let cj ← j.getObjVal? "cfg"
  let kind ← match (← cj.getObjValAs? String "kind") with
    | "bootstrap" => pure Prop3.bootstrap
    | "semi-adapted" => pure Prop3.semi
    | "fully-adapted" => pure Prop3.full
    | k => throw s!"unknown proposal {k}"
  let op ← getRat cj "op"
  let α ← getRat cj "alpha"
  let perm ← cj.getObjValAs? Bool "perm"
  if α ≤ 0 then throw "alpha must be positive"
  if op < 0 ∨ op ≥ 1 then throw "outlier proposal probability out of range"
  pure { kind := kind, op := op, α := α, usePerm := perm }

def handleSampling : Handler := fun op j =>
  match op with
  | "prop" => some do
    let dt ← asData (← j.getObjVal? "data")
    let c ← getCfg j
    let first ← j.getObjValAs? Bool "first"
    let last ← j.getObjValAs? Bool "last"
    let p ← getT j "parent"
    let i ← getNat j "dp"
    let tab := table dt c first p i
    pure (Json.mkObj [
      ("table", Json.arr (tab.map fun (t, q) =>
          Json.arr #[jT t, jRat q, jRat (incrWeight dt c first last p t q)]).toArray),
      ("sampler", distJson jT (Dist.norm (sampler dt c first p i))),
      ("placements", Json.arr ((placements p i).map fun (_, t) => jT t).toArray)])
  | "pg" => some do
    let dt ← asData (← j.getObjVal? "data")
    let c ← getCfg j
    let N ← getNat j "N"
    let θ ← getRat j "theta"
    let x ← getT j "tree"
    if N = 0 then throw "no particles"
    let r : SMC.Run := { dt := dt, c := c, N := N, θ := θ }
    match j.getObjVal? "sigma" with
    | .ok sj =>
      let σ ← asNats sj
      pure (Json.mkObj [("dist", distJson jT (SMC.pgGiven r x σ))])
    | .error _ => pure (Json.mkObj [("dist", distJson jT (SMC.pgStep r x))])
  | "smc" => some do
    let dt ← asData (← j.getObjVal? "data")
    let c ← getCfg j
    let N ← getNat j "N"
    let θ ← getRat j "theta"
    let x ← getT j "tree"
    if N = 0 then throw "no particles"
    pure (Json.mkObj [("dist", distJson jT (SMC.smcStep { dt := dt, c := c, N := N, θ := θ } x))])
  | "subtree" => some do
    let dt ← asData (← j.getObjVal? "data")
    let c ← getCfg j
    let N ← getNat j "N"
    let θ ← getRat j "theta"
    let x ← getT j "tree"
    if N = 0 then throw "no particles"
    pure (Json.mkObj [("dist", distJson jT (Moves.subtreeMove { dt := dt, c := c, N := N, θ := θ } x))])
  | "sweep" => some do
    -- one iteration of `run.py:_run_main_sampler` with `subtree_update_prob = 0`: exactly the term the theorem
    -- `Props.C04.full_sweep_invariant` is about, `Sweep.sweepModel r (Sweep.mvOf r) k₁ k₂ x`
    let dt ← asData (← j.getObjVal? "data")
    let c ← getCfg j
    let N ← getNat j "N"
    let θ ← getRat j "theta"
    let k₁ ← getNat j "k1"
    let k₂ ← getNat j "k2"
    let x ← getT j "tree"
    if N = 0 then throw "no particles"
    let r : SMC.Run := { dt := dt, c := c, N := N, θ := θ }
    pure (Json.mkObj [("dist", distJson jT (Sweep.sweepModel r (Sweep.mvOf r) k₁ k₂ x))])
  | "move" => some do
    let dt ← asData (← j.getObjVal? "data")
    let α ← getRat j "alpha"
    let outl ← j.getObjValAs? Bool "outliers"
    let kind ← j.getObjValAs? String "kind"
    let x ← getT j "tree"
    let c : Moves.Cfg := { dt := dt, α := α, outliers := outl }
    match kind with
    | "dp" => pure (Json.mkObj [("dist", distJson jT (Moves.dataPointMove c x))])
    | "prg" => pure (Json.mkObj [("dist", distJson jT (Moves.pruneRegraft c x))])
    | k => throw s!"unknown move {k}"
  | _ => none

end PhyModel.Drv
