import PhyModel.Drv.Common
import PhyModel.Model.MapSpec
/-! Handler for op `map` (C10).

Request: `{"op":"map","G":G,"S":S,"forest":[[vecs, kids], ...]}` where `vecs` is a list of `S` lists of
`G` rationals (the clone's `log_p` row per sample) and `kids` is a forest again; the order of the
lists is the order `graph.successors` yields in the code.

Answer: `idx` — per clone in preorder, the grid index chosen per sample; `cp` — per clone in
preorder, the exact clonal prevalence per sample; `value` — the objective (summed over clones and
samples) of the chosen assignment; `root` — the value table entry the dynamic programme holds for
the virtual root, summed over samples (equal to `value` by `value_eq_max`). -/
open Lean PhyModel PhyModel.MapDP

namespace PhyModel.Drv

partial def asMForest (G S : Nat) (j : Json) : Except String MForest := do
  let a ← j.getArr?
  let nodes ← a.toList.mapM fun nd => do
    let pr ← nd.getArr?
    if pr.size ≠ 2 then throw "forest node must be [vecs, kids]"
    let vj ← pr[0]!.getArr?
    let vecs ← vj.toList.mapM asVec
    if vecs.length ≠ S then throw "sample count mismatch"
    for v in vecs do
      if v.length ≠ G then throw "grid size mismatch"
    let k ← asMForest G S pr[1]!
    pure (vecs, k)
  pure (nodes.foldr (fun (v, k) acc => MForest.cons v k acc) MForest.nil)

def transposeN (n : Nat) (rows : List (List α)) [Inhabited α] : List (List α) :=
  (List.range n).map fun i => rows.map fun r => r.getD i default

def handleC10 : Handler := fun op j =>
  match op with
  | "map" => some do
    let G ← getNat j "G"
    let S ← getNat j "S"
    if G < 2 then throw "grid size below 2: CCF = idx/(G-1) undefined"
    if S = 0 then throw "no samples"
    let f ← asMForest G S (← j.getObjVal? "forest")
    let per := mapAll G S f
    let n := (f.sample 0).size
    let cps := (List.range S).map fun s => clonalPrev G (f.sample s) (per.getD s [])
    let root := ((List.range S).map fun s => rootValue G (f.sample s)).sum
    pure (Json.mkObj [
      ("idx", Json.arr ((transposeN n per).map jNats).toArray),
      ("cp", Json.arr ((transposeN n cps).map jVec).toArray),
      ("value", jRat (objectiveAll G S f)),
      ("root", jRat root)])
  | _ => none

end PhyModel.Drv
