import PhyModel.Drv.Common
import PhyModel.Model.Memo
/-! Handler for C14: runs a history of calls / clears through the model's memo table
(`Cache.step` via `Memo.runTrace`) and reports per operation hit/miss, the returned value and the
table size.

* `cache_logS`  {"G","S","cap","ops":[{"c":[mat,…]} | "clear", …]}   — memoised `compute_log_S`
* `cache_conv`  {"G","S","cap","ops":[{"a":mat,"b":mat} | "clear", …]} — memoised `_convolve_two_children`
* `cache_env`   {"cap","withEnv","ops":[[env,arg] | "clear", …]}     — a table in front of a function
  of a changing environment (the proposal caches: env = alpha), `f env arg = 1000003*env + arg`

A matrix is a list of `S` rows of `G` rationals ("num/den"); anything of another shape is rejected
(the real code works on one fixed grid shape per process). -/
open Lean PhyModel PhyModel.Cache PhyModel.Memo

namespace PhyModel.Drv

def asMat (G S : Nat) (j : Json) : Except String Mat := do
  let rows ← j.getArr?
  let m ← rows.toList.mapM asVec
  if m.length ≠ S then throw s!"matrix with {m.length} rows, expected {S}"
  for r in m do
    if r.length ≠ G then throw s!"matrix row of length {r.length}, expected {G}"
  pure m

def jMat (m : Mat) : Json := Json.arr (m.map jVec).toArray

def jTrace {V} (enc : V → Json) (t : List (Bool × Option V × Nat)) : Json :=
  Json.arr (t.map fun (h, v, n) => Json.mkObj [
    ("hit", Json.bool h),
    ("val", match v with | some x => enc x | none => Json.null),
    ("size", jNat n)]).toArray

def parseOps {A} (one : Json → Except String A) (j : Json) : Except String (List (Op Unit A)) := do
  let a ← j.getArr?
  a.toList.mapM fun o =>
    match o with
    | .str "clear" => pure Op.clear
    | .str s => throw s!"unknown operation {s}"
    | o => do pure (Op.call () (← one o))

def handleC14 : Handler := fun op j =>
  match op with
  | "cache_logS" => some do
    let G ← getNat j "G"
    let S ← getNat j "S"
    let cap ← getNat j "cap"
    if G = 0 then throw "grid size 0"
    let ops ← parseOps (fun o => do
      let cs ← (← o.getObjVal? "c").getArr?
      cs.toList.mapM (asMat G S)) (← j.getObjVal? "ops")
    pure (jTrace jMat (runTrace logSKey (logSFun G S) ⟨[], cap⟩ ops))
  | "cache_conv" => some do
    let G ← getNat j "G"
    let S ← getNat j "S"
    let cap ← getNat j "cap"
    if G = 0 then throw "grid size 0"
    let ops ← parseOps (fun o => do
      let a ← asMat G S (← o.getObjVal? "a")
      let b ← asMat G S (← o.getObjVal? "b")
      pure (a, b)) (← j.getObjVal? "ops")
    pure (jTrace jMat (runTrace convKey (convFun G) ⟨[], cap⟩ ops))
  | "cache_env" => some do
    let cap ← getNat j "cap"
    let withEnv ← j.getObjValAs? Bool "withEnv"
    let a ← (← j.getObjVal? "ops").getArr?
    let ops ← a.toList.mapM fun o =>
      match o with
      | .str "clear" => pure (Op.clear : Op Nat Nat)
      | .str s => throw s!"unknown operation {s}"
      | o => do
        let pr ← o.getArr?
        if pr.size ≠ 2 then throw "call must be [env, arg]"
        pure (Op.call (← pr[0]!.getNat?) (← pr[1]!.getNat?))
    pure (jTrace jNat (runTrace (envKey withEnv) (fun e a => 1000003 * e + a) ⟨[], cap⟩ ops))
  | _ => none

end PhyModel.Drv
