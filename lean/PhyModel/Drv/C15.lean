import PhyModel.Drv.Common
import PhyModel.Model.TraceLoop
/-! Handler for C15:
* `c15_rt`    — a store given by its description (payload forest with graph indices, names and data
  in `_data` order, the two maps, `_data`, last-added) and, separately, the edge list of the real
  `to_dict()`: `wfdB`, `toDict`, `fromDict (toDict s)` compared with `normRoot s`, and the store
  `fromDict` rebuilds from the *real* dictionary (per-clone vectors, root vector, both densities);
* `c15_sched` — recorded iteration numbers of one chain for given per-iteration durations;
* `c15_trace` — the stateful main loop on explicit per-iteration trees / concentration draws. -/
open Lean PhyModel PhyModel.Orders PhyModel.Store PhyModel.Store.Store PhyModel.RunLoop PhyModel.TraceLoop

namespace PhyModel.Drv

def jInt15 (n : Int) : Json := Json.num (JsonNumber.fromInt n)

def asInt15 (j : Json) : Except String Int := j.getInt?

def asNatPairs15 (j : Json) : Except String (List (Nat × Nat)) := do
  let a ← j.getArr?
  a.toList.mapM fun e => do
    let p ← e.getArr?
    if p.size ≠ 2 then throw "pair expected"
    pure (← p[0]!.getNat?, ← p[1]!.getNat?)

/-- `[[idx, name, dps, kids], ...]` -/
partial def asSpec15 (dt : Data) (j : Json) : Except String SF := do
  let a ← j.getArr?
  let rec go : List Json → Except String SF
    | [] => pure .nil
    | nd :: rest => do
      let q ← nd.getArr?
      if q.size ≠ 4 then throw "spec node must be [idx, name, dps, kids]"
      let idx ← q[0]!.getNat?
      let name ← asInt15 q[1]!
      let dps ← asNats q[2]!
      let kids ← asSpec15 dt q[3]!
      let sibs ← go rest
      pure (.cons (specRec dt idx name dps) kids sibs)
  go a.toList

def asLast15 (j : Json) (k : String) : Except String (Option Int) :=
  match j.getObjVal? k with
  | .ok .null => pure none
  | .ok v => do pure (some (← asInt15 v))
  | .error _ => pure none

/-- the store described by a request object (cached `r` vectors rebuilt, root vector current) -/
def asStore15 (dt : Data) (j : Json) : Except String Store := do
  let f0 ← asSpec15 dt (← j.getObjVal? "nodes")
  let f := updAll dt f0
  let ni ← (← (← j.getObjVal? "node_idx").getArr?).toList.mapM fun e => do
    let p ← e.getArr?
    if p.size ≠ 2 then throw "pair expected"
    pure (← asInt15 p[0]!, ← p[1]!.getNat?)
  let nir ← (← (← j.getObjVal? "node_idx_rev").getArr?).toList.mapM fun e => do
    let p ← e.getArr?
    if p.size ≠ 2 then throw "pair expected"
    pure (← p[0]!.getNat?, ← asInt15 p[1]!)
  let data ← (← (← j.getObjVal? "node_data").getArr?).toList.mapM fun e => do
    let p ← e.getArr?
    if p.size ≠ 2 then throw "pair expected"
    pure (← asInt15 p[0]!, ← asNats p[1]!)
  let last ← asLast15 j "last"
  pure { forest := f, rootR := recompRoot dt f, nodeIdx := ni, nodeIdxRev := nir, data := data, last := last }

def jVecs15 (v : List Vec) : Json := Json.arr (v.map jVec).toArray

def sfJson15 : SF → List Json
  | .nil => []
  | .cons n k s =>
    Json.mkObj [("idx", jNat n.idx), ("name", jInt15 n.name), ("dps", jNats n.dps),
                ("p", jVecs15 n.p), ("r", jVecs15 n.r), ("kids", Json.arr (sfJson15 k).toArray)] :: sfJson15 s

def jLast15 : Option Int → Json
  | none => Json.null
  | some n => jInt15 n

def jDict15 (d : TDict) : Json :=
  Json.mkObj [
    ("edges", Json.arr (d.edges.map fun e => jNats [e.1, e.2]).toArray),
    ("node_idx", Json.arr (d.nodeIdx.map fun e => Json.arr #[jInt15 e.1, jNat e.2]).toArray),
    ("node_idx_rev", Json.arr (d.nodeIdxRev.map fun e => Json.arr #[jNat e.1, jInt15 e.2]).toArray),
    ("node_data", Json.arr (d.data.map fun e => Json.arr #[jInt15 e.1, jNats e.2]).toArray),
    ("last", jLast15 d.last)]

def jStore15 (dt : Data) (α : Rat) (n : Nat) (s : Store) : Json :=
  Json.mkObj [
    ("nodes", Json.arr (sfJson15 s.forest).toArray),
    ("root", jVecs15 s.rootR),
    ("node_idx", Json.arr (s.nodeIdx.map fun e => Json.arr #[jInt15 e.1, jNat e.2]).toArray),
    ("node_idx_rev", Json.arr (s.nodeIdxRev.map fun e => Json.arr #[jNat e.1, jInt15 e.2]).toArray),
    ("node_data", Json.arr (s.data.map fun e => Json.arr #[jInt15 e.1, jNats e.2]).toArray),
    ("labels", Json.arr (s.labels.map fun e => Json.arr #[jNat e.1, jInt15 e.2]).toArray),
    ("last", jLast15 s.last),
    ("pOne", jRat (pOneC dt α s)), ("pMarg", jRat (pMargC dt α s)),
    ("complete", Json.bool (dataCompleteB n s)), ("wfd", Json.bool (wfdB dt s)),
    ("shared", Json.bool (wfShB s && fullB s && cacheOKB dt s && alignedB s))]

def optStore15 (dt : Data) (α : Rat) (n : Nat) : Option Store → Json
  | none => Json.null
  | some s => jStore15 dt α n s

def asRatList15 (j : Json) (k : String) : Except String (List Rat) := do
  match j.getObjVal? k with
  | .ok v => asVec v
  | .error _ => pure []

def handleC15 : Handler := fun op j =>
  match op with
  | "c15_rt" => some do
    let dt ← asData (← j.getObjVal? "data")
    let α ← getRat j "alpha"
    let n ← getNat j "n"
    let sj ← j.getObjVal? "store"
    let s ← asStore15 dt sj
    let d := toDict s
    let rt := fromDict dt d
    -- the dictionary the real `to_dict()` produced: same maps, the real edge order
    let realEdges ← asNatPairs15 (← j.getObjVal? "edges")
    let dReal : TDict := { d with edges := realEdges }
    let rtReal := fromDict dt dReal
    pure (Json.mkObj [
      ("wfd", Json.bool (wfdB dt s)),
      ("shared", Json.bool (wfShB s && fullB s && cacheOKB dt s && alignedB s)),
      ("dict", jDict15 d),
      ("orig", jStore15 dt α n s),
      ("rt_ok", Json.bool rt.isSome),
      ("rt_eq_norm", Json.bool (match rt with | some s' => storeBeq s' (normRoot dt s) | none => false)),
      ("rt_eq_orig", Json.bool (match rt with | some s' => storeBeq s' s | none => false)),
      ("rt_real", optStore15 dt α n rtReal)])
  | "c15_sched" => some do
    let burnin ← getNat j "burnin"
    let numIters ← getNat j "num_iters"
    let thin ← getNat j "thin"
    let pf ← getNat j "print_freq"
    let mt ← j.getObjValAs? String "max_time"
    let maxT ← if mt == "inf" then pure none else (do let q ← parseRat mt; pure (some q))
    let dB ← asRatList15 j "dur_burnin"
    let dM ← asRatList15 j "dur_main"
    let dflt ← match j.getObjVal? "dur" with
      | .ok _ => getRat j "dur"
      | .error _ => pure 1
    if dflt < 0 ∨ dB.any (· < 0) ∨ dM.any (· < 0) then throw "negative duration"
    let c : Cfg := { burnin := burnin, numIters := numIters, thin := thin, printFreq := pf,
                     numParticles := 1, ndp := 0, nprg := 0, concUpdate := false }
    match runTimed c maxT (fun i => dB.getD i dflt) (fun i => dM.getD i dflt) with
    | .error e => pure (Json.mkObj [("ok", Json.bool false), ("err", Json.str e.name)])
    | .ok o => pure (Json.mkObj [
        ("ok", Json.bool true), ("burnin_iters", jNat o.burninIters), ("main_iters", jNat o.mainIters),
        ("iters", jNats o.iters)])
  | "c15_trace" => some do
    let dt ← asData (← j.getObjVal? "data")
    let n ← getNat j "n"
    let thin ← getNat j "thin"
    if thin = 0 then throw "thin = 0: ZeroDivisionError"
    let numIters ← getNat j "num_iters"
    let cu ← j.getObjValAs? Bool "cu"
    let α0 ← getRat j "alpha0"
    let st0 ← asStore15 dt (← j.getObjVal? "st0")
    -- per main iteration: the tree handed to `relabel_nodes`, the concentration draw, the stop decision
    let treesJ ← (← j.getObjVal? "trees").getArr?
    let trees ← treesJ.toList.mapM (asStore15 dt)
    let concs ← asRatList15 j "conc"
    let stopsJ ← (← j.getObjVal? "stop").getArr?
    let stops ← stopsJ.toList.mapM fun x => match x with
      | .bool b => pure b
      | _ => throw "stop: booleans expected"
    let clock ← asRatList15 j "clock"
    let o : Oracles := {
      moves := fun i t => trees.getD i t,
      conc := fun i a _ => concs.getD i a,
      clock := fun i => clock.getD i 0,
      stop := fun i => stops.getD i false }
    let res := runMain dt o cu thin numIters ⟨st0, α0⟩
    pure (Json.mkObj [
      ("main_iters", jNat res.2.2),
      ("trace", Json.arr (res.1.map fun e => Json.mkObj [
          ("iter", jNat e.iter), ("time", jRat e.time), ("alpha", jRat e.alpha), ("pOne", jRat e.logPOne),
          ("dict", jDict15 e.tree),
          ("restored", optStore15 dt e.alpha n (fromDict dt e.tree))]).toArray)])
  | _ => none

end PhyModel.Drv
