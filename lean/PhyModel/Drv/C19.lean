import PhyModel.Drv.Common
import PhyModel.Model.RunLoop
/-! Handler for C19: `c19_run` (schedule and call counts of one chain, or the failure kind),
`c19_csmc` (swarm provenance of one conditional SMC sweep given the resampling outcomes),
`c19_subtree` (node choice of the subtree sampler), `c19_norm` (weight normalisation guard). -/
open Lean PhyModel PhyModel.RunLoop

namespace PhyModel.Drv

def jErr (e : Err) : Json := Json.mkObj [("ok", Json.bool false), ("err", Json.str e.name)]

def getInt (j : Json) (k : String) : Except String Int := j.getObjValAs? Int k

def getBools (j : Json) (k : String) : Except String (List Bool) := do
  let a ← (← j.getObjVal? k).getArr?
  a.toList.mapM fun x => match x with
    | .bool b => pure b
    | _ => throw s!"{k}: expected booleans"

def handleC19 : Handler := fun op j =>
  match op with
  | "c19_run" => some do
    let burnin ← getNat j "burnin"
    let numIters ← getNat j "num_iters"
    let thin ← getNat j "thin"
    let pf ← getNat j "print_freq"
    let N ← getNat j "N"
    let ndp ← getInt j "ndp"
    let nprg ← getInt j "nprg"
    let cu ← j.getObjValAs? Bool "cu"
    let mt ← j.getObjValAs? String "max_time"
    let maxT ← if mt == "inf" then pure none else (do let q ← parseRat mt; pure (some q))
    let dur ← getRat j "dur"
    if dur ≤ 0 then throw "iteration duration must be positive"
    let c : Cfg := { burnin := burnin, numIters := numIters, thin := thin, printFreq := pf,
                     numParticles := N, ndp := ndp, nprg := nprg, concUpdate := cu }
    match runTimed c maxT (fun _ => dur) (fun _ => dur) with
    | .error e => pure (jErr e)
    | .ok o => pure (Json.mkObj [
        ("ok", Json.bool true), ("burnin_iters", jNat o.burninIters), ("main_iters", jNat o.mainIters),
        ("iters", jNats o.iters), ("dp_calls", jNat o.dpCalls), ("prg_calls", jNat o.prgCalls),
        ("conc_calls", jNat o.concCalls)])
  | "c19_csmc" => some do
    let N ← getNat j "N"
    let T ← getNat j "T"
    let fire ← getBools j "fire"
    let multJ ← (← j.getObjVal? "mult").getArr?
    let mult ← multJ.toList.mapM asNats
    let o : Oracle := { fire := fun k => fire.getD k false, mult := fun k => mult.getD k [] }
    match csmc N T o with
    | .error e => pure (jErr e)
    | .ok sw => pure (Json.mkObj [
        ("ok", Json.bool true),
        ("swarm", Json.arr ((sw.map fun p => jNats [p.gen, p.slot]).toArray))])
  | "c19_subtree" => some do
    let a ← (← j.getObjVal? "labels").getArr?
    let labels ← a.toList.mapM fun x => match x with
      | .null => pure (none : Option Nat)
      | y => do let n ← y.getNat?; pure (some n)
    let u ← getNat j "u"
    let old ← match j.getObjValAs? Bool "unrepaired" with
      | .ok b => pure b
      | .error _ => pure false
    match (if old then subtreeStepOld labels u else subtreeStep labels u) with
    | .error e => pure (jErr e)
    | .ok .fallback => pure (Json.mkObj [("ok", Json.bool true), ("pick", Json.str "fallback")])
    | .ok (.node n) => pure (Json.mkObj [("ok", Json.bool true), ("pick", Json.str "node"), ("n", jNat n)])
  | "c19_norm" => some do
    let ws ← asVec (← j.getObjVal? "ws")
    match normalise ws with
    | .error e => pure (jErr e)
    | .ok p => pure (Json.mkObj [("ok", Json.bool true), ("p", jVec p)])
  | _ => none

end PhyModel.Drv
