import PhyModel.Drv.Common
import PhyModel.Model.Conc
/-! Handler for C13: `conc` (parameters of the draws of one `sample()` call), `conc_kn` (K and n
from a tree), `conc_loop` (which value is in force at each trace entry). -/
open Lean PhyModel PhyModel.Conc

namespace PhyModel.Drv

def jMix (m : Mix) : Json := Json.mkObj [
  ("betaA", jRat m.betaA), ("betaB", jRat m.betaB), ("rate", jRat m.rate), ("odds", jRat m.odds),
  ("pi", jRat m.pi), ("shape", jRat m.shape), ("scale", jRat m.scale)]

def jEntryC13 (e : Entry) : Json := Json.mkObj [
  ("iter", jNat e.iter), ("alpha", jRat e.alpha), ("used", jRat e.used)]

def handleC13 : Handler := fun op j =>
  match op with
  | "conc" => some do
    let a ← getRat j "a"
    let b ← getRat j "b"
    let α ← getRat j "alpha"
    let K ← getNat j "K"
    let n ← getNat j "n"
    let L ← getRat j "L"
    let bern ← j.getObjValAs? Bool "bern"
    let g ← getRat j "g"
    if a ≤ 0 then throw "a <= 0"
    if b ≤ 0 then throw "b <= 0"
    if K ≠ 0 ∧ α + 1 ≤ 0 then throw "beta first parameter <= 0"
    if L < 0 then throw "L < 0 (eta > 1)"
    match plan a b α K n L bern with
    | none => throw "no value: clones without data"
    | some (.prior sh sc) => pure (Json.mkObj [
        ("branch", Json.str "prior"), ("shape", jRat sh), ("scale", jRat sc),
        ("value", jRat (finish g))])
    | some (.mix m) => pure (Json.mkObj [
        ("branch", Json.str "mix"), ("mix", jMix m), ("value", jRat (finish g))])
  | "conc_kn" => some do
    let (f, o) ← getTree j
    let hk ← match j.getObjValAs? Bool "outkey" with
      | .ok b => pure b
      | .error _ => pure false
    let r := kn f o hk
    pure (Json.mkObj [("K", jNat r.1), ("n", jNat r.2)])
  | "conc_loop" => some do
    let upd ← j.getObjValAs? Bool "update"
    let thin ← getNat j "thin"
    let init ← getRat j "init"
    let draws ← asVec (← j.getObjVal? "draws")
    if thin = 0 then throw "thin = 0"
    pure (Json.arr ((runTrace upd thin init draws).map jEntryC13).toArray)
  | _ => none

end PhyModel.Drv
