import PhyModel.Drv.Common
import PhyModel.Model.Graph
/-! Handler for the op `graph` (C07, graph shape; shared by the store histories of C06 / C15): runs a
history of graph-level tree edits (`Model/Graph.lean`, function `gStep`) over several live graphs —
one per handle of the store history — with the node indices that the real rustworkx graph handed out
injected by the harness, and dumps after every op the graphs the op mentions or creates: live
indices, edge list, `isForestB`, and whether the op satisfies the side conditions `gLegalB`.
`{"o": "same", "h": h}` stands for an edit that leaves the graph alone (data-point edits, relabel,
update).  The first op the model says rustworkx raises on ends the history (`null` entry). -/
open Lean PhyModel PhyModel.Graph

namespace PhyModel.Drv

def asPairs (j : Json) : Except String (List (Nat × Nat)) := do
  let a ← j.getArr?
  a.toList.mapM fun x => do
    let p ← x.getArr?
    if p.size ≠ 2 then throw "pair expected"
    pure (← p[0]!.getNat?, ← p[1]!.getNat?)

def jDG (g : DG) : List (String × Json) :=
  [("nodes", jNats g.nodes),
   ("edges", Json.arr (g.edges.map fun (a, b) => Json.arr #[jNat a, jNat b]).toArray),
   ("forest", Json.bool (isForestB g))]

/-- protocol op -> model op (`none`: the graph is left alone) + the handles to dump afterwards -/
def gToOp (sys : GSys) (j : Json) : Except String (Option GOp × List Nat) := do
  let o ← j.getObjValAs? String "o"
  let new := sys.length
  if o == "fresh" then return (some .fresh, [new])
  let h ← getNat j "h"
  if sys[h]?.isNone then throw s!"no handle {h}"
  match o with
  | "same" => return (none, [h])
  | "create" => return (some (.create h (← getNat j "new") (← asNats (← j.getObjVal? "kids"))), [h])
  | "getSub" =>
    return (some (.getSub h (← getNat j "r") (← asPairs (← j.getObjVal? "m1")) (← asPairs (← j.getObjVal? "m2"))), [h, new])
  | "rmSub" => return (some (.rmSub h (← getNat j "r")), [h])
  | "reinit" => return (some (.reinit h), [h])
  | "addSub" =>
    let hs ← getNat j "hs"
    if sys[hs]?.isNone then throw s!"no handle {hs}"
    return (some (.addSub h hs (← getNat j "p") (← asPairs (← j.getObjVal? "m"))), if h == hs then [h] else [h, hs])
  | "copy" => return (some (.copy h), [h, new])
  | "fromDict" =>
    return (some (.fromDict h (← asPairs (← j.getObjVal? "edges")) (← asNats (← j.getObjVal? "live"))), [h])
  | _ => throw s!"unknown graph op {o}"

def runGraph : GSys → List Json → List Json → Except String (List Json)
  | _, [], acc => pure acc.reverse
  | sys, j :: rest, acc => do
    let (op, touched) ← gToOp sys j
    let res := match op with
      | none => some (sys, true)
      | some op => (gStep sys op).map fun s => (s, gLegalB op)
    match res with
    | none => pure (Json.null :: acc).reverse
    | some (sys', legal) =>
      let dumps := touched.filterMap fun h => (sys'[h]?).map fun g => Json.mkObj (("h", jNat h) :: jDG g)
      runGraph sys' rest
        (Json.mkObj [("n", jNat sys'.length), ("legal", Json.bool legal), ("dumps", Json.arr dumps.toArray)] :: acc)

def handleGraph : Handler := fun op j =>
  match op with
  | "graph" => some do
    let ops ← (← j.getObjVal? "ops").getArr?
    let steps ← runGraph [gInit] ops.toList []
    pure (Json.mkObj [("steps", Json.arr steps.toArray)])
  | _ => none

end PhyModel.Drv
