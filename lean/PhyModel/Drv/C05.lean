import PhyModel.Drv.Common
import PhyModel.Model.Emission
/-! Handler for the emission-model ops of C05: `em_genotypes`, `em_load`. -/
open Lean PhyModel PhyModel.Emission

namespace PhyModel.Drv

def asObs (j : Json) : Except String Obs := do
  pure { ref := ← getNat j "ref", alt := ← getNat j "alt", major := ← getNat j "major",
         minor := ← getNat j "minor", normal := ← getNat j "normal",
         eps := ← getRat j "eps", t := ← getRat j "t" }

def asDensity (j : Json) : Except String Density := do
  let d ← j.getObjValAs? String "density"
  match d with
  | "binomial" => pure .binomial
  | "beta-binomial" =>
    let s ← getRat j "precision"
    pure (.betaBinomial s)
  | _ => throw s!"unknown density {d}"

def jGrid (g : List Vec) : Json := Json.arr (g.map jVec).toArray

def jPoint (grid : List Vec) (p : Rat) (size : Nat) : Json :=
  let ot := outlierTerms p size
  Json.mkObj [("grid", jGrid grid), ("op", jRat ot.1), ("opn", jRat ot.2),
              ("disabled", Json.bool (p == 0)), ("size", jNat size)]

def handleC05 : Handler := fun op j =>
  match op with
  | "em_genotypes" => some do
    let major ← getNat j "major"
    let minor ← getNat j "minor"
    let normal ← getNat j "normal"
    let eps ← getRat j "eps"
    if major < minor then throw "MajorCopyNumberError"
    if major + minor = 0 then throw "total copy number 0"
    let gs := genotypes major minor normal eps
    pure (Json.mkObj [
      ("cn", Json.arr (gs.map fun g => jNats [g.cnN, g.cnR, g.cnV]).toArray),
      ("mu", Json.arr (gs.map fun g => jVec [g.muN, g.muR, g.muV]).toArray),
      ("pi", jVec (gs.map fun _ => 1 / (gs.length : Rat)))])
  | "em_load" => some do
    let d ← asDensity j
    let G ← getNat j "G"
    let p ← getRat j "outlier_prob"
    if G = 0 then throw "grid size 0"
    let mj ← (← j.getObjVal? "muts").getArr?
    let muts ← mj.toList.mapM fun m => do
      let rows ← m.getArr?
      rows.toList.mapM asObs
    let S := match muts with
      | [] => 0
      | m :: _ => m.length
    for m in muts do
      if m.length ≠ S then throw "sample count mismatch"
      for o in m do
        match obsError d G o with
        | some e => throw e
        | none => pure ()
    let grids := muts.map (mutGrid d G)
    match j.getObjVal? "clusters" with
    | .error _ =>
      pure (Json.mkObj [("points", Json.arr (grids.map fun g => jPoint g p 1).toArray)])
    | .ok cj =>
      let assign ← cj.getObjValAs? Bool "assign"
      let low ← getRat cj "low_loss"
      let gj ← (← cj.getObjVal? "groups").getArr?
      let groups ← gj.toList.mapM fun g => do
        let mem ← asNats (← g.getObjVal? "members")
        let col ← match g.getObjVal? "col" with
          | .ok (Json.str s) => (parseRat s).map some
          | .ok Json.null => pure none
          | .error _ => pure none
          | .ok _ => throw "col must be a rational string or null"
        let listed ← match g.getObjVal? "listed" with
          | .ok v => v.getNat?
          | .error _ => pure mem.length
        if listed < mem.length then throw "cluster lists fewer mutations than it has members"
        pure (mem, col, listed)
      let all := groups.flatMap fun (m, _, _) => m
      for i in List.range muts.length do
        if all.count i ≠ 1 then throw s!"mutation {i} is not in exactly one cluster (KeyError)"
      for i in all do
        if i ≥ muts.length then throw s!"cluster member {i} out of range"
      -- cluster size = number of mutations the cluster file lists for the cluster (`value_counts`)
      let pts := groups.map fun (mem, col, listed) =>
        let cp := resolveClusterProb col assign low p
        jPoint (clusterGrid S G (mem.map fun i => grids.getD i [])) cp listed
      pure (Json.mkObj [("points", Json.arr pts.toArray)])
  | _ => none

end PhyModel.Drv
