import PhyModel.Drv.Common
import PhyModel.Model.Store
/-! Handler for the op `store` (C06, C07, C15): runs an edit history over several live handles on the
store model (`Model/Store.lean`, function `step`) and dumps, after every op, every handle the op
mentions or creates.  Ops address clones by a data point they own (`{"dp": 3}`), the outlier set by
`"out"`, the virtual root by `"root"`, the clone last added to by `"last"`, a parent by
`{"par": addr}`; the handler resolves an address against the *model's* current state (as the harness
does against the real tree), so the protocol never mentions names or graph indices.  The first op the
model says the Python raises on ends the history (`null` entry). -/
open Lean PhyModel PhyModel.Orders PhyModel.Store

namespace PhyModel.Drv

def jIntS (i : Int) : Json := Json.num (JsonNumber.fromInt i)
def jVecsS (v : List Vec) : Json := Json.arr (v.map jVec).toArray

partial def jSF : SF → List Json
  | .nil => []
  | .cons n k s =>
    Json.mkObj [("idx", jNat n.idx), ("name", jIntS n.name), ("dps", jNats n.dps),
      ("p", jVecsS n.p), ("r", jVecsS n.r), ("kids", Json.arr (jSF k).toArray)] :: jSF s

def jStore (dt : Data) (α : Rat) (s : Store) : Json :=
  Json.mkObj [
    ("forest", Json.arr (jSF s.forest).toArray),
    ("rootR", jVecsS s.rootR),
    ("nodeIdx", Json.arr (s.nodeIdx.map fun (n, i) => Json.arr #[jIntS n, jNat i]).toArray),
    ("nodeIdxRev", Json.arr (s.nodeIdxRev.map fun (i, n) => Json.arr #[jNat i, jIntS n]).toArray),
    ("data", Json.arr (s.data.map fun (n, l) => Json.arr #[jIntS n, jNats l]).toArray),
    ("last", match s.last with | some n => jIntS n | none => Json.null),
    ("dictEdges", Json.arr (s.toDict.edges.map fun (a, b) => Json.arr #[jNat a, jNat b]).toArray),
    ("wf", Json.bool s.wfB),
    ("cacheOK", Json.bool (s.cacheOKB dt)),
    ("pOne", jRat (s.pOneC dt α)),
    ("pMarg", jRat (s.pMargC dt α))]

/-- what an address resolves to -/
inductive StTgt where
  | root
  | name (n : Int)

/-- `Tree.labels[dp]`: a dict comprehension, so the last pair wins -/
def stLabelOf (s : Store) (dp : Nat) : Option Int :=
  (s.labels.reverse.lookup dp)

partial def stResolve (s : Store) (j : Json) : Except String (Option StTgt) :=
  match j with
  | .str "out" => pure (some (.name outKey))
  | .str "root" => pure (some .root)
  | .str "last" => pure (s.last.map .name)
  | _ =>
    match j.getObjVal? "dp" with
    | .ok d => do
      let d ← d.getNat?
      pure ((stLabelOf s d).map .name)
    | .error _ =>
      match j.getObjVal? "par" with
      | .ok a => do
        match (← stResolve s a) with
        | some (.name n) =>
          match s.getParent n with
          | some none => pure (some .root)
          | some (some p) => pure (some (.name p))
          | none => pure none
        | _ => pure none
      | .error _ => throw s!"bad address {j.compress}"

/-- an address that must denote a clone name or the outlier key (`none`: the Python raises) -/
def stResolveName (s : Store) (j : Json) : Except String (Option Int) := do
  match (← stResolve s j) with
  | some (.name n) => pure (some n)
  | _ => pure none

/-- an address that may be the virtual root: `some none` = root -/
def stResolveOrRoot (s : Store) (j : Json) : Except String (Option (Option Int)) := do
  match (← stResolve s j) with
  | some (.name n) => pure (some (some n))
  | some .root => pure (some none)
  | none => pure none

/-- protocol op -> model op (resolved against the current system) + the handles to dump afterwards;
`none` = an address does not stResolve, the Python raises -/
def stToOp (sys : Sys) (j : Json) : Except String (Option (Op × List Nat)) := do
  let o ← j.getObjValAs? String "o"
  let new := sys.length
  if o == "fresh" then return some (.fresh, [new])
  let h ← getNat j "h"
  let some s := sys[h]? | throw s!"no handle {h}"
  match o with
  | "create" | "createAdd" =>
    let kj ← (← j.getObjVal? "kids").getArr?
    let ks ← kj.toList.mapM (stResolveName s)
    if ks.any (·.isNone) then return none
    let kids := ks.filterMap id
    if o == "create" then
      let d ← asNats (← j.getObjVal? "dps")
      return some (.create h kids d, [h])
    else
      let dp ← getNat j "dp"
      return some (.createAdd h kids dp, [h])
  | "addDp" =>
    let dp ← getNat j "dp"
    match (← stResolveName s (← j.getObjVal? "to")) with
    | some n => return some (.addDp h dp n, [h])
    | none => return none
  | "rmDp" =>
    let dp ← getNat j "dp"
    match (← stResolveName s (← j.getObjVal? "from")) with
    | some n => return some (.rmDp h dp n, [h])
    | none => return none
  | "rmOut" =>
    let dp ← getNat j "dp"
    return some (.rmOut h dp, [h])
  | "getSub" =>
    match (← stResolveOrRoot s (← j.getObjVal? "root")) with
    | some r => return some (.getSub h r, [h, new])
    | none => return none
  | "rmSub" =>
    let hs ← getNat j "hs"
    if sys[hs]?.isNone then throw s!"no handle {hs}"
    return some (.rmSub h hs, if h == hs then [h] else [h, hs])
  | "addSub" =>
    let hs ← getNat j "hs"
    if sys[hs]?.isNone then throw s!"no handle {hs}"
    match (← stResolveOrRoot s (← j.getObjVal? "par")) with
    | some p => return some (.addSub h hs p, if h == hs then [h] else [h, hs])
    | none => return none
  | "relabel" => return some (.relabel h, [h])
  | "copy" => return some (.copy h, [h, new])
  | "dictRT" => return some (.dictRT h, [h])
  | "update" => return some (.update h, [h])
  | _ => throw s!"unknown store op {o}"

def runStore (dt : Data) (α : Rat) : Sys → List Json → List Json → Except String (List Json)
  | _, [], acc => pure acc.reverse
  | sys, j :: rest, acc => do
    match (← stToOp sys j) with
    | none => pure (Json.null :: acc).reverse
    | some (op, touched) =>
      match step dt sys op with
      | none => pure (Json.null :: acc).reverse
      | some sys' =>
        let dumps := touched.filterMap fun h => (sys'[h]?).map fun s =>
          Json.mkObj [("h", jNat h), ("s", jStore dt α s)]
        runStore dt α sys' rest (Json.mkObj [("n", jNat sys'.length), ("dumps", Json.arr dumps.toArray)] :: acc)

def handleStore : Handler := fun op j =>
  match op with
  | "store" => some do
    let dt ← asData (← j.getObjVal? "data")
    let α ← getRat j "alpha"
    if α ≤ 0 then throw "alpha must be positive"
    let ops ← (← j.getObjVal? "ops").getArr?
    let steps ← runStore dt α [Store.init dt] ops.toList []
    pure (Json.mkObj [("steps", Json.arr steps.toArray)])
  | _ => none

end PhyModel.Drv
