import PhyModel.Drv.Common
import PhyModel.Model.Table
/-! Handler for op `table` (C12): result-table rows and Newick string of one tree. -/
open Lean PhyModel PhyModel.Table

namespace PhyModel.Drv

def asInts (j : Json) : Except String (List Int) := do
  let a ← j.getArr?
  a.toList.mapM fun x => x.getInt?

partial def asLF (j : Json) : Except String LF := do
  let a ← j.getArr?
  let nodes ← a.toList.mapM fun nd => do
    let pr ← nd.getArr?
    if pr.size ≠ 3 then throw "labelled forest node must be [id, dps, kids]"
    let i ← pr[0]!.getInt?
    let d ← asNats pr[1]!
    let k ← asLF pr[2]!
    pure (i, d, k)
  pure (nodes.foldr (fun (i, d, k) s => LF.cons i d k s) LF.nil)

def asStrs (j : Json) : Except String (List String) := do
  let a ← j.getArr?
  a.toList.mapM fun x => x.getStr?

def jInt (i : Int) : Json := Json.num (JsonNumber.fromInt i)

def hasDup : List Nat → Bool
  | [] => false
  | a :: l => l.contains a || hasDup l

def hasDupI : List Int → Bool
  | [] => false
  | a :: l => l.contains a || hasDupI l

def handleC12 : Handler := fun op j =>
  match op with
  | "table" => some do
    let f ← asLF (← j.getObjVal? "forest")
    let outs ← asNats (← j.getObjVal? "outs")
    let names ← asStrs (← j.getObjVal? "names")
    let samples ← asStrs (← j.getObjVal? "samples")
    let clusters ← match j.getObjVal? "clusters" with
      | .ok Json.null => pure none
      | .error _ => pure none
      | .ok c => do
        let a ← c.getArr?
        let rows ← a.toList.mapM fun r => do
          let pr ← r.getArr?
          if pr.size ≠ 2 then throw "cluster row must be [mutation, cluster id]"
          pure ((← pr[0]!.getStr?), (← pr[1]!.getInt?))
        pure (some rows)
    let ccfA ← (← j.getObjVal? "ccf").getArr?
    let ccf ← ccfA.toList.mapM fun r => do
      let pr ← r.getArr?
      if pr.size ≠ 3 then throw "ccf entry must be [clone, ccfs, prevs]"
      pure ((← pr[0]!.getInt?), (← asVec pr[1]!), (← asVec pr[2]!))
    -- outside the modelled domain (a Python dict cannot hold them / C07 excludes them)
    if hasDup (f.dps ++ outs) then throw "domain: a data point occurs twice in the tree"
    if hasDupI f.ids then throw "domain: duplicate node id"
    if hasDupI (ccf.map (·.1)) then throw "domain: duplicate key in the ccf dictionary"
    let inp : Input := { forest := f, outs := outs, names := names, samples := samples, clusters := clusters, ccf := ccf }
    if !validIdx inp then throw "reject: data index out of range"
    if !validClus inp then throw "reject: cluster id of a data point not an integer or not in the cluster table"
    if !validCcf inp then throw "reject: ccf vector shorter than the sample list"
    if !validNonempty inp then throw "reject: no rows"
    match table inp with
    | none => throw "reject"
    | some rows =>
      pure (Json.mkObj [
        ("rows", Json.arr (rows.map fun r => Json.arr #[Json.str r.mid, jInt r.clone,
            (match r.cluster with | none => Json.null | some c => jInt c),
            Json.str r.sample, jRat r.ccf, jRat r.prev]).toArray),
        ("newick", Json.str (newick f)),
        ("ids", Json.arr ((f.ids.map jInt).toArray))])
  | _ => none

end PhyModel.Drv
