import PhyModel.Drv.Common
import PhyModel.Model.Consensus
/-! Handler for C16: `cons` (trees + optional weights + threshold → consensus tree) and
`cons_trace` (trace entries → topology weights → weighted consensus tree). -/
open Lean PhyModel PhyModel.Orders PhyModel.Consensus

namespace PhyModel.Drv

def jClade (c : Clade) : Json := jNats (Forest.sortNat c)

def jResult (r : Result) : Json :=
  Json.mkObj [
    ("forest", jForest r.forest.canon),
    ("outs", jNats (Forest.sortNat r.outs)),
    ("majority", Json.arr (r.majority.map jClade).toArray),
    ("supports", Json.arr (r.supports.map fun (c, q) => Json.arr #[jClade c, jRat q]).toArray),
    ("owns", Json.arr (r.owns.map fun (c, o) => Json.arr #[jClade c, jClade o]).toArray),
    ("parents", Json.arr (r.parents.map fun (c, p) =>
      Json.arr #[jClade c, match p with | some x => jClade x | none => Json.null]).toArray)]

def getTrees (j : Json) : Except String (List DF) := do
  let a ← (← j.getObjVal? "trees").getArr?
  a.toList.mapM asForest

def handleC16 : Handler := fun op j =>
  match op with
  | "cons" => some do
    let n ← getNat j "n"
    let θ ← getRat j "theta"
    let trees ← getTrees j
    let ws ← match j.getObjVal? "weights" with
      | .ok Json.null => pure none
      | .ok w => do let v ← asVec w; pure (some v)
      | .error _ => pure none
    let r ← Consensus.run n trees ws θ
    pure (jResult r)
  | "cons_trace" => some do
    let n ← getNat j "n"
    let θ ← getRat j "theta"
    let a ← (← j.getObjVal? "trace").getArr?
    let trace ← a.toList.mapM fun e => do
      let t ← getTree e
      let p ← getRat e "p"
      pure (t, p)
    if trace.isEmpty then throw "empty trace"
    let (trees, ws) := weightedInput trace
    let r ← Consensus.run n trees (some ws) θ
    pure (Json.mkObj [
      ("weights", jVec ws),
      ("topologies", Json.arr (trees.map fun t => jForest t.canon).toArray),
      ("result", jResult r)])
  | _ => none

end PhyModel.Drv
