import PhyModel.Drv.Common
import PhyModel.Model.Framing
/-! Handler for C20: `frame` — the model's file for a trace summary and, for every prefix length,
how many body symbols the incremental reader hands out and the outcome class of the composed
readers (0 = error, 1 = exactly the original, 2 = anything else). -/
open Lean PhyModel PhyModel.Framing

namespace PhyModel.Drv

partial def asVal (j : Json) : Except String Val := do
  let a ← j.getArr?
  let items ← a.toList.mapM fun x =>
    match x with
    | .arr _ => (asVal x).map Sum.inr
    | .num _ => (x.getNat?).map Sum.inl
    | _ => throw "trace value: items must be naturals or lists"
  pure (items.foldr (fun it r => match it with
    | .inl n => Val.num n r
    | .inr v => Val.sub v r) Val.nil)

partial def jVal : Val → Json
  | v => Json.arr (go v).toArray
where
  go : Val → List Json
    | .nil => []
    | .num n r => jNat n :: go r
    | .sub v r => jVal v :: go r

def handleC20 : Handler := fun op j =>
  match op with
  | "frame" => some do
    let x ← asVal (← j.getObjVal? "val")
    let blk ← getNat j "blk"
    if blk = 0 then throw "block size 0"
    let B := blk - 1
    let f := file B x
    let ns := List.range (f.length + 2)
    let avail := ns.map fun n => match deliver (f.take n) with
      | none => Json.num (-1)
      | some b => jNat b.length
    pure (Json.mkObj [
      ("payload", jNat (enc x).length),
      ("hdr", jNat header.length),
      ("bodyEnd", jNat (bodyEnd B x)),
      ("len", jNat f.length),
      ("roundtrip", Json.bool (decode (enc x) == some x)),
      ("back", match readLazy f with | some y => jVal y | none => Json.null),
      ("avail", Json.arr avail.toArray),
      ("cls", jNats (ns.map fun n => outcomeClass x (readPrefix B x n))),
      ("clsStrict", jNats (ns.map fun n => outcomeClass x (readPrefixStrict B x n)))])
  | _ => none

end PhyModel.Drv
