import PhyModel.Drv.Common
import PhyModel.Model.Chains
/-! Handler for C18: op `chains` — the `results` dict of `run` for `k` chains completing in the
order `ord`, with generators as labels (`"main"`, `"c0"`, `"c1"`, …) and the chain body given
extensionally as a table label ↦ trace token (a digest computed by the harness). -/
open Lean PhyModel PhyModel.Chains

namespace PhyModel.Drv

def c18Spawn (_ : String) (k : Nat) : List String := (List.range k).map fun i => s!"c{i}"

def handleC18 : Handler := fun op j =>
  match op with
  | "chains" => some do
    let k ← getNat j "k"
    let ord ← asNats (← j.getObjVal? "ord")
    let tab ← j.getObjVal? "body"
    if !validChains k then throw "ValueError: max_workers must be greater than 0"
    if !isSchedule k ord then throw s!"ord is not a completion order of {k} futures"
    let gens := chainGens c18Spawn "main" k
    for g in gens do
      match tab.getObjValAs? String g with
      | .ok _ => pure ()
      | .error _ => throw s!"no trace given for generator {g}"
    let body : String → Nat → String × String := fun g _ =>
      (g, (tab.getObjValAs? String g).toOption.getD "")
    let res := run c18Spawn body "main" k ord
    pure (Json.mkObj [
      ("gens", Json.arr (gens.map Json.str).toArray),
      ("results", Json.arr (res.map fun (key, r) =>
        Json.arr #[jNat key, jNat r.chainNum, Json.str r.trace.1, Json.str r.trace.2]).toArray)])
  | _ => none

end PhyModel.Drv
