import PhyModel.Proofs.EmissionProofs2
/-! # C05 — emission likelihood grids implement the PyClone mutation model

Property theorems only; helper lemmas live in `Proofs/EmissionProofs*.lean`.  The model
(`Model/Emission.lean`) works in the probability domain with exact rationals: a log-likelihood of
the code is the log of the model's rational, a sum of log grids is a product.  `lgamma`, `log`,
`log1p`, `exp` and IEEE rounding are outside the model and are covered by the numerical
correspondence check only. -/

open Finset BigOperators

namespace PhyModel.Props.C05
open PhyModel PhyModel.Emission

/-- **Genotype enumeration.**  For `major ≥ 1` the list built by the code's loop and membership
test is exactly the PyClone "major copy number" prior: the genotypes with `x = 1..major` variant
copies and the reference population at the normal copy number, followed by the genotype with one
variant copy and the reference population at the tumour copy number iff `normal ≠ major + minor`. -/
theorem genotypes_spec (major minor normal : ℕ) (eps : ℚ) (h : 1 ≤ major) :
    genotypes major minor normal eps =
      (List.range major).map (beforeG major minor normal eps) ++
        (if normal = major + minor then [] else [afterG major minor normal eps]) :=
  genotypes_eq major minor normal eps h

example : (genotypes 2 1 2 (1 / 8)).length = 3 := by
  rw [genotypes_spec 2 1 2 (1 / 8) (by decide)]; simp
example : (genotypes 1 1 2 (1 / 8)).length = 1 := by
  rw [genotypes_spec 1 1 2 (1 / 8) (by decide)]; simp

/-- the uniform genotype prior (`log_normalize` of zeros) is normalised -/
theorem prior_sum_one (major minor normal : ℕ) (eps : ℚ) (h : 1 ≤ major) :
    ((genotypes major minor normal eps).map fun _ =>
      1 / ((genotypes major minor normal eps).length : ℚ)).sum = 1 := by
  have hne := genotypes_ne_nil major minor normal eps h
  have hlen : ((genotypes major minor normal eps).length : ℚ) ≠ 0 := by
    have : (genotypes major minor normal eps).length ≠ 0 := by
      intro h0; exact hne (List.length_eq_zero_iff.mp h0)
    exact_mod_cast this
  have := lsum_const (genotypes major minor normal eps)
    (1 / ((genotypes major minor normal eps).length : ℚ))
  unfold lsum at this
  rw [this, mul_one_div_cancel hlen]

example : (1 : ℕ) ≤ 3 := by decide

/-- **Expected allele fraction.**  For every enumerated genotype, tumour content in (0,1], cellular
prevalence in [0,1], error rate in (0,½), normal copy number ≥ 1: the normalising constant is
positive (no division by zero), the expected VAF lies in `[min(ε, μ_variant), 1-ε] ⊂ (0,1)` —
so the `p = 0` / `p = 1` branches of the binomial likelihood and the non-positive-parameter branch of
`log_beta` are unreachable from the loader — and at prevalence 0 it equals the error rate. -/
theorem vaf_in_unit (major minor normal : ℕ) (eps t f : ℚ) (hmaj : 1 ≤ major) (hnorm : 1 ≤ normal)
    (he0 : 0 < eps) (he1 : eps < 1 / 2) (ht0 : 0 < t) (ht1 : t ≤ 1) (hf0 : 0 ≤ f) (hf1 : f ≤ 1)
    (g : Genotype) (hg : g ∈ genotypes major minor normal eps) :
    0 < vafDen g t f ∧ 0 < expVaf g t f ∧ expVaf g t f ≤ 1 - eps ∧ expVaf g t f < 1
      ∧ expVaf g t 0 = eps := by
  obtain ⟨hN, hR, hV0, hV1, cN, cR, cV⟩ := genotype_props hmaj hnorm (by linarith) hg
  have hb := expVaf_bounds hN hR hV1 he1 cN cR cV ht0 ht1 hf0 hf1
  refine ⟨vafDen_pos cN cR cV ht0 ht1 hf0 hf1, ?_, hb.2, by linarith [hb.2],
    expVaf_zero hN hR cN cR cV ht0 ht1⟩
  exact lt_of_lt_of_le (qmin_pos he0 hV0) hb.1

example : ∃ g, g ∈ genotypes 2 1 2 (1 / 8) := by
  rw [genotypes_spec 2 1 2 (1 / 8) (by decide)]
  exact ⟨_, List.mem_append_left _ (List.mem_map.mpr ⟨0, by simp, rfl⟩)⟩

/-- **Binomial pmf sums to one** over all alternate counts at fixed depth, for every `p`
(binomial theorem; includes the code's `p = 0` and `p = 1` branches). -/
theorem binom_pmf_sum_one (n : ℕ) (p : ℚ) : ∑ x ∈ range (n + 1), binomPmf n x p = 1 :=
  binomPmf_sum n p

/-- **Beta-binomial pmf sums to one** (Chu–Vandermonde in rising-factorial form), for all
parameters with `a + b > 0`; in particular for `a = vaf·s`, `b = s - a` with precision `s > 0`. -/
theorem betabinom_sum_one (n : ℕ) (a b : ℚ) (hab : 0 < a + b) :
    ∑ x ∈ range (n + 1), betaBinomPmf n x a b = 1 :=
  betaBinomPmf_sum n hab

example : (0 : ℚ) < 3 / 8 * 400 + (400 - 3 / 8 * 400) := by norm_num

/-- **The mixture sums to one.**  For every copy-number state with `major ≥ 1`, tumour content,
error rate, prevalence, both densities (precision `s > 0`), and every depth `n`: the likelihood of
the model summed over all alternate counts `0..n` at fixed total depth `n` is one. -/
theorem mixture_sum_one (d : Density) (hd : ∀ s, d = .betaBinomial s → 0 < s)
    (major minor normal : ℕ) (eps t f : ℚ) (hmaj : 1 ≤ major) (n : ℕ) :
    ∑ alt ∈ range (n + 1),
      sampleLik d { ref := n - alt, alt := alt, major := major, minor := minor, normal := normal,
                    eps := eps, t := t } f = 1 := by
  have hne := genotypes_ne_nil major minor normal eps hmaj
  have hlen : ((genotypes major minor normal eps).length : ℚ) ≠ 0 := by
    have : (genotypes major minor normal eps).length ≠ 0 := by
      intro h0; exact hne (List.length_eq_zero_iff.mp h0)
    exact_mod_cast this
  have h1 : ∀ alt ∈ range (n + 1),
      sampleLik d { ref := n - alt, alt := alt, major := major, minor := minor, normal := normal,
                    eps := eps, t := t } f
      = lsum (genotypes major minor normal eps) fun g =>
          (1 / ((genotypes major minor normal eps).length : ℚ)) * genoLik d n alt (expVaf g t f) := by
    intro alt ha
    have : n - alt + alt = n := by have := mem_range.mp ha; omega
    rw [sampleLik_eq_lsum]
    simp only [this]
  rw [Finset.sum_congr rfl h1, ← lsum_finset_comm]
  have h2 : ∀ g ∈ genotypes major minor normal eps,
      (∑ u ∈ range (n + 1), (1 / ((genotypes major minor normal eps).length : ℚ))
          * genoLik d n u (expVaf g t f))
      = 1 / ((genotypes major minor normal eps).length : ℚ) := by
    intro g _
    rw [← Finset.mul_sum, genoLik_sum d hd n, mul_one]
  rw [lsum_congr _ h2, lsum_const, mul_one_div_cancel hlen]

example : ∀ s, Density.betaBinomial 400 = .betaBinomial s → 0 < s := by
  intro s h; cases h; norm_num

/-- **The likelihood is strictly positive** (its log is finite) for every valid input: copy numbers
with `major ≥ 1`, `normal ≥ 1`, tumour content in (0,1], error rate in (0,½), prevalence in [0,1],
any counts, both densities (precision `s > 0`). -/
theorem lik_pos (d : Density) (hd : ∀ s, d = .betaBinomial s → 0 < s) (o : Obs) (f : ℚ)
    (hmaj : 1 ≤ o.major) (hnorm : 1 ≤ o.normal) (he0 : 0 < o.eps) (he1 : o.eps < 1 / 2)
    (ht0 : 0 < o.t) (ht1 : o.t ≤ 1) (hf0 : 0 ≤ f) (hf1 : f ≤ 1) :
    0 < sampleLik d o f := by
  rw [sampleLik_eq_lsum]
  have hne := genotypes_ne_nil o.major o.minor o.normal o.eps hmaj
  apply lsum_pos _ hne
  intro g hg
  obtain ⟨_, h0, _, h1, _⟩ :=
    vaf_in_unit o.major o.minor o.normal o.eps o.t f hmaj hnorm he0 he1 ht0 ht1 hf0 hf1 g hg
  have hlen : (0 : ℚ) < ((genotypes o.major o.minor o.normal o.eps).length : ℚ) := by
    have : 0 < (genotypes o.major o.minor o.normal o.eps).length := List.length_pos_iff.mpr hne
    exact_mod_cast this
  exact mul_pos (one_div_pos.mpr hlen) (genoLik_pos d hd (Nat.le_add_left _ _) h0 h1)

example : (1 : ℕ) ≤ (⟨3, 2, 2, 1, 2, 1 / 8, 3 / 4⟩ : Obs).major ∧ (0 : ℚ) < 3 / 4 ∧ (3 / 4 : ℚ) ≤ 1 := by
  refine ⟨by decide, by norm_num, by norm_num⟩

/-- **Grid.**  Entry `(s, k)` of a mutation's grid is the mixture likelihood of its sample-`s`
observation at cellular prevalence `k / (G - 1)` (index 0 is prevalence 0, index `G-1` is 1). -/
theorem grid_point (d : Density) (G : ℕ) (rows : List Obs) (s k : ℕ) (hs : s < rows.length)
    (hk : k < G) :
    entry (mutGrid d G rows) s k = sampleLik d rows[s] ((k : ℚ) / ((G : ℚ) - 1)) := by
  have hG : ((G - 1 : ℕ) : ℚ) = (G : ℚ) - 1 := by
    have : 1 ≤ G := by omega
    push_cast [Nat.cast_sub this]; ring
  unfold entry mutGrid obsGrid
  rw [List.getD_eq_getElem?_getD, List.getElem?_map, List.getElem?_eq_getElem hs]
  simp only [Option.map_some, Option.getD_some]
  rw [getQ_map_range G _ k hk]
  unfold ccf
  rw [hG]

example : (1 : ℕ) < ([⟨3, 2, 2, 1, 2, 1 / 8, 3 / 4⟩, ⟨0, 0, 1, 1, 2, 1 / 8, 1⟩] : List Obs).length
    ∧ 100 < 101 := by decide

/-- **A pre-clustered data point is the (log-domain) sum of its members' grids**: every entry of
the cluster grid is the product of the members' entries. -/
theorem cluster_is_product (S G : ℕ) (members : List (List Vec))
    (hshape : ∀ m ∈ members, m.length = S ∧ ∀ r ∈ m, r.length = G)
    (s k : ℕ) (hs : s < S) (hk : k < G) :
    entry (clusterGrid S G members) s k = (members.map fun m => entry m s k).prod := by
  unfold clusterGrid
  rw [(entry_foldl members hshape s k hs hk _ (shaped_ones S G)).2, entry_ones S G s k hs hk,
    one_mul]

example : ∀ m ∈ ([[[1 / 2, 1 / 3]], [[1 / 5, 1 / 7]]] : List (List Vec)),
    m.length = 1 ∧ ∀ r ∈ m, r.length = 2 := by
  intro m hm
  simp only [List.mem_cons, List.not_mem_nil, or_false] at hm
  rcases hm with rfl | rfl <;> simp

/-- **Outlier prior terms.**  With prior outlier probability `p ≠ 0` a data point of `size`
mutations carries `p^size` and `(1-p)^size` (`size · log p`, `size · log(1-p)` in the code); in all
cases (including the sentinel for `p = 0`) the terms are the per-mutation terms to the power `size`. -/
theorem outlier_terms (p : ℚ) (size : ℕ) :
    (p ≠ 0 → outlierTerms p size = (p ^ size, (1 - p) ^ size)) ∧
    outlierTerms p size = ((outlierTerms p 1).1 ^ size, (outlierTerms p 1).2 ^ size) := by
  unfold outlierTerms
  by_cases hp : p = 0
  · simp [hp]
  · simp [hp, qpow_eq]

example : outlierTerms (1 / 4) 3 = (1 / 64, 27 / 64) := by
  rw [(outlier_terms (1 / 4) 3).1 (by norm_num)]; norm_num

end PhyModel.Props.C05
