import PhyModel.Proofs.DictInv
import PhyModel.Proofs.TraceEntries
/-! # C15 — trees survive serialisation; trace entries are self-consistent

Part 1 is about the store model of `phyclone.tree.Tree` (`Model/Store.lean`: `toDict`, `fromDict`, with
`buildSF` the rebuild of the graph from the edge list, payloads re-created by `TreeNode(...)` +
`add_data_point_list` in `_data` order, then `update()`).  The hypotheses are the shared store
invariants of C06/C07 (`Proofs/StoreInv.lean`: `WF`, `Full`, `CacheOK`) plus the payload-order
normalisation `Aligned`; `WFd` (`Model/DictRT.lean`) is the part of them the round trip actually needs
(`wfd_of_shared`).  Graph indices may have arbitrary gaps and any order, node names are arbitrary
non-negative integers, outliers and clone-less trees are included.

Part 2 is about the main loop of `run.py:_run_main_sampler`: its control-flow skeleton
(`RunLoop.mainFrom` / `runSchedule`, the model the driver executes for the correspondence) and the
stateful loop `TraceLoop.runMain`, in which the samplers, the concentration draw, the clock and the
time-limit comparison are oracles, so the statements hold for every outcome of every one of them. -/

namespace PhyModel.Props.C15
open PhyModel PhyModel.Store PhyModel.Store.Store PhyModel.RunLoop PhyModel.TraceLoop

/-- The invariants a reachable store satisfies, in the shared vocabulary of `Proofs/StoreInv.lean`:
C07's `WF` (names / graph indices unique, the two maps are exactly the payload pairs, `_data` keyed by
clone names or the outlier key and listing each clone's payload set, every data point in one place;
graph indices may have arbitrary gaps), `Full` (every clone has a `_data` entry), C06's `CacheOK`, and
the payload-order normalisation `Aligned` (also `Proofs/StoreInv.lean`: the payload's data-point set is
listed in `_data` order, the order in which `from_dict` re-adds it). -/
def Inv (dt : Data) (s : Store) : Prop := WF s ∧ Full s ∧ CacheOK dt s ∧ Aligned s

theorem Inv.wfd {dt : Data} {s : Store} (h : Inv dt s) : WFd dt s :=
  wfd_of_shared dt s h.1 h.2.1 h.2.2.1 h.2.2.2

/-! ## Part 1: dictionary round trip -/

/-- **Round trip, minimal hypotheses.**  For every store satisfying `WFd` (the part of the invariants
the round trip needs, `Model/DictRT.lean`), `Tree.from_dict(t.to_dict())` succeeds and yields
`normRoot dt s`: the same payload forest (shape, graph indices with their gaps, names, data points,
cached `log_p` and `log_r` of every clone), the same two index maps, the same `_data` map (outliers
included), the same `_last_node_added_to`, and — whenever the tree has a clone — the same root
vector, i.e. literally the same store; on a clone-less tree only the never-read root vector is
recomputed.  Consequently both joint densities (`log_p_one`, `log_p`) agree for every `α`. -/
theorem fromDict_toDict_wfd (dt : Data) (s : Store) (h : WFd dt s) :
    fromDict dt (toDict s) = some (normRoot dt s) ∧
    (normRoot dt s).forest = s.forest ∧ (normRoot dt s).nodeIdx = s.nodeIdx ∧
    (normRoot dt s).nodeIdxRev = s.nodeIdxRev ∧ (normRoot dt s).data = s.data ∧
    (normRoot dt s).last = s.last ∧ (normRoot dt s).labels = s.labels ∧
    (s.forest.isNil = false → normRoot dt s = s) ∧
    (∀ α, pOneC dt α (normRoot dt s) = pOneC dt α s) ∧ (∀ α, pMargC dt α (normRoot dt s) = pMargC dt α s) := by
  refine ⟨fromDict_toDict_norm dt s h, ?_, ?_, ?_, ?_, ?_, labels_normRoot dt s,
    normRoot_of_not_nil dt s, fun α => pOneC_normRoot dt α s, fun α => pMargC_normRoot dt α s⟩ <;>
  (unfold normRoot; split <;> rfl)

/-- **Round trip** for every store satisfying the shared invariants `WF s ∧ Full s ∧ CacheOK dt s`
and `Aligned s` (any gaps in the graph indices, any names, outliers, clone-less trees): same forest,
names, indices, `_data`, last-added clone, labels, cached vectors and both densities. -/
theorem fromDict_toDict (dt : Data) (s : Store) (hw : WF s) (hf : Full s) (hc : CacheOK dt s) (ha : Aligned s) :
    fromDict dt (toDict s) = some (normRoot dt s) ∧
    (normRoot dt s).forest = s.forest ∧ (normRoot dt s).nodeIdx = s.nodeIdx ∧
    (normRoot dt s).nodeIdxRev = s.nodeIdxRev ∧ (normRoot dt s).data = s.data ∧
    (normRoot dt s).last = s.last ∧ (normRoot dt s).labels = s.labels ∧
    (s.forest.isNil = false → normRoot dt s = s) ∧
    (∀ α, pOneC dt α (normRoot dt s) = pOneC dt α s) ∧ (∀ α, pMargC dt α (normRoot dt s) = pMargC dt α s) :=
  fromDict_toDict_wfd dt s (wfd_of_shared dt s hw hf hc ha)

/-- **Exact round trip.**  If moreover the root vector is current (always the case after any edit
that touched a clone, after `update()`, and after a first round trip), the restored store *is* the
original: `from_dict(to_dict(t)) = t`, field by field, caches included. -/
theorem fromDict_toDict_eq (dt : Data) (s : Store) (h : Inv dt s)
    (hr : s.forest.isNil = true → s.rootR = recompRoot dt s.forest) :
    fromDict dt (toDict s) = some s := by
  rw [fromDict_toDict_norm dt s h.wfd]
  congr 1
  unfold normRoot
  split
  · rename_i hn
    obtain ⟨f, rootR, ni, nir, data, last⟩ := s
    simp only at hr hn ⊢
    rw [← hr hn]
  · rfl

theorem inv_normRoot (dt : Data) (s : Store) (h : Inv dt s) : Inv dt (normRoot dt s) := by
  unfold normRoot
  split
  · rename_i hn
    obtain ⟨hw, hf, hc, ha⟩ := h
    refine ⟨⟨hw.names_nodup, hw.idxs_nodup, hw.idx_pos, hw.name_nonneg, hw.nodeIdx_keys, hw.nodeIdxRev_keys,
      hw.nodeIdx_iff, hw.nodeIdxRev_iff, hw.data_keys, hw.data_sub, hw.payload_data, hw.data_nodup⟩, hf, ⟨hc.1, ?_⟩, ha⟩
    intro hc2
    simp only at hc2
    rw [hn] at hc2
  · exact h

/-- The restored store satisfies the invariants again and is a fixed point of the round trip. -/
theorem roundtrip_fixed_point (dt : Data) (s : Store) (h : Inv dt s) :
    Inv dt (normRoot dt s) ∧ fromDict dt (toDict (normRoot dt s)) = some (normRoot dt s) := by
  have hw := inv_normRoot dt s h
  refine ⟨hw, fromDict_toDict_eq dt _ hw ?_⟩
  intro hn
  by_cases hc : s.forest.isNil = true
  · simp [normRoot, hc]
  · exfalso; simp [normRoot, hc] at hn

/-- **Further editing.**  A dictionary round trip of any live handle in the middle of an edit history
(`Op.dictRT`, the model of `t = Tree.from_dict(t.to_dict())`) never fails on a store satisfying the
invariants and changes nothing that any later operation can see: every continuation `ops`
(placements, data-point moves, `get_subtree` / `remove_subtree` / `add_subtree`, `relabel_nodes`,
`copy`, further round trips, node creation with index allocation) runs to the same result — same
failure or same stores — as without the round trip.  (In the code the stored order of a clone's
children may be permuted by the round trip, so names handed out by a later `relabel_nodes` /
`add_subtree` agree up to that permutation only; the check compares continuations clone by clone.) -/
theorem roundtrip_edits_commute (dt : Data) (sys : Sys) (h : ℕ) (s : Store) (hs : sys[h]? = some s)
    (hw : Inv dt s) (hr : s.forest.isNil = true → s.rootR = recompRoot dt s.forest) (ops : List Op) :
    run dt sys (Op.dictRT h :: ops) = run dt sys ops := by
  have hset : setH sys h s = sys := by
    obtain ⟨hlt, hget⟩ := List.getElem?_eq_some_iff.1 hs
    unfold setH
    rw [← hget]
    exact List.set_getElem_self hlt
  unfold run
  rw [List.foldlM_cons]
  simp only [step, hs, fromDict_toDict_eq dt s hw hr, Option.bind_eq_bind, Option.bind_some,
    Option.pure_def, hset]

/-! ### non-vacuity: a store with a gap in the graph indices (after `remove_subtree`) and an outlier -/

def exData : Data :=
  { G := 2, S := 1, vals := [[[1/2, 1]], [[1, 1/2]], [[1/4, 1/2]], [[1/2, 1/2]], [[1, 1/4]]],
    op := [1/4, 1/4, 1/4, 1/4, 1/4], sz := [1, 1, 1, 1, 1] }

/-- clones 0 = {0}, 1 = {1,2}, 2 = {3} above both; prune the subtree of clone 1; data point 4 an outlier -/
def exOps : List Op :=
  [.create 0 [] [0], .create 0 [] [1, 2], .create 0 [0, 1] [3], .getSub 0 (some 1), .rmSub 0 1, .addDp 0 4 (-1)]

def exStore : Store := ((run exData [Store.init exData] exOps).getD []).getD 0 (Store.init exData)

/-- graph indices 3 and 1 (2 is a hole), names 2 and 0, one outlier, last edit = the outliers -/
example : exStore.forest.idxs = [3, 1] ∧ exStore.forest.names = [2, 0] ∧ exStore.outliers = [4] ∧
    (toDict exStore).edges = [(0, 3), (3, 1)] ∧ exStore.last = some (-1) := by decide +kernel

/-- the shared invariants hold of a concrete store once the executable tests pass -/
theorem inv_of_tests (dt : Data) (s : Store)
    (h : (wfShB s && fullB s && cacheOKB dt s && alignedB s) = true) : Inv dt s := by
  simp only [Bool.and_eq_true] at h
  exact ⟨wf_of_wfShB s h.1.1.1, full_of_fullB s h.1.1.2, cacheOK_of_cacheOKB dt s h.1.2, aligned_of_alignedB s h.2⟩

theorem exStore_inv : Inv exData exStore := inv_of_tests _ _ (by decide +kernel)

example : fromDict exData (toDict exStore) = some exStore :=
  fromDict_toDict_eq exData exStore exStore_inv (by decide +kernel)
example := fromDict_toDict exData exStore exStore_inv.1 exStore_inv.2.1 exStore_inv.2.2.1 exStore_inv.2.2.2
example := fromDict_toDict_wfd exData exStore exStore_inv.wfd
example := roundtrip_fixed_point exData exStore exStore_inv
/-- continue editing after the round trip: a new clone (allocates a graph index), then relabel -/
example := roundtrip_edits_commute exData [exStore] 0 exStore rfl exStore_inv (by decide +kernel)
  [.create 0 [2] [4], .relabel 0]
/-- clone-less trees: the fresh store's root vector is all ones, `update()` makes it the prior; an
outlier-only store restores with the recomputed (never read) root vector -/
example : Inv exData (Store.init exData) ∧
    (fromDict exData (toDict (Store.init exData))).map (·.rootR) = some [[1/2, 1/2]] ∧
    (Store.init exData).rootR = [[1, 1]] := by
  refine ⟨inv_of_tests _ _ (by decide +kernel), by decide +kernel, by decide +kernel⟩

/-! ## Part 2: the trace -/

/-- **Schedule.**  For every `num_iters`, every thinning interval `thin ≥ 1` (and `print_freq ≥ 1`)
and every outcome of the time-limit comparisons, `_run_main_sampler` records the post-burn-in state
first (`iter = 0`), then exactly the iterations `j` of `range(num_iters)` — i.e. `0 ≤ j < m` — with
`j % thin = 0`, in increasing order, where `m` is the number of iterations executed: `m = num_iters`
unless the time limit cut the run, in which case the comparison `elapsed >= max_time` fired in
iteration `m - 1` (whose entry, if due, is still recorded) and in no earlier iteration. -/
theorem trace_schedule (c : Cfg) (hth : 1 ≤ c.thin) (hpf : 1 ≤ c.printFreq) (hN : 1 ≤ c.numParticles)
    (stopB stopM : ℕ → Bool) :
    ∃ out m, runSchedule c stopB stopM = .ok out ∧
      out.iters = 0 :: (List.range' 0 m).filter (fun j => j % c.thin = 0) ∧ out.mainIters = m ∧
      m ≤ c.numIters ∧ (∀ j, j + 1 < m → stopM j = false) ∧ (m < c.numIters → 0 < m ∧ stopM (m - 1) = true) := by
  obtain ⟨b, eb, _, _⟩ := burninFrom_ok c.printFreq hpf stopB c.burnin 0
  obtain ⟨m, em, h1, h2, h3⟩ := mainFrom_sched c.thin c.printFreq hth hpf stopM c.numIters
  have hg : particlesGuard c = .ok () := by
    have : c.numParticles ≠ 0 := by omega
    simp [particlesGuard, this, pure, Except.pure]
  refine ⟨_, m, by simp [runSchedule, hg, eb, em, bind, Except.bind, pure, Except.pure]; rfl, ?_, rfl, h1, h2, h3⟩
  simp [sched]

/-- thin does not divide num_iters; no time limit: `0`, then `0, 3, 6` of `range(8)` -/
example : runSchedule ⟨1, 8, 3, 1, 1, 0, 0, false⟩ (fun _ => false) (fun _ => false)
    = .ok ⟨1, 8, [0, 0, 3, 6], 0, 0, 0⟩ := by decide
/-- the limit fires in iteration 4 of 10 (thin 2): iterations 0..4 run, entries `0 | 0, 2, 4` -/
example : runSchedule ⟨1, 10, 2, 1, 1, 0, 0, false⟩ (fun _ => false) (fun i => decide (4 ≤ i))
    = .ok ⟨1, 5, [0, 0, 2, 4], 0, 0, 0⟩ := by decide
/-- the limit is already exceeded during burn-in: the first main iteration still runs and is recorded -/
example : runSchedule ⟨3, 10, 2, 1, 1, 0, 0, false⟩ (fun i => decide (1 ≤ i)) (fun _ => true)
    = .ok ⟨2, 1, [0, 0], 0, 0, 0⟩ := by decide

/-- The same with the wall clock (`with timer:` semantics: the comparison in iteration `j` sees the
burn-in plus the durations of the iterations before `j`): the recorded iterations are a prefix of the
untimed schedule, cut exactly where the accumulated time first reaches the limit. -/
theorem trace_schedule_timed (c : Cfg) (hth : 1 ≤ c.thin) (hpf : 1 ≤ c.printFreq) (hN : 1 ≤ c.numParticles)
    (maxT : Option ℚ) (dB dM : ℕ → ℚ) :
    ∃ out m b, runTimed c maxT dB dM = .ok out ∧
      out.iters = 0 :: (List.range' 0 m).filter (fun j => j % c.thin = 0) ∧ m ≤ c.numIters ∧
      (∀ j, j + 1 < m → stopMain maxT (RunLoop.sumTo dB b) dM j = false) ∧
      (m < c.numIters → 0 < m ∧ stopMain maxT (RunLoop.sumTo dB b) dM (m - 1) = true) := by
  have hg : particlesGuard c = .ok () := by
    have : c.numParticles ≠ 0 := by omega
    simp [particlesGuard, this, pure, Except.pure]
  obtain ⟨b, eb, _, _⟩ := burninFrom_ok c.printFreq hpf (stopBurnin maxT dB) c.burnin 0
  obtain ⟨out, m, e, h1, _, h3, h4, h5⟩ :=
    trace_schedule c hth hpf hN (stopBurnin maxT dB) (stopMain maxT (RunLoop.sumTo dB b) dM)
  exact ⟨out, m, b, by simp [runTimed, hg, eb, e, bind, Except.bind], h1, h3, h4, h5⟩

/-- limit 7/2 with unit durations, burn-in 1: main iteration `j` sees `1 + j`; stops in `j = 3` -/
example : (runTimed ⟨1, 10, 3, 1, 1, 0, 0, false⟩ (some (7/2)) (fun _ => 1) (fun _ => 1)).toOption.map (·.iters)
    = some [0, 0, 3] := by decide +kernel

/-- **What an entry is built from.**  The trace of the stateful loop is, entry by entry: the
post-burn-in state, then for every scheduled iteration `j` the entry built by `append_to_trace` from
the chain state *after* iteration `j` — the tree after the samplers and `relabel_nodes()`, the
concentration value after `update_concentration_value` (when enabled) — with `log_p_one` evaluated on
exactly that tree under exactly that concentration value, and the tree stored in dictionary form. -/
theorem entry_after_update (dt : Data) (o : Oracles) (cu : Bool) (thin numIters : ℕ) (st0 : St) :
    ∃ m, (runMain dt o cu thin numIters st0).1
        = mkEntry dt 0 (o.clock 0) st0 ::
            ((List.range' 0 m).filter (fun j => j % thin = 0)).map
              (fun j => mkEntry dt j (o.clock j) (stateAt o cu st0 (j + 1))) ∧
      (∀ j, (stateAt o cu st0 (j + 1)).tree = (o.moves j (stateAt o cu st0 j).tree).relabelNodes ∧
            (stateAt o cu st0 (j + 1)).alpha
              = if cu then o.conc j (stateAt o cu st0 j).alpha (stateAt o cu st0 (j + 1)).tree
                else (stateAt o cu st0 j).alpha) ∧
      m ≤ numIters ∧ (m < numIters → 0 < m ∧ o.stop (m - 1) = true) := by
  obtain ⟨m, e, h1, _, h3⟩ := runMain_spec dt o cu thin numIters st0
  refine ⟨m, ?_, fun j => ⟨rfl, rfl⟩, h1, h3⟩
  rw [e]
  simp [sched]

/-- **Entry consistency.**  If the tree after burn-in satisfies the store invariant and every
iteration's samplers followed by `relabel_nodes` preserve it (C06/C07), then every recorded entry
restores with `Tree.from_dict`, and `log_p_one` of the restored tree under the entry's recorded
concentration value is the entry's recorded `log_p_one` — for every outcome of the samplers, of the
concentration draws and of the clock, with the concentration update on or off. -/
theorem entry_consistent (dt : Data) (o : Oracles) (cu : Bool) (thin numIters : ℕ) (st0 : St)
    (h0 : Inv dt st0.tree) (hstep : ∀ i s, Inv dt s → Inv dt (o.moves i s).relabelNodes) :
    ∀ e ∈ (runMain dt o cu thin numIters st0).1,
      ∃ s', fromDict dt e.tree = some s' ∧ pOneC dt e.alpha s' = e.logPOne := by
  intro e he
  obtain ⟨j, t, k, rfl⟩ := mem_trace dt o cu thin numIters st0 e he
  have hw := stateAt_inv o cu st0 (Inv dt) h0 hstep k
  exact ⟨_, mkEntry_restores dt j t _ hw.wfd⟩

/-- **Entries hold all data.**  If moreover the samplers conserve the data (every index of `0..n-1` in
exactly one place, C07 `data_conserved`), every recorded entry restores to a tree that holds every
data point exactly once. -/
theorem entry_data_complete (dt : Data) (n : ℕ) (o : Oracles) (cu : Bool) (thin numIters : ℕ) (st0 : St)
    (h0 : Inv dt st0.tree ∧ dataCompleteB n st0.tree = true)
    (hstep : ∀ i s, Inv dt s ∧ dataCompleteB n s = true →
      Inv dt (o.moves i s).relabelNodes ∧ dataCompleteB n (o.moves i s).relabelNodes = true) :
    ∀ e ∈ (runMain dt o cu thin numIters st0).1,
      ∃ s', fromDict dt e.tree = some s' ∧ dataCompleteB n s' = true := by
  intro e he
  obtain ⟨j, t, k, rfl⟩ := mem_trace dt o cu thin numIters st0 e he
  have hw := stateAt_inv o cu st0 (fun s => Inv dt s ∧ dataCompleteB n s = true) h0 hstep k
  refine ⟨_, (mkEntry_restores dt j t _ hw.1.wfd).1, ?_⟩
  have := hw.2
  unfold dataCompleteB at this ⊢
  rw [labels_normRoot]
  exact this

/-! ### non-vacuity: a two-iteration chain on `exData` whose "sampler" moves data point 4 from the
outliers into clone 0 in iteration 0 and whose concentration draws are 2 and 3 -/

def exFull : Store :=
  ((run exData [Store.init exData] [.create 0 [] [0, 1], .create 0 [0] [2, 3], .addDp 0 4 (-1)]).getD []).getD 0
    (Store.init exData)

def exMoved : Store :=
  ((run exData [exFull] [.rmOut 0 4, .addDp 0 4 0]).getD []).getD 0 exFull

def exO : Oracles :=
  { moves := fun i t => if i = 0 then exMoved else t,
    conc := fun i _ _ => if i = 0 then 2 else 3,
    clock := fun i => (i : Rat) + 1,
    stop := fun _ => false }

example : (runMain exData exO true 1 2 ⟨exFull, 1⟩).1.map (fun e => (e.iter, e.alpha, e.logPOne))
    = [(0, 1, pOneC exData 1 exFull), (0, 2, pOneC exData 2 exMoved.relabelNodes),
       (1, 3, pOneC exData 3 exMoved.relabelNodes.relabelNodes)] := by decide +kernel

example : Inv exData exFull ∧ dataCompleteB 5 exFull = true ∧
    Inv exData exMoved.relabelNodes ∧ dataCompleteB 5 exMoved.relabelNodes = true ∧
    pOneC exData 1 exFull ≠ pOneC exData 2 exMoved.relabelNodes := by
  refine ⟨inv_of_tests _ _ (by decide +kernel), by decide +kernel, inv_of_tests _ _ (by decide +kernel),
    by decide +kernel, by decide +kernel⟩

end PhyModel.Props.C15
