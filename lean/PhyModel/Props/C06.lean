import PhyModel.Proofs.StoreInv
/-! C06 — incrementally maintained likelihoods equal a from-scratch rebuild.
Placeholder: the property theorems (`cacheOK_step`, `cacheOK_reachable`, `rebuild_eq`) are written by
the proof slice and merged by the lead; the check `./check C06` meanwhile runs the model/code
correspondence and the direct oracle of harness/props/c06.py. -/
namespace PhyModel.Props.C06
-- OBLIGATION-OPEN cacheOK_reachable: proof slice not merged yet
end PhyModel.Props.C06
