import PhyModel.Proofs.StoreCache_Legal
/-! # C06 — incrementally maintained likelihoods equal a from-scratch rebuild

Property theorems on the store model of `phyclone.tree.Tree` (`Model/Store.lean`); helper lemmas
live in `Proofs/StoreCache_*.lean`.  `CacheOK dt s` (`Proofs/StoreInv.lean`): every clone's cached
`p` is the prior times its data and every cached `r` is `p ⊙ S(children's r)`, and the virtual root's
vector is the recomputed one.  The theorems: the empty tree satisfies it, every edit operation
preserves it, hence every store reached by any edit history over several live handles satisfies it
(`cacheOK_reachable`), and under it every cached vector and both joint densities are those of a tree
freshly built with the same shape and assignment (`rebuild_eq`).

Hypotheses beyond `CacheOK`: `WF` (C07) of the edited store where the recomputation path is located
through the name → index map (only its part `WFc`, `Proofs/StoreCache_Path.lean`); `DataNZ` and
`dp < dt.n` where a data point's grid is divided out.  `cacheOK_reachable_legal` joins this with C07's
`inv_step`: for every history of `Legal` edits nothing about well-formedness is assumed.  The
floating-point clause of the property (rounding drift of repeated add/remove) is decided by the
correspondence check, not here. -/

namespace PhyModel.Props.C06
open PhyModel PhyModel.Store PhyModel.Store.C06

/-- **C06, start.**  `Tree(grid_size)`.  No hypothesis. -/
theorem cacheOK_init (dt : Data) : CacheOK dt (Store.init dt) := Store.C06.cacheOK_init dt

/-! ### one theorem per operation -/

/-- `create_root_node(children, data)`, any children, any data.  Hypothesis: `CacheOK s` only (the
new clone is located by its fresh graph index at the head of the forest; the adopted top-level trees
keep their caches). -/
theorem cacheOK_createRootNode (dt : Data) (s s' : Store) (ch : List Int) (d : List ℕ) (nm : Int)
    (hc : CacheOK dt s) (h : s.createRootNode dt ch d = some (s', nm)) : CacheOK dt s' :=
  cacheOK_create dt s s' ch d nm hc h

/-- `create_root_node(children)` then `add_data_point_to_node(dp, new clone)`.  Hypothesis:
`CacheOK s` only (freshness of the index `1 + max index` is proved, not assumed; no `Dense`). -/
theorem cacheOK_createAdd (dt : Data) (s s1 s' : Store) (ch : List Int) (dp : ℕ) (nm : Int)
    (hc : CacheOK dt s) (h : s.createRootNode dt ch [] = some (s1, nm))
    (h2 : s1.addDataPointToNode dt dp nm = some s') : CacheOK dt s' :=
  Store.C06.cacheOK_createAdd dt s s1 s' ch dp nm hc h h2

/-- `add_data_point_to_node` (a clone or the outliers): own `r` multiplied in place, ancestors
recomputed from the parent up.  Hypotheses: `CacheOK s`, and of `WF s` the part `WFc` (unique graph
indices; the name → index map sends the parent's name to the parent's index). -/
theorem cacheOK_addDataPointToNode (dt : Data) (s s' : Store) (dp : ℕ) (node : Int) (hw : WF s)
    (hc : CacheOK dt s) (h : s.addDataPointToNode dt dp node = some s') : CacheOK dt s' :=
  cacheOK_addDp dt s s' dp node hw.toWFc hc h

/-- `remove_data_point_from_node`: `p` divided, `r` recomputed from the clone up.  Hypotheses:
`CacheOK s`; `DataNZ dt` and `dp < dt.n` (the divided values are non-zero); of `WF s` only that graph
indices are unique. -/
theorem cacheOK_removeDataPointFromNode (dt : Data) (hNZ : DataNZ dt) (s s' : Store) (dp : ℕ)
    (node : Int) (hdp : dp < dt.n) (hw : WF s) (hc : CacheOK dt s)
    (h : s.removeDataPointFromNode dt dp node = some s') : CacheOK dt s' :=
  cacheOK_rmDp dt hNZ s s' dp node hdp hw.idxs_nodup hc h

/-- `remove_data_point_from_outliers`: no cached vector depends on the outliers.  Hypothesis:
`CacheOK s`. -/
theorem cacheOK_removeDataPointFromOutliers (dt : Data) (s s' : Store) (dp : ℕ) (hc : CacheOK dt s)
    (h : s.removeDataPointFromOutliers dp = some s') : CacheOK dt s' :=
  cacheOK_rmOut dt s s' dp hc h

/-- `get_subtree`: the extracted tree (the source is unchanged up to `_data` keys).  Hypothesis:
`CacheOK s` (only its `p`-part is used for a proper subtree: every `r` is recomputed). -/
theorem cacheOK_getSubtree (dt : Data) (s s' : Store) (root : Option Int) (hc : CacheOK dt s)
    (h : s.getSubtree dt root = some s') : CacheOK dt s' :=
  cacheOK_getSub dt s s' root hc h

/-- `remove_subtree`, any argument `sub` (no `Legal` side condition): path from the former parent
recomputed.  Hypotheses: `CacheOK s`, and of `WF s` the part `WFc`. -/
theorem cacheOK_removeSubtree (dt : Data) (s sub s' : Store) (hw : WF s) (hc : CacheOK dt s)
    (h : s.removeSubtree dt sub = some s') : CacheOK dt s' :=
  cacheOK_rmSub dt s sub s' hw.toWFc hc h

/-- `add_subtree`: the grafted subtree's caches are in order, path from the graft point recomputed
(`_update_path_to_root` is given the graft point's name; after the relabelling that name resolves to
the graft point or to a grafted clone below it, and the recomputed path covers the graft point in
both cases).  Hypotheses: `CacheOK s`, `CacheOK sub`, and of `WF s` the part `WFc`; no `Full`, no
`Legal` side condition, nothing about the result. -/
theorem cacheOK_addSubtree (dt : Data) (s sub s' : Store) (parent : Option Int) (hw : WF s)
    (hc : CacheOK dt s) (hcs : CacheOK dt sub) (h : s.addSubtree dt sub parent = some s') :
    CacheOK dt s' :=
  cacheOK_addSub_in dt s sub s' parent hw.toWFc hc hcs h

/-- `relabel_nodes`: names only.  Hypothesis: `CacheOK s`. -/
theorem cacheOK_relabelNodes (dt : Data) (s : Store) (hc : CacheOK dt s) :
    CacheOK dt s.relabelNodes := cacheOK_relabel dt s hc

/-- `update`: every `r` recomputed.  Hypothesis: `CacheOK s` (its `p`-part). -/
theorem cacheOK_update (dt : Data) (s : Store) (hc : CacheOK dt s) : CacheOK dt (s.update dt) :=
  Store.C06.cacheOK_update dt s hc

/-- `from_dict(to_dict(t))` — in fact `from_dict` of any dictionary: every payload is rebuilt from its
`_data` list and every `r` recomputed.  No hypothesis on `s` at all. -/
theorem cacheOK_dictRoundTrip (dt : Data) (s s' : Store)
    (h : Store.fromDict dt s.toDict = some s') : CacheOK dt s' :=
  cacheOK_fromDict dt _ s' h

/-! ### histories -/

/-- **C06, one edit of a history** over several live handles (`copy`, `get_subtree`, dict round trip
create aliases that are then edited alternately): every handle's cache stays in order.  Hypotheses:
`CacheOK` and `WF` (only `WFc`) of every handle before the edit, `DataNZ dt`, `InRange dt op` (the
data indices the edit mentions lie in the data set; used by `rmDp`).  No `Legal`, `Full`, `Dense`. -/
theorem cacheOK_step (dt : Data) (hNZ : DataNZ dt) (sys sys' : Sys) (op : Op)
    (hwf : ∀ s ∈ sys, WF s) (hin : InRange dt op)
    (hc : ∀ s ∈ sys, CacheOK dt s) (h : step dt sys op = some sys') : ∀ s ∈ sys', CacheOK dt s :=
  cacheOK_step' dt hNZ sys sys' op (fun s hs => (hwf s hs).toWFc) hin hc h

/-- **C06, every history (the form the proof uses).**  From the empty tree, after any list of edits
of any length: every live handle's cache is in order, provided the part `WFc` of well-formedness
(unique graph indices, name → index exact on the clones) holds in every state an edit is applied to,
and removed data points lie inside the data set, whose likelihood values are non-zero. -/
theorem cacheOK_reachable_wfc (dt : Data) (hNZ : DataNZ dt) (ops : List Op) (sys : Sys)
    (hwf : Along dt (fun sy => ∀ s ∈ sy, WFc s) [Store.init dt] ops)
    (hin : ∀ op ∈ ops, InRange dt op) (h : run dt [Store.init dt] ops = some sys) :
    ∀ s ∈ sys, CacheOK dt s :=
  cacheOK_run dt hNZ ops _ sys hwf hin
    (fun s hs => by rw [List.mem_singleton] at hs; exact hs ▸ Store.C06.cacheOK_init dt) h

/-- **C06, every history**, with C07's `WF` along the run as the imported hypothesis (discharged by
`wf_reachable` for the histories whose operations are `Legal`). -/
theorem cacheOK_reachable (dt : Data) (hNZ : DataNZ dt) (ops : List Op) (sys : Sys)
    (hwf : Along dt (fun sy => ∀ s ∈ sy, WF s) [Store.init dt] ops)
    (hin : ∀ op ∈ ops, InRange dt op) (h : run dt [Store.init dt] ops = some sys) :
    ∀ s ∈ sys, CacheOK dt s :=
  cacheOK_reachable_wfc dt hNZ ops sys
    (Along.mono (fun _ hsy s hs => (hsy s hs).toWFc) hwf) hin h

/-- the same with "along the run" spelt as "after every prefix of the history" (proper or not) -/
theorem cacheOK_reachable_of_prefixes (dt : Data) (hNZ : DataNZ dt) (ops : List Op) (sys : Sys)
    (hwf : ∀ pre post sys1, ops = pre ++ post → run dt [Store.init dt] pre = some sys1 →
      ∀ s ∈ sys1, WF s)
    (hin : ∀ op ∈ ops, InRange dt op) (h : run dt [Store.init dt] ops = some sys) :
    ∀ s ∈ sys, CacheOK dt s :=
  cacheOK_reachable dt hNZ ops sys (along_of_prefixes dt _ ops _ hwf) hin h

/-- **C06 joined with C07: every legal history.**  From the empty tree, after any list of edits of
any length in which every edit is `Legal` in the state it is applied to (`LegalRun`: a clone is
created only in a tree with dense names and with new data; `remove_subtree` is given a subtree
extracted from the same tree; a subtree is grafted only where its data are absent): every live
handle's cache is in order.  Well-formedness along the run is no longer a hypothesis (C07's
`inv_step`).  Remaining hypotheses: `DataNZ dt` and `InRange` (data indices inside the data set). -/
theorem cacheOK_reachable_legal (dt : Data) (hNZ : DataNZ dt) (ops : List Op) (sys : Sys)
    (hleg : LegalRun dt [Store.init dt] ops) (hin : ∀ op ∈ ops, InRange dt op)
    (h : run dt [Store.init dt] ops = some sys) : ∀ s ∈ sys, CacheOK dt s :=
  cacheOK_run_legal dt hNZ ops _ sys
    (fun s hs => by rw [List.mem_singleton] at hs; exact hs ▸ inv_init dt) hleg hin
    (fun s hs => by rw [List.mem_singleton] at hs; exact hs ▸ Store.C06.cacheOK_init dt) h

/-! ### the cache against a rebuild -/

/-- **C06, rebuild.**  Under the cache invariant every clone's cached `p` / `r` is the from-scratch
`nodeP` / `nodeR` of `Model/Tree.lean` on the forest with the same shape and assignment, the virtual
root's vector is `rootR` of that forest, and both joint densities read from the cache
(`log_p_one`, `log_p`) equal `Density.pOne` / `Density.pMarg` of the freshly built tree. -/
theorem rebuild_eq (dt : Data) (α : ℚ) (s : Store) (h : CacheOK dt s) :
    (∀ x ∈ s.forest.nodesK,
      x.1.p = (List.range dt.S).map (fun sm => nodeP dt sm x.1.dps) ∧
      x.1.r = (List.range dt.S).map (fun sm => nodeR dt sm x.1.dps x.2.toDF)) ∧
    (s.forest.isNil = false → s.rootR = (List.range dt.S).map fun sm => rootR dt sm s.forest.toDF) ∧
    s.pOneC dt α = Density.pOne dt α s.forest.toDF s.outliers ∧
    s.pMargC dt α = Density.pMarg dt α s.forest.toDF s.outliers :=
  ⟨node_rebuild dt s.forest h.1, root_rebuild dt s h, pOneC_eq dt α s h, pMargC_eq dt α s h⟩

/-- **C06.**  After any edit history both joint densities equal those of a freshly built tree. -/
theorem reachable_rebuild (dt : Data) (hNZ : DataNZ dt) (α : ℚ) (ops : List Op) (sys : Sys)
    (hwf : Along dt (fun sy => ∀ s ∈ sy, WF s) [Store.init dt] ops)
    (hin : ∀ op ∈ ops, InRange dt op) (h : run dt [Store.init dt] ops = some sys) :
    ∀ s ∈ sys, s.pOneC dt α = Density.pOne dt α s.forest.toDF s.outliers ∧
      s.pMargC dt α = Density.pMarg dt α s.forest.toDF s.outliers := fun s hs =>
  have hc := cacheOK_reachable dt hNZ ops sys hwf hin h s hs
  ⟨pOneC_eq dt α s hc, pMargC_eq dt α s hc⟩

/-- the same for every legal history: nothing imported -/
theorem reachable_rebuild_legal (dt : Data) (hNZ : DataNZ dt) (α : ℚ) (ops : List Op) (sys : Sys)
    (hleg : LegalRun dt [Store.init dt] ops) (hin : ∀ op ∈ ops, InRange dt op)
    (h : run dt [Store.init dt] ops = some sys) :
    ∀ s ∈ sys, s.pOneC dt α = Density.pOne dt α s.forest.toDF s.outliers ∧
      s.pMargC dt α = Density.pMarg dt α s.forest.toDF s.outliers := fun s hs =>
  have hc := cacheOK_reachable_legal dt hNZ ops sys hleg hin h s hs
  ⟨pOneC_eq dt α s hc, pMargC_eq dt α s hc⟩

/-! ### non-vacuity

A two-sample, three-point data set and a history over four handles that uses every operation: a clone
is created above another, a data point is added below (path update from the parent), the subtree is
extracted, removed and grafted back (`add_subtree` below a clone), the data point is removed again,
the tree is copied, a clone is created above the copy's root by the compound op, relabelled, sent
through the dictionary form, recomputed; an outlier is added and removed on a fresh handle. -/

def exData : Data :=
  { G := 2, S := 2, op := [], sz := [],
    vals := [[[1/2, 1/3], [1, 1/2]], [[1/4, 1], [2/3, 1/5]], [[1, 1/5], [1/7, 1/2]]] }

def exOps : List Op :=
  [.create 0 [] [0], .create 0 [0] [1], .addDp 0 2 0, .getSub 0 (some 0), .rmSub 0 1,
   .addSub 0 1 (some 1), .rmDp 0 2 0, .copy 0, .createAdd 2 [1] 2, .relabel 0, .dictRT 0, .update 2,
   .fresh, .addDp 3 1 (-1), .rmOut 3 1]

/-- the hypotheses of `cacheOK_reachable` (and so of `cacheOK_reachable_wfc`, `reachable_rebuild`)
hold on this history, which does not fail: `WF` in every state an edit is applied to -/
example : DataNZ exData ∧ Along exData (fun sy => ∀ s ∈ sy, WF s) [Store.init exData] exOps ∧
    (∀ op ∈ exOps, InRange exData op) ∧ (run exData [Store.init exData] exOps).isSome = true :=
  ⟨dataNZB_sound _ (by decide +kernel), along_wf_of_bool _ _ _ (by decide +kernel),
    by decide +kernel, by decide +kernel⟩

/-- `cacheOK_reachable_legal`, `reachable_rebuild_legal`: every edit of the history is `Legal` where
it is applied -/
example : LegalRun exData [Store.init exData] exOps := legalRunB_sound _ _ _ (by decide +kernel)

/-- `cacheOK_reachable_wfc`: the weaker hypothesis, checked by its own Boolean -/
example : Along exData (fun sy => ∀ s ∈ sy, WFc s) [Store.init exData] exOps :=
  along_wfc_of_bool _ _ _ (by decide +kernel)

/-- the handles at the end of the history -/
def exSys : Sys := (run exData [Store.init exData] exOps).getD []

/-- ... and the conclusion, checked directly: four handles, three of them non-empty, all in order -/
example : exSys.length = 4 ∧ (exSys.map fun s => s.forest.numNodes) = [2, 1, 3, 0] ∧
    ∀ s ∈ exSys, CacheOK exData s :=
  ⟨by decide +kernel, by decide +kernel, forall_cacheOK_of_bool _ _ (by decide +kernel)⟩

/-- `rebuild_eq` on these handles (its hypothesis holds by the example above): the density read from
the cache and the density of the freshly built tree are the same genuine numbers -/
example : (exSys.map fun s => s.pOneC exData 1) = [667/92160, 187/13440, 57/716800, 1] ∧
    (exSys.map fun s => Density.pOne exData 1 s.forest.toDF s.outliers)
      = [667/92160, 187/13440, 57/716800, 1] ∧
    (exSys.map fun s => s.pMargC exData 1) = [637/69120, 1/28, 14999/206438400, 1] ∧
    (exSys.map fun s => Density.pMarg exData 1 s.forest.toDF s.outliers)
      = [637/69120, 1/28, 14999/206438400, 1] := by
  refine ⟨?_, ?_, ?_, ?_⟩ <;> decide +kernel

/-! #### one example per operation theorem: the state of the history just before the operation is
applied satisfies the theorem's hypotheses and the operation succeeds on it -/

/-- the handles after the first `k` edits -/
def exAt (k : ℕ) : Sys := (run exData [Store.init exData] (exOps.take k)).getD []
/-- handle `i` after the first `k` edits -/
def exSt (k i : ℕ) : Store := ((exAt k)[i]?).getD (Store.init exData)

private theorem wf_ex (s : Store) (h : s.wfB = true) : WF s := (wfB_iff s).1 h
private theorem ok_ex (s : Store) (h : s.cacheOKB exData = true) : CacheOK exData s :=
  (cacheOKB_iff exData s).1 h

/-- `cacheOK_createRootNode`: a clone above the single top-level clone -/
example : CacheOK exData (exSt 1 0) ∧ ((exSt 1 0).createRootNode exData [0] [1]).isSome = true :=
  ⟨ok_ex _ (by decide +kernel), by decide +kernel⟩
/-- `cacheOK_createAdd` -/
example : CacheOK exData (exSt 8 2) ∧ (((exSt 8 2).createRootNode exData [1] []).bind fun r =>
    r.1.addDataPointToNode exData 2 r.2).isSome = true :=
  ⟨ok_ex _ (by decide +kernel), by decide +kernel⟩
/-- `cacheOK_addDataPointToNode`: to a clone that has a parent (path update from the parent) -/
example : WF (exSt 2 0) ∧ CacheOK exData (exSt 2 0) ∧
    ((exSt 2 0).addDataPointToNode exData 2 0).isSome = true :=
  ⟨wf_ex _ (by decide +kernel), ok_ex _ (by decide +kernel), by decide +kernel⟩
/-- `cacheOK_removeDataPointFromNode`: from a grafted clone below another -/
example : DataNZ exData ∧ 2 < exData.n ∧ WF (exSt 6 0) ∧ CacheOK exData (exSt 6 0) ∧
    ((exSt 6 0).removeDataPointFromNode exData 2 0).isSome = true :=
  ⟨dataNZB_sound _ (by decide +kernel), by decide +kernel, wf_ex _ (by decide +kernel),
    ok_ex _ (by decide +kernel), by decide +kernel⟩
/-- `cacheOK_removeDataPointFromOutliers` -/
example : CacheOK exData (exSt 14 3) ∧ ((exSt 14 3).removeDataPointFromOutliers 1).isSome = true :=
  ⟨ok_ex _ (by decide +kernel), by decide +kernel⟩
/-- `cacheOK_getSubtree` -/
example : CacheOK exData (exSt 3 0) ∧ ((exSt 3 0).getSubtree exData (some 0)).isSome = true :=
  ⟨ok_ex _ (by decide +kernel), by decide +kernel⟩
/-- `cacheOK_removeSubtree`: a proper subtree (the parent's path is recomputed) -/
example : WF (exSt 4 0) ∧ CacheOK exData (exSt 4 0) ∧ Store.keyEq (exSt 4 1) (exSt 4 0) = false ∧
    ((exSt 4 0).removeSubtree exData (exSt 4 1)).isSome = true :=
  ⟨wf_ex _ (by decide +kernel), ok_ex _ (by decide +kernel), by decide +kernel, by decide +kernel⟩
/-- `cacheOK_addSubtree`: below a clone -/
example : WF (exSt 5 0) ∧ CacheOK exData (exSt 5 0) ∧ CacheOK exData (exSt 5 1) ∧
    ((exSt 5 0).addSubtree exData (exSt 5 1) (some 1)).isSome = true :=
  ⟨wf_ex _ (by decide +kernel), ok_ex _ (by decide +kernel), ok_ex _ (by decide +kernel),
    by decide +kernel⟩
/-- `cacheOK_relabelNodes`, `cacheOK_update`: a two-level tree -/
example : CacheOK exData (exSt 9 0) ∧ (exSt 9 0).forest.numNodes = 2 :=
  ⟨ok_ex _ (by decide +kernel), by decide +kernel⟩
/-- `cacheOK_dictRoundTrip` -/
example : (Store.fromDict exData (exSt 10 0).toDict).isSome = true := by decide +kernel
/-- `cacheOK_step`: the data-point removal, two live handles -/
example : DataNZ exData ∧ (∀ s ∈ exAt 6, WF s) ∧ InRange exData (.rmDp 0 2 0) ∧
    (∀ s ∈ exAt 6, CacheOK exData s) ∧ (exAt 6).length = 2 ∧
    (step exData (exAt 6) (.rmDp 0 2 0)).isSome = true :=
  ⟨dataNZB_sound _ (by decide +kernel), forall_wf_of_bool _ (by decide +kernel), by decide +kernel,
    forall_cacheOK_of_bool _ _ (by decide +kernel), by decide +kernel, by decide +kernel⟩

end PhyModel.Props.C06
