import PhyModel.Proofs.LikIso
import PhyModel.Model.Tree
/-! # C02 — tree likelihood = exact CCF-grid marginal under the sum constraint

Property theorems only; helper lemmas live in `Proofs/`.  The floating-point clauses of the
property (underflow floor, FFT accuracy, finiteness of the float result) are decided by the
correspondence check, not here (DESIGN.md 3.1). -/

open Finset BigOperators

namespace PhyModel.Props.C02
open PhyModel

/-- Specification, written independently of the recursion: sum over **all** preorder assignments
of grid indices to the clones of `f` that are feasible (each clone's index at least the sum of its
children's, checked by `evalA`) and whose top-level total is at most `k`, of the product of the
clones' prior-weighted likelihoods at their indices. -/
def specUpTo (G : ℕ) (f : Forest) (k : ℕ) : ℚ :=
  lsum (allAssign G f.size) fun a =>
    match evalA f a with
    | some (tot, w) => if tot ≤ k then w else 0
    | none => 0

theorem getQ_map_mul (c : ℚ) (v : Vec) (k : ℕ) : getQ (v.map fun x => c * x) k = c * getQ v k := by
  unfold getQ
  by_cases h : k < v.length
  · simp [List.getD_eq_getElem?_getD, h]
  · simp [List.getD_eq_getElem?_getD, h]

/-- **C02 (exact-arithmetic core).**  For every data set, sample, forest (any shape, any number of
children and top-level clones) and grid index `k`, the virtual root's likelihood vector equals the
prior times the brute-force constrained sum. -/
theorem rootR_eq_bruteforce (dt : Data) (s : ℕ) (f : DF) (k : ℕ) (hk : k < dt.G) :
    getQ (rootR dt s f) k = dt.prior * specUpTo dt.G (toLik dt s f) k := by
  unfold rootR
  rw [getQ_map_mul, getQ_prefixSum _ _ k hk]
  congr 1
  have h1 : ∀ j ∈ range (k+1), getQ (D dt.G (toLik dt s f)) j = specD dt.G (toLik dt s f) j := by
    intro j hj
    exact D_eq_spec _ _ j (by have := mem_range.mp hj; omega)
  rw [Finset.sum_congr rfl h1]
  unfold specD specUpTo
  change ∑ j ∈ range (k+1), lsum _ (contrib (toLik dt s f) j) = _
  rw [← lsum_finset_comm]
  apply lsum_congr
  intro a _
  unfold contrib
  cases evalA (toLik dt s f) a with
  | none => simp
  | some tw =>
    obtain ⟨tot, w⟩ := tw
    simp only
    rw [Finset.sum_ite_eq]
    simp only [mem_range]
    by_cases h : tot ≤ k
    · simp [h, Nat.lt_succ_of_le h]
    · have : ¬ tot < k + 1 := by omega
      simp [h, this]

/-- the value does not depend on the order in which siblings are stored, at any depth -/
theorem rootR_iso (G : ℕ) {f g : Forest} (h : Iso f g) : D G f = D G g := D_iso G h

/-- non-vacuity: a concrete two-level forest on a 3-point grid meets the hypotheses -/
example : (3 : ℕ) - 1 < 3 ∧ (allAssign 3 2).length = 9 := by decide

end PhyModel.Props.C02
