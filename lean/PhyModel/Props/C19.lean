import PhyModel.Proofs.RunLoopProofs
import PhyModel.Proofs.C19Example
import Mathlib.Tactic.NormNum
/-! # C19 — a run on valid input completes and records only finite, complete trees

The statements are about the run-loop skeleton `Model/RunLoop.lean`, in which every Python failure
point the model can express is an explicit `Except` branch (list index, `choice` from an empty list,
`multinomial` with a negative count, division by a zero weight sum, `%` by zero, the code's asserts),
and about the proposal / weight tables of `Model/Proposal.lean`.  They hold for every particle count
from 1, every number of data points from 1, every outcome of every random draw and every sequence of
iteration durations.  What a model cannot exclude — arbitrary Python exceptions from the numerical
and graph libraries — is listed as an open obligation and explored on the real code by the check. -/

namespace PhyModel.Props.C19
open PhyModel PhyModel.RunLoop PhyModel.C19P

/-- Conditional SMC bookkeeping (`_init_swarm`, the repaired `_resample_swarm`, `_update_swarm`): for
every particle count `N ≥ 1`, every number of data points `T ≥ 1`, every pattern of resampling
decisions and every multiplicity vector `multinomial(N - 1, ·)` can return, no index lookup fails,
the number of draws is never negative, the swarm always has `N` particles and its slot 0 holds the
constrained path (so the retained-particle lookup `swarm.particles[0]` is always in range). -/
theorem resample_index_ok (N T : ℕ) (hN : 1 ≤ N) (hT : 1 ≤ T) (o : Oracle)
    (hm : ∀ k, (o.mult k).length = N ∧ (o.mult k).sum = N - 1) :
    ∃ sw, csmc N T o = .ok sw ∧ sw.length = N ∧ sw.head? = some ⟨T, 0⟩ :=
  csmc_ok N T o hN hT hm

example : ∃ sw, csmc 1 1 ⟨fun _ => true, fun _ => [0]⟩ = .ok sw ∧ sw.length = 1 :=
  ⟨[⟨1, 0⟩], by decide, rfl⟩
example : csmc 3 3 ⟨fun _ => true, fun k => if k = 0 then [1, 1, 0] else [0, 0, 2]⟩
    = .ok [⟨3, 0⟩, ⟨3, 1⟩, ⟨3, 2⟩] := by decide

/-- The lookup the unrepaired code used (`constrained_path[iteration + 1]` at `iteration = 1`) is out
of range exactly when there is a single data point — the regression input of F10. -/
theorem resample_unrepaired_fails (T : ℕ) :
    retainedOld T 1 = .error .indexOutOfRange ↔ T ≤ 1 := by
  constructor
  · intro h
    by_contra hc
    have h2 := fromPath_ok T 2 (by omega) (by omega)
    unfold retainedOld at h
    rw [h2] at h
    cases h
  · intro h
    exact fromPath_fail T 2 (by omega)

example : retainedOld 1 1 = .error .indexOutOfRange := by decide
example : retainedOld 2 1 = .ok ⟨2, 0⟩ := by decide

/-- The subtree sampler never fails: it falls back to the whole-tree update exactly when every data
point is an outlier, and otherwise `choice` is called on a non-empty list and returns a clone that
holds a data point. -/
theorem subtree_choice_nonempty_or_fallback (labels : List (Option ℕ)) (u : ℕ) :
    (∃ r, subtreeStep labels u = .ok r) ∧
    (subtreeStep labels u = .ok .fallback ↔ ∀ l ∈ labels, l = none) ∧
    (∀ n, subtreeStep labels u = .ok (.node n) → some n ∈ labels) ∧
    (subtreeStepOld labels u = .error .emptyChoice ↔ ∀ l ∈ labels, l = none) := by
  by_cases h : (labels.filterMap id).length = 0
  · have hall := (filterMap_id_nil_iff labels).1 h
    have e := subtreeStep_nil labels u h
    refine ⟨⟨.fallback, e⟩, ⟨fun _ => hall, fun _ => e⟩, ?_, ⟨fun _ => hall, fun _ => subtreeStepOld_nil labels u h⟩⟩
    intro n hn
    rw [e] at hn
    exact absurd hn (by simp)
  · obtain ⟨a, ha, hmem⟩ := choice_ok (labels.filterMap id) u h
    have hnall : ¬ ∀ l ∈ labels, l = none := fun hc => h ((filterMap_id_nil_iff labels).2 hc)
    have e := subtreeStep_node labels u a h ha
    have eo := subtreeStepOld_node labels u a ha
    refine ⟨⟨.node a, e⟩, ⟨fun hc => ?_, fun hc => absurd hc hnall⟩, ?_, ⟨fun hc => ?_, fun hc => absurd hc hnall⟩⟩
    · rw [e] at hc
      exact absurd hc (by simp)
    · intro n hn
      rw [e] at hn
      have : a = n := by simpa using hn
      subst this
      obtain ⟨x, hx, hid⟩ := List.mem_filterMap.1 hmem
      have : x = some a := hid
      subst this
      exact hx
    · rw [eo] at hc
      exact absurd hc (by simp)

example : subtreeStep [none, none, none] 7 = .ok .fallback := by decide
example : subtreeStep [none, some 4, some 5] 3 = .ok (.node 5) := by decide
example : subtreeStepOld [none, none] 0 = .error .emptyChoice := by decide

/-- Normalising a non-empty vector of positive weights (in front of every `multinomial` call) never
divides by zero; the result is a probability vector with positive entries. -/
theorem normalise_ok (ws : List ℚ) (hne : ws ≠ []) (hp : ∀ w ∈ ws, 0 < w) :
    ∃ p, normalise ws = .ok p ∧ total p = 1 ∧ p.length = ws.length ∧ ∀ x ∈ p, 0 < x := by
  have ht := total_pos ws hne hp
  have hl : ws.length ≠ 0 := by simpa using hne
  refine ⟨ws.map (· / total ws), ?_, ?_, by simp, ?_⟩
  · simp [normalise, hl, ne_of_gt ht, pure, Except.pure]
  · rw [total_map_div, div_self (ne_of_gt ht)]
  · intro x hx
    obtain ⟨w, hw, rfl⟩ := List.mem_map.1 hx
    exact div_pos (hp w hw) ht

example : normalise [1 / 2, 3 / 2] = .ok [1 / 4, 3 / 4] := by
  norm_num [normalise, total, pure, Except.pure]
example : normalise [0, 0] = .error .zeroWeightSum := by
  norm_num [normalise, total, throw, throwThe, MonadExceptOf.throw]

/-- With positive likelihood values (every data point mentioned, every sample, every grid point),
`α > 0` and outlier probabilities in `[0,1)` — both the per-data-point priors and the kernel's
outlier proposal probability — every proposal probability in `Proposal.table` (the table mirroring
`log_p()`, for all three proposals, first or later data point) is positive, every tree it lists
has positive `log_p` / `log_p_one` densities, and the incremental weight of `create_particle` /
`_get_log_w` (with or without the last-step correction) is positive.  So every log-weight a sweep
produces is finite and, with `normalise_ok`, weight normalisation never divides by zero. -/
theorem weights_positive (dt : Data) (hG : 0 < dt.G) (c : Proposal.Cfg) (hα : 0 < c.α)
    (hop0 : 0 ≤ c.op) (hop1 : c.op < 1) (first last : Bool) (p : T) (i : ℕ)
    (hp : Good dt p.f p.out) (hi : GoodIdx dt i) :
    ∀ tq ∈ Proposal.table dt c first p i,
      0 < tq.2 ∧ 0 < Proposal.pMargT dt c tq.1 ∧ 0 < Proposal.pOneT dt c tq.1 ∧
      0 < Proposal.incrWeight dt c first last p tq.1 tq.2 := by
  intro tq h
  have hall := Proposal.placements_good dt p i hp hi
  obtain ⟨hq, kt, hkt, hEq⟩ := Proposal.table_pos dt hG c hα hop0 hop1 first p i hall tq h
  have hgood := hall kt hkt
  rw [hEq] at hgood
  exact ⟨hq, Density.pMarg_pos dt hG c.α hα _ _ hgood, Density.pOne_pos dt hG c.α hα _ _ hgood,
    Proposal.incrWeight_pos dt hG c hα first last p tq.1 tq.2 hq hgood (fun _ => hp)⟩

/-- the hypotheses are satisfiable (`Proofs/C19Example.lean`: two data points on a 2-point grid, outlier
prior 1/2, parent state "data point 0 in one clone", placing data point 1), and the table the theorem
speaks about is not empty there (join the clone,
new top-level clone, new clone above the existing one, outlier) -/
example := weights_positive exData (by decide) ⟨.full, 1/10, 1, true⟩ (by norm_num) (by norm_num) (by norm_num)
  false true exParent 1 exGoodParent exGood1
example : (Proposal.table exData ⟨.full, 1/10, 1, true⟩ false exParent 1).length = 4 := by
  simp [Proposal.table, Proposal.placements, Proposal.splits, exParent, Orders.Forest.roots, Dist.categorical]

/-- Burn-in, main loop, thinning and time limit: for `thin ≥ 1`, `print_freq ≥ 1`, at least one
particle and *any* outcome of the timer comparisons the chain driver terminates without a failure,
the first recorded entry is the post-burn-in one (`iter = 0`), at most `1 + num_iters` entries are
recorded, no loop runs longer than asked, and as soon as `num_iters ≥ 1` the first main iteration is
executed and recorded as well. -/
theorem schedule_total (c : Cfg) (hth : 1 ≤ c.thin) (hpf : 1 ≤ c.printFreq) (hN : 1 ≤ c.numParticles)
    (stopB stopM : ℕ → Bool) :
    ∃ out, runSchedule c stopB stopM = .ok out ∧ out.iters.head? = some 0 ∧
      1 ≤ out.iters.length ∧ out.iters.length ≤ 1 + out.mainIters ∧
      out.burninIters ≤ c.burnin ∧ out.mainIters ≤ c.numIters ∧
      (1 ≤ c.numIters → 1 ≤ out.mainIters ∧ 2 ≤ out.iters.length) := by
  obtain ⟨b, eb, _, hb2⟩ := burninFrom_ok c.printFreq hpf stopB c.burnin 0
  obtain ⟨tr, m, em, _, hm2, hh, hl1, hl2, hfirst⟩ :=
    mainFrom_ok c.thin c.printFreq hth hpf stopM c.numIters 0 [0] (by simp)
  have hg : particlesGuard c = .ok () := by
    have : c.numParticles ≠ 0 := by omega
    simp [particlesGuard, this, pure, Except.pure]
  refine ⟨_, by simp [runSchedule, hg, eb, em, bind, Except.bind, pure, Except.pure]; rfl, ?_, ?_, ?_, ?_, ?_, ?_⟩
  · simpa using hh
  · simpa using hl1
  · simp at hl2 ⊢; omega
  · simp at hb2 ⊢; omega
  · simp at hm2 ⊢; omega
  · intro h1
    have := hfirst h1 (by simp)
    simp at this ⊢
    omega

example : runSchedule ⟨2, 5, 2, 100, 2, 1, -1, true⟩ (fun _ => false) (fun i => i == 2)
    = .ok ⟨2, 3, [0, 0, 2], 5, 0, 3⟩ := by decide

/-- Without a time limit exactly the thinned schedule is recorded: the post-burn-in entry, then
every iteration `i < num_iters` with `i % thin = 0`; all burn-in and main iterations run. -/
theorem schedule_untimed (c : Cfg) (hth : 1 ≤ c.thin) (hpf : 1 ≤ c.printFreq) (hN : 1 ≤ c.numParticles) :
    ∃ out, runSchedule c (fun _ => false) (fun _ => false) = .ok out ∧
      out.iters = 0 :: (List.range c.numIters).filter (fun i => i % c.thin = 0) ∧
      out.burninIters = c.burnin ∧ out.mainIters = c.numIters := by
  have hg : particlesGuard c = .ok () := by
    have : c.numParticles ≠ 0 := by omega
    simp [particlesGuard, this, pure, Except.pure]
  refine ⟨_, by
    simp [runSchedule, hg, burninFrom_never c.printFreq hpf, mainFrom_never c.thin c.printFreq hth hpf,
      bind, Except.bind, pure, Except.pure]; rfl, ?_, ?_, ?_⟩
  · simp
  · simp
  · simp

example : runSchedule ⟨1, 7, 3, 1, 1, 0, 0, false⟩ (fun _ => false) (fun _ => false)
    = .ok ⟨1, 7, [0, 0, 3, 6], 0, 0, 0⟩ := by decide

/-- The chain with its wall clock (`with timer:` semantics, any positive or zero durations, any time
limit including 0 and `inf`): every guard of the skeleton passes for every option combination the
command line accepts (`thin`, `print_freq`, particle count from 1). -/
theorem run_guards_ok (c : Cfg) (hth : 1 ≤ c.thin) (hpf : 1 ≤ c.printFreq) (hN : 1 ≤ c.numParticles)
    (maxT : Option ℚ) (dB dM : ℕ → ℚ) :
    ∃ out, runTimed c maxT dB dM = .ok out ∧ out.iters.head? = some 0 ∧ out.iters.length ≤ 1 + c.numIters := by
  have hg : particlesGuard c = .ok () := by
    have : c.numParticles ≠ 0 := by omega
    simp [particlesGuard, this, pure, Except.pure]
  obtain ⟨b, eb, _, _⟩ := burninFrom_ok c.printFreq hpf (stopBurnin maxT dB) c.burnin 0
  obtain ⟨out, e, h0, _, h2, _, h4, _⟩ :=
    schedule_total c hth hpf hN (stopBurnin maxT dB) (stopMain maxT (RunLoop.sumTo dB b) dM)
  exact ⟨out, by simp [runTimed, hg, eb, e, bind, Except.bind], h0, by omega⟩

/-- time limit 0, unit durations: the first comparison of the burn-in sees `0 > 0` (false), the
second `1 > 0`; the main loop stops after its first iteration -/
example : stopBurnin (some 0) (fun _ => 1) 0 = false ∧ stopBurnin (some 0) (fun _ => 1) 1 = true ∧
    stopMain (some 0) 2 (fun _ => 1) 0 = true := by
  norm_num [stopBurnin, stopMain, RunLoop.sumTo]
example : runSchedule ⟨2, 5, 2, 100, 2, 1, 2, true⟩ (fun i => i == 1) (fun _ => true)
    = .ok ⟨2, 1, [0, 0], 3, 6, 1⟩ := by decide
example := run_guards_ok ⟨2, 5, 2, 100, 2, 1, 2, true⟩ (by decide) (by decide) (by decide) (some 0) (fun _ => 1) (fun _ => 1)

-- OBLIGATION-OPEN run_ok: full statement "for every valid data set and every CLI-accepted option combination run_phyclone_chain returns a trace whose entries are well-formed trees over all data with finite log_p_one" — the guards modelled here (index, empty choice, negative draws, zero weight sum, modulo, asserts of the swarm code) are discharged; exceptions raised inside rustworkx / numpy / numba / scipy, float underflow of log-weights to -inf on large inputs, the `_update_path_to_root` asserts, and well-formedness / finiteness of the recorded tree (carried by C07, C15, C03 on their models) are outside this model and are explored on the real code by the boundary cross-product of the check

end PhyModel.Props.C19
