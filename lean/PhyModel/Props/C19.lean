import PhyModel.Proofs.RunLoopProofs
import PhyModel.Proofs.C19Example
import PhyModel.Proofs.RunOKExample
import PhyModel.Props.C03
import PhyModel.Props.C15
import Mathlib.Tactic.NormNum
import Mathlib.Tactic.IntervalCases
/-! # C19 — a run on valid input completes and records only finite, complete trees

The property has three clauses; which theorem covers which:

1. **"the sampler finishes without an exception"** — the statements about the run-loop skeleton
   `Model/RunLoop.lean`, in which every Python failure point the model can express is an explicit
   `Except` branch (list index, `choice` from an empty list, `multinomial` with a negative count,
   division by a zero weight sum, `%` by zero, the asserts of the swarm code): `resample_index_ok`,
   `subtree_choice_nonempty_or_fallback`, `normalise_ok`, `weights_positive` (no log-weight is `-inf`, so
   no weight sum is zero), `schedule_total`, `schedule_untimed`, `run_guards_ok`.  They hold for every
   particle count from 1, every number of data points from 1, every outcome of every random draw and
   every sequence of iteration durations.
2. **"every recorded entry is a well-formed tree over all data points"** — `support_complete_wf`
   (every tree listed by each of the five sampler models `SMC.pgStep`, `SMC.smcStep`,
   `Moves.dataPointMove`, `Moves.pruneRegraft`, `Moves.subtreeMove` for a complete well-formed tree is a
   complete well-formed tree on the same data), `run_states_ok` (by induction: every state of a run —
   burn-in sweeps, main sweeps, any schedule, any concentration values, any outcome of every draw),
   `run_entries_ok` (the recorded entries of `TraceLoop.runMain`, the stateful loop of C15, when the
   sampler oracle returns a store reached by legal edits (C07 `Legal`) whose tree is listed by the sweep
   model: every entry restores with `Tree.from_dict` to a store satisfying the invariants of C07 / C06,
   holding every data point exactly once and representing a well-formed tree).
3. **"with a finite `log_p_one`"** — `run_states_ok` (`0 < pOne` for every reachable tree, every
   positive concentration value: C03 `pOne_pos`) and `run_entries_ok` (the recorded value is the density
   of the restored tree under the recorded concentration value, C15 / C06 `rebuild_eq`, and positive).

What no model here can exclude — exceptions raised inside the numerical and graph libraries, floating
point underflow, operating-system failures — is listed as the remaining open obligation and explored on
the real code by the boundary cross-product of the check. -/

namespace PhyModel.Props.C19
open PhyModel PhyModel.RunLoop PhyModel.C19P

/-- Conditional SMC bookkeeping (`_init_swarm`, the repaired `_resample_swarm`, `_update_swarm`): for
every particle count `N ≥ 1`, every number of data points `T ≥ 1`, every pattern of resampling
decisions and every multiplicity vector `multinomial(N - 1, ·)` can return, no index lookup fails,
the number of draws is never negative, the swarm always has `N` particles and its slot 0 holds the
constrained path (so the retained-particle lookup `swarm.particles[0]` is always in range). -/
theorem resample_index_ok (N T : ℕ) (hN : 1 ≤ N) (hT : 1 ≤ T) (o : Oracle)
    (hm : ∀ k, (o.mult k).length = N ∧ (o.mult k).sum = N - 1) :
    ∃ sw, csmc N T o = .ok sw ∧ sw.length = N ∧ sw.head? = some ⟨T, 0⟩ :=
  csmc_ok N T o hN hT hm

example : ∃ sw, csmc 1 1 ⟨fun _ => true, fun _ => [0]⟩ = .ok sw ∧ sw.length = 1 :=
  ⟨[⟨1, 0⟩], by decide, rfl⟩
example : csmc 3 3 ⟨fun _ => true, fun k => if k = 0 then [1, 1, 0] else [0, 0, 2]⟩
    = .ok [⟨3, 0⟩, ⟨3, 1⟩, ⟨3, 2⟩] := by decide

/-- The lookup the unrepaired code used (`constrained_path[iteration + 1]` at `iteration = 1`) is out
of range exactly when there is a single data point — the regression input of F10. -/
theorem resample_unrepaired_fails (T : ℕ) :
    retainedOld T 1 = .error .indexOutOfRange ↔ T ≤ 1 := by
  constructor
  · intro h
    by_contra hc
    have h2 := fromPath_ok T 2 (by omega) (by omega)
    unfold retainedOld at h
    rw [h2] at h
    cases h
  · intro h
    exact fromPath_fail T 2 (by omega)

example : retainedOld 1 1 = .error .indexOutOfRange := by decide
example : retainedOld 2 1 = .ok ⟨2, 0⟩ := by decide

/-- The subtree sampler never fails: it falls back to the whole-tree update exactly when every data
point is an outlier, and otherwise `choice` is called on a non-empty list and returns a clone that
holds a data point. -/
theorem subtree_choice_nonempty_or_fallback (labels : List (Option ℕ)) (u : ℕ) :
    (∃ r, subtreeStep labels u = .ok r) ∧
    (subtreeStep labels u = .ok .fallback ↔ ∀ l ∈ labels, l = none) ∧
    (∀ n, subtreeStep labels u = .ok (.node n) → some n ∈ labels) ∧
    (subtreeStepOld labels u = .error .emptyChoice ↔ ∀ l ∈ labels, l = none) := by
  by_cases h : (labels.filterMap id).length = 0
  · have hall := (filterMap_id_nil_iff labels).1 h
    have e := subtreeStep_nil labels u h
    refine ⟨⟨.fallback, e⟩, ⟨fun _ => hall, fun _ => e⟩, ?_, ⟨fun _ => hall, fun _ => subtreeStepOld_nil labels u h⟩⟩
    intro n hn
    rw [e] at hn
    exact absurd hn (by simp)
  · obtain ⟨a, ha, hmem⟩ := choice_ok (labels.filterMap id) u h
    have hnall : ¬ ∀ l ∈ labels, l = none := fun hc => h ((filterMap_id_nil_iff labels).2 hc)
    have e := subtreeStep_node labels u a h ha
    have eo := subtreeStepOld_node labels u a ha
    refine ⟨⟨.node a, e⟩, ⟨fun hc => ?_, fun hc => absurd hc hnall⟩, ?_, ⟨fun hc => ?_, fun hc => absurd hc hnall⟩⟩
    · rw [e] at hc
      exact absurd hc (by simp)
    · intro n hn
      rw [e] at hn
      have : a = n := by simpa using hn
      subst this
      obtain ⟨x, hx, hid⟩ := List.mem_filterMap.1 hmem
      have : x = some a := hid
      subst this
      exact hx
    · rw [eo] at hc
      exact absurd hc (by simp)

example : subtreeStep [none, none, none] 7 = .ok .fallback := by decide
example : subtreeStep [none, some 4, some 5] 3 = .ok (.node 5) := by decide
example : subtreeStepOld [none, none] 0 = .error .emptyChoice := by decide

/-- Normalising a non-empty vector of positive weights (in front of every `multinomial` call) never
divides by zero; the result is a probability vector with positive entries. -/
theorem normalise_ok (ws : List ℚ) (hne : ws ≠ []) (hp : ∀ w ∈ ws, 0 < w) :
    ∃ p, normalise ws = .ok p ∧ total p = 1 ∧ p.length = ws.length ∧ ∀ x ∈ p, 0 < x := by
  have ht := total_pos ws hne hp
  have hl : ws.length ≠ 0 := by simpa using hne
  refine ⟨ws.map (· / total ws), ?_, ?_, by simp, ?_⟩
  · simp [normalise, hl, ne_of_gt ht, pure, Except.pure]
  · rw [total_map_div, div_self (ne_of_gt ht)]
  · intro x hx
    obtain ⟨w, hw, rfl⟩ := List.mem_map.1 hx
    exact div_pos (hp w hw) ht

example : normalise [1 / 2, 3 / 2] = .ok [1 / 4, 3 / 4] := by
  norm_num [normalise, total, pure, Except.pure]
example : normalise [0, 0] = .error .zeroWeightSum := by
  norm_num [normalise, total, throw, throwThe, MonadExceptOf.throw]

/-- With positive likelihood values (every data point mentioned, every sample, every grid point),
`α > 0` and outlier probabilities in `[0,1)` — both the per-data-point priors and the kernel's
outlier proposal probability — every proposal probability in `Proposal.table` (the table mirroring
`log_p()`, for all three proposals, first or later data point) is positive, every tree it lists
has positive `log_p` / `log_p_one` densities, and the incremental weight of `create_particle` /
`_get_log_w` (with or without the last-step correction) is positive.  So every log-weight a sweep
produces is finite and, with `normalise_ok`, weight normalisation never divides by zero. -/
theorem weights_positive (dt : Data) (hG : 0 < dt.G) (c : Proposal.Cfg) (hα : 0 < c.α)
    (hop0 : 0 ≤ c.op) (hop1 : c.op < 1) (first last : Bool) (p : T) (i : ℕ)
    (hp : Good dt p.f p.out) (hi : GoodIdx dt i) :
    ∀ tq ∈ Proposal.table dt c first p i,
      0 < tq.2 ∧ 0 < Proposal.pMargT dt c tq.1 ∧ 0 < Proposal.pOneT dt c tq.1 ∧
      0 < Proposal.incrWeight dt c first last p tq.1 tq.2 := by
  intro tq h
  have hall := Proposal.placements_good dt p i hp hi
  obtain ⟨hq, kt, hkt, hEq⟩ := Proposal.table_pos dt hG c hα hop0 hop1 first p i hall tq h
  have hgood := hall kt hkt
  rw [hEq] at hgood
  exact ⟨hq, Density.pMarg_pos dt hG c.α hα _ _ hgood, Density.pOne_pos dt hG c.α hα _ _ hgood,
    Proposal.incrWeight_pos dt hG c hα first last p tq.1 tq.2 hq hgood (fun _ => hp)⟩

/-- the hypotheses are satisfiable (`Proofs/C19Example.lean`: two data points on a 2-point grid, outlier
prior 1/2, parent state "data point 0 in one clone", placing data point 1), and the table the theorem
speaks about is not empty there (join the clone,
new top-level clone, new clone above the existing one, outlier) -/
example := weights_positive exData (by decide) ⟨.full, 1/10, 1, true⟩ (by norm_num) (by norm_num) (by norm_num)
  false true exParent 1 exGoodParent exGood1
example : (Proposal.table exData ⟨.full, 1/10, 1, true⟩ false exParent 1).length = 4 := by
  simp [Proposal.table, Proposal.placements, Proposal.splits, exParent, Orders.Forest.roots, Dist.categorical]

/-- Burn-in, main loop, thinning and time limit: for `thin ≥ 1`, `print_freq ≥ 1`, at least one
particle and *any* outcome of the timer comparisons the chain driver terminates without a failure,
the first recorded entry is the post-burn-in one (`iter = 0`), at most `1 + num_iters` entries are
recorded, no loop runs longer than asked, and as soon as `num_iters ≥ 1` the first main iteration is
executed and recorded as well. -/
theorem schedule_total (c : Cfg) (hth : 1 ≤ c.thin) (hpf : 1 ≤ c.printFreq) (hN : 1 ≤ c.numParticles)
    (stopB stopM : ℕ → Bool) :
    ∃ out, runSchedule c stopB stopM = .ok out ∧ out.iters.head? = some 0 ∧
      1 ≤ out.iters.length ∧ out.iters.length ≤ 1 + out.mainIters ∧
      out.burninIters ≤ c.burnin ∧ out.mainIters ≤ c.numIters ∧
      (1 ≤ c.numIters → 1 ≤ out.mainIters ∧ 2 ≤ out.iters.length) := by
  obtain ⟨b, eb, _, hb2⟩ := burninFrom_ok c.printFreq hpf stopB c.burnin 0
  obtain ⟨tr, m, em, _, hm2, hh, hl1, hl2, hfirst⟩ :=
    mainFrom_ok c.thin c.printFreq hth hpf stopM c.numIters 0 [0] (by simp)
  have hg : particlesGuard c = .ok () := by
    have : c.numParticles ≠ 0 := by omega
    simp [particlesGuard, this, pure, Except.pure]
  refine ⟨_, by simp [runSchedule, hg, eb, em, bind, Except.bind, pure, Except.pure]; rfl, ?_, ?_, ?_, ?_, ?_, ?_⟩
  · simpa using hh
  · simpa using hl1
  · simp at hl2 ⊢; omega
  · simp at hb2 ⊢; omega
  · simp at hm2 ⊢; omega
  · intro h1
    have := hfirst h1 (by simp)
    simp at this ⊢
    omega

example : runSchedule ⟨2, 5, 2, 100, 2, 1, -1, true⟩ (fun _ => false) (fun i => i == 2)
    = .ok ⟨2, 3, [0, 0, 2], 5, 0, 3⟩ := by decide

/-- Without a time limit exactly the thinned schedule is recorded: the post-burn-in entry, then
every iteration `i < num_iters` with `i % thin = 0`; all burn-in and main iterations run. -/
theorem schedule_untimed (c : Cfg) (hth : 1 ≤ c.thin) (hpf : 1 ≤ c.printFreq) (hN : 1 ≤ c.numParticles) :
    ∃ out, runSchedule c (fun _ => false) (fun _ => false) = .ok out ∧
      out.iters = 0 :: (List.range c.numIters).filter (fun i => i % c.thin = 0) ∧
      out.burninIters = c.burnin ∧ out.mainIters = c.numIters := by
  have hg : particlesGuard c = .ok () := by
    have : c.numParticles ≠ 0 := by omega
    simp [particlesGuard, this, pure, Except.pure]
  refine ⟨_, by
    simp [runSchedule, hg, burninFrom_never c.printFreq hpf, mainFrom_never c.thin c.printFreq hth hpf,
      bind, Except.bind, pure, Except.pure]; rfl, ?_, ?_, ?_⟩
  · simp
  · simp
  · simp

example : runSchedule ⟨1, 7, 3, 1, 1, 0, 0, false⟩ (fun _ => false) (fun _ => false)
    = .ok ⟨1, 7, [0, 0, 3, 6], 0, 0, 0⟩ := by decide

/-- The chain with its wall clock (`with timer:` semantics, any positive or zero durations, any time
limit including 0 and `inf`): every guard of the skeleton passes for every option combination the
command line accepts (`thin`, `print_freq`, particle count from 1). -/
theorem run_guards_ok (c : Cfg) (hth : 1 ≤ c.thin) (hpf : 1 ≤ c.printFreq) (hN : 1 ≤ c.numParticles)
    (maxT : Option ℚ) (dB dM : ℕ → ℚ) :
    ∃ out, runTimed c maxT dB dM = .ok out ∧ out.iters.head? = some 0 ∧ out.iters.length ≤ 1 + c.numIters := by
  have hg : particlesGuard c = .ok () := by
    have : c.numParticles ≠ 0 := by omega
    simp [particlesGuard, this, pure, Except.pure]
  obtain ⟨b, eb, _, _⟩ := burninFrom_ok c.printFreq hpf (stopBurnin maxT dB) c.burnin 0
  obtain ⟨out, e, h0, _, h2, _, h4, _⟩ :=
    schedule_total c hth hpf hN (stopBurnin maxT dB) (stopMain maxT (RunLoop.sumTo dB b) dM)
  exact ⟨out, by simp [runTimed, hg, eb, e, bind, Except.bind], h0, by omega⟩

/-- time limit 0, unit durations: the first comparison of the burn-in sees `0 > 0` (false), the
second `1 > 0`; the main loop stops after its first iteration -/
example : stopBurnin (some 0) (fun _ => 1) 0 = false ∧ stopBurnin (some 0) (fun _ => 1) 1 = true ∧
    stopMain (some 0) 2 (fun _ => 1) 0 = true := by
  norm_num [stopBurnin, stopMain, RunLoop.sumTo]
example : runSchedule ⟨2, 5, 2, 100, 2, 1, 2, true⟩ (fun i => i == 1) (fun _ => true)
    = .ok ⟨2, 1, [0, 0], 3, 6, 1⟩ := by decide
example := run_guards_ok ⟨2, 5, 2, 100, 2, 1, 2, true⟩ (by decide) (by decide) (by decide) (some 0) (fun _ => 1) (fun _ => 1)

/-! ## The recorded trees: complete, well formed, finite density

`RunOK.Holds c D x` — *`x` is a complete well-formed tree on the data points `D`*: `PG.WFT c x`
(canonical form, no empty clone, data indices pairwise distinct and below the sentinel of the canonical
order, no outlier when outlier modelling is off) and the data points of `x`, clones and outliers
together, are exactly `D` (`(x.f.all ++ x.out).Perm D`).  `RunOK.AllD P d` — every outcome the finite
distribution `d` *lists* satisfies `P` (also outcomes listed with probability 0).
`RunOK.Params` — the options of a run the sampler models depend on; `p.run α`, `p.mv α` are the
configurations of the SMC samplers and of the auxiliary moves under the concentration value `α`
(`run.py:setup_kernel`, `setup_samplers`: the data-point move uses the outlier set iff outlier
modelling is on). -/

open PhyModel.RunOK PhyModel.Store PhyModel.Store.Store PhyModel.TraceLoop in
/-- **(a) Every sampler model of a sweep maps complete well-formed trees to complete well-formed
trees.**  For every data set, proposal kind, outlier setting, particle count (0 included: the swarm is
then empty and nothing is listed), threshold and concentration value, and every well-formed tree `x`
holding the data points `D`: every tree listed by the whole-tree particle-Gibbs update `SMC.pgStep`, by
the burn-in sampler `SMC.smcStep`, by the data-point move `Moves.dataPointMove`, by the prune-regraft
move `Moves.pruneRegraft` and by the random-subtree update `Moves.subtreeMove` (its fallback to the
whole-tree update when every data point is an outlier included) is a well-formed tree holding `D`: no
data point is lost or duplicated, no clone is left empty, no outlier appears when outlier modelling is
off. -/
theorem support_complete_wf (p : Params) (α : ℚ) (D : List ℕ) (x : T) (hx : Holds p.c D x) :
    AllD (Holds p.c D) (SMC.pgStep (p.run α) x) ∧ AllD (Holds p.c D) (SMC.smcStep (p.run α) x) ∧
    AllD (Holds p.c D) (Moves.dataPointMove (p.mv α) x) ∧ AllD (Holds p.c D) (Moves.pruneRegraft (p.mv α) x) ∧
    AllD (Holds p.c D) (Moves.subtreeMove (p.run α) x) :=
  support_complete_wf_proof p α hx

/-- non-vacuity (`Proofs/RunOKExample.lean`: the two-point data set, semi-adapted proposal, outliers
on, two particles): the single-clone tree is complete and well formed, and the samplers do list other
trees — the burn-in sampler lists "0 above 1", particle Gibbs moves data point 1 of the two-clone tree
to the outliers, prune-regraft moves a clone to the top level -/
example : RunOK.Holds RunOK.Ex.exP.c [0, 1] RunOK.Ex.x0 ∧
    RunOK.Listed (SMC.smcStep (RunOK.Ex.exP.run 1) RunOK.Ex.x0) RunOK.Ex.xA ∧
    RunOK.Listed (SMC.pgStep (RunOK.Ex.exP.run 1) RunOK.Ex.xC) RunOK.Ex.xD ∧
    RunOK.Listed (Moves.pruneRegraft (RunOK.Ex.exP.mv 1) RunOK.Ex.xA) RunOK.Ex.xC :=
  ⟨RunOK.single_holds _ (by simp) (by decide) (by decide), RunOK.Ex.smc_lists, RunOK.Ex.pg_lists,
    RunOK.Ex.pr_lists.1⟩

open PhyModel.RunOK in
/-- **(b), (c) Every state of a run is a complete well-formed tree with a finite `log_p_one`.**
`ChainOut p sched x0 y`: `y` is reached from `x0` by the sweeps of the schedule `sched` — each a
burn-in sweep (`SMC.smcStep`) or a main sweep (`SMC.pgStep` or `Moves.subtreeMove`), followed by
`num_samples_data_point` data-point moves and `num_samples_prune_regraph` prune-regraft moves, under
its own concentration value — for *some* outcome of every draw.  For a data set with positive
likelihoods and outlier priors in `[0,1)` (C03 `PosData`) and any start tree that is complete and well
formed on data points of the data set — in particular `Tree.get_single_node_tree`, `single D` — every
such `y` is complete and well formed on the same data, and `pOne` of it is positive under every
positive concentration value. -/
theorem run_states_ok (p : Params) (hd : C03.PosData p.dt) (D : List ℕ) (hD : ∀ i ∈ D, i < p.dt.n)
    (x0 : T) (h0 : Holds p.c D x0) (sched : List (Phase × ℚ)) (y : T) (h : ChainOut p sched x0 y) :
    Holds p.c D y ∧ ∀ α : ℚ, 0 < α → 0 < Density.pOne p.dt α y.f y.out := by
  have hy := chain_holds p sched x0 y h0 h
  refine ⟨hy, fun α hα => C03.pOne_pos p.dt hd hα y.f y.out ?_⟩
  intro i hi
  exact hD i (hy.perm.subset hi)

open PhyModel.RunOK in
/-- the start tree of `run_phyclone_chain`: all data points in one clone -/
theorem run_start_ok (c : Proposal.Cfg) (D : List ℕ) (hne : D ≠ []) (hnd : D.Nodup)
    (hbig : ∀ a ∈ D, a < Orders.Forest.big) : Holds c D (single D) :=
  single_holds c hne hnd hbig

open PhyModel.RunOK PhyModel.Store in
/-- the start store of a chain: any store built from the empty tree `Tree(grid_size)` by a history of
legal edits within the data set (as `Tree.get_single_node_tree` does: `create_root_node`, then the data
points one by one) satisfies the store invariants — C07 `inv_run`, C06 `cacheOK_run_legal` -/
theorem run_start_store_ok (dt : Data) (hd : C03.PosData dt) (s0 : Store)
    (h : LegalFrom dt (Store.init dt) s0) : C15.Inv dt s0 :=
  sinv_of_legalFrom (fun i s k hi hs hk => ne_of_gt (hd.L_pos i s k hi hs hk)) (sinv_init dt) h

theorem exData_pos : C03.PosData exData where
  G_pos := by decide
  L_pos := by
    intro i s k hi hs hk
    simp only [exData, Data.n, List.length] at hi hs hk
    interval_cases i <;> interval_cases s <;> interval_cases k <;>
      norm_num [exData, Data.L, getQ]
  op_range := by
    intro i hi
    simp only [exData, Data.n, List.length] at hi
    interval_cases i <;> norm_num [exData, Data.opOf]

/-- non-vacuity: the start store of the example is one `create_root_node` away from the empty tree and
represents the single-clone tree -/
example : C15.Inv exData RunOK.Ex.s0 ∧ RunOK.absT RunOK.Ex.s0 = RunOK.single [0, 1] :=
  ⟨run_start_store_ok exData exData_pos RunOK.Ex.s0 RunOK.Ex.legal0, by decide +kernel⟩

/-- non-vacuity: a burn-in sweep and a main sweep from the single-clone tree of the two-point data set
end in "clone {0}, data point 1 an outlier" -/
example : RunOK.ChainOut RunOK.Ex.exP [(.burnin, 1), (.main, 1)] (RunOK.single [0, 1]) RunOK.Ex.xD := by
  have e0 : RunOK.single [0, 1] = RunOK.Ex.x0 := by decide +kernel
  rw [e0]
  refine ⟨RunOK.Ex.xC, ?_, RunOK.Ex.xD, ?_, rfl⟩
  · have := RunOK.Ex.sweepB
    rwa [RunOK.Ex.abs0, RunOK.Ex.absB] at this
  · have := RunOK.Ex.sweepM
    rwa [RunOK.Ex.abs1, RunOK.Ex.absM] at this
example := run_states_ok RunOK.Ex.exP exData_pos [0, 1] (by decide) (RunOK.single [0, 1])
  (run_start_ok _ [0, 1] (by simp) (by decide) (by decide))

open PhyModel.RunOK PhyModel.Store PhyModel.Store.Store PhyModel.TraceLoop in
/-- **The recorded trace.**  `TraceLoop.runMain` (C15) is the stateful main loop of
`_run_main_sampler`: it carries the store (the model of `phyclone.tree.Tree`) and the concentration
value; samplers, concentration draw, clock and time-limit comparison are oracles.  `burnState mvB b`
is the store after `b` burn-in iterations.  Hypotheses:

* the data set has positive likelihoods and outlier priors in `[0,1)` (C03 `PosData`);
* the start store satisfies the store invariants (`C15.Inv`: C07 `WF`, `Full`, `Aligned`, C06 `CacheOK`)
  and represents (`absT`: forget names, graph indices, caches) a complete well-formed tree on
  `0 .. n-1`;
* **the sampler oracle is instantiated by an element of the support of the sweep model**
  (`RealisesAt`), in each of the `b` burn-in iterations and each of the `num_iters` main iterations,
  at the store the chain is in: the store it returns is one of the live trees of a history of edits
  started from the current store, each edit `Legal` where it is applied (C07: what the samplers
  compose) and within the data set; and the tree it represents is listed by the sweep model
  (`SweepOut`: burn-in `SMC.smcStep`, main `SMC.pgStep` or `Moves.subtreeMove`; then the data-point and
  prune-regraft moves) for the tree the current store represents, under some concentration value;
* the concentration oracle returns positive values (the Gamma draw, floored at `1e-10`: C13).

Conclusion, for every thinning interval, time limit outcome, concentration update on or off: every
entry of the trace restores with `Tree.from_dict` to a store that satisfies the store invariants again,
lists every data point `0 .. n-1` exactly once (`dataCompleteB`), represents a complete well-formed
tree, and whose `log_p_one` under the entry's recorded concentration value is the entry's recorded
value — which is positive, i.e. finite in the log domain.  (That the *real* samplers satisfy `RealisesAt`
is not an obligation of any model: it is the trusted correspondence — the exact transition rows of the five
real samplers are compared with these very models by the checks of C01 / C04, their edits with the store
model by C06 / C07 / C15.)  Used: C07 `inv_run` (legal histories keep
`WF`, `Full`, `Aligned`), C06 `cacheOK_run_legal` and `pOneC_eq` (the cached density is the rebuilt one),
C15 `mkEntry_restores` (round trip), C03 positivity, and `support_complete_wf`. -/
theorem run_entries_ok (p : Params) (hd : C03.PosData p.dt)
    (s0 : Store) (h0 : C15.Inv p.dt s0) (h0' : Holds p.c (List.range p.dt.n) (absT s0))
    (mvB : ℕ → Store → Store) (b : ℕ) (hB : ∀ i, i < b → RealisesAt p .burnin mvB i (burnState mvB i s0))
    (o : Oracles) (hconc : ∀ i α s, 0 < α → 0 < o.conc i α s) (α0 : ℚ) (hα0 : 0 < α0) (cu : Bool)
    (thin numIters : ℕ)
    (hM : ∀ k, k < numIters → RealisesAt p .main o.moves k (stateAt o cu ⟨burnState mvB b s0, α0⟩ k).tree) :
    ∀ e ∈ (runMain p.dt o cu thin numIters ⟨burnState mvB b s0, α0⟩).1,
      ∃ s', fromDict p.dt e.tree = some s' ∧ C15.Inv p.dt s' ∧ dataCompleteB p.dt.n s' = true ∧
        Holds p.c (List.range p.dt.n) (absT s') ∧ pOneC p.dt e.alpha s' = e.logPOne ∧ 0 < e.logPOne :=
  run_entries_ok_proof p hd.G_pos hd.L_pos hd.op_range s0 ⟨h0, h0'⟩ mvB b hB o hconc α0 hα0 cu thin numIters hM

/-- non-vacuity (`Proofs/RunOKExample.lean`): one burn-in and one main iteration on the two-point data
set, the oracles building their stores by legal edits on a fresh handle; every hypothesis holds, the
trace has two entries, and they record different trees with different densities -/
example := run_entries_ok RunOK.Ex.exP exData_pos RunOK.Ex.s0 RunOK.Ex.sinv0 RunOK.Ex.holds0 RunOK.Ex.mvB 1
  RunOK.Ex.realB RunOK.Ex.exO (fun _ _ _ _ => by norm_num [RunOK.Ex.exO]) 1 one_pos true 1 1 RunOK.Ex.realM
example : ((TraceLoop.runMain exData RunOK.Ex.exO true 1 1 ⟨RunOK.burnState RunOK.Ex.mvB 1 RunOK.Ex.s0, 1⟩).1.map
      fun e => (e.iter, e.alpha, RunOK.absT ((Store.Store.fromDict exData e.tree).getD RunOK.Ex.s0)))
    = [(0, 1, RunOK.Ex.xC), (0, 2, RunOK.Ex.xD)] := by decide +kernel

-- OBLIGATION-OPEN run_ok: full statement "for every valid data set and every CLI-accepted option combination run_phyclone_chain returns a trace whose entries are well-formed trees over all data with finite log_p_one" — on the models every clause is now proved (guards of the run loop and of the swarm code: resample_index_ok … run_guards_ok; completeness / well-formedness / finite density of every reachable state and every recorded entry: support_complete_wf, run_states_ok, run_entries_ok, composing C03, C06, C07, C15); what remains is outside any model: exceptions raised inside rustworkx / numpy / numba / scipy (including the `_update_path_to_root` and cache asserts that guard their results), float underflow of log-weights to -inf on large inputs (the models use exact rationals, where a positive weight never rounds to 0), and OS-level failures (memory, process pool, file system, clock); these are explored on the real code by the boundary cross-product and the CLI boundary cases of the check

end PhyModel.Props.C19
