import PhyModel.Proofs.ConcDensity
import PhyModel.Proofs.ConcModel
import PhyModel.Proofs.ConcGibbs
import PhyModel.Proofs.ConcGibbsMeasure
/-! # C13 — the concentration update is an exact Gibbs step for the CRP concentration

Property theorems only; helper lemmas live in `Proofs/ConcDensity.lean` (real analysis, Mathlib's
`gammaPDFReal`, `betaPDFReal`, `beta`), `Proofs/GibbsTwoStage.lean` (abstract measure theory: two-stage
Gibbs invariance for densities on a product of s-finite measure spaces), `Proofs/ConcGibbs.lean`,
`Proofs/ConcGibbsMeasure.lean` (measurability / normalisation of the Beta and Gamma-mixture densities)
and `Proofs/ConcModel.lean` (the import-free model `Model/Conc.lean`).

What is proved here, for all `a, b > 0`, `α > 0`, `1 ≤ K ≤ n` (only `1 ≤ K`, `1 ≤ n` are needed),
every value `η ∈ (0,1)` of the auxiliary variable:

* `conc_params` — the parameters the model (= the code, by the correspondence check) hands to the
  three draws are those of the property text;
* `mixture_density_identity` — the two-component Gamma mixture has density
  `C · x^(a+K-2) (x+n) e^{-x (b - log η)}`, `C` free of `x`;
* `eta_conditional`, `alpha_conditional` — the joint density
  `joint(x, η) = Gamma(a,b)(x) · x^(K-1) (x+n) η^x (1-η)^(n-1)` is, in `η`, a multiple of the
  Beta(x+1, n) density and, in `x`, a multiple of that mixture density: the two draws of the update
  are the two exact conditionals of `joint`;
* `eta_marginal` — `∫₀¹ joint(x, η) dη = Γ(n) · Gamma(a,b)(x) x^K Γ(x)/Γ(x+n)`, the (unnormalised)
  conditional posterior of the concentration given `K` clones and `n` data points;
* `eta_marginal_lintegral`, `eta_conditional_density`, `alpha_conditional_density` — the same three
  facts in `ℝ≥0∞` / `∫⁻` form, as the objects of `GibbsTwoStage.gibbs_two_stage`: the marginal
  `mX(x) = ∫⁻ joint(x, ·) = Γ(n) target(x)`, the quotient `c1 = joint / mX` is `betaPDF (x+1) n`, the
  quotient `c2 = joint / mY` is the mixture density;
* `conc_gibbs` — **the update is an exact Gibbs step**: the kernel
  `x ↦ (η ~ Beta(x+1, n); x' ~ π(η) Gamma(a+K, b - log η) + (1-π(η)) Gamma(a+K-1, b - log η))`
  leaves the measure with density `target a b K n` on `(0, ∞)` invariant, in the form
  `∫ target(x) ∫ Beta(x+1,n)(η) ∫ mixture(η)(x') f(x') dx' dη dx = ∫ target(x') f(x') dx'` for every
  measurable `f : ℝ → [0, ∞]`.  It is the instance of `GibbsTwoStage.gibbs_two_stage_real` (Tonelli
  twice) at `eta_conditional`, `alpha_conditional`, `eta_marginal`;
* `conc_gibbs_measure`, `conc_gibbs_set` — the same with Mathlib's `betaMeasure`, `gammaMeasure`:
  `∫ P(x' ∈ A | x) dposterior(x) = posterior(A)` for every measurable `A`, where
  `posterior = posteriorMeasure a b K n` has density `target`; `posterior_finite_pos` — that measure
  has finite non-zero total mass, so the normalised posterior exists and is invariant too
  (the identity is homogeneous in `target`);
* `kn_from_tree` — `K` = number of clones, `n` = number of data points not in the outlier set;
* `value_in_force` — in the run loop, every trace entry records the value returned by that
  iteration's update and its density was evaluated with the same value.

Remark (packaging, not an open obligation): the transition kernel is written as the iterated integral
`x ↦ ∫ mixtureMeasure η dBeta(x+1, n)(η)`, not as a Mathlib `ProbabilityTheory.Kernel` composed with
`Measure.bind` — that needs measurability of `x ↦ betaMeasure (x+1) n`, hence of `Real.Gamma`, which
Mathlib does not provide yet.

-- OBLIGATION-OPEN conc_floor: the code floors the Gamma draw at 1e-10 (`Conc.finish`, both branches); all statements here are about the uncensored draw — known finding F12 for 1 <= K

The floating-point evaluation, `np.log`, and scipy's samplers are outside the model. -/

open Real ProbabilityTheory MeasureTheory Set

namespace PhyModel.Props.C13
open PhyModel PhyModel.Conc PhyModel.ConcDensity

/-- Escobar–West joint density of (concentration `x`, auxiliary `η`) given `K` clones and `n` data
points under a Gamma(`a`, rate `b`) prior: `prior(x) x^(K-1) (x+n) η^x (1-η)^(n-1)` -/
noncomputable def joint (a b : ℝ) (K n : ℕ) (x η : ℝ) : ℝ :=
  gammaPDFReal a b x * x ^ ((K : ℝ) - 1) * (x + n) * η ^ x * (1 - η) ^ ((n : ℝ) - 1)

/-- unnormalised conditional posterior of the concentration given `K`, `n` (Antoniak):
`prior(x) x^K Γ(x)/Γ(x+n)` -/
noncomputable def target (a b : ℝ) (K n : ℕ) (x : ℝ) : ℝ :=
  gammaPDFReal a b x * (x ^ (K : ℝ) * Gamma x / Gamma (x + n))

/-- the Escobar–West mixture weight from its odds `(a+K-1)/(n (b - log η))` -/
noncomputable def weight (a b : ℝ) (K n : ℕ) (η : ℝ) : ℝ :=
  ((a + K - 1) / (n * (b - log η))) / (1 + (a + K - 1) / (n * (b - log η)))

/-- **Parameters of the draws.**  For a sampler built with `(a, b)`, current value `α`, `K ≥ 1`
clones holding `n ≥ 1` points, Beta draw `η` (`L = -log η ≥ 0`) and Bernoulli outcome `bern`, the
model produces the mixture branch with: Beta(α+1, n); weight `π ∈ (0,1)` with odds
`π/(1-π) = (a+K-1)/(n(b - log η))`; Gamma shape `a+K` or `a+K-1`; scale `1/(b - log η)`. -/
theorem conc_params (a b α L : ℚ) (K n : ℕ) (bern : Bool) (ha : 0 < a) (hb : 0 < b) (hL : 0 ≤ L)
    (hK : 1 ≤ K) (hn : 1 ≤ n) :
    ∃ m : Mix, plan a b α K n L bern = some (.mix m) ∧
      m.betaA = α + 1 ∧ m.betaB = n ∧ m.rate = b + L ∧
      0 < m.pi ∧ m.pi < 1 ∧ m.pi / (1 - m.pi) = (a + K - 1) / (n * (b + L)) ∧
      m.shape = (if bern then a + K else a + K - 1) ∧ m.scale = 1 / (b + L) := by
  have ho := odds_pos (K := K) (n := n) ha hb hL hK hn
  have hr : 0 < rate b L := by unfold rate; linarith
  have h1 : (1 : ℚ) + odds a b L K n ≠ 0 := by positivity
  refine ⟨Mix.mk (α + 1) n (rate b L) (odds a b L K n) (piOf (odds a b L K n)) (shapeOf a K bern)
    (1 / rate b L), ?_, rfl, rfl, rfl, ?_, ?_, ?_, ?_, rfl⟩
  · unfold plan
    rw [if_neg (by omega), if_neg]
    push Not
    exact ⟨by omega, hr.ne', h1⟩
  · show 0 < piOf _
    unfold piOf; positivity
  · show piOf _ < 1
    unfold piOf
    rw [div_lt_one (by positivity)]; linarith
  · show piOf _ / (1 - piOf _) = _
    unfold piOf
    have : odds a b L K n = (a + K - 1) / (n * (b + L)) := rfl
    rw [← this]
    field_simp
    ring
  · show shapeOf a K bern = _
    unfold shapeOf shape0
    cases bern <;> simp

/-- `K = 0` (every data point an outlier; outside the property's quantifier, recorded for
completeness): one draw from the prior. -/
theorem conc_params_zero (a b α L : ℚ) (n : ℕ) (bern : Bool) :
    plan a b α 0 n L bern = some (.prior a (1 / b)) := by
  simp [plan]

/-- **Mixture density identity.**  For `x > 0` the mixture
`π Gamma(a+K, r) + (1-π) Gamma(a+K-1, r)`, `r = b - log η`, `π/(1-π) = (a+K-1)/(n r)`, has density
`C · x^(a+K-2) (x+n) e^{-x r}` with `C > 0` independent of `x`. -/
theorem mixture_density_identity (a b η : ℝ) (K n : ℕ) (ha : 0 < a) (hb : 0 < b) (hK : 1 ≤ K)
    (hn : 1 ≤ n) (h0 : 0 < η) (h1 : η < 1) :
    ∃ C : ℝ, 0 < C ∧ ∀ x : ℝ, 0 < x →
      weight a b K n η * gammaPDFReal (a + K) (b - log η) x
        + (1 - weight a b K n η) * gammaPDFReal (a + K - 1) (b - log η) x
      = C * x ^ (a + K - 2) * (x + n) * exp (-(x * (b - log η))) := by
  have hlog : log η < 0 := log_neg h0 h1
  have hr : 0 < b - log η := by linarith
  have hK' : (1 : ℝ) ≤ K := by exact_mod_cast hK
  have hn' : (0 : ℝ) < n := by exact_mod_cast hn
  have hs : 0 < a + K - 1 := by linarith
  refine ⟨mixConst (a + K - 1) (b - log η) n, mixConst_pos hs hr hn', fun x hx => ?_⟩
  have := mix_identity hs hr hn' hx
  unfold mixPDF at this
  rw [show a + (K : ℝ) - 1 + 1 = a + K by ring, show a + (K : ℝ) - 1 - 1 = a + K - 2 by ring,
    mul_comm (b - log η) x] at this
  exact this

/-- **The Beta draw is the exact conditional of `η`.**  As a function of `η ∈ (0,1)` the joint is
`Z ·` the Beta(x+1, n) density, `Z` independent of `η`. -/
theorem eta_conditional (a b x : ℝ) (K n : ℕ) (hx : 0 < x) (hn : 1 ≤ n) :
    ∃ Z : ℝ, ∀ η : ℝ, 0 < η → η < 1 → joint a b K n x η = Z * betaPDFReal (x + 1) n η := by
  have hn' : (0 : ℝ) < n := by exact_mod_cast hn
  refine ⟨gammaPDFReal a b x * x ^ ((K : ℝ) - 1) * (x + n) * beta (x + 1) n, fun η h0 h1 => ?_⟩
  unfold joint
  exact joint_eta hx hn' h0 h1

/-- **The mixture draw is the exact conditional of the concentration.**  As a function of `x > 0`
the joint is `D ·` the mixture density with the Escobar–West weight, shapes `a+K`, `a+K-1` and rate
`b - log η`; `D` independent of `x`. -/
theorem alpha_conditional (a b η : ℝ) (K n : ℕ) (ha : 0 < a) (hb : 0 < b) (hK : 1 ≤ K)
    (hn : 1 ≤ n) (h0 : 0 < η) (h1 : η < 1) :
    ∃ D : ℝ, ∀ x : ℝ, 0 < x → joint a b K n x η =
      D * (weight a b K n η * gammaPDFReal (a + K) (b - log η) x
        + (1 - weight a b K n η) * gammaPDFReal (a + K - 1) (b - log η) x) := by
  have hK' : (1 : ℝ) ≤ K := by exact_mod_cast hK
  have hn' : (0 : ℝ) < n := by exact_mod_cast hn
  refine ⟨b ^ a / Gamma a * (1 - η) ^ ((n : ℝ) - 1) / mixConst (a + K - 1) (b - log η) n,
    fun x hx => ?_⟩
  have := joint_alpha ha hb hK' hn' h0 h1 hx
  unfold mixPDF at this
  rw [show a + (K : ℝ) - 1 + 1 = a + K by ring] at this
  exact this

/-- **Marginal.**  Integrating the auxiliary variable out of the joint gives `Γ(n)` times the
conditional posterior kernel of the concentration given `K` and `n`. -/
theorem eta_marginal (a b x : ℝ) (K n : ℕ) (hx : 0 < x) (hn : 1 ≤ n) :
    ∫ η in Ioo (0 : ℝ) 1, joint a b K n x η = Gamma n * target a b K n x := by
  have hn' : (0 : ℝ) < n := by exact_mod_cast hn
  unfold joint target
  rw [joint_eta_integral hx hn', mul_assoc _ (x + (n : ℝ)), mul_comm (x + (n : ℝ)),
    beta_succ_mul hx hn']
  have : x ^ (K : ℝ) = x ^ ((K : ℝ) - 1) * x := by
    rw [← rpow_add_one hx.ne']; congr 1; ring
  rw [this]; ring

/-- **K and n from the tree.**  For a tree `(f, outs)` on the data points `0 … N-1`, whatever the
presence of the outlier key in `node_data`, `update_concentration_value` passes `K` = the number of
clones and `n` = the number of data points that are not in the outlier set. -/
theorem kn_from_tree (f : DF) (outs : List ℕ) (hasOutKey : Bool) (N : ℕ)
    (h : (f.all ++ outs).Perm (List.range N)) :
    kn f outs hasOutKey
      = (Orders.Forest.nodes f, ((List.range N).filter fun i => i ∉ outs).length) := by
  rw [kn_eq, all_length_eq_filter f outs N h]

/-- **The new value is the one in force.**  With the update on, the trace consists of the set-up
entry (initial value) followed by one entry per iteration `i` with `i % thin = 0`; each loop entry
records the value returned by *that* iteration's `sample()` call, and its density (`used`) was
evaluated with the same value. -/
theorem value_in_force (thin : ℕ) (init : ℚ) (draws : List ℚ) :
    (runTrace true thin init draws).map Entry.iter
        = 0 :: (List.range draws.length).filter (fun i => i % thin = 0)
    ∧ (runTrace true thin init draws).head? = some ⟨0, init, init⟩
    ∧ ∀ e ∈ (runTrace true thin init draws).tail,
        e.used = e.alpha ∧ draws[e.iter]? = some e.alpha := by
  refine ⟨?_, rfl, ?_⟩
  · simp [runTrace, loop_iters, entry, List.range_eq_range']
  · intro e he
    have := loop_true_spec thin draws 0 _ e (by simpa [runTrace] using he)
    exact ⟨this.1, by simpa using this.2.2.2⟩

/-- with the update off the value never changes -/
theorem value_in_force_off (thin : ℕ) (init : ℚ) (draws : List ℚ) :
    ∀ e ∈ runTrace false thin init draws, e.alpha = init ∧ e.used = init := by
  intro e he
  rcases List.mem_cons.mp he with rfl | he
  · exact ⟨rfl, rfl⟩
  · have := loop_false_spec thin draws 0 _ e he
    exact ⟨this.2, this.1⟩

/-- **C13, the ingredients at the model's parameters.**  For the model's inputs (`a, b, α` rational, `L = -log η > 0`
rational, i.e. `η = e^{-L}`), `1 ≤ K`, `1 ≤ n`: the model takes the mixture branch with parameters
`m`, and, over the reals,
 (i)   the Beta draw with the model's parameters is the exact `η`-conditional of `joint` at `α`;
 (ii)  the Gamma mixture with the model's weight `m.pi`, shapes `a+K` / `a+K-1` (of which
       `m.shape` is the one selected by the Bernoulli outcome) and rate `m.rate = 1/m.scale` is the
       exact conditional of the concentration given `η`, with density `∝ x^(a+K-2)(x+n)e^{-x m.rate}`;
 (iii) the `η`-marginal of `joint` is `Γ(n) ·` the conditional posterior kernel `target`.
The invariance statement built from these ingredients is `conc_gibbs` below. -/
theorem conc_gibbs_partial (a b α L : ℚ) (K n : ℕ) (bern : Bool) (ha : 0 < a) (hb : 0 < b)
    (hα : 0 < α) (hL : 0 < L) (hK : 1 ≤ K) (hn : 1 ≤ n) :
    ∃ m : Mix, plan a b α K n L bern = some (.mix m) ∧
      (∃ Z : ℝ, ∀ η : ℝ, 0 < η → η < 1 →
        joint a b K n α η = Z * betaPDFReal m.betaA m.betaB η) ∧
      (∃ D C : ℝ, 0 < C ∧ ∀ x : ℝ, 0 < x →
        joint a b K n x (exp (-(L : ℝ)))
          = D * ((m.pi : ℝ) * gammaPDFReal (a + K) m.rate x
              + (1 - (m.pi : ℝ)) * gammaPDFReal (a + K - 1) m.rate x) ∧
        (m.pi : ℝ) * gammaPDFReal (a + K) m.rate x
              + (1 - (m.pi : ℝ)) * gammaPDFReal (a + K - 1) m.rate x
          = C * x ^ ((a : ℝ) + K - 2) * (x + n) * exp (-(x * m.rate))) ∧
      ((m.shape : ℝ) = if bern then (a : ℝ) + K else (a : ℝ) + K - 1) ∧
      (m.scale : ℝ) = 1 / (m.rate : ℝ) ∧
      (∫ η in Ioo (0 : ℝ) 1, joint a b K n α η) = Gamma n * target a b K n α := by
  obtain ⟨m, hm, hA, hB, hR, -, -, hodds, hsh, hsc⟩ := conc_params a b α L K n bern ha hb hL.le hK hn
  have ha' : (0 : ℝ) < a := by exact_mod_cast ha
  have hb' : (0 : ℝ) < b := by exact_mod_cast hb
  have hα' : (0 : ℝ) < α := by exact_mod_cast hα
  have hL' : (0 : ℝ) < L := by exact_mod_cast hL
  have h0 : 0 < exp (-(L : ℝ)) := exp_pos _
  have h1 : exp (-(L : ℝ)) < 1 := by rw [exp_lt_one_iff]; linarith
  have hrate : (m.rate : ℝ) = (b : ℝ) - log (exp (-(L : ℝ))) := by
    rw [log_exp, hR]; push_cast; ring
  -- the model's weight is the Escobar–West weight at η = e^{-L}
  have hpi : (m.pi : ℝ) = weight a b K n (exp (-(L : ℝ))) := by
    have hm' : m.pi = piOf (odds a b L K n) := by
      unfold plan at hm
      rw [if_neg (by omega)] at hm
      split at hm
      · exact absurd hm (by simp)
      · have := Option.some.inj hm
        injection this with this
        rw [← this]
    rw [hm']
    unfold weight piOf odds shape0 rate
    rw [log_exp]
    push_cast
    ring_nf
  refine ⟨m, hm, ?_, ?_, ?_, ?_, ?_⟩
  · obtain ⟨Z, hZ⟩ := eta_conditional a b α K n hα' hn
    refine ⟨Z, fun η e0 e1 => ?_⟩
    rw [hZ η e0 e1, hA, hB]; push_cast; rfl
  · obtain ⟨D, hD⟩ := alpha_conditional a b (exp (-(L : ℝ))) K n ha' hb' hK hn h0 h1
    obtain ⟨C, hC, hCx⟩ := mixture_density_identity a b (exp (-(L : ℝ))) K n ha' hb' hK hn h0 h1
    refine ⟨D, C, hC, fun x hx => ?_⟩
    rw [hpi, hrate]
    exact ⟨hD x hx, hCx x hx⟩
  · rw [hsh]; cases bern <;> simp
  · rw [hsc, hR]; push_cast; ring
  · exact eta_marginal a b α K n hα' hn

/-- **The marginal as a Lebesgue integral** (`mX` of `GibbsTwoStage`): for `x > 0`,
`∫⁻_{(0,1)} joint(x, η) dη = Γ(n) · target(x)` in `ℝ≥0∞`. -/
theorem eta_marginal_lintegral (a b x : ℝ) (K n : ℕ) (ha : 0 < a) (hb : 0 < b) (hx : 0 < x)
    (hn : 1 ≤ n) :
    ∫⁻ η in Ioo (0 : ℝ) 1, ENNReal.ofReal (joint a b K n x η)
      = ENNReal.ofReal (Gamma n * target a b K n x) := by
  have hn' : (0 : ℝ) < n := by exact_mod_cast hn
  obtain ⟨Z, hZ⟩ := eta_conditional a b x K n hx hn
  have hx1 : 0 < x + 1 := by linarith
  rw [← eta_marginal a b x K n hx hn]
  exact (GibbsTwoStage.ofReal_integral_of_factor (volume.restrict (Ioo (0 : ℝ) 1))
    (joint a b K n x) (betaPDFReal (x + 1) n)
    ((measurable_jointR a b K n).comp measurable_prodMk_left)
    (ae_restrict_of_forall_mem measurableSet_Ioo fun η hη =>
      jointR_nonneg ha hb hn' hx hη.1 hη.2)
    (ae_restrict_of_forall_mem measurableSet_Ioo fun η hη =>
      (betaPDFReal_pos hη.1 hη.2 hx1 hn').le)
    (lintegral_betaPDFReal_Ioo hx1 hn') Z
    (ae_restrict_of_forall_mem measurableSet_Ioo fun η hη => hZ η hη.1 hη.2)).symm

/-- **The first conditional density is the Beta density** (`c1` of `GibbsTwoStage.gibbs_two_stage`):
for `x > 0`, `η ∈ (0,1)`, `joint(x, η) / ∫⁻_{(0,1)} joint(x, ·) = betaPDF (x+1) n η`. -/
theorem eta_conditional_density (a b x η : ℝ) (K n : ℕ) (ha : 0 < a) (hb : 0 < b) (hx : 0 < x)
    (hn : 1 ≤ n) (h0 : 0 < η) (h1 : η < 1) :
    ENNReal.ofReal (joint a b K n x η) / ∫⁻ η in Ioo (0 : ℝ) 1, ENNReal.ofReal (joint a b K n x η)
      = betaPDF (x + 1) n η := by
  have hn' : (0 : ℝ) < n := by exact_mod_cast hn
  obtain ⟨Z, hZ⟩ := eta_conditional a b x K n hx hn
  have hx1 : 0 < x + 1 := by linarith
  exact GibbsTwoStage.quotient_eq_of_factor (volume.restrict (Ioo (0 : ℝ) 1))
    (joint a b K n x) (betaPDFReal (x + 1) n)
    (ae_restrict_of_forall_mem measurableSet_Ioo fun η hη =>
      jointR_nonneg ha hb hn' hx hη.1 hη.2)
    (ae_restrict_of_forall_mem measurableSet_Ioo fun η hη =>
      (betaPDFReal_pos hη.1 hη.2 hx1 hn').le)
    (lintegral_betaPDFReal_Ioo hx1 hn') Z
    (ae_restrict_of_forall_mem measurableSet_Ioo fun η hη => hZ η hη.1 hη.2)
    η (hZ η h0 h1) (jointR_pos ha hb hn' hx h0 h1) (betaPDFReal_pos h0 h1 hx1 hn').le

/-- **The second conditional density is the mixture density** (`c2` of
`GibbsTwoStage.gibbs_two_stage`): for `η ∈ (0,1)`, `x > 0`,
`joint(x, η) / ∫⁻_{(0,∞)} joint(·, η)` is the Escobar–West mixture density at `x`. -/
theorem alpha_conditional_density (a b x η : ℝ) (K n : ℕ) (ha : 0 < a) (hb : 0 < b) (hK : 1 ≤ K)
    (hn : 1 ≤ n) (h0 : 0 < η) (h1 : η < 1) (hx : 0 < x) :
    ENNReal.ofReal (joint a b K n x η) / ∫⁻ x in Ioi (0 : ℝ), ENNReal.ofReal (joint a b K n x η)
      = ENNReal.ofReal (weight a b K n η * gammaPDFReal (a + K) (b - log η) x
          + (1 - weight a b K n η) * gammaPDFReal (a + K - 1) (b - log η) x) := by
  have hK' : (1 : ℝ) ≤ K := by exact_mod_cast hK
  have hn' : (0 : ℝ) < n := by exact_mod_cast hn
  obtain ⟨D, hD⟩ := alpha_conditional a b η K n ha hb hK hn h0 h1
  exact GibbsTwoStage.quotient_eq_of_factor (volume.restrict (Ioi (0 : ℝ)))
    (fun x => joint a b K n x η) (mixR a b K n η)
    (ae_restrict_of_forall_mem measurableSet_Ioi fun x hx => jointR_nonneg ha hb hn' hx h0 h1)
    (ae_of_all _ (mixR_nonneg ha hb hK' hn' h0 h1))
    (lintegral_mixR_Ioi ha hb hK' hn' h0 h1) D
    (ae_restrict_of_forall_mem measurableSet_Ioi fun x hx => hD x hx)
    x (hD x hx) (jointR_pos ha hb hn' hx h0 h1) (mixR_nonneg ha hb hK' hn' h0 h1 x)

/-- **C13: the update is an exact Gibbs step.**  For `a, b > 0`, `1 ≤ K`, `1 ≤ n`: if the
concentration `x` is distributed with density `target a b K n` w.r.t. Lebesgue measure on `(0, ∞)`,
`η` is drawn from Beta(`x+1`, `n`) and then `x'` from the mixture
`π Gamma(a+K, b - log η) + (1-π) Gamma(a+K-1, b - log η)` with the Escobar–West weight, then `x'` is
again distributed with density `target a b K n`.  Stated for every measurable test function
`f : ℝ → [0, ∞]` (`f` = indicator of a measurable set gives the statement about measures; `target`
is not normalised, the identity is homogeneous in it). -/
theorem conc_gibbs (a b : ℝ) (K n : ℕ) (ha : 0 < a) (hb : 0 < b) (hK : 1 ≤ K) (hn : 1 ≤ n)
    (f : ℝ → ENNReal) (hf : Measurable f) :
    ∫⁻ x in Ioi (0 : ℝ), ENNReal.ofReal (target a b K n x) *
        ∫⁻ η in Ioo (0 : ℝ) 1, betaPDF (x + 1) n η *
          ∫⁻ x' in Ioi (0 : ℝ),
            ENNReal.ofReal (weight a b K n η * gammaPDFReal (a + K) (b - log η) x'
              + (1 - weight a b K n η) * gammaPDFReal (a + K - 1) (b - log η) x') * f x'
      = ∫⁻ x in Ioi (0 : ℝ), ENNReal.ofReal (target a b K n x) * f x := by
  have hK' : (1 : ℝ) ≤ K := by exact_mod_cast hK
  have hn' : (0 : ℝ) < n := by exact_mod_cast hn
  have hG : 0 < Gamma n := Gamma_pos_of_pos hn'
  have key := GibbsTwoStage.gibbs_two_stage_real (volume.restrict (Ioi (0 : ℝ)))
    (volume.restrict (Ioo (0 : ℝ) 1)) (joint a b K n) (measurable_jointR a b K n)
    (fun x => Gamma n * target a b K n x) (fun x η => betaPDFReal (x + 1) n η)
    (mixR a b K n) (fun x => measurable_betaPDFReal _ _) (measurable_mixR a b K n)
    ?_ ?_ ?_ ?_ f hf
  · simp_rw [ENNReal.ofReal_mul hG.le, mul_assoc] at key
    rw [lintegral_const_mul' _ _ ENNReal.ofReal_ne_top,
      lintegral_const_mul' _ _ ENNReal.ofReal_ne_top] at key
    exact (ENNReal.mul_right_inj (by simpa using hG) ENNReal.ofReal_ne_top).mp key
  · -- the joint is nonnegative on (0,∞) × (0,1)
    refine ae_restrict_of_forall_mem measurableSet_Ioi fun x hx => ?_
    exact ae_restrict_of_forall_mem measurableSet_Ioo fun η hη =>
      jointR_nonneg ha hb hn' hx hη.1 hη.2
  · -- in η: a multiple of the Beta(x+1, n) density (`eta_conditional`)
    refine ae_restrict_of_forall_mem measurableSet_Ioi fun x hx => ⟨?_, ?_, ?_⟩
    · exact ae_restrict_of_forall_mem measurableSet_Ioo fun η hη =>
        (betaPDFReal_pos hη.1 hη.2 (by linarith [mem_Ioi.mp hx]) hn').le
    · exact lintegral_betaPDFReal_Ioo (by linarith [mem_Ioi.mp hx]) hn'
    · obtain ⟨Z, hZ⟩ := eta_conditional a b x K n hx hn
      exact ⟨Z, ae_restrict_of_forall_mem measurableSet_Ioo fun η hη => hZ η hη.1 hη.2⟩
  · -- in x: a multiple of the mixture density (`alpha_conditional`)
    refine ae_restrict_of_forall_mem measurableSet_Ioo fun η hη => ⟨?_, ?_, ?_⟩
    · exact ae_of_all _ (mixR_nonneg ha hb hK' hn' hη.1 hη.2)
    · exact lintegral_mixR_Ioi ha hb hK' hn' hη.1 hη.2
    · obtain ⟨D, hD⟩ := alpha_conditional a b η K n ha hb hK hn hη.1 hη.2
      exact ⟨D, ae_restrict_of_forall_mem measurableSet_Ioi fun x hx => hD x hx⟩
  · -- the η-marginal is Γ(n) · target (`eta_marginal`)
    exact ae_restrict_of_forall_mem measurableSet_Ioi fun x hx => eta_marginal a b x K n hx hn

/-- the measure on `ℝ` with density `target a b K n` w.r.t. Lebesgue measure on `(0, ∞)`: the
(unnormalised) conditional posterior of the concentration given `K` clones and `n` data points -/
noncomputable def posteriorMeasure (a b : ℝ) (K n : ℕ) : Measure ℝ :=
  (volume.restrict (Ioi (0 : ℝ))).withDensity fun x => ENNReal.ofReal (target a b K n x)

/-- the law of the second draw given `η`:
`w(η) Gamma(a+K, b - log η) + (1 - w(η)) Gamma(a+K-1, b - log η)` (Mathlib's `gammaMeasure`) -/
noncomputable def mixtureMeasure (a b : ℝ) (K n : ℕ) (η : ℝ) : Measure ℝ :=
  ENNReal.ofReal (weight a b K n η) • gammaMeasure (a + K) (b - log η)
    + ENNReal.ofReal (1 - weight a b K n η) • gammaMeasure (a + K - 1) (b - log η)

/-- **C13, measure form.**  With Mathlib's `betaMeasure`, `gammaMeasure`: starting from
`x ~ posteriorMeasure`, drawing `η ~ Beta(x+1, n)` and then `x' ~ mixtureMeasure η` gives
`x' ~ posteriorMeasure`: the expectation of every measurable `f ≥ 0` of `x'` is `∫ f d posterior`. -/
theorem conc_gibbs_measure (a b : ℝ) (K n : ℕ) (ha : 0 < a) (hb : 0 < b) (hK : 1 ≤ K) (hn : 1 ≤ n)
    (f : ℝ → ENNReal) (hf : Measurable f) :
    ∫⁻ x, ∫⁻ η, ∫⁻ x', f x' ∂mixtureMeasure a b K n η ∂betaMeasure (x + 1) n
        ∂posteriorMeasure a b K n
      = ∫⁻ x, f x ∂posteriorMeasure a b K n := by
  have hK' : (1 : ℝ) ≤ K := by exact_mod_cast hK
  have hn' : (0 : ℝ) < n := by exact_mod_cast hn
  have hG : 0 < Gamma n := Gamma_pos_of_pos hn'
  have hT : AEMeasurable (fun x => ENNReal.ofReal (target a b K n x))
      (volume.restrict (Ioi (0 : ℝ))) :=
    (aemeasurable_of_eq_integral (measurable_jointR a b K n) (volume.restrict (Ioo (0 : ℝ) 1))
      measurableSet_Ioi (Gamma n) _ (fun x hx => eta_marginal a b x K n hx hn)
      hG.ne').ennreal_ofReal
  have hfin : ∀ᵐ x ∂volume.restrict (Ioi (0 : ℝ)), ENNReal.ofReal (target a b K n x) < ⊤ :=
    ae_of_all _ fun _ => ENNReal.ofReal_lt_top
  unfold posteriorMeasure
  rw [lintegral_withDensity_eq_lintegral_mul_non_measurable₀ _ hT hfin,
    lintegral_withDensity_eq_lintegral_mul_non_measurable₀ _ hT hfin]
  simp only [Pi.mul_apply]
  rw [← conc_gibbs a b K n ha hb hK hn f hf]
  refine lintegral_congr fun x => ?_
  congr 1
  rw [lintegral_betaMeasure]
  refine setLIntegral_congr_fun measurableSet_Ioo fun η hη => ?_
  obtain ⟨hw0, hw1⟩ := wR_mem ha hb hK' hn' hη.1 hη.2
  have hr : 0 < b - log η := by linarith [log_neg hη.1 hη.2]
  show _ * _ = _ * _
  congr 1
  exact lintegral_gammaMixture hw0 hw1 (by linarith) (by linarith) hr f hf

/-- **C13, set form.**  `∫ P(x' ∈ A | x) d posterior(x) = posterior(A)` for every measurable `A`:
`posteriorMeasure` is invariant under the update's transition kernel
`x ↦ ∫ mixtureMeasure η dBeta(x+1, n)(η)`. -/
theorem conc_gibbs_set (a b : ℝ) (K n : ℕ) (ha : 0 < a) (hb : 0 < b) (hK : 1 ≤ K) (hn : 1 ≤ n)
    (A : Set ℝ) (hA : MeasurableSet A) :
    ∫⁻ x, ∫⁻ η, mixtureMeasure a b K n η A ∂betaMeasure (x + 1) n ∂posteriorMeasure a b K n
      = posteriorMeasure a b K n A := by
  have := conc_gibbs_measure a b K n ha hb hK hn (A.indicator 1) (measurable_one.indicator hA)
  simpa only [lintegral_indicator_one hA] using this

/-- the second draw is from a probability measure (for `η ∈ (0,1)`; the first is from Mathlib's
`betaMeasure (x+1) n`, a probability measure by `isProbabilityMeasureBeta`): the update's transition
kernel is Markov -/
theorem mixtureMeasure_prob (a b η : ℝ) (K n : ℕ) (ha : 0 < a) (hb : 0 < b) (hK : 1 ≤ K)
    (hn : 1 ≤ n) (h0 : 0 < η) (h1 : η < 1) : mixtureMeasure a b K n η univ = 1 := by
  have hK' : (1 : ℝ) ≤ K := by exact_mod_cast hK
  have hn' : (0 : ℝ) < n := by exact_mod_cast hn
  obtain ⟨hw0, hw1⟩ := wR_mem ha hb hK' hn' h0 h1
  have hr : 0 < b - log η := by linarith [log_neg h0 h1]
  have := isProbabilityMeasure_gammaMeasure (by linarith : 0 < a + (K : ℝ)) hr
  have := isProbabilityMeasure_gammaMeasure (by linarith : 0 < a + (K : ℝ) - 1) hr
  unfold mixtureMeasure
  rw [Measure.add_apply, Measure.smul_apply, Measure.smul_apply, measure_univ, measure_univ,
    smul_eq_mul, smul_eq_mul, mul_one, mul_one,
    ← ENNReal.ofReal_add (by exact hw0) (by unfold weight; exact sub_nonneg.mpr hw1)]
  simp

/-- **The posterior is normalisable.**  `posteriorMeasure a b K n` (density `target`) has finite,
non-zero total mass, so the probability measure with density `∝ target` exists; by homogeneity of
`conc_gibbs_set` it is invariant under the update as well. -/
theorem posterior_finite_pos (a b : ℝ) (K n : ℕ) (ha : 0 < a) (hb : 0 < b) (hK : 1 ≤ K)
    (hn : 1 ≤ n) :
    posteriorMeasure a b K n univ ≠ 0 ∧ posteriorMeasure a b K n univ ≠ ⊤ := by
  have hK' : (1 : ℝ) ≤ K := by exact_mod_cast hK
  have hn1 : (1 : ℝ) ≤ n := by exact_mod_cast hn
  have hn' : (0 : ℝ) < n := by linarith
  have hG : 0 < Gamma n := Gamma_pos_of_pos hn'
  have hmass : posteriorMeasure a b K n univ
      = ∫⁻ x in Ioi (0 : ℝ), ENNReal.ofReal (target a b K n x) := by
    unfold posteriorMeasure
    rw [withDensity_apply _ MeasurableSet.univ, Measure.restrict_univ]
  have hpos : ∀ x ∈ Ioi (0 : ℝ), 0 < target a b K n x := fun x hx => by
    have hx' : (0 : ℝ) < x := hx
    have := gammaPDFReal_pos ha hb hx'
    have := Gamma_pos_of_pos hx'
    have := Gamma_pos_of_pos (by linarith : 0 < x + (n : ℝ))
    have := rpow_pos_of_pos hx' (K : ℝ)
    unfold target
    positivity
  rw [hmass]
  constructor
  · -- positive: `target > 0` on a set of positive Lebesgue measure
    intro h
    have hT : AEMeasurable (fun x => ENNReal.ofReal (target a b K n x))
        (volume.restrict (Ioi (0 : ℝ))) :=
      (aemeasurable_of_eq_integral (measurable_jointR a b K n) (volume.restrict (Ioo (0 : ℝ) 1))
        measurableSet_Ioi (Gamma n) _ (fun x hx => eta_marginal a b x K n hx hn)
        hG.ne').ennreal_ofReal
    have h0 := (lintegral_eq_zero_iff' hT).mp h
    rw [Filter.EventuallyEq, ae_restrict_iff' measurableSet_Ioi] at h0
    have : volume (Ioi (0 : ℝ)) = 0 := by
      rw [measure_eq_zero_iff_ae_notMem]
      filter_upwards [h0] with x hx hmem
      exact (ENNReal.ofReal_pos.mpr (hpos x hmem)).ne' (hx hmem)
    simp at this
  · -- finite: Γ(n) · mass = ∫∫ joint < ⊤ (Tonelli and the bounded constant of `alpha_conditional`)
    have hfin := lintegral_jointR_lt_top (k := K) (n := n) ha hb hK' hn1
    have hx : ∀ x ∈ Ioi (0 : ℝ), ∫⁻ η in Ioo (0 : ℝ) 1, ENNReal.ofReal (jointR a b K n x η)
        = ENNReal.ofReal (Gamma n) * ENNReal.ofReal (target a b K n x) := fun x hx => by
      rw [← ENNReal.ofReal_mul hG.le]; exact eta_marginal_lintegral a b x K n ha hb hx hn
    rw [setLIntegral_congr_fun measurableSet_Ioi hx,
      lintegral_const_mul' _ _ ENNReal.ofReal_ne_top] at hfin
    intro htop
    rw [htop, ENNReal.mul_top (by simpa using hG)] at hfin
    exact lt_irrefl _ hfin

/-! ## Non-vacuity: the hypotheses are satisfiable on concrete non-trivial inputs -/

/-- the run command's prior `a = b = 1/100`, `α = 1`, `K = 2` clones, `n = 5` points, `L = 3/10`:
the model produces the mixture branch with these parameters (`conc_params`, `conc_gibbs_partial`) -/
example : plan (1/100) (1/100) 1 2 5 (3/10) true = some (.mix
    { betaA := 2, betaB := 5, rate := 31/100, odds := 101/155, pi := 101/256, shape := 201/100,
      scale := 100/31 }) := by
  norm_num [plan, rate, odds, shape0, piOf, shapeOf]

/-- `mixture_density_identity`, `alpha_conditional`, `eta_conditional`, `eta_marginal`,
`eta_marginal_lintegral`, `eta_conditional_density`, `alpha_conditional_density`: the real
hypotheses hold at `a = b = 1/100`, `η = 1/2`, `K = 2`, `n = 5`, `x = 1` -/
example : (0 : ℝ) < 1/100 ∧ (1 : ℕ) ≤ 2 ∧ (1 : ℕ) ≤ 5 ∧ (0 : ℝ) < 1/2 ∧ (1/2 : ℝ) < 1 ∧ (0 : ℝ) < 1 := by
  norm_num

/-- `conc_gibbs`, `conc_gibbs_measure`, `conc_gibbs_set`, `posterior_finite_pos`,
`mixtureMeasure_prob`: the hypotheses hold at the run command's prior `a = b = 1/100`, `K = 2`,
`n = 5`, `A = (1, 2]`, `f = 1_A`, `η = 1/2`; by `posterior_finite_pos` the invariance identity is not
`0 = 0` or `⊤ = ⊤` for `A = univ` -/
example : let P := posteriorMeasure (1/100) (1/100) 2 5
    (∫⁻ x, ∫⁻ η, mixtureMeasure (1/100) (1/100) 2 5 η (Ioc 1 2) ∂betaMeasure (x + 1) (5 : ℕ) ∂P
      = P (Ioc 1 2)) ∧ P univ ≠ 0 ∧ P univ ≠ ⊤ ∧ mixtureMeasure (1/100) (1/100) 2 5 (1/2) univ = 1 ∧
    Measurable ((Ioc (1 : ℝ) 2).indicator (1 : ℝ → ENNReal)) :=
  ⟨conc_gibbs_set (1/100) (1/100) 2 5 (by norm_num) (by norm_num) (by norm_num) (by norm_num) _
      measurableSet_Ioc,
    (posterior_finite_pos (1/100) (1/100) 2 5 (by norm_num) (by norm_num) (by norm_num)
      (by norm_num)).1,
    (posterior_finite_pos (1/100) (1/100) 2 5 (by norm_num) (by norm_num) (by norm_num)
      (by norm_num)).2,
    mixtureMeasure_prob (1/100) (1/100) (1/2) 2 5 (by norm_num) (by norm_num) (by norm_num)
      (by norm_num) (by norm_num) (by norm_num),
    measurable_one.indicator measurableSet_Ioc⟩

/-- `kn_from_tree`: clone {0,1} with child {2}, an empty sibling clone, outliers {3,4}: `K = 3`
clones, `n = 3` of the `N = 5` data points -/
example : let f : DF := .cons [0, 1] (.cons [2] .nil .nil) (.cons [] .nil .nil)
    (f.all ++ [3, 4]).Perm (List.range 5) ∧ kn f [3, 4] true = (3, 3) ∧ kn f [3, 4] false = (3, 3) := by
  decide

/-- `value_in_force`: three iterations, thinning 2 -/
example : runTrace true 2 1 [1/2, 1/3, 1/4]
    = [⟨0, 1, 1⟩, ⟨0, 1/2, 1/2⟩, ⟨2, 1/4, 1/4⟩] := by
  simp [runTrace, loop, entry, Prior.set]

end PhyModel.Props.C13
