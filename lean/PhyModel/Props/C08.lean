import PhyModel.Model.Moves
import PhyModel.Proofs.PropSumOne
import PhyModel.Proofs.PropSampler
import PhyModel.Proofs.PropWeights
import PhyModel.Proofs.PropKeys
import PhyModel.Proofs.PropParent3
/-! # C08 — SMC proposals are normalised, faithfully sampled, complete, correctly weighted

`Proposal.table` mirrors `log_p()` of the three proposal distributions (bootstrap, semi-adapted,
fully-adapted) in the probability domain, `Proposal.sampler` mirrors `sample()` as a finite
distribution, `Proposal.placements` lists every way of placing the next data point on the parent
state, `Proposal.incrWeight` mirrors `Kernel.create_particle` (+ `_get_log_w` at the last step).
All statements hold for every data set, every parent state (empty, outliers only, any number of
top-level clones), every data point, all three kinds, outlier proposal probability zero or
positive, with or without a permutation distribution.

Hypotheses used, each only where needed:
* `hfirst : first = true → p.f.numRoots = 0` — "there is no parent particle" is only said of the
  empty state (the code builds an empty tree in that case);
* `hpos` — the marginal joint density of every placement is positive (adapted kinds normalise by
  the sum of these densities);
* `hkeys : DistinctKeys p.f.roots` — the top-level clones have pairwise distinct smallest data
  indices, which is what makes the canonical sibling order (hence "the same tree") well defined; it
  holds for every tree with distinct data points and non-empty clones
  (`Proposal.distinctKeys_of_nodup`). -/

namespace PhyModel.Props.C08
open PhyModel PhyModel.Proposal PhyModel.Dist

/-! concrete non-trivial input for the non-vacuity examples: two data points already
placed as two top-level clones, a third one to place, outlier modelling on, permutation density on -/
def exData : Data := ⟨2, 1, [[[1/2, 1/2]], [[1/4, 3/4]], [[1/2, 1/3]]], [1/10, 1/10, 1/10], [1, 1, 1]⟩
def exP : T := T.mk' (.cons [1] .nil (.cons [0] .nil .nil)) []
def exC (k : Prop3) : Cfg := ⟨k, 1/10, 1, true⟩

/-- **normalised**: for each of the three kinds the reported probabilities sum to one -/
theorem table_sum_one (dt : Data) (c : Cfg) (first : Bool) (p : T) (i : ℕ)
    (hfirst : first = true → p.f.numRoots = 0)
    (hpos : c.kind ≠ .bootstrap → ∀ kt ∈ placements p i, 0 < pMargT dt c kt.2) :
    lsum (table dt c first p i) (fun tq => tq.2) = 1 :=
  table_sum_one_proof dt c first p i hfirst hpos

/-- non-vacuity: the hypotheses hold for a parent with two top-level clones (all three kinds) and for
the first step (no parent particle, empty state) -/
example : (∀ k, (false = true → exP.f.numRoots = 0) ∧
      ((exC k).kind ≠ .bootstrap → ∀ kt ∈ placements exP 2, 0 < pMargT exData (exC k) kt.2)) ∧
    (true = true → T.empty.f.numRoots = 0) ∧
    (∀ kt ∈ placements T.empty 0, 0 < pMargT exData (exC .full) kt.2) := by
  refine ⟨fun k => ?_, ?_⟩
  · cases k <;> decide +kernel
  · decide +kernel

/-- the combinatorial heart of `table_sum_one`: over all subsets of the `r` top-level clones,
`Σ 1 / C(r, |subset|) = r + 1` -/
theorem splits_inv_binom_sum {α : Type} (rs : List α) :
    lsum (splits rs) (fun cr => 1 / binom rs.length cr.1.length) = (rs.length : ℚ) + 1 :=
  lsum_splits_inv_binom rs

/-- **complete support**: every placement (the outlier one only when outlier modelling is on) is
listed in the table with positive probability -/
theorem support_complete (dt : Data) (c : Cfg) (first : Bool) (p : T) (i : ℕ)
    (hop0 : 0 ≤ c.op) (hop1 : c.op < 1)
    (hpos : c.kind ≠ .bootstrap → ∀ kt ∈ placements p i, 0 < pMargT dt c kt.2)
    (kt : Kind × T) (hkt : kt ∈ placements p i) (hout : kt.1 = .outlier → c.op ≠ 0) :
    ∃ q, 0 < q ∧ (kt.2, q) ∈ table dt c first p i :=
  support_complete_proof dt c first p i hop0 hop1 hpos kt hkt hout

/-- non-vacuity: seven placements of the third data point (two existing clones, four subsets, the
outlier set), all with positive density, outlier probability 1/10 -/
example : (placements exP 2).length = 7 ∧ 0 ≤ (exC .semi).op ∧ (exC .semi).op < 1 ∧ (exC .semi).op ≠ 0 ∧
    (∀ kt ∈ placements exP 2, 0 < pMargT exData (exC .semi) kt.2) := by decide +kernel

/-- **faithfully sampled**: the expectation of every test function under the sampler equals its
expectation under the table — each tree is drawn with exactly the reported probability (take `h` the
indicator of one tree) -/
theorem sampler_eq_table (dt : Data) (c : Cfg) (first : Bool) (p : T) (i : ℕ)
    (hfirst : first = true → p.f.numRoots = 0) (hkeys : DistinctKeys p.f.roots) (h : T → ℚ) :
    Dist.E (sampler dt c first p i) h = lsum (table dt c first p i) (fun tq => tq.2 * h tq.1) :=
  sampler_eq_table_proof dt c first p i hfirst hkeys h

/-- the key hypothesis holds for every tree with distinct data points (below the sentinel of the
canonical order) and non-empty top-level clones -/
theorem distinctKeys_of_nodup (f : DF) (hnd : f.all.Nodup) (hne : ∀ x ∈ f.roots, x.1 ≠ [])
    (hbig : ∀ a ∈ f.all, a < Orders.Forest.big) : DistinctKeys f.roots :=
  Proposal.distinctKeys_of_nodup f hnd hne hbig

/-- non-vacuity -/
example : (false = true → exP.f.numRoots = 0) ∧ DistinctKeys exP.f.roots ∧ exP.f.roots.length = 2 := by
  decide +kernel

/-- **correctly weighted**: along any path `T.empty = x₀, x₁, …, xₙ` (given as the list of
`(x_t, q_t)`, `q_t` the proposal probability of step `t`), the product of
`incrWeight (t = 1) (t = n) x_{t-1} x_t q_t · q_t` is the fixed-root joint density times the
permutation density (or times 1 without a permutation distribution) of the final tree -/
theorem weights_telescope (dt : Data) (c : Cfg) (steps : List (T × ℚ)) (hne : steps ≠ [])
    (hq : ∀ tq ∈ steps, tq.2 ≠ 0) (hM : ∀ tq ∈ steps, pMargT dt c tq.1 ≠ 0) :
    pathProd dt c true T.empty steps
      = pOneT dt c (lastTree T.empty steps) * pdfOf c (lastTree T.empty steps) :=
  weights_telescope_proof dt c steps hne hq hM

/-- non-vacuity: a three-step path ending in a chain with an outlier -/
example :
    let steps : List (T × ℚ) :=
      [(T.mk' (.cons [0] .nil .nil) [], 9/10), (T.mk' (.cons [0] .nil .nil) [1], 1/10),
       (T.mk' (.cons [2] (.cons [0] .nil .nil) .nil) [1], 1/4)]
    steps ≠ [] ∧ (∀ tq ∈ steps, tq.2 ≠ 0) ∧ (∀ tq ∈ steps, pMargT exData (exC .bootstrap) tq.1 ≠ 0) := by
  decide +kernel

/-- **the parent is determined by the child**: removing the fresh data point `i` from any placement
(`SMC.restrictF` with everything but `i` kept, as in `SMC.restrict`) gives back the parent state in
canonical form -/
theorem recover_placement (p : T) (i : ℕ) (wf : WFParent p i) (kt : Kind × T)
    (hkt : kt ∈ placements p i) : recover i kt.2 = T.mk' p.f p.out :=
  recover_placement_proof p i wf kt hkt

/-- **unique parent**: two (canonical, well-formed) parent states never produce the same child -/
theorem unique_parent (p p' : T) (i : ℕ) (wf : WFParent p i) (wf' : WFParent p' i)
    (hc : T.mk' p.f p.out = p) (hc' : T.mk' p'.f p'.out = p')
    (kt kt' : Kind × T) (hkt : kt ∈ placements p i) (hkt' : kt' ∈ placements p' i)
    (h : kt.2 = kt'.2) : p = p' := by
  rw [← hc, ← hc']
  exact unique_parent_proof p p' i wf wf' kt kt' hkt hkt' h

/-- `WFParent` follows from the usual tree invariants -/
theorem wfParent_of_nodup (p : T) (i : ℕ) (hnd : p.f.all.Nodup) (hne : AllNonempty p.f)
    (hbig : ∀ a ∈ p.f.all, a < Orders.Forest.big) (hf : i ∉ p.f.all) (ho : i ∉ p.out) :
    WFParent p i :=
  PhyModel.wfParent_of_nodup p i hnd hne hbig hf ho

/-- non-vacuity: a parent with a chain, a second top-level clone and an outlier is well formed for the
fresh data point 4 and is canonical -/
example :
    let p : T := T.mk' (.cons [3] (.cons [0] .nil .nil) (.cons [1] .nil .nil)) [2]
    p.f.all.Nodup ∧ AllNonempty p.f ∧ (∀ a ∈ p.f.all, a < Orders.Forest.big) ∧ 4 ∉ p.f.all ∧ 4 ∉ p.out ∧
      T.mk' p.f p.out = p ∧ (placements p 4).length = 7 := by
  decide +kernel

end PhyModel.Props.C08
