import PhyModel.Model.Moves
namespace PhyModel.Props.C08
end PhyModel.Props.C08
