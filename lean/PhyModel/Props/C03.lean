import PhyModel.Model.Density
namespace PhyModel.Props.C03
end PhyModel.Props.C03
