import PhyModel.Proofs.MemoBridge
/-! # C14 — memoised recursion and proposal results equal unmemoised computation

Property theorems only; helper lemmas live in `Proofs/CacheProofs.lean` (LRU table) and
`Proofs/MemoProofs.lean` (order-insensitivity of the children recursion, content keys).

The memo table is `Model/Cache.lean`: a keyed LRU list with a capacity (`functools.lru_cache`
behind a content key), operations `call e a` (a call with argument `a` while the environment — the
concentration value — is `e`) and `clear`.  `Cache.run` is the memoised execution of a history,
`Cache.direct` the unmemoised one.  Collision-freeness of the content digest (xxhash) and
`functools.lru_cache` itself are trusted; the floating-point side (a hit on a permuted children list
returns the value computed in another summation order) is decided by the shadow comparison of the
correspondence check, not here. -/

namespace PhyModel.Props.C14
open PhyModel PhyModel.Cache PhyModel.Memo

/-- **C14 (core).**  For every history of calls and clears, every capacity (hence every eviction
pattern), every sequence of environments and every sound starting table, the memoised execution
returns exactly the values of the unmemoised one — provided the function respects the key. -/
theorem cache_sound {E A K V : Type} [DecidableEq K] (key : E → A → K) (f : E → A → V)
    (hresp : ∀ e a e' a', key e a = key e' a' → f e a = f e' a')
    (ops : List (Op E A)) (c : Cache K V) (hc : Sound key f c.entries) :
    (run key f c ops).2 = direct f ops :=
  Cache.cache_sound key f hresp ops c hc

/-- the same from the empty table a process starts with, for every capacity -/
theorem cache_sound_from_empty {E A K V : Type} [DecidableEq K] (key : E → A → K) (f : E → A → V)
    (hresp : ∀ e a e' a', key e a = key e' a' → f e a = f e' a') (cap : ℕ) (ops : List (Op E A)) :
    (run key f ⟨[], cap⟩ ops).2 = direct f ops :=
  Cache.cache_sound_from_empty key f hresp cap ops

/-- non-vacuity: a key that identifies arguments modulo 3, a function that respects it, capacity 2;
the history below contains a hit (`4 ≡ 1`), an eviction and a clear, and both executions agree. -/
example :
    let key : Unit → ℕ → ℕ := fun _ a => a % 3
    let f : Unit → ℕ → ℕ := fun _ a => 10 * (a % 3)
    let ops : List (Op Unit ℕ) := [.call () 1, .call () 4, .call () 2, .call () 0, .clear, .call () 1]
    (∀ e a e' a', key e a = key e' a' → f e a = f e' a') ∧
    (runTrace key f ⟨[], 2⟩ ops).map (fun t => (t.1, t.2.2)) =
      [(false, 1), (true, 1), (false, 2), (false, 2), (false, 0), (false, 1)] ∧
    (run key f ⟨[], 2⟩ ops).2 = direct f ops := by
  refine ⟨?_, by decide +kernel, by decide +kernel⟩
  intro _ a _ a' h
  simp only at h ⊢
  rw [h]

/-- the premise is needed: with a key that forgets the environment (a proposal cache keyed
without `alpha`) a stale value is returned after the environment changed -/
example :
    (run (envKey false) (fun e a => 100 * e + a) ⟨[], 8⟩ [.call 1 0, .call 2 0]).2
      ≠ direct (fun e a => 100 * e + a) [.call 1 0, .call 2 0] := by decide +kernel

/-! ## the two numeric caches -/

/-- any permutation of the children list gives the same `D` (hence the same `S`):
`compute_log_S` / `compute_log_D` do not depend on the order of the children -/
theorem logS_perm (G S : ℕ) {l1 l2 : List Mat} (h : l1.Perm l2) : logS G S l1 = logS G S l2 := by
  unfold logS
  rw [childD_perm G S h]

/-- **key premise of `compute_log_S`**: the key is the sorted multiset of the children's contents;
equal keys give equal values -/
theorem logS_respects_key (G S : ℕ) (e : Unit) (a : List Mat) (e' : Unit) (a' : List Mat)
    (h : logSKey e a = logSKey e' a') : logSFun G S e a = logSFun G S e' a' :=
  logS_perm G S (keyS_perm_of_eq h)

/-- non-vacuity: two different orders of three children (one repeated) have the same key -/
example :
    let A : Mat := [[1, 1/2, 0], [1/4, 1, 1]]
    let B : Mat := [[1, 1/2, 0], [1/4, 1, 1/2]]
    [A, B, A] ≠ [B, A, A] ∧ logSKey () [A, B, A] = logSKey () [B, A, A] ∧
      logSKey () [A, B, A] ≠ logSKey () [A, B, B] := by
  refine ⟨by decide +kernel, by decide +kernel, by decide +kernel⟩

/-- **key premise of `_convolve_two_children`**: the key is the unordered pair -/
theorem conv_respects_key (G : ℕ) (e : Unit) (ab : Mat × Mat) (e' : Unit) (ab' : Mat × Mat)
    (h : convKey e ab = convKey e' ab') : convFun G e ab = convFun G e' ab' := by
  obtain ⟨a, b⟩ := ab
  obtain ⟨a', b'⟩ := ab'
  rcases keyPair_cases h with ⟨h1, h2⟩ | ⟨h1, h2⟩
  · simp only [convFun] at *; rw [h1, h2]
  · simp only [convFun] at *; rw [h1, h2]; exact convM_comm G _ _

example : convKey () ([[1, 2]], [[3, 4]]) = convKey () ([[3, 4]], [[1, 2]]) := by decide +kernel

/-- **C14 for `compute_log_S`**: every history (calls with repeated / permuted children lists,
clears, evictions at any capacity) returns the unmemoised values -/
theorem logS_memo_sound (G S cap : ℕ) (ops : List (Op Unit (List Mat))) :
    (run logSKey (logSFun G S) ⟨[], cap⟩ ops).2 = direct (logSFun G S) ops :=
  Cache.cache_sound_from_empty _ _ (logS_respects_key G S) cap ops

/-- **C14 for `_convolve_two_children`** -/
theorem conv_memo_sound (G cap : ℕ) (ops : List (Op Unit (Mat × Mat))) :
    (run convKey (convFun G) ⟨[], cap⟩ ops).2 = direct (convFun G) ops :=
  Cache.cache_sound_from_empty _ _ (conv_respects_key G) cap ops

/-- non-vacuity: a permuted repeat is a hit (second call), and the value is the directly computed one -/
example :
    let A : Mat := [[1, 2, 0]]
    let B : Mat := [[1, 1, 3]]
    (runTrace logSKey (logSFun 3 1) ⟨[], 1⟩ [.call () [A, B], .call () [B, A]]).map (fun t => t.1)
      = [false, true] ∧
    logSFun 3 1 () [A, B] = [[1, 4, 9]] := by
  refine ⟨by decide +kernel, by decide +kernel⟩

/-- the memoised function is the recursion C02 is about: on the `R` vectors of the top-level clones of
any non-empty forest `compute_log_S` returns the prefix sums of C02's `D` (single sample; the samples
are independent rows) -/
theorem logS_eq_prefixSum_D (G : ℕ) (f : Forest) (hf : f ≠ .nil) :
    logS G 1 ((kidsR G f).map fun v => [v]) = [prefixSum G (D G f)] := by
  unfold logS
  rw [childD_eq_D G f hf]
  rfl

example : (Forest.cons [1, 2] (.cons [1, 1] .nil .nil) (.cons [3, 1] .nil .nil)) ≠ .nil ∧
    (kidsR 2 (Forest.cons [1, 2] (.cons [1, 1] .nil .nil) (.cons [3, 1] .nil .nil))).length = 2 := by
  refine ⟨by simp, by simp [kidsR]⟩

/-- the driver's tracing run reports the values of `Cache.run` -/
theorem trace_values {E A K V : Type} [DecidableEq K] (key : E → A → K) (f : E → A → V)
    (ops : List (Op E A)) (c : Cache K V) :
    (runTrace key f c ops).map (fun t => t.2.1) = (run key f c ops).2 :=
  runTrace_values key f ops c

/-! ## the proposal caches

Full statement (`proposal_key_complete`): the proposal table built by
`SemiAdaptedProposalDistribution` / `FullyAdaptedProposalDistribution` and the tree built by
`get_cached_new_tree` are functions of exactly (data point, kernel parameters, parent tree, outlier
proposal probability, alpha) — all of which are components of the `lru_cache` key — so that
`cache_sound` applies to them.  That needs the proposal model (`Model/Proposal.lean`, written
separately by the lead, not available in this slice).  What is proved here is the table-level half:
for *any* function of (environment, argument) a key that carries both is sound across environment
changes and clears, and (example above) a key that drops the environment is not.

-- OBLIGATION-OPEN proposal_key_complete: needs Model/Proposal.lean — show that the modelled semi- and fully-adapted proposal table and the new-clone tree depend only on (data point, kernel parameters, parent tree, outlier proposal probability, alpha), i.e. instantiate `table` below with the proposal model; until then the real proposal caches are covered by the shadow comparison of the correspondence check only
-/
theorem proposal_key_complete_partial {Alpha Arg V : Type} [DecidableEq Alpha] [DecidableEq Arg]
    (table : Alpha → Arg → V) (cap : ℕ) (ops : List (Op Alpha Arg)) :
    (run (fun α a => (a, α)) table ⟨[], cap⟩ ops).2 = direct table ops := by
  apply Cache.cache_sound_from_empty
  intro e a e' a' h
  simp only [Prod.mk.injEq] at h
  rw [h.1, h.2]

/-- non-vacuity: alpha 1 → 2 → 1 with the same argument: miss, miss, hit on the entry of alpha 1 -/
example :
    (runTrace (fun (α : ℕ) (a : ℕ) => (a, α)) (fun α a => 100 * α + a) ⟨[], 8⟩
      [.call 1 0, .call 2 0, .call 1 0]).map (fun t => (t.1, t.2.1)) =
      [(false, some 100), (false, some 200), (true, some 100)] := by decide +kernel

end PhyModel.Props.C14
