import PhyModel.Proofs.MemoBridge
import PhyModel.Model.Proposal
/-! # C14 — memoised recursion and proposal results equal unmemoised computation

Property theorems only; helper lemmas live in `Proofs/CacheProofs.lean` (LRU table) and
`Proofs/MemoProofs.lean` (order-insensitivity of the children recursion, content keys).

The memo table is `Model/Cache.lean`: a keyed LRU list with a capacity (`functools.lru_cache`
behind a content key), operations `call e a` (a call with argument `a` while the environment — the
concentration value — is `e`) and `clear`.  `Cache.run` is the memoised execution of a history,
`Cache.direct` the unmemoised one.  Collision-freeness of the content digest (xxhash) and
`functools.lru_cache` itself are trusted; the floating-point side (a hit on a permuted children list
returns the value computed in another summation order) is decided by the shadow comparison of the
correspondence check, not here. -/

namespace PhyModel.Props.C14
open PhyModel PhyModel.Cache PhyModel.Memo

/-- **C14 (core).**  For every history of calls and clears, every capacity (hence every eviction
pattern), every sequence of environments and every sound starting table, the memoised execution
returns exactly the values of the unmemoised one — provided the function respects the key. -/
theorem cache_sound {E A K V : Type} [DecidableEq K] (key : E → A → K) (f : E → A → V)
    (hresp : ∀ e a e' a', key e a = key e' a' → f e a = f e' a')
    (ops : List (Op E A)) (c : Cache K V) (hc : Sound key f c.entries) :
    (run key f c ops).2 = direct f ops :=
  Cache.cache_sound key f hresp ops c hc

/-- the same from the empty table a process starts with, for every capacity -/
theorem cache_sound_from_empty {E A K V : Type} [DecidableEq K] (key : E → A → K) (f : E → A → V)
    (hresp : ∀ e a e' a', key e a = key e' a' → f e a = f e' a') (cap : ℕ) (ops : List (Op E A)) :
    (run key f ⟨[], cap⟩ ops).2 = direct f ops :=
  Cache.cache_sound_from_empty key f hresp cap ops

/-- non-vacuity: a key that identifies arguments modulo 3, a function that respects it, capacity 2;
the history below contains a hit (`4 ≡ 1`), an eviction and a clear, and both executions agree. -/
example :
    let key : Unit → ℕ → ℕ := fun _ a => a % 3
    let f : Unit → ℕ → ℕ := fun _ a => 10 * (a % 3)
    let ops : List (Op Unit ℕ) := [.call () 1, .call () 4, .call () 2, .call () 0, .clear, .call () 1]
    (∀ e a e' a', key e a = key e' a' → f e a = f e' a') ∧
    (runTrace key f ⟨[], 2⟩ ops).map (fun t => (t.1, t.2.2)) =
      [(false, 1), (true, 1), (false, 2), (false, 2), (false, 0), (false, 1)] ∧
    (run key f ⟨[], 2⟩ ops).2 = direct f ops := by
  refine ⟨?_, by decide +kernel, by decide +kernel⟩
  intro _ a _ a' h
  simp only at h ⊢
  rw [h]

/-- the premise is needed: with a key that forgets the environment (a proposal cache keyed
without `alpha`) a stale value is returned after the environment changed -/
example :
    (run (envKey false) (fun e a => 100 * e + a) ⟨[], 8⟩ [.call 1 0, .call 2 0]).2
      ≠ direct (fun e a => 100 * e + a) [.call 1 0, .call 2 0] := by decide +kernel

/-! ## the two numeric caches -/

/-- any permutation of the children list gives the same `D` (hence the same `S`):
`compute_log_S` / `compute_log_D` do not depend on the order of the children -/
theorem logS_perm (G S : ℕ) {l1 l2 : List Mat} (h : l1.Perm l2) : logS G S l1 = logS G S l2 := by
  unfold logS
  rw [childD_perm G S h]

/-- **key premise of `compute_log_S`**: the key is the sorted multiset of the children's contents;
equal keys give equal values -/
theorem logS_respects_key (G S : ℕ) (e : Unit) (a : List Mat) (e' : Unit) (a' : List Mat)
    (h : logSKey e a = logSKey e' a') : logSFun G S e a = logSFun G S e' a' :=
  logS_perm G S (keyS_perm_of_eq h)

/-- non-vacuity: two different orders of three children (one repeated) have the same key -/
example :
    let A : Mat := [[1, 1/2, 0], [1/4, 1, 1]]
    let B : Mat := [[1, 1/2, 0], [1/4, 1, 1/2]]
    [A, B, A] ≠ [B, A, A] ∧ logSKey () [A, B, A] = logSKey () [B, A, A] ∧
      logSKey () [A, B, A] ≠ logSKey () [A, B, B] := by
  refine ⟨by decide +kernel, by decide +kernel, by decide +kernel⟩

/-- **key premise of `_convolve_two_children`**: the key is the unordered pair -/
theorem conv_respects_key (G : ℕ) (e : Unit) (ab : Mat × Mat) (e' : Unit) (ab' : Mat × Mat)
    (h : convKey e ab = convKey e' ab') : convFun G e ab = convFun G e' ab' := by
  obtain ⟨a, b⟩ := ab
  obtain ⟨a', b'⟩ := ab'
  rcases keyPair_cases h with ⟨h1, h2⟩ | ⟨h1, h2⟩
  · simp only [convFun] at *; rw [h1, h2]
  · simp only [convFun] at *; rw [h1, h2]; exact convM_comm G _ _

example : convKey () ([[1, 2]], [[3, 4]]) = convKey () ([[3, 4]], [[1, 2]]) := by decide +kernel

/-- **C14 for `compute_log_S`**: every history (calls with repeated / permuted children lists,
clears, evictions at any capacity) returns the unmemoised values -/
theorem logS_memo_sound (G S cap : ℕ) (ops : List (Op Unit (List Mat))) :
    (run logSKey (logSFun G S) ⟨[], cap⟩ ops).2 = direct (logSFun G S) ops :=
  Cache.cache_sound_from_empty _ _ (logS_respects_key G S) cap ops

/-- **C14 for `_convolve_two_children`** -/
theorem conv_memo_sound (G cap : ℕ) (ops : List (Op Unit (Mat × Mat))) :
    (run convKey (convFun G) ⟨[], cap⟩ ops).2 = direct (convFun G) ops :=
  Cache.cache_sound_from_empty _ _ (conv_respects_key G) cap ops

/-- non-vacuity: a permuted repeat is a hit (second call), and the value is the directly computed one -/
example :
    let A : Mat := [[1, 2, 0]]
    let B : Mat := [[1, 1, 3]]
    (runTrace logSKey (logSFun 3 1) ⟨[], 1⟩ [.call () [A, B], .call () [B, A]]).map (fun t => t.1)
      = [false, true] ∧
    logSFun 3 1 () [A, B] = [[1, 4, 9]] := by
  refine ⟨by decide +kernel, by decide +kernel⟩

/-- the memoised function is the recursion C02 is about: on the `R` vectors of the top-level clones of
any non-empty forest `compute_log_S` returns the prefix sums of C02's `D` (single sample; the samples
are independent rows) -/
theorem logS_eq_prefixSum_D (G : ℕ) (f : Forest) (hf : f ≠ .nil) :
    logS G 1 ((kidsR G f).map fun v => [v]) = [prefixSum G (D G f)] := by
  unfold logS
  rw [childD_eq_D G f hf]
  rfl

example : (Forest.cons [1, 2] (.cons [1, 1] .nil .nil) (.cons [3, 1] .nil .nil)) ≠ .nil ∧
    (kidsR 2 (Forest.cons [1, 2] (.cons [1, 1] .nil .nil) (.cons [3, 1] .nil .nil))).length = 2 := by
  refine ⟨by simp, by simp [kidsR]⟩

/-- the driver's tracing run reports the values of `Cache.run` -/
theorem trace_values {E A K V : Type} [DecidableEq K] (key : E → A → K) (f : E → A → V)
    (ops : List (Op E A)) (c : Cache K V) :
    (runTrace key f c ops).map (fun t => t.2.1) = (run key f c ops).2 :=
  runTrace_values key f ops c

/-! ## the proposal caches

`_get_cached_semi_proposal_dist` / `_get_cached_full_proposal_dist` are `lru_cache`d on
`(data_point, kernel, parent_particle, outlier_proposal_prob, alpha)` and `get_cached_new_tree` on
`(parent_particle, data_point, children, tree_dist, perm_dist)` (`tree_dist` hashes as its `alpha`).
The proposal model is `Model/Proposal.lean`: `table dt c first p i` is the proposal table
(`log_p()` of every placement), `Cfg` carries the kernel parameters (`kind`, `op`, `usePerm`) and
`α`; the data set `dt` is fixed per process.  The generic half — any key that carries both the
environment and the argument is sound — is `env_key_sound`; the proposal-specific half is that the
modelled table and new-clone tree take no input beyond the key's components. -/

theorem env_key_sound {Alpha Arg V : Type} [DecidableEq Alpha] [DecidableEq Arg]
    (table : Alpha → Arg → V) (cap : ℕ) (ops : List (Op Alpha Arg)) :
    (run (fun α a => (a, α)) table ⟨[], cap⟩ ops).2 = direct table ops := by
  apply Cache.cache_sound_from_empty
  intro e a e' a' h
  simp only [Prod.mk.injEq] at h
  rw [h.1, h.2]

/-- non-vacuity: alpha 1 → 2 → 1 with the same argument: miss, miss, hit on the entry of alpha 1 -/
example :
    (runTrace (fun (α : ℕ) (a : ℕ) => (a, α)) (fun α a => 100 * α + a) ⟨[], 8⟩
      [.call 1 0, .call 2 0, .call 1 0]).map (fun t => (t.1, t.2.1)) =
      [(false, some 100), (false, some 200), (true, some 100)] := by decide +kernel

open PhyModel.Proposal

/-- what the key of `_get_cached_{semi,full}_proposal_dist` carries: data point, kernel parameters
(proposal kind, outlier proposal probability, with / without permutation distribution), parent
particle (`first` = `parent_particle is None`, else its tree `p`) and `alpha` -/
abbrev PKey := ℕ × Prop3 × ℚ × Bool × Bool × T × ℚ

instance : DecidableEq PKey :=
  have : DecidableEq (Bool × Bool × T × ℚ) := inferInstance
  inferInstance

def proposalKey (c : Cfg) (first : Bool) (p : T) (i : ℕ) : PKey :=
  (i, c.kind, c.op, c.usePerm, first, p, c.α)

/-- the `TreeHolder`s of the new-clone placements (`get_cached_new_tree`): each tree with a new
clone holding `i` above a subset of the top-level clones of `p`, together with its cached
`log_p`, `log_p_one` and permutation `log_pdf` -/
def newTrees (dt : Data) (c : Cfg) (p : T) (i : ℕ) : List (T × ℚ × ℚ × ℚ) :=
  (placements p i).filterMap fun (k, t) =>
    match k with
    | .newNode _ => some (t, pMargT dt c t, pOneT dt c t, pdfOf c t)
    | _ => none

/-- one call of `get_cached_new_tree`: `j` numbers the subset of top-level clones that become the
children of the new clone -/
def newTree (dt : Data) (c : Cfg) (p : T) (i j : ℕ) : Option (T × ℚ × ℚ × ℚ) := (newTrees dt c p i)[j]?

/-- what the key of `get_cached_new_tree` carries: parent particle, data point, children, `alpha`
(the hash of `tree_dist`), with / without permutation distribution -/
abbrev NKey := T × ℕ × ℕ × ℚ × Bool

def newTreeKey (c : Cfg) (p : T) (i j : ℕ) : NKey := (p, i, j, c.α, c.usePerm)

theorem newTrees_congr (dt : Data) (c₁ c₂ : Cfg) (p : T) (i : ℕ) (hα : c₁.α = c₂.α)
    (hp : c₁.usePerm = c₂.usePerm) : newTrees dt c₁ p i = newTrees dt c₂ p i := by
  unfold newTrees pMargT pOneT pdfOf
  rw [hα, hp]

/-- **key completeness of the proposal caches.**  For a fixed data set, the proposal table of all
three proposals is a function of the key `(i, kind, op, usePerm, first, p, α)` and the new-clone
tree (with its cached densities) is a function of the key `(p, i, children, α, usePerm)`:
equal keys give equal results, whatever else differs between the two calls. -/
theorem proposal_key_complete (dt : Data) :
    (∀ (c₁ c₂ : Cfg) (first₁ first₂ : Bool) (p₁ p₂ : T) (i₁ i₂ : ℕ),
      proposalKey c₁ first₁ p₁ i₁ = proposalKey c₂ first₂ p₂ i₂ →
      table dt c₁ first₁ p₁ i₁ = table dt c₂ first₂ p₂ i₂) ∧
    (∀ (c₁ c₂ : Cfg) (p₁ p₂ : T) (i₁ i₂ j₁ j₂ : ℕ),
      newTreeKey c₁ p₁ i₁ j₁ = newTreeKey c₂ p₂ i₂ j₂ →
      newTree dt c₁ p₁ i₁ j₁ = newTree dt c₂ p₂ i₂ j₂) := by
  constructor
  · intro c₁ c₂ first₁ first₂ p₁ p₂ i₁ i₂ h
    obtain ⟨k₁, o₁, a₁, u₁⟩ := c₁
    obtain ⟨k₂, o₂, a₂, u₂⟩ := c₂
    simp only [proposalKey, Prod.mk.injEq] at h
    obtain ⟨rfl, rfl, rfl, rfl, rfl, rfl, rfl⟩ := h
    rfl
  · intro c₁ c₂ p₁ p₂ i₁ i₂ j₁ j₂ h
    simp only [newTreeKey, Prod.mk.injEq] at h
    obtain ⟨rfl, rfl, rfl, hα, hp⟩ := h
    unfold newTree
    rw [newTrees_congr dt c₁ c₂ p₁ i₁ hα hp]

/-- argument of a proposal-cache call (everything in the key except `alpha`, which is read from
`tree_dist.prior.alpha` at call time and changes between calls) -/
structure PArg where
  i : ℕ
  kind : Prop3
  op : ℚ
  usePerm : Bool
  first : Bool
  p : T

/-- the key and the unmemoised function of `_get_cached_{semi,full}_proposal_dist` in the shape of
`cache_sound`: environment = current `alpha` -/
def pKey (α : ℚ) (a : PArg) : PKey := proposalKey ⟨a.kind, a.op, α, a.usePerm⟩ a.first a.p a.i
def pTable (dt : Data) (α : ℚ) (a : PArg) : List (T × ℚ) :=
  table dt ⟨a.kind, a.op, α, a.usePerm⟩ a.first a.p a.i

/-- argument of a `get_cached_new_tree` call: `(usePerm, p, i, children)` -/
abbrev NArg := Bool × T × ℕ × ℕ
def nKey (α : ℚ) (a : NArg) : NKey := newTreeKey ⟨.semi, 0, α, a.1⟩ a.2.1 a.2.2.1 a.2.2.2
def nTree (dt : Data) (α : ℚ) (a : NArg) : Option (T × ℚ × ℚ × ℚ) :=
  newTree dt ⟨.semi, 0, α, a.1⟩ a.2.1 a.2.2.1 a.2.2.2

/-- `nTree` is the new-clone tree of any configuration with that `alpha` and permutation setting
(the proposal kind and the outlier proposal probability do not enter) -/
theorem newTree_eq_nTree (dt : Data) (c : Cfg) (p : T) (i j : ℕ) :
    newTree dt c p i j = nTree dt c.α (c.usePerm, p, i, j) :=
  (proposal_key_complete dt).2 c ⟨.semi, 0, c.α, c.usePerm⟩ p p i i j j rfl

/-- **C14 for the proposal-distribution caches**: for every history of calls (any data point,
kernel, parent particle), cache clears and `alpha` changes, at every capacity, the memoised
proposal table is the unmemoised one -/
theorem proposal_memo_sound (dt : Data) (cap : ℕ) (ops : List (Op ℚ PArg)) :
    (run pKey (pTable dt) ⟨[], cap⟩ ops).2 = direct (pTable dt) ops :=
  Cache.cache_sound_from_empty _ _
    (fun _ _ _ _ h => (proposal_key_complete dt).1 _ _ _ _ _ _ _ _ h) cap ops

/-- **C14 for `get_cached_new_tree`** -/
theorem new_tree_memo_sound (dt : Data) (cap : ℕ) (ops : List (Op ℚ NArg)) :
    (run nKey (nTree dt) ⟨[], cap⟩ ops).2 = direct (nTree dt) ops :=
  Cache.cache_sound_from_empty _ _
    (fun _ _ _ _ h => (proposal_key_complete dt).2 _ _ _ _ _ _ _ _ h) cap ops

/-! ### non-vacuity, and `alpha` is needed in the key -/

/-- two data points on a grid of size 2, one sample -/
def exDt : Data := ⟨2, 1, [[[1, 1/2]], [[1/2, 1]]], [0, 0], [1, 1]⟩
/-- parent particle: data point 0 alone in one clone -/
def exP : T := T.mk' (.cons [0] .nil .nil) []

/-- the fully-adapted table of data point 1 on `exP` at `alpha = 1`: join the clone, new clone above
it, new clone beside it -/
example : (table exDt ⟨.full, 0, 1, false⟩ false exP 1).map (·.2) = [72/101, 20/101, 9/101] ∧
    (newTrees exDt ⟨.semi, 0, 1, false⟩ exP 1).length = 2 := by decide +kernel

/-- a key omitting `alpha` is NOT sound on the real table: two configurations that agree on
`(i, kind, op, usePerm, first, p)` and have different proposal tables -/
example :
    let c₁ : Cfg := ⟨.full, 0, 1, false⟩
    let c₂ : Cfg := ⟨.full, 0, 2, false⟩
    (1, c₁.kind, c₁.op, c₁.usePerm, false, exP) = (1, c₂.kind, c₂.op, c₂.usePerm, false, exP) ∧
    table exDt c₁ false exP 1 ≠ table exDt c₂ false exP 1 := by decide +kernel

/-- … and the memo table then returns a stale proposal distribution after a concentration update,
while with `alpha` in the key the same history (alpha 1 → 2 → 1: miss, miss, hit) is served
correctly -/
example :
    let a : PArg := ⟨1, .full, 0, false, false, exP⟩
    (run (fun _ (a : PArg) => (a.i, a.kind, a.op, a.usePerm, a.first, a.p)) (pTable exDt) ⟨[], 8⟩
        [.call 1 a, .call 2 a]).2 ≠ direct (pTable exDt) [.call 1 a, .call 2 a] ∧
    (runTrace pKey (pTable exDt) ⟨[], 8⟩ [.call 1 a, .call 2 a, .call 1 a]).map (fun t => t.1) =
      [false, false, true] ∧
    (run pKey (pTable exDt) ⟨[], 8⟩ [.call 1 a, .call 2 a, .call 1 a]).2 =
      direct (pTable exDt) [.call 1 a, .call 2 a, .call 1 a] := by
  refine ⟨by decide +kernel, by decide +kernel, by decide +kernel⟩

/-- the new-clone tree depends on `alpha` too (through the cached `log_p`) -/
example : nTree exDt 1 (false, exP, 1, 0) ≠ nTree exDt 2 (false, exP, 1, 0) ∧
    (nTree exDt 1 (false, exP, 1, 0)).isSome := by decide +kernel

end PhyModel.Props.C14
