import PhyModel.Proofs.LoaderPerm
import PhyModel.Proofs.LoaderValid
/-! # C17 — input loading is order-independent and filters exactly as documented

Property theorems about the loader model `PhyModel.Loader` (`Model/Loader.lean`, tied to
`phyclone/data/pyclone.py` by the correspondence check `harness/props/c17.py`).  Helper lemmas live
in `Proofs/Loader*.lean`.  Identifiers are strings in code-point order; pandas' file parsing is
outside the model (DESIGN.md section 5). -/

namespace PhyModel.Props.C17
open PhyModel.Loader List

/-- number of rows of the raw table for mutation `m` in sample `s` with a positive major copy number -/
def usableCount (rows : List Row) (m s : String) : Nat :=
  (rows.filter fun r => decide (r.mid = m ∧ r.sample = s ∧ 0 < r.major)).length

/-! ## order independence -/

/-- **C17 (order independence).**  For every table, any permutation of its rows loads to the same
result — the same samples, mutations, per-sample entries, or the same error. -/
theorem load_perm (tc er : Bool) {rows rows' : List Row} (h : rows ~ rows') :
    load tc er rows = load tc er rows' := load_perm' tc er h

/-- the same for `load_data` without a cluster file (numbered data points) -/
theorem loadData_perm (tc er : Bool) {rows rows' : List Row} (h : rows ~ rows') :
    loadData tc er rows = loadData tc er rows' := by
  unfold loadData; rw [load_perm tc er h]

/-- the same for `load_data` with a cluster file -/
theorem loadClustered_perm (tc er : Bool) {rows rows' : List Row} (h : rows ~ rows') (cl : List CRow) (op : Rat) :
    loadClustered tc er rows cl op = loadClustered tc er rows' cl op := by
  unfold loadClustered; rw [load_perm tc er h]

/-! ## the filter -/

/-- **C17 (filter).**  Whenever the table is loaded (no offset mix, no `major < minor`; see
`load_ok_iff`) and has at least one usable row: the samples are exactly the sample ids that keep a
usable row, and a mutation is among the loaded data exactly when every sample has exactly one row
for it with a positive major copy number — missing in a sample, zero major copy number in a
sample, or duplicated all drop it entirely. -/
theorem kept_iff {tc er : Bool} {rows : List Row} {ss : List String} {data : List (String × List Entry)}
    (h : load tc er rows = .ok (ss, data)) :
    (∀ s, s ∈ ss ↔ ∃ r ∈ rows, r.sample = s ∧ 0 < r.major) ∧
    (ss ≠ [] → ∀ m, m ∈ data.map (·.1) ↔ ∀ s ∈ ss, usableCount rows m s = 1) := by
  refine ⟨fun s => ?_, fun hne m => kept_iff' h hne m⟩
  rw [(load_ok_shape h).1, mem_samplesOf]
  constructor
  · rintro ⟨r, hr, rfl⟩
    exact ⟨r, (mem_positive.mp hr).1, rfl, (mem_positive.mp hr).2⟩
  · rintro ⟨r, hr, rfl, hp⟩
    exact ⟨r, mem_positive.mpr ⟨hr, hp⟩, rfl⟩

/-- the property's precondition, on the raw table: the table is loaded exactly when it has no
"extra rows in one sample offset missing rows in another" mix and no surviving row with
`major < minor` (so `kept_iff`'s hypothesis is exactly the property's stated domain) -/
theorem load_ok_iff {tc er : Bool} {rows : List Row} :
    (∃ res, load tc er rows = .ok res) ↔ NoOffsetMix rows ∧ ∀ r ∈ keptRows rows, ¬ r.major < r.minor :=
  load_ok_iff'

/-- **C17 (degenerate mix rejected).**  A mutation whose usable-row count equals the number of
samples although some sample does not hold exactly one of them makes the load fail with an error
(it is not silently filtered). -/
theorem degenerate_rejected {tc er : Bool} {rows : List Row} (h : ¬ NoOffsetMix rows) :
    ∃ e, load tc er rows = .error e := by
  cases hl : load tc er rows with
  | error e => exact ⟨e, rfl⟩
  | ok res => exact absurd (load_ok_iff.mp ⟨res, hl⟩).1 h

/-- **C17 (copy-number validation).**  A row that survives the filters with a major copy number
below the minor one makes the load fail; when there is no offset mix the error is the
copy-number error of such a row. -/
theorem major_lt_minor_rejected {tc er : Bool} {rows : List Row}
    (h : ∃ r ∈ keptRows rows, r.major < r.minor) :
    (∃ e, load tc er rows = .error e) ∧
    (NoOffsetMix rows → ∃ r ∈ keptRows rows, r.major < r.minor ∧
      load tc er rows = .error (.majorLtMinor r.major r.minor)) := by
  have herr : ∃ e, load tc er rows = .error e := by
    cases hl : load tc er rows with
    | error e => exact ⟨e, rfl⟩
    | ok res =>
      obtain ⟨r, hr, hlt⟩ := h
      exact absurd hlt ((load_ok_iff.mp ⟨res, hl⟩).2 r hr)
  refine ⟨herr, fun hno => ?_⟩
  obtain ⟨e, he⟩ := herr
  obtain ⟨r, hr, hlt, rfl⟩ := load_error_kind hno he
  exact ⟨r, hr, hlt, he⟩

/-! ## numbering and order -/

/-- **C17 (numbering).**  The loaded data points are numbered `0..n-1`, their names are the kept
mutation ids in strictly increasing order, the samples are in strictly increasing order, and each
data point has one entry per sample, in sample order, built from that sample's (unique, by
`kept_iff`) usable row of the mutation. -/
theorem numbering_sorted {tc er : Bool} {rows : List Row} {ss : List String}
    {dps : List (Nat × String × List Entry)} (h : loadData tc er rows = .ok (ss, dps)) :
    ss.Pairwise (· < ·) ∧
    (dps.map (·.2.1)).Pairwise (· < ·) ∧
    (∀ i (hi : i < dps.length), dps[i].1 = i) ∧
    (∀ d ∈ dps, Forall₂ (fun s e => ∃ r ∈ rows, r.mid = d.2.1 ∧ r.sample = s ∧ 0 < r.major ∧
        entry tc er r = .ok e) ss d.2.2) := by
  unfold loadData at h
  cases hl : load tc er rows with
  | error e => simp [hl] at h
  | ok res =>
    obtain ⟨ss', data⟩ := res
    simp only [hl, Except.ok.injEq, Prod.mk.injEq] at h
    obtain ⟨rfl, rfl⟩ := h
    have hstrict : ∀ l : List String, (sortedDistinct strLe l).Pairwise (· < ·) := fun l =>
      (sortedDistinct_strict strLe_order l).imp fun {a b} hab =>
        lt_of_le_of_ne (by simpa [strLe] using hab.1) hab.2
    have hshape := load_ok_shape hl
    refine ⟨?_, ?_, ?_, ?_⟩
    · rw [hshape.1]; exact hstrict _
    · have : (enumFrom 0 data).map (·.2.1) = data.map (·.1) := by
        conv_rhs => rw [← enumFrom_map_snd 0 data, map_map]
        rfl
      rw [this, load_ok_names hl]; exact hstrict _
    · intro i hi
      have := enumFrom_getElem? 0 data i
      rw [getElem?_eq_getElem hi] at this
      cases hd : data[i]? with
      | none => simp [hd] at this
      | some a => simp only [hd, Option.map_some, Option.some.injEq] at this; rw [this]; simp
    · intro d hd
      have hd' : d.2 ∈ data := by
        have : d.2 ∈ (enumFrom 0 data).map (·.2) := mem_map.mpr ⟨d, hd, rfl⟩
        rwa [enumFrom_map_snd] at this
      -- locate `d.2` in the shape relation
      have key : ∀ {ms : List String} {ds : List (String × List Entry)},
          Forall₂ (fun m d => d.1 = m ∧ Forall₂ (CellOk tc er (keptRows rows) m) ss' d.2) ms ds →
          ∀ x ∈ ds, Forall₂ (CellOk tc er (keptRows rows) x.1) ss' x.2 := by
        intro ms ds hf
        induction hf with
        | nil => intro x hx; simp at hx
        | cons hh _ ih =>
          intro x hx
          rcases mem_cons.mp hx with rfl | hx
          · rw [hh.1]; exact hh.2
          · exact ih x hx
      refine (key hshape.2 d.2 hd').imp ?_
      rintro s e ⟨r, hr, he⟩
      have hmem : r ∈ cell (keptRows rows) d.2.1 s := hr ▸ mem_singleton.mpr rfl
      obtain ⟨hk, hm, hs⟩ := mem_cell.mp hmem
      have hp := mem_positive.mp (keptRows_subset_positive hk)
      exact ⟨r, hp.1, hm, hs, hp.2, he⟩

/-- **C17 (numbering, cluster file).**  With a cluster file the data points are the clusters that
contain at least one kept mutation, numbered `0..n-1` in strictly increasing cluster-id order. -/
theorem numbering_sorted_clusters {tc er : Bool} {rows : List Row} {cl : List CRow} {op : Rat}
    {ss : List String} {cs : List Cluster} (h : loadClustered tc er rows cl op = .ok (ss, cs)) :
    (cs.map (·.cid)).Pairwise (· < ·) ∧
    (∀ i (hi : i < cs.length), cs[i].idx = i) ∧
    (∀ c ∈ cs, c.members ≠ []) := by
  unfold loadClustered at h
  cases hl : load tc er rows with
  | error e => simp [hl] at h
  | ok res =>
    obtain ⟨ss', data⟩ := res
    simp only [hl] at h
    cases ha : mapE (assignOne (dropDups [] cl)) data with
    | error e => simp [ha] at h
    | ok assigned =>
      simp only [ha, Except.ok.injEq, Prod.mk.injEq] at h
      obtain ⟨rfl, rfl⟩ := h
      unfold clustersOf
      have hcid : ((enumFrom 0 (sortedDistinct natLe (assigned.map (·.2)))).map
          (mkCluster (dropDups [] cl) op assigned)).map (·.cid) = sortedDistinct natLe (assigned.map (·.2)) := by
        rw [map_map]
        conv_rhs => rw [← enumFrom_map_snd 0 (sortedDistinct natLe (assigned.map (·.2)))]
        rfl
      refine ⟨?_, ?_, ?_⟩
      · rw [hcid]
        exact (sortedDistinct_strict natLe_order _).imp fun {a b} hab =>
          Nat.lt_of_le_of_ne (by simpa [natLe] using hab.1) hab.2
      · intro i hi
        rw [getElem_map]
        have hi' : i < (enumFrom 0 (sortedDistinct natLe (assigned.map (·.2)))).length := by simpa using hi
        have := enumFrom_getElem? 0 (sortedDistinct natLe (assigned.map (·.2))) i
        rw [getElem?_eq_getElem hi'] at this
        cases hd : (sortedDistinct natLe (assigned.map (·.2)))[i]? with
        | none => simp [hd] at this
        | some a =>
          simp only [hd, Option.map_some, Option.some.injEq] at this
          rw [this]; simp [mkCluster]
      · intro c hc
        obtain ⟨ic, hic, rfl⟩ := mem_map.mp hc
        have h2 : ic.2 ∈ sortedDistinct natLe (assigned.map (·.2)) := by
          have : ic.2 ∈ (enumFrom 0 (sortedDistinct natLe (assigned.map (·.2)))).map (·.2) := mem_map.mpr ⟨ic, hic, rfl⟩
          rwa [enumFrom_map_snd] at this
        obtain ⟨a, ha1, ha2⟩ := mem_map.mp (mem_sortedDistinct.mp h2)
        have : a.1 ∈ (mkCluster (dropDups [] cl) op assigned ic).members := by
          unfold mkCluster
          exact mem_map.mpr ⟨a, mem_filter.mpr ⟨ha1, by simpa using ha2⟩, rfl⟩
        exact ne_nil_of_mem this

/-- **C17 (cluster contents).**  With a cluster file, the kept mutations — exactly those of the
plain load, so `kept_iff` applies — are distributed over the cluster data points: every kept
mutation is a member of some data point, and data points have no other members. -/
theorem cluster_members {tc er : Bool} {rows : List Row} {cl : List CRow} {op : Rat}
    {ss : List String} {cs : List Cluster} (h : loadClustered tc er rows cl op = .ok (ss, cs)) :
    ∃ data, load tc er rows = .ok (ss, data) ∧
      (∀ m ∈ data.map (·.1), ∃ c ∈ cs, m ∈ c.members) ∧
      (∀ c ∈ cs, ∀ m ∈ c.members, m ∈ data.map (·.1)) := by
  unfold loadClustered at h
  cases hl : load tc er rows with
  | error e => simp [hl] at h
  | ok res =>
    obtain ⟨ss', data⟩ := res
    simp only [hl] at h
    cases ha : mapE (assignOne (dropDups [] cl)) data with
    | error e => simp [ha] at h
    | ok assigned =>
      simp only [ha, Except.ok.injEq, Prod.mk.injEq] at h
      obtain ⟨rfl, rfl⟩ := h
      have hfst : ∀ {d : String × List Entry} {a : String × Nat}, assignOne (dropDups [] cl) d = .ok a → a.1 = d.1 := by
        intro d a hda
        unfold assignOne at hda
        split at hda
        · cases hda
        · simp only [Except.ok.injEq] at hda; rw [← hda]
      refine ⟨data, rfl, ?_, ?_⟩
      · intro m hm
        obtain ⟨d, hd, rfl⟩ := mem_map.mp hm
        obtain ⟨a, ha1, ha2⟩ := mapE_ok_mem ha hd
        have hcid : a.2 ∈ sortedDistinct natLe (assigned.map (·.2)) :=
          mem_sortedDistinct.mpr (mem_map.mpr ⟨a, ha1, rfl⟩)
        rw [← enumFrom_map_snd 0 (sortedDistinct natLe (assigned.map (·.2)))] at hcid
        obtain ⟨ic, hic, hic2⟩ := mem_map.mp hcid
        refine ⟨mkCluster (dropDups [] cl) op assigned ic, mem_map.mpr ⟨ic, hic, rfl⟩, ?_⟩
        unfold mkCluster
        exact mem_map.mpr ⟨a, mem_filter.mpr ⟨ha1, by simpa using hic2.symm⟩, hfst ha2⟩
      · intro c hc m hm
        obtain ⟨ic, _, rfl⟩ := mem_map.mp hc
        unfold mkCluster at hm
        obtain ⟨a, ha1, rfl⟩ := mem_map.mp hm
        obtain ⟨d, hd, hda⟩ := mapE_ok_mem_right ha (mem_filter.mp ha1).1
        exact mem_map.mpr ⟨d, hd, (hfst hda).symm⟩

/-! ## defaults -/

/-- **C17 (defaults).**  When the table has no `tumour_content` column every entry's tumour
content is 1.0; when it has no `error_rate` column every genotype row uses the error rate 0.001;
when the columns are present the row's own values are used. -/
theorem defaults {tc er : Bool} {r : Row} {e : Entry} (h : entry tc er r = .ok e) :
    e.a = r.ref ∧ e.b = r.alt ∧
    (tc = false → e.t = 1) ∧ (tc = true → e.t = r.tc) ∧
    (er = false → ∀ g ∈ e.mu, g.1 = 1 / 1000 ∧ g.2.1 = 1 / 1000) ∧
    (er = true → ∀ g ∈ e.mu, g.1 = r.err ∧ g.2.1 = r.err) := by
  obtain ⟨ha, hb, ht, hm⟩ := entry_spec h
  refine ⟨ha, hb, ?_, ?_, ?_, ?_⟩
  · rintro rfl; simpa [defaultTumourContent] using ht
  · rintro rfl; simpa using ht
  · rintro rfl; simpa [defaultErrorRate] using majorCnPrior_mu hm
  · rintro rfl; simpa using majorCnPrior_mu hm

/-! ## non-vacuity: a concrete table (2 samples; `m0` complete, `m1` missing in `S1`, `m2` with
major copy number zero in `S1`) on which the hypotheses of the theorems above hold -/

section Examples

private def a0 : Row := ⟨"m0", "S1", 10, 5, 2, 1, 2, 1, 0⟩
private def a1 : Row := ⟨"m0", "S2", 7, 3, 1, 1, 2, 1, 0⟩
private def b1 : Row := ⟨"m1", "S2", 4, 4, 1, 0, 2, 1, 0⟩
private def c0 : Row := ⟨"m2", "S1", 9, 1, 0, 0, 2, 1, 0⟩
private def c1 : Row := ⟨"m2", "S2", 9, 1, 1, 1, 2, 1, 0⟩
private def exRows : List Row := [a0, a1, b1, c0, c1]

private theorem ex_samples : samplesOf (positive exRows) = ["S1", "S2"] := by
  unfold samplesOf
  rw [sortedDistinct_of_sorted (by decide)]
  decide

private theorem ex_kept : keptRows exRows = [a0, a1] := by
  unfold keptRows
  rw [ex_samples]
  decide

private theorem ex_muts : mutsOf (keptRows exRows) = ["m0"] := by
  rw [ex_kept]
  unfold mutsOf
  rw [sortedDistinct_of_sorted (by decide)]
  decide

private theorem ex_load : ∃ e0 e1, load false false exRows = .ok (["S1", "S2"], [("m0", [e0, e1])]) := by
  unfold load
  rw [ex_muts, ex_samples, ex_kept]
  simp [mapE, mutEntries, cellEntry, cell, pick, a0, a1, entry, majorCnPrior]

/-- `load_perm`: a genuine (non-identity) permutation of a table with kept and dropped mutations -/
example : exRows ~ exRows.reverse ∧ exRows ≠ exRows.reverse := ⟨(reverse_perm _).symm, by decide⟩

/-- `kept_iff`, `load_ok_iff`: the table loads, has samples, keeps `m0` and drops `m1`, `m2` -/
example : ∃ ss data, load false false exRows = .ok (ss, data) ∧ ss ≠ [] ∧
    "m0" ∈ data.map (·.1) ∧ "m1" ∉ data.map (·.1) ∧ "m2" ∉ data.map (·.1) := by
  obtain ⟨e0, e1, h⟩ := ex_load
  exact ⟨_, _, h, by simp, by simp, by simp, by simp⟩

/-- ... and the right-hand side of `kept_iff` is true for `m0`, false for `m1` and `m2` -/
example : (∀ s ∈ ["S1", "S2"], usableCount exRows "m0" s = 1) ∧ usableCount exRows "m1" "S1" = 0 ∧
    usableCount exRows "m2" "S1" = 0 := by decide

/-- `numbering_sorted`: a successful `loadData` with a data point -/
example : ∃ ss d, loadData false false exRows = .ok (ss, [d]) := by
  obtain ⟨e0, e1, h⟩ := ex_load
  refine ⟨["S1", "S2"], (0, "m0", [e0, e1]), ?_⟩
  simp [loadData, h, enumFrom]

/-- `numbering_sorted_clusters`, `cluster_members`: a successful clustered load (one cluster with a
kept member; the cluster of the dropped `m1` disappears) -/
example : ∃ ss cs, loadClustered false false exRows [⟨"m0", 3, none⟩, ⟨"m1", 1, none⟩] (1 / 10000) = .ok (ss, cs) := by
  obtain ⟨e0, e1, h⟩ := ex_load
  refine ⟨["S1", "S2"], clustersOf [⟨"m0", 3, none⟩, ⟨"m1", 1, none⟩] (1 / 10000) [("m0", 3)], ?_⟩
  simp [loadClustered, h, mapE, assignOne, dropDups, lastWhere]

/-- `defaults`: an entry built with both optional columns absent -/
example : ∃ e, entry false false a0 = .ok e := entry_ok_iff.mpr (by decide)

private def badRows : List Row := [⟨"m0", "S1", 1, 1, 1, 2, 2, 1, 0⟩]

/-- `major_lt_minor_rejected`: a one-row table whose row survives the filters with major 1 < minor 2,
and which has no offset mix -/
example : (∃ r ∈ keptRows badRows, r.major < r.minor) ∧ NoOffsetMix badRows := by
  have hs : samplesOf (positive badRows) = ["S1"] := by
    unfold samplesOf; rw [sortedDistinct_of_sorted (by decide)]; decide
  have hk : keptRows badRows = badRows := by unfold keptRows; rw [hs]; decide
  refine ⟨?_, ?_⟩
  · rw [hk]; decide
  · intro m _ s hsm
    rw [hs, mem_singleton] at hsm
    subst hsm
    by_cases hm : m = "m0"
    · subst hm; decide
    · have : countMut (positive badRows) m = 0 := by
        simp [countMut, positive, badRows, Ne.symm hm]
      rename_i hc
      rw [this, hs] at hc
      cases hc

private def mixRows : List Row :=
  [⟨"m0", "S1", 1, 1, 1, 1, 2, 1, 0⟩, ⟨"m0", "S1", 2, 2, 1, 1, 2, 1, 0⟩,
   ⟨"m1", "S1", 1, 1, 1, 1, 2, 1, 0⟩, ⟨"m1", "S2", 1, 1, 1, 1, 2, 1, 0⟩]

/-- `degenerate_rejected`: two rows of `m0` in `S1` offset the missing row in `S2` -/
example : ¬ NoOffsetMix mixRows := by
  have hs : samplesOf (positive mixRows) = ["S1", "S2"] := by
    unfold samplesOf; rw [sortedDistinct_of_sorted (by decide)]; decide
  intro h
  have := h "m0" (by rw [hs]; decide) "S2" (by rw [hs]; decide)
  revert this
  decide

end Examples

end PhyModel.Props.C17
