import PhyModel.Proofs.Gibbs
import PhyModel.Model.Moves
/-! # C04 — data-point, prune-regraft and subtree moves preserve the same posterior

`gibbs_block_invariant` is the argument behind the data-point move and the prune-regraft move: a
move that picks a choice `c` (which data point / which subtree) with a probability that is constant
on the blocks of an equivalence relation `rel c` (trees differing only in where that data point sits
/ where that subtree is attached) and redraws the state within the block proportionally to π leaves π
invariant.  `sweep_invariant`: any sequence of π-invariant kernels is π-invariant, so every
interleaving of the moves in a sweep has π as stationary distribution.

The executable models `Moves.dataPointMove`, `Moves.pruneRegraft`, `Moves.subtreeMove` are compared
transition row by transition row with the exact kernels of the real samplers.  For the random-subtree
particle-Gibbs move the unconditional statement is FALSE of model and code (known finding F7: the
region is selected with a state-dependent, uncorrected probability); the pinned counter-instances are
evaluated on every run. -/

namespace PhyModel.Props.C04
open Finset BigOperators

theorem gibbs_block_invariant {X Cc : Type} [Fintype X] [Fintype Cc] [DecidableEq X]
    (π : X → ℚ) (hπ : ∀ x, 0 ≤ π x)
    (r : X → Cc → ℚ) (hr : ∀ x, π x ≠ 0 → ∑ c, r x c = 1)
    (rel : Cc → X → X → Prop) [∀ c x z, Decidable (rel c x z)]
    (hrefl : ∀ c x, rel c x x) (hsymm : ∀ c x z, rel c x z → rel c z x)
    (htrans : ∀ c x z w, rel c x z → rel c z w → rel c x w)
    (hconst : ∀ c x z, rel c x z → r x c = r z c) (y : X) :
    ∑ x, π x * (∑ c, r x c * (if rel c x y then π y / (∑ z, if rel c x z then π z else 0) else 0))
      = π y :=
  Moves.gibbs_block_invariant π hπ r hr rel hrefl hsymm htrans hconst y

/-- composition of two π-invariant kernels is π-invariant (hence any finite interleaving is) -/
theorem sweep_invariant {X : Type} [Fintype X] (π : X → ℚ) (P Q : X → X → ℚ)
    (hP : ∀ y, ∑ x, π x * P x y = π y) (hQ : ∀ y, ∑ x, π x * Q x y = π y) (z : X) :
    ∑ x, π x * (∑ y, P x y * Q y z) = π z := by
  have : ∑ x, π x * (∑ y, P x y * Q y z) = ∑ y, (∑ x, π x * P x y) * Q y z := by
    simp only [Finset.mul_sum, Finset.sum_mul]
    rw [Finset.sum_comm]
    apply Finset.sum_congr rfl; intro y _
    apply Finset.sum_congr rfl; intro x _; ring
  rw [this]
  simp only [hP]
  exact hQ z

-- OBLIGATION-OPEN dataPoint_invariant: instantiate gibbs_block_invariant with `Moves.dpStep` (blocks = trees differing only in the location of data point i among clones that keep >= 1 other point, or the outlier set) and lift through the uniformly random scan order
-- OBLIGATION-OPEN pruneRegraft_invariant: instantiate gibbs_block_invariant with `Moves.pruneRegraft` (choice = subtree root, uniform over the constant number of clones; block = re-attachments of the pruned subtree)
-- OBLIGATION-OPEN subtree_invariant: FALSE of model and code (known finding F7); the conditional statement (given the selected region, the re-weighted conditional SMC targets the full-tree density) is not yet formalised

end PhyModel.Props.C04
