import PhyModel.Proofs.Gibbs
import PhyModel.Model.Moves
import PhyModel.Proofs.MovesDpBlock3
import PhyModel.Proofs.MovesPrBlock4
import PhyModel.Proofs.PGSub7
import PhyModel.Proofs.PGSubExample
import PhyModel.Proofs.PGExample
import PhyModel.Proofs.Sweep2
import PhyModel.Proofs.SweepExample
/-! # C04 — data-point, prune-regraft and subtree moves preserve the same posterior

`gibbs_block_invariant` is the argument behind the data-point move and the prune-regraft move: a
move that picks a choice `c` (which data point / which subtree) with a probability that is constant
on the blocks of an equivalence relation `rel c` (trees differing only in where that data point sits
/ where that subtree is attached) and redraws the state within the block proportionally to π leaves π
invariant.  `sweep_invariant`: any sequence of π-invariant kernels is π-invariant, so every
interleaving of the moves in a sweep has π as stationary distribution.

`dpStep_invariant`, `dataPointMove_invariant`, `pruneRegraft_invariant` prove the statement for the
executable models `Moves.dpStep`, `Moves.dataPointMove`, `Moves.pruneRegraft` themselves, on any
duplicate-free list of well-formed trees closed under the move, through a list-level Gibbs lemma
(`categorical_gibbs_reversible`) and the fact that `Forest.canon` is a canonical form for "same tree up
to sibling order" (`Proofs/MovesCanon*.lean`); `move_sequence_invariant` composes them.

The executable models `Moves.dataPointMove`, `Moves.pruneRegraft`, `Moves.subtreeMove` are compared
transition row by transition row with the exact kernels of the real samplers.  For the random-subtree
particle-Gibbs move the unconditional statement is FALSE of model and code (known finding F7: the
region is selected with a state-dependent, uncorrected probability); the pinned counter-instances are
evaluated on every run.  What IS true of the move, and proved below for the executable model
(`subtreeMove_factors`, `subtree_conditional_invariant`): `Moves.subtreeMove` is "choose the region, then
`Moves.subtreeGiven`", and **given the region** (remaining forest `rem`, graft point `gk`, region data
`D` = the region's clone data and all outliers) `Moves.subtreeGiven` is a particle-Gibbs update whose
invariant distribution is the full-tree posterior restricted to the trees `graftBack rem gk y`:
`Σ_x pOne(full x) · P(subtreeGiven x = full y) = pOne(full y)` over the complete subtrees on `D`, for all
three proposals, every `N ≥ 1` and every threshold.  The abstract argument is conditional SMC whose
final selection uses the weights `w · h(x)` (`csmc_corrected_invariant`), also under the code's
schedule for a single data point, where the swarm is resampled on the uncorrected weights BEFORE the
correction (`csmc_corrected_invariant_final_resample`).

**The whole sweep** (last section): C01's `pg_invariant` and the two move theorems above are brought onto one
finite state space — `Sweep.space c D`, the complete well-formed canonical trees on the data points `D`
(`sweep_state_space`, `sweep_kernels_invariant`) — and composed: one iteration of `run.py:_run_main_sampler`
with `subtree_update_prob = 0` (`Sweep.sweepModel`: particle Gibbs, `k₁` data-point scans, `k₂`
prune-regraft moves) leaves `pOne` invariant (`full_sweep_invariant`), and so does any number of
iterations at a fixed concentration value (`chain_invariant`). -/

namespace PhyModel.Props.C04
open Finset BigOperators

theorem gibbs_block_invariant {X Cc : Type} [Fintype X] [Fintype Cc] [DecidableEq X]
    (π : X → ℚ) (hπ : ∀ x, 0 ≤ π x)
    (r : X → Cc → ℚ) (hr : ∀ x, π x ≠ 0 → ∑ c, r x c = 1)
    (rel : Cc → X → X → Prop) [∀ c x z, Decidable (rel c x z)]
    (hrefl : ∀ c x, rel c x x) (hsymm : ∀ c x z, rel c x z → rel c z x)
    (htrans : ∀ c x z w, rel c x z → rel c z w → rel c x w)
    (hconst : ∀ c x z, rel c x z → r x c = r z c) (y : X) :
    ∑ x, π x * (∑ c, r x c * (if rel c x y then π y / (∑ z, if rel c x z then π z else 0) else 0))
      = π y :=
  Moves.gibbs_block_invariant π hπ r hr rel hrefl hsymm htrans hconst y

/-- composition of two π-invariant kernels is π-invariant (hence any finite interleaving is) -/
theorem sweep_invariant {X : Type} [Fintype X] (π : X → ℚ) (P Q : X → X → ℚ)
    (hP : ∀ y, ∑ x, π x * P x y = π y) (hQ : ∀ y, ∑ x, π x * Q x y = π y) (z : X) :
    ∑ x, π x * (∑ y, P x y * Q y z) = π z := by
  have : ∑ x, π x * (∑ y, P x y * Q y z) = ∑ y, (∑ x, π x * P x y) * Q y z := by
    simp only [Finset.mul_sum, Finset.sum_mul]
    rw [Finset.sum_comm]
    apply Finset.sum_congr rfl; intro y _
    apply Finset.sum_congr rfl; intro x _; ring
  rw [this]
  simp only [hP]
  exact hQ z

/-! ## The model's moves

State space: any duplicate-free list `S` of well-formed trees (`Canon.WFT`: canonical
representation, data points pairwise distinct and below the sentinel `Forest.big`, no empty clone)
that is closed under the move.  Invariance is stated in expectation form,
`Σ_{x ∈ S} π x · E[h(move x)] = Σ_{x ∈ S} π x · h x` for every test function `h`, and in target
form `Σ_{x ∈ S} π x · P(x → y) = π y`, with `π = Moves.pOneOf c` (`log_p_one`, the density the
trace records).  `0 ≤ π` on `S` is a hypothesis (it holds for likelihood data and `α ≥ 0`). -/

open PhyModel.Moves PhyModel.Gibbs PhyModel.Canon

/-- Detailed balance of the list-level Gibbs kernel: if the candidate lists form blocks on `S`
(`x ∈ cands x`, no repeats, candidates stay in `S`, the candidates of a candidate are a permutation
of the original candidates) then `w x · P(x → y) = w y · P(y → x)`. -/
theorem categorical_gibbs_reversible {X : Type} [DecidableEq X] (S : List X) (cands : X → List X)
    (w : X → ℚ) (hB : Block S cands) (x y : X) (hx : x ∈ S) (hy : y ∈ S) :
    w x * Dist.E (Dist.categorical ((cands x).map fun t => (t, w t))) (fun t => if t = y then 1 else 0)
      = w y * Dist.E (Dist.categorical ((cands y).map fun t => (t, w t))) (fun t => if t = x then 1 else 0) :=
  Gibbs.categorical_gibbs_reversible S cands w hB x y hx hy

/-- One Gibbs reassignment of data point `i` (`DataPointSampler._sample_tree`; the identity when `i`
is the only member of its clone) leaves `π` invariant. -/
theorem dpStep_invariant (c : Moves.Cfg) (i : Nat) (S : List T) (hS : S.Nodup)
    (hwf : ∀ x ∈ S, WFT x) (hout : c.outliers = false → ∀ x ∈ S, x.out = [])
    (hcl : ∀ x ∈ S, ∀ yq ∈ dpStep c x i, yq.1 ∈ S)
    (hπ : ∀ x ∈ S, 0 ≤ pOneOf c x) (h : T → ℚ) :
    (S.map fun x => pOneOf c x * Dist.E (dpStep c x i) h).sum = (S.map fun x => pOneOf c x * h x).sum :=
  Canon.dpStep_invariant c i S hS hwf hout hcl hπ h

/-- The data-point move (`DataPointSampler.sample_tree`: one Gibbs scan over the data set `base` in a
uniformly random order) leaves `π` invariant, with and without the outlier option. -/
theorem dataPointMove_invariant (c : Moves.Cfg) (S : List T) (base : List Nat) (hS : S.Nodup)
    (hbase : base.Nodup) (hwf : ∀ x ∈ S, WFT x) (hdata : ∀ x ∈ S, (x.f.all ++ x.out).Perm base)
    (hout : c.outliers = false → ∀ x ∈ S, x.out = [])
    (hcl : ∀ i ∈ base, ∀ x ∈ S, ∀ yq ∈ dpStep c x i, yq.1 ∈ S)
    (hπ : ∀ x ∈ S, 0 ≤ pOneOf c x) (h : T → ℚ) :
    (S.map fun x => pOneOf c x * Dist.E (dataPointMove c x) h).sum
      = (S.map fun x => pOneOf c x * h x).sum :=
  dataPointMove_invariant_of_steps c S base hbase hdata
    (fun i hi => Canon.dpStep_invariant c i S hS hwf hout (hcl i hi) hπ) h

/-- The prune-regraft move (`PruneRegraphSampler.sample_tree`: uniform choice of the subtree root,
then a Gibbs draw among the re-attachments `Moves.prCands` of the pruned subtree) leaves `π`
invariant. -/
theorem pruneRegraft_invariant (c : Moves.Cfg) (S : List T) (hS : S.Nodup) (hwf : ∀ x ∈ S, WFT x)
    (hcl : ∀ x ∈ S, ∀ sub ∈ nodesOf x.f, ∀ y ∈ prCands x sub, y ∈ S)
    (hπ : ∀ x ∈ S, 0 ≤ pOneOf c x) (h : T → ℚ) :
    (S.map fun x => pOneOf c x * Dist.E (pruneRegraft c x) h).sum
      = (S.map fun x => pOneOf c x * h x).sum :=
  Canon.pruneRegraft_invariant c S hS hwf hcl hπ h

/-- Any finite interleaving of kernels that leave `π` invariant on `S` (in particular of the two moves
above) leaves `π` invariant, in expectation form and per target tree. -/
theorem move_sequence_invariant (π : T → ℚ) (S : List T) (Ks : List (T → Dist T))
    (hK : ∀ K ∈ Ks, ∀ h : T → ℚ,
      (S.map fun x => π x * Dist.E (K x) h).sum = (S.map fun x => π x * h x).sum) :
    (∀ h : T → ℚ, (S.map fun x => π x * Dist.E (seqK Ks x) h).sum = (S.map fun x => π x * h x).sum) ∧
    (S.Nodup → ∀ y ∈ S,
      (S.map fun x => π x * Dist.E (seqK Ks x) (fun t => if t = y then 1 else 0)).sum = π y) :=
  ⟨Inv.seq Ks hK, fun hS _ hy => Inv.target (Inv.seq Ks hK) hS hy⟩

/-! ### Non-vacuity: three data points, outlier option on -/

def exData : Data :=
  { G := 2, S := 1, vals := [[[1/2, 1/4]], [[1/4, 1]], [[1/3, 1/2]]], op := [1/5, 1/5, 1/5], sz := [1, 1, 1] }
def exCfg : Moves.Cfg := { dt := exData, α := 1, outliers := true }

/-- closure of a start list under a successor function (`n` rounds) -/
def closeUnder (step : T → List T) : Nat → List T → List T
  | 0, S => S
  | n+1, S => closeUnder step n (S ++ S.flatMap step).eraseDups

/-- the 19 trees reachable by data-point steps from the one-clone tree on `{0,1,2}` and from the
parent/child tree `{0,1} → {2}` -/
def exDp : List T :=
  closeUnder (fun x => [0, 1, 2].flatMap fun i => (dpStep exCfg x i).map (·.1)) 4
    [⟨.cons [0, 1] (.cons [2] .nil .nil) .nil, []⟩, ⟨.cons [0, 1, 2] .nil .nil, []⟩]

/-- the 16 trees on three single-point clones -/
def exPr : List T :=
  closeUnder (fun x => (nodesOf x.f).flatMap (prCands x)) 3
    [⟨.cons [0] .nil (.cons [1] .nil (.cons [2] .nil .nil)), []⟩]

/-- hypotheses of `dpStep_invariant` / `dataPointMove_invariant` -/
example : exDp.length = 19 ∧ exDp.Nodup ∧ (∀ x ∈ exDp, WFT x) ∧
    (∀ x ∈ exDp, (x.f.all ++ x.out).Perm [0, 1, 2]) ∧
    (∀ i ∈ [0, 1, 2], ∀ x ∈ exDp, ∀ yq ∈ dpStep exCfg x i, yq.1 ∈ exDp) ∧
    (∀ x ∈ exDp, 0 ≤ pOneOf exCfg x) := by decide +kernel

/-- hypotheses of `pruneRegraft_invariant` -/
example : exPr.length = 16 ∧ exPr.Nodup ∧ (∀ x ∈ exPr, WFT x) ∧
    (∀ x ∈ exPr, ∀ sub ∈ nodesOf x.f, ∀ y ∈ prCands x sub, y ∈ exPr) ∧
    (∀ x ∈ exPr, 0 ≤ pOneOf exCfg x) := by decide +kernel

/-- hypotheses of `categorical_gibbs_reversible`: the candidates of data point 0 on the movable trees -/
example : Block (exDp.filter fun x => dpMovable x 0) (fun x => dpCands true x 0) := by decide +kernel

/-! ## The random-subtree move, given the region

`ParticleGibbsSubtreeSampler.sample_tree` picks a data point, takes the parent of its clone as the root
of the region, extracts that subtree with all outliers, runs `sample_swarm` (conditional SMC targeting
the **subtree's** density), multiplies every weight by `pOne(full tree) / pOne(subtree)`
(`_correct_weights`) and draws.  Abstractly that is conditional SMC with a corrected final selection. -/

/-- **Conditional SMC with corrected final weights.**  `ASMC.kernelH sp u h T`: the `T` steps of the
sweep of `sp` (retained path in slot 0, any number `m + 1` of particles, adaptive resampling by any
slot-symmetric rule), then every weight `w_k` is replaced by `w_k · h(x_k)` and the result is drawn in
proportion to those.  For `h` positive on the support of the last-level target, it leaves `g T · h`
invariant. -/
theorem csmc_corrected_invariant {X : Type} [Fintype X] [DecidableEq X] {m : ℕ}
    (sp : ASMC.Spec (m := m) X) (u : ℚ) (T : ℕ) (hv : ASMC.ValidTo sp T) (hu : 0 < u) (h : X → ℚ)
    (hh : ∀ x, 0 < sp.g T x → 0 < h x) (y : X) :
    ∑ x, (sp.g T x * h x) * ASMC.kernelH sp u h T x y = sp.g T y * h y :=
  ASMC.csmc_corrected_invariant hv hu hh y

/-- **… under the code's schedule for a single data point.**  `ASMC.kernelRH`: after the `T` steps the
swarm is resampled if the rule fires **on the uncorrected weights** (slot 0 kept, the other slots drawn
from the normalised uncorrected weights, all weights reset to `u`), only then corrected by `h`, then
drawn — `sample_swarm` (whose `sample()` resamples after `_init_swarm`), `_correct_weights`, the draw.
It leaves `g T · h` invariant too (every `T`); `ASMC.kernelXH` = `kernelRH` if `T = 1`, else `kernelH`,
is what `SMC.csmc` followed by the corrected draw computes. -/
theorem csmc_corrected_invariant_final_resample {X : Type} [Fintype X] [DecidableEq X] {m : ℕ}
    (sp : ASMC.Spec (m := m) X) (u : ℚ) (T : ℕ) (hv : ASMC.ValidTo sp T) (hu : 0 < u) (h : X → ℚ)
    (hh : ∀ x, 0 < sp.g T x → 0 < h x) (y : X) :
    (∑ x, (sp.g T x * h x) * ASMC.kernelRH sp u h T x y = sp.g T y * h y) ∧
    (∑ x, (sp.g T x * h x) * ASMC.kernelXH sp u h T x y = sp.g T y * h y) :=
  ⟨ASMC.csmc_corrected_invariant_final_resample hv hu hh y, ASMC.csmc_corrected_invariant_X hv hu hh y⟩

/-- **Correcting the final weights = targeting `g T · h` at the last step**: `kernelH` is the plain
conditional-SMC kernel of the specification whose last-level target is multiplied by `h`
(`ASMC.withH`); the adaptive resampling decisions of the earlier steps do not see `h` in either. -/
theorem corrected_kernel_is_modified_target {X : Type} [Fintype X] [DecidableEq X] {m : ℕ}
    (sp : ASMC.Spec (m := m) X) (u : ℚ) (h : X → ℚ) (T : ℕ) (x y : X) :
    ASMC.kernelH sp u h (T+1) x y = ASMC.kernel (ASMC.withH sp h (T+1)) u (T+1) x y :=
  ASMC.kernelH_eq_kernel_withH h T x y

/-- non-vacuity (all three): the branching three-state specification of C01 (a root with two children),
with the correction `h = (1, 2, 3)` -/
example : ASMC.ValidTo PG.exSpec 1 ∧ 0 < PG.exSpec.g 1 1 ∧ 0 < PG.exSpec.g 1 2 ∧
    (∀ x : Fin 3, 0 < PG.exSpec.g 1 x → 0 < (fun z : Fin 3 => (z.val : ℚ) + 1) x) := by
  refine ⟨PG.exSpec_valid, PG.exSpec_branches.1, PG.exSpec_branches.2, ?_⟩
  intro x _
  positivity

/-- **The model of the move factors through the region choice.**  `Moves.subtreeMove` — the definition
the correspondence check compares, transition row by transition row, with the exact kernel of the real
`ParticleGibbsSubtreeSampler.sample_tree` — is: whole-tree particle Gibbs when every data point is an
outlier; otherwise a uniform choice of a clone data point `i`, the region `Moves.regionOf x i` =
(region forest, remaining forest, graft point), and `Moves.subtreeGiven` on the subtree (region and all
outliers). -/
theorem subtreeMove_factors (r : SMC.Run) (x : T) :
    subtreeMove r x =
      if x.f.all.isEmpty then SMC.pgStep r x
      else Dist.norm (Dist.bind (Dist.uniform x.f.all) fun i =>
        subtreeGiven r (regionOf x i).2.1 (regionOf x i).2.2 (T.mk' (regionOf x i).1 x.out)) :=
  rfl

/-- non-vacuity: on the chain `0 → 1 → 2` with outlier 3, data point 2 selects the region rooted at the
clone of data point 1 (below the clone of data point 0), the extracted subtree is `1 → 2` with the
outlier, and grafting it back gives the tree we started from -/
example : regionOf PG.subFull 2 = (PG.subTree.f, PG.subRem, some 0) ∧
    T.mk' (regionOf PG.subFull 2).1 PG.subFull.out = PG.subTree ∧
    graftBack PG.subRem (some 0) PG.subTree = PG.subFull := by decide +kernel

/-- **The executable move given the region is the corrected particle-Gibbs kernel.**  For a complete
subtree `x` on the region's data `D` and every test function `φ` on full trees,
`E[φ(subtreeGiven x)] = Σ_y subKernel x y · φ(graftBack rem gk y)`, where
`PG.subKernel x y = Σ_σ uOrd x σ · ASMC.kernelXH (PG.spec σ (1/N)) (1/N) h |σ| x y` (order uniform on the
compatible orders of the subtree; `h y = pOne(graftBack rem gk y) / pOne y`, `PG.hC`; `PG.spec` is the
PhyClone instance of C01 for the region's data). -/
theorem subtree_given_exec (dt : Data) (c : Proposal.Cfg) (D : List ℕ) (h : PG.HypD dt c D) (rem : DF)
    (gk : Option ℕ) (θ : ℚ) (m : ℕ) (x : PG.St (PGSpec.allStates c D)) (hx : x.1 ∈ PGSpec.finals c D)
    (φ : T → ℚ) :
    Dist.E (subtreeGiven (PG.runOf dt c m θ) rem gk x.1) φ
      = ∑ y : PG.St (PGSpec.allStates c D),
          PG.subKernel dt c D rem gk (PG.uN m) θ m (PG.uN m) x y * φ (graftBack rem gk y.1) :=
  PG.subtreeGiven_E h rem gk θ m x hx φ

/-- **Given the region, the corrected kernel leaves the full-tree density invariant** (abstract mixture
kernel, any `κ, u > 0`): `PG.piR x = pOne (graftBack rem gk x)` on the complete subtrees of `D`
(`PGSpec.finals c D`), 0 on the partial trees of the common state space. -/
theorem subtree_conditional_invariant_abstract (dt : Data) (c : Proposal.Cfg) (D : List ℕ)
    (h : PG.HypD dt c D) (rem : DF) (gk : Option ℕ)
    (hpos : ∀ y ∈ PGSpec.finals c D, 0 < Proposal.pOneT dt c (graftBack rem gk y))
    (κ : ℚ) (hκ : 0 < κ) (θ : ℚ) (m : ℕ) (u : ℚ) (hu : 0 < u) (y : PG.St (PGSpec.allStates c D)) :
    ∑ x : PG.St (PGSpec.allStates c D), PG.piR dt c D rem gk x.1 * PG.subKernel dt c D rem gk κ θ m u x y
      = PG.piR dt c D rem gk y.1 :=
  PG.subtree_invariant_abstract h rem gk hpos κ hκ θ m u hu y

/-- **The conditional statement, expectation form** (no assumption on the remaining forest beyond a
positive full-tree density): for every data set of the region with distinct indices, positive
likelihoods, `α > 0`, outlier proposal probability in `[0,1)`, each of the three proposals
(`PG.HypD dt c D`), every remaining forest `rem` and graft point `gk`, every `N = m + 1 ≥ 1` and
threshold, and every test function `φ` on full trees:
`Σ_x pOne(full x) · E[φ(subtreeGiven x)] = Σ_y pOne(full y) · φ(full y)`,
i.e. if the subtree is distributed as the full-tree posterior restricted to the region, so is the
subtree after the move. -/
theorem subtree_conditional_invariant_E (dt : Data) (c : Proposal.Cfg) (D : List ℕ) (h : PG.HypD dt c D)
    (rem : DF) (gk : Option ℕ)
    (hpos : ∀ y ∈ PGSpec.finals c D, 0 < Proposal.pOneT dt c (graftBack rem gk y))
    (θ : ℚ) (m : ℕ) (φ : T → ℚ) :
    ∑ x : PG.St (PGSpec.allStates c D),
        PG.piR dt c D rem gk x.1 * Dist.E (subtreeGiven (PG.runOf dt c m θ) rem gk x.1) φ
      = ∑ y : PG.St (PGSpec.allStates c D), PG.piR dt c D rem gk y.1 * φ (graftBack rem gk y.1) :=
  PG.subtree_given_invariant_E h rem gk hpos θ m φ

/-- **Distinct subtrees give distinct full trees**: when the remaining forest holds no data of the
region, its data are pairwise distinct and the graft point (if any) is one of them (`PG.RegionOK`), the
forest induced by the full tree on the region's data is the subtree again. -/
theorem graftBack_restrict (c : Proposal.Cfg) (D : List ℕ) (rem : DF) (gk : Option ℕ)
    (ok : PG.RegionOK rem gk D) (x : T) (w : PG.WFT c x) (hperm : (x.f.all ++ x.out).Perm D) :
    SMC.restrict (graftBack rem gk x) D = x :=
  PG.restrict_graftBack ok w hperm

/-- **C04, random-subtree move, conditional statement.**  Given the region — remaining forest `rem` and
graft point `gk` with `PG.RegionOK rem gk D` (no data of the region in `rem`, distinct data, graft point
in `rem`), all data of `rem` and of the region `D` with positive likelihoods and outlier priors in
`[0,1)`, `α > 0`, outlier proposal probability in `[0,1)`, each of the three proposals, kernel with a
permutation distribution, every `N = m + 1 ≥ 1` and every threshold — the executable
`Moves.subtreeGiven` satisfies, for every complete subtree `y` on `D`,
`Σ_x pOne(full x) · P(subtreeGiven x = full y) = pOne(full y)`, the sum over the complete subtrees `x`
on `D`, `full = graftBack rem gk`. -/
theorem subtree_conditional_invariant (dt : Data) (c : Proposal.Cfg) (D : List ℕ) (h : PG.HypD dt c D)
    (rem : DF) (gk : Option ℕ) (ok : PG.RegionOK rem gk D) (hrem : ∀ i ∈ rem.all, C19P.GoodIdx dt i)
    (θ : ℚ) (m : ℕ) (y : PG.St (PGSpec.allStates c D)) (hy : y.1 ∈ PGSpec.finals c D) :
    ∑ x : PG.St (PGSpec.allStates c D), PG.piR dt c D rem gk x.1 *
        Dist.E (subtreeGiven (PG.runOf dt c m θ) rem gk x.1)
          (fun z => if z = graftBack rem gk y.1 then 1 else 0)
      = PG.piR dt c D rem gk y.1 :=
  PG.subtree_given_invariant h rem gk (PG.graftBack_pOne_pos h rem gk hrem) (PG.graftBack_inj h ok) θ m y hy

/-- non-vacuity (all of the above): four data points on a 2-point grid, outlier priors 1/5, every
proposal kind, outlier proposal probability 1/10; region data `[1, 2, 3]` (clones of 1 and 2, outlier
3) below the clone of data point 0 — the hypotheses hold, the extracted subtree is one of the complete
subtrees, there are 42 distinct complete subtrees (the sum is a genuine one), and the move is not
degenerate (by `#eval`, bootstrap proposal, two particles, threshold 1/2: `subtreeGiven` reaches 34
different full trees from `PG.subTree`) -/
example : (∀ k, PG.HypD PG.subData (PG.subCfg k) [1, 2, 3]) ∧ PG.RegionOK PG.subRem (some 0) [1, 2, 3] ∧
    (∀ i ∈ PG.subRem.all, C19P.GoodIdx PG.subData i) ∧
    PG.subTree ∈ PGSpec.finals (PG.subCfg .semi) [1, 2, 3] ∧
    (PGSpec.finals (PG.subCfg .semi) [1, 2, 3]).eraseDups.length = 42 := by
  refine ⟨PG.subHypD, PG.subRegionOK, PG.subRemGood, ?_, ?_⟩ <;> decide +kernel

/-- **Every region the move can choose is an instance of the conditional statement.**  For a well-formed
tree `x` (`PG.WFT`: canonical, no empty clone, distinct data below the sentinel, no outliers when outlier
modelling is off) with positive likelihoods and any clone data point `i`: with
`(region, rem, gk) = Moves.regionOf x i`, `xs = T.mk' region x.out` the subtree `subtreeMove` hands to
`subtreeGiven` and `D = region.all ++ x.out` its data — `D` satisfies `PG.HypD`, `PG.RegionOK rem gk D`
holds, the data of `rem` are good, `xs = ⟨region, x.out⟩` is one of the complete subtrees on `D`, and
`graftBack rem gk xs = x`: the current tree is the full tree of the subtree that is extracted. -/
theorem subtree_region_ok (dt : Data) (c : Proposal.Cfg) (x : T) (w : PG.WFT c x) (hG : 0 < dt.G)
    (hα : 0 < c.α) (op0 : 0 ≤ c.op) (op1 : c.op < 1) (hup : c.usePerm = true)
    (hgood : ∀ j ∈ x.f.all ++ x.out, C19P.GoodIdx dt j) (i : ℕ) (hi : i ∈ x.f.all) :
    PG.HypD dt c ((regionOf x i).1.all ++ x.out) ∧
    PG.RegionOK (regionOf x i).2.1 (regionOf x i).2.2 ((regionOf x i).1.all ++ x.out) ∧
    (∀ j ∈ (regionOf x i).2.1.all, C19P.GoodIdx dt j) ∧
    T.mk' (regionOf x i).1 x.out = ⟨(regionOf x i).1, x.out⟩ ∧
    T.mk' (regionOf x i).1 x.out ∈ PGSpec.finals c ((regionOf x i).1.all ++ x.out) ∧
    graftBack (regionOf x i).2.1 (regionOf x i).2.2 (T.mk' (regionOf x i).1 x.out) = x :=
  PG.regionOf_ok w hG hα op0 op1 hup hgood hi

/-- **The conditional statement at every region of every well-formed tree**: for the region selected
through any clone data point `i` of any well-formed tree `x₀`, `Moves.subtreeGiven` leaves
`y ↦ pOne (graftBack rem gk y)` invariant on the complete subtrees of the region's data. -/
theorem subtree_conditional_invariant_at_region (dt : Data) (c : Proposal.Cfg) (x₀ : T) (w : PG.WFT c x₀)
    (hG : 0 < dt.G) (hα : 0 < c.α) (op0 : 0 ≤ c.op) (op1 : c.op < 1) (hup : c.usePerm = true)
    (hgood : ∀ j ∈ x₀.f.all ++ x₀.out, C19P.GoodIdx dt j) (i : ℕ) (hi : i ∈ x₀.f.all) (θ : ℚ) (m : ℕ)
    (y : PG.St (PGSpec.allStates c ((regionOf x₀ i).1.all ++ x₀.out)))
    (hy : y.1 ∈ PGSpec.finals c ((regionOf x₀ i).1.all ++ x₀.out)) :
    ∑ x : PG.St (PGSpec.allStates c ((regionOf x₀ i).1.all ++ x₀.out)),
        PG.piR dt c ((regionOf x₀ i).1.all ++ x₀.out) (regionOf x₀ i).2.1 (regionOf x₀ i).2.2 x.1 *
        Dist.E (subtreeGiven (PG.runOf dt c m θ) (regionOf x₀ i).2.1 (regionOf x₀ i).2.2 x.1)
          (fun z => if z = graftBack (regionOf x₀ i).2.1 (regionOf x₀ i).2.2 y.1 then 1 else 0)
      = PG.piR dt c ((regionOf x₀ i).1.all ++ x₀.out) (regionOf x₀ i).2.1 (regionOf x₀ i).2.2 y.1 := by
  obtain ⟨h1, h2, h3, _, _, _⟩ := PG.regionOf_ok (dt := dt) w hG hα op0 op1 hup hgood hi
  exact subtree_conditional_invariant dt c _ h1 _ _ h2 h3 θ m y hy

/-- non-vacuity (both): the chain `0 → 1 → 2` with outlier 3 is well formed with good data for every
proposal kind, and data point 2 is a clone data point (its region is the one of the examples above) -/
example : (∀ k, PG.WFT (PG.subCfg k) PG.subFull) ∧ (∀ j ∈ PG.subFull.f.all ++ PG.subFull.out, C19P.GoodIdx PG.subData j) ∧
    2 ∈ PG.subFull.f.all ∧ (regionOf PG.subFull 2).1.all ++ PG.subFull.out = [2, 1, 3] := by
  refine ⟨PG.subFull_wft, PG.subFull_good, ?_, ?_⟩ <;> decide +kernel

/-! ## The whole sweep

One iteration of `run.py:_run_main_sampler` with `subtree_update_prob = 0` is
`tree_sampler.sample_tree` (whole-tree particle Gibbs, C01), `num_samples_data_point` data-point scans,
`num_samples_prune_regraph` prune-regraft moves, `relabel_nodes` (no effect on the canonical tree), with
the concentration value held fixed: `Sweep.sweepModel r mv k₁ k₂` (`Model/Sweep.lean`).  C01 is stated on
the subtype of the computed list `PGSpec.allStates c D` with the target `PG.piD`; the two move theorems
above on duplicate-free closed lists of well-formed trees with `Moves.pOneOf`.  The common state space is
`Sweep.space c D = (PGSpec.finals c D).eraseDups`. -/

/-- **The hypotheses of the whole-sweep theorems, bundled**: those of C01 `pg_invariant` on the data set
(`PG.HypD`: data indices `D` distinct, non-empty and below the sentinel, positive likelihoods, outlier
priors in `[0,1)`, `α > 0`, outlier proposal probability in `[0,1)`, any of the three proposals, kernel
with a permutation distribution), the tree sampler `r` built on that data and kernel with `N ≥ 1`
particles (any threshold), and the move configuration `mv` built by `run.py:setup_samplers` from the same
tree distribution (`Sweep.mvOf r`: same data, same concentration value, outlier set used iff outlier
modelling is on).  The hypotheses of `dataPointMove_invariant` / `pruneRegraft_invariant` about the state
list follow from these (`sweep_state_space`). -/
structure SweepHyp (dt : Data) (c : Proposal.Cfg) (D : List ℕ) (r : SMC.Run) (mv : Moves.Cfg) : Prop where
  data : PG.HypD dt c D
  r_dt : r.dt = dt
  r_c : r.c = c
  r_N : 1 ≤ r.N
  mv_eq : mv = Sweep.mvOf r

theorem SweepHyp.run_eq {dt : Data} {c : Proposal.Cfg} {D : List ℕ} {r : SMC.Run} {mv : Moves.Cfg}
    (h : SweepHyp dt c D r mv) : r = PG.runOf dt c (r.N - 1) r.θ ∧ mv = Sweep.mvCfg dt c := by
  obtain ⟨_, h1, h2, h3, h4⟩ := h
  obtain ⟨rdt, rc, rN, rθ⟩ := r
  simp only at h1 h2 h3
  subst h1 h2 h4
  refine ⟨?_, rfl⟩
  simp only [PG.runOf]
  congr
  omega

/-- **The common state space.**  Under `SweepHyp`, `Sweep.space c D` is duplicate free; its members are
exactly the members of `PGSpec.finals c D` (the support of C01's target `PG.piD`) and exactly the
well-formed trees holding the data points `D` (`RunOK.Holds`, C19); C01's target is `pOne` there and 0
elsewhere; the density of the moves is the density of the kernel and it is positive; and the list
satisfies every hypothesis of `dataPointMove_invariant` and `pruneRegraft_invariant`. -/
theorem sweep_state_space (dt : Data) (c : Proposal.Cfg) (D : List ℕ) (r : SMC.Run) (mv : Moves.Cfg)
    (h : SweepHyp dt c D r mv) :
    (Sweep.space c D).Nodup ∧ (∀ x, x ∈ Sweep.space c D ↔ x ∈ PGSpec.finals c D) ∧
    (∀ x, x ∈ Sweep.space c D ↔ RunOK.Holds c D x) ∧
    (∀ x, PG.piD dt c D x = if x ∈ Sweep.space c D then pOneOf mv x else 0) ∧
    (∀ x, pOneOf mv x = Proposal.pOneT dt c x) ∧ (∀ x ∈ Sweep.space c D, 0 < pOneOf mv x) ∧
    (∀ x ∈ Sweep.space c D, WFT x) ∧ (∀ x ∈ Sweep.space c D, (x.f.all ++ x.out).Perm D) ∧
    (mv.outliers = false → ∀ x ∈ Sweep.space c D, x.out = []) ∧
    (∀ i ∈ D, ∀ x ∈ Sweep.space c D, ∀ yq ∈ dpStep mv x i, yq.1 ∈ Sweep.space c D) ∧
    (∀ x ∈ Sweep.space c D, ∀ sub ∈ nodesOf x.f, ∀ y ∈ prCands x sub, y ∈ Sweep.space c D) := by
  obtain ⟨_, rfl⟩ := h.run_eq
  have hd := h.data
  exact ⟨Sweep.space_nodup c D, fun _ => Sweep.mem_space, fun _ => Sweep.mem_space_iff_holds hd,
    fun x => Sweep.piD_eq x, fun _ => rfl, fun _ hx => Sweep.space_pOne_pos hd hx, Sweep.space_wf hd,
    Sweep.space_data hd, Sweep.space_out hd, Sweep.space_dp_closed hd, Sweep.space_pr_closed hd⟩

/-- **Each kernel of the sweep leaves `pOne` invariant on the common state space** (expectation form):
C01's particle-Gibbs update, transported from the subtype of `PGSpec.allStates c D`, and the two moves of
this file with their hypotheses discharged. -/
theorem sweep_kernels_invariant (dt : Data) (c : Proposal.Cfg) (D : List ℕ) (r : SMC.Run) (mv : Moves.Cfg)
    (h : SweepHyp dt c D r mv) (g : T → ℚ) :
    ((Sweep.space c D).map fun x => pOneOf mv x * Dist.E (SMC.pgStep r x) g).sum
        = ((Sweep.space c D).map fun x => pOneOf mv x * g x).sum ∧
    ((Sweep.space c D).map fun x => pOneOf mv x * Dist.E (dataPointMove mv x) g).sum
        = ((Sweep.space c D).map fun x => pOneOf mv x * g x).sum ∧
    ((Sweep.space c D).map fun x => pOneOf mv x * Dist.E (pruneRegraft mv x) g).sum
        = ((Sweep.space c D).map fun x => pOneOf mv x * g x).sum := by
  obtain ⟨hr, rfl⟩ := h.run_eq
  rw [hr]
  exact ⟨Sweep.pgStep_inv h.data _ _ g, Sweep.dataPointMove_inv h.data g, Sweep.pruneRegraft_inv h.data g⟩

/-- **Capstone, expectation form.**  `Σ_{x} pOne x · E[g(sweep x)] = Σ_{x} pOne x · g x` over the complete
trees on `D`, for every test function `g`. -/
theorem full_sweep_invariant_E (dt : Data) (c : Proposal.Cfg) (D : List ℕ) (r : SMC.Run) (mv : Moves.Cfg)
    (h : SweepHyp dt c D r mv) (k₁ k₂ : ℕ) (g : T → ℚ) :
    ((Sweep.space c D).map fun x => pOneOf mv x * Dist.E (Sweep.sweepModel r mv k₁ k₂ x) g).sum
      = ((Sweep.space c D).map fun x => pOneOf mv x * g x).sum := by
  obtain ⟨hr, rfl⟩ := h.run_eq
  rw [hr]
  exact Sweep.sweep_inv h.data _ _ k₁ k₂ g

/-- **Capstone: one full sweep of the sampler (without the random-subtree move) leaves the `log_p_one`
posterior invariant.**  For every data set with data indices `D`, each of the three proposals, every
`N ≥ 1`, every resampling threshold, every `k₁ = num_samples_data_point`, `k₂ = num_samples_prune_regraph`
(`SweepHyp`), and every complete tree `y` on `D`:
`Σ_x pOne x · P(sweepModel x = y) = pOne y`, the sum over the finite type of the complete well-formed
canonical trees on `D`, `P(· = y)` the expectation of the indicator of `y` under the finite distribution
`Sweep.sweepModel r mv k₁ k₂ x`. -/
theorem full_sweep_invariant (dt : Data) (c : Proposal.Cfg) (D : List ℕ) (r : SMC.Run) (mv : Moves.Cfg)
    (h : SweepHyp dt c D r mv) (k₁ k₂ : ℕ) (y : PG.St (Sweep.space c D)) :
    ∑ x : PG.St (Sweep.space c D), pOneOf mv x.1 *
        Dist.E (Sweep.sweepModel r mv k₁ k₂ x.1) (fun z => if z = y.1 then 1 else 0)
      = pOneOf mv y.1 := by
  obtain ⟨hr, rfl⟩ := h.run_eq
  rw [hr]
  exact Sweep.target_form (Sweep.sweep_inv h.data _ _ k₁ k₂) y

/-- **… in the formalisation of C01** (`Props.C01.pg_invariant` with `SMC.pgStep` replaced by the whole
sweep): sum over the subtype of `PGSpec.allStates c D`, target `PG.piD`. -/
theorem full_sweep_invariant_c01 (dt : Data) (c : Proposal.Cfg) (D : List ℕ) (r : SMC.Run) (mv : Moves.Cfg)
    (h : SweepHyp dt c D r mv) (k₁ k₂ : ℕ) (y : PG.St (PGSpec.allStates c D)) :
    ∑ x : PG.St (PGSpec.allStates c D), PG.piD dt c D x.1 *
        Dist.E (Sweep.sweepModel r mv k₁ k₂ x.1) (fun z => if z = y.1 then 1 else 0)
      = PG.piD dt c D y.1 := by
  obtain ⟨hr, rfl⟩ := h.run_eq
  rw [hr]
  exact Sweep.subtype_form (Sweep.sweep_inv h.data _ _ k₁ k₂) y.1

/-- **Corollary: any number `n` of sweeps at a fixed concentration value leaves the posterior invariant**
(`Sweep.chainModel`), on the complete trees and in the formalisation of C01. -/
theorem chain_invariant (dt : Data) (c : Proposal.Cfg) (D : List ℕ) (r : SMC.Run) (mv : Moves.Cfg)
    (h : SweepHyp dt c D r mv) (k₁ k₂ n : ℕ) :
    (∀ y : PG.St (Sweep.space c D),
      ∑ x : PG.St (Sweep.space c D), pOneOf mv x.1 *
          Dist.E (Sweep.chainModel r mv k₁ k₂ n x.1) (fun z => if z = y.1 then 1 else 0)
        = pOneOf mv y.1) ∧
    (∀ y : PG.St (PGSpec.allStates c D),
      ∑ x : PG.St (PGSpec.allStates c D), PG.piD dt c D x.1 *
          Dist.E (Sweep.chainModel r mv k₁ k₂ n x.1) (fun z => if z = y.1 then 1 else 0)
        = PG.piD dt c D y.1) := by
  obtain ⟨hr, rfl⟩ := h.run_eq
  rw [hr]
  exact ⟨fun y => Sweep.target_form (Sweep.chain_inv h.data _ _ k₁ k₂ n) y,
    fun y => Sweep.subtype_form (Sweep.chain_inv h.data _ _ k₁ k₂ n) y.1⟩

/-- non-vacuity (all of the whole-sweep theorems): the three-point data set of the examples above, every
proposal kind (outlier proposal probability 1/10, `α = 1`), two particles, threshold 1/2 — `SweepHyp`
holds, the move configuration is the `exCfg` of the examples above, the common state space has 42 trees
and contains the 19 + 16 trees of `exDp` and `exPr`; the sweep is not degenerate (by `#eval`, bootstrap
proposal, `k₁ = k₂ = 1`: from the one-clone tree `sweepModel` lists all 42 trees) -/
example : Sweep.swData = exData ∧
    (∀ k, SweepHyp exData (PG.exCfg k) [0, 1, 2] (PG.runOf exData (PG.exCfg k) 1 (1/2)) exCfg) ∧
    (Sweep.space (PG.exCfg .semi) [0, 1, 2]).length = 42 ∧
    (∀ x ∈ exDp ++ exPr, x ∈ Sweep.space (PG.exCfg .semi) [0, 1, 2]) := by
  refine ⟨rfl, fun k => ⟨Sweep.swHypD k, rfl, rfl, by simp [PG.runOf], ?_⟩, ?_, ?_⟩
  · simp only [Sweep.mvOf, PG.runOf, PG.exCfg, exCfg, Moves.Cfg.mk.injEq, true_and]
    decide +kernel
  · decide +kernel
  · decide +kernel

-- OBLIGATION-OPEN subtree_invariant: only the UNCONDITIONAL statement `Σ_x pOne x · P(subtreeMove x = y) = pOne y` remains, and it is FALSE of model and code (known finding F7: the region is chosen with a state-dependent probability that is never corrected); the conditional statement given the region is proved (`subtree_conditional_invariant`)

end PhyModel.Props.C04
