import PhyModel.Proofs.Gibbs
import PhyModel.Model.Moves
import PhyModel.Proofs.MovesDpBlock3
import PhyModel.Proofs.MovesPrBlock4
/-! # C04 — data-point, prune-regraft and subtree moves preserve the same posterior

`gibbs_block_invariant` is the argument behind the data-point move and the prune-regraft move: a
move that picks a choice `c` (which data point / which subtree) with a probability that is constant
on the blocks of an equivalence relation `rel c` (trees differing only in where that data point sits
/ where that subtree is attached) and redraws the state within the block proportionally to π leaves π
invariant.  `sweep_invariant`: any sequence of π-invariant kernels is π-invariant, so every
interleaving of the moves in a sweep has π as stationary distribution.

`dpStep_invariant`, `dataPointMove_invariant`, `pruneRegraft_invariant` prove the statement for the
executable models `Moves.dpStep`, `Moves.dataPointMove`, `Moves.pruneRegraft` themselves, on any
duplicate-free list of well-formed trees closed under the move, through a list-level Gibbs lemma
(`categorical_gibbs_reversible`) and the fact that `Forest.canon` is a canonical form for "same tree up
to sibling order" (`Proofs/MovesCanon*.lean`); `move_sequence_invariant` composes them.

The executable models `Moves.dataPointMove`, `Moves.pruneRegraft`, `Moves.subtreeMove` are compared
transition row by transition row with the exact kernels of the real samplers.  For the random-subtree
particle-Gibbs move the unconditional statement is FALSE of model and code (known finding F7: the
region is selected with a state-dependent, uncorrected probability); the pinned counter-instances are
evaluated on every run. -/

namespace PhyModel.Props.C04
open Finset BigOperators

theorem gibbs_block_invariant {X Cc : Type} [Fintype X] [Fintype Cc] [DecidableEq X]
    (π : X → ℚ) (hπ : ∀ x, 0 ≤ π x)
    (r : X → Cc → ℚ) (hr : ∀ x, π x ≠ 0 → ∑ c, r x c = 1)
    (rel : Cc → X → X → Prop) [∀ c x z, Decidable (rel c x z)]
    (hrefl : ∀ c x, rel c x x) (hsymm : ∀ c x z, rel c x z → rel c z x)
    (htrans : ∀ c x z w, rel c x z → rel c z w → rel c x w)
    (hconst : ∀ c x z, rel c x z → r x c = r z c) (y : X) :
    ∑ x, π x * (∑ c, r x c * (if rel c x y then π y / (∑ z, if rel c x z then π z else 0) else 0))
      = π y :=
  Moves.gibbs_block_invariant π hπ r hr rel hrefl hsymm htrans hconst y

/-- composition of two π-invariant kernels is π-invariant (hence any finite interleaving is) -/
theorem sweep_invariant {X : Type} [Fintype X] (π : X → ℚ) (P Q : X → X → ℚ)
    (hP : ∀ y, ∑ x, π x * P x y = π y) (hQ : ∀ y, ∑ x, π x * Q x y = π y) (z : X) :
    ∑ x, π x * (∑ y, P x y * Q y z) = π z := by
  have : ∑ x, π x * (∑ y, P x y * Q y z) = ∑ y, (∑ x, π x * P x y) * Q y z := by
    simp only [Finset.mul_sum, Finset.sum_mul]
    rw [Finset.sum_comm]
    apply Finset.sum_congr rfl; intro y _
    apply Finset.sum_congr rfl; intro x _; ring
  rw [this]
  simp only [hP]
  exact hQ z

/-! ## The model's moves

State space: any duplicate-free list `S` of well-formed trees (`Canon.WFT`: canonical
representation, data points pairwise distinct and below the sentinel `Forest.big`, no empty clone)
that is closed under the move.  Invariance is stated in expectation form,
`Σ_{x ∈ S} π x · E[h(move x)] = Σ_{x ∈ S} π x · h x` for every test function `h`, and in target
form `Σ_{x ∈ S} π x · P(x → y) = π y`, with `π = Moves.pOneOf c` (`log_p_one`, the density the
trace records).  `0 ≤ π` on `S` is a hypothesis (it holds for likelihood data and `α ≥ 0`). -/

open PhyModel.Moves PhyModel.Gibbs PhyModel.Canon

/-- Detailed balance of the list-level Gibbs kernel: if the candidate lists form blocks on `S`
(`x ∈ cands x`, no repeats, candidates stay in `S`, the candidates of a candidate are a permutation
of the original candidates) then `w x · P(x → y) = w y · P(y → x)`. -/
theorem categorical_gibbs_reversible {X : Type} [DecidableEq X] (S : List X) (cands : X → List X)
    (w : X → ℚ) (hB : Block S cands) (x y : X) (hx : x ∈ S) (hy : y ∈ S) :
    w x * Dist.E (Dist.categorical ((cands x).map fun t => (t, w t))) (fun t => if t = y then 1 else 0)
      = w y * Dist.E (Dist.categorical ((cands y).map fun t => (t, w t))) (fun t => if t = x then 1 else 0) :=
  Gibbs.categorical_gibbs_reversible S cands w hB x y hx hy

/-- One Gibbs reassignment of data point `i` (`DataPointSampler._sample_tree`; the identity when `i`
is the only member of its clone) leaves `π` invariant. -/
theorem dpStep_invariant (c : Moves.Cfg) (i : Nat) (S : List T) (hS : S.Nodup)
    (hwf : ∀ x ∈ S, WFT x) (hout : c.outliers = false → ∀ x ∈ S, x.out = [])
    (hcl : ∀ x ∈ S, ∀ yq ∈ dpStep c x i, yq.1 ∈ S)
    (hπ : ∀ x ∈ S, 0 ≤ pOneOf c x) (h : T → ℚ) :
    (S.map fun x => pOneOf c x * Dist.E (dpStep c x i) h).sum = (S.map fun x => pOneOf c x * h x).sum :=
  Canon.dpStep_invariant c i S hS hwf hout hcl hπ h

/-- The data-point move (`DataPointSampler.sample_tree`: one Gibbs scan over the data set `base` in a
uniformly random order) leaves `π` invariant, with and without the outlier option. -/
theorem dataPointMove_invariant (c : Moves.Cfg) (S : List T) (base : List Nat) (hS : S.Nodup)
    (hbase : base.Nodup) (hwf : ∀ x ∈ S, WFT x) (hdata : ∀ x ∈ S, (x.f.all ++ x.out).Perm base)
    (hout : c.outliers = false → ∀ x ∈ S, x.out = [])
    (hcl : ∀ i ∈ base, ∀ x ∈ S, ∀ yq ∈ dpStep c x i, yq.1 ∈ S)
    (hπ : ∀ x ∈ S, 0 ≤ pOneOf c x) (h : T → ℚ) :
    (S.map fun x => pOneOf c x * Dist.E (dataPointMove c x) h).sum
      = (S.map fun x => pOneOf c x * h x).sum :=
  dataPointMove_invariant_of_steps c S base hbase hdata
    (fun i hi => Canon.dpStep_invariant c i S hS hwf hout (hcl i hi) hπ) h

/-- The prune-regraft move (`PruneRegraphSampler.sample_tree`: uniform choice of the subtree root,
then a Gibbs draw among the re-attachments `Moves.prCands` of the pruned subtree) leaves `π`
invariant. -/
theorem pruneRegraft_invariant (c : Moves.Cfg) (S : List T) (hS : S.Nodup) (hwf : ∀ x ∈ S, WFT x)
    (hcl : ∀ x ∈ S, ∀ sub ∈ nodesOf x.f, ∀ y ∈ prCands x sub, y ∈ S)
    (hπ : ∀ x ∈ S, 0 ≤ pOneOf c x) (h : T → ℚ) :
    (S.map fun x => pOneOf c x * Dist.E (pruneRegraft c x) h).sum
      = (S.map fun x => pOneOf c x * h x).sum :=
  Canon.pruneRegraft_invariant c S hS hwf hcl hπ h

/-- Any finite interleaving of kernels that leave `π` invariant on `S` (in particular of the two moves
above) leaves `π` invariant, in expectation form and per target tree. -/
theorem move_sequence_invariant (π : T → ℚ) (S : List T) (Ks : List (T → Dist T))
    (hK : ∀ K ∈ Ks, ∀ h : T → ℚ,
      (S.map fun x => π x * Dist.E (K x) h).sum = (S.map fun x => π x * h x).sum) :
    (∀ h : T → ℚ, (S.map fun x => π x * Dist.E (seqK Ks x) h).sum = (S.map fun x => π x * h x).sum) ∧
    (S.Nodup → ∀ y ∈ S,
      (S.map fun x => π x * Dist.E (seqK Ks x) (fun t => if t = y then 1 else 0)).sum = π y) :=
  ⟨Inv.seq Ks hK, fun hS _ hy => Inv.target (Inv.seq Ks hK) hS hy⟩

/-! ### Non-vacuity: three data points, outlier option on -/

def exData : Data :=
  { G := 2, S := 1, vals := [[[1/2, 1/4]], [[1/4, 1]], [[1/3, 1/2]]], op := [1/5, 1/5, 1/5], sz := [1, 1, 1] }
def exCfg : Moves.Cfg := { dt := exData, α := 1, outliers := true }

/-- closure of a start list under a successor function (`n` rounds) -/
def closeUnder (step : T → List T) : Nat → List T → List T
  | 0, S => S
  | n+1, S => closeUnder step n (S ++ S.flatMap step).eraseDups

/-- the 19 trees reachable by data-point steps from the one-clone tree on `{0,1,2}` and from the
parent/child tree `{0,1} → {2}` -/
def exDp : List T :=
  closeUnder (fun x => [0, 1, 2].flatMap fun i => (dpStep exCfg x i).map (·.1)) 4
    [⟨.cons [0, 1] (.cons [2] .nil .nil) .nil, []⟩, ⟨.cons [0, 1, 2] .nil .nil, []⟩]

/-- the 16 trees on three single-point clones -/
def exPr : List T :=
  closeUnder (fun x => (nodesOf x.f).flatMap (prCands x)) 3
    [⟨.cons [0] .nil (.cons [1] .nil (.cons [2] .nil .nil)), []⟩]

/-- hypotheses of `dpStep_invariant` / `dataPointMove_invariant` -/
example : exDp.length = 19 ∧ exDp.Nodup ∧ (∀ x ∈ exDp, WFT x) ∧
    (∀ x ∈ exDp, (x.f.all ++ x.out).Perm [0, 1, 2]) ∧
    (∀ i ∈ [0, 1, 2], ∀ x ∈ exDp, ∀ yq ∈ dpStep exCfg x i, yq.1 ∈ exDp) ∧
    (∀ x ∈ exDp, 0 ≤ pOneOf exCfg x) := by decide +kernel

/-- hypotheses of `pruneRegraft_invariant` -/
example : exPr.length = 16 ∧ exPr.Nodup ∧ (∀ x ∈ exPr, WFT x) ∧
    (∀ x ∈ exPr, ∀ sub ∈ nodesOf x.f, ∀ y ∈ prCands x sub, y ∈ exPr) ∧
    (∀ x ∈ exPr, 0 ≤ pOneOf exCfg x) := by decide +kernel

/-- hypotheses of `categorical_gibbs_reversible`: the candidates of data point 0 on the movable trees -/
example : Block (exDp.filter fun x => dpMovable x 0) (fun x => dpCands true x 0) := by decide +kernel

-- OBLIGATION-OPEN subtree_invariant: FALSE of model and code (known finding F7); the conditional statement (given the selected region, the re-weighted conditional SMC targets the full-tree density) is not yet formalised

end PhyModel.Props.C04
