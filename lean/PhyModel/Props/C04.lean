import PhyModel.Proofs.Gibbs
import PhyModel.Model.Moves
import PhyModel.Proofs.MovesDp
import PhyModel.Proofs.MovesPr
/-! # C04 — data-point, prune-regraft and subtree moves preserve the same posterior

`gibbs_block_invariant` is the argument behind the data-point move and the prune-regraft move: a
move that picks a choice `c` (which data point / which subtree) with a probability that is constant
on the blocks of an equivalence relation `rel c` (trees differing only in where that data point sits
/ where that subtree is attached) and redraws the state within the block proportionally to π leaves π
invariant.  `sweep_invariant`: any sequence of π-invariant kernels is π-invariant, so every
interleaving of the moves in a sweep has π as stationary distribution.

The executable models `Moves.dataPointMove`, `Moves.pruneRegraft`, `Moves.subtreeMove` are compared
transition row by transition row with the exact kernels of the real samplers.  For the random-subtree
particle-Gibbs move the unconditional statement is FALSE of model and code (known finding F7: the
region is selected with a state-dependent, uncorrected probability); the pinned counter-instances are
evaluated on every run. -/

namespace PhyModel.Props.C04
open Finset BigOperators

theorem gibbs_block_invariant {X Cc : Type} [Fintype X] [Fintype Cc] [DecidableEq X]
    (π : X → ℚ) (hπ : ∀ x, 0 ≤ π x)
    (r : X → Cc → ℚ) (hr : ∀ x, π x ≠ 0 → ∑ c, r x c = 1)
    (rel : Cc → X → X → Prop) [∀ c x z, Decidable (rel c x z)]
    (hrefl : ∀ c x, rel c x x) (hsymm : ∀ c x z, rel c x z → rel c z x)
    (htrans : ∀ c x z w, rel c x z → rel c z w → rel c x w)
    (hconst : ∀ c x z, rel c x z → r x c = r z c) (y : X) :
    ∑ x, π x * (∑ c, r x c * (if rel c x y then π y / (∑ z, if rel c x z then π z else 0) else 0))
      = π y :=
  Moves.gibbs_block_invariant π hπ r hr rel hrefl hsymm htrans hconst y

/-- composition of two π-invariant kernels is π-invariant (hence any finite interleaving is) -/
theorem sweep_invariant {X : Type} [Fintype X] (π : X → ℚ) (P Q : X → X → ℚ)
    (hP : ∀ y, ∑ x, π x * P x y = π y) (hQ : ∀ y, ∑ x, π x * Q x y = π y) (z : X) :
    ∑ x, π x * (∑ y, P x y * Q y z) = π z := by
  have : ∑ x, π x * (∑ y, P x y * Q y z) = ∑ y, (∑ x, π x * P x y) * Q y z := by
    simp only [Finset.mul_sum, Finset.sum_mul]
    rw [Finset.sum_comm]
    apply Finset.sum_congr rfl; intro y _
    apply Finset.sum_congr rfl; intro x _; ring
  rw [this]
  simp only [hP]
  exact hQ z

/-! ## The model's moves

State space: any duplicate-free list `S` of trees that is closed under the move.  Invariance is
stated in expectation form, `Σ_{x ∈ S} π x · E[h(move x)] = Σ_{x ∈ S} π x · h x` for every test
function `h` (taking `h` = indicator of `y` gives `Σ_x π x P(x → y) = π y`), with
`π = Moves.pOneOf c` (`log_p_one`, the density the trace records). -/

open PhyModel.Moves PhyModel.Gibbs in
/-- Detailed balance of the list-level Gibbs kernel: if the candidate lists form blocks on `S`
(`x ∈ cands x`, no repeats, candidates stay in `S`, the candidates of a candidate are a permutation
of the original candidates) then `w x · P(x → y) = w y · P(y → x)`. -/
theorem categorical_gibbs_reversible {X : Type} [DecidableEq X] (S : List X) (cands : X → List X)
    (w : X → ℚ) (hB : Block S cands) (x y : X) (hx : x ∈ S) (hy : y ∈ S) :
    w x * Dist.E (Dist.categorical ((cands x).map fun t => (t, w t))) (fun t => if t = y then 1 else 0)
      = w y * Dist.E (Dist.categorical ((cands y).map fun t => (t, w t))) (fun t => if t = x then 1 else 0) :=
  Gibbs.categorical_gibbs_reversible S cands w hB x y hx hy

open PhyModel.Moves PhyModel.Gibbs in
/-- One Gibbs reassignment of data point `i` (`DataPointSampler._sample_tree`, identity when `i` is
the only member of its clone) leaves `π` invariant, given the block structure `DpBlock` of the
candidate lists on the states where `i` is movable. -/
theorem dpStep_invariant_partial (c : Moves.Cfg) (i : Nat) (S : List T) (hS : S.Nodup)
    (hπ : ∀ x ∈ S, 0 ≤ pOneOf c x) (hB : DpBlock c.outliers S i) (h : T → ℚ) :
    (S.map fun x => pOneOf c x * Dist.E (dpStep c x i) h).sum = (S.map fun x => pOneOf c x * h x).sum :=
  dpStep_invariant_of_block c i S hS hπ hB h

open PhyModel.Moves PhyModel.Gibbs in
/-- The data-point move (`DataPointSampler.sample_tree`: one Gibbs scan in a uniformly random order
over the data set `base`) leaves `π` invariant. -/
theorem dataPointMove_invariant_partial (c : Moves.Cfg) (S : List T) (hS : S.Nodup)
    (base : List Nat) (hbase : base.Nodup) (hdata : ∀ x ∈ S, (x.f.all ++ x.out).Perm base)
    (hπ : ∀ x ∈ S, 0 ≤ pOneOf c x) (hB : ∀ i ∈ base, DpBlock c.outliers S i) (h : T → ℚ) :
    (S.map fun x => pOneOf c x * Dist.E (dataPointMove c x) h).sum
      = (S.map fun x => pOneOf c x * h x).sum :=
  dataPointMove_invariant_of_steps c S base hbase hdata
    (fun i hi => dpStep_invariant_of_block c i S hS hπ (hB i hi)) h

open PhyModel.Moves PhyModel.Gibbs in
/-- The prune-regraft move (`PruneRegraphSampler.sample_tree`) leaves `π` invariant, given the block
structure `PrBlock` of the re-attachment lists. -/
theorem pruneRegraft_invariant_partial (c : Moves.Cfg) (S : List T) (hS : S.Nodup)
    (hπ : ∀ x ∈ S, 0 ≤ pOneOf c x) (hB : PrBlock S) (h : T → ℚ) :
    (S.map fun x => pOneOf c x * Dist.E (pruneRegraft c x) h).sum
      = (S.map fun x => pOneOf c x * h x).sum :=
  pruneRegraft_invariant_of_block c S hS hπ hB h

-- OBLIGATION-OPEN dpStep_block: `DpBlock` (x is one of its own candidates, candidates are pairwise distinct, candidates of a candidate are a permutation of the original candidates) should follow from well-formedness of the trees in S (canonical, data points distinct, no empty clone); needs lemmas about `Forest.canon`
-- OBLIGATION-OPEN pruneRegraft_block: `PrBlock` should follow from well-formedness of the trees in S; needs lemmas about `Forest.canon`
-- OBLIGATION-OPEN subtree_invariant: FALSE of model and code (known finding F7); the conditional statement (given the selected region, the re-weighted conditional SMC targets the full-tree density) is not yet formalised

end PhyModel.Props.C04
