import PhyModel.Model.Moves
namespace PhyModel.Props.C04
end PhyModel.Props.C04
