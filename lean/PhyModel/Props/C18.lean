import PhyModel.Proofs.ChainsProofs
/-! # C18 — a seeded run is reproducible regardless of scheduling and hash seed

Property theorems about the *wiring* of `phyclone/run.py: run` (model: `Model/Chains.lean`).  What a
chain does with its generator is an arbitrary function `body`; OS scheduling enters only as the
completion order `ord` of the futures.  The theorems say: whatever that order, the collected
`results` dict is the same map, chain `i`'s entry is `run_phyclone_chain` applied to *its own*
generator `(chainGens …)[i]` and nothing else, and a single chain runs on the main generator.

Not provable here, and not claimed: that the worker processes share no state, that nothing inside
a chain reads the wall clock, the hash seed or `np.random`'s module state, and that
`Generator.spawn` is a function of the seed.  Those are facts about the running code and are
decided by the runtime differential and the static scan of `harness/props/c18.py` (level `other`). -/

namespace PhyModel.Props.C18
open PhyModel.Chains

/-- the value the dict holds for chain `i`: `run_phyclone_chain` on the `i`-th generator -/
def entry {G R : Type} (spawn : G → Nat → List G) (body : G → Nat → R) (main : G) (k i : Nat) :
    Option (ChainResult R) :=
  (chainGens spawn main k)[i]?.map fun g => runChain body g i

/-- **Explicit content of the result map.**  For every chain count `k ≥ 1`, every spawning function
returning `k` children, every chain body and every completion order that completes each future
exactly once, key `i` holds the result of chain `i` on the `i`-th generator (and keys `≥ k` are
absent). -/
theorem run_lookup {G R : Type} (spawn : G → Nat → List G) (body : G → Nat → R) (main : G) (k : Nat)
    (hk : 1 ≤ k) (hs : (spawn main k).length = k) (ord : List Nat) (hord : ord.Perm (List.range k))
    (i : Nat) :
    (run spawn body main k ord).lookup i = entry spawn body main k i := by
  unfold run entry chainGens
  by_cases h1 : k = 1
  · subst h1
    cases i with
    | zero => simp
    | succ i => simp [List.lookup_cons]
  · rw [if_neg h1, if_neg h1, lookup_collect]
    by_cases hi : i < k
    · have : i ∈ ord := hord.mem_iff.mpr (List.mem_range.mpr hi)
      rw [if_pos this]
    · have : i ∉ ord := fun h => hi (List.mem_range.mp (hord.mem_iff.mp h))
      rw [if_neg this]
      have : (spawn main k)[i]? = none := List.getElem?_eq_none (by omega)
      simp [this]

/-- **C18, scheduling.**  For every two completion orders of the `k` chains the collected results
are the same map: every key reads the same under both. -/
theorem collect_order_free {G R : Type} (spawn : G → Nat → List G) (body : G → Nat → R) (main : G)
    (k : Nat) (hk : 1 ≤ k) (hs : (spawn main k).length = k) (ord ord' : List Nat)
    (hord : ord.Perm (List.range k)) (hord' : ord'.Perm (List.range k)) (i : Nat) :
    (run spawn body main k ord).lookup i = (run spawn body main k ord').lookup i := by
  rw [run_lookup spawn body main k hk hs ord hord, run_lookup spawn body main k hk hs ord' hord']

/-- **C18, isolation.**  Chain `i`'s entry depends only on its own generator and on what
`run_phyclone_chain` does with *that* generator: change the seed / spawning of all other chains
(`spawn'`, `main'`), what the other chains compute (`body'` may differ from `body` anywhere except
at chain `i`'s generator), and the completion order — key `i` reads the same. -/
theorem chain_isolated {G R : Type} (spawn spawn' : G → Nat → List G) (body body' : G → Nat → R)
    (main main' : G) (k : Nat) (hk : 1 ≤ k)
    (hs : (spawn main k).length = k) (hs' : (spawn' main' k).length = k)
    (ord ord' : List Nat) (hord : ord.Perm (List.range k)) (hord' : ord'.Perm (List.range k))
    (i : Nat) (g : G)
    (hg : (chainGens spawn main k)[i]? = some g) (hg' : (chainGens spawn' main' k)[i]? = some g)
    (hb : body g i = body' g i) :
    (run spawn body main k ord).lookup i = some (runChain body g i) ∧
    (run spawn' body' main' k ord').lookup i = (run spawn body main k ord).lookup i := by
  rw [run_lookup spawn body main k hk hs ord hord, run_lookup spawn' body' main' k hk hs' ord' hord']
  unfold entry
  rw [hg, hg']
  simp [runChain, hb]

/-- **C18, the single-chain quirk.**  With one chain nothing is spawned: the chain consumes the
main generator, whatever `spawn` would return and whatever `ord` is. -/
theorem single_chain_uses_main {G R : Type} (spawn : G → Nat → List G) (body : G → Nat → R) (main : G)
    (ord : List Nat) :
    chainGens spawn main 1 = [main] ∧
    run spawn body main 1 ord = [(0, runChain body main 0)] := by
  simp [chainGens, run]

/-- **No chain is lost or duplicated**: the dict has exactly the keys `0 … k-1`, once each. -/
theorem collect_complete {G R : Type} (spawn : G → Nat → List G) (body : G → Nat → R) (main : G)
    (k : Nat) (hk : 1 ≤ k) (hs : (spawn main k).length = k) (ord : List Nat)
    (hord : ord.Perm (List.range k)) (i : Nat) :
    ((run spawn body main k ord).lookup i).isSome = decide (i < k) := by
  rw [run_lookup spawn body main k hk hs ord hord]
  unfold entry chainGens
  by_cases h1 : k = 1
  · subst h1
    cases i <;> simp
  · rw [if_neg h1]
    by_cases hi : i < k
    · simp [hi, List.getElem?_eq_getElem (hs ▸ hi)]
    · have : (spawn main k)[i]? = none := List.getElem?_eq_none (by omega)
      simp [hi, this]

/-! ## Non-vacuity: a concrete driver (generators are strings, a trace is a string) -/

def exSpawn (g : String) (k : Nat) : List String := (List.range k).map fun i => s!"{g}/{i}"
def exBody (g : String) (n : Nat) : String := s!"trace({g},{n})"

-- three chains finishing in the order 2, 0, 1: the dict is inserted in that order but reads 0,1,2 correctly
example : run exSpawn exBody "seed7" 3 [2, 0, 1] =
    [(2, ⟨2, "trace(seed7/2,2)"⟩), (0, ⟨0, "trace(seed7/0,0)"⟩), (1, ⟨1, "trace(seed7/1,1)"⟩)] := by decide
example : (run exSpawn exBody "seed7" 3 [2, 0, 1]).lookup 1 = (run exSpawn exBody "seed7" 3 [0, 1, 2]).lookup 1 :=
  collect_order_free exSpawn exBody "seed7" 3 (by decide) (by decide) _ _ (by decide) (by decide) 1
example : ([2, 0, 1] : List Nat).Perm (List.range 3) := by decide
-- isolation: another seed for the others, another body elsewhere, another order: chain 1 unchanged
example : (run (fun g k => if k = 3 then ["x", "seed7/1", "y"] else exSpawn g k)
      (fun g n => if g = "seed7/1" then exBody g n else "other") "seed9" 3 [1, 2, 0]).lookup 1
    = some ⟨1, "trace(seed7/1,1)"⟩ := by decide
-- the quirk is visible: one chain runs on "seed7", not on "seed7/0"
example : run exSpawn exBody "seed7" 1 [0] = [(0, ⟨0, "trace(seed7,0)"⟩)] := by decide
example : run exSpawn exBody "seed7" 2 [1, 0] ≠ run exSpawn exBody "seed7" 2 [0, 1] := by decide
example : ((run exSpawn exBody "seed7" 2 [1, 0]).lookup 2).isSome = false := by decide

end PhyModel.Props.C18
