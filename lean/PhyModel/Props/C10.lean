import PhyModel.Proofs.MapSpecProofs
/-! # C10 — reported CCFs are feasible on the tree and jointly maximise the likelihood

Property theorems only; helper lemmas live in `Proofs/MapProofs.lean` (`map_optimal`, `inv_all`) and
`Proofs/MapSpecProofs.lean`.  The model (`Model/MapDP.lean`) follows `process_trace/map.py` line by
line for one sample; samples are independent in the code (every array operation is per dimension),
so the theorems are per sample and hold for every sample.  The specification (`Feasible`,
`topTotal`, `objective` in `Model/MapSpec.lean`) is structural and does not mention the dynamic
programme.  A forest is any shape (any number of top-level clones, children, depth), the grid any
size `G ≥ 1`, the per-clone log-likelihood vectors arbitrary rationals.

The floating-point clause (clonal prevalence ≥ -1e-12 in IEEE arithmetic) is decided by the
correspondence check (DESIGN.md 3.1); `clonalPrev_nonneg` is its exact-arithmetic core. -/

namespace PhyModel.Props.C10
open PhyModel.MapDP

/-- **Feasibility.**  The index list read off by the traceback names one grid index per clone, every
index lies on the grid, every clone's index is at least the sum of its children's, and the top-level
clones sum to at most `G-1` (CCF one). -/
theorem traceback_feasible (G : ℕ) (hG : 0 < G) (f : Forest) :
    (mapAssign G f).length = f.size ∧ (∀ x ∈ mapAssign G f, x < G) ∧
    Feasible f (mapAssign G f) ∧ topTotal f (mapAssign G f) ≤ G - 1 := by
  obtain ⟨hlen, hbd, t, v, he, ht, _⟩ := map_optimal G hG f
  obtain ⟨hF, htt, _⟩ := (evalM_iff _ _ _ _).mp he
  exact ⟨hlen, hbd, hF, by omega⟩

/-- **Optimality.**  Every feasible assignment (one index per clone, child-sum constraint at every
clone, top-level total at most `G-1`) has summed log-likelihood at most that of the traceback. -/
theorem traceback_optimal (G : ℕ) (hG : 0 < G) (f : Forest) (a : List ℕ)
    (hlen : a.length = f.size) (hF : Feasible f a) (htop : topTotal f a ≤ G - 1) :
    objective f a ≤ objective f (mapAssign G f) := by
  obtain ⟨_, _, t, v, he, _, hopt⟩ := map_optimal G hG f
  obtain ⟨_, _, hv⟩ := (evalM_iff _ _ _ _).mp he
  rw [hv]
  exact hopt a _ _ hlen (evalM_of_feasible hF) htop

/-- **The reported value is the maximum.**  The number the dynamic programme holds for the virtual
root at CCF one is attained by a feasible assignment (the traceback) and bounds every feasible
assignment: it is the greatest element of the set of feasible objective values. -/
theorem value_eq_max (G : ℕ) (hG : 0 < G) (f : Forest) :
    (∃ a : List ℕ, a.length = f.size ∧ (∀ x ∈ a, x < G) ∧ Feasible f a ∧ topTotal f a ≤ G - 1 ∧
        objective f a = rootValue G f) ∧
    ∀ a : List ℕ, a.length = f.size → Feasible f a → topTotal f a ≤ G - 1 →
        objective f a ≤ rootValue G f := by
  obtain ⟨hlen, hbd, hF, ht⟩ := traceback_feasible G hG f
  refine ⟨⟨mapAssign G f, hlen, hbd, hF, ht, (rootValue_eq G hG f).symm⟩, ?_⟩
  intro a hl hFa hta
  rw [rootValue_eq G hG f]
  exact traceback_optimal G hG f a hl hFa hta

/-- clonal prevalences of any feasible assignment are non-negative in exact arithmetic -/
theorem clonalPrev_nonneg_of_feasible (G : ℕ) (hG : 2 ≤ G) :
    ∀ (f : Forest) (a : List ℕ), Feasible f a → ∀ x ∈ clonalPrev G f a, 0 ≤ x := by
  intro f
  induction f with
  | nil => intro a _ x hx; simp [clonalPrev] at hx
  | cons p k s ihk ihs =>
    intro a hF x hx
    cases a with
    | nil => simp [clonalPrev] at hx
    | cons i rest =>
      obtain ⟨hle, hFk, hFs⟩ := hF
      simp only [clonalPrev, List.mem_cons, List.mem_append] at hx
      rcases hx with hx | hx | hx
      · rw [hx, foldl_sub_eq, sum_map_ccf, sum_topIdx]
        exact sub_nonneg.mpr (ccf_mono G hG hle)
      · exact ihk _ hFk x hx
      · exact ihs _ hFs x hx

/-- **Clonal prevalence.**  For the reported assignment, each clone's CCF minus its children's CCFs
(computed as `map.py` does, subtracting child by child) is non-negative in exact arithmetic. -/
theorem clonalPrev_nonneg (G : ℕ) (hG : 2 ≤ G) (f : Forest) :
    ∀ x ∈ clonalPrev G f (mapAssign G f), 0 ≤ x :=
  clonalPrev_nonneg_of_feasible G hG f _ (traceback_feasible G (by omega) f).2.2.1

/-! ### Non-vacuity

A concrete forest on a 4-point grid: top-level clone A with two children B and C (C has a child D),
and a second top-level clone E; preorder A, B, C, D, E.  The unconstrained per-clone arg-max
(3, 1, 1, 3, 1; value 22) is infeasible, so the constraints bind. -/

def exF : Forest :=
  .cons [0, 1, 2, 5] (.cons [0, 3, 1, 0] .nil (.cons [1, 2, 0, 0] (.cons [0, 2, 3, 9] .nil .nil) .nil))
    (.cons [2, 3, 0, 1] .nil .nil)

/-- `traceback_feasible`: hypotheses hold (`0 < 4`) and the conclusion is about a non-trivial list -/
example : (0 < 4) ∧ exF.size = 5 ∧ mapAssign 4 exF = [3, 0, 3, 3, 0] := by decide +kernel

/-- `traceback_optimal`: a competitor satisfying all three hypotheses exists and is strictly worse,
and the unconstrained arg-max violates `Feasible` (so the hypothesis excludes something) -/
example : ([2, 1, 1, 0, 1] : List ℕ).length = exF.size ∧ Feasible exF [2, 1, 1, 0, 1] ∧
    topTotal exF [2, 1, 1, 0, 1] ≤ 4 - 1 ∧
    objective exF [2, 1, 1, 0, 1] < objective exF (mapAssign 4 exF) ∧
    ¬ Feasible exF [3, 1, 1, 3, 1] ∧
    (Feasible exF [3, 0, 3, 3, 1] ∧ ¬ topTotal exF [3, 0, 3, 3, 1] ≤ 4 - 1) := by decide +kernel

/-- `value_eq_max`: the root value on the example is 16, below the unconstrained 22 -/
example : rootValue 4 exF = 16 ∧ objective exF [3, 1, 1, 3, 1] = 22 := by decide +kernel

/-- `clonalPrev_nonneg`: `2 ≤ 4`, and the prevalences are not all zero -/
example : (2 ≤ 4) ∧ clonalPrev 4 exF (mapAssign 4 exF) = [0, 0, 0, 1, 0] ∧
    clonalPrev 4 exF [3, 1, 1, 0, 0] = [1/3, 1/3, 1/3, 0, 0] := by decide +kernel

/-- `clonalPrev_nonneg_of_feasible`: the hypothesis matters — an infeasible list gives a negative
prevalence -/
example : ¬ Feasible exF [1, 1, 1, 0, 0] ∧ clonalPrev 4 exF [1, 1, 1, 0, 0] = [-1/3, 1/3, 1/3, 0, 0] := by
  decide +kernel

end PhyModel.Props.C10
