import PhyModel.Proofs.ConsBridge9
/-! # C16 — the consensus tree contains exactly the clades with majority support

Property theorems about the executable model `PhyModel.Consensus` (`Model/Consensus.lean`), which
mirrors `process_trace/consensus.py` and `process_trace.py:get_tree_from_consensus_graph`.
Helper lemmas are in `Proofs/Consensus.lean` (Finset level), `Proofs/ConsNest.lean` and `Proofs/ConsBridge1-9.lean`
(lists ↔ Finsets).  `F m` is the family of sets a list of clades stands for; `Domain` collects
the property's hypotheses (threshold ≥ 1/2, every tree uses a data point at most once and has no
clone without data, weights one per tree, non-negative, total ≤ 1; `weights = none` is counts
mode, where each tree weighs `1/len(trees)`). -/

open Finset

namespace PhyModel.Props.C16
open PhyModel PhyModel.Consensus PhyModel.ConsBridge PhyModel.Orders

variable {trees : List DF} {weights : Option (List ℚ)} {θ : ℚ}

/-- The clades whose support (counts or weights) strictly exceeds a threshold ≥ 1/2 are pairwise
nested or disjoint. -/
theorem majority_family_laminar (h : Domain trees weights θ) :
    _root_.Consensus.Laminar (F (majority weights (trees.map cladeSet) θ)) :=
  (majority_good h).lam

/-- **"It never fails with inconsistent clades."**  Whatever order the majority clades are iterated
in (`m'` any permutation, outer loop of `consensus`) and whatever order the candidate supersets
are scanned in (`cs` any permutation, loop of `find_smallest_superset`), the scan never reaches
the `raise Exception("Inconsistent set of clades")` branch: it returns a value. -/
theorem no_inconsistent_error (h : Domain trees weights θ) (m' : List Clade)
    (hp : m'.Perm (majority weights (trees.map cladeSet) θ)) :
    (∃ tbl, parentTable m' = .ok tbl) ∧
    ∀ c ∈ m', ∀ cs : List Clade, cs.Perm (discard c m') → ∃ r, findSmallestGo c cs none = .ok r := by
  have hg : GoodFamily m' := (majority_good h).perm hp
  refine ⟨parentTable_ok hg, fun c hc cs hcs => ?_⟩
  apply go_ok hg c (hg.ne c hc) cs none
  · intro d hd; exact (mem_discard.mp (hcs.mem_iff.mp hd)).1
  · exact (hcs.pairwise_iff (fun hxy => Ne.symm hxy)).mpr (List.Pairwise.filter _ hg.pw)
  · intro b hb; cases hb

/-- The digraph built by `consensus` is the nesting of the family: an edge `p → c` is recorded only
when `p` is a member strictly containing `c` with no member strictly in between, and a clade is
left without parent only when no member strictly contains it. -/
theorem parent_is_child (m : List Clade) (hnd : ∀ c ∈ m, c.Nodup)
    (tbl : List (Clade × Option Clade)) (h : parentTable m = .ok tbl) :
    ∀ e ∈ tbl, e.1 ∈ m ∧
      (∀ p, e.2 = some p → _root_.Consensus.isChild (F m) p.toFinset e.1.toFinset) ∧
      (e.2 = none → ∀ d ∈ m, ¬ e.1.toFinset ⊂ d.toFinset) := by
  have hf := mapM_spec _ m tbl h
  intro e he
  obtain ⟨a, ham, hfa⟩ := forall₂_mem_right hf e he
  cases hr : findSmallestSuperset m a with
  | error err => rw [hr] at hfa; cases hfa
  | ok r =>
    rw [hr] at hfa
    have hfa' : (Except.ok (a, r) : Except String (Clade × Option Clade)) = .ok e := hfa
    injection hfa' with hfa'
    subst hfa'
    refine ⟨ham, fun p hp => ?_, fun hn => ?_⟩
    · simp only at hp; subst hp; exact parent_isChild hnd hr ham
    · simp only at hn; subst hn; exact root_maximal hr

/-- **"relabel never raises KeyError"** (bridge (a)).  For every iteration order `m'` of the majority
set and the parent table built from it, `_relabel` at each node succeeds — no element is removed
twice and every removed element is present, because the children of a node are pairwise disjoint
subsets of it — and the data it leaves at the node is the clade minus the union of all majority
clades strictly inside it. -/
theorem own_is_clade_minus_subclades (h : Domain trees weights θ) (m' : List Clade)
    (hp : m'.Perm (majority weights (trees.map cladeSet) θ))
    (tbl : List (Clade × Option Clade)) (ht : parentTable m' = .ok tbl) :
    ∀ c ∈ m', ∃ o, ownOf tbl c = .ok o ∧ o.Nodup ∧
      o.toFinset = c.toFinset \
        ((F (majority weights (trees.map cladeSet) θ)).filter (fun e => e ⊂ c.toFinset)).biUnion id := by
  intro c hc
  have hg : GoodFamily m' := (majority_good h).perm hp
  obtain ⟨o, h1, h2, h3⟩ := ownOf_spec hg ht hc
  exact ⟨o, h1, h2, by rw [h3, strictU, F_perm hp]⟩

/-- **The consensus tree contains exactly the clades with majority support.**  Whenever the
consensus command returns a tree for an in-domain trace, the set of clades of that tree (one
clade per clone: its data and everything below it) is the set of clades whose support strictly
exceeds the threshold. -/
theorem consensus_clades_exact (h : Domain trees weights θ) (n : ℕ) (r : Result)
    (hr : run n trees weights θ = .ok r) :
    F (cladesOf r.forest) = F (majority weights (trees.map cladeSet) θ) :=
  nest_clades_exact (majority_good h) (run_spec hr).1

/-- **Every data point not covered by a retained clade is reported as outlier (clone id -1), and
nothing else is.** -/
theorem uncovered_are_minus1 (h : Domain trees weights θ) (n : ℕ) (r : Result)
    (hr : run n trees weights θ = .ok r) (i : ℕ) :
    i ∈ r.outs ↔ i < n ∧ ∀ c ∈ majority weights (trees.map cladeSet) θ, i ∉ c :=
  nest_outs_exact (majority_good h) (run_spec hr).1 i

/-- Both clauses for every iteration order `m'` of the majority set (Python iterates over a `set`
of frozensets): the forest built from `m'` has exactly the majority clades and its outliers are
exactly the uncovered data indices. -/
theorem consensus_any_order (h : Domain trees weights θ) (n : ℕ) (m' : List Clade)
    (hp : m'.Perm (majority weights (trees.map cladeSet) θ)) (f : DF) (outs : List ℕ)
    (owns : List (Clade × List ℕ)) (tbl : List (Clade × Option Clade))
    (hr : nest n m' = .ok (f, outs, owns, tbl)) :
    F (cladesOf f) = F (majority weights (trees.map cladeSet) θ) ∧
    ∀ i, i ∈ outs ↔ i < n ∧ ∀ c ∈ majority weights (trees.map cladeSet) θ, i ∉ c := by
  have hg : GoodFamily m' := (majority_good h).perm hp
  refine ⟨by rw [nest_clades_exact hg hr, F_perm hp], fun i => ?_⟩
  rw [nest_outs_exact hg hr i]
  exact and_congr_right fun _ => ⟨fun hh c hc => hh c (hp.mem_iff.mpr hc), fun hh c hc => hh c (hp.mem_iff.mp hc)⟩

/-- The hypothesis `run … = .ok r` of the two theorems above is met by every in-domain trace over
data points `0 … n-1`: the command raises none of its errors ("Inconsistent set of clades",
KeyError in `relabel`, index outside the data set, too few weights). -/
theorem run_succeeds (h : Domain trees weights θ) (n : ℕ) (hn : ∀ t ∈ trees, ∀ i ∈ t.all, i < n) :
    ∃ r, run n trees weights θ = .ok r :=
  run_ok h hn

/-! ### non-vacuity -/

/-- the F9 regression instance: 1→0,3→2 / 0→1,2→3 / four separate roots -/
def tA : DF := .cons [0] (.cons [1] .nil .nil) (.cons [2] (.cons [3] .nil .nil) .nil)
def tB : DF := .cons [1] (.cons [0] .nil .nil) (.cons [3] (.cons [2] .nil .nil) .nil)
def tC : DF := .cons [0] .nil (.cons [1] .nil (.cons [2] .nil (.cons [3] .nil .nil)))

/-- counts mode: the regression instance is in the domain -/
theorem dom_counts : Domain [tA, tB, tC] none (1 / 2) where
  theta := le_refl _
  nodup := by intro t ht; simp only [List.mem_cons, List.not_mem_nil, or_false] at ht; rcases ht with rfl | rfl | rfl <;> decide
  nonempty := by
    intro t ht; simp only [List.mem_cons, List.not_mem_nil, or_false] at ht
    rcases ht with rfl | rfl | rfl <;> simp [tA, tB, tC, NonemptyClones]
  weights := ⟨fun _ h => (by cases h), fun _ h => (by cases h), fun _ h => (by cases h)⟩

/-- weighted mode, threshold 3/5: in the domain -/
theorem dom_weighted : Domain [tA, tB, tC] (some [1 / 2, 1 / 4, 1 / 4]) (3 / 5) where
  theta := by norm_num
  nodup := by intro t ht; simp only [List.mem_cons, List.not_mem_nil, or_false] at ht; rcases ht with rfl | rfl | rfl <;> decide
  nonempty := by
    intro t ht; simp only [List.mem_cons, List.not_mem_nil, or_false] at ht
    rcases ht with rfl | rfl | rfl <;> simp [tA, tB, tC, NonemptyClones]
  weights := ⟨fun ws h => (by injection h with h; subst h; rfl),
    fun ws h w hw => (by
      injection h with h; subst h
      simp only [List.mem_cons, List.not_mem_nil, or_false] at hw
      rcases hw with rfl | rfl | rfl <;> norm_num),
    fun ws h => (by injection h with h; subst h; norm_num)⟩

theorem data_lt_five : ∀ t ∈ [tA, tB, tC], ∀ i ∈ t.all, i < 5 := by
  intro t ht; simp only [List.mem_cons, List.not_mem_nil, or_false] at ht
  rcases ht with rfl | rfl | rfl <;> decide

/-- `consensus_clades_exact` / `uncovered_are_minus1` / `run_succeeds` are not vacuous: on the
regression instance over five data points the command returns a result (both modes), so its
clades are the majority clades and its outliers the uncovered indices (data point 4) -/
example : ∃ r, run 5 [tA, tB, tC] none (1 / 2) = .ok r ∧
    F (cladesOf r.forest) = F (majority none ([tA, tB, tC].map cladeSet) (1 / 2)) ∧
    (4 ∈ r.outs ↔ 4 < 5 ∧ ∀ c ∈ majority none ([tA, tB, tC].map cladeSet) (1 / 2), 4 ∉ c) := by
  obtain ⟨r, hr⟩ := run_succeeds dom_counts 5 data_lt_five
  exact ⟨r, hr, consensus_clades_exact dom_counts 5 r hr, uncovered_are_minus1 dom_counts 5 r hr 4⟩

example : ∃ r, run 5 [tA, tB, tC] (some [1 / 2, 1 / 4, 1 / 4]) (3 / 5) = .ok r :=
  run_succeeds dom_weighted 5 data_lt_five

/-- `parent_is_child` / `own_is_clade_minus_subclades` / `consensus_any_order`: nesting the family
{0,1},{0},{1},{2,3} on five data points succeeds, {0,1} keeps no data of its own, data point 4
becomes an outlier and the clades of the built forest are the family -/
example : (nest 5 [[0, 1], [0], [1], [2, 3]]).toOption.map (fun r => (cladesOf r.1, r.2.1, r.2.2.1)) =
    some ([[0, 1], [0], [1], [2, 3]], [4], [([0, 1], []), ([0], [0]), ([1], [1]), ([2, 3], [2, 3])]) := by
  decide

/-- out of the domain (threshold below 1/2 admits the non-laminar family {0,1},{1,2}) the
conclusion of `own_is_clade_minus_subclades` / `run_succeeds` fails: the model raises, as the
code does -/
example : (nest 3 [[0, 1], [1, 2], [1], [0, 1, 2]]).toOption = none := by decide

end PhyModel.Props.C16
