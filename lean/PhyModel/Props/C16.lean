import PhyModel.Proofs.ConsBridge5
/-! # C16 — the consensus tree contains exactly the clades with majority support

Property theorems about the executable model `PhyModel.Consensus` (`Model/Consensus.lean`), which
mirrors `process_trace/consensus.py` and `process_trace.py:get_tree_from_consensus_graph`.
Helper lemmas are in `Proofs/Consensus.lean` (Finset level) and `Proofs/ConsBridge1-5.lean`
(lists ↔ Finsets).  `F m` is the family of sets a list of clades stands for; `Domain` collects
the property's hypotheses (threshold ≥ 1/2, every tree uses a data point at most once and has no
clone without data, weights one per tree, non-negative, total ≤ 1; `weights = none` is counts
mode, where each tree weighs `1/len(trees)`). -/

open Finset

namespace PhyModel.Props.C16
open PhyModel PhyModel.Consensus PhyModel.ConsBridge PhyModel.Orders

variable {trees : List DF} {weights : Option (List ℚ)} {θ : ℚ}

/-- The clades whose support (counts or weights) strictly exceeds a threshold ≥ 1/2 are pairwise
nested or disjoint. -/
theorem majority_family_laminar (h : Domain trees weights θ) :
    _root_.Consensus.Laminar (F (majority weights (trees.map cladeSet) θ)) :=
  (majority_good h).lam

/-- **"It never fails with inconsistent clades."**  Whatever order the majority clades are iterated
in (`m'` any permutation, outer loop of `consensus`) and whatever order the candidate supersets
are scanned in (`cs` any permutation, loop of `find_smallest_superset`), the scan never reaches
the `raise Exception("Inconsistent set of clades")` branch: it returns a value. -/
theorem no_inconsistent_error (h : Domain trees weights θ) (m' : List Clade)
    (hp : m'.Perm (majority weights (trees.map cladeSet) θ)) :
    (∃ tbl, parentTable m' = .ok tbl) ∧
    ∀ c ∈ m', ∀ cs : List Clade, cs.Perm (discard c m') → ∃ r, findSmallestGo c cs none = .ok r := by
  have hg : GoodFamily m' := (majority_good h).perm hp
  refine ⟨parentTable_ok hg, fun c hc cs hcs => ?_⟩
  apply go_ok hg c (hg.ne c hc) cs none
  · intro d hd; exact (mem_discard.mp (hcs.mem_iff.mp hd)).1
  · exact (hcs.pairwise_iff (fun hxy => Ne.symm hxy)).mpr (List.Pairwise.filter _ hg.pw)
  · intro b hb; cases hb

/-- The digraph built by `consensus` is the nesting of the family: an edge `p → c` is recorded only
when `p` is a member strictly containing `c` with no member strictly in between, and a clade is
left without parent only when no member strictly contains it. -/
theorem parent_is_child (m : List Clade) (hnd : ∀ c ∈ m, c.Nodup)
    (tbl : List (Clade × Option Clade)) (h : parentTable m = .ok tbl) :
    ∀ e ∈ tbl, e.1 ∈ m ∧
      (∀ p, e.2 = some p → _root_.Consensus.isChild (F m) p.toFinset e.1.toFinset) ∧
      (e.2 = none → ∀ d ∈ m, ¬ e.1.toFinset ⊂ d.toFinset) := by
  have hf := mapM_spec _ m tbl h
  intro e he
  obtain ⟨a, ham, hfa⟩ := forall₂_mem_right hf e he
  cases hr : findSmallestSuperset m a with
  | error err => rw [hr] at hfa; cases hfa
  | ok r =>
    rw [hr] at hfa
    have hfa' : (Except.ok (a, r) : Except String (Clade × Option Clade)) = .ok e := hfa
    injection hfa' with hfa'
    subst hfa'
    refine ⟨ham, fun p hp => ?_, fun hn => ?_⟩
    · simp only at hp; subst hp; exact parent_isChild hnd hr ham
    · simp only at hn; subst hn; exact root_maximal hr

/- Full statement (not proved):
   theorem consensus_clades_exact (h : Domain trees weights θ) (n : ℕ) (r : Result)
       (hr : run n trees weights θ = .ok r) :
       F (cladesOf r.forest) = F (majority weights (trees.map cladeSet) θ)
-/
-- OBLIGATION-OPEN consensus_clades_exact: two list-level bridges are missing: (a) `ownOf tbl c` (clade minus the elements of its children in the parent table) equals `c \ ⋃ {d ∈ M | d ⊂ c}` and never raises KeyError on a laminar family (children are pairwise disjoint); (b) the clade list of the forest produced by the fuel-driven `buildNode` is `⋃ {own d | d ⊆ c}` for each node `c`.  Proved here: the Finset-level core (below) and that the parent table is the child relation (`parent_is_child`).  The clause is decided by the correspondence and the direct oracle.

/-- Finset-level core of "the clades of the built tree are exactly the majority clades": in the
majority family, the own sets (a member minus all members strictly inside it) of the members
inside `c` union to `c`. -/
theorem consensus_clades_exact_partial (_h : Domain trees weights θ) (c : Finset ℕ)
    (hc : c ∈ F (majority weights (trees.map cladeSet) θ)) :
    ((F (majority weights (trees.map cladeSet) θ)).filter (fun d => d ⊆ c)).biUnion
      (fun d => d \ ((F (majority weights (trees.map cladeSet) θ)).filter (fun e => e ⊂ d)).biUnion id) = c :=
  _root_.Consensus.own_cover _ c hc

/- Full statement (not proved):
   theorem uncovered_are_minus1 (h : Domain trees weights θ) (n : ℕ) (r : Result)
       (hr : run n trees weights θ = .ok r) (i : ℕ) :
       i ∈ r.outs ↔ i < n ∧ ∀ c ∈ majority weights (trees.map cladeSet) θ, i ∉ c
-/
-- OBLIGATION-OPEN uncovered_are_minus1: needs bridge (a) above (the own sets of the table cover exactly the union of the majority clades); proved: the outlier list is exactly the data indices that no consensus node owns.

/-- Every data point that no consensus node owns is reported as an outlier (clone id -1), and
nothing else is. -/
theorem uncovered_are_minus1_partial (n : ℕ) (m : List Clade) (f : DF) (outs : List ℕ)
    (owns : List (Clade × List ℕ)) (tbl : List (Clade × Option Clade))
    (h : nest n m = .ok (f, outs, owns, tbl)) (i : ℕ) :
    i ∈ outs ↔ i < n ∧ ∀ e ∈ owns, i ∉ e.2 := by
  rw [(nest_outs h).1]
  exact mem_outliersOf

/-! ### non-vacuity -/

/-- the F9 regression instance: 1→0,3→2 / 0→1,2→3 / four separate roots -/
def tA : DF := .cons [0] (.cons [1] .nil .nil) (.cons [2] (.cons [3] .nil .nil) .nil)
def tB : DF := .cons [1] (.cons [0] .nil .nil) (.cons [3] (.cons [2] .nil .nil) .nil)
def tC : DF := .cons [0] .nil (.cons [1] .nil (.cons [2] .nil (.cons [3] .nil .nil)))

/-- counts mode: the hypotheses of the first two theorems hold on the regression instance -/
example : Domain [tA, tB, tC] none (1 / 2) where
  theta := le_refl _
  nodup := by intro t ht; simp only [List.mem_cons, List.not_mem_nil, or_false] at ht; rcases ht with rfl | rfl | rfl <;> decide
  nonempty := by
    intro t ht; simp only [List.mem_cons, List.not_mem_nil, or_false] at ht
    rcases ht with rfl | rfl | rfl <;> simp [tA, tB, tC, NonemptyClones]
  weights := ⟨fun _ h => (by cases h), fun _ h => (by cases h), fun _ h => (by cases h)⟩

/-- weighted mode, threshold 3/5 -/
example : Domain [tA, tB, tC] (some [1 / 2, 1 / 4, 1 / 4]) (3 / 5) where
  theta := by norm_num
  nodup := by intro t ht; simp only [List.mem_cons, List.not_mem_nil, or_false] at ht; rcases ht with rfl | rfl | rfl <;> decide
  nonempty := by
    intro t ht; simp only [List.mem_cons, List.not_mem_nil, or_false] at ht
    rcases ht with rfl | rfl | rfl <;> simp [tA, tB, tC, NonemptyClones]
  weights := ⟨fun ws h => (by injection h with h; subst h; rfl),
    fun ws h w hw => (by
      injection h with h; subst h
      simp only [List.mem_cons, List.not_mem_nil, or_false] at hw
      rcases hw with rfl | rfl | rfl <;> norm_num),
    fun ws h => (by injection h with h; subst h; norm_num)⟩

/-- `parent_is_child` / `uncovered_are_minus1_partial`: nesting the family {0,1},{0},{1},{2,3} on
five data points succeeds, {0,1} keeps no data of its own and data point 4 becomes an outlier -/
example : (nest 5 [[0, 1], [0], [1], [2, 3]]).toOption.map (fun r => (r.2.1, r.2.2.1)) =
    some ([4], [([0, 1], []), ([0], [0]), ([1], [1]), ([2, 3], [2, 3])]) := by decide

end PhyModel.Props.C16
