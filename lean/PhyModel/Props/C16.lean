import PhyModel.Model.Consensus
namespace PhyModel.Props.C16
end PhyModel.Props.C16
