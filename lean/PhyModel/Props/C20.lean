import PhyModel.Proofs.FramingStrict
/-! # C20 — an interrupted or truncated trace file is never read as a valid result

Framing proof that accompanies the exhaustive fault enumeration on the real code
(`harness/props/c20.py`).  The file is written as one serialised object inside one stream
container; a crash at any byte leaves a prefix of the complete file (checked on the real writer by
the harness).  The theorems say that the composed reader, on **every** prefix of the file, either
fails or returns exactly the object that was written — first for any serialiser / container obeying
four stated laws (the assumptions made about the real `pickle` / `gzip`, which are outside the
model), then for the concrete executable codec of `Model/Framing.lean`, which satisfies the laws
(so they are not vacuous) and which the driver runs in the correspondence check. -/

namespace PhyModel.Props.C20
open PhyModel.Framing

/-- the serialiser reads back what it wrote, whatever follows in the stream (pickle: `STOP`) -/
theorem dec_enc (x : Val) (r : List Sym) : decode (enc x ++ r) = some x :=
  decode_enc_append x r

/-- every proper prefix of a serialised object fails to decode -/
theorem dec_proper_prefix_fails (x : Val) (p : List Sym) (hp : p <+: enc x) (hne : p ≠ enc x) :
    decode p = none :=
  decode_proper_prefix x p hp hne

example : decode ((enc (.sub (.num 3 .nil) (.num 5 .nil))).take 5) = none ∧
    decode (enc (.sub (.num 3 .nil) (.num 5 .nil)) ++ [9, 9]) = some (.sub (.num 3 .nil) (.num 5 .nil)) := by
  decide

/-- **C20, abstract form.**  For any lawful serialiser and container, any object `x` and any crash
point `n`, reading the first `n` symbols of the file written for `x` fails or yields exactly `x`. -/
theorem read_prefix_safe_abstract {α : Type} (S : Serialiser α) (C : Container)
    (hS : S.Lawful) (hC : C.Lawful) (x : α) (n : Nat) :
    readCut S C x n = none ∨ readCut S C x n = some x := by
  unfold readCut
  rcases hC.deliver_cut (S.enc x) n with h | ⟨k, h⟩
  · left; simp [h]
  · rw [h]
    by_cases hk : (S.enc x).length ≤ k
    · right
      rw [List.take_of_length_le hk]
      simpa using hS.dec_enc x []
    · left
      have hne : (S.enc x).take k ≠ S.enc x := by
        intro he
        have := congrArg List.length he
        simp at this; omega
      simpa using hS.dec_proper_prefix x _ (List.take_prefix k _) hne

/-- the complete file reads back as `x` (so the disjunction above is not always `none`) -/
theorem read_full_abstract {α : Type} (S : Serialiser α) (C : Container)
    (hS : S.Lawful) (hC : C.Lawful) (x : α) (n : Nat) (hn : (C.pack (S.enc x)).length ≤ n) :
    readCut S C x n = some x := by
  unfold readCut
  rw [List.take_of_length_le hn, hC.deliver_full]
  simpa using hS.dec_enc x []

/-- the concrete serialiser obeys the laws -/
theorem valSerialiser_lawful : valSerialiser.Lawful :=
  ⟨decode_enc_append, decode_proper_prefix⟩

/-- the concrete block container (any block size) obeys the laws -/
theorem blockContainer_lawful (B : Nat) : (blockContainer B).Lawful := by
  constructor
  · intro b n
    rcases deliver_take B b n with ⟨_, h⟩ | ⟨_, k, h, _, _⟩
    · left; exact h
    · right; exact ⟨k, h⟩
  · intro b
    rcases deliver_take B b (pack B b).length with ⟨hlt, _⟩ | ⟨_, k, h, _, h3⟩
    · simp [pack, header] at hlt; omega
    · have hk := h3 (by simp [pack, header]; omega)
      simp only [List.take_length] at h
      rw [List.take_of_length_le hk] at h
      exact h

/-- **C20 on the executable model.**  For every block size, every trace value `x` and every prefix
length `n` of the file written for `x`, the reader used by the summary commands returns an error or
exactly `x`. -/
theorem read_prefix_safe (B : Nat) (x : Val) (n : Nat) :
    readPrefix B x n = none ∨ readPrefix B x n = some x :=
  read_prefix_safe_abstract valSerialiser (blockContainer B) valSerialiser_lawful
    (blockContainer_lawful B) x n

/-- where the outcome switches: the read is complete exactly from the end of the block stream on;
only the trailer (checksum, length) may be missing — the "trailer window" seen on the real files. -/
theorem read_complete_iff (B : Nat) (x : Val) (n : Nat) :
    readPrefix B x n = some x ↔ bodyEnd B x ≤ n := by
  unfold readPrefix readLazy file bodyEnd
  have hne := enc_ne_nil x
  rcases deliver_take B (enc x) n with ⟨hlt, h⟩ | ⟨_, k, h, h2, h3⟩
  · rw [h]; simp [header]; omega
  · rw [h]
    by_cases hn : 3 + (blocks B (enc x)).length ≤ n
    · have hk := h3 hn
      rw [List.take_of_length_le hk]
      simp only [Option.bind_some, header, List.length_cons, List.length_nil]
      constructor
      · intro _; omega
      · intro _; simpa using decode_enc_append x []
    · have hk := h2 hne (by omega)
      have hp : decode ((enc x).take k) = none :=
        decode_proper_prefix x _ (List.take_prefix k _) (by
          intro he
          have := congrArg List.length he
          simp at this; omega)
      simp only [Option.bind_some, hp, header, List.length_cons, List.length_nil]
      constructor
      · intro h0; cases h0
      · intro h0; omega

/-- outcomes are monotone in the prefix length: once a prefix reads completely, every longer one does -/
theorem read_monotone (B : Nat) (x : Val) (n m : Nat) (hnm : n ≤ m)
    (h : readPrefix B x n = some x) : readPrefix B x m = some x :=
  (read_complete_iff B x m).mpr (Nat.le_trans ((read_complete_iff B x n).mp h) hnm)

/-- non-vacuity on a two-chain-shaped value with block size 4: file of 26 symbols, error on every
prefix shorter than 24, the original from 24 on (trailer window of 2) -/
example :
    let x : Val := .sub (.num 0 (.sub (.num 0 (.num 7 .nil)) .nil)) (.num 5 .nil)
    (file 3 x).length = 26 ∧ bodyEnd 3 x = 24 ∧
    (List.range 24).all (fun n => readPrefix 3 x n == none) ∧
    (List.range' 24 4).all (fun n => readPrefix 3 x n == some x) := by
  decide

/-- **Strict reader** (end marker *and* trailer with matching checksum / length required): it returns
the original exactly on the complete file and an error on every proper prefix. -/
theorem read_strict_complete_iff (B : Nat) (x : Val) (n : Nat) :
    readPrefixStrict B x n = some x ↔ (file B x).length ≤ n := by
  unfold readPrefixStrict readStrict file
  rw [unpack_take]
  by_cases h : (pack B (enc x)).length ≤ n
  · simp only [h, if_true, Option.bind_some, iff_true]
    simpa using decode_enc_append x []
  · simp [h]

theorem read_prefix_safe_strict (B : Nat) (x : Val) (n : Nat) :
    readPrefixStrict B x n = none ∨ readPrefixStrict B x n = some x := by
  by_cases h : (file B x).length ≤ n
  · right; exact (read_strict_complete_iff B x n).mpr h
  · left
    unfold readPrefixStrict readStrict file at *
    rw [unpack_take]
    simp [h]

/-- whatever the strict reader accepts the incremental reader accepts too: the only difference
between them is the trailer window -/
theorem strict_implies_lazy (B : Nat) (x : Val) (n : Nat)
    (h : readPrefixStrict B x n = some x) : readPrefix B x n = some x := by
  have h1 := (read_strict_complete_iff B x n).mp h
  refine (read_complete_iff B x n).mpr ?_
  have : bodyEnd B x ≤ (file B x).length := by
    simp [bodyEnd, file, pack, header]; omega
  omega

example :
    let x : Val := .sub (.num 0 (.sub (.num 0 (.num 7 .nil)) .nil)) (.num 5 .nil)
    (List.range 26).all (fun n => readPrefixStrict 3 x n == none) ∧
    readPrefixStrict 3 x 26 = some x ∧ readPrefixStrict 3 x 27 = some x := by
  decide

end PhyModel.Props.C20
