import PhyModel.Proofs.TopoProofs
import Mathlib.Algebra.Order.Ring.Unbundled.Rat
/-! # C11 — trace summaries pick the true maximum and count topologies exactly

Property theorems only; helper lemmas are in `Proofs/TraceProofs.lean`, `Proofs/TopoProofs.lean`.
Everything is stated for **all** traces: any list of chains (the `results` dict in its insertion order,
which depends on process scheduling), any entries, any type of tree keys with decidable equality, any
linearly ordered type of scores (the recorded floats embed exactly into `Rat`, which is what the driver
uses).  `WF tr` says that chain numbers are distinct — true of every dict.

`DataFrame.sort_values` is not a stable sort, so which of several rows with the same score (count) comes
first is unspecified in the code.  The model fixes one sort (`sortBy`), but every statement below except
`freqPick_maxcount` is about *membership* in the table or about the sorted score column and therefore
holds for every admissible order; frequency mode is covered for every admissible order by
`freqCandidates_maxcount`. -/

namespace PhyModel.Props.C11
open PhyModel.Trace

variable {κ σ : Type} [DecidableEq κ] [LinearOrder σ]

/-- number of entries of the trace whose tree is `k` -/
def occurrences (tr : Trace κ σ) (k : κ) : Nat := (entries tr).countP (fun e => decide (e.1 = k))

omit [LinearOrder σ] in
private theorem occurrences_flat (tr : Trace κ σ) (k : κ) :
    occurrences tr k = (flat tr).countP (fun r => decide (r.key = k)) := by
  unfold occurrences
  rw [← flat_map, List.countP_map]
  rfl

private theorem mem_table_iff (tr : Trace κ σ) (w : Row κ σ) : w ∈ topoTable tr ↔ w ∈ topoDict (flat tr) :=
  (sortBy_perm scoreGe _).mem_iff

/-! ## MAP, joint-likelihood mode -/

omit [DecidableEq κ] in
/-- The MAP command returns an entry of the trace whose recorded score is the maximum over all entries of
all chains. -/
theorem mapPick_max (tr : Trace κ σ) (hwf : WF tr) (hne : entries tr ≠ []) :
    ∃ e, mapPick tr = some e ∧ e ∈ entries tr ∧ ∀ e' ∈ entries tr, e'.2 ≤ e.2 := by
  have hfl : flat tr ≠ [] := by
    intro h; apply hne; rw [← flat_map, h]; rfl
  obtain ⟨b, h1, h2, h3⟩ := mapScan_spec hfl
  have hl := lookup_of_mem_flat hwf h2
  refine ⟨(b.key, b.score), by simp [mapPick, h1, hl], lookup_mem hl, ?_⟩
  intro e' he'
  obtain ⟨r, hr, _, hs⟩ := mem_entries_iff.mp he'
  rw [← hs]; exact h3 r hr

omit [DecidableEq κ] in
/-- If ties at the maximum were broken differently (`>=` instead of `>`, another scan order), the command
would report one of `mapCandidates`: exactly the entries whose score is the maximum; the model's own pick
is one of them. -/
theorem mapCandidates_spec (tr : Trace κ σ) (e : κ × σ) :
    e ∈ mapCandidates tr ↔ e ∈ entries tr ∧ ∀ e' ∈ entries tr, e'.2 ≤ e.2 := by
  simp [mapCandidates, List.mem_filter, List.all_eq_true]

omit [DecidableEq κ] [LinearOrder σ] in
private theorem mem_entries_perm {tr tr' : Trace κ σ} (hp : tr.Perm tr') (e : κ × σ) :
    e ∈ entries tr ↔ e ∈ entries tr' := by
  simp only [entries, List.mem_flatMap]
  constructor
  · rintro ⟨ch, h1, h2⟩; exact ⟨ch, hp.mem_iff.mp h1, h2⟩
  · rintro ⟨ch, h1, h2⟩; exact ⟨ch, hp.mem_iff.mpr h1, h2⟩

omit [DecidableEq κ] in
/-- Completion order does not matter: for any permutation of the chains the MAP command reports the same
score (the tree may differ only among entries tied at the maximum). -/
theorem mapPick_perm (tr tr' : Trace κ σ) (hwf : WF tr) (hp : tr.Perm tr') :
    (mapPick tr).map Prod.snd = (mapPick tr').map Prod.snd := by
  have hwf' : WF tr' := (hp.map _).nodup_iff.mp hwf
  by_cases hne : entries tr = []
  · have hne' : entries tr' = [] := by
      apply List.eq_nil_iff_forall_not_mem.mpr
      intro e he; rw [← mem_entries_perm hp e, hne] at he; cases he
    have none_of : ∀ t : Trace κ σ, entries t = [] → mapPick t = none := by
      intro t ht
      cases hm : mapPick t with
      | none => rfl
      | some e =>
        exfalso
        have : e ∈ entries t := by
          unfold mapPick at hm
          split at hm <;> exact lookup_mem hm
        rw [ht] at this; cases this
    rw [none_of tr hne, none_of tr' hne']
  · have hne' : entries tr' ≠ [] := by
      intro h
      obtain ⟨e, he⟩ := List.exists_mem_of_ne_nil _ hne
      rw [mem_entries_perm hp e, h] at he; cases he
    obtain ⟨e, h1, h2, h3⟩ := mapPick_max tr hwf hne
    obtain ⟨e', h1', h2', h3'⟩ := mapPick_max tr' hwf' hne'
    rw [h1, h1']
    simp only [Option.map_some, Option.some.injEq]
    exact le_antisymm (h3' e ((mem_entries_perm hp e).mp h2)) (h3 e' ((mem_entries_perm hp e').mpr h2'))

/-! ## the topology table -/

/-- One row per distinct tree: no tree has two rows, and the trees with a row are exactly the trees that
occur in the trace. -/
theorem topo_rows_distinct (tr : Trace κ σ) :
    ((topoTable tr).map (·.key)).Nodup ∧
      ∀ k, k ∈ (topoTable tr).map (·.key) ↔ k ∈ (entries tr).map Prod.fst := by
  have inv := inv_topoDict (flat tr)
  have hp := (sortBy_perm scoreGe (topoDict (flat tr))).map (·.key)
  refine ⟨hp.nodup_iff.mpr inv.nodup, fun k => ?_⟩
  have hm : k ∈ (topoTable tr).map (·.key) ↔ k ∈ (topoDict (flat tr)).map (·.key) := hp.mem_iff
  rw [hm]
  constructor
  · intro hk
    obtain ⟨w, hw, rfl⟩ := List.mem_map.mp hk
    obtain ⟨r, hr, h1, h2, _⟩ := (inv.good w hw).att
    exact List.mem_map.mpr ⟨(w.key, w.score), mem_entries_iff.mpr ⟨r, hr, h1, h2⟩, rfl⟩
  · intro hk
    obtain ⟨e, he, rfl⟩ := List.mem_map.mp hk
    obtain ⟨r, hr, h1, _⟩ := mem_entries_iff.mp he
    rw [← h1]; exact inv.cover r hr

/-- A row's count is the number of entries with that tree. -/
theorem topo_count_correct (tr : Trace κ σ) (w : Row κ σ) (hw : w ∈ topoTable tr) :
    w.count = occurrences tr w.key := by
  rw [occurrences_flat]
  exact ((inv_topoDict (flat tr)).good w ((mem_table_iff tr w).mp hw)).count_eq

/-- Counts sum to the number of entries. -/
theorem topo_counts_sum (tr : Trace κ σ) :
    ((topoTable tr).map (·.count)).sum = (entries tr).length := by
  have hp : ((topoTable tr).map (·.count)).Perm ((topoDict (flat tr)).map (·.count)) :=
    (sortBy_perm scoreGe (topoDict (flat tr))).map (·.count)
  rw [hp.sum_nat, (inv_topoDict (flat tr)).sum, flat_length]

/-- A row's score is the maximum over the entries with that tree (an upper bound that is attained). -/
theorem topo_score_is_max (tr : Trace κ σ) (w : Row κ σ) (hw : w ∈ topoTable tr) :
    (∀ e ∈ entries tr, e.1 = w.key → e.2 ≤ w.score) ∧ (w.key, w.score) ∈ entries tr := by
  have g := (inv_topoDict (flat tr)).good w ((mem_table_iff tr w).mp hw)
  constructor
  · intro e he hk
    obtain ⟨r, hr, h1, h2⟩ := mem_entries_iff.mp he
    rw [← h2]; exact g.ge r hr (h1.trans hk)
  · obtain ⟨r, hr, h1, h2, _⟩ := g.att
    exact mem_entries_iff.mpr ⟨r, hr, h1, h2⟩

/-- A row's `(chain_num, iter)` pointer leads to an entry with the row's tree and the row's score. -/
theorem topo_pointer_attains (tr : Trace κ σ) (hwf : WF tr) (w : Row κ σ) (hw : w ∈ topoTable tr) :
    lookup tr w.chain w.iter = some (w.key, w.score) := by
  obtain ⟨r, hr, h1, h2, h3, h4⟩ := ((inv_topoDict (flat tr)).good w ((mem_table_iff tr w).mp hw)).att
  rw [← h1, ← h2, ← h3, ← h4]
  exact lookup_of_mem_flat hwf hr

/-- Distinct rows have distinct pointers — which is why the archive's look-up of a dictionary value in
the data frame by `(count, score, iter, chain_num)` finds exactly one row (`assert len(row) == 1`). -/
theorem topo_pointers_distinct (tr : Trace κ σ) (hwf : WF tr) :
    (topoTable tr).Pairwise (fun a b => (a.chain, a.iter) ≠ (b.chain, b.iter)) := by
  have hnd : (topoTable tr).Pairwise (fun a b => a.key ≠ b.key) :=
    List.pairwise_map.mp (topo_rows_distinct tr).1
  refine hnd.imp_of_mem ?_
  intro a b ha hb hk hp
  have h1 := topo_pointer_attains tr hwf a ha
  have h2 := topo_pointer_attains tr hwf b hb
  simp only [Prod.mk.injEq] at hp
  rw [hp.1, hp.2, h2] at h1
  simp only [Option.some.injEq, Prod.mk.injEq] at h1
  exact hk h1.1.symm

/-- Rows are ranked by score: every row's score is at least the score of every later row (the id of the
row at position `i` is `t_<i>`, see `ranked`). -/
theorem topo_sorted (tr : Trace κ σ) : (topoTable tr).Pairwise (fun a b => b.score ≤ a.score) := by
  have h := sortBy_pairwise (le := (scoreGe : Row κ σ → Row κ σ → Bool))
    (by intro a b; simp only [scoreGe, Bool.not_eq_true', decide_eq_false_iff_not, not_lt]; exact le_total _ _)
    (by intro a b c; simp only [scoreGe, Bool.not_eq_true', decide_eq_false_iff_not, not_lt]
        exact fun h1 h2 => le_trans h2 h1)
    (topoDict (flat tr))
  refine h.imp ?_
  intro a b hab
  simpa [scoreGe] using hab

/-! ## MAP, frequency mode -/

private theorem maxcount_of_row (tr : Trace κ σ) (w : Row κ σ) (hw : w ∈ topoTable tr)
    (hmax : ∀ v ∈ topoTable tr, v.count ≤ w.count) (k : κ) : occurrences tr k ≤ occurrences tr w.key := by
  rw [← topo_count_correct tr w hw]
  by_cases hk : k ∈ (entries tr).map Prod.fst
  · obtain ⟨v, hv, rfl⟩ := List.mem_map.mp (((topo_rows_distinct tr).2 k).mpr hk)
    rw [← topo_count_correct tr v hv]; exact hmax v hv
  · have : occurrences tr k = 0 := by
      apply List.countP_eq_zero.mpr
      intro e he; simp only [decide_eq_true_eq]; rintro rfl
      exact hk (List.mem_map.mpr ⟨e, he, rfl⟩)
    omega

/-- Whatever row of maximal count an (unstable) sort puts first, its pointer leads to an entry whose tree
has maximal count in the trace. -/
theorem freqCandidates_maxcount (tr : Trace κ σ) (hwf : WF tr) (w : Row κ σ) (hw : w ∈ freqCandidates tr) :
    lookup tr w.chain w.iter = some (w.key, w.score) ∧ ∀ k, occurrences tr k ≤ occurrences tr w.key := by
  simp only [freqCandidates, List.mem_filter, List.all_eq_true, decide_eq_true_eq] at hw
  exact ⟨topo_pointer_attains tr hwf w hw.1, maxcount_of_row tr w hw.1 hw.2⟩

/-- In frequency mode the MAP command returns an entry of the trace whose tree has maximal count. -/
theorem freqPick_maxcount (tr : Trace κ σ) (hwf : WF tr) (hne : entries tr ≠ []) :
    ∃ e, freqPick tr = some e ∧ e ∈ entries tr ∧ ∀ k, occurrences tr k ≤ occurrences tr e.1 := by
  have hperm := sortBy_perm (countGe : Row κ σ → Row κ σ → Bool) (topoTable tr)
  have hsorted := sortBy_pairwise (le := (countGe : Row κ σ → Row κ σ → Bool))
    (by intro a b; simp only [countGe, decide_eq_true_eq]; exact Nat.le_total _ _)
    (by intro a b c; simp only [countGe, decide_eq_true_eq]; exact fun h1 h2 => Nat.le_trans h2 h1)
    (topoTable tr)
  cases hs : sortBy countGe (topoTable tr) with
  | nil =>
    exfalso
    obtain ⟨e, he⟩ := List.exists_mem_of_ne_nil _ hne
    have hk := ((topo_rows_distinct tr).2 e.1).mpr (List.mem_map.mpr ⟨e, he, rfl⟩)
    obtain ⟨w, hw, _⟩ := List.mem_map.mp hk
    have := hperm.mem_iff.mpr hw
    rw [hs] at this; cases this
  | cons w rest =>
    rw [hs] at hperm hsorted
    have hw : w ∈ topoTable tr := hperm.mem_iff.mp (by simp)
    have hmax : ∀ v ∈ topoTable tr, v.count ≤ w.count := by
      intro v hv
      rcases List.mem_cons.mp (hperm.mem_iff.mpr hv) with rfl | hv
      · exact Nat.le_refl _
      · simpa [countGe] using (List.pairwise_cons.mp hsorted).1 v hv
    have hl := topo_pointer_attains tr hwf w hw
    refine ⟨(w.key, w.score), by simp [freqPick, freqRow, hs, hl], lookup_mem hl, ?_⟩
    exact maxcount_of_row tr w hw hmax

/-! ## the archive -/

/-- The archive holds exactly the first `k` rows of the table with their ranks (all rows when no limit is
given), and on the topology table these are top-ranked: no row left out has a larger score than an
archived one. -/
theorem archive_is_top_k {α : Type} (tbl : List α) (k : Nat) :
    archive (some k) tbl = ranked 0 (tbl.take k) ∧ archive none tbl = ranked 0 tbl := by
  constructor
  · have := ranked_filter_lt 0 k tbl
    simpa [archive] using this
  · simp [archive]

theorem archive_top_ranked (tr : Trace κ σ) (k : Nat) :
    ∀ p ∈ archive (some k) (topoTable tr), ∀ w ∈ (topoTable tr).drop k, w.score ≤ p.2.score := by
  intro p hp w hw
  rw [(archive_is_top_k (topoTable tr) k).1] at hp
  have hp2 : p.2 ∈ (topoTable tr).take k := by
    have := List.mem_map_of_mem (f := Prod.snd) hp
    rwa [ranked_map_snd] at this
  have hs := topo_sorted tr
  rw [← List.take_append_drop k (topoTable tr)] at hs
  exact (List.pairwise_append.mp hs).2.2 _ hp2 _ hw

/-- the option range of `--top-trees`: at least 1, `sys.maxsize` means no limit -/
theorem clampTop_pos (mx : Nat) (n : Int) (v : Nat) (h : clampTop mx n = some v) : 1 ≤ v ∧ v ≠ mx := by
  unfold clampTop at h
  by_cases hn : n < 1
  · simp only [hn, if_true] at h
    split at h
    · cases h
    · next hne => cases h; exact ⟨Nat.le_refl _, hne⟩
  · simp only [hn, if_false] at h
    split at h
    · cases h
    · next hne => cases h; exact ⟨by omega, hne⟩

/-! ## non-vacuity: a concrete trace with two chains in "completion order" 1, 0, a repeated tree, a tie -/

def ex : Trace Nat Int := [(1, [(7, -3), (8, -2), (7, -5)]), (0, [(8, -4), (9, -2), (7, -1)])]

example : WF ex ∧ entries ex ≠ [] := by unfold WF; decide
example : mapPick ex = some (7, -1) ∧ mapCandidates ex = [(7, -1)] := by decide
example : (mapPick [ex[1], ex[0]]).map Prod.snd = some (-1) ∧ [ex[0], ex[1]].Perm [ex[1], ex[0]] :=
  ⟨by decide, List.Perm.swap _ _ _⟩
example : (topoTable ex).map (fun w => (w.key, w.count, w.score, w.chain, w.iter)) =
    [(7, 3, -1, 0, 2), (8, 2, -2, 1, 1), (9, 1, -2, 0, 1)] := by decide
example : freqPick ex = some (7, -1) ∧ (freqCandidates ex).map (·.key) = [7] := by decide
example : occurrences ex 7 = 3 ∧ occurrences ex 8 = 2 ∧ occurrences ex 5 = 0 := by decide
example : (archive (some 2) (topoTable ex)).map (fun p => (p.1, p.2.key)) = [(0, 7), (1, 8)] ∧
    ((topoTable ex).drop 2).map (·.key) = [9] := by decide
example : clampTop 100 (-3) = some 1 ∧ clampTop 100 5 = some 5 ∧ clampTop 100 100 = none := by decide

/-! ## the driver's instance

The driver runs the model with `TreeKey` keys and `Rat` scores using core Lean's `<` on `Rat`; the theorems
above are stated for any `LinearOrder`.  These examples check that the instantiation at `Rat` is literally
the function the driver executes (the two `Decidable` instances agree definitionally). -/

/-- exactly what `Drv/C11.lean` computes (elaborated with core instances only, as in the driver) -/
def drvMapPick (tr : Trace TreeKey Rat) : Option (TreeKey × Rat) :=
  @mapPick TreeKey Rat Rat.instLT Rat.instDecidableLt tr
def drvTable (tr : Trace TreeKey Rat) : List (Row TreeKey Rat) :=
  @topoTable TreeKey Rat Rat.instLT Rat.instDecidableLt inferInstance tr

example (tr : Trace TreeKey Rat) (hwf : WF tr) (hne : entries tr ≠ []) :
    ∃ e, drvMapPick tr = some e ∧ e ∈ entries tr ∧ ∀ e' ∈ entries tr, e'.2 ≤ e.2 := mapPick_max tr hwf hne
example (tr : Trace TreeKey Rat) : (drvTable tr).Pairwise (fun a b => b.score ≤ a.score) := topo_sorted tr
example (tr : Trace TreeKey Rat) (w : Row TreeKey Rat) (hw : w ∈ drvTable tr) :
    w.count = occurrences tr w.key := topo_count_correct tr w hw

end PhyModel.Props.C11
