import PhyModel.Proofs.ASMC5
import PhyModel.Proofs.Gibbs
import PhyModel.Model.SMC
import PhyModel.Proofs.PG4
import PhyModel.Proofs.PG9
import PhyModel.Proofs.PG20
import PhyModel.Proofs.PGExample
/-! # C01 — one particle-Gibbs update of the whole tree leaves the posterior invariant

Two abstract theorems carry the argument (DESIGN.md section 6, C01):

* `csmc_invariant` — conditional SMC with the retained path in slot 0, `m + 1` particles (any `m`),
  `T` steps (any `T`), adaptive resampling by any rule that is symmetric in the slots, weights
  carried between resampling times, final draw proportional to the weights: it leaves the level-`T`
  target invariant, exactly.  Stated for an arbitrary finite state space, proposal `q`, targets `g`,
  under the validity conditions `ASMC.ValidTo sp T` (normalised proposals, unique parents, support
  conditions, each required of the steps `t < T` only) which are what C08 establishes for PhyClone's
  three proposals.
* `aux_mixture_invariant` — drawing the data order σ from `u x ·` and then applying a kernel that
  leaves `π·u(·,σ)` invariant leaves `π` invariant; with `u x σ = 1/count x` on the compatible orders
  (C09) this is how `ParticleGibbsTreeSampler.sample_tree` composes the permutation draw with the
  conditional SMC sweep.

and the PhyClone instance is built on them:

* `pg_spec_valid`, `pg_csmc_invariant` — for a fixed order σ of distinct data points, the partial trees
  reachable from the empty tree by placing `σ[0], σ[1], …` (`PGSpec.level`, `PGSpec.states`), the
  proposal probabilities of `Proposal.table`, the targets `pMarg·pdf` (`pOne·pdf` at the last level),
  `parent` = removal of the last-placed data point and the relative-ESS rule form an `ASMC.Spec` that
  satisfies `ASMC.ValidTo … σ.length`; so the conditional SMC sweep along σ leaves `pOne·pdf` invariant.

* `reachable_iff_order`, `pg_invariant_abstract` — a well-formed complete tree is reached along σ
  exactly when σ is one of its compatible orders; hence (C09: the order is uniform on the compatible
  orders, `pdf = 1/count`) the kernel "draw σ given the tree, sweep along σ" leaves `pOne` invariant
  on the complete trees of the data set.

* `csmc_invariant_final_resample` — the same with a resampling step in front of the final draw, which is
  what `AbstractSMCSampler.sample` does when there is a single data point.
* `pg_csmc_exec`, `pg_step_exec`, `pg_invariant` — the executable model (`SMC.csmc`, `SMC.pgStep`:
  list-based finite distributions, slots as a list, `multinomial(N-1)` ancestors laid out in index
  order, weights starting at `1/N`, `lookupQ` for the proposal probability, the retained path rebuilt by
  `SMC.restrict`) has, for every test function, the expectation given by the abstract kernel; so
  `SMC.pgStep` — the model the correspondence check compares, transition row by transition row, with
  the exact kernel of the real `sample_tree` — leaves `pOne` invariant. -/

namespace PhyModel.Props.C01
open Finset BigOperators

/-- **Conditional SMC leaves the unnormalised target invariant**, for every number of particles,
every number of steps `T`, every symmetric adaptive resampling rule and every `u > 0` (the uniform
weight given after resampling).  The validity conditions are asked of the `T` steps the sweep
performs (`ASMC.ValidTo sp T`).  Asking them of every `t` (the earlier `ASMC.Valid`) is too much: at
the last level it would demand yet another normalised proposal into a further level, and so on for
ever, which on a finite state type forces every level to carry a single supported state — no
branching system, PhyClone's least of all, can satisfy it. -/
theorem csmc_invariant {X : Type} [Fintype X] [DecidableEq X] {m : ℕ}
    (sp : ASMC.Spec (m := m) X) (u : ℚ) (T : ℕ) (hv : ASMC.ValidTo sp T) (hu : 0 < u) (y : X) :
    ∑ x, sp.g T x * ASMC.kernel sp u T x y = sp.g T y :=
  ASMC.csmc_invariant_to hv hu y

/-- non-vacuity: a root with two children (target masses 1 and 2, each proposed with probability
1/2), one step, two particles — the hypotheses hold and the last level really has two supported
states -/
example : ASMC.ValidTo PG.exSpec 1 ∧ 0 < PG.exSpec.g 1 1 ∧ 0 < PG.exSpec.g 1 2 :=
  ⟨PG.exSpec_valid, PG.exSpec_branches⟩

/-- **Conditional SMC with a resampling step in front of the final draw** (`ASMC.kernelR`: after the
`T` steps, "resample if the rule of step `T` fires" — slot 0 kept, the other slots drawn from the
normalised weights, all weights reset to `u` — and only then the draw proportional to the weights) leaves
the level-`T` target invariant as well, for every `T`.  This is the schedule of
`AbstractSMCSampler.sample` when there is a single data point: the `_resample_swarm` that follows
`_init_swarm` is then the last thing before the final draw. -/
theorem csmc_invariant_final_resample {X : Type} [Fintype X] [DecidableEq X] {m : ℕ}
    (sp : ASMC.Spec (m := m) X) (u : ℚ) (T : ℕ) (hv : ASMC.ValidTo sp T) (hu : 0 < u) (y : X) :
    ∑ x, sp.g T x * ASMC.kernelR sp u T x y = sp.g T y :=
  ASMC.csmc_invariant_final_resample hv hu y

/-- non-vacuity: the branching three-state specification again -/
example : ASMC.ValidTo PG.exSpec 1 ∧ 0 < PG.exSpec.g 1 1 ∧ 0 < PG.exSpec.g 1 2 :=
  ⟨PG.exSpec_valid, PG.exSpec_branches⟩

/-- **Auxiliary data order.** -/
theorem aux_mixture_invariant {X Sg : Type} [Fintype X] [Fintype Sg] [DecidableEq X]
    (π : X → ℚ) (u : X → Sg → ℚ) (P : Sg → X → X → ℚ)
    (hu : ∀ x, π x ≠ 0 → ∑ s, u x s = 1)
    (hP : ∀ s y, ∑ x, (π x * u x s) * P s x y = π y * u y s) (y : X) :
    ∑ x, π x * (∑ s, u x s * P s x y) = π y :=
  Moves.aux_mixture_invariant π u P hu hP y

/-- non-vacuity: two states, two orders, everything uniform — the hypotheses hold (the PhyClone
instance `pg_invariant_abstract` below is the instance that matters) -/
example : (∀ _x : Bool, (1 : ℚ) ≠ 0 → ∑ _s : Bool, (1 / 2 : ℚ) = 1) ∧
    (∀ _s y : Bool, ∑ _x : Bool, ((1 : ℚ) * (1 / 2)) * (1 / 2) = (fun _ : Bool => (1 : ℚ)) y * (1 / 2)) := by
  constructor
  · intro _ _; simp
  · intro _ _; simp

/-- **Stage 1: the PhyClone instance satisfies the hypotheses of `csmc_invariant`.**  For a data
set with positive likelihoods, `α > 0`, outlier proposal probability in `[0,1)`, any of the three
proposals, with or without a permutation distribution, a fixed order `σ` of distinct data points
(`PG.Hyp`), any list `L` of trees containing the partial trees met along `σ`, any threshold `θ`
and any number `m + 1` of particles: `PG.spec` — states `L`, `q t x x'` = probability that
`Proposal.table dt c (t = 0) x σ[t]` gives `x'` (`PG.qT`), `g t` = point mass at the empty tree for
`t = 0`, `κ·pMarg·pdf` on level `t` for `0 < t < |σ|`, `κ·pOne·pdf` on the last level (`PG.gT`; any
constant `κ > 0` — with `κ = 1/N` the abstract weights are literally the code's, whose swarm starts
with weights `1/N`), `parent`
= removal of the last-placed data point (`PG.parentT`, C08's `recover`), `rs` = the relative-ESS rule
(`PG.essRule`) — satisfies `ASMC.ValidTo … σ.length`. -/
theorem pg_spec_valid (dt : Data) (c : Proposal.Cfg) (σ : List ℕ) (κ : ℚ) (L : List T) (h : PG.Hyp dt c σ)
    (hκ : 0 < κ) (hL : ∀ x ∈ PGSpec.states c σ, x ∈ L) (θ : ℚ) (m : ℕ) :
    ASMC.ValidTo (PG.spec dt c σ κ L hL θ m) σ.length :=
  PG.spec_valid h hκ hL θ m

/-- **Conditional SMC along a fixed order leaves `pOne·pdf` invariant** on the complete trees
reachable along that order (`PG.gT … σ.length` vanishes off the last level). -/
theorem pg_csmc_invariant (dt : Data) (c : Proposal.Cfg) (σ : List ℕ) (κ : ℚ) (L : List T)
    (h : PG.Hyp dt c σ) (hκ : 0 < κ) (hL : ∀ x ∈ PGSpec.states c σ, x ∈ L) (θ : ℚ) (m : ℕ) (u : ℚ)
    (hu : 0 < u) (y : PG.St L) :
    ∑ x : PG.St L, PG.gT dt c σ κ σ.length x.1 * ASMC.kernel (PG.spec dt c σ κ L hL θ m) u σ.length x y
      = PG.gT dt c σ κ σ.length y.1 :=
  PG.pg_csmc_invariant h hκ hL θ m u hu y

/-- the abstract incremental weight `g (t+1) x' / (g t x · q t x x')` is the model's
`Proposal.incrWeight` (`Kernel.create_particle` + `_get_log_w`), times `κ` at the first step -/
theorem pg_incr_eq_incrWeight (dt : Data) (c : Proposal.Cfg) (σ : List ℕ) (κ : ℚ) (L : List T)
    (h : PG.Hyp dt c σ) (hκ : 0 < κ) (hL : ∀ x ∈ PGSpec.states c σ, x ∈ L) (θ : ℚ) (m : ℕ) (t : ℕ)
    (x x' : PG.St L) (hx : x.1 ∈ PGSpec.level c σ t) (i : ℕ) (hi : σ[t]? = some i)
    (hc : x'.1 ∈ PGSpec.children c x.1 i) :
    ASMC.incr (PG.spec dt c σ κ L hL θ m) t x x'
      = (if t = 0 then κ else 1) *
        Proposal.incrWeight dt c (t == 0) (t + 1 == σ.length) x.1 x'.1
          (PG.tprob (Proposal.table dt c (t == 0) x.1 i) x'.1) :=
  PG.incr_eq_incrWeight h hκ hL θ m hx hi hc

/-- non-vacuity (all three): two data points on a 2-point grid with outlier prior 1/2, every proposal
kind, outlier proposal probability 1/10, permutation distribution on, order `[1, 0]`: the
hypotheses hold, the first level has two trees and the last level six (one clone; two clones side
by side; data point 0 above data point 1; each of the two data points, or both, in the outlier set),
so the sum in `pg_csmc_invariant` is a genuine one -/
example : (∀ k, PG.Hyp Props.C19.exData (PG.exCfg k) [1, 0]) ∧
    (PGSpec.level (PG.exCfg .semi) [1, 0] 1).length = 2 ∧
    (PGSpec.level (PG.exCfg .semi) [1, 0] 2).length = 6 := by
  refine ⟨PG.exHyp, ?_, ?_⟩ <;> decide +kernel

/-- **reachable iff compatible.**  For an order `σ` of distinct data points and a well-formed tree `x`
(`PG.WFT`: canonical form, no empty clone, distinct data indices below the sentinel of the canonical
order, no outliers when outlier modelling is off): `x` is among the trees obtained by placing
`σ[0], σ[1], …` one after the other (`PGSpec.level c σ σ.length`) **iff** `σ` is one of the orders
`RootPermutationDistribution` can draw for `x` (`Orders.allOrders`, which C09 shows to be exactly
the compatible orders). -/
theorem reachable_iff_order (c : Proposal.Cfg) (σ : List ℕ) (hnd : σ.Nodup) (x : T) (w : PG.WFT c x) :
    x ∈ PGSpec.level c σ σ.length ↔ σ ∈ Orders.allOrders x.f x.out :=
  PG.reachable_iff_order c σ hnd x w

/-- non-vacuity: the chain "0 above 1" is well formed; it is reached along `[1, 0]` and not along
`[0, 1]` -/
example : PG.WFT (PG.exCfg .semi) PG.exChain ∧ [1, 0].Nodup ∧
    PG.exChain ∈ PGSpec.level (PG.exCfg .semi) [1, 0] 2 ∧
    PG.exChain ∉ PGSpec.level (PG.exCfg .semi) [0, 1] 2 := by
  refine ⟨PG.exChain_wft _, ?_, ?_, ?_⟩ <;> decide +kernel

/-- **Stage 2: the order draw composed with the sweep leaves `pOne` invariant.**  For a data set
with data indices `D` (distinct, positive likelihoods, `α > 0`, outlier proposal probability in
`[0,1)`, any of the three proposals, kernel built with a permutation distribution — `PG.HypD`), any
threshold, any number `m + 1` of particles and any `u > 0`: with
`PG.piD x = pOne x` on the complete trees of the data set (`PGSpec.finals`, 0 elsewhere),
`PG.uOrd x σ = 1 / countCode x` on the compatible orders of `x` (0 elsewhere) and
`PG.pgKernel x y = ∑ σ, uOrd x σ · ASMC.kernelX (PG.spec σ κ) u |σ| x y` (any `κ > 0`; `kernelX` is the
kernel with the code's schedule: `ASMC.kernelR` when there is a single data point, `ASMC.kernel`
otherwise), summing over all
trees of the common finite state space `PGSpec.allStates c D`:  `∑ x, piD x · pgKernel x y = piD y`. -/
theorem pg_invariant_abstract (dt : Data) (c : Proposal.Cfg) (D : List ℕ) (h : PG.HypD dt c D)
    (κ : ℚ) (hκ : 0 < κ) (θ : ℚ) (m : ℕ) (u : ℚ) (hu : 0 < u) (y : PG.St (PGSpec.allStates c D)) :
    ∑ x : PG.St (PGSpec.allStates c D), PG.piD dt c D x.1 * PG.pgKernel dt c D κ θ m u x y
      = PG.piD dt c D y.1 :=
  PG.pg_invariant_abstract h κ hκ θ m u hu y

/-- non-vacuity: the two-point data set of the C19 example satisfies the hypotheses for every proposal
kind; `finals` lists six complete trees for each of the two orders -/
example : (∀ k, PG.HypD Props.C19.exData (PG.exCfg k) [0, 1]) ∧
    (PGSpec.finals (PG.exCfg .semi) [0, 1]).length = 12 := by
  refine ⟨PG.exHypD, ?_⟩; decide +kernel

/-- **Stage 3a: the executable conditional SMC sweep is the abstract kernel.**  For an order `σ ≠ []`
satisfying `PG.Hyp`, a start tree `x` in the last level along `σ`, `N = m + 1` particles, any threshold:
`SMC.csmc` (first step from `N` empty particles of weight `1/N`; with a single data point the swarm is
then resampled if the rule fires; otherwise, for every further data point
"resample if the relative ESS is at most `θ`" — slot 0 kept, the `N - 1` ancestors of
`multinomial(N-1, W̄)` laid out in index order, weights reset to `1/N` — "and propagate" — slot 0 moved to
`SMC.restrict x (σ.take (t+1))`, every other slot by `Proposal.sampler`, weights multiplied by
`Proposal.incrWeight` with the proposal probability looked up in `Proposal.table`) followed by the
final draw proportional to the weights has, for every test function `hh`, the expectation
`∑ y, ASMC.kernelX (PG.spec σ (1/N)) (1/N) |σ| x y · hh y`. -/
theorem pg_csmc_exec (dt : Data) (c : Proposal.Cfg) (σ : List ℕ) (L : List T) (h : PG.Hyp dt c σ)
    (hL : ∀ x ∈ PGSpec.states c σ, x ∈ L) (θ : ℚ) (m : ℕ) (hne : σ ≠ []) (x : PG.St L)
    (hx : x.1 ∈ PGSpec.level c σ σ.length) (hh : T → ℚ) :
    Dist.E (Dist.bind (SMC.csmc (PG.runOf dt c m θ) x.1 σ) SMC.select) hh
      = ∑ y : PG.St L, ASMC.kernelX (PG.spec dt c σ (PG.uN m) L hL θ m) (PG.uN m) σ.length x y * hh y.1 := by
  obtain ⟨path, hp, hlast⟩ := PG.exists_pathOK (L := L) h.nodup h.big hL hx
  have := PG.csmc_E h (PG.inj_of_hyp h) hL θ m hp hne hh
  rwa [show path σ.length = x from Subtype.ext hlast] at this

/-- **Stage 3b: the executable particle-Gibbs update is the abstract mixture kernel**: for a complete
tree `x` of the data set and every test function `hh`,
`E[hh(SMC.pgStep x)] = ∑ y, PG.pgKernel x y · hh y` (with `κ = u = 1/N`). -/
theorem pg_step_exec (dt : Data) (c : Proposal.Cfg) (D : List ℕ) (h : PG.HypD dt c D) (θ : ℚ) (m : ℕ)
    (x : PG.St (PGSpec.allStates c D)) (hx : x.1 ∈ PGSpec.finals c D) (hh : T → ℚ) :
    Dist.E (SMC.pgStep (PG.runOf dt c m θ) x.1) hh
      = ∑ y : PG.St (PGSpec.allStates c D), PG.pgKernel dt c D (PG.uN m) θ m (PG.uN m) x y * hh y.1 :=
  PG.pgStep_E h θ m x hx hh

/-- **C01: `SMC.pgStep` leaves the `log_p_one` posterior invariant.**  For every data set with data
indices `D` (distinct, non-empty, positive likelihoods, outlier priors in `[0,1)`), `α > 0`, each of
the three proposals, outlier proposal probability in `[0,1)`, kernel built with a permutation
distribution (`PG.HypD`), every number `N = m + 1 ≥ 1` of particles and every resampling threshold:
`∑ x, pOne x · P(pgStep x = y) = pOne y`, the sum over the complete trees of the data set
(`PG.piD` is `pOne` on `PGSpec.finals c D` and 0 on the partial trees of the common state space) and
`P(pgStep x = y)` the expectation of the indicator of `y` under the finite distribution `SMC.pgStep`. -/
theorem pg_invariant (dt : Data) (c : Proposal.Cfg) (D : List ℕ) (h : PG.HypD dt c D) (θ : ℚ) (m : ℕ)
    (y : PG.St (PGSpec.allStates c D)) :
    ∑ x : PG.St (PGSpec.allStates c D), PG.piD dt c D x.1 *
        Dist.E (SMC.pgStep (PG.runOf dt c m θ) x.1) (fun z => if z = y.1 then 1 else 0)
      = PG.piD dt c D y.1 :=
  PG.pg_invariant h θ m y

/-- non-vacuity (all three): the hypotheses hold on the two-point data set for every proposal kind and
for the order `[1, 0]`; the chain "0 above 1" is a complete tree in the last level along `[1, 0]`; and
the kernel is not degenerate there (by `#eval`, with the bootstrap proposal, two particles and threshold
1/2, `pgStep` returns to that chain with probability 530133548587 / 705254697250 ≈ 0.75 and has six
outcomes) -/
example : (∀ k, PG.HypD Props.C19.exData (PG.exCfg k) [0, 1]) ∧ (∀ k, PG.Hyp Props.C19.exData (PG.exCfg k) [1, 0]) ∧
    PG.exChain ∈ PGSpec.level (PG.exCfg .bootstrap) [1, 0] 2 ∧
    PG.exChain ∈ PGSpec.finals (PG.exCfg .bootstrap) [0, 1] := by
  refine ⟨PG.exHypD, PG.exHyp, ?_, ?_⟩ <;> decide +kernel

end PhyModel.Props.C01
