import PhyModel.Proofs.ASMC5
import PhyModel.Proofs.Gibbs
import PhyModel.Model.SMC
/-! # C01 — one particle-Gibbs update of the whole tree leaves the posterior invariant

Two theorems carry the argument (DESIGN.md section 6, C01):

* `csmc_invariant` — conditional SMC with the retained path in slot 0, `m + 1` particles (any `m`),
  `T` steps (any `T`), adaptive resampling by any rule that is symmetric in the slots, weights
  carried between resampling times, final draw proportional to the weights: it leaves the level-`T`
  target invariant, exactly.  Stated for an arbitrary finite state space, proposal `q`, targets `g`,
  under the validity conditions `ASMC.Valid` (normalised proposals, unique parents, support
  conditions) which are what C08 establishes for PhyClone's three proposals.
* `aux_mixture_invariant` — drawing the data order σ from `u x ·` and then applying a kernel that
  leaves `π·u(·,σ)` invariant leaves `π` invariant; with `u x σ = 1/count x` on the compatible orders
  (C09) this is how `ParticleGibbsTreeSampler.sample_tree` composes the permutation draw with the
  conditional SMC sweep.

The executable model `SMC.pgStep` (which the correspondence check compares, transition row by
transition row, with the exact kernel of the real `sample_tree`) is an instance of this abstract
scheme; the formal instantiation is the open obligation below. -/

namespace PhyModel.Props.C01
open Finset BigOperators

/-- **Conditional SMC leaves the unnormalised target invariant**, for every number of particles,
every number of steps, every symmetric adaptive resampling rule and every `u > 0` (the uniform
weight given after resampling). -/
theorem csmc_invariant {X : Type} [Fintype X] [DecidableEq X] {m : ℕ}
    (sp : ASMC.Spec (m := m) X) (u : ℚ) (hv : ASMC.Valid sp) (hu : 0 < u) (T : ℕ) (y : X) :
    ∑ x, sp.g T x * ASMC.kernel sp u T x y = sp.g T y :=
  ASMC.csmc_invariant hv hu T y

/-- **Auxiliary data order.** -/
theorem aux_mixture_invariant {X Sg : Type} [Fintype X] [Fintype Sg] [DecidableEq X]
    (π : X → ℚ) (u : X → Sg → ℚ) (P : Sg → X → X → ℚ)
    (hu : ∀ x, π x ≠ 0 → ∑ s, u x s = 1)
    (hP : ∀ s y, ∑ x, (π x * u x s) * P s x y = π y * u y s) (y : X) :
    ∑ x, π x * (∑ s, u x s * P s x y) = π y :=
  Moves.aux_mixture_invariant π u P hu hP y

-- OBLIGATION-OPEN pg_invariant: instantiate `ASMC.Spec` with PhyClone's partial trees along a fixed order (state = `T`, `q` = `Proposal.table`, `g t` = pMarg·pdf for t < T and pOne·pdf at T, `parent` = removal of the last-placed data point), discharge `ASMC.Valid` from the C08 theorems, identify `SMC.csmc` with `ASMC.kernel`, and conclude `∑ x, pOne x * P(SMC.pgStep x = y) = pOne y`; until then the tie between the abstract theorem and `SMC.pgStep` is the exact row-by-row correspondence with the real code plus the exact `πK = π` oracle on every enumerated configuration.

end PhyModel.Props.C01
