import PhyModel.Model.SMC
namespace PhyModel.Props.C01
end PhyModel.Props.C01
