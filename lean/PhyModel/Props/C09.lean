import PhyModel.Proofs.OrdersProofs6
/-! # C09 — data orders are drawn uniformly from those compatible with the tree

`Orders.allOrders` is the constructive enumeration, `Orders.sampleOrder` mirrors
`RootPermutationDistribution.sample` as a finite distribution, `Orders.countCode` mirrors
`log_count` in the probability domain (including the outlier permutations), and
`Orders.CompatAll` is the specification written independently of all three: a permutation of all
data points in which every data point of a descendant clone precedes every data point of its
ancestors.  All statements hold for every forest (any shape, clone sizes, number of top-level
clones) and every outlier list, provided data indices are distinct. -/

namespace PhyModel.Props.C09
open PhyModel PhyModel.Orders

/-- the orders that can be drawn are exactly the compatible ones: soundness and completeness -/
theorem c09_orders_exact (f : Orders.Forest) (out : List ℕ) (hnd : (f.all ++ out).Nodup) (σ : List ℕ) :
    σ ∈ allOrders f out ↔ CompatAll f out σ :=
  (c09 f out hnd).1 σ

/-- no order is enumerated twice, so "number of orders" is the length of the enumeration -/
theorem c09_nodup (f : Orders.Forest) (out : List ℕ) (hnd : (f.all ++ out).Nodup) :
    (allOrders f out).Nodup :=
  (c09 f out hnd).2.1

/-- the code's count (nested multinomials, own-data factorials, outlier interleaving and outlier
permutations) is the number of compatible orders -/
theorem c09_count (f : Orders.Forest) (out : List ℕ) :
    countCode f out.length = ((allOrders f out).length : ℚ) :=
  countCode_eq_length f out

/-- the sampler is uniform on the compatible orders: the expectation of every test function is its
average over the enumeration (take `h` = indicator of one order for "each order has probability
1 / count") -/
theorem c09_uniform (f : Orders.Forest) (out : List ℕ) (h : List ℕ → ℚ) :
    Dist.E (sampleOrder f out) h
      = (1 / ((allOrders f out).length : ℚ)) * lsum (allOrders f out) h :=
  sampleOrder_uniform f out h

/-- the reported density of a draw is one over the number of compatible orders -/
theorem c09_pdf (f : Orders.Forest) (out : List ℕ) :
    1 / countCode f out.length = 1 / ((allOrders f out).length : ℚ) := by
  rw [c09_count]

/-- non-vacuity: a chain 1 → 0 with a sibling clone {2} and one outlier has distinct data (and, by
`#eval`, twelve compatible orders) -/
example : ((Orders.Forest.cons [0] (.cons [1] .nil .nil) (.cons [2] .nil .nil)).all ++ [3]).Nodup := by
  decide

end PhyModel.Props.C09
