import PhyModel.Proofs.TableRows
/-! # C12 — result tables list every mutation once per sample, consistent with the tree

Property theorems only (helper lemmas: `Proofs/TableBasic.lean`, `Proofs/TableRows.lean`).
`Table.table inp` is the model of `get_clone_table` (labels table with outlier fill-in, cluster
expansion, `explode` over the samples, CCF join); `Table.newick` of `Tree.to_newick_string`.
`WF inp` is what a recorded trace guarantees: the tree is well formed (C07), data indices refer to
the data list, mutation ids are distinct, and with a cluster file distinct data points carry distinct
cluster ids.  The per-clone CCF / prevalence dictionary is an input (`inp.ccf`, property C10).
Row order, the TSV/Newick byte format and pandas are tied by the correspondence check only. -/

namespace PhyModel.Props.C12
open PhyModel.Table List

/-- **every input mutation once per sample (1).**  The (mutation, sample) column pair of the table
is a permutation of input mutations × samples — unclustered (mutations = data points) and clustered
(mutations = rows of the cluster table), for every tree shape and every outlier set. -/
theorem rows_perm_product (inp : Input) (rows : List Row) (h : table inp = some rows) (wf : WF inp) :
    (rows.map key).Perm (inputMuts inp ×ˢ inp.samples) := by
  unfold table at h
  split at h
  · cases h
    rw [rows_keys]
    exact Perm.product_right _ (recs_mids inp wf)
  · cases h

/-- **every input mutation once per sample (2).**  With distinct sample names, each input mutation
has exactly one row per sample, and there are no other rows. -/
theorem each_mutation_once_per_sample (inp : Input) (rows : List Row) (h : table inp = some rows)
    (wf : WF inp) (hs : inp.samples.Nodup) :
    (∀ m ∈ inputMuts inp, ∀ s ∈ inp.samples, (rows.map key).count (m, s) = 1) ∧
    (∀ r ∈ rows, r.mid ∈ inputMuts inp ∧ r.sample ∈ inp.samples) := by
  have hp := rows_perm_product inp rows h wf
  have hnd : (inputMuts inp ×ˢ inp.samples).Nodup := wf.mutsNodup.product hs
  constructor
  · intro m hm s hs'
    rw [hp.count_eq]
    exact count_eq_one_of_mem hnd (mem_product.mpr ⟨hm, hs'⟩)
  · intro r hr
    have : key r ∈ rows.map key := mem_map_of_mem hr
    rw [hp.mem_iff] at this
    exact mem_product.mp this

/-- **clone ids.**  The clone id of every row is a node of the tree (the node set the Newick string
is printed from) or -1. -/
theorem clone_in_tree_or_minus1 (inp : Input) (rows : List Row) (h : table inp = some rows) :
    ∀ r ∈ rows, r.clone ∈ inp.forest.ids ∨ r.clone = -1 := by
  unfold table at h
  split at h
  · cases h
    intro r hr
    obtain ⟨rc, hrc, s, _, rfl⟩ := (mem_rowsOf inp r).mp hr
    rw [mkRow_clone]
    exact recs_clone inp rc hrc
  · cases h

/-- **consistent with the tree (unclustered).**  A mutation is listed in the clone that holds its
data point, and as -1 exactly when it is an outlier or not in the tree at all. -/
theorem clone_is_holder (inp : Input) (rows : List Row) (h : table inp = some rows) (wf : WF inp)
    (hc : inp.clusters = none) (r : Row) (hr : r ∈ rows) :
    (∀ i c, (i, c) ∈ labelsOf inp.forest inp.outs → nameOf inp.names i = r.mid → r.clone = c) ∧
    ((∀ p ∈ labelsOf inp.forest inp.outs, nameOf inp.names p.1 ≠ r.mid) → r.clone = -1) := by
  unfold table at h
  split at h
  case isFalse => cases h
  cases h
  obtain ⟨rc, hrc, s, _, rfl⟩ := (mem_rowsOf inp r).mp hr
  rw [mkRow_clone, mkRow_mid]
  unfold recsOf at hrc
  rw [hc] at hrc
  have hn : inp.names.Nodup := by have := wf.mutsNodup; unfold inputMuts at this; rw [hc] at this; exact this
  rcases mem_plainRecs _ _ rc hrc with ⟨p, hp, rfl⟩ | ⟨h1, _, _, h4⟩
  · constructor
    · intro i c hic hname
      have hi := wf.inRange i (labelsOf_fst_mem _ _ _ hic)
      have hp1 := wf.inRange p.1 (labelsOf_fst_mem _ _ _ hp)
      have : i = p.1 := nameOf_inj _ hn i p.1 hi hp1 hname
      have := labelsOf_inj _ _ wf.dpsNodup (i, c) hic p hp this
      rw [← this]
    · intro hall
      exact absurd rfl (hall p hp)
  · constructor
    · intro i c hic hname
      exact absurd hname (h4 (i, c) hic)
    · intro _; exact h1

/-- **clusters.**  All mutations of a cluster share one clone: two rows with the same cluster id have
the same clone id; and every row's cluster id is the one the cluster table gives its mutation. -/
theorem cluster_shares_clone (inp : Input) (rows : List Row) (h : table inp = some rows) (wf : WF inp)
    (cl : List (String × Int)) (hc : inp.clusters = some cl) :
    (∀ r ∈ rows, ∃ c, r.cluster = some c ∧ (r.mid, c) ∈ cl) ∧
    (∀ r₁ ∈ rows, ∀ r₂ ∈ rows, r₁.cluster = r₂.cluster → r₁.clone = r₂.clone) := by
  unfold table at h
  split at h
  case isFalse => cases h
  cases h
  have hrec : ∀ rc ∈ recsOf inp, rc ∈ clusRecs inp.names cl (labelsOf inp.forest inp.outs) := by
    intro rc hrc; unfold recsOf at hrc; rw [hc] at hrc; exact hrc
  have hcn := wf.cidsNodup (by simp [hc])
  constructor
  · intro r hr
    obtain ⟨rc, hrc, s, _, rfl⟩ := (mem_rowsOf inp r).mp hr
    rw [mkRow_cluster, mkRow_mid]
    rcases mem_clusRecs _ _ _ rc (hrec rc hrc) with ⟨p, _, _, h2, h3⟩ | ⟨_, c, h2, h3, _⟩
    · exact ⟨_, h2, h3⟩
    · exact ⟨c, h2, h3⟩
  · intro r₁ hr₁ r₂ hr₂ heq
    obtain ⟨a, ha, s₁, _, rfl⟩ := (mem_rowsOf inp r₁).mp hr₁
    obtain ⟨b, hb, s₂, _, rfl⟩ := (mem_rowsOf inp r₂).mp hr₂
    rw [mkRow_cluster, mkRow_cluster] at heq
    rw [mkRow_clone, mkRow_clone]
    rcases mem_clusRecs _ _ _ a (hrec a ha) with ⟨p, hp, a1, a2, a3⟩ | ⟨a1, c, a2, a3, a4⟩ <;>
    rcases mem_clusRecs _ _ _ b (hrec b hb) with ⟨q, hq, b1, b2, b3⟩ | ⟨b1, d, b2, b3, b4⟩
    · -- both from data points of the tree: same cluster id, hence the same data point
      rw [a2, b2] at heq
      have hcid : cidOf inp.names p.1 = cidOf inp.names q.1 := Option.some.inj heq
      have hpq : p.1 = q.1 :=
        inj_on_of_nodup_map hcn (labelsOf_fst_mem _ _ _ hp) (labelsOf_fst_mem _ _ _ hq) hcid
      have := labelsOf_inj _ _ wf.dpsNodup p hp q hq hpq
      rw [a1, b1, this]
    · -- a mutation of a cluster that is a data point of the tree is never filled in as missing
      rw [a2, b2] at heq
      have : cidOf inp.names p.1 = d := Option.some.inj heq
      exact absurd (this ▸ b3) (b4 p hp)
    · rw [a2, b2] at heq
      have : c = cidOf inp.names q.1 := Option.some.inj heq
      exact absurd (this ▸ a3) (a4 q hq)
    · rw [a1, b1]

/-- **CCF and clonal prevalence.**  A row carries the CCF / prevalence dictionary's values for its
clone at the position of its sample in the sample list (in range, never a default), or -1 / -1 when
the clone has no entry; with non-negative node ids as dictionary keys the -1 rows are exactly the
outlier rows' values, and values stay in [0,1] when the dictionary's are. -/
theorem ccf_prev_of_clone (inp : Input) (rows : List Row) (h : table inp = some rows) (r : Row) (hr : r ∈ rows) :
    r.sample ∈ inp.samples ∧
    inp.samples[sampleIdx inp.samples r.sample]? = some r.sample ∧
    (∀ v w, lookupCcf inp.ccf r.clone = some (v, w) →
      v[sampleIdx inp.samples r.sample]? = some r.ccf ∧ w[sampleIdx inp.samples r.sample]? = some r.prev) ∧
    (lookupCcf inp.ccf r.clone = none → r.ccf = -1 ∧ r.prev = -1) := by
  unfold table at h
  split at h
  case isFalse => cases h
  rename_i hv
  cases h
  obtain ⟨rc, hrc, s, hs, rfl⟩ := (mem_rowsOf inp r).mp hr
  simp only [valid, Bool.and_eq_true] at hv
  have hccf := hv.1.2
  unfold validCcf at hccf
  rw [all_eq_true] at hccf
  have hrc' := hccf rc hrc
  rw [mkRow_sample, mkRow_clone]
  refine ⟨hs, sampleIdx_spec _ _ hs, ?_, ?_⟩
  · intro v w hl
    rw [hl] at hrc'
    simp only [all_eq_true, Bool.and_eq_true, decide_eq_true_eq] at hrc'
    obtain ⟨h1, h2⟩ := hrc' s hs
    unfold mkRow
    rw [hl]
    simp only
    rw [getD_eq_getElem?_getD, getD_eq_getElem?_getD, getElem?_eq_getElem h1, getElem?_eq_getElem h2]
    simp
  · intro hl
    unfold mkRow
    rw [hl]
    exact ⟨rfl, rfl⟩

/-- **outliers.**  When the dictionary is keyed by (non-negative) node ids, every row listed with
clone -1 has CCF -1 and prevalence -1. -/
theorem outlier_rows_minus1 (inp : Input) (rows : List Row) (h : table inp = some rows)
    (hk : ∀ k ∈ inp.ccf.map Prod.fst, 0 ≤ k) (r : Row) (hr : r ∈ rows) (ho : r.clone = -1) :
    r.ccf = -1 ∧ r.prev = -1 := by
  apply (ccf_prev_of_clone inp rows h r hr).2.2.2
  apply lookupCcf_none_of_not_key
  intro hmem
  have := hk _ hmem
  rw [ho] at this
  omega

/-- **range.**  When the dictionary's values lie in [0,1] (C10), every row has CCF and prevalence in
[0,1], or both equal to -1. -/
theorem values_in_unit_interval (inp : Input) (rows : List Row) (h : table inp = some rows)
    (hu : ∀ c v w, lookupCcf inp.ccf c = some (v, w) →
      (∀ x ∈ v, 0 ≤ x ∧ x ≤ 1) ∧ (∀ x ∈ w, 0 ≤ x ∧ x ≤ 1))
    (r : Row) (hr : r ∈ rows) :
    (0 ≤ r.ccf ∧ r.ccf ≤ 1 ∧ 0 ≤ r.prev ∧ r.prev ≤ 1) ∨ (r.ccf = -1 ∧ r.prev = -1) := by
  obtain ⟨_, _, h3, h4⟩ := ccf_prev_of_clone inp rows h r hr
  cases hl : lookupCcf inp.ccf r.clone with
  | none => exact Or.inr (h4 hl)
  | some vw =>
    obtain ⟨v, w⟩ := vw
    obtain ⟨hv, hw⟩ := h3 v w hl
    obtain ⟨uv, uw⟩ := hu _ v w hl
    have a := uv _ (mem_of_getElem? hv)
    have b := uw _ (mem_of_getElem? hw)
    exact Or.inl ⟨a.1, a.2, b.1, b.2⟩

/-- **the commands complete.**  The table is defined (no error branch is taken) for every
well-formed tree that holds at least one data point — whatever its shape: no clone at all (all data
points outliers), a single clone, several top-level clones, clones without own data points — provided
(with a cluster file) every data point's name is an integer cluster id of the cluster table, the CCF
dictionary has one entry per sample, and there is at least one sample. -/
theorem table_total (inp : Input) (wf : WF inp)
    (hdata : inp.forest.dps ++ inp.outs ≠ [])
    (hs : inp.samples ≠ [])
    (hclus : ∀ cl, inp.clusters = some cl → ∀ i ∈ inp.forest.dps ++ inp.outs,
      ∃ c, parseInt (nameOf inp.names i) = some c ∧ ∃ m, (m, c) ∈ cl)
    (hccf : ∀ c v w, lookupCcf inp.ccf c = some (v, w) →
      inp.samples.length ≤ v.length ∧ inp.samples.length ≤ w.length) :
    ∃ rows, table inp = some rows := by
  have hvalid : valid inp = true := by
    simp only [valid, Bool.and_eq_true]
    refine ⟨⟨⟨?_, ?_⟩, ?_⟩, ?_⟩
    · -- data[idx]
      unfold validIdx
      rw [all_eq_true]
      intro p hp
      simpa using wf.inRange p.1 (labelsOf_fst_mem _ _ _ hp)
    · -- int(name), get_group
      unfold validClus
      cases hcl : inp.clusters with
      | none => rfl
      | some cl =>
        simp only
        rw [all_eq_true]
        intro p hp
        obtain ⟨c, h1, m, h2⟩ := hclus cl hcl p.1 (labelsOf_fst_mem _ _ _ hp)
        rw [h1]
        simp only [any_eq_true, beq_iff_eq]
        exact ⟨(m, c), h2, rfl⟩
    · -- ccfs[clone][sample index]
      unfold validCcf
      rw [all_eq_true]
      intro rc _
      cases hl : lookupCcf inp.ccf rc.clone with
      | none => rfl
      | some vw =>
        obtain ⟨v, w⟩ := vw
        simp only [all_eq_true, Bool.and_eq_true, decide_eq_true_eq]
        intro s hs'
        have := sampleIdx_lt inp.samples s hs'
        have := hccf _ v w hl
        omega
    · -- pd.concat needs a group
      unfold validNonempty
      simp only [Bool.and_eq_true, Bool.not_eq_eq_eq_not, Bool.not_true, isEmpty_eq_false_iff]
      refine ⟨?_, hs⟩
      have hlab : labelsOf inp.forest inp.outs ≠ [] := by
        intro h0
        have := labelsOf_map_fst inp.forest inp.outs
        rw [h0] at this
        exact hdata this.symm
      obtain ⟨p, hp⟩ := exists_mem_of_ne_nil _ hlab
      intro h0
      unfold recsOf at h0
      cases hcl : inp.clusters with
      | none =>
        rw [hcl] at h0
        unfold plainRecs at h0
        simp only [append_eq_nil_iff, map_eq_nil_iff] at h0
        exact hlab h0.1
      | some cl =>
        rw [hcl] at h0
        unfold clusRecs at h0
        simp only [append_eq_nil_iff, flatMap_eq_nil_iff, map_eq_nil_iff] at h0
        obtain ⟨c, h1, m, h2⟩ := hclus cl hcl p.1 (labelsOf_fst_mem _ _ _ hp)
        have hg := h0.1 p hp
        have hc : cidOf inp.names p.1 = c := by unfold cidOf; rw [h1]; rfl
        have : m ∈ group cl (cidOf inp.names p.1) := by rw [hc]; exact (mem_group cl c m).mpr h2
        rw [hg] at this
        cases this
  exact ⟨rowsOf inp, by unfold table; rw [if_pos hvalid]⟩

/-! ### non-vacuity: concrete inputs meeting the hypotheses -/

/-- clones 0 → {1, 2 → 3} where clone 2 has no own data point, data point 3 is an outlier -/
def exPlain : Input :=
  { forest := .cons 0 [0] (.cons 1 [1] .nil (.cons 2 [] (.cons 3 [2] .nil .nil) .nil)) .nil,
    outs := [3], names := ["a", "b", "c", "d"], samples := ["s1", "s2"], clusters := none,
    ccf := [(0, [1, 1], [0, 1]), (1, [1, 0], [1, 0]), (2, [0, 0], [0, 0]), (3, [0, 0], [0, 0])] }

/-- every data point an outlier: no clone at all -/
def exAllOut : Input :=
  { forest := .nil, outs := [0, 1], names := ["a", "b"], samples := ["s1"], clusters := none, ccf := [] }

/-- clustered: clusters 5 (two mutations) and 7 are data points, cluster 9 has no data point -/
def exClus : Input :=
  { forest := .cons 0 [0] .nil .nil, outs := [1], names := ["5", "7"], samples := ["s1", "s2"],
    clusters := some [("m1", 5), ("m2", 7), ("m3", 5), ("m4", 9)],
    ccf := [(0, [1, 1], [1, 1])] }

example : WF exPlain := ⟨by decide, by decide, by decide, by decide⟩
example : WF exAllOut := ⟨by decide, by decide, by decide, by decide⟩
example : WF exClus := ⟨by decide, by decide, by decide, by decide⟩
example : (table exPlain).isSome = true ∧ (table exAllOut).isSome = true ∧ (table exClus).isSome = true := by
  decide
example : ((table exPlain).getD []).length = 8 ∧ ((table exAllOut).getD []).length = 2 ∧
    ((table exClus).getD []).length = 8 := by decide
example : ((table exClus).getD []).map (fun r => (r.mid, r.clone, r.cluster)) =
    [("m1", 0, some 5), ("m1", 0, some 5), ("m3", 0, some 5), ("m3", 0, some 5),
     ("m2", -1, some 7), ("m2", -1, some 7), ("m4", -1, some 9), ("m4", -1, some 9)] := by decide
example : newick exPlain.forest = "((1,(3)2)0)root;" ∧ newick exAllOut.forest = "root;" := by decide

end PhyModel.Props.C12
