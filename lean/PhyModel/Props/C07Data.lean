import PhyModel.Proofs.StoreDataMove
/-! # C07 (section: composed moves conserve the data)

To be merged into `Props/C07.lean`.  The per-operation accounting (`addDp_data`, `rmDp_data`,
`removeSubtree_data`, `addSubtree_data`, `getSubtree_data`, …) is in `Proofs/StoreWF_*.lean`; here the
two composed moves the samplers perform, with non-vacuity examples on concrete stores. -/
namespace PhyModel.Props.C07
open PhyModel PhyModel.Store PhyModel.Store.AL

/-- **C07, subtree move** (`get_subtree`, `remove_subtree`, `add_subtree` anywhere): the multiset of
data points held by the tree, outliers included, is unchanged.  Hypotheses: `WF s` and `Full s` of the
tree before the move only; the branch of `remove_subtree` that re-initialises the tree (the extracted
subtree is the whole tree) is included. -/
theorem subtree_move_conserves (dt : Data) (s sub s1 s2 : Store) (name : Int) (parent : Option Int)
    (hs : WF s ∧ Full s) (hg : s.getSubtree dt (some name) = some sub)
    (hr : s.removeSubtree dt sub = some s1) (ha : s1.addSubtree dt sub parent = some s2) :
    (s2.data.flatMap (·.2)).Perm (s.data.flatMap (·.2)) :=
  Store.subtree_move_conserves hs hg hr ha

/-- **C07, data-point move** (`remove_data_point_from_node` then `add_data_point_to_node`, clone or
outliers on either side): the multiset of data points is unchanged.  Hypotheses: `WF s`, `Full s`. -/
theorem dp_move_conserves (dt : Data) (s s1 s2 : Store) (dp : ℕ) (a b : Int) (hs : WF s ∧ Full s)
    (hr : s.removeDataPointFromNode dt dp a = some s1)
    (ha : s1.addDataPointToNode dt dp b = some s2) :
    (s2.data.flatMap (·.2)).Perm (s.data.flatMap (·.2)) :=
  Store.dp_move_conserves hs hr ha

/-! ### non-vacuity -/

theorem some_getD {α} (o : Option α) (d : α) (h : o.isSome = true) : o = some (o.getD d) := by
  cases o with
  | none => cases h
  | some a => rfl

def exData : Data :=
  { G := 2, S := 1, op := [], sz := [], vals := [[[1/2, 1/3]], [[1/4, 1]], [[1, 1/5]], [[1/3, 1/7]]] }

/-- clone 1 above clone 0, a second top-level clone 2, one outlier -/
def exS : Store :=
  ((run exData [Store.init exData]
    [.create 0 [] [0], .create 0 [0] [1], .addDp 0 2 0, .create 0 [] [3], .addDp 0 4 (-1)]).getD
      []).headD (Store.init exData)

def exSub : Store := (exS.getSubtree exData (some 0)).getD (Store.init exData)
def exS1 : Store := (exS.removeSubtree exData exSub).getD (Store.init exData)
def exS2 : Store := (exS1.addSubtree exData exSub (some 2)).getD (Store.init exData)

/-- the subtree below clone 0 is moved from below clone 1 to below clone 2 -/
example : (WF exS ∧ Full exS) ∧ exS.getSubtree exData (some 0) = some exSub ∧
    exS.removeSubtree exData exSub = some exS1 ∧ exS1.addSubtree exData exSub (some 2) = some exS2 ∧
    Store.keyEq exSub exS = false ∧
    exS.data = [(0, [0, 2]), (1, [1]), (2, [3]), (-1, [4])] ∧
    exS2.data = [(1, [1]), (2, [3]), (-1, [4]), (0, [0, 2])] :=
  ⟨⟨(wfB_iff _).1 (by decide +kernel), by unfold Full; decide +kernel⟩,
    some_getD _ _ (by decide +kernel), some_getD _ _ (by decide +kernel),
    some_getD _ _ (by decide +kernel), by decide +kernel, by decide +kernel, by decide +kernel⟩

/-- the whole tree is extracted: `remove_subtree` re-initialises, the graft restores the data -/
def exT : Store :=
  ((run exData [Store.init exData]
    [.create 0 [] [0], .create 0 [0] [1], .addDp 0 2 0]).getD []).headD (Store.init exData)
def exTSub : Store := (exT.getSubtree exData (some 1)).getD (Store.init exData)
def exT1 : Store := (exT.removeSubtree exData exTSub).getD (Store.init exData)
def exT2 : Store := (exT1.addSubtree exData exTSub none).getD (Store.init exData)

example : (WF exT ∧ Full exT) ∧ exT.getSubtree exData (some 1) = some exTSub ∧
    exT.removeSubtree exData exTSub = some exT1 ∧ exT1.addSubtree exData exTSub none = some exT2 ∧
    Store.keyEq exTSub exT = true ∧ exT1.data = [] ∧
    exT.data = [(0, [0, 2]), (1, [1])] ∧ exT2.data = [(1, [1]), (0, [0, 2])] :=
  ⟨⟨(wfB_iff _).1 (by decide +kernel), by unfold Full; decide +kernel⟩,
    some_getD _ _ (by decide +kernel), some_getD _ _ (by decide +kernel),
    some_getD _ _ (by decide +kernel), by decide +kernel, by decide +kernel, by decide +kernel,
    by decide +kernel⟩

def exM1 : Store := (exS.removeDataPointFromNode exData 2 0).getD (Store.init exData)
def exM2 : Store := (exM1.addDataPointToNode exData 2 (-1)).getD (Store.init exData)

/-- data point 2 is moved from clone 0 to the outliers -/
example : (WF exS ∧ Full exS) ∧ exS.removeDataPointFromNode exData 2 0 = some exM1 ∧
    exM1.addDataPointToNode exData 2 (-1) = some exM2 ∧
    exM2.data = [(0, [0]), (1, [1]), (2, [3]), (-1, [4, 2])] :=
  ⟨⟨(wfB_iff _).1 (by decide +kernel), by unfold Full; decide +kernel⟩,
    some_getD _ _ (by decide +kernel), some_getD _ _ (by decide +kernel), by decide +kernel⟩

end PhyModel.Props.C07
