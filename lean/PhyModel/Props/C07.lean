import PhyModel.Proofs.StoreWF_StepDense
import PhyModel.Proofs.StoreWF_Labels
import PhyModel.Proofs.C07Example
import PhyModel.Proofs.StoreDataMove
import PhyModel.Proofs.GraphExample
import PhyModel.Proofs.GraphOfCreate2
import PhyModel.Proofs.GraphOfStruct
import PhyModel.Proofs.GraphOfGraft
import PhyModel.Proofs.GraphOfDict
import PhyModel.Proofs.GraphSim5
/-! # C07 — every tree is a well-formed forest and no edit loses or duplicates data (store model)

Property theorems only; the proofs are in `Proofs/StoreWF_*.lean` (one file per operation on top of
the shared `StoreWF_AL`, `StoreWF_SF`, `StoreWF_SF2`, `StoreWF_Base`, `StoreWF_Facts`).

`Store` (`Model/Store.lean`) mirrors `phyclone.tree.Tree` field by field; an operation returns `none`
where the Python raises.  The invariant is `Inv s := WF s ∧ Full s ∧ Aligned s` (`Proofs/StoreInv.lean`):
`WF` — payload names and graph indices are unique, the maps name → index and index → name are exactly
the payload pairs, `_data` is keyed by clone names or the outlier key, lists each clone's payload set,
and no data point is listed twice; `Full` — every clone has its `_data` key; `Aligned` — payload list
and `_data` list agree including order.  `Legal sys op` holds the side conditions under which the
samplers call an edit (`Dense` names and fresh data for `create_root_node`, a subtree of the same
tree for `remove_subtree`, disjoint data for `add_subtree`).  Graph *shape* (one parent per clone,
reachability) is structural in the store model; it is proved for the primitive-level digraph model
`Model/Graph.lean` in the last section of this file ("graph shape").

The composed move theorems (`subtree_move_conserves`, `dp_move_conserves`) and `wfB ↔ WF` are in
separate files. -/

namespace PhyModel.Props.C07
open PhyModel PhyModel.Store PhyModel.Store.Store PhyModel.Store.AL

/-- the data points a store holds (all values of `_data`, outliers included) -/
abbrev dataPts (s : Store) : List Nat := s.data.flatMap (·.2)

/-! ## 1. the empty tree -/

theorem wf_init (dt : Data) : Inv (Store.init dt) := inv_init' dt

/-! ## 2. one lemma per operation -/

/-- `create_root_node(children, data)` in a tree with dense names, non-empty fresh `data` -/
theorem wf_createRootNode {dt : Data} {s : Store} {ch : List Int} {data : List Nat} {r : Store × Int}
    (hs : Inv s) (hd : Dense s) (hne : data ≠ []) (hfresh : ∀ x ∈ data, x ∉ dataPts s)
    (h : s.createRootNode dt ch data = some r) : Inv r.1 ∧ Dense r.1 :=
  have h0 := create_inv h hs.inv0 hd hne hfresh
  ⟨⟨h0.1.1, h0.1.2, create_aligned h hs.1 hd hfresh hs.2.2⟩, h0.2⟩

/-- `create_root_node(children)` then `add_data_point_to_node(dp, new clone)` -/
theorem wf_createAdd {dt : Data} {s s' : Store} {ch : List Int} {dp : Nat} {r : Store × Int}
    (hs : Inv s) (hd : Dense s) (h1 : s.createRootNode dt ch [] = some r)
    (h2 : r.1.addDataPointToNode dt dp r.2 = some s') : Inv s' ∧ Dense s' :=
  have h0 := createAdd_inv h1 h2 hs.inv0 hd
  ⟨⟨h0.1.1, h0.1.2, createAdd_aligned h1 h2 hs.inv0 hd hs.2.2⟩, h0.2.1⟩

theorem wf_addDataPointToNode {dt : Data} {s s' : Store} {dp : Nat} {node : Int} (hs : Inv s)
    (h : s.addDataPointToNode dt dp node = some s') : Inv s' ∧ (Dense s → Dense s') :=
  have h0 := addDp_inv h hs.inv0
  ⟨⟨h0.1, h0.2, addDp_aligned h hs.1 hs.2.2⟩, addDp_dense h hs.1⟩

theorem wf_removeDataPointFromNode {dt : Data} {s s' : Store} {dp : Nat} {node : Int} (hs : Inv s)
    (h : s.removeDataPointFromNode dt dp node = some s') : Inv s' ∧ (Dense s → Dense s') :=
  have h0 := rmDp_inv h hs.inv0
  ⟨⟨h0.1, h0.2, rmDp_aligned h hs.1 hs.2.2⟩, rmDp_dense h hs.1⟩

theorem wf_removeDataPointFromOutliers {s s' : Store} {dp : Nat} (hs : Inv s)
    (h : s.removeDataPointFromOutliers dp = some s') : Inv s' ∧ (Dense s → Dense s') :=
  have h0 := rmOut_inv h hs.inv0
  ⟨⟨h0.1, h0.2, rmOut_aligned h hs.1 hs.2.2⟩, rmOut_dense h⟩

/-- `get_subtree`: the extracted tree is well formed, and the key-creating reads of the source tree
(`Store.touch`) leave the source as it was -/
theorem wf_getSubtree {dt : Data} {s r : Store} {root : Option Int} (hs : Inv s)
    (h : s.getSubtree dt root = some r) :
    Inv r ∧ (if root.isSome then s.touch r.nodes else s) = s := by
  have h0 := getSubtree_inv h hs.inv0
  refine ⟨⟨h0.1, h0.2, getSubtree_aligned h hs.1 hs.2.2⟩, ?_⟩
  cases root with
  | none => rfl
  | some name =>
    obtain ⟨_, _, _, _, _, _, _, hsub, _⟩ := getSubtree_shape h hs.1
    exact touch_of_full fun nm hnm => by
      obtain ⟨n, hn, rfl⟩ := SF.mem_names.1 (hsub nm hnm); exact hs.2.1 n hn

/-- `remove_subtree(subtree)` for a subtree carrying the names of a subtree of the same tree -/
theorem wf_removeSubtree {dt : Data} {s sub s' : Store} (hs : Inv s) (hleg : RmLegal s sub)
    (h : s.removeSubtree dt sub = some s') : Inv s' :=
  have h0 := removeSubtree_inv h hs.inv0 hleg
  ⟨h0.1, h0.2, removeSubtree_aligned h hs.inv0 hleg hs.2.2⟩

/-- `add_subtree(subtree, parent)` where the tree does not hold the subtree's data points -/
theorem wf_addSubtree {dt : Data} {s sub s' : Store} {parent : Option Int} (hs : Inv s) (hsub : Inv sub)
    (hleg : ∀ d ∈ sub.forest.recs.flatMap (fun n => sub.dataOf n.name), d ∉ dataPts s)
    (h : s.addSubtree dt sub parent = some s') : Inv s' :=
  have h0 := addSubtree_inv h hs.inv0 hsub.1 hleg
  ⟨h0.1, h0.2, addSubtree_aligned h hs.inv0 hsub.1 hs.2.2 hsub.2.2⟩

/-- `relabel_nodes()` also makes the names dense -/
theorem wf_relabelNodes {s : Store} (hs : Inv s) : Inv s.relabelNodes ∧ Dense s.relabelNodes :=
  have h0 := relabelNodes_inv hs.1
  ⟨⟨h0.1.1, h0.1.2, relabelNodes_aligned hs.1 hs.2.2⟩, h0.2⟩

theorem wf_update (dt : Data) {s : Store} (hs : Inv s) :
    Inv (s.update dt) ∧ (Dense s → Dense (s.update dt)) :=
  ⟨⟨(update_inv dt s).1 hs.1, (update_inv dt s).2.1 hs.2.1, update_aligned dt hs.2.2⟩, (update_inv dt s).2.2⟩

/-- `Tree.from_dict(tree.to_dict())` -/
theorem wf_fromDict_toDict {dt : Data} {s s' : Store} (hs : Inv s)
    (h : Store.fromDict dt s.toDict = some s') : Inv s' ∧ (Dense s → Dense s') :=
  have h0 := fromDict_toDict_inv h hs.inv0
  ⟨⟨h0.1.1, h0.1.2, fromDict_toDict_aligned h hs.inv0⟩, h0.2.1⟩

/-- the `defaultdict` reads of `__eq__` / `get_subtree` create no key in a tree satisfying `Inv` -/
theorem wf_touch {s : Store} (hs : Inv s) : s.touch s.nodes = s := touch_nodes_of_full hs.2.1

/-! ## 3. every step, every history -/

/-- **C07 (step).**  A legal edit that does not raise leaves every live tree well formed. -/
theorem wf_step {dt : Data} {sys sys' : Sys} {op : Op} (hall : ∀ s ∈ sys, Inv s) (hleg : Legal sys op)
    (hstep : step dt sys op = some sys') : ∀ s ∈ sys', Inv s := inv_step hall hleg hstep

/-- **C07 (all histories).**  Every tree reachable from the empty tree by edits that are each legal in
the state where they are applied is well formed. -/
theorem wf_reachable {dt : Data} {ops : List Op} {sys : Sys} (hleg : LegalRun dt [Store.init dt] ops)
    (hrun : run dt [Store.init dt] ops = some sys) : ∀ s ∈ sys, Inv s :=
  inv_run (fun s hs => by simp at hs; exact hs ▸ inv_init' dt) hleg hrun

/-- density (the precondition of `create_root_node`) survives every step that neither extracts,
removes nor grafts clones -/
theorem dense_step {dt : Data} {sys sys' : Sys} {op : Op} (hall : ∀ s ∈ sys, Inv s)
    (hden : ∀ s ∈ sys, Dense s) (hleg : Legal sys op) (hk : op.keepsDense = true)
    (hstep : step dt sys op = some sys') : ∀ s ∈ sys', Dense s :=
  Store.dense_step hall hden hleg hk hstep

/-! ## 4. no edit loses or duplicates data -/

/-- **C07 (data conservation, per edit).**  What each edit does to the multiset of data points held in
`_data`: nothing (relabel, update, dictionary round trip; `copy` shares the store), `+ dp`
(add / create), `− dp` (remove), the clade of the extracted root (`get_subtree`), the `_data` entries of
the removed clones (`remove_subtree`), the clone-side data of the grafted tree (`add_subtree`: its
outliers are dropped, as in the code). -/
theorem data_conserved (dt : Data) {s : Store} (hs : Inv s) :
    (dataPts s.relabelNodes).Perm (dataPts s) ∧ dataPts (s.update dt) = dataPts s ∧
    (∀ s', Store.fromDict dt s.toDict = some s' → dataPts s' = dataPts s) ∧
    (∀ dp node s', s.addDataPointToNode dt dp node = some s' → (dataPts s').Perm (dp :: dataPts s)) ∧
    (∀ ch dp r s', Dense s → s.createRootNode dt ch [] = some r →
      r.1.addDataPointToNode dt dp r.2 = some s' → (dataPts s').Perm (dp :: dataPts s)) ∧
    (∀ ch d r, Dense s → (∀ x ∈ d, x ∉ dataPts s) → s.createRootNode dt ch d = some r →
      (dataPts r.1).Perm (d ++ dataPts s)) ∧
    (∀ dp node s', s.removeDataPointFromNode dt dp node = some s' → (dataPts s).Perm (dp :: dataPts s')) ∧
    (∀ dp s', s.removeDataPointFromOutliers dp = some s' → (dataPts s).Perm (dp :: dataPts s')) ∧
    (∀ name r, s.getSubtree dt (some name) = some r → dataPts r = r.nodes.flatMap s.dataOf) ∧
    (∀ sub s', RmLegal s sub → Store.keyEq sub s = false → s.removeSubtree dt sub = some s' →
      (dataPts s).Perm (sub.nodes.flatMap s.dataOf ++ dataPts s')) ∧
    (∀ sub parent s', WF sub → s.addSubtree dt sub parent = some s' →
      dataPts s' = dataPts s ++ sub.forest.recs.flatMap (fun n => sub.dataOf n.name)) :=
  ⟨relabelNodes_data hs.1, rfl, fun _ h => congrArg (fun d => d.flatMap (·.2)) (fromDict_toDict_inv h hs.inv0).2.2.1,
    fun _ _ _ h => addDp_data h hs.1, fun _ _ _ _ hd h1 h2 => (createAdd_inv h1 h2 hs.inv0 hd).2.2,
    fun _ _ _ hd hf h => create_data h hs.1 hd hf, fun _ _ _ h => rmDp_data h hs.1,
    fun _ _ h => rmOut_data h hs.1, fun _ _ h => getSubtree_data h hs.1,
    fun _ _ hl hne h => removeSubtree_data h hs.inv0 hl hne,
    fun _ _ _ hw h => addSubtree_data_eq h hs.inv0 hw⟩

/-- the tree returned by `get_subtree(name)` consists of the clade of `name`: its clones are the clone
registered under `name` and its descendants, with their `_data` lists, and it has no outliers -/
theorem subtree_is_clade {dt : Data} {s r : Store} {name : Int} (hs : Inv s)
    (h : s.getSubtree dt (some name) = some r) :
    ∃ i x, s.nodeIdx.lookup name = some i ∧ s.forest.findSub i = some x ∧ x.1.name = name ∧
      r.nodes = (SF.cons x.1 x.2 .nil).names ∧ r.roots = [name] ∧ (∀ nm ∈ r.nodes, nm ∈ s.nodes) ∧
      (∀ nm, r.dataOf nm = if nm ∈ r.nodes then s.dataOf nm else []) ∧ r.outliers = [] :=
  getSubtree_shape h hs.1

/-! ## 5. each data point sits in exactly one clone or in the outlier set -/

/-- **C07 (partition).**  Under `WF`, `Tree.labels` is a function on the data points of the store (no
data point is listed twice, hence it has exactly one name), and the clone-side view — payload
data-point sets plus the outlier list — is duplicate free as well. -/
theorem labels_partition {s : Store} (hw : WF s) :
    (s.labels.map (·.1)).Nodup ∧ (∀ d nm nm', (d, nm) ∈ s.labels → (d, nm') ∈ s.labels → nm = nm') ∧
    (s.outliers ++ s.forest.recs.flatMap (·.dps)).Nodup :=
  ⟨hw.labels_nodup, fun _ _ _ h1 h2 => hw.labels_unique h1 h2, hw.clone_view_nodup⟩

/-- **C07 (the views agree).**  The `_data` view and the clone-side view give the same assignment, and
the abstraction `abs` (tree up to names, indices and caches) holds exactly the labelled data points. -/
theorem abs_eq_labels {s : Store} (hw : WF s) :
    (∀ d nm, (d, nm) ∈ s.labels ↔
      (nm = outKey ∧ d ∈ s.outliers) ∨ ∃ n ∈ s.forest.recs, n.name = nm ∧ d ∈ n.dps) ∧
    (s.abs.2 ++ s.abs.1.all).Perm (s.labels.map (·.1)) :=
  ⟨fun _ _ => hw.mem_labels_iff, hw.abs_perm_labels⟩

/-! ## 6. non-vacuity: the hypotheses of each theorem hold on concrete non-trivial stores
(`Proofs/C07Example.lean`: `t1` one clone; `t2` clone 1 above clone 0 plus an outlier; `sub` the leaf
extracted from `t2`; `t3 = t2` without it; `ops` a 14-step history using every kind of edit) -/
section NonVacuity
open PhyModel.Store.C07Ex

example : Inv (Store.init dt) := wf_init dt
-- wf_createRootNode, dense_step
example : Inv t1 ∧ Dense t1 ∧ [1] ≠ [] ∧ (∀ x ∈ [1], x ∉ dataPts t1) ∧
    (t1.createRootNode dt [0] [1]).isSome = true := by decide +kernel
example : (∀ s ∈ [t1], Inv s ∧ Dense s) ∧ (Op.create 0 [0] [1]).keepsDense = true ∧
    (step dt [t1] (.create 0 [0] [1])).isSome = true := by decide +kernel
example : Legal [t1] (.create 0 [0] [1]) := legal_of_dec (by decide +kernel)
-- wf_createAdd
example : Inv t1 ∧ Dense t1 ∧
    ((t1.createRootNode dt [0] []).bind fun r => r.1.addDataPointToNode dt 1 r.2).isSome = true := by
  decide +kernel
-- wf_addDataPointToNode, wf_removeDataPointFromNode, wf_removeDataPointFromOutliers
example : Inv t2 ∧ (t2.addDataPointToNode dt 3 0).isSome = true ∧
    (t2.removeDataPointFromNode dt 0 0).isSome = true ∧ (t2.removeDataPointFromOutliers 2).isSome = true := by
  decide +kernel
-- wf_getSubtree, subtree_is_clade, wf_touch
example : Inv t2 ∧ (t2.getSubtree dt (some 0)).isSome = true ∧ t2.numNodes = 2 := by decide +kernel
-- wf_removeSubtree (the non-degenerate branch)
example : Inv t2 ∧ Store.keyEq sub t2 = false ∧ (t2.removeSubtree dt sub).isSome = true := by decide +kernel
example : RmLegal t2 sub := fun hne => rmLegal_of_dec (by decide +kernel) hne
-- wf_addSubtree
example : Inv t3 ∧ Inv sub ∧ (∀ d ∈ sub.forest.recs.flatMap (fun n => sub.dataOf n.name), d ∉ dataPts t3) ∧
    (t3.addSubtree dt sub (some 1)).isSome = true := by decide +kernel
-- wf_relabelNodes (on a tree whose names are not dense), wf_update, wf_fromDict_toDict
example : Inv t3 ∧ ¬ Dense t3 := by decide +kernel
example : Inv t2 ∧ (Store.fromDict dt t2.toDict).isSome = true := by decide +kernel
-- wf_step
example : (∀ s ∈ [t2, sub], Inv s) ∧ (step dt [t2, sub] (.rmSub 0 1)).isSome = true := by decide +kernel
example : Legal [t2, sub] (.rmSub 0 1) := legal_of_dec (by decide +kernel)
-- wf_reachable: a legal history through every kind of edit, ending with four live trees
example : LegalRun dt [Store.init dt] ops := legalRun_of_B (by decide +kernel)
example : ((run dt [Store.init dt] ops).map (·.length)) = some 4 := by decide +kernel
-- data_conserved (the edits succeed on `t2`, see above), labels_partition, abs_eq_labels
example : WF t2 ∧ t2.labels = [(0, 0), (1, 1), (2, -1)] := by decide +kernel

end NonVacuity


/-! ## composed moves conserve the data (section proved on top of the per-operation accounting) -/

/-- **C07, subtree move** (`get_subtree`, `remove_subtree`, `add_subtree` anywhere): the multiset of
data points held by the tree, outliers included, is unchanged.  Hypotheses: `WF s` and `Full s` of the
tree before the move only; the branch of `remove_subtree` that re-initialises the tree (the extracted
subtree is the whole tree) is included. -/
theorem subtree_move_conserves (dt : Data) (s sub s1 s2 : Store) (name : Int) (parent : Option Int)
    (hs : WF s ∧ Full s) (hg : s.getSubtree dt (some name) = some sub)
    (hr : s.removeSubtree dt sub = some s1) (ha : s1.addSubtree dt sub parent = some s2) :
    (s2.data.flatMap (·.2)).Perm (s.data.flatMap (·.2)) :=
  Store.subtree_move_conserves hs hg hr ha

/-- **C07, data-point move** (`remove_data_point_from_node` then `add_data_point_to_node`, clone or
outliers on either side): the multiset of data points is unchanged.  Hypotheses: `WF s`, `Full s`. -/
theorem dp_move_conserves (dt : Data) (s s1 s2 : Store) (dp : ℕ) (a b : Int) (hs : WF s ∧ Full s)
    (hr : s.removeDataPointFromNode dt dp a = some s1)
    (ha : s1.addDataPointToNode dt dp b = some s2) :
    (s2.data.flatMap (·.2)).Perm (s.data.flatMap (·.2)) :=
  Store.dp_move_conserves hs hr ha

/-! ### non-vacuity -/

private theorem some_getD {α} (o : Option α) (d : α) (h : o.isSome = true) : o = some (o.getD d) := by
  cases o with
  | none => cases h
  | some a => rfl

def exData : Data :=
  { G := 2, S := 1, op := [], sz := [], vals := [[[1/2, 1/3]], [[1/4, 1]], [[1, 1/5]], [[1/3, 1/7]]] }

/-- clone 1 above clone 0, a second top-level clone 2, one outlier -/
def exS : Store :=
  ((run exData [Store.init exData]
    [.create 0 [] [0], .create 0 [0] [1], .addDp 0 2 0, .create 0 [] [3], .addDp 0 4 (-1)]).getD
      []).headD (Store.init exData)

def exSub : Store := (exS.getSubtree exData (some 0)).getD (Store.init exData)
def exS1 : Store := (exS.removeSubtree exData exSub).getD (Store.init exData)
def exS2 : Store := (exS1.addSubtree exData exSub (some 2)).getD (Store.init exData)

/-- the subtree below clone 0 is moved from below clone 1 to below clone 2 -/
example : (WF exS ∧ Full exS) ∧ exS.getSubtree exData (some 0) = some exSub ∧
    exS.removeSubtree exData exSub = some exS1 ∧ exS1.addSubtree exData exSub (some 2) = some exS2 ∧
    Store.keyEq exSub exS = false ∧
    exS.data = [(0, [0, 2]), (1, [1]), (2, [3]), (-1, [4])] ∧
    exS2.data = [(1, [1]), (2, [3]), (-1, [4]), (0, [0, 2])] :=
  ⟨⟨(wfB_iff _).1 (by decide +kernel), by unfold Full; decide +kernel⟩,
    some_getD _ _ (by decide +kernel), some_getD _ _ (by decide +kernel),
    some_getD _ _ (by decide +kernel), by decide +kernel, by decide +kernel, by decide +kernel⟩

/-- the whole tree is extracted: `remove_subtree` re-initialises, the graft restores the data -/
def exT : Store :=
  ((run exData [Store.init exData]
    [.create 0 [] [0], .create 0 [0] [1], .addDp 0 2 0]).getD []).headD (Store.init exData)
def exTSub : Store := (exT.getSubtree exData (some 1)).getD (Store.init exData)
def exT1 : Store := (exT.removeSubtree exData exTSub).getD (Store.init exData)
def exT2 : Store := (exT1.addSubtree exData exTSub none).getD (Store.init exData)

example : (WF exT ∧ Full exT) ∧ exT.getSubtree exData (some 1) = some exTSub ∧
    exT.removeSubtree exData exTSub = some exT1 ∧ exT1.addSubtree exData exTSub none = some exT2 ∧
    Store.keyEq exTSub exT = true ∧ exT1.data = [] ∧
    exT.data = [(0, [0, 2]), (1, [1])] ∧ exT2.data = [(1, [1]), (0, [0, 2])] :=
  ⟨⟨(wfB_iff _).1 (by decide +kernel), by unfold Full; decide +kernel⟩,
    some_getD _ _ (by decide +kernel), some_getD _ _ (by decide +kernel),
    some_getD _ _ (by decide +kernel), by decide +kernel, by decide +kernel, by decide +kernel,
    by decide +kernel⟩

def exM1 : Store := (exS.removeDataPointFromNode exData 2 0).getD (Store.init exData)
def exM2 : Store := (exM1.addDataPointToNode exData 2 (-1)).getD (Store.init exData)

/-- data point 2 is moved from clone 0 to the outliers -/
example : (WF exS ∧ Full exS) ∧ exS.removeDataPointFromNode exData 2 0 = some exM1 ∧
    exM1.addDataPointToNode exData 2 (-1) = some exM2 ∧
    exM2.data = [(0, [0]), (1, [1]), (2, [3]), (-1, [4, 2])] :=
  ⟨⟨(wfB_iff _).1 (by decide +kernel), by unfold Full; decide +kernel⟩,
    some_getD _ _ (by decide +kernel), some_getD _ _ (by decide +kernel), by decide +kernel⟩


/-! ## graph shape: each clone has exactly one parent and is reachable from the virtual root

`Model/Graph.lean` models the rustworkx graph inside `Tree` as live indices + edge list (shape is *not*
structural there) and every shape-changing `Tree` method as the sequence of `PyDiGraph` calls `tree.py`
makes, with the indices rustworkx hands out as parameters.  `IsForest g` (`Proofs/GraphInv.lean`): 0 is
live and is no edge's target, edges join live nodes, every other live node occurs exactly once as a
target in the edge list, every live node is reachable from 0. -/
section GraphShape
open PhyModel.Graph (DG IsForest Reach GOp GSys GLegal gInit gStep gRun gCreateRootNode gGetSubtree
  gRemoveSubtree gAddSubtree gFromDict gCopy isForestB)

/-- `Tree(grid_size)` -/
theorem forest_init : IsForest gInit := Graph.isForest_init

/-- `create_root_node`: `add_node`, `add_edge(root, new)`, per child `remove_edge(root, child)`;
`add_edge(new, child)`.  Success of the primitives implies that `new` was not in use and that the children
are distinct top-level clones; that none of them is the node being created is the call sites' -/
theorem forest_createRootNode {g g' : DG} {new : ℕ} {kids : List ℕ} (hf : IsForest g)
    (hk : ∀ c ∈ kids, c ≠ new) (h : gCreateRootNode g new kids = some g') : IsForest g' :=
  Graph.forest_createRootNode hf hk h

/-- `get_subtree`: `subgraph([r] + descendants(r))` composed under a fresh root, for any numbering
(`ρ₁` of the subgraph, `ρ₂` of the composition) that the model accepts (no collisions) -/
theorem forest_getSubtree {g g' : DG} {r : ℕ} {ρ₁ ρ₂ : ℕ → ℕ} (hf : IsForest g)
    (h : gGetSubtree g r ρ₁ ρ₂ = some g') : IsForest g' := Graph.forest_getSubtree hf h

/-- `remove_subtree`: `remove_nodes_from(descendants(r) + [r])` for a clone `r` -/
theorem forest_removeSubtree {g g' : DG} {r : ℕ} (hf : IsForest g) (hr : r ≠ 0)
    (h : gRemoveSubtree g r = some g') : IsForest g' := Graph.forest_removeSubtree hf hr h

/-- `add_subtree`: `compose` with an edge parent → copy of the grafted root, then
`remove_node_retain_edges` of that copy -/
theorem forest_addSubtree {g sub g' : DG} {p : ℕ} {ρ : ℕ → ℕ} (hf : IsForest g) (hs : IsForest sub)
    (h : gAddSubtree g sub p ρ = some g') : IsForest g' := Graph.forest_addSubtree hf hs h

/-- `from_dict`: `extend_from_edge_list`, then removal of the indices `node_idx_rev` does not list,
rebuilds the forest the dictionary describes (same live set, same edge list) -/
theorem forest_fromDict {edges : List (ℕ × ℕ)} {live : List ℕ} (hf : IsForest { nodes := live, edges := edges }) :
    IsForest (gFromDict edges live) ∧ (gFromDict edges live).nodes.Perm live ∧
      (gFromDict edges live).edges = edges :=
  ⟨Graph.forest_fromDict hf, Graph.gFromDict_spec hf⟩

/-- **C07 (graph shape, step).**  A graph-level edit that does not raise leaves every live graph a rooted
forest. -/
theorem forest_step {sys sys' : GSys} {op : GOp} (hall : ∀ g ∈ sys, IsForest g) (hleg : GLegal op)
    (hstep : gStep sys op = some sys') : ∀ g ∈ sys', IsForest g := Graph.forest_step hall hleg hstep

/-- **C07 (graph shape, all histories).** -/
theorem forest_reachable {ops : List GOp} {sys : GSys} (hleg : ∀ op ∈ ops, GLegal op)
    (h : gRun [gInit] ops = some sys) : ∀ g ∈ sys, IsForest g := Graph.forest_reachable hleg h

/-- **the operations do not raise at the call sites' preconditions** (total correctness of `forest_*`): the
index handed out is free and the children are distinct top-level clones (`create_root_node`); the subtree
root is live and the numberings do not collide (`get_subtree`, `remove_subtree`); the parent is live and
the copies' indices are free and distinct (`add_subtree`) -/
theorem forest_ops_total {g : DG} (hf : IsForest g) :
    (∀ new kids, new ∉ g.nodes → kids.Nodup → (∀ c ∈ kids, (0, c) ∈ g.edges) →
      ∃ g', gCreateRootNode g new kids = some g' ∧ IsForest g') ∧
    (∀ r, r ∈ g.nodes → r ≠ 0 → ∃ g', gRemoveSubtree g r = some g' ∧ IsForest g') ∧
    (∀ r (ρ₁ ρ₂ : ℕ → ℕ), r ∈ g.nodes → (∀ a ∈ g.nodes, ∀ b ∈ g.nodes, ρ₂ (ρ₁ a) = ρ₂ (ρ₁ b) → a = b) →
      (∀ a ∈ g.nodes, ρ₂ (ρ₁ a) ≠ 0) → ∃ g', gGetSubtree g r ρ₁ ρ₂ = some g' ∧ IsForest g') ∧
    (∀ sub p (ρ : ℕ → ℕ), IsForest sub → p ∈ g.nodes → (sub.nodes.map ρ).Nodup → (∀ v ∈ sub.nodes, ρ v ∉ g.nodes) →
      ∃ g', gAddSubtree g sub p ρ = some g' ∧ IsForest g') := by
  refine ⟨fun new kids hnew hnd hk => ?_, fun r hr hr0 => ?_, fun r ρ₁ ρ₂ hr hinj hne => ?_,
    fun sub p ρ hs hp hn hfresh => ?_⟩
  · have hk' : ∀ c ∈ kids, c ∈ g.nodes ∧ (0, c) ∈ g.edges := fun c hc => ⟨(hf.edges_live _ (hk c hc)).2, hk c hc⟩
    obtain ⟨g', hg'⟩ := Option.isSome_iff_exists.1 (Graph.gCreateRootNode_isSome hnew hf.root_live hnd hk')
    exact ⟨g', hg', Graph.forest_createRootNode hf (fun c hc e => hnew (by rw [← e]; exact (hk' c hc).1)) hg'⟩
  · obtain ⟨g', hg'⟩ := Option.isSome_iff_exists.1 (Graph.gRemoveSubtree_isSome hr)
    exact ⟨g', hg', Graph.forest_removeSubtree hf hr0 hg'⟩
  · obtain ⟨g', hg'⟩ := Option.isSome_iff_exists.1 (Graph.gGetSubtree_isSome (ρ₁ := ρ₁) (ρ₂ := ρ₂) hr
      (fun a ha b hb _ _ h => hinj a ha b hb (congrArg ρ₂ h)) (fun a ha b hb _ _ h => hinj a ha b hb h)
      (fun a ha _ => hne a ha) hf.nodes_nodup)
    exact ⟨g', hg', Graph.forest_getSubtree hf hg'⟩
  · obtain ⟨g', hg'⟩ := Option.isSome_iff_exists.1 (Graph.gAddSubtree_isSome hp hs.root_live hn hfresh)
    exact ⟨g', hg', Graph.forest_addSubtree hf hs hg'⟩

/-- what the invariant buys: the parent is unique, and there is no cycle (no node reaches itself along a
non-empty path) -/
theorem forest_parent_unique_acyclic {g : DG} (hf : IsForest g) :
    (∀ p q v, (p, v) ∈ g.edges → (q, v) ∈ g.edges → p = q) ∧
    (∀ v x, v ∈ g.nodes → (v, x) ∈ g.edges → ¬ Reach g x v) :=
  ⟨fun _ _ _ hp hq => hf.parent_unique hp hq, fun _ _ hv he => hf.acyclic hv he⟩

/-- the Boolean the driver evaluates on the model graph is the invariant -/
theorem isForestB_iff {g : DG} : isForestB g = true ↔ IsForest g := Graph.isForestB_iff

/-! ### non-vacuity (`Proofs/GraphExample.lean`) -/
section
open PhyModel.Graph.Ex

example : IsForest g4 ∧ (∀ c ∈ [3, 1], c ≠ 5) ∧ gCreateRootNode g4 5 [3, 1] = none ∧
    gCreateRootNode g4 5 [4] = some { nodes := [0, 1, 2, 3, 4, 5], edges := [(2, 1), (4, 3), (4, 2), (0, 5), (5, 4)] } := by
  decide +kernel
-- a child that is the node being created gives a self loop: the hypothesis of `forest_createRootNode` is needed
example : ((gCreateRootNode g4 5 [5]).map isForestB) = some false := by decide +kernel
example : IsForest g4 ∧ gGetSubtree g4 2 (· - 1) (· + 1) = some { nodes := [0, 1, 2], edges := [(2, 1), (0, 2)] } := by
  decide +kernel
example : IsForest g4 ∧ (2 : ℕ) ≠ 0 ∧ gRemoveSubtree g4 2 = some { nodes := [0, 3, 4], edges := [(0, 4), (4, 3)] } := by
  decide +kernel
example : IsForest g4 ∧ IsForest g2 ∧ gAddSubtree g4 g2 3 (· + 10) =
    some { nodes := [0, 1, 2, 3, 4, 11, 12], edges := [(2, 1), (0, 4), (4, 3), (4, 2), (12, 11), (3, 12)] } := by
  decide +kernel
example : IsForest g5 ∧ gFromDict g5.edges g5.nodes = { nodes := [0, 2, 4, 7], edges := [(0, 4), (4, 7), (4, 2)] } := by
  decide +kernel
-- forest_step, forest_reachable: a history through every kind of graph-level edit
example : (∀ op ∈ ops, GLegal op) ∧ gRun [gInit] ops =
    some [{ nodes := [0, 3, 4, 2, 1], edges := [(0, 4), (4, 3), (1, 2), (3, 1)] }, gInit, g4, gInit] := by
  decide +kernel

end

/-! ### the structural store model is a correct abstraction of the primitive-level manipulations

`graphOf f` (`Proofs/GraphOf.lean`): live set `0 :: f.idxs`, edge list `Store.edgesOf 0 f` (what `to_dict`
stores).  For each shape-changing structural operation of `Model/Store.lean`, the graph-level operation
applied to `graphOf f` with the indices the structural operation chose succeeds and yields the live set and
the edge multiset of `graphOf` of the structural result. -/
section Link
open PhyModel.Graph (graphOf mapIdx reindexMap graphsOf GEquiv)

/-- the shape facts that hold by construction in `SF` are theorems about its graph -/
theorem graph_of_forest {f : SF} (hn : f.idxs.Nodup) (h0 : 0 ∉ f.idxs) : IsForest (graphOf f) :=
  Graph.isForest_graphOf hn h0

/-- `createRootNode`: `takeRoots` / `cons` -/
theorem graph_createRootNode {f : SF} {n1 : NodeRec} {cis : List ℕ} (hn : f.idxs.Nodup) (h0 : 0 ∉ f.idxs)
    (hnew : n1.idx ∉ f.idxs) (hnew0 : n1.idx ≠ 0) (hlen : (f.takeRoots cis).1.rootRecs.length = cis.length) :
    ∃ g', gCreateRootNode (graphOf f) n1.idx cis = some g' ∧
      g'.nodes.Perm (graphOf (.cons n1 (f.takeRoots cis).1 (f.takeRoots cis).2)).nodes ∧
      g'.edges.Perm (graphOf (.cons n1 (f.takeRoots cis).1 (f.takeRoots cis).2)).edges :=
  Graph.graph_createRootNode hn h0 hnew hnew0 hlen

/-- the same for the whole `Store.createRootNode` (fresh index, children looked up in `_node_indices`,
`_update_path_to_root` leaves the graph alone) -/
theorem graph_store_createRootNode {dt : Data} {s : Store} {ch : List Int} {data : List ℕ} {r : Store × Int}
    (hwf : WF s) (h : s.createRootNode dt ch data = some r) :
    ∃ cis g', ch.mapM (fun c => (alSet s.nodeIdx (s.numNodes : Int) s.fresh).lookup c) = some cis ∧
      gCreateRootNode (graphOf s.forest) s.fresh cis = some g' ∧
      g'.nodes.Perm (graphOf r.1.forest).nodes ∧ g'.edges.Perm (graphOf r.1.forest).edges :=
  Graph.graph_store_createRootNode hwf h

/-- `removeSub` (and: what is reachable from a clone in the graph is its structural subtree) -/
theorem graph_removeSub {f : SF} {i : ℕ} (hn : f.idxs.Nodup) (h0 : 0 ∉ f.idxs) (hi : i ∈ f.idxs) :
    (∀ x, f.findSub i = some x → ∀ v, Reach (graphOf f) i v ↔ v = i ∨ v ∈ x.2.idxs) ∧
    ∃ g', gRemoveSubtree (graphOf f) i = some g' ∧
      g'.nodes.Perm (graphOf (f.removeSub i)).nodes ∧ g'.edges.Perm (graphOf (f.removeSub i)).edges :=
  ⟨fun _ hx v => Graph.reach_graphOf_iff hn h0 hx v, Graph.graph_removeSub hn h0 hi⟩

/-- `getSubtree`: `findSub`, for any numbering of `subgraph` / `compose` that is injective on the subtree and
avoids 0 — in particular (second part) the one `reindex … 1` chooses -/
theorem graph_getSubtree {f : SF} {i : ℕ} {x : NodeRec × SF} (hn : f.idxs.Nodup) (h0 : 0 ∉ f.idxs)
    (hx : f.findSub i = some x) :
    (∀ ρ₁ ρ₂ : ℕ → ℕ, (∀ a ∈ i :: x.2.idxs, ∀ b ∈ i :: x.2.idxs, ρ₂ (ρ₁ a) = ρ₂ (ρ₁ b) → a = b) →
      (∀ a ∈ i :: x.2.idxs, ρ₂ (ρ₁ a) ≠ 0) →
      ∃ g', gGetSubtree (graphOf f) i ρ₁ ρ₂ = some g' ∧
        g'.nodes.Perm (graphOf (mapIdx (fun a => ρ₂ (ρ₁ a)) (.cons x.1 x.2 .nil))).nodes ∧
        g'.edges.Perm (graphOf (mapIdx (fun a => ρ₂ (ρ₁ a)) (.cons x.1 x.2 .nil))).edges) ∧
    ∃ g', gGetSubtree (graphOf f) i id (reindexMap (.cons x.1 x.2 .nil) 1) = some g' ∧
      g'.nodes.Perm (graphOf (Store.reindex (.cons x.1 x.2 .nil) 1).1).nodes ∧
      g'.edges.Perm (graphOf (Store.reindex (.cons x.1 x.2 .nil) 1).1).edges :=
  ⟨fun _ _ hinj hne0 => Graph.graph_getSubtree hn h0 hx hinj hne0, Graph.graph_getSubtree_struct hn h0 hx⟩

/-- `addSubtree`: `append` (parent = virtual root) / `graftAt` of the re-indexed subtree, with the renaming
`reindex … c` applies (`reindexMap`; the copy of the grafted tree's root gets one more unused index) -/
theorem graph_addSubtree {f sf : SF} {p c : ℕ} (hn : f.idxs.Nodup) (h0 : 0 ∉ f.idxs) (hsn : sf.idxs.Nodup)
    (hs0 : 0 ∉ sf.idxs) (hp : p = 0 ∨ p ∈ f.idxs) (hc : ∀ a ∈ f.idxs, a < c) (hc0 : 0 < c) :
    ∃ g', gAddSubtree (graphOf f) (graphOf sf) p (reindexMap sf c) = some g' ∧
      g'.nodes.Perm (graphOf (if p = 0 then (Store.reindex sf c).1.append f
        else SF.graftAt p (Store.reindex sf c).1 f)).nodes ∧
      g'.edges.Perm (graphOf (if p = 0 then (Store.reindex sf c).1.append f
        else SF.graftAt p (Store.reindex sf c).1 f)).edges :=
  Graph.graph_addSubtree_struct hn h0 hsn hs0 hp hc hc0

/-- `fromDict`: `buildSF` on the dictionary form of a well-formed store -/
theorem graph_fromDict {dt : Data} {s s' : Store} (hs : WF s ∧ Full s) (h : Store.fromDict dt s.toDict = some s') :
    (gFromDict s.toDict.edges (0 :: s.toDict.nodeIdxRev.map (·.1))).nodes.Perm (graphOf s'.forest).nodes ∧
      (gFromDict s.toDict.edges (0 :: s.toDict.nodeIdxRev.map (·.1))).edges.Perm (graphOf s'.forest).edges :=
  Graph.graph_fromDict hs h

/-- **every step of the store model is simulated by graph-level operations.**  `graphsOf sys` = the graphs of
the live stores; `GEquiv` = same live set, same edge multiset.  Whatever edit `Store.step` performs on well-formed
stores, there are legal graph-level operations (none for the data-point edits, `relabel`, `update`; one otherwise,
with the indices the structural operation chose) that do not raise on `graphsOf sys` and end in the graphs of
the new stores — so along every store history the structural forest is a correct abstraction of the
primitive-level graph, and (`forest_step`) the graphs stay rooted forests. -/
theorem graph_step {dt : Data} {sys sys' : Sys} {op : Op} (hall : ∀ s ∈ sys, WF s ∧ Full s)
    (hstep : step dt sys op = some sys') :
    (∃ gops : List GOp, (∀ o ∈ gops, GLegal o) ∧ ∃ gs', gRun (graphsOf sys) gops = some gs' ∧
      List.Forall₂ GEquiv gs' (graphsOf sys')) ∧
    ((∀ g ∈ graphsOf sys, IsForest g) → ∀ g ∈ graphsOf sys', IsForest g) :=
  ⟨Graph.graph_step hall hstep, Graph.graph_step_forest hall hstep⟩

/-! non-vacuity: on the store `t2` of section 6 (clone 1 above clone 0); further concrete instances with the
graphs written out are at the end of `Proofs/GraphOfCreate(2)`, `GraphOfRemove`, `GraphOfGetSub`, `GraphOfGraft` -/
section
open PhyModel.Store.C07Ex

example : t2.forest.idxs.Nodup ∧ 0 ∉ t2.forest.idxs ∧ graphOf t2.forest = { nodes := [0, 2, 1], edges := [(0, 2), (2, 1)] } ∧
    (t2.forest.findSub 2).isSome = true ∧ 1 ∈ t2.forest.idxs ∧
    gRemoveSubtree (graphOf t2.forest) 1 = some { nodes := [0, 2], edges := [(0, 2)] } ∧
    graphOf (t2.forest.removeSub 1) = { nodes := [0, 2], edges := [(0, 2)] } := by decide +kernel
example : WF t2 ∧ Full t2 ∧ (t2.createRootNode dt [1] [3]).isSome = true ∧ (Store.fromDict dt t2.toDict).isSome = true ∧
    (∀ a ∈ t2.forest.idxs, a < t2.fresh) ∧ 0 < t2.fresh ∧ sub.forest.idxs.Nodup ∧ 0 ∉ sub.forest.idxs ∧
    sub.forest.idxs = [1] := by
  refine ⟨(wfB_iff _).1 (by decide +kernel), by unfold Full; decide +kernel, ?_⟩
  decide +kernel
-- graph_step: the hypotheses hold on `[t2, sub]` (`Inv` ⊇ `WF ∧ Full`, section 6) and `.rmSub 0 1` does not raise
example : (step dt [t2, sub] (.rmSub 0 1)).isSome = true ∧ graphsOf [t2, sub] =
    [{ nodes := [0, 2, 1], edges := [(0, 2), (2, 1)] }, { nodes := [0, 1], edges := [(0, 1)] }] := by decide +kernel

end
end Link
end GraphShape

end PhyModel.Props.C07
