import PhyModel.Proofs.StoreInv
/-! C07 — every tree is a well-formed forest and no move loses or duplicates data.
Placeholder: the property theorems (`wf_step`, `wf_reachable`, `data_conserved`) are written by the
proof slice and merged by the lead; the check `./check C07` meanwhile runs the model/code
correspondence and the direct oracles of harness/props/c07.py. -/
namespace PhyModel.Props.C07
-- OBLIGATION-OPEN wf_reachable: proof slice not merged yet
end PhyModel.Props.C07
