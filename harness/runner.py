"""Generic check runner: proof obligations (Lean build + axiom audit), corpus + generated
correspondence cases, direct oracle, verdict, evidence.  See DESIGN.md section 3.4."""
import argparse
import glob
import hashlib
import importlib
import json
import os
import random
import re
import sys
import time
import traceback
from collections import Counter
from concurrent.futures import ProcessPoolExecutor
import multiprocessing

from . import leanio

ROOT = os.path.dirname(os.path.dirname(os.path.abspath(__file__)))
# evidence / replays go to /verif unless redirected (used when checks are run against seeded changes)
OUT = os.environ.get("VERIF_OUT", ROOT)
ALLOWED_AXIOMS = {"propext", "Classical.choice", "Quot.sound"}
FORBIDDEN = re.compile(r"\bsorry\b|\badmit\b|^\s*axiom\s|native_decide|bv_decide|implemented_by|\bunsafe\s|maxHeartbeats\s+0\b", re.M)
BASE_TRUSTED = [
    "Lean 4.33 kernel (lake build of the property module; axioms printed per theorem and required to be a subset of propext, Classical.choice, Quot.sound)",
    "hand-written Lean model tied to /repo by the correspondence check of this run (harness/, real phyclone imported in-process from /repo's working tree)",
    "Lean compiler / interpreter used to execute the model in the correspondence check",
    "enumerating random generator (harness/enumrng.py) stands in for numpy.random.Generator: uniformity of numpy's shuffle/choice/integers/multinomial assumed",
]


def digest(obj):
    return hashlib.sha1(json.dumps(obj, sort_keys=True, default=str).encode()).hexdigest()[:16]


class Ctx:
    """Handed to a property module's check(); collects what happened."""

    def __init__(self, pid, tier, seed, lean=None):
        self.pid = pid
        self.tier = tier
        self.seed = seed
        self.lean = lean
        self.evaluations = 0
        self.distinct = set()
        self.samples = []
        self.stats = Counter()
        self.corr_failures = []
        self.oracle_failures = []
        self.known_hits = []
        self.partials = []  # (group key, payload) pairs reduced by the module's finalize()

    def ask(self, req):
        return self.lean.ask(req)

    def done(self, case, nontrivial=True, sample=None):
        self.evaluations += 1
        if nontrivial:
            self.distinct.add(digest(case))
        if len(self.samples) < 3:
            self.samples.append(sample if sample is not None else case)

    def stat(self, key, inc=1):
        self.stats[key] += inc

    def corr_fail(self, case, what, detail=None):
        self.corr_failures.append({"case": case, "what": what, "detail": detail})

    def oracle_fail(self, case, what, site, signature=None, detail=None):
        self.oracle_failures.append({"case": case, "what": what, "site": site, "signature": signature, "detail": detail})

    def partial(self, group, payload):
        self.partials.append([group, payload])

    def export(self):
        return {
            "partials": self.partials,
            "evaluations": self.evaluations,
            "distinct": sorted(self.distinct),
            "samples": self.samples,
            "stats": dict(self.stats),
            "corr_failures": self.corr_failures,
            "oracle_failures": self.oracle_failures,
        }

    def merge(self, d):
        self.evaluations += d["evaluations"]
        self.distinct.update(d["distinct"])
        for s in d["samples"]:
            if len(self.samples) < 3:
                self.samples.append(s)
        self.stats.update(d["stats"])
        self.corr_failures += d["corr_failures"]
        self.oracle_failures += d["oracle_failures"]
        self.partials += d.get("partials", [])


# ------------------------------------------------------------------------------- Lean obligations
def strip_comments(src):
    src = re.sub(r"/-.*?-/", "", src, flags=re.S)
    return re.sub(r"--.*", "", src)


def lean_sources():
    base = os.path.join(ROOT, "lean")
    return sorted(glob.glob(os.path.join(base, "PhyModel", "**", "*.lean"), recursive=True)) + [
        os.path.join(base, "Driver.lean"),
        os.path.join(base, "PhyModel.lean"),
    ]


def forbidden_tokens():
    hits = []
    for f in lean_sources():
        if not os.path.exists(f):
            continue
        m = FORBIDDEN.search(strip_comments(open(f).read()))
        if m:
            hits.append(f"{os.path.relpath(f, ROOT)}: {m.group(0).strip()}")
    return hits


def theorem_names(pid):
    f = os.path.join(ROOT, "lean", "PhyModel", "Props", f"{pid}.lean")
    if not os.path.exists(f):
        return []
    return re.findall(r"^theorem\s+([A-Za-z0-9_'.]+)", strip_comments(open(f).read()), flags=re.M)


def open_obligations(pid):
    """Lines `-- OBLIGATION-OPEN <name>: <what is missing>` in the property file."""
    f = os.path.join(ROOT, "lean", "PhyModel", "Props", f"{pid}.lean")
    if not os.path.exists(f):
        return []
    return re.findall(r"OBLIGATION-OPEN\s+([A-Za-z0-9_'.]+)\s*:\s*(.*)", open(f).read())


def check_obligations(pid, expected, thorough=False):
    """Returns dict(ok, obligations, discharged, problems, axioms, checker_cmd)."""
    res = {"ok": True, "problems": [], "axioms": {}, "obligations": 0, "discharged": 0}
    target = f"PhyModel.Props.{pid}"
    res["checker_cmd"] = f"cd lean && lake build {target} && lake env lean --stdin  # '#print axioms' for every theorem of Props/{pid}.lean"
    ok, log = leanio.build([target])
    if not ok:
        res["ok"] = False
        res["problems"].append("lake build " + target + " failed:\n" + log[-3000:])
    names = theorem_names(pid)
    missing = [t for t in expected if t not in names]
    if missing:
        res["ok"] = False
        res["problems"].append(f"property theorems missing from Props/{pid}.lean: {missing}")
    opens = open_obligations(pid)
    res["open"] = [f"{n}: {w}" for n, w in opens]
    res["obligations"] = len(set(names) | set(expected)) + len(opens)
    hits = forbidden_tokens()
    if hits:
        res["ok"] = False
        res["problems"].append("forbidden tokens in Lean sources: " + "; ".join(hits))
    if ok and names:
        src = f"import {target}\n" + "".join(f"#print axioms PhyModel.Props.{pid}.{n}\n" for n in names)
        p = leanio.subprocess.run(["lake", "env", "lean", "--stdin"], cwd=leanio.LEAN_DIR, input=src, text=True, stdout=leanio.subprocess.PIPE, stderr=leanio.subprocess.STDOUT)
        out = p.stdout
        for n in names:
            full = f"PhyModel.Props.{pid}.{n}"
            m = re.search(re.escape(f"'{full}'") + r" depends on axioms: \[([^\]]*)\]", out)
            if m:
                ax = {a.strip() for a in m.group(1).replace("\n", " ").split(",") if a.strip()}
            elif re.search(re.escape(f"'{full}'") + r" does not depend on any axioms", out):
                ax = set()
            else:
                res["ok"] = False
                res["problems"].append(f"no axiom report for {full}: {out[-500:]}")
                continue
            res["axioms"][n] = sorted(ax)
            if ax <= ALLOWED_AXIOMS and n in names:
                res["discharged"] += 1
            else:
                res["ok"] = False
                res["problems"].append(f"{full} depends on axioms {sorted(ax - ALLOWED_AXIOMS)}")
    if thorough and ok:
        rc, out = leanio.run(["lake", "env", "leanchecker", target], timeout=1500)
        res["leanchecker"] = "ok" if rc == 0 else out[-1500:]
        if rc != 0:
            res["ok"] = False
            res["problems"].append("leanchecker rejected " + target)
    return res


def effective_level(pid, declared):
    """A `proof` claim needs every obligation discharged: with open obligations (or no property
    theorem yet) the level reported is `other` (partial proof + correspondence)."""
    if declared == "proof" and (open_obligations(pid) or not theorem_names(pid)):
        return "other"
    return declared


# ------------------------------------------------------------------------------- known findings
def load_findings(pid):
    f = os.path.join(ROOT, "known_findings.json")
    if not os.path.exists(f):
        return []
    return [e for e in json.load(open(f))["findings"] if e["property"] == pid and e["status"] == "open"]


def finding_matches(entry, failure):
    if entry.get("site") != failure.get("site"):
        return False
    sig, want = failure.get("signature"), entry.get("signature")
    if isinstance(want, dict) and isinstance(sig, dict):
        for k, v in want.items():
            if k not in sig:
                return False
            if isinstance(v, list) and v and isinstance(v[0], (int, float)):
                if len(v) != len(sig[k]) or any(abs(a - b) > entry.get("tol", 1e-9) for a, b in zip(v, sig[k])):
                    return False
            elif sig[k] != v:
                return False
        return True
    return sig == want


# ------------------------------------------------------------------------------- workers
def _reset_phyclone_caches():
    """phyclone's memo tables are process-wide and keyed by array *bytes* (no shape): two cases with different grid shapes in
    one worker process can collide ((2,2) vs (1,4) grids with the same bytes).  One run of phyclone has one grid shape per
    process, so every case starts from cold tables, like a fresh process."""
    try:
        import sys
        if "phyclone" not in sys.modules:
            return
        from phyclone.tree import utils as tu
        for name in ("compute_log_S", "_convolve_two_children"):
            f = getattr(tu, name, None)
            if f is not None and hasattr(f, "cache_clear"):
                f.cache_clear()
        from phyclone.utils.dev import clear_proposal_dist_caches
        clear_proposal_dist_caches()
    except Exception:
        pass


def _worker(args):
    modname, pid, tier, seed, cases, deadline = args
    mod = importlib.import_module(modname)
    lean = leanio.Driver(do_build=False) if getattr(mod, "USES_MODEL", True) else None
    ctx = Ctx(pid, tier, seed, lean)
    skipped = 0
    for case in cases:
        if time.time() > deadline:
            skipped += 1
            continue
        try:
            _reset_phyclone_caches()
            mod.check(ctx, case)
        except leanio.ModelError as e:
            ctx.corr_fail(case, "model rejected the request", str(e))
        except Exception as e:  # harness error: surfaced, never swallowed
            ctx.stat("harness_errors")
            ctx.corr_fail(case, "harness exception", traceback.format_exc()[-2000:])
    if lean:
        lean.close()
    d = ctx.export()
    d["skipped"] = skipped
    return d


def load_corpus(pid):
    out = []
    for f in sorted(glob.glob(os.path.join(ROOT, "corpus", pid, "*.json"))):
        out.append(json.load(open(f)))
    return out


def write_replay(pid, payload):
    d = os.path.join(OUT, "replays")
    os.makedirs(d, exist_ok=True)
    path = os.path.join(d, f"{pid}_{digest(payload)}.json")
    json.dump(payload, open(path, "w"), indent=1, default=str)
    return os.path.relpath(path, OUT) if OUT == ROOT else path


def main(argv=None):
    ap = argparse.ArgumentParser()
    ap.add_argument("pid")
    ap.add_argument("--tier", default=os.environ.get("VERIF_TIER", "quick"), choices=["quick", "thorough"])
    ap.add_argument("--replay")
    ap.add_argument("--jobs", type=int, default=int(os.environ.get("VERIF_JOBS", "14")))
    a = ap.parse_args(argv)
    pid, tier = a.pid, a.tier
    try:
        seed = int(os.environ.get("VERIF_SEED", "0"))
    except ValueError:
        seed = 0
    t0 = time.time()
    modname = f"harness.props.{pid.lower()}"
    mod = importlib.import_module(modname)
    budget = getattr(mod, "BUDGET", {"quick": 100, "thorough": 900})[tier]
    deadline = t0 + budget

    if a.replay:
        case = json.load(open(a.replay))
        case = case.get("case", case)
        lean = leanio.Driver() if getattr(mod, "USES_MODEL", True) else None
        ctx = Ctx(pid, tier, seed, lean)
        if hasattr(mod, "replay"):
            mod.replay(ctx, case)  # e.g. a failure of a whole configuration: re-run all its start trees, then reduce
        else:
            mod.check(ctx, case)
            if hasattr(mod, "finalize"):
                mod.finalize(ctx)
        for f in ctx.oracle_failures:
            print("ORACLE-FAIL", json.dumps(f, default=str)[:2000])
        for f in ctx.corr_failures:
            print("CORR-FAIL", json.dumps(f, default=str)[:2000])
        if ctx.oracle_failures or ctx.corr_failures:
            print(f"VIOLATION property={pid} replay={a.replay}")
            return 1
        print("replay: property holds on this input")
        return 0

    # 1-2. proof obligations
    obl = check_obligations(pid, getattr(mod, "THEOREMS", []), thorough=(tier == "thorough"))

    # 3-4. corpus then generated cases
    drv_ok, drv_log = leanio.build(["driver"])
    if not drv_ok:
        obl["ok"] = False
        obl["problems"].append("model driver does not build:\n" + drv_log[-2000:])
    # the case budget starts here: building and auditing the proof obligations (slow on a cold machine: the first
    # import of the Mathlib modules after a restore can take minutes) must not eat the time meant for the cases
    deadline = time.time() + budget
    rnd = random.Random(seed * 7919 + 17)
    corpus = load_corpus(pid)
    cases = list(corpus) + list(mod.cases(tier, rnd))
    jobs = max(1, min(a.jobs, len(cases), getattr(mod, "MAX_JOBS", 16)))
    chunks = [cases[i::jobs] for i in range(jobs)]
    ctx = Ctx(pid, tier, seed)
    skipped = 0
    if jobs == 1:
        results = [_worker((modname, pid, tier, seed, chunks[0], deadline))]
    else:
        with ProcessPoolExecutor(max_workers=jobs, mp_context=multiprocessing.get_context("fork")) as ex:
            results = list(ex.map(_worker, [(modname, pid, tier, seed, c, deadline) for c in chunks]))
    for d in results:
        ctx.merge(d)
        skipped += d["skipped"]

    if hasattr(mod, "finalize"):
        try:
            mod.finalize(ctx)
        except Exception:
            ctx.corr_fail({}, "harness exception in finalize", traceback.format_exc()[-2000:])

    if os.environ.get("VERIF_DUMP"):
        json.dump({"oracle": ctx.oracle_failures, "corr": ctx.corr_failures}, open(os.environ["VERIF_DUMP"], "w"), indent=1, default=str)

    findings = load_findings(pid)
    new_fail, known = [], []
    for f in ctx.oracle_failures:
        hit = next((e for e in findings if finding_matches(e, f)), None)
        (known if hit else new_fail).append((f, hit))

    violation = None
    if new_fail:
        f = new_fail[0][0]
        if hasattr(mod, "shrink"):
            try:
                f = mod.shrink(f) or f
            except Exception:
                pass
        path = write_replay(pid, {"property": pid, "kind": "failing-input", **f})
        violation = f"VIOLATION property={pid} replay={path}"
    elif (not obl["ok"]) or ctx.corr_failures:
        # proof obligation or correspondence broke: search the implementation for a failing input
        found = None
        if hasattr(mod, "search"):
            lean = None
            sctx = Ctx(pid, tier, seed, lean)
            try:
                mod.search(sctx, [c["case"] for c in ctx.corr_failures], rnd, time.time() + getattr(mod, "SEARCH_BUDGET", 120))
            except Exception:
                sctx.stat("search_errors")
            for f in sctx.oracle_failures:
                if not any(finding_matches(e, f) for e in findings):
                    found = f
                    break
            ctx.stats.update({"search_" + k: v for k, v in sctx.stats.items()})
            ctx.stats["search_evaluations"] += sctx.evaluations
        if found:
            path = write_replay(pid, {"property": pid, "kind": "failing-input", **found})
            violation = f"VIOLATION property={pid} replay={path}"
        else:
            broken = {
                "property": pid,
                "kind": "obligation-or-correspondence-broken",
                "proof_obligation_problems": obl["problems"],
                "correspondence_failures": ctx.corr_failures[:5],
                "note": "no concrete failing input of the property itself was found by the search; the theorem / correspondence named here no longer checks, so the property is no longer shown to hold",
            }
            path = write_replay(pid, broken)
            violation = f"VIOLATION property={pid} replay={path} no-failing-input-found"

    # 6. evidence
    wall = time.time() - t0
    level = effective_level(pid, getattr(mod, "LEVEL", "proof"))
    cov = {
        "obligations": obl["obligations"],
        "discharged": obl["discharged"],
        "checker_cmd": obl["checker_cmd"],
        "trusted_base": BASE_TRUSTED + list(getattr(mod, "TRUSTED", [])),
        "theorems": obl["axioms"],
        "open_obligations": obl.get("open", []),
        "evaluations": ctx.evaluations,
        "distinct_nontrivial": len(ctx.distinct),
        "rule": getattr(mod, "RULE", ""),
        "samples": ctx.samples or [{"note": "no case evaluated"}],
        "input_distribution": dict(ctx.stats),
        "corpus_cases": len(corpus),
        "cases_skipped_on_budget": skipped,
        "correspondence_failures": len(ctx.corr_failures),
        "oracle_failures": len(ctx.oracle_failures),
        "known_findings_hit": [k[1]["id"] for k in known],
        "explanation": getattr(mod, "EXPLANATION", "") or ("theorems proved so far: %s; open obligations: %s; the executable Lean model is tied to the real code by the correspondence cases of this run and the property itself is evaluated by a direct oracle on the same cases" % (sorted(obl["axioms"]), obl.get("open", []))),
        "exhaustive": bool(getattr(mod, "EXHAUSTIVE", False)),
    }
    if "leanchecker" in obl:
        cov["leanchecker"] = obl["leanchecker"]
    ev = {
        "property_id": pid,
        "tier": tier,
        "seed": seed,
        "level": level,
        "coverage": cov,
        "assumptions": list(getattr(mod, "ASSUMPTIONS", [])),
        "wall_s": round(wall, 2),
        "violations": 1 if violation else 0,
    }
    os.makedirs(os.path.join(OUT, "evidence"), exist_ok=True)
    json.dump(ev, open(os.path.join(OUT, "evidence", f"{pid}.json"), "w"), indent=1, default=str)

    seen = set()
    for f, hit in known:
        if hit["id"] not in seen:
            seen.add(hit["id"])
            print(f"KNOWN-FINDING: property={pid} {hit['id']} {hit['what']}")
    print(f"{pid} {tier}: obligations {obl['discharged']}/{obl['obligations']} discharged, {ctx.evaluations} cases ({len(ctx.distinct)} distinct non-trivial), "
          f"{len(ctx.corr_failures)} correspondence failures, {len(ctx.oracle_failures)} oracle failures, {skipped} skipped, {wall:.1f}s")
    if not obl["ok"]:
        for p in obl["problems"]:
            print("OBLIGATION-PROBLEM:", p[:1500])
    for c in ctx.corr_failures[:3]:
        print("CORRESPONDENCE:", json.dumps(c, default=str)[:1500])
    if violation:
        print(violation)
        return 1
    return 0


if __name__ == "__main__":
    try:
        sys.exit(main())
    except SystemExit:
        raise
    except Exception:
        traceback.print_exc()
        sys.exit(2)
