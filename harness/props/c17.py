"""C17 — input loading is order-independent and filters exactly as documented."""
import contextlib
import io
import math
import os
import random
import tempfile
import time
from collections import Counter, defaultdict
from fractions import Fraction

import numpy as np

from ..leanio import ModelError

ID = "C17"
LEVEL = "proof"
THEOREMS = [
    "load_perm", "loadData_perm", "loadClustered_perm", "kept_iff", "load_ok_iff", "numbering_sorted",
    "numbering_sorted_clusters", "cluster_members", "defaults", "major_lt_minor_rejected", "degenerate_rejected",
]
BUDGET = {"quick": 100, "thorough": 700}
EXPLANATION = ("All clauses of the property are theorems about the loader model (Model/Loader.lean): order independence for every "
               "permutation of the rows (load_perm and its load_data / cluster-file variants), the keep/drop criterion on the raw "
               "table (kept_iff, with load_ok_iff showing its hypothesis is exactly the property's stated domain), rejection of the "
               "offset mix and of major < minor (degenerate_rejected, major_lt_minor_rejected), numbering 0..n-1 in strictly "
               "increasing identifier order with one entry per sample in strictly increasing sample order (numbering_sorted, "
               "numbering_sorted_clusters, cluster_members), and the defaults (defaults).  What the theorems do not cover is "
               "pandas itself (file parsing, type inference of identifier columns, group-by/sort semantics) and the numba "
               "likelihood code: the model is tied to them by the correspondence on generated files, and the direct oracle "
               "re-derives every expected result, including the likelihood rows, from the property text.")
RULE = ("random input tables (1-4 samples, 1-8 mutations quick; up to 6 x 24 thorough): every (mutation, sample) cell starts "
        "with one row, then per-mutation perturbations (rows missing in some samples, major_cn = 0, duplicated rows, duplicate whose "
        "extra copy has major_cn = 0, triple rows, extra-row/missing-row offset mix, major < minor), optional columns "
        "tumour_content / error_rate present or absent, tab or comma separated, columns in random order, rows shuffled, "
        "sample ids lexicographic-vs-numeric traps (S9/S10, 9/10), mutation ids fixed width / variable width / mixed case; "
        "half the tables come with a cluster file (numeric cluster ids crossing 9/10, optional outlier_prob column, optional "
        "per-sample duplicate lines, clusters whose members are all filtered out, rarely a kept mutation without a cluster). "
        "18 hand-written tables (one per clause and per exclusion) run on every seed.  "
        "Every table is written to a temporary directory and loaded by the real load_pyclone_data and load_data; the result "
        "(samples, mutation names and order, per-sample ref/alt/genotype rows/VAF rows/tumour content, data point idx/name, "
        "cluster membership via summed likelihood grids, cluster outlier probabilities) or the exception class is compared "
        "with the Lean model; independently a direct oracle recomputes the expected result from the property text (dict "
        "mutation -> per-sample usable rows, binomial likelihood recomputed with math.lgamma) and the same table is reloaded "
        "under 3 (quick) / 5 (thorough) further row permutations, which must give identical results.  Special kinds: "
        "'none_kept' (every mutation incomplete, regression for the repaired empty-frame crash), 'intids' (integer-looking "
        "identifiers, oracle only: pandas sorts them numerically).  Non-trivial = at least 2 samples, at least one mutation "
        "kept and one dropped; distinct by case digest.")
TRUSTED = [
    "pandas parsing (read_table/read_csv type inference, NA strings), group-by / sort_values / drop_duplicates / value_counts "
    "semantics are modelled as list functions, not verified; tied to the code by the correspondence of this run",
    "Python str order = Lean String order (code point lexicographic) for the generated ASCII identifiers",
    "likelihood grids (numba emission code) are used only to observe which rows went where; their values are C05's concern "
    "(the oracle recomputes the binomial density independently to 1e-7)",
]
ASSUMPTIONS = [
    "identifiers are strings that pandas keeps as strings (not all integer/float-looking, not NA-like); integer-looking "
    "identifier columns are sorted numerically by pandas — observed by the 'intids' cases, outside the Lean model",
    "counts and copy numbers are non-negative integers; tumour_content in (0,1], error_rate in (0,0.5)",
    "reading of 'exactly one row for it with a positive major copy number': rows with major_cn = 0 are discarded first, "
    "then exactly one remaining row per sample is required (a duplicate whose extra copy has major_cn = 0 is kept, as the code does)",
    "cluster file: one cluster per mutation (conflicting assignments are outside the property), loss-probability "
    "assignment from chromosome positions switched off (assign_loss_prob = False)",
]
SEARCH_BUDGET = 60
MAX_JOBS = 6
TOL = 1e-9

COLS = ["mutation_id", "sample_id", "ref_counts", "alt_counts", "major_cn", "minor_cn", "normal_cn"]


# ------------------------------------------------------------------------------------- generation
def _mut_ids(rnd, n):
    style = rnd.choice(["fixed", "fixed", "var", "mixed", "chr"])
    if style == "fixed":
        base = rnd.randint(0, 990)
        return [f"m{base + i:03d}" for i in range(n)]
    if style == "var":  # m9 / m10 / m100: lexicographic, not numeric
        pool = [f"m{i}" for i in list(range(7, 13)) + list(range(98, 103)) + list(range(1, 4)) + list(range(19, 22))]
    elif style == "mixed":
        pool = ["A", "B", "a", "b", "Z", "_x", "a_1", "a-1", "a.1", "a10", "a9", "aa", "Aa", "ab", "TP53", "tp53", "KRAS_G12D", "x1", "X1", "x10", "x2"]
    else:
        pool = [f"chr{c}:{p}:{a}" for c in ("1", "2", "10", "X") for p in (100, 99, 1000) for a in ("A", "T")]
    rnd.shuffle(pool)
    return pool[:n] if n <= len(pool) else pool + [f"zz{i:03d}" for i in range(n - len(pool))]


def _sample_ids(rnd, n):
    style = rnd.choice(["S", "S", "num", "name", "mixed"])
    if style == "S":
        start = rnd.choice([1, 8, 9])
        ids = [f"S{start + i}" for i in range(n)]
    elif style == "num":  # numeric-looking: pandas parses ints, the loader casts back to str
        start = rnd.choice([1, 8, 9, 98])
        ids = [str(start + i) for i in range(n)]
    elif style == "name":
        pool = ["primary", "relapse", "met_liver", "met_lung", "Normal_adj", "PDX", "autopsy1", "autopsy10", "autopsy2"]
        rnd.shuffle(pool)
        ids = pool[:n]
    else:
        pool = ["T1", "t1", "T10", "T2", "a", "B", "_s", "s_"]
        rnd.shuffle(pool)
        ids = pool[:n]
    rnd.shuffle(ids)
    return ids


def _base_row(rnd, m, s):
    major = rnd.choice([1, 1, 2, 2, 3, 4])
    minor = rnd.randint(0, major)
    normal = rnd.choice([2, 2, 2, 1])
    if rnd.random() < 0.1:
        minor, normal = 0, major if major <= 2 else 2  # normal == total: the extra genotype row merges
    tc = rnd.choice(["1.0", "0.75", "0.5", "0.9", "0.33", "0.625"])
    err = rnd.choice(["0.001", "0.01", "0.002", "0.0005", "0.05"])
    return [m, s, rnd.randint(0, 120), rnd.randint(0, 60), major, minor, normal, tc, err]


def gen_table(rnd, tier, force=None):
    big = tier == "thorough"
    nS = rnd.choice([1, 2, 2, 3, 3, 4]) if not (big and rnd.random() < 0.3) else rnd.randint(1, 6)
    nM = rnd.randint(2, 24 if big and rnd.random() < 0.3 else 8) if rnd.random() < 0.9 else 1
    if force == "none_kept":
        nS = max(nS, 2)
    muts, samples = _mut_ids(rnd, nM), _sample_ids(rnd, nS)
    rows = []
    p_pert = rnd.choice([0.0, 0.3, 0.4, 0.5, 0.6, 0.8, 0.8])
    rare = rnd.choice(["offset", "mlm", "both"]) if rnd.random() < 0.2 else None  # tables with offset mixes / major < minor
    for mi, m in enumerate(muts):
        cells = {s: [_base_row(rnd, m, s)] for s in samples}
        perturb = rnd.random() < p_pert
        if force == "none_kept":
            perturb = True
        elif mi == 0 and rnd.random() < 0.8:
            perturb = False
        if perturb:
            kinds = ["missing", "zero", "dup", "dupzero", "triple", "dupdiff"]
            if force == "none_kept":
                kinds = ["missing", "zero", "dup", "triple", "dupdiff"]
            if rare and force is None:
                kinds += {"offset": ["offset"] * 3, "mlm": ["mlm"] * 3, "both": ["offset", "offset", "mlm", "mlm"]}[rare]
            k = rnd.choice(kinds)
            s = rnd.choice(samples)
            if k == "missing":
                for s2 in rnd.sample(samples, rnd.randint(1, max(1, nS - 1))):
                    cells[s2] = []
                if force == "none_kept" and nS == 1:
                    cells[s] = []
            elif k == "zero":
                for s2 in rnd.sample(samples, rnd.randint(1, nS)):
                    cells[s2][0][4] = 0
                    cells[s2][0][5] = 0
            elif k == "dup":
                cells[s].append(list(cells[s][0]))
            elif k == "dupdiff":
                cells[s].append(_base_row(rnd, m, s))
            elif k == "dupzero":
                extra = _base_row(rnd, m, s)
                extra[4] = extra[5] = 0
                cells[s].append(extra)
            elif k == "triple":
                cells[s] += [_base_row(rnd, m, s), list(cells[s][0])]
            elif k == "offset" and nS >= 2:
                s2 = rnd.choice([x for x in samples if x != s])
                cells[s].append(_base_row(rnd, m, s))
                cells[s2] = []
            elif k == "mlm":
                r = cells[s][0]
                r[4], r[5] = 1, rnd.randint(2, 3)
                if rnd.random() < 0.3:  # ... in a mutation that is dropped anyway
                    s2 = rnd.choice(samples)
                    cells[s2] = [] if s2 != s or nS == 1 else cells[s2]
        for s in samples:
            rows += cells[s]
    if force is None and nS >= 2 and rnd.random() < 0.04:  # excluded kind: a sample without any usable row
        s = rnd.choice(samples)
        for r in rows:
            if r[1] == s:
                r[4] = r[5] = 0
    rnd.shuffle(rows)
    case = {
        "kind": force or "table",
        "sep": rnd.choice(["\t", "\t", ","]),
        "hasTC": rnd.random() < 0.5,
        "hasErr": rnd.random() < 0.5,
        "colseed": rnd.randrange(1 << 20),
        "extra_col": rnd.random() < 0.2,
        "rows": rows,
        "clusters": None,
        "op_prob": rnd.choice(["0.0001", "0.0001", "0", "0.01"]),
        "grid": rnd.choice([3, 5, 8]),
        "perms": [rnd.randrange(1 << 30) for _ in range(5 if big else 3)],
    }
    if force == "none_kept":
        case["hasTC"], case["hasErr"] = rnd.choice([(False, False), (True, False), (False, True)])
    if rnd.random() < 0.5 and force is None:
        ncl = rnd.randint(1, max(1, min(nM, 5)))
        cids = rnd.sample([0, 1, 2, 3, 7, 8, 9, 10, 11, 12, 20, 100], ncl)
        has_p = rnd.random() < 0.5
        cprob = {c: rnd.choice(["0.0", "0.05", "0.2", "0.0001", "0.5"]) for c in cids}
        cl = []
        for m in muts:
            if rnd.random() < 0.03:
                continue  # a mutation the cluster file does not mention
            c = rnd.choice(cids)
            cl.append([m, c, cprob[c] if has_p else None])
        if rnd.random() < 0.3 or not cl:
            c = rnd.choice(cids)
            cl.append(["not_in_table", c, cprob[c] if has_p else None])
        rnd.shuffle(cl)
        case["clusters"] = cl
        case["cluster_per_sample_lines"] = rnd.random() < 0.3
    return case


def gen_intids(rnd):
    ids = rnd.sample([1, 2, 9, 10, 11, 99, 100, 101, 1000], rnd.randint(2, 6))
    samples = _sample_ids(rnd, rnd.randint(1, 3))
    rows = [_base_row(rnd, m, s) for m in ids for s in samples]
    drop = rnd.choice(ids)
    if len(samples) > 1:
        rows = [r for r in rows if not (r[0] == drop and r[1] == samples[0])]
    rnd.shuffle(rows)
    return {"kind": "intids", "sep": "\t", "hasTC": False, "hasErr": True, "colseed": 0, "extra_col": False, "rows": rows,
            "clusters": None, "op_prob": "0.0001", "grid": 3, "perms": [rnd.randrange(1 << 30) for _ in range(2)]}


def _fixed(rows, **kw):
    c = {"kind": "table", "sep": "\t", "hasTC": False, "hasErr": False, "colseed": 7, "extra_col": False, "rows": rows,
         "clusters": None, "op_prob": "0.0001", "grid": 3, "perms": [11, 12, 13]}
    c.update(kw)
    return c


def fixed_cases():
    """Hand-written tables run on every seed: one per clause of the property and per exclusion."""
    R = lambda m, s, major=1, minor=1, ref=10, alt=5, normal=2, tc="0.75", err="0.01": [m, s, ref, alt, major, minor, normal, tc, err]
    full = [R(m, s, ref=10 + i, alt=3 + j) for i, m in enumerate(["m2", "m10", "m1"]) for j, s in enumerate(["S2", "S10", "S1"])]
    return [
        _fixed(full),                                                                    # lexicographic order of ids and samples
        _fixed(full, sep=",", hasTC=True, hasErr=True),
        _fixed(full + [R("m3", "S1"), R("m3", "S2")]),                                    # missing in one sample
        _fixed(full + [R("m3", "S1"), R("m3", "S2"), R("m3", "S10", major=0, minor=0)]),   # zero major copy number in one sample
        _fixed(full + [R("m3", "S1"), R("m3", "S2"), R("m3", "S10"), R("m3", "S10")]),     # duplicated
        _fixed(full + [R("m3", "S1"), R("m3", "S2"), R("m3", "S10"), R("m3", "S10", major=0, minor=0)]),  # duplicate with major 0: kept
        _fixed(full + [R("m3", "S1"), R("m3", "S1"), R("m3", "S2")]),                      # offset mix, duplicate first: ValueError
        _fixed(full + [R("m3", "S2"), R("m3", "S10"), R("m3", "S10")]),                    # offset mix, missing first: KeyError
        _fixed(full + [R("m0", "S1"), R("m0", "S2", major=1, minor=2), R("m0", "S10")]),   # major < minor in a kept mutation
        _fixed(full + [R("m0", "S1"), R("m0", "S2", major=1, minor=2)]),                   # major < minor in a dropped mutation: loads
        _fixed(full + [R("m0", "S1", major=2, minor=2), R("m0", "S2", major=2, minor=0, normal=2), R("m0", "S10", major=1, minor=0, normal=1)]),
        _fixed([R("m1", "S1"), R("m1", "S2", major=0, minor=0), R("m2", "S1")]),           # excluded: a sample without usable row
        _fixed([R("m1", "S1"), R("m2", "S2")], kind="none_kept"),                          # nothing kept, optional columns absent
        _fixed([R("m1", "S1"), R("m2", "S2")], kind="none_kept", hasTC=True),
        _fixed(full, clusters=[["m1", 10, None], ["m2", 9, None], ["m10", 10, None], ["gone", 3, None]]),
        _fixed(full + [R("m3", "S1")], clusters=[["m1", 10, "0.2"], ["m2", 9, "0.0"], ["m10", 10, "0.2"], ["m3", 4, "0.1"]], cluster_per_sample_lines=True),
        _fixed(full, clusters=[["m1", 10, None], ["m2", 9, None]]),                        # kept mutation without cluster: KeyError
        _fixed(full, clusters=[["m1", 1, None], ["m2", 0, None], ["m10", 1, None]], op_prob="0"),
    ]


def cases(tier, rnd):
    out = fixed_cases()
    n = 180 if tier == "quick" else 3000
    for _ in range(n):
        out.append(gen_table(rnd, tier))
    for _ in range(10 if tier == "quick" else 60):
        out.append(gen_table(rnd, tier, force="none_kept"))
    for _ in range(3 if tier == "quick" else 20):
        out.append(gen_intids(rnd))
    return out


# ------------------------------------------------------------------------------------- real code
def write_table(path, case, rows):
    cols = list(COLS)
    if case["hasTC"]:
        cols.append("tumour_content")
    if case["hasErr"]:
        cols.append("error_rate")
    if case.get("extra_col"):
        cols.append("variant_class")
    order = list(cols)
    random.Random(case["colseed"]).shuffle(order)
    sep = case["sep"]
    with open(path, "w") as f:
        f.write(sep.join(order) + "\n")
        for r in rows:
            d = dict(zip(COLS + ["tumour_content", "error_rate"], r))
            d["variant_class"] = "SNV"
            f.write(sep.join(str(d[c]) for c in order) + "\n")


def write_clusters(path, case, cl, samples_for_lines):
    per_sample = case.get("cluster_per_sample_lines")
    has_p = any(c[2] is not None for c in cl)
    with open(path, "w") as f:
        hdr = ["mutation_id"] + (["sample_id"] if per_sample else []) + ["cluster_id"] + (["outlier_prob"] if has_p else []) + (["cellular_prevalence"] if per_sample else [])
        f.write("\t".join(hdr) + "\n")
        for m, c, p in cl:
            for s in (samples_for_lines if per_sample else [None]):
                line = [m] + ([s] if per_sample else []) + [str(c)] + ([p] if has_p else []) + (["0.5"] if per_sample else [])
                f.write("\t".join(line) + "\n")


def run_real(tmp, case, rows, cl, tag):
    """Returns dict(pyclone=..., data=...) where each is ('ok', value) or ('exc', class name, args)."""
    from phyclone.data.pyclone import load_data, load_pyclone_data

    path = os.path.join(tmp, f"in_{tag}" + (".csv" if case["sep"] == "," else ".tsv"))
    write_table(path, case, rows)
    cpath = None
    if cl is not None:
        cpath = os.path.join(tmp, f"cl_{tag}.tsv")
        write_clusters(cpath, case, cl, sorted({str(r[1]) for r in rows}) or ["S"])
    res = {}
    sink = io.StringIO()
    with contextlib.redirect_stdout(sink):
        try:
            data, samples = load_pyclone_data(path)
            res["pyclone"] = ("ok", snapshot_pyclone(data, samples), data)
        except Exception as e:  # noqa: the class is what is compared
            res["pyclone"] = ("exc", type(e).__name__, [str(a) for a in e.args])
        try:
            dps, samples = load_data(path, np.random.default_rng(0), 0.01, 0.4, False, cluster_file=cpath, density="binomial",
                                     grid_size=case["grid"], outlier_prob=float(case["op_prob"]), precision=400)
            res["data"] = ("ok", [(dp.idx, dp.name, np.array(dp.value), float(dp.outlier_prob), float(dp.outlier_prob_not)) for dp in dps], list(samples))
        except Exception as e:  # noqa
            res["data"] = ("exc", type(e).__name__, [str(a) for a in e.args])
    return res


def snapshot_pyclone(data, samples):
    out = []
    for name, dp in data.items():
        ents = []
        for sd in dp.sample_data_points:
            ents.append({"a": int(sd.a), "b": int(sd.b), "cn": np.array(sd.cn).tolist(), "mu": np.array(sd.mu).tolist(),
                         "log_pi": np.array(sd.log_pi).tolist(), "t": float(sd.t)})
        out.append((name, list(dp.samples), ents))
    return {"samples": list(samples), "muts": out}


# ------------------------------------------------------------------------------------- oracle (no model)
def log_binom_grid(row, tc, err, G):
    """Independent recomputation of the PyClone binomial density on the CCF grid for one table row."""
    _, _, a, b, major, minor, normal = row[:7]
    total = major + minor
    geno = [((normal, normal, total), min(1 - err, x / total)) for x in range(1, major + 1)]
    if (normal, total, total) != (normal, normal, total):
        geno.append(((normal, total, total), min(1 - err, 1 / total)))
    n = a + b
    lc = math.lgamma(n + 1) - math.lgamma(b + 1) - math.lgamma(a + 1)
    out = []
    for i in range(G):
        f = i / (G - 1)
        pri = (1 - tc, tc * (1 - f), tc * f)
        terms = []
        for cn, v in geno:
            mu = (err, err, v)
            num = sum(pri[k] * cn[k] * mu[k] for k in range(3))
            den = sum(pri[k] * cn[k] for k in range(3))
            p = num / den
            terms.append(-math.log(len(geno)) + lc + b * math.log(p) + a * math.log1p(-p))
        mx = max(terms)
        out.append(mx + math.log(sum(math.exp(t - mx) for t in terms)))
    return out


def expected(case, rows):
    """What the property text says the loader must produce.  Returns dict with 'excluded' reason or
    'error' expectation or the expected result."""
    usable = [r for r in rows if r[4] > 0]
    all_samples = sorted({str(r[1]) for r in rows})
    samples = sorted({str(r[1]) for r in usable})
    exp = {"samples": samples}
    if samples != all_samples or not rows:
        exp["excluded"] = "a sample keeps no usable row"
    per = defaultdict(lambda: defaultdict(list))
    for r in usable:
        per[r[0]][str(r[1])].append(r)
    kept, degenerate = {}, []
    for m, d in per.items():
        counts = [len(d.get(s, [])) for s in samples]
        if all(c == 1 for c in counts):
            kept[m] = [d[s][0] for s in samples]
        elif sum(counts) == len(samples):
            degenerate.append(m)
    exp["degenerate"] = degenerate
    exp["kept"] = kept
    exp["mlm"] = [m for m, rs in kept.items() if any(r[4] < r[5] for r in rs)]
    return exp


def close(x, y, tol=TOL):
    return abs(x - y) <= tol * max(1.0, abs(x), abs(y))


def oracle_check(ctx, case, rows, real, exp, where, site_prefix="pyclone"):
    """Judge the real result against the property statement.  Returns False when a failure was reported."""
    kind, *rest = real["pyclone"]
    key = sorted if case["kind"] != "intids" else (lambda xs: sorted(xs, key=int))
    if exp["degenerate"] or exp["mlm"]:
        if kind != "exc":
            ctx.oracle_fail(case, f"{where}: table with " + ("an extra/missing-row offset mix" if exp["degenerate"] else "major_cn < minor_cn in a kept mutation") + " was loaded without an error",
                            "pyclone.load_pyclone_data", "accepted-invalid", {"degenerate": exp["degenerate"], "mlm": exp["mlm"]})
            return False
        if exp["mlm"] and not exp["degenerate"] and rest[0] != "MajorCopyNumberError":
            ctx.oracle_fail(case, f"{where}: major_cn < minor_cn rejected with {rest[0]} instead of MajorCopyNumberError",
                            "pyclone.get_major_cn_prior", "wrong-error", rest)
            return False
        return True
    if "excluded" in exp:
        return True
    if kind == "exc":
        if not exp["kept"] and rest[0] == "ValueError":  # the repaired empty-frame crash (fix 5a052d9), kept as a regression signature
            ctx.oracle_fail(case, f"{where}: table in which no mutation survives the filters is rejected with ValueError instead of loading zero data points",
                            "pyclone._process_required_cols_on_df", "none-kept-crash", rest)
        else:
            ctx.oracle_fail(case, f"{where}: valid table rejected with {rest[0]}", "pyclone.load_pyclone_data", "crash-" + rest[0], rest)
        return False
    snap = rest[0]
    names = key(exp["kept"].keys())
    if snap["samples"] != exp["samples"]:
        ctx.oracle_fail(case, f"{where}: samples {snap['samples']} != sorted sample ids {exp['samples']}", "pyclone.load_pyclone_data", "samples")
        return False
    got = [n for n, _, _ in snap["muts"]]
    if [str(g) for g in got] != [str(n) for n in names]:
        sig = "kept-set" if sorted(map(str, got)) != sorted(map(str, names)) else "order"
        ctx.oracle_fail(case, f"{where}: kept mutations {got} != expected {names}", "pyclone.load_pyclone_data", sig)
        return False
    tcd = (lambda r: float(r[7])) if case["hasTC"] else (lambda r: 1.0)
    erd = (lambda r: float(r[8])) if case["hasErr"] else (lambda r: 0.001)
    for (n, ss, ents), m in zip(snap["muts"], names):
        if ss != exp["samples"] or len(ents) != len(exp["samples"]):
            ctx.oracle_fail(case, f"{where}: mutation {m}: per-sample vector not aligned with the sorted samples", "pyclone._create_loaded_pyclone_data_dict", "sample-vector")
            return False
        for s, e, r in zip(exp["samples"], ents, exp["kept"][m]):
            total = r[4] + r[5]
            ok = (e["a"] == r[2] and e["b"] == r[3] and all(row[2] == total and row[0] == r[6] for row in e["cn"]))
            if not ok:
                ctx.oracle_fail(case, f"{where}: mutation {m} sample {s}: entry does not come from that sample's row", "pyclone._create_loaded_pyclone_data_dict", "wrong-row", {"entry": e, "row": r})
                return False
            if not close(e["t"], tcd(r), 1e-12):
                ctx.oracle_fail(case, f"{where}: mutation {m} sample {s}: tumour content {e['t']} != {tcd(r)}", "pyclone._process_required_cols_on_df", "tumour-content")
                return False
            if not all(close(row[0], erd(r), 1e-12) and close(row[1], erd(r), 1e-12) for row in e["mu"]):
                ctx.oracle_fail(case, f"{where}: mutation {m} sample {s}: error rate {e['mu'][0][:2]} != {erd(r)}", "pyclone._process_required_cols_on_df", "error-rate")
                return False
    # load_data: numbering, names, one likelihood row per sample in sorted sample order
    dk, *drest = real["data"]
    cl = case.get("clusters")
    if cl is None:
        groups = [(str(m), [m]) for m in names]
    else:
        lut = {}
        for m, c, _ in cl:
            lut[m] = c
        missing = [m for m in names if m not in lut]
        if missing:
            if dk != "exc":
                ctx.oracle_fail(case, f"{where}: kept mutation {missing} has no cluster but load_data returned", "pyclone.load_data", "accepted-invalid")
                return False
            return True
        by = defaultdict(list)
        for m in names:
            by[lut[m]].append(m)
        groups = [(str(c), by[c]) for c in sorted(by)]
    if dk == "exc":
        ctx.oracle_fail(case, f"{where}: load_data rejected a valid table with {drest[0]}", "pyclone.load_data", "crash-" + drest[0], drest)
        return False
    dps, dsamples = drest
    if dsamples != exp["samples"]:
        ctx.oracle_fail(case, f"{where}: load_data samples {dsamples}", "pyclone.load_data", "samples")
        return False
    if [d[0] for d in dps] != list(range(len(groups))) or [str(d[1]) for d in dps] != [g[0] for g in groups]:
        ctx.oracle_fail(case, f"{where}: data points {[(d[0], d[1]) for d in dps]} != numbering 0..n-1 over sorted identifiers {[g[0] for g in groups]}",
                        "pyclone.load_data", "numbering")
        return False
    G = case["grid"]
    for (idx, name, val, _, _), (_, members) in zip(dps, groups):
        if val.shape != (len(exp["samples"]), G):
            ctx.oracle_fail(case, f"{where}: data point {name}: grid shape {val.shape}", "pyclone.load_data", "shape")
            return False
        for si, s in enumerate(exp["samples"]):
            want = [0.0] * G
            for m in members:
                r = exp["kept"][m][si]
                g = log_binom_grid(r, tcd(r), erd(r), G)
                want = [w + x for w, x in zip(want, g)]
            if not all(close(float(val[si, k]), want[k], 1e-7) for k in range(G)):
                ctx.oracle_fail(case, f"{where}: data point {name}: likelihood row {si} is not the row of sample {s}" + (" summed over the cluster's kept mutations" if cl is not None else ""),
                                "pyclone.load_data", "likelihood-row", {"code": [float(x) for x in val[si]], "expected": want})
                return False
    return True


def same_result(a, b):
    """Exact equality of two real results (permutation test)."""
    if a["pyclone"][0] != b["pyclone"][0] or a["data"][0] != b["data"][0]:
        return False, "one order loads, the other raises"
    if a["pyclone"][0] == "exc":
        if a["pyclone"][1] != b["pyclone"][1]:
            return False, f"exception class differs: {a['pyclone'][1]} vs {b['pyclone'][1]}"
    elif a["pyclone"][1] != b["pyclone"][1]:
        return False, "load_pyclone_data result differs"
    if a["data"][0] == "exc":
        if a["data"][1] != b["data"][1]:
            return False, f"load_data exception class differs: {a['data'][1]} vs {b['data'][1]}"
        return True, ""
    da, db = a["data"], b["data"]
    if da[2] != db[2] or [(d[0], d[1]) for d in da[1]] != [(d[0], d[1]) for d in db[1]]:
        return False, "load_data numbering / names differ"
    for x, y in zip(da[1], db[1]):
        if x[2].shape != y[2].shape or not np.allclose(x[2], y[2], rtol=1e-12, atol=1e-12) or not close(x[3], y[3], 1e-12) or not close(x[4], y[4], 1e-12):
            return False, f"data point {x[1]} differs"
    return True, ""


def permuted(case, seed, i):
    rows, cl = list(case["rows"]), case.get("clusters")
    r = random.Random(seed)
    if i == 0:
        rows.reverse()
    elif i == 1:
        rows.sort(key=lambda x: (str(x[1]), str(x[0]), x[2], x[3], x[4], x[5]), reverse=True)
    else:
        r.shuffle(rows)
    if cl is not None and i % 2 == 1:
        cl = list(cl)
        r.shuffle(cl)
    return rows, cl


# ------------------------------------------------------------------------------------- model side
def model_request(case):
    rows = [[str(r[0]), str(r[1]), r[2], r[3], r[4], r[5], r[6], str(Fraction(r[7])), str(Fraction(r[8]))] for r in case["rows"]]
    req = {"op": "load", "hasTC": case["hasTC"], "hasErr": case["hasErr"], "rows": rows}
    return req


def model_cluster_request(case):
    req = model_request(case)
    req["clusters"] = [[m, c, None if p is None else str(Fraction(p))] for m, c, p in case["clusters"]]
    req["op_prob"] = str(Fraction(case["op_prob"]))
    return req


EXC_OF = {"majorLtMinor": "MajorCopyNumberError", "missingCell": "KeyError", "dupCell": "ValueError", "noCluster": "KeyError"}


def ask_model(ctx, req):
    try:
        return ("ok", ctx.ask(req))
    except ModelError as e:
        msg = str(e)
        if not msg.startswith("reject "):
            raise
        parts = msg.split(" ")
        return ("exc", parts[1], parts[2:])


def corr_pyclone(ctx, case, real, mod):
    """load_pyclone_data vs model `load`."""
    rk = real["pyclone"]
    if mod[0] == "exc":
        if rk[0] != "exc":
            ctx.corr_fail(case, f"model rejects ({mod[1]}) but load_pyclone_data returned", None)
            return False
        if EXC_OF[mod[1]] != rk[1]:
            ctx.corr_fail(case, f"model rejects with {mod[1]} ({EXC_OF[mod[1]]}), code raised {rk[1]}", rk[2])
            return False
        if mod[1] == "missingCell" and rk[2] and mod[2][1] not in rk[2][0]:
            ctx.corr_fail(case, f"KeyError key {rk[2]} != model's missing sample {mod[2]}", None)
            return False
        if mod[1] == "majorLtMinor" and f"Major_CN: {mod[2][0]}, Minor CN: {mod[2][1]}" not in rk[2][0]:
            ctx.corr_fail(case, f"MajorCopyNumberError {rk[2]} != model {mod[2]}", None)
            return False
        ctx.stat("reject_" + mod[1])
        return True
    if rk[0] == "exc":
        ctx.corr_fail(case, f"code raised {rk[1]} but the model loads the table", rk[2])
        return False
    snap, ans = rk[1], mod[1]
    if snap["samples"] != ans["samples"]:
        ctx.corr_fail(case, "samples differ", {"code": snap["samples"], "model": ans["samples"]})
        return False
    if [n for n, _, _ in snap["muts"]] != [d["name"] for d in ans["data"]]:
        ctx.corr_fail(case, "kept mutations / order differ", {"code": [n for n, _, _ in snap["muts"]], "model": [d["name"] for d in ans["data"]]})
        return False
    if [d["idx"] for d in ans["data"]] != list(range(len(ans["data"]))):
        ctx.corr_fail(case, "model numbering is not 0..n-1", None)
        return False
    for (n, ss, ents), d in zip(snap["muts"], ans["data"]):
        if ss != ans["samples"] or len(ents) != len(d["entries"]):
            ctx.corr_fail(case, f"mutation {n}: sample vector length / order differs", None)
            return False
        for s, e, me in zip(ss, ents, d["entries"]):
            if (e["a"], e["b"], e["cn"]) != (me["a"], me["b"], me["cn"]):
                ctx.corr_fail(case, f"mutation {n} sample {s}: a/b/cn differ", {"code": e, "model": me})
                return False
            if not close(e["t"], float(Fraction(me["t"])), 1e-12):
                ctx.corr_fail(case, f"mutation {n} sample {s}: tumour content", {"code": e["t"], "model": me["t"]})
                return False
            if len(e["mu"]) != len(me["mu"]) or not all(close(x, float(Fraction(y)), 1e-12) for rc, rm in zip(e["mu"], me["mu"]) for x, y in zip(rc, rm)):
                ctx.corr_fail(case, f"mutation {n} sample {s}: VAF rows differ", {"code": e["mu"], "model": me["mu"]})
                return False
            if not all(close(x, -math.log(len(e["cn"])), 1e-12) for x in e["log_pi"]):
                ctx.corr_fail(case, f"mutation {n} sample {s}: genotype prior not uniform", e["log_pi"])
                return False
    return True


def corr_data(ctx, case, real, mod, modc):
    """load_data vs model `loadData` / `loadClustered`."""
    rd = real["data"]
    cl = case.get("clusters")
    m = mod if cl is None else modc
    if m[0] == "exc":
        if rd[0] != "exc" or EXC_OF[m[1]] != rd[1]:
            ctx.corr_fail(case, f"load_data: model rejects with {m[1]}, code: {rd[0]} {rd[1] if rd[0] == 'exc' else ''}", None)
            return False
        if m[1] == "noCluster":
            ctx.stat("reject_noCluster")
        return True
    if rd[0] == "exc":
        ctx.corr_fail(case, f"load_data raised {rd[1]} but the model loads", rd[2])
        return False
    dps, dsamples = rd[1], rd[2]
    ans = m[1]
    if dsamples != ans["samples"]:
        ctx.corr_fail(case, "load_data samples differ", None)
        return False
    items = ans["data"] if cl is None else ans["clusters"]
    if [(d[0], str(d[1])) for d in dps] != [(x["idx"], x["name"]) for x in items] or any(not isinstance(d[1], str) for d in dps):
        ctx.corr_fail(case, "load_data idx / names differ", {"code": [(d[0], d[1]) for d in dps], "model": [(x["idx"], x["name"]) for x in items]})
        return False
    G, S = case["grid"], len(dsamples)
    grids = {}
    if real["pyclone"][0] == "ok":
        for name, dp in real["pyclone"][2].items():
            grids[name] = dp.to_likelihood_grid("binomial", G, precision=400)
    op = Fraction(case["op_prob"])
    for d, x in zip(dps, items):
        members = [x["name"]] if cl is None else x["members"]
        want = np.sum(np.array([grids[mm] for mm in members]), axis=0)
        if d[2].shape != (S, G) or not np.allclose(d[2], want, rtol=1e-10, atol=1e-10):
            ctx.corr_fail(case, f"data point {x['name']}: value is not the sum of the grids of {members}", None)
            return False
        p, size = (op, 1) if cl is None else (Fraction(x["prob"]), x["size"])
        if p == 0:
            w1, w0 = 0.0, 0.0
        else:
            w1, w0 = math.log(p) * size, math.log1p(-float(p)) * size
        if not (close(d[3], w1) and close(d[4], w0)):
            ctx.corr_fail(case, f"data point {x['name']}: outlier probabilities", {"code": [d[3], d[4]], "model": [w1, w0], "p": str(p), "size": size})
            return False
    return True


def check(ctx, case, use_model=True):
    kind = case["kind"]
    ctx.stat("kind_" + kind)
    rows = case["rows"]
    exp = expected(case, rows)
    S = len(exp["samples"])
    ctx.stat(f"samples_{S}")
    ctx.stat("sep_" + ("tab" if case["sep"] == "\t" else "comma"))
    ctx.stat(f"optcols_tc{int(case['hasTC'])}_err{int(case['hasErr'])}")
    ctx.stat("with_cluster_file" if case.get("clusters") is not None else "without_cluster_file")
    nm = len({r[0] for r in rows})
    ctx.stat("mutations_total", nm)
    ctx.stat("mutations_kept", len(exp["kept"]))
    if exp["degenerate"]:
        ctx.stat("tables_with_offset_mix")
    if exp["mlm"]:
        ctx.stat("tables_with_major_lt_minor_kept")
    if "excluded" in exp:
        ctx.stat("tables_excluded_sample_without_usable_row")
    with tempfile.TemporaryDirectory(prefix="c17_") as tmp:
        real = run_real(tmp, case, rows, case.get("clusters"), "base")
        ok = oracle_check(ctx, case, rows, real, exp, "as given")
        # the permutation test itself
        for i, seed in enumerate(case["perms"]):
            prow, pcl = permuted(case, seed, i)
            other = run_real(tmp, case, prow, pcl, f"p{i}")
            same, why = same_result(real, other)
            ctx.stat("permutations_checked")
            if not same:
                ctx.oracle_fail({**case, "rows_permuted": prow, "clusters_permuted": pcl}, f"row order changes the result: {why}", "pyclone.load_pyclone_data", "order-dependent", why)
                ok = False
                break
        if use_model and kind != "intids":
            mod = ask_model(ctx, model_request(case))
            good = corr_pyclone(ctx, case, real, mod)
            if good:
                modc = ask_model(ctx, model_cluster_request(case)) if case.get("clusters") is not None else None
                corr_data(ctx, case, real, mod, modc)
        elif kind == "intids" and real["pyclone"][0] == "ok":
            names = [n for n, _, _ in real["pyclone"][1]["muts"]]
            ctx.stat("intids_names_are_int" if all(isinstance(n, (int, np.integer)) for n in names) else "intids_names_are_str")
            ctx.stat("intids_numeric_order" if names == sorted(names, key=int) else "intids_other_order")
    dropped = nm - len(exp["kept"])
    ctx.done(case, nontrivial=(S >= 2 and len(exp["kept"]) >= 1 and dropped >= 1),
             sample={"kind": kind, "samples": exp["samples"], "kept": sorted(map(str, exp["kept"])), "rows": len(rows), "dropped": dropped,
                     "clusters": None if case.get("clusters") is None else len(case["clusters"])})
    return ok


def search(ctx, failed_cases, rnd, deadline):
    """Oracle-only search (no model): the disagreeing inputs first, then fresh ones."""
    for c in list(failed_cases) + cases("quick", rnd):
        if time.time() > deadline or ctx.oracle_failures:
            break
        c = {k: v for k, v in c.items() if k not in ("rows_permuted", "clusters_permuted")}
        check(ctx, c, use_model=False)


def shrink(failure):
    """Greedy row / mutation removal while the same oracle signature persists."""
    from ..runner import Ctx

    case = {k: v for k, v in failure["case"].items() if k not in ("rows_permuted", "clusters_permuted")}
    sig = failure.get("signature")

    def fails(c):
        ctx = Ctx(ID, "quick", 0, None)
        try:
            check(ctx, c, use_model=False)
        except Exception:
            return None
        for f in ctx.oracle_failures:
            if f.get("signature") == sig:
                return f
        return None

    best = failure
    deadline = time.time() + 20
    changed = True
    while changed and time.time() < deadline:
        changed = False
        muts = sorted({str(r[0]) for r in case["rows"]})
        for m in muts:
            c2 = dict(case, rows=[r for r in case["rows"] if str(r[0]) != m])
            if c2["clusters"] is not None:
                c2["clusters"] = [x for x in c2["clusters"] if x[0] != m]
            f = fails(c2) if c2["rows"] else None
            if f:
                case, best, changed = c2, f, True
                break
    return best
